import Libp2pModel.Common.Lru
/-!
# C54 — `libp2p_peer_store::memory_store::MemoryStore` (misc/peer-store/src/memory_store.rs)

`records : LruCache<PeerId, PeerRecord<T>>`, each record `addresses : LruCache<Multiaddr, bool>`
(the `bool` = "permanent": only force-removable) + `custom_data : Option<T>`, and a FIFO of
pending `Event`s.  Peers, addresses and custom data are opaque (`Nat`): the code only uses
`Eq`/`Hash`/`clone` on them.  `LruCache` is `Lru.Cache` (hashlink 0.12.1 transcribed).

`addInner fixed` is `add_address_inner`: with `fixed = false` it is the code as it was at the
pinned commit (`records.entry(..).or_insert_with(..)` — may leave `peer_capacity + 1` peers), with
`fixed = true` the repaired code (findings/C54-peer-cap-plus-one.fix.diff: after the record update,
`if records.len() > records.capacity() { records.remove_lru(); }`).  The model of the current
tree is `step = stepG true`.
-/
namespace C54
open Lru

abbrev Peer := Nat
abbrev Addr := Nat

/-- `Config`; the two capacities are `NonZeroUsize` in the code (`1 ≤` is a hypothesis of the theorems) -/
structure Cfg where
  peerCap : Nat
  recCap : Nat
  removeOnErr : Bool
  deriving DecidableEq, Repr

/-- `PeerRecord<T>` -/
structure Rec where
  addrs : Cache Addr Bool
  custom : Option Nat

inductive Event
  | added (p : Peer) (a : Addr) (perm : Bool)
  | removed (p : Peer) (a : Addr)
  deriving DecidableEq, Repr

structure State where
  records : Cache Peer Rec
  pending : List Event
  cfg : Cfg

/-- `MemoryStore::new` -/
def init (cfg : Cfg) : State := ⟨Cache.new cfg.peerCap, [], cfg⟩

/-- `PeerRecord::new` -/
def Rec.new (cap : Nat) : Rec := ⟨Cache.new cap, none⟩

/-- `PeerRecord::add_address`: `addresses.get` promotes; a non-permanent entry is upgraded by an
`insert`; a new address is `insert`ed (evicting the record's LRU address when full). -/
def Rec.addAddress (r : Rec) (a : Addr) (isPerm : Bool) : Rec × Bool :=
  match r.addrs.getMut a with
  | (c1, some wasPerm) =>
    if !wasPerm && isPerm then ({ r with addrs := (c1.insert a isPerm).1 }, false)
    else ({ r with addrs := c1 }, false)
  | (_, none) => ({ r with addrs := (r.addrs.insert a isPerm).1 }, true)

/-- `PeerRecord::remove_address` -/
def Rec.removeAddress (r : Rec) (a : Addr) (force : Bool) : Rec × Bool :=
  if !force && r.addrs.peek a == some true then (r, false)
  else
    let res := r.addrs.remove a
    ({ r with addrs := res.1 }, res.2.isSome)

/-- `add_address_inner` -/
def addInner (fixed : Bool) (s : State) (p : Peer) (a : Addr) (isPerm : Bool) : State × Bool :=
  let e := s.records.entryOrInsertWith p (Rec.new s.cfg.recCap)
  let ra := e.2.addAddress a isPerm
  -- the write through `&mut PeerRecord` (the entry sits at the back)
  let recs := e.1.upsertBack p ra.1
  let recs := if fixed then recs.evictIfOver else recs
  ({ s with records := recs,
            pending := if ra.2 then s.pending ++ [Event.added p a isPerm] else s.pending }, ra.2)

/-- `remove_address_inner` -/
def removeInner (s : State) (p : Peer) (a : Addr) (force : Bool) : State × Bool :=
  match s.records.getMut p with
  | (recs1, some r) =>
    let rr := r.removeAddress a force
    if rr.2 then
      let recs2 := recs1.upsertBack p rr.1
      let recs3 := if rr.1.addrs.isEmpty && rr.1.custom.isNone then (recs2.remove p).1 else recs2
      ({ s with records := recs3, pending := s.pending ++ [Event.removed p a] }, true)
    else ({ s with records := recs1.upsertBack p rr.1 }, false)
  | (_, none) => (s, false)

/-- the `for failed_addr in …  { remove_address_inner(peer, failed_addr, false) }` loops -/
def removeMany (s : State) (p : Peer) (l : List Addr) : State :=
  l.foldl (fun s f => (removeInner s p f false).1) s

/-- `take_custom_data` -/
def takeCustom (s : State) (p : Peer) : State × Option Nat :=
  match s.records.getMut p with
  | (recs1, some r) =>
    let r' : Rec := { r with custom := none }
    let recs2 := recs1.upsertBack p r'
    let recs3 := if r'.addrs.isEmpty then (recs2.remove p).1 else recs2
    ({ s with records := recs3 }, r.custom)
  | (_, none) => (s, none)

/-- `insert_custom_data` -/
def insertCustom (s : State) (p : Peer) (d : Nat) : State :=
  match s.records.getMut p with
  | (recs1, some r) => { s with records := recs1.upsertBack p { r with custom := some d } }
  | (_, none) =>
    -- `PeerRecord::new(cap)` + `insert_custom_data(d)`, then `records.insert`
    { s with records := (s.records.insert p ⟨Cache.new s.cfg.recCap, some d⟩).1 }

/-- `DialError`, as far as `on_swarm_event` distinguishes -/
inductive DialErr
  | wrongPeer (obtained : Peer) (addr : Addr)
  | transport (addrs : List Addr)
  | other
  deriving DecidableEq, Repr

inductive Op
  | add (p : Peer) (a : Addr)                 -- `MemoryStore::add_address`
  | remove (p : Peer) (a : Addr)              -- `MemoryStore::remove_address`
  | newExt (p : Peer) (a : Addr)              -- `FromSwarm::NewExternalAddrOfPeer`
  | connEst (p : Peer) (remote : Addr) (failed : List Addr) (dialer : Bool)  -- `FromSwarm::ConnectionEstablished`
  | dialFail (peer : Option Peer) (err : DialErr)                          -- `FromSwarm::DialFailure`
  | otherSwarm                                -- any other `FromSwarm` variant
  | insertCustom (p : Peer) (d : Nat)
  | takeCustom (p : Peer)
  | getCustomMut (p : Peer)
  | getCustom (p : Peer)
  | addrsOf (p : Peer)                        -- `Store::addresses_of_peer`
  | poll                                      -- `Store::poll`
  deriving DecidableEq, Repr

inductive Out
  | bool (b : Bool)
  | unit
  | data (d : Option Nat)
  | addrs (l : Option (List Addr))
  | event (e : Option Event)                  -- `none` = `Poll::Pending`
  deriving DecidableEq, Repr

/-- `Store::on_swarm_event` -/
def onSwarm (fixed : Bool) (s : State) : Op → State
  | .newExt p a => (addInner fixed s p a false).1
  | .connEst p remote failed dialer =>
    if dialer then
      let s1 := if s.cfg.removeOnErr then removeMany s p failed else s
      (addInner fixed s1 p remote false).1
    else s
  | .dialFail peer err =>
    if !s.cfg.removeOnErr then s
    else match peer with
      | none => s
      | some p =>
        match err with
        | .wrongPeer obtained addr =>
          let r := removeInner s p addr false
          if r.2 then (addInner fixed r.1 obtained addr false).1 else r.1
        | .transport addrs => removeMany s p addrs
        | .other => s
  | _ => s

/-- one public-API call -/
def stepG (fixed : Bool) (s : State) : Op → State × Out
  | .add p a => let r := addInner fixed s p a true; (r.1, .bool r.2)
  | .remove p a => let r := removeInner s p a true; (r.1, .bool r.2)
  | .insertCustom p d => (insertCustom s p d, .unit)
  | .takeCustom p => let r := takeCustom s p; (r.1, .data r.2)
  | .getCustomMut p =>
    let r := s.records.getMut p
    ({ s with records := r.1 }, .data (r.2.bind (·.custom)))
  | .getCustom p => (s, .data ((s.records.peek p).bind (·.custom)))
  | .addrsOf p => (s, .addrs ((s.records.peek p).map fun r => r.addrs.iter.reverse.map Prod.fst))
  | .poll =>
    match s.pending with
    | e :: rest => ({ s with pending := rest }, .event (some e))
    | [] => (s, .event none)
  | op => (onSwarm fixed s op, .unit)

/-- the model of the current (repaired) tree -/
def step : State → Op → State × Out := stepG true

/-- what `record_iter()` + `PeerRecord::addresses()` + `get_custom_data()` show: peers LRU → MRU,
each with its addresses MRU → LRU -/
abbrev Dump := List (Peer × List Addr × Option Nat)

def dump (s : State) : Dump :=
  s.records.iter.map fun pr => (pr.1, pr.2.addrs.iter.reverse.map Prod.fst, pr.2.custom)

/-- permanence flag of `(p, a)`: `none` = not stored -/
def flag (s : State) (p : Peer) (a : Addr) : Option Bool :=
  (s.records.peek p).bind fun r => r.addrs.peek a

/-! ## The executable Spec: a trace monitor over observed (return value, dump) pairs

The monitor is a *set-level* reference: it knows which `(peer, address)` pairs were stored
(from the last dump), which of them are permanent (explicitly added and not explicitly removed
since), and which events must still come out of `poll`. It knows nothing about LRU order; a
pair may silently disappear only in an op that inserted a NEW key (capacity eviction). -/

abbrev Pair := Peer × Addr

def pairsOf (d : Dump) : List Pair := d.flatMap fun e => e.2.1.map fun a => (e.1, a)

structure Ref where
  cur : List Pair
  evs : List Event
  newKey : Bool

def Ref.start (cur : List Pair) : Ref := ⟨cur, [], false⟩

/-- reference `remove_address_inner` -/
def Ref.remove (perm : List Pair) (r : Ref) (p : Peer) (a : Addr) (force : Bool) : Ref × Bool :=
  if r.cur.contains (p, a) && (force || !perm.contains (p, a)) then
    ({ r with cur := r.cur.filter (fun x => x != (p, a)), evs := r.evs ++ [Event.removed p a] }, true)
  else (r, false)

/-- reference `add_address_inner` -/
def Ref.add (r : Ref) (p : Peer) (a : Addr) (isPerm : Bool) : Ref × Bool :=
  if r.cur.contains (p, a) then (r, false)
  else ({ cur := (p, a) :: r.cur, evs := r.evs ++ [Event.added p a isPerm], newKey := true }, true)

def Ref.removeMany (perm : List Pair) (r : Ref) (p : Peer) (l : List Addr) : Ref :=
  l.foldl (fun r f => (Ref.remove perm r p f false).1) r

/-- the property's reading of one op: resulting pair set, events that must be emitted, expected
`bool` result (for `add_address`/`remove_address`), and whether a new key was inserted. -/
def refOp (cfg : Cfg) (perm : List Pair) (peers : List Peer) (cur : List Pair) : Op → Ref × Option Bool
  | .add p a => let r := Ref.add (Ref.start cur) p a true; (r.1, some r.2)
  | .remove p a => let r := Ref.remove perm (Ref.start cur) p a true; (r.1, some r.2)
  | .newExt p a => ((Ref.add (Ref.start cur) p a false).1, none)
  | .connEst p remote failed dialer =>
    if dialer then
      let r1 := if cfg.removeOnErr then Ref.removeMany perm (Ref.start cur) p failed else Ref.start cur
      ((Ref.add r1 p remote false).1, none)
    else (Ref.start cur, none)
  | .dialFail peer err =>
    if !cfg.removeOnErr then (Ref.start cur, none)
    else match peer with
      | none => (Ref.start cur, none)
      | some p =>
        match err with
        | .wrongPeer obtained addr =>
          let r := Ref.remove perm (Ref.start cur) p addr false
          if r.2 then ((Ref.add r.1 obtained addr false).1, none) else (r.1, none)
        | .transport addrs => (Ref.removeMany perm (Ref.start cur) p addrs, none)
        | .other => (Ref.start cur, none)
  | .insertCustom p _ => ({ Ref.start cur with newKey := !peers.contains p }, none)
  | _ => (Ref.start cur, none)

/-- ops that are swarm events (the "automatic" paths) -/
def isAuto : Op → Bool
  | .newExt .. | .connEst .. | .dialFail .. | .otherSwarm => true
  | _ => false

structure Mon where
  cfg : Cfg
  prev : Dump
  perm : List Pair
  queue : List Event

def Mon.init (cfg : Cfg) : Mon := ⟨cfg, [], [], []⟩

/-- permanent set after the op: explicit add marks, explicit remove unmarks, and whatever is no
longer stored drops out -/
def permAfter (perm : List Pair) (op : Op) (after : List Pair) : List Pair :=
  let perm1 := match op with
    | .add p a => (p, a) :: perm
    | .remove p a => perm.filter (fun x => x != (p, a))
    | _ => perm
  perm1.filter after.contains

/-- first failing check (`(key, passed)`), or `"ok"` -/
def firstFail : List (String × Bool) → String
  | [] => "ok"
  | (k, ok) :: t => if ok then firstFail t else "FAIL:" ++ k

/-- the clauses of the property, evaluated on one observed step (in this order) -/
def checks (t : Mon) (op : Op) (ret : Out) (d : Dump) : List (String × Bool) :=
  if op = Op.poll then
    [ ("events_exact", ret == Out.event t.queue.head?),
      ("poll_changed_store", d == t.prev) ]
  else
    let rr := refOp t.cfg t.perm (t.prev.map (·.1)) (pairsOf t.prev) op
    let r := rr.1
    let after := pairsOf d
    [ ("peer_cap", decide (d.length ≤ t.cfg.peerCap)),
      ("record_cap", d.all (fun e => decide (e.2.1.length ≤ t.cfg.recCap))),
      ("events_exact_ret", match rr.2 with | some b => ret == Out.bool b | none => true),
      ("permanent_survives", !isAuto op || r.newKey ||
          t.perm.all (fun x => !(pairsOf t.prev).contains x || after.contains x)),
      ("phantom_address", after.all (fun x => r.cur.contains x)),
      ("silent_loss", r.newKey || r.cur.all (fun x => after.contains x)) ]

/-- first violated clause of the property, or `"ok"` -/
def verdict (t : Mon) (op : Op) (ret : Out) (d : Dump) : String := firstFail (checks t op ret d)

def monStep (t : Mon) (op : Op) (d : Dump) : Mon :=
  if op = Op.poll then { t with queue := t.queue.tail, prev := d }
  else
    let r := (refOp t.cfg t.perm (t.prev.map (·.1)) (pairsOf t.prev) op).1
    { t with prev := d, perm := permAfter t.perm op (pairsOf d), queue := t.queue ++ r.evs }

/-- the trace monitor -/
def spec (t : Mon) (op : Op) (ret : Out) (d : Dump) : Mon × String :=
  (monStep t op d, verdict t op ret d)

end C54
