/-!
# C42 — record lifetimes (`protocols/kad/src/behaviour.rs::record_received`,
`exp_decrease`, `protocols/kad/src/protocol.rs::{record_to_proto, record_from_proto}`)

Time: an `Instant` is a `Nat` number of nanoseconds on the monotonic clock, a `Duration` is a
`Nat` number of nanoseconds.  `Instant + Duration` panics in Rust when the seconds leave `i64`
(`"overflow when adding duration to instant"`): `instAdd` returns `none` for that.
`Option<Instant>` is ordered as in Rust: `None < Some _`.
-/
namespace C42

def NS : Nat := 1000000000
def i64Max : Nat := 2 ^ 63 - 1
def u32Max : Nat := 2 ^ 32 - 1

/-- `Instant + Duration`; `none` = the `expect("overflow when adding duration to instant")` panic. -/
def instAdd (t d : Nat) : Option Nat :=
  if (t + d) / NS ≤ i64Max then some (t + d) else none

/-- `Option::or` -/
def optOr (a b : Option Nat) : Option Nat :=
  match a with
  | some x => some x
  | none => b

/-- `Ord::min` on `Option<Instant>` with the derived ordering `None < Some _`. -/
def optMin (a b : Option Nat) : Option Nat :=
  match a, b with
  | none, _ => none
  | some _, none => none
  | some x, some y => some (min x y)

/-- `exp_decrease(ttl, exp) = Duration::from_secs(ttl.as_secs().checked_shr(exp).unwrap_or(0))` -/
def expDecrease (ttl exp : Nat) : Nat :=
  (if exp < 64 then (ttl / NS) >>> exp else 0) * NS

/-- `Record::is_expired(now) = expires.is_some_and(|t| now >= t)` -/
def isExpired (e : Option Nat) (now : Nat) : Bool :=
  match e with
  | some t => decide (t ≤ now)
  | none => false

/-- The expiry merge as it was before the fix: `record.expires.or(expiration).min(expiration)`. -/
def mergeBuggy (remote expiration : Option Nat) : Option Nat :=
  optMin (optOr remote expiration) expiration

/-- The repaired merge:
```
record.expires = match (record.expires, expiration) {
    (Some(remote), Some(local)) => Some(remote.min(local)),
    (remote, local) => remote.or(local),
};
``` -/
def merge (remote expiration : Option Nat) : Option Nat :=
  match remote, expiration with
  | some a, some b => some (min a b)
  | a, b => optOr a b

inductive Outcome where
  /-- `now + exp_decrease(..)` overflowed -/
  | panic
  /-- the merged record is already expired: nothing stored, nothing emitted (still acknowledged) -/
  | dropped (e : Option Nat)
  /-- stored (`StoreInserts::Unfiltered`) or handed to the application (`FilterBoth`) with expiry `e` -/
  | kept (e : Option Nat)
  deriving DecidableEq, Repr

/-- `num_beyond_k = (usize::max(k, num_between) - k) as u32` -/
def beyondK (k nb : Nat) : Nat := max k nb - k

/-- `expiration = self.record_ttl.map(|ttl| now + exp_decrease(ttl, num_beyond_k))`;
outer `none` = panic. -/
def localExpiration (ttl : Option Nat) (k nb now : Nat) : Option (Option Nat) :=
  match ttl with
  | none => some none
  | some t => (instAdd now (expDecrease t (beyondK k nb))).map some

/-- `Behaviour::record_received` (publisher ≠ local node), parameterised by the merge. -/
def recordReceivedWith (mrg : Option Nat → Option Nat → Option Nat)
    (remote : Option Nat) (ttl : Option Nat) (k nb now : Nat) : Outcome :=
  match localExpiration ttl k nb now with
  | none => .panic
  | some expiration =>
    let e := mrg remote expiration
    if isExpired e now then .dropped e else .kept e

def recordReceived := recordReceivedWith merge
def recordReceivedBuggy := recordReceivedWith mergeBuggy

/-- `record_to_proto(..).ttl` after the fix:
`if t > now { u32::try_from((t - now).as_secs()).unwrap_or(u32::MAX).max(1) } else { 1 }`, `0` when
the record has no expiry. -/
def toProtoTtl (expires : Option Nat) (now : Nat) : Nat :=
  match expires with
  | none => 0
  | some t => if t > now then max (min ((t - now) / NS) u32Max) 1 else 1

/-- before the fix: `(t - now).as_secs() as u32` (truncating cast). -/
def toProtoTtlBuggy (expires : Option Nat) (now : Nat) : Nat :=
  match expires with
  | none => 0
  | some t => if t > now then ((t - now) / NS) % 2 ^ 32 else 1

/-- `record_from_proto(..).expires`: `if ttl > 0 { Some(Instant::now() + from_secs(ttl)) } else { None }`;
outer `none` = panic. -/
def fromProtoExpires (ttl now : Nat) : Option (Option Nat) :=
  if ttl > 0 then (instAdd now (ttl * NS)).map some else some none

/-! ## The executable statement of the property (run on the implementation's outputs) -/

/-- Clause 1 on one received record: `remote` = expiry the peer gave, `ttl` = locally configured
record TTL, `e` = the expiry the record was stored / handed on with. Returns the failure key. -/
def specKept (remote ttl : Option Nat) (now : Nat) (e : Option Nat) : String :=
  match e with
  | none =>
    if remote.isSome then "FAIL:remote_ttl_lost"
    else if ttl.isSome then "FAIL:local_ttl_lost"
    else "ok"
  | some x =>
    if (match remote with | some r => decide (r < x) | none => false) then "FAIL:later_than_remote"
    else if (match ttl with | some l => decide (now + l < x) | none => false) then "FAIL:later_than_local"
    else "ok"

/-- Clause 2 on one outgoing record: a record with an expiry is never sent with `ttl = 0`
("does not expire"), and the lifetime on the wire is not longer than the remaining lifetime
rounded up to the wire's granularity (whole seconds, at least 1). -/
def specToProto (expires : Option Nat) (now : Nat) (ttl : Nat) : String :=
  match expires with
  | none => "ok"
  | some t =>
    if ttl = 0 then "FAIL:sent_as_never_expiring"
    else if ttl ≠ 1 ∧ ¬ ((ttl - 1) * NS < t - now) then "FAIL:ttl_extended"
    else "ok"

/-- Clause 1 at the decoder: a wire TTL `ttl > 0` must yield an expiry no later than `now + ttl s`. -/
def specFromProto (ttl now : Nat) (e : Option Nat) : String :=
  if ttl = 0 then "ok"
  else match e with
    | none => "FAIL:remote_ttl_lost"
    | some x => if now + ttl * NS < x then "FAIL:later_than_remote" else "ok"

end C42
