import Libp2pModel.Model.C39
/-!
# C39 — `FixedPeersIter` (`protocols/kad/src/query/peers/fixed.rs`)

`FnvHashMap<PeerId, PeerState>` → association list in insertion order; `vec::IntoIter` → the
remaining backlog.
-/
namespace C39.Fixed
open C39 (Out)

inductive FState
  | waiting | failed | succeeded
deriving DecidableEq, Repr

inductive St
  | waiting (numWaiting : Nat)
  | finished
deriving DecidableEq, Repr

structure Iter where
  parallelism : Nat
  peers : List (Nat × FState)
  backlog : List Nat
  state : St
deriving DecidableEq, Repr

def pfind : List (Nat × FState) → Nat → Option FState
  | [], _ => none
  | (q, st) :: t, p => if q = p then some st else pfind t p

def pset : List (Nat × FState) → Nat → FState → List (Nat × FState)
  | [], _, _ => []
  | (q, st) :: t, p, s' => if q = p then (q, s') :: t else (q, st) :: pset t p s'

/-- `FixedPeersIter::new` -/
def init (peers : List Nat) (parallelism : Nat) : Iter := ⟨parallelism, [], peers, .waiting 0⟩

/-- the `loop { match self.iter.next() … }`: skip peers already in the map -/
def pop : List Nat → List (Nat × FState) → Option Nat × List Nat
  | [], _ => (none, [])
  | p :: t, peers => if (pfind peers p).isSome then pop t peers else (some p, t)

/-- `FixedPeersIter::next` -/
def next (s : Iter) : Iter × Out :=
  match s.state with
  | .finished => (s, .finished)
  | .waiting nw =>
    if nw ≥ s.parallelism then (s, .atCapacity)
    else
      match pop s.backlog s.peers with
      | (none, rest) =>
        if nw = 0 then ({ s with backlog := rest, state := .finished }, .finished)
        else ({ s with backlog := rest }, .waiting none)
      | (some p, rest) =>
        ({ s with backlog := rest, peers := s.peers ++ [(p, .waiting)], state := .waiting (nw + 1) },
          .waiting (some p))

def report (s : Iter) (p : Nat) (st : FState) : Iter × Out :=
  match s.state with
  | .finished => (s, .bool false)
  | .waiting nw =>
    match pfind s.peers p with
    | some .waiting =>
      if nw = 0 then (s, .panic)
      else ({ s with peers := pset s.peers p st, state := .waiting (nw - 1) }, .bool true)
    | _ => (s, .bool false)

/-- `on_success` -/
def onSuccess (s : Iter) (p : Nat) : Iter × Out := report s p .succeeded
/-- `on_failure` -/
def onFailure (s : Iter) (p : Nat) : Iter × Out := report s p .failed

/-- `finish` -/
def finish (s : Iter) : Iter :=
  match s.state with
  | .waiting _ => { s with state := .finished }
  | .finished => s

def isFinished (s : Iter) : Bool := s.state = .finished

/-- `into_result` (a `HashMap` iteration: unordered; compared as a sorted list) -/
def result (s : Iter) : List Nat := (s.peers.filter (fun e => e.2 = .succeeded)).map (·.1)

def numWaiting (s : Iter) : Nat :=
  match s.state with
  | .waiting nw => nw
  | .finished => 0

inductive Op
  | next
  | success (p : Nat)
  | failure (p : Nat)
  | finish
deriving DecidableEq, Repr

def step (s : Iter) : Op → Iter × Out
  | .next => next s
  | .success p => onSuccess s p
  | .failure p => onFailure s p
  | .finish => (finish s, .unit)

/-! ## executable statement (trace monitor; observation = `is_finished()` after the call, and the
sorted `into_result()` at the end of the case) -/

structure Mon where
  parallelism : Nat
  peers : List Nat
  issued : List Nat
  /-- issued and neither reported back nor failed -/
  pending : List Nat
  accepted : List Nat
  fin : Bool
deriving Repr

def monInit (peers : List Nat) (parallelism : Nat) : Mon := ⟨parallelism, peers, [], [], [], false⟩

def monStep (m : Mon) (op : Op) (out : Out) (fin : Bool) : Mon × Option String :=
  let r : Mon × Option String :=
    match op, out with
    | .next, .waiting (some p) =>
      if m.fin then (m, some "finished_absorbing")
      else if m.issued.contains p then (m, some "peer_twice")
      else if !m.peers.contains p then (m, some "unknown_peer")
      else if m.pending.length ≥ m.parallelism then (m, some "inflight_bound")
      else ({ m with issued := p :: m.issued, pending := p :: m.pending }, none)
    | .next, .waiting none =>
      if m.fin then (m, some "finished_absorbing")
      else if m.pending.isEmpty then (m, some "waiting_none_idle")
      else if !(m.peers.all (fun p => m.issued.contains p)) then (m, some "waiting_none_backlog")
      else (m, none)
    | .next, .atCapacity =>
      if m.fin then (m, some "finished_absorbing")
      else if m.pending.length < m.parallelism then (m, some "capacity_early")
      else (m, none)
    | .next, .finished =>
      if !m.fin && !(m.pending.isEmpty && m.peers.all (fun p => m.issued.contains p)) then
        (m, some "finished_not_closed")
      else ({ m with fin := true }, none)
    | .success p, .bool true =>
      if m.fin then (m, some "finished_absorbing")
      else if !m.pending.contains p then (m, some "unsolicited")
      else ({ m with pending := m.pending.filter (· ≠ p), accepted := p :: m.accepted }, none)
    | .success p, .bool false =>
      if !m.fin && m.pending.contains p then (m, some "response_dropped") else (m, none)
    | .failure p, .bool true =>
      if m.fin then (m, some "finished_absorbing")
      else if !m.pending.contains p then (m, some "unsolicited")
      else ({ m with pending := m.pending.filter (· ≠ p) }, none)
    | .failure p, .bool false =>
      if !m.fin && m.pending.contains p then (m, some "response_dropped") else (m, none)
    | .finish, .unit => ({ m with fin := true }, none)
    | _, _ => (m, some "bad_output")
  match r.2 with
  | some k => (r.1, some k)
  | none => (r.1, if fin ≠ r.1.fin then some "finished_flag" else none)

/-- the final `into_result()` (sorted by the harness) is exactly the set of accepted responders -/
def monResult (m : Mon) (res : List Nat) : Option String :=
  if res.all (fun p => m.accepted.contains p) && m.accepted.all (fun p => res.contains p)
      && C39.sortedAsc res then none
  else some "result"

end C39.Fixed
