import Libp2pModel.Common.Multiaddr
/-!
# C55 — mDNS response packets

Model of `protocols/mdns/src/behaviour/iface/dns.rs` (`build_query_response`, `query_response_packet`,
`append_txt_record`, `append_character_string`, `append_qname`, `duration_to_secs`,
`decode_character_string`) — byte-exact over `List Nat` — and of the receiving side
`query.rs` (`MdnsResponse::new`, `MdnsPeer::new`) on top of a Lean parser for exactly the packet
shape the builder emits (`parseShape`; everything else is "out of shape": hickory is trusted there).

External functions are parameters:
* the random peer name (`generate_peer_name`): the label `nm` is read off the real packet (oracle);
* `str::from_utf8(..).parse::<Multiaddr>()` (multiaddr crate): `oracle : Bytes → Option Maddr`;
* `Multiaddr::to_string`, `PeerId::to_base58`: the texts are inputs.

The model mirrors the REPAIRED code (findings/C55-*.fix.diff); `appendTxtRecordBuggy` and
`MAX_RECORDS_PER_PACKET_BUGGY` keep the pre-fix behaviour for the counterexample theorems.
-/
namespace C55

abbrev Bytes := List Nat

/-! ## constants (dns.rs) -/
def MAX_TXT_VALUE_LENGTH : Nat := 255
def MAX_TXT_RECORD_SIZE : Nat := MAX_TXT_VALUE_LENGTH + 76
def MAX_PACKET_SIZE : Nat := 9000 - 68
def MAX_RECORDS_PER_PACKET : Nat := (MAX_PACKET_SIZE - 100) / MAX_TXT_RECORD_SIZE
/-- pre-fix: `MAX_TXT_RECORD_SIZE = MAX_TXT_VALUE_LENGTH + 45` -/
def MAX_RECORDS_PER_PACKET_BUGGY : Nat := (MAX_PACKET_SIZE - 100) / (MAX_TXT_VALUE_LENGTH + 45)

/-- `b"_p2p._udp.local"` -/
def SERVICE_NAME : Bytes := [95, 112, 50, 112, 46, 95, 117, 100, 112, 46, 108, 111, 99, 97, 108]
/-- `b"dnsaddr="` -/
def DNSADDR : Bytes := [100, 110, 115, 97, 100, 100, 114, 61]
/-- `b"/p2p/"` -/
def P2P : Bytes := [47, 112, 50, 112, 47]

/-! ## builder -/

/-- `append_u16` (big endian; `x as u16` truncation is the `% 256` of the high byte) -/
def u16be (v : Nat) : Bytes := [(v / 256) % 256, v % 256]
/-- `append_u32` -/
def u32be (v : Nat) : Bytes := [(v / 16777216) % 256, (v / 65536) % 256, (v / 256) % 256, v % 256]

/-- `duration_to_secs`: round up to whole seconds (saturating in u64), clamp to `u32::MAX` -/
def durationToSecs (secs nanos : Nat) : Nat :=
  min (min (secs + (if nanos > 0 then 1 else 0)) 18446744073709551615) 4294967295

/-- `slice::split(|c| c == sep)` -/
def splitOn (sep : Nat) : Bytes → List Bytes
  | [] => [[]]
  | c :: cs =>
    if c = sep then [] :: splitOn sep cs
    else match splitOn sep cs with
      | [] => [[c]]
      | h :: t => (c :: h) :: t

/-- the loop of `append_qname`; `none` = one of its `assert!`s panics -/
def appendLabels : List Bytes → Option Bytes
  | [] => some [0]
  | l :: ls =>
    if l.length < 64 ∧ l.length ≠ 0 then (appendLabels ls).map (fun r => l.length :: (l ++ r)) else none

/-- `append_qname` on an empty buffer -/
def appendQname (name : Bytes) : Option Bytes := appendLabels (splitOn 46 name)

/-- `append_qname(SERVICE_NAME)` -/
def serviceQname : Bytes := [4, 95, 112, 50, 112, 4, 95, 117, 100, 112, 5, 108, 111, 99, 97, 108, 0]

def isAscii (s : Bytes) : Bool := s.all (· < 128)

/-- the escaping loop of `append_character_string` -/
def escape : Bytes → Bytes
  | [] => []
  | c :: cs =>
    if c = 92 then 92 :: 92 :: escape cs
    else if c = 34 then 92 :: 34 :: escape cs
    else c :: escape cs

inductive TxtErr where
  | tooLong | nonAscii
  deriving DecidableEq, Repr

/-- `append_character_string` (the bytes appended) -/
def appendCharacterString (s : Bytes) : Except TxtErr Bytes :=
  if !isAscii s then .error .nonAscii
  else if !(s.any (· == 32)) then .ok s
  else .ok (34 :: (escape s ++ [34]))

/-- `append_txt_record` on an empty buffer (repaired: the length byte is the length of the
character string actually written, and that length is what is limited to 255) -/
def appendTxtRecord (name : Bytes) (ttl : Nat) (value : Bytes) : Except TxtErr Bytes :=
  if value.length > MAX_TXT_VALUE_LENGTH then .error .tooLong
  else match appendCharacterString value with
    | .error e => .error e
    | .ok cs =>
      if cs.length > MAX_TXT_VALUE_LENGTH then .error .tooLong
      else .ok (name ++ [0, 16, 128, 1] ++ u32be ttl ++ u16be (cs.length + 1) ++ (cs.length :: cs))

/-- pre-fix `append_txt_record`: `vec![value.len() as u8]` then the (possibly quoted) string -/
def appendTxtRecordBuggy (name : Bytes) (ttl : Nat) (value : Bytes) : Except TxtErr Bytes :=
  if value.length > MAX_TXT_VALUE_LENGTH then .error .tooLong
  else match appendCharacterString value with
    | .error e => .error e
    | .ok cs => .ok (name ++ [0, 16, 128, 1] ++ u32be ttl ++ u16be (cs.length + 1) ++ (value.length % 256 :: cs))

/-- `format!("dnsaddr={}/p2p/{}", addr, peer_id.to_base58())` -/
def txtValue (text b58 : Bytes) : Bytes := DNSADDR ++ text ++ P2P ++ b58

/-- `query_response_packet` -/
def queryResponsePacket (id : Nat) (peerName : Bytes) (records : List Bytes) (ttl : Nat) : Bytes :=
  u16be id ++ u16be 0x8400 ++ u16be 0 ++ u16be 1 ++ u16be 0 ++ u16be records.length
    ++ serviceQname ++ u16be 0x000c ++ u16be 0x0001 ++ u32be ttl
    ++ u16be peerName.length ++ peerName ++ records.flatten

/-- the `for addr in addresses` loop of `build_query_response`: state = (records, packets) -/
def buildLoop (maxRec : Nat) (rec : Bytes → Except TxtErr Bytes) (pkt : List Bytes → Bytes) :
    List Bytes → List Bytes → List Bytes → List Bytes × List Bytes
  | [], recs, pkts => (recs, pkts)
  | v :: vs, recs, pkts =>
    let recs1 := match rec v with
      | .ok r => recs ++ [r]
      | .error _ => recs
    if recs1.length = maxRec then buildLoop maxRec rec pkt vs [] (pkts ++ [pkt recs1])
    else buildLoop maxRec rec pkt vs recs1 pkts

/-- the code after the loop -/
def buildFinish (pkt : List Bytes → Bytes) (st : List Bytes × List Bytes) : List Bytes :=
  let pkts1 := if st.1.isEmpty then st.2 else st.2 ++ [pkt st.1]
  if pkts1.isEmpty then [pkt []] else pkts1

/-- `build_query_response` with the peer-name qname `peerName` already generated;
`ttl` already converted by `durationToSecs`; `texts` = `addr.to_string()` of each address -/
def buildWith (maxRec : Nat) (rec : Bytes → Nat → Bytes → Except TxtErr Bytes)
    (id : Nat) (b58 : Bytes) (texts : List Bytes) (ttl : Nat) (peerName : Bytes) : List Bytes :=
  let pkt := fun recs => queryResponsePacket id peerName recs ttl
  buildFinish pkt
    (buildLoop maxRec (fun v => rec peerName ttl v) pkt ((texts.take 65535).map (txtValue · b58)) [] [])

def build (id : Nat) (b58 : Bytes) (texts : List Bytes) (ttl : Nat) (peerName : Bytes) : List Bytes :=
  buildWith MAX_RECORDS_PER_PACKET appendTxtRecord id b58 texts ttl peerName

/-- the whole of `build_query_response`; `nm` = the random alphanumeric peer name (oracle);
`none` = `append_qname` panicked -/
def buildQueryResponse (id : Nat) (b58 : Bytes) (texts : List Bytes) (secs nanos : Nat) (nm : Bytes) :
    Option (List Bytes) :=
  (appendQname nm).map (build id b58 texts (durationToSecs secs nanos))

/-! ## receiving side -/

inductive DecodeRes where
  | ok (b : Bytes) | err | panic
  deriving DecidableEq, Repr

/-- the unescaping loop added to `decode_character_string`; `none` = dangling backslash (`Err`) -/
def unescape : Bytes → Option Bytes
  | [] => some []
  | c :: rest =>
    if c = 92 then
      match rest with
      | [] => none
      | e :: rest' => (unescape rest').map (e :: ·)
    else (unescape rest).map (c :: ·)

/-- `decode_character_string`, index/slice operations with their panic conditions -/
def decodeCharacterString (src : Bytes) : DecodeRes :=
  if src.isEmpty then .ok []
  else match src.head? with
    | none => .panic                        -- `from[0]`
    | some c0 =>
      if c0 = 34 then
        if src.length = 1 ∨ src.getLast? ≠ some 34 then .err
        else if 1 > src.length - 1 then .panic      -- `&from[1..len - 1]`
        else
          let inner := (src.drop 1).take (src.length - 2)
          if inner.contains 92 then
            match unescape inner with
            | some u => .ok u
            | none => .err
          else .ok inner
      else .ok src

def isAlnum (c : Nat) : Bool := (48 ≤ c && c ≤ 57) || (65 ≤ c && c ≤ 90) || (97 ≤ c && c ≤ 122)
/-- label characters for which the shape parser makes a prediction -/
def isSafeChar (c : Nat) : Bool := isAlnum c || c == 45 || c == 95

def readU16 : Bytes → Option (Nat × Bytes)
  | a :: b :: r => some (a * 256 + b, r)
  | _ => none

def readU32 : Bytes → Option (Nat × Bytes)
  | a :: b :: c :: d :: r => some (a * 16777216 + b * 65536 + c * 256 + d, r)
  | _ => none

/-- uncompressed name: labels of 1..63 safe characters, terminated by 0 -/
def readLabels (buf : Bytes) : Option (List Bytes × Bytes) :=
  match buf with
  | [] => none
  | l :: rest =>
    if l = 0 then some ([], rest)
    else if l < 64 ∧ l ≤ rest.length ∧ (rest.take l).all isSafeChar then
      match readLabels (rest.drop l) with
      | some (ls, r) => some (rest.take l :: ls, r)
      | none => none
    else none
termination_by buf.length
decreasing_by simp [List.length_drop]; omega

def wireLen (ls : List Bytes) : Nat := (ls.map (·.length + 1)).sum + 1

/-- a name the model predicts on: at most 250 bytes on the wire -/
def readName (buf : Bytes) : Option (List Bytes × Bytes) :=
  match readLabels buf with
  | some (ls, r) => if wireLen ls ≤ 250 then some (ls, r) else none
  | none => none

/-- the `<character-string>`s of a TXT rdata, which must be consumed exactly -/
def readStrings (rd : Bytes) : Option (List Bytes) :=
  match rd with
  | [] => some []
  | l :: rest =>
    if l < 256 ∧ l ≤ rest.length then
      match readStrings (rest.drop l) with
      | some ss => some (rest.take l :: ss)
      | none => none
    else none
termination_by rd.length
decreasing_by simp [List.length_drop]; omega

structure TxtRec where
  owner : List Bytes
  ttl : Nat
  rdata : Bytes
  strings : List Bytes
  deriving DecidableEq, Repr

structure Shape where
  id : Nat
  ansName : List Bytes
  ansTtl : Nat
  ptr : List Bytes
  recs : List TxtRec
  deriving DecidableEq, Repr

/-- one additional record: name, TYPE=TXT(16), CLASS=IN|cache-flush (0x8001), ttl, rdlength ≥ 1, strings -/
def readTxtRecord (buf : Bytes) : Option (TxtRec × Bytes) :=
  match readName buf with
  | none => none
  | some (owner, r1) =>
    match readU16 r1 with
    | none => none
    | some (ty, r2) =>
      match readU16 r2 with
      | none => none
      | some (cl, r3) =>
        match readU32 r3 with
        | none => none
        | some (ttl, r4) =>
          match readU16 r4 with
          | none => none
          | some (rdlen, r5) =>
            if ty = 16 ∧ cl = 0x8001 ∧ 1 ≤ rdlen ∧ rdlen ≤ r5.length then
              match readStrings (r5.take rdlen) with
              | some ss => some (⟨owner, ttl, r5.take rdlen, ss⟩, r5.drop rdlen)
              | none => none
            else none

def readRecords : Nat → Bytes → Option (List TxtRec × Bytes)
  | 0, buf => some ([], buf)
  | n + 1, buf =>
    match readTxtRecord buf with
    | none => none
    | some (r, rest) =>
      match readRecords n rest with
      | none => none
      | some (rs, rest') => some (r :: rs, rest')

/-- the answer record: name, TYPE=PTR(12), CLASS=IN(1), ttl, rdlength, rdata = one uncompressed name -/
def readAnswer (buf : Bytes) : Option ((List Bytes × Nat × List Bytes) × Bytes) :=
  match readName buf with
  | none => none
  | some (name, r1) =>
    match readU16 r1 with
    | none => none
    | some (ty, r2) =>
      match readU16 r2 with
      | none => none
      | some (cl, r3) =>
        match readU32 r3 with
        | none => none
        | some (ttl, r4) =>
          match readU16 r4 with
          | none => none
          | some (rdlen, r5) =>
            if ty = 12 ∧ cl = 1 ∧ rdlen ≤ r5.length then
              match readName (r5.take rdlen) with
              | some (ptr, []) => some ((name, ttl, ptr), r5.drop rdlen)
              | _ => none
            else none

/-- Parser for exactly the response shape: header (flags 0x8400, 0 questions, 1 answer, 0 authorities,
n additionals), one PTR answer, n TXT additionals, nothing after.  `none` = out of shape. -/
def parseShape (buf : Bytes) : Option Shape :=
  match readU16 buf with
  | none => none
  | some (id, r1) =>
    match readU16 r1 with
    | none => none
    | some (flags, r2) =>
      match readU16 r2 with
      | none => none
      | some (qd, r3) =>
        match readU16 r3 with
        | none => none
        | some (an, r4) =>
          match readU16 r4 with
          | none => none
          | some (ns, r5) =>
            match readU16 r5 with
            | none => none
            | some (ar, r6) =>
              if flags = 0x8400 ∧ qd = 0 ∧ an = 1 ∧ ns = 0 then
                match readAnswer r6 with
                | none => none
                | some ((name, ttl, ptr), r7) =>
                  match readRecords ar r7 with
                  | some (recs, []) => some ⟨id, name, ttl, ptr, recs⟩
                  | _ => none
              else none

/-- `u8::to_ascii_lowercase` -/
def lower (c : Nat) : Nat := if 65 ≤ c ∧ c ≤ 90 then c + 32 else c

/-- hickory `Name == Name`: label-wise ASCII-case-insensitive -/
def nameEq (a b : List Bytes) : Bool := a.map (·.map lower) == b.map (·.map lower)

/-- `_p2p._udp.local` as labels -/
def serviceLabels : List Bytes := [[95, 112, 50, 112], [95, 117, 100, 112], [108, 111, 99, 97, 108]]

inductive Cand where
  | skip | text (t : Bytes) | panic
  deriving DecidableEq, Repr

/-- `decode_character_string(txt).ok()?`, `starts_with(b"dnsaddr=")`, `&addr[8..]` -/
def candidate (txt : Bytes) : Cand :=
  match decodeCharacterString txt with
  | .panic => .panic
  | .err => .skip
  | .ok addr =>
    if !(DNSADDR.isPrefixOf addr) then .skip
    else if 8 > addr.length then .panic
    else .text (addr.drop 8)

/-- `addr.pop()` must be `Protocol::P2p` -/
def popP2p (a : Maddr) : Option (Maddr × Bytes) :=
  match a.getLast? with
  | some (.p2p id) => some (a.dropLast, id)
  | _ => none

/-- the `filter_map` closure of `MdnsPeer::new` folded over the TXT strings;
state = (`my_peer_id`, collected addresses); `none` = panic -/
def peerFold (oracle : Bytes → Option Maddr) :
    List Bytes → Option Bytes → List Maddr → Option (Option Bytes × List Maddr)
  | [], pid, acc => some (pid, acc)
  | txt :: rest, pid, acc =>
    match candidate txt with
    | .panic => none
    | .skip => peerFold oracle rest pid acc
    | .text t =>
      match oracle t with
      | none => peerFold oracle rest pid acc
      | some a =>
        match popP2p a with
        | none => peerFold oracle rest pid acc
        | some (a', id) =>
          match pid with
          | some p => if id ≠ p then peerFold oracle rest pid acc else peerFold oracle rest pid (acc ++ [a'])
          | none => peerFold oracle rest (some id) (acc ++ [a'])

structure Peer where
  id : Bytes
  ttl : Nat
  addrs : List Maddr
  deriving DecidableEq, Repr

inductive ParseRes where
  | outOfShape | panic | resp (peers : List Peer)
  deriving DecidableEq, Repr

/-- `MdnsPeer::new(packet, record_value, ttl)` -/
def mdnsPeerNew (oracle : Bytes → Option Maddr) (sh : Shape) : Option (Option Peer) :=
  let strings := (sh.recs.filter (fun r => nameEq r.owner sh.ptr)).flatMap (·.strings)
  match peerFold oracle strings none [] with
  | none => none
  | some (none, _) => some none
  | some (some id, addrs) => some (some ⟨id, sh.ansTtl, addrs⟩)

/-- `MdnsResponse::new` on an in-shape packet -/
def interpret (oracle : Bytes → Option Maddr) (sh : Shape) : ParseRes :=
  if sh.ansName ≠ serviceLabels then .resp []
  else match mdnsPeerNew oracle sh with
    | none => .panic
    | some none => .resp []
    | some (some p) => .resp [p]

/-- `MdnsPacket::new_from_bytes` restricted to the response shape -/
def parsePacket (oracle : Bytes → Option Maddr) (buf : Bytes) : ParseRes :=
  match parseShape buf with
  | none => .outOfShape
  | some sh => interpret oracle sh

/-- every text the model hands to the oracle for this packet (driver: must all be in the table) -/
def candidateTexts (buf : Bytes) : List Bytes :=
  match parseShape buf with
  | none => []
  | some sh =>
    ((sh.recs.filter (fun r => nameEq r.owner sh.ptr)).flatMap (·.strings)).filterMap fun s =>
      match candidate s with
      | .text t => some t
      | _ => none

/-! ## executable Spec -/

/-- a TXT rdata is exactly one `<character-string>`: `len ‖ bytes`, `len = |bytes|` -/
def wellFormedRdata (rd : Bytes) : Bool :=
  match rd with
  | [] => false
  | l :: s => l == s.length

/-- the character-string form of a value, as far as its length is concerned -/
def charString (v : Bytes) : Bytes := if v.any (· == 32) then 34 :: (escape v ++ [34]) else v

/-- "fits a single TXT string": ASCII and the character string is at most 255 bytes -/
def fits (v : Bytes) : Bool := isAscii v && decide ((charString v).length ≤ 255)

/-- clause `size`: every packet fits the 9000-byte mDNS limit -/
def specSize (pkts : List Bytes) : Bool := pkts.all (fun p => decide (p.length ≤ 9000))

/-- clause `txt_malformed`: every packet is in shape and each TXT rdata is `len ‖ bytes` -/
def specWf (pkts : List Bytes) : Bool :=
  pkts.all fun p =>
    match parseShape p with
    | none => false
    | some sh => sh.recs.all (fun r => wellFormedRdata r.rdata)

/-- the addresses a parse result carries -/
def decodedAddrs : ParseRes → List Maddr
  | .resp peers => peers.flatMap (·.addrs)
  | _ => []

/-- every decoded peer is `peer` (and the packet was accepted as a response) -/
def attributedTo (peer : Bytes) : ParseRes → Bool
  | .resp peers => peers.all (fun p => p.id == peer)
  | _ => false

/-- clause `roundtrip`: the decoded peers carry exactly `expected`, in order, all under `peer` -/
def specDecoded (peer : Bytes) (expected : List Maddr) (decoded : List ParseRes) : Bool :=
  decoded.all (attributedTo peer) && decoded.flatMap decodedAddrs == expected

/-- the advertised addresses that fit: input = (address, its text) -/
def expectedAddrs (b58 : Bytes) (addrs : List (Maddr × Bytes)) : List Maddr :=
  ((addrs.take 65535).filter (fun a => fits (txtValue a.2 b58))).map (·.1)

end C55
