import Libp2pModel.Common.Drv
/-!
# C37 — model of the k-bucket routing table
(`protocols/kad/src/kbucket/bucket.rs`, `kbucket/entry.rs`, `KBucketsTable::{entry, bucket, iter,
take_applied_pending}` of `kbucket.rs`)

Keys are 256-bit integers (`Nat`; byte-level conversion is C40), `Instant`s are natural numbers
(ticks of the harness's virtual clock), `Instant::now()` is an explicit argument `now`.
Panics (`expect`, `unreachable!`, `debug_assert!`, out-of-range `Vec::remove/insert/index`,
`usize` underflow) set the bucket's `poisoned` flag; `C37.inv` shows it is never set.

Ghost state (never read by the transcribed code, erased in the dump): every node carries the status
that was last assigned to it through the API (`gst`) and the logical time of that assignment
(`stamp`), so that "disconnected entries precede connected ones in least-recently-updated order" can
be stated.
-/
namespace C37

inductive Status where
  | connected | disconnected
  deriving DecidableEq, Repr

structure Node where
  key : Nat
  value : Nat
  /-- ghost: status last assigned through the API -/
  gst : Status
  /-- ghost: logical time of that assignment -/
  stamp : Nat
  deriving Repr

structure PendingNode where
  node : Node
  status : Status
  /-- `replace: Instant` -/
  replace : Nat
  deriving Repr

structure Bucket where
  nodes : List Node
  capacity : Nat
  firstConn : Option Nat
  pending : Option PendingNode
  timeout : Nat
  /-- a panic happened (never, see `C37.inv`) -/
  poisoned : Bool
  deriving Repr

inductive InsertResult where
  | inserted
  | pending (disconnected : Nat)
  | full
  deriving Repr, DecidableEq

structure Applied where
  inserted : Node
  evicted : Option Node
  deriving Repr

namespace Bucket

/-- `KBucket::new(config)` -/
def new (capacity timeout : Nat) : Bucket := ⟨[], capacity, none, none, timeout, false⟩

def poison (b : Bucket) : Bucket := { b with poisoned := true }

/-- `KBucket::status(pos)` -/
def status (b : Bucket) (pos : Nat) : Status :=
  match b.firstConn with
  | some i => if i ≤ pos then .connected else .disconnected
  | none => .disconnected

/-- `KBucket::position(key)` -/
def position (b : Bucket) (key : Nat) : Option Nat := b.nodes.findIdx? (fun n => n.key == key)

/-- `KBucket::as_pending(key)` -/
def asPending (b : Bucket) (key : Nat) : Option PendingNode :=
  match b.pending with
  | some p => if p.node.key == key then some p else none
  | none => none

/-- `KBucket::insert(node, status)`; `now` = `Instant::now()` -/
def insert (b : Bucket) (node : Node) (st : Status) (now : Nat) : Bucket × InsertResult :=
  match st with
  | .connected =>
    if b.capacity ≤ b.nodes.length then
      if b.firstConn = some 0 ∨ b.pending.isSome then (b, .full)
      else
        let b' := { b with pending := some ⟨node, .connected, now + b.timeout⟩ }
        match b.nodes with            -- `self.nodes[0]`
        | [] => (b'.poison, .full)
        | n0 :: _ => (b', .pending n0.key)
    else
      let pos := b.nodes.length
      ({ b with firstConn := (match b.firstConn with | some p => some p | none => some pos),
                nodes := b.nodes ++ [node] }, .inserted)
  | .disconnected =>
    if b.capacity ≤ b.nodes.length then (b, .full)
    else
      match b.firstConn with
      | some p =>
        if p ≤ b.nodes.length then       -- `Vec::insert` panics beyond the length
          ({ b with nodes := b.nodes.insertIdx p node, firstConn := some (p + 1) }, .inserted)
        else (b.poison, .inserted)
      | none => ({ b with nodes := b.nodes ++ [node] }, .inserted)

/-- `KBucket::remove(key)` -/
def remove (b : Bucket) (key : Nat) : Bucket × Option (Node × Status × Nat) :=
  match b.position key with
  | none => (b, none)
  | some pos =>
    let st := b.status pos
    match b.nodes[pos]? with
    | none => (b.poison, none)
    | some node =>
      let nodes := b.nodes.eraseIdx pos
      match st with
      | .connected =>
        let fc := if b.firstConn = some pos ∧ pos = nodes.length then none else b.firstConn
        ({ b with nodes := nodes, firstConn := fc }, some (node, st, pos))
      | .disconnected =>
        match b.firstConn with
        | some p =>
          if p = 0 then ({ b with nodes := nodes }.poison, some (node, st, pos))   -- `*p -= 1` underflow
          else ({ b with nodes := nodes, firstConn := some (p - 1) }, some (node, st, pos))
        | none => ({ b with nodes := nodes }, some (node, st, pos))

/-- `KBucket::update(key, status)`; `tick` = ghost stamp for the re-inserted node -/
def update (b : Bucket) (key : Nat) (st : Status) (now tick : Nat) : Bucket :=
  match b.remove key with
  | (b1, none) => b1
  | (b1, some (node, _, pos)) =>
    let b2 := if pos = 0 ∧ st = .connected then { b1 with pending := none } else b1
    match b2.insert { node with gst := st, stamp := tick } st now with
    | (b3, .inserted) => b3
    | (b3, _) => b3.poison             -- `unreachable!`

/-- `KBucket::update_pending(status)` -/
def updatePending (b : Bucket) (st : Status) : Bucket :=
  match b.pending with
  | some p => { b with pending := some { p with status := st } }
  | none => b

/-- `KBucket::remove_pending()` -/
def removePending (b : Bucket) : Bucket × Option PendingNode := ({ b with pending := none }, b.pending)

/-- `KBucket::apply_pending()`; `tick` = ghost stamp for the inserted node -/
def applyPending (b : Bucket) (now tick : Nat) : Bucket × Option Applied :=
  match b.pending with
  | none => (b, none)
  | some pn =>
    let b0 := { b with pending := none }          -- `self.pending.take()`
    let node' : Node := { pn.node with gst := pn.status, stamp := tick }
    if pn.replace ≤ now then
      if b0.capacity ≤ b0.nodes.length then
        if b0.status 0 = .connected then (b0, none)   -- full of connected nodes: drop the pending node
        else
          -- `debug_assert!(first_connected_pos.is_none_or(|p| p > 0))`
          let b0 := if b0.firstConn = some 0 then b0.poison else b0
          match pn.status with
          | .connected =>
            match b0.nodes with             -- `self.nodes.remove(0)`
            | [] => (b0.poison, none)
            | ev :: rest =>
              let fc := match b0.firstConn with
                | none => some rest.length
                | some p => if 1 ≤ p then some (p - 1) else none       -- `checked_sub(1)`
              ({ b0 with nodes := rest ++ [node'], firstConn := fc }, some ⟨node', some ev⟩)
          | .disconnected =>
            match b0.firstConn with
            | some p =>
              if p = 0 then (b0.poison, none)            -- `.expect("by (*)")`
              else
                match b0.nodes with
                | [] => (b0.poison, none)
                | ev :: rest =>
                  if p - 1 ≤ rest.length then
                    ({ b0 with nodes := rest.insertIdx (p - 1) node' }, some ⟨node', some ev⟩)
                  else (b0.poison, none)
            | none =>
              match b0.nodes with
              | [] => (b0.poison, none)
              | ev :: rest => ({ b0 with nodes := rest ++ [node'] }, some ⟨node', some ev⟩)
      else
        match b0.insert node' pn.status now with
        | (b1, .inserted) => (b1, some ⟨node', none⟩)
        | (b1, _) => (b1.poison, none)             -- `unreachable!("Bucket is not full.")`
    else (b, none)                                  -- `self.pending = Some(pending)`

/-- `KBucketRef::has_pending`: `pending().is_some_and(|n| !n.is_ready())` -/
def hasPending (b : Bucket) (now : Nat) : Bool :=
  match b.pending with
  | some p => !(decide (p.replace ≤ now))
  | none => false

end Bucket

/-! ## The table -/

def NUM_BUCKETS : Nat := 256

/-- `BucketIndex::new(&local.distance(key))` (C40.bucket_index) -/
def bucketIndex (d : Nat) : Option Nat := if d = 0 then none else some d.log2

structure Table where
  localKey : Nat
  buckets : List Bucket
  /-- `applied_pending: VecDeque<AppliedPending>` -/
  applied : List Applied
  /-- virtual clock (`Instant::now()`) -/
  now : Nat
  /-- ghost: number of API calls so far (stamps are `2*ops` for applied pending nodes and
  `2*ops+1` for inserted/updated nodes) -/
  ops : Nat
  deriving Repr

def Table.new (localKey bucketSize timeout : Nat) : Table :=
  ⟨localKey, List.replicate NUM_BUCKETS (Bucket.new bucketSize timeout), [], 0, 0⟩

def Table.bucket (t : Table) (i : Nat) : Bucket := t.buckets.getD i (Bucket.new 0 0)

def Table.setBucket (t : Table) (i : Nat) (b : Bucket) : Table := { t with buckets := t.buckets.set i b }

/-- the common prefix of `KBucketsTable::entry` / `bucket`: find the bucket, `apply_pending`,
record the result -/
def Table.access (t : Table) (key : Nat) : Option (Nat × Table) :=
  match bucketIndex (t.localKey ^^^ key) with
  | none => none
  | some i =>
    let (b, ap) := (t.bucket i).applyPending t.now (2 * t.ops)
    let t' := t.setBucket i b
    some (i, match ap with
      | some a => { t' with applied := t'.applied ++ [a] }
      | none => t')

/-- what `Entry::new` resolves to -/
inductive EntryKind where
  | isLocal
  | absent
  | present (st : Status) (value : Nat)
  | pending (st : Status) (value : Nat)
  deriving Repr, DecidableEq

def Bucket.entryKind (b : Bucket) (key : Nat) : EntryKind :=
  match b.position key with
  | some pos =>
    match b.nodes[pos]? with
    | some n => .present (b.status pos) n.value
    | none => .absent
  | none =>
    match b.asPending key with
    | some p => .pending p.status p.node.value
    | none => .absent

inductive OpResult where
  | isLocal
  | entry (e : EntryKind)
  | insert (r : InsertResult)
  | removed (value : Nat) (st : Status) (wasPending : Bool)
  | unit
  | info (l : List (Nat × Nat × Bool))
  deriving Repr

inductive Op where
  /-- `table.entry(k)`; if `Absent`: `.insert(value, status)` -/
  | insert (key value : Nat) (st : Status)
  /-- `table.entry(k)`; `Present(e) → e.update(status)`, `Pending(e) → e.update(status)` -/
  | update (key : Nat) (st : Status)
  /-- `table.entry(k)`; `Present(e) → e.remove()`, `Pending(e) → e.remove()` -/
  | remove (key : Nat)
  /-- `table.entry(k).view()` -/
  | lookup (key : Nat)
  /-- `table.bucket(k)` → `(num_entries, has_pending)` -/
  | bucketInfo (key : Nat)
  /-- `table.iter()` consumed: `apply_pending` on every bucket -/
  | iter
  /-- the virtual clock advances -/
  | advance (n : Nat)
  deriving Repr

def Table.bump (t : Table) : Table := { t with ops := t.ops + 1 }

/-- apply the pending node of every bucket from index `i` on (`table.iter()`) -/
def Table.iterFrom (t : Table) : Nat → Nat → Table
  | _, 0 => t
  | i, n+1 =>
    let (b, ap) := (t.bucket i).applyPending t.now (2 * t.ops)
    let t' := t.setBucket i b
    let t'' := match ap with
      | some a => { t' with applied := t'.applied ++ [a] }
      | none => t'
    Table.iterFrom t'' (i + 1) n

def Table.info (t : Table) : List (Nat × Nat × Bool) :=
  (List.range NUM_BUCKETS).filterMap fun i =>
    let b := t.bucket i
    if b.nodes.length > 0 ∨ b.hasPending t.now then some (i, b.nodes.length, b.hasPending t.now) else none

/-- one API call -/
def Table.step (t : Table) (op : Op) : Table × OpResult :=
  match op with
  | .insert key value st =>
    match t.access key with
    | none => (t.bump, .isLocal)
    | some (i, t1) =>
      let b := t1.bucket i
      match b.entryKind key with
      | .absent =>
        let (b', r) := b.insert ⟨key, value, st, 2 * t.ops + 1⟩ st t.now
        ((t1.setBucket i b').bump, .insert r)
      | e => (t1.bump, .entry e)
  | .update key st =>
    match t.access key with
    | none => (t.bump, .isLocal)
    | some (i, t1) =>
      let b := t1.bucket i
      match b.entryKind key with
      | .present s v => ((t1.setBucket i (b.update key st t.now (2 * t.ops + 1))).bump, .entry (.present s v))
      | .pending s v => ((t1.setBucket i (b.updatePending st)).bump, .entry (.pending s v))
      | e => (t1.bump, .entry e)
  | .remove key =>
    match t.access key with
    | none => (t.bump, .isLocal)
    | some (i, t1) =>
      let b := t1.bucket i
      match b.entryKind key with
      | .present _ _ =>
        match b.remove key with
        | (b', some (node, s, _)) => ((t1.setBucket i b').bump, .removed node.value s false)
        | (b', none) => ((t1.setBucket i b'.poison).bump, .entry .absent)     -- `.expect(..)`
      | .pending _ _ =>
        match b.removePending with
        | (b', some p) => ((t1.setBucket i b').bump, .removed p.node.value p.status true)
        | (b', none) => ((t1.setBucket i b'.poison).bump, .entry .absent)
      | e => (t1.bump, .entry e)
  | .lookup key =>
    match t.access key with
    | none => (t.bump, .isLocal)
    | some (i, t1) => (t1.bump, .entry ((t1.bucket i).entryKind key))
  | .bucketInfo key =>
    match t.access key with
    | none => (t.bump, .isLocal)
    | some (i, t1) =>
      let b := t1.bucket i
      (t1.bump, .info [(i, b.nodes.length, b.hasPending t.now)])
  | .iter =>
    let t1 := t.iterFrom 0 NUM_BUCKETS
    (t1.bump, .info t1.info)
  | .advance n => ({ t with now := t.now + n }.bump, .unit)

/-- the harness drains `take_applied_pending()` after every call -/
def Table.drain (t : Table) : Table × List Applied := ({ t with applied := [] }, t.applied)

/-! ## Executable Spec: the structural clauses of the property on a dump of the table

A dump lists, per non-empty bucket, its index, the `(key, connected?)` pairs in bucket order and
the pending key, if any. -/

structure BucketDump where
  index : Nat
  nodes : List (Nat × Bool)
  pending : Option Nat
  deriving Repr

/-- statuses are `d…d c…c` -/
def statusOrdered : List Bool → Bool
  | [] => true
  | c :: rest => (if c then rest.all id else true) && statusOrdered rest

def specBucket (localKey capacity : Nat) (b : BucketDump) : Bool :=
  decide (b.nodes.length ≤ capacity) &&
  b.nodes.all (fun n => bucketIndex (localKey ^^^ n.1) == some b.index) &&
  (match b.pending with
   | some p => bucketIndex (localKey ^^^ p) == some b.index && !(b.nodes.map (·.1)).contains p
   | none => true) &&
  statusOrdered (b.nodes.map (·.2))

def allKeys (d : List BucketDump) : List Nat := d.flatMap fun b => b.nodes.map (·.1)

def nodupB : List Nat → Bool
  | [] => true
  | a :: l => !l.contains a && nodupB l

/-- capacity, bucket index, uniqueness, local key absent, disconnected before connected -/
def specDump (localKey capacity : Nat) (d : List BucketDump) : Bool :=
  d.all (specBucket localKey capacity) && nodupB (allKeys d) && !(allKeys d).contains localKey &&
  nodupB (d.map (·.index))

def Bucket.dump (i : Nat) (b : Bucket) : BucketDump :=
  ⟨i, (List.range b.nodes.length).zipWith (fun pos n => (n.key, b.status pos == .connected)) b.nodes,
    b.pending.map (·.node.key)⟩

def Table.dump (t : Table) : List BucketDump :=
  (List.range NUM_BUCKETS).filterMap fun i =>
    let b := t.bucket i
    if b.nodes.length > 0 ∨ b.pending.isSome then some (b.dump i) else none

end C37
