import Libp2pModel.Model.C28Node
/-!
# C29 — connection handlers know whether their peer is in a mesh

The model is `C28Node` (shared with C28): its ghost field `belief p c` is the fold of the
`JoinedMesh`/`LeftMesh` notifications sent to connection `c` of peer `p` (`Handler::in_mesh`, which
drives `connection_keep_alive`). This file holds the executable Spec evaluated on the
IMPLEMENTATION's outputs: the monitor folds the implementation's notifications itself.
-/
namespace C29
open C28

/-- `p` is a member of at least one topic mesh among `ts` -/
def inAnyMesh (mesh : Nat → Option (List Nat)) (ts : List Nat) (p : Nat) : Bool :=
  ts.any (fun t => match mesh t with | some m => m.contains p | none => false)

/-- the handler state of a fresh connection -/
def monConnect (b : Nat → Nat → Bool) (o : Op) : Nat → Nat → Bool :=
  match o with
  | .connect p c _ => fun p' c' => if p' = p ∧ c' = c then false else b p' c'
  | _ => b

/-- every notification targets an existing connection of that peer (`peers` = (peer, connections)) -/
def notifsOk (peers : List (Nat × List Nat)) (ns : List Notif) : Bool :=
  ns.all (fun n => peers.any (fun e => e.1 == n.1 && e.2.contains n.2.1))

/-- the property on one observed state: for every connected peer, the handler of its first
connection believes "in a mesh" exactly when the peer is a member of some topic mesh -/
def beliefOk (peers : List (Nat × List Nat)) (mesh : Nat → Option (List Nat)) (ts : List Nat)
    (belief : Nat → Nat → Bool) : Option String :=
  peers.findSome? (fun e =>
    match e.2 with
    | [] => none
    | c :: _ =>
      let b := belief e.1 c
      let m := inAnyMesh mesh ts e.1
      if m && !b then some "in_mesh_but_handler_not_told"
      else if !m && b then some "handler_told_but_not_in_mesh"
      else none)

/-- one monitor step over the implementation's outputs -/
def monStep (b : Nat → Nat → Bool) (o : Op) (peers : List (Nat × List Nat)) (mesh : Nat → Option (List Nat))
    (ns : List Notif) : (Nat → Nat → Bool) × Option String :=
  let b' := applyNotifs (monConnect b o) ns
  let v := if !notifsOk peers ns then some "notify_unknown_connection" else beliefOk peers mesh topicUniverse b'
  (b', v)

end C29
