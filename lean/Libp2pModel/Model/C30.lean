import Libp2pModel.Common.Drv
/-!
# C30 — gossipsub accepts only messages valid for the validation mode

Anchor: `protocols/gossipsub/src/protocol.rs` — the per-message branch of `GossipsubCodec::decode`
(the `for message in rpc.publish` loop) and `GossipsubCodec::verify_signature`.

Cryptography and encodings are SYMBOLIC: the model is parameterised by a structure `Prims` of
functions (`PeerId::from_bytes`, `PublicKey::try_decode_protobuf`, `PublicKey::to_peer_id`,
`PublicKey::verify`, the protobuf encoding of a message without signature and key, its encoded
length).  Whatever is assumed about them is a hypothesis of the theorem that needs it (structure
`Laws`), never an axiom.
-/
namespace C30

abbrev Bytes := List Nat

/-- `proto::Message` -/
structure Msg where
  src : Option Bytes        -- `from`
  data : Option Bytes
  seqno : Option Bytes
  topic : Bytes
  signature : Option Bytes
  key : Option Bytes
deriving Repr, DecidableEq

inductive Mode where
  | strict | permissive | anonymous | none
deriving Repr, DecidableEq

inductive Kind where
  | InvalidSignature | EmptySequenceNumber | InvalidSequenceNumber | InvalidPeerId
  | SignaturePresent | SequenceNumberPresent | MessageSourcePresent | MessageSizeTooLargeForTopic
deriving Repr, DecidableEq

def Kind.name : Kind → String
  | .InvalidSignature => "InvalidSignature" | .EmptySequenceNumber => "EmptySequenceNumber"
  | .InvalidSequenceNumber => "InvalidSequenceNumber" | .InvalidPeerId => "InvalidPeerId"
  | .SignaturePresent => "SignaturePresent" | .SequenceNumberPresent => "SequenceNumberPresent"
  | .MessageSourcePresent => "MessageSourcePresent"
  | .MessageSizeTooLargeForTopic => "MessageSizeTooLargeForTopic"

/-- the primitives the code calls; `PeerId` and `PubKey` are abstract types -/
structure Prims (PeerId PubKey : Type) where
  parsePeerId : Bytes → Option PeerId          -- `PeerId::from_bytes`
  peerIdBytes : PeerId → Bytes                 -- `PeerId::to_bytes`
  decodeKey : Bytes → Option PubKey            -- `PublicKey::try_decode_protobuf`
  peerIdOf : PubKey → PeerId                   -- `PublicKey::to_peer_id`
  verify : PubKey → Bytes → Bytes → Bool       -- `PublicKey::verify(msg, sig)`
  encode : Msg → Bytes                         -- `Message::encode_to_vec`
  encodedLen : Msg → Nat                       -- `Message::encoded_len`
  maxFor : Bytes → Option Nat                  -- `max_transmit_size_for_topic(topic)` (per-topic entries only)

/-- `SIGNING_PREFIX = b"libp2p-pubsub:"` -/
def signingPrefix : Bytes := [108, 105, 98, 112, 50, 112, 45, 112, 117, 98, 115, 117, 98, 58]

/-- the bytes a signature is computed over: prefix ++ encoding of the message with `signature` and
`key` cleared -/
def signedBytes {P K : Type} (C : Prims P K) (m : Msg) : Bytes :=
  signingPrefix ++ C.encode { m with signature := none, key := none }

/-- the key `verify_signature` uses: the `key` field if it decodes, otherwise the key inlined in
the source peer id (`source.to_bytes()[2..]`) -/
def keyFor {P K : Type} (C : Prims P K) (m : Msg) (source : P) : Option K :=
  match m.key.map C.decodeKey with
  | some (some k) => some k
  | _ => C.decodeKey ((C.peerIdBytes source).drop 2)

/-- `GossipsubCodec::verify_signature` -/
def verifySignature {P K : Type} [DecidableEq P] (C : Prims P K) (m : Msg) : Bool :=
  match m.src with
  | none => false
  | some from_ =>
    match C.parsePeerId from_ with
    | none => false
    | some source =>
      match m.signature with
      | none => false
      | some sig =>
        match keyFor C m source with
        | none => false
        | some k =>
          if source ≠ C.peerIdOf k then false
          else C.verify k (signedBytes C m) sig

/-- `BigEndian::read_u64` -/
def be64 (b : Bytes) : Nat := b.foldl (fun acc x => acc * 256 + x) 0

/-- the surfaced `RawMessage` -/
structure Raw (P : Type) where
  source : Option P
  data : Bytes
  seqno : Option Nat
  topic : Bytes
  signature : Option Bytes
  key : Option Bytes

inductive Outcome (P : Type) where
  | valid (r : Raw P)                  -- pushed to `messages`
  | invalid (k : Kind) (r : Raw P)     -- pushed to `invalid_messages`

/-- the `RawMessage` built for the early rejections (no source / seqno / signature surfaced) -/
def strippedRaw {P : Type} (m : Msg) : Raw P :=
  { source := none, data := m.data.getD [], seqno := none, topic := m.topic, signature := none, key := m.key }

/-- one iteration of `for message in rpc.publish.into_iter()` -/
def validateMsg {P K : Type} [DecidableEq P] (C : Prims P K) (mode : Mode) (m : Msg) : Outcome P :=
  if (C.maxFor m.topic).any (fun max => C.encodedLen m > max) then
    .invalid .MessageSizeTooLargeForTopic (strippedRaw m)
  else
    let verifySig := match mode with
      | .strict => true | .permissive => m.signature.isSome | _ => false
    let verifySeq := match mode with
      | .strict => true | .permissive => m.seqno.isSome | _ => false
    let verifySrc := match mode with
      | .strict => true | .permissive => m.src.isSome | _ => false
    let early : Option Kind := match mode with
      | .anonymous =>
        if m.signature.isSome then some .SignaturePresent
        else if m.seqno.isSome then some .SequenceNumberPresent
        else if m.src.isSome then some .MessageSourcePresent
        else none
      | _ => none
    match early with
    | some k => .invalid k (strippedRaw m)
    | none =>
      if verifySig && !verifySignature C m then .invalid .InvalidSignature (strippedRaw m)
      else
        -- "ensure the sequence number is a u64"
        let seqRes : Except Kind (Option Nat) :=
          if verifySeq then
            match m.seqno with
            | some s =>
              if s.isEmpty then .ok none
              else if s.length ≠ 8 then .error .InvalidSequenceNumber
              else .ok (some (be64 s))
            | none => .error .EmptySequenceNumber
          else .ok none
        match seqRes with
        | .error k =>
          .invalid k { source := none, data := m.data.getD [], seqno := none, topic := m.topic,
                       signature := m.signature, key := m.key }
        | .ok seq =>
          -- "Verify the message source if required"
          let srcRes : Option (Option P) :=
            if verifySrc then
              match m.src with
              | some b => if !b.isEmpty then (match C.parsePeerId b with | some p => some (some p) | none => none) else some none
              | none => some none
            else some none
          match srcRes with
          | none =>
            .invalid .InvalidPeerId { source := none, data := m.data.getD [], seqno := seq, topic := m.topic,
                                      signature := m.signature, key := m.key }
          | some source =>
            .valid { source := source, data := m.data.getD [], seqno := seq, topic := m.topic,
                     signature := m.signature, key := m.key }

/-! ## executable Spec (evaluated on the implementation's verdict) -/

/-- what the harness established about a message with the public `libp2p_identity` API,
independently of the codec -/
structure Facts where
  fromParses : Bool      -- `from` present and `PeerId::from_bytes` succeeds
  sigValid : Bool        -- from parses, a signature is present, a key (key field, else inlined) is
                         -- available, matches the source, and the signature verifies over
                         -- prefix ++ encode(from, data, seqno, topic)
deriving Repr

/-- THE property as a predicate on a message that the implementation surfaced as VALID -/
def specValid (mode : Mode) (m : Msg) (f : Facts) : String :=
  match mode with
  | .strict =>
    if !(m.src.isSome && f.fromParses && m.signature.isSome && f.sigValid) then "FAIL:strict_accepts_unsigned_or_badsig"
    else if !(m.seqno.any (fun s => s.isEmpty || s.length == 8)) then "FAIL:strict_accepts_bad_seqno"
    else "ok"
  | .anonymous =>
    if m.src.isSome || m.seqno.isSome || m.signature.isSome then "FAIL:anonymous_accepts_fields" else "ok"
  | .permissive =>
    if m.signature.isSome && !f.sigValid then "FAIL:permissive_accepts_badsig"
    else if m.seqno.any (fun s => !(s.isEmpty || s.length == 8)) then "FAIL:permissive_accepts_bad_seqno"
    else if m.src.any (fun b => !b.isEmpty && !f.fromParses) then "FAIL:permissive_accepts_bad_source"
    else "ok"
  | .none => "ok"

end C30
