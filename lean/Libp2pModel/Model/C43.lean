import Libp2pModel.Common.Drv
/-!
# C43 — provider records are only accepted from the provider itself
(`protocols/kad/src/behaviour.rs`: the `HandlerEvent::AddProvider` arm of
`on_connection_handler_event`, `provider_received`, the local-publisher early return of
`record_received`, the `StoreInserts` switch; `record/store/memory.rs`: `put`, `add_provider`)

Peers, keys and addresses are natural numbers (the harness renames peer ids / keys / addresses to
small integers).  Record expiry is C42's subject: here no TTL is configured and inbound records
carry no expiry, so `record_received`'s expiry branch always keeps the record.
-/
namespace C43

structure Cfg where
  localId : Nat
  /-- `StoreInserts::FilterBoth` -/
  filter : Bool
  maxRecords : Nat
  maxValueBytes : Nat
  maxProvidersPerKey : Nat
  maxProvidedKeys : Nat
  deriving Repr, Inhabited

structure Rec where
  key : Nat
  value : List Nat
  publisher : Option Nat
  deriving DecidableEq, Repr

structure Prov where
  key : Nat
  provider : Nat
  addrs : List Nat
  deriving DecidableEq, Repr

/-- `MemoryStore` (the `HashMap`s as association lists in insertion order) -/
structure Store where
  records : List Rec
  providers : List (Nat × List Prov)
  provided : List Prov
  deriving DecidableEq, Repr

def Store.empty : Store := ⟨[], [], []⟩

/-! ## `MemoryStore::put` -/

def replaceRec (r : Rec) : List Rec → List Rec
  | [] => []
  | x :: xs => if x.key = r.key then r :: xs else x :: replaceRec r xs

def storePut (c : Cfg) (s : Store) (r : Rec) : Option Store :=
  if r.value.length ≥ c.maxValueBytes then none            -- Err(ValueTooLarge)
  else if s.records.any (fun x => x.key = r.key) then
    some { s with records := replaceRec r s.records }     -- Occupied: e.insert(r)
  else if s.records.length ≥ c.maxRecords then none        -- Err(MaxRecords)
  else some { s with records := s.records ++ [r] }

/-! ## `MemoryStore::add_provider` -/

def replaceProv (p : Prov) : List Prov → List Prov
  | [] => []
  | x :: xs => if x.provider = p.provider then p :: xs else x :: replaceProv p xs

def setEntry (key : Nat) (l : List Prov) : List (Nat × List Prov) → List (Nat × List Prov)
  | [] => [(key, l)]
  | (k, v) :: xs => if k = key then (k, l) :: xs else (k, v) :: setEntry key l xs

def getEntry (key : Nat) (m : List (Nat × List Prov)) : Option (List Prov) :=
  (m.find? (fun e => e.1 = key)).map (·.2)

/-- `provided.remove(p); provided.insert(record)` on the `HashSet` keyed by (key, provider) -/
def providedInsert (p : Prov) (l : List Prov) : List Prov :=
  l.filter (fun q => ¬ (q.key = p.key ∧ q.provider = p.provider)) ++ [p]

def storeAddProvider (c : Cfg) (s : Store) (p : Prov) : Option Store :=
  match getEntry p.key s.providers with
  | none =>
    if c.maxProvidedKeys = s.providers.length then none   -- Err(MaxProvidedKeys)
    else
      -- `.or_insert_with(Default::default)`: the (empty) entry exists from here on
      if 0 = c.maxProvidersPerKey then some { s with providers := setEntry p.key [] s.providers }
      else some { s with
        providers := setEntry p.key [p] s.providers,
        provided := if c.localId = p.provider then providedInsert p s.provided else s.provided }
  | some l =>
    if l.any (fun q => q.provider = p.provider) then
      -- in-place update of an existing provider record
      some { s with
        providers := setEntry p.key (replaceProv p l) s.providers,
        provided := if c.localId = p.provider then providedInsert p s.provided else s.provided }
    else if l.length = c.maxProvidersPerKey then some s    -- full: the new provider is ignored
    else some { s with
      providers := setEntry p.key (l ++ [p]) s.providers,
      provided := if c.localId = p.provider then providedInsert p s.provided else s.provided }

/-! ## the behaviour -/

/-- what the behaviour emits for one inbound request -/
inductive Out where
  /-- `Event::InboundRequest { AddProvider { record } }` -/
  | evAddProvider (record : Option Prov)
  /-- `Event::InboundRequest { PutRecord { record, .. } }` -/
  | evPutRecord (record : Option Rec)
  /-- `HandlerIn::PutRecordRes { key, value, request_id }` to the sender -/
  | ack (key : Nat) (value : List Nat) (req : Nat)
  /-- `HandlerIn::Reset(request_id)` -/
  | reset (req : Nat)
  deriving DecidableEq, Repr

inductive Op where
  /-- inbound ADD_PROVIDER from `source` announcing `provider` -/
  | addProvider (source key provider : Nat) (addrs : List Nat)
  /-- inbound PUT_VALUE from `source` -/
  | putRecord (source key : Nat) (value : List Nat) (publisher : Option Nat) (req : Nat)
  deriving DecidableEq, Repr

/-- `HandlerEvent::AddProvider` arm + `provider_received` -/
def onAddProvider (c : Cfg) (s : Store) (source key provider : Nat) (addrs : List Nat) : Store × List Out :=
  if provider ≠ source then (s, [])                 -- "Only accept a provider record from a legitimate peer."
  else if provider = c.localId then (s, [])         -- provider_received: `provider.node_id != local`
  else
    let rec_ : Prov := ⟨key, provider, addrs⟩
    if c.filter then (s, [.evAddProvider (some rec_)])
    else match storeAddProvider c s rec_ with
      | none => (s, [])                               -- "Provider record not stored"
      | some s' => (s', [.evAddProvider none])

/-- `HandlerEvent::PutRecord` arm + `record_received` (no TTLs: never expired) -/
def onPutRecord (c : Cfg) (s : Store) (_source key : Nat) (value : List Nat) (publisher : Option Nat)
    (req : Nat) : Store × List Out :=
  if publisher = some c.localId then (s, [.ack key value req])
  else
    let r : Rec := ⟨key, value, publisher⟩
    if c.filter then (s, [.evPutRecord (some r), .ack key value req])
    else match storePut c s r with
      | some s' => (s', [.evPutRecord none, .ack key value req])
      | none => (s, [.reset req])

def step (c : Cfg) (s : Store) : Op → Store × List Out
  | .addProvider src key prov addrs => onAddProvider c s src key prov addrs
  | .putRecord src key value pub req => onPutRecord c s src key value pub req

/-! ## what the harness can observe of a store: the canonical dump -/

structure Dump where
  /-- records sorted by key -/
  recs : List Rec
  /-- non-empty provider lists sorted by key, providers in `Vec` order -/
  provs : List (Nat × List Prov)
  /-- keys of `provided()` sorted -/
  provided : List Nat
  deriving DecidableEq, Repr

def Dump.empty : Dump := ⟨[], [], []⟩

def insertBy {α : Type} (k : α → Nat) (x : α) : List α → List α
  | [] => [x]
  | y :: ys => if k x ≤ k y then x :: y :: ys else y :: insertBy k x ys

def sortBy {α : Type} (k : α → Nat) (l : List α) : List α := l.foldr (insertBy k) []

def dump (s : Store) : Dump :=
  { recs := sortBy (·.key) s.records,
    provs := sortBy (·.1) (s.providers.filter (fun e => !e.2.isEmpty)),
    provided := sortBy id (s.provided.map (·.key)) }

/-! ## executable Spec: judged from the dumps before/after and the emitted events only -/

def handsOnProvider (outs : List Out) : Bool :=
  outs.any (fun o => match o with | .evAddProvider (some _) => true | _ => false)

def handsOnRecord (outs : List Out) : Bool :=
  outs.any (fun o => match o with | .evPutRecord (some _) => true | _ => false)

def spec (c : Cfg) (before : Dump) (op : Op) (after : Dump) (outs : List Out) : String :=
  match op with
  | .addProvider src _ prov _ =>
    let legit : Bool := prov = src && prov != c.localId
    if after.recs ≠ before.recs then "FAIL:records_changed_by_add_provider"
    else if !legit && (after != before || handsOnProvider outs) then
      (if prov = c.localId then "FAIL:local_provider_stored" else "FAIL:foreign_provider_stored")
    else if c.filter && after != before then "FAIL:stored_despite_filter"
    else "ok"
  | .putRecord _ _ _ pub _ =>
    if after.provs ≠ before.provs ∨ after.provided ≠ before.provided then
      "FAIL:providers_changed_by_put"
    else if pub = some c.localId ∧ (after ≠ before ∨ handsOnRecord outs = true) then "FAIL:local_record_changed"
    else if c.filter && after != before then "FAIL:stored_despite_filter"
    else "ok"

end C43
