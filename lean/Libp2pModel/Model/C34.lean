import Libp2pModel.Common.Drv
/-!
# C34 — accepted gossipsub configs never break the behaviour

Anchors: `protocols/gossipsub/src/config.rs` (`ConfigBuilder` setters, `ConfigBuilder::build`) and
`protocols/gossipsub/src/behaviour.rs` (`Behaviour::heartbeat`: the mesh-maintenance arithmetic).

* `Builder` = the fields of `ConfigBuilder` that `build` reads; topics are small naturals.
  `HashMap`s are association lists with unique keys (insert replaces).
* `build` transcribes `ConfigBuilder::build` AS IT IS: all size/mesh checks sit inside
  `for topic in max_transmit_sizes.keys()`, so only topics with a `max_transmit_size` entry are
  validated (known finding `C34-build-validates-only-sized-topics`, recorded, not repaired).  The
  `HashMap` iteration order decides which failing topic reports its error: an oracle (the observed
  error kind), validated by the model.
* `hbTopic` transcribes one iteration of the `for (topic_hash, peers) in self.mesh.iter_mut()` loop of
  `heartbeat` on the level of *counts*: the mesh is (inbound, outbound) peers with score ≥ 0 plus
  peers with score < 0; `get_random_peers(.., n, f)` returns exactly `min n |eligible|` peers, the
  random choices (how many selected peers are outbound, the shuffled visiting order of the excess
  removal loop, the outcome of the float comparison with the threshold, the opportunistic selection)
  are explicit oracles which the model validates.  Every `usize` subtraction of the code is a
  checked subtraction `csub` yielding `panic` (the harness is built with overflow checks, as
  `cargo test` is), every `expect`/slice bound is an explicit `panic`.
-/
namespace C34

/-- `TopicMeshConfig` -/
structure Params where
  n : Nat
  low : Nat
  high : Nat
  outMin : Nat
deriving Repr, DecidableEq

/-- `TopicMeshConfig::default()` -/
def Params.dflt : Params := ⟨6, 5, 12, 2⟩

/-- the fields of `ConfigBuilder` read by `build` (= the fields of the resulting `Config`) -/
structure Builder where
  dflt : Params                     -- topic_configuration.default_mesh_params
  topics : List (Nat × Params)      -- topic_configuration.topic_mesh_params
  histLen : Nat
  histGossip : Nat
  mts : Nat                         -- protocol.default_max_transmit_size
  mtsT : List (Nat × Nat)           -- protocol.max_transmit_sizes
  ubMillis : Nat                    -- unsubscribe_backoff.as_millis()
  invalidProtocol : Bool
deriving Repr, DecidableEq

abbrev Config := Builder

/-- `ConfigBuilder::default()` -/
def Builder.init : Builder :=
  { dflt := Params.dflt, topics := [], histLen := 5, histGossip := 3, mts := 65536, mtsT := [],
    ubMillis := 10000, invalidProtocol := false }

/-- `HashMap::insert` -/
def insertKV {α : Type} (l : List (Nat × α)) (t : Nat) (v : α) : List (Nat × α) :=
  match l with
  | [] => [(t, v)]
  | (k, p) :: r => if k = t then (k, v) :: r else (k, p) :: insertKV r t v

/-- `entry(t).and_modify(f).or_insert_with(|| TopicMeshConfig { field, ..default })` — the inserted
value is `f` applied to the default parameter set. -/
def modifyOrInsert (l : List (Nat × Params)) (t : Nat) (f : Params → Params) : List (Nat × Params) :=
  match l with
  | [] => [(t, f Params.dflt)]
  | (k, p) :: r => if k = t then (k, f p) :: r else (k, p) :: modifyOrInsert r t f

def lookup {α : Type} (l : List (Nat × α)) (t : Nat) : Option α :=
  match l with
  | [] => none
  | (k, p) :: r => if k = t then some p else lookup r t

inductive Setter where
  | n (v : Nat) | low (v : Nat) | high (v : Nat) | out (v : Nat)
  | nT (t v : Nat) | lowT (t v : Nat) | highT (t v : Nat) | outT (t v : Nat)
  | cfgT (t : Nat) (p : Params)
  | histLen (v : Nat) | histGossip (v : Nat)
  | mts (v : Nat) | mtsT (t v : Nat)
  | ub (millis : Nat)
  | badProto
deriving Repr, DecidableEq

def Builder.apply (b : Builder) : Setter → Builder
  | .n v => { b with dflt := { b.dflt with n := v } }
  | .low v => { b with dflt := { b.dflt with low := v } }
  | .high v => { b with dflt := { b.dflt with high := v } }
  | .out v => { b with dflt := { b.dflt with outMin := v } }
  | .nT t v => { b with topics := modifyOrInsert b.topics t (fun p => { p with n := v }) }
  | .lowT t v => { b with topics := modifyOrInsert b.topics t (fun p => { p with low := v }) }
  | .highT t v => { b with topics := modifyOrInsert b.topics t (fun p => { p with high := v }) }
  | .outT t v => { b with topics := modifyOrInsert b.topics t (fun p => { p with outMin := v }) }
  | .cfgT t p => { b with topics := insertKV b.topics t p }
  | .histLen v => { b with histLen := v }
  | .histGossip v => { b with histGossip := v }
  | .mts v => { b with mts := v }
  | .mtsT t v => { b with mtsT := insertKV b.mtsT t v }
  | .ub v => { b with ubMillis := v }
  | .badProto => { b with invalidProtocol := true }

def Builder.applyAll (b : Builder) (l : List Setter) : Builder := l.foldl Builder.apply b

/-- `Config::mesh_*_for_topic`: the topic's entry, else the default parameter set -/
def Builder.paramsFor (b : Builder) (t : Nat) : Params := (lookup b.topics t).getD b.dflt

/-- `ProtocolConfig::max_transmit_size_for_topic` -/
def Builder.mtsFor (b : Builder) (t : Nat) : Nat := (lookup b.mtsT t).getD b.mts

inductive Err where
  | MaxTransmissionSizeTooSmall | HistoryLengthTooSmall | MeshParametersInvalid
  | MeshOutboundInvalid | UnsubscribeBackoffIsZero | InvalidProtocol
deriving Repr, DecidableEq

def Err.name : Err → String
  | .MaxTransmissionSizeTooSmall => "MaxTransmissionSizeTooSmall"
  | .HistoryLengthTooSmall => "HistoryLengthTooSmall"
  | .MeshParametersInvalid => "MeshParametersInvalid"
  | .MeshOutboundInvalid => "MeshOutboundInvalid"
  | .UnsubscribeBackoffIsZero => "UnsubscribeBackoffIsZero"
  | .InvalidProtocol => "InvalidProtocol"

/-- `mesh_outbound_min <= mesh_n_low && mesh_n_low <= mesh_n && mesh_n <= mesh_n_high` -/
def Params.ordered (p : Params) : Bool := p.outMin ≤ p.low && p.low ≤ p.n && p.n ≤ p.high

/-- the tail of `build`: the checks outside the loop -/
def buildTail (b : Builder) : Except Err Config :=
  if b.histLen < b.histGossip then .error .HistoryLengthTooSmall
  else if b.ubMillis = 0 then .error .UnsubscribeBackoffIsZero
  else if b.invalidProtocol then .error .InvalidProtocol
  else .ok b

/-- the body of `for topic in self.config.protocol.max_transmit_sizes.keys()` for one topic:
the error it returns, if any -/
def topicErr (b : Builder) (t : Nat) : Option Err :=
  if b.mtsFor t < 100 then some .MaxTransmissionSizeTooSmall
  else
    let p := b.paramsFor t
    if !p.ordered then some .MeshParametersInvalid
    else if p.outMin * 2 > p.n then some .MeshOutboundInvalid
    else none

/-- the errors the loop can return: one per failing pre-configured topic (which one is returned
depends on the iteration order of the `HashMap`) -/
def loopErrs (b : Builder) : List Err := b.mtsT.filterMap (fun e => topicErr b e.1)

inductive BuildRes where
  | ok (c : Config)
  | err (e : Err)
  | badOracle
deriving Repr, DecidableEq

/-- `ConfigBuilder::build`; `choice` = the error kind the real code reported (only consulted when a
pre-configured topic fails; it must be the error of one of the failing topics) -/
def build (b : Builder) (choice : Option Err) : BuildRes :=
  match loopErrs b with
  | [] =>
    match buildTail b with
    | .ok c => .ok c
    | .error e => .err e
  | errs =>
    match choice with
    | some e => if errs.contains e then .err e else .badOracle
    | none => .badOracle

/-- one parameter set satisfies the property's inequalities -/
def Params.valid (p : Params) : Prop :=
  p.outMin ≤ p.low ∧ p.low ≤ p.n ∧ p.n ≤ p.high ∧ 2 * p.outMin ≤ p.n

instance (p : Params) : Decidable p.valid := by unfold Params.valid; infer_instance

/-- THE static half of the property: default and every per-topic parameter set valid,
`history_gossip ≤ history_length`, default and every per-topic `max_transmit_size ≥ 100`. -/
def Config.valid (c : Config) : Prop :=
  c.dflt.valid ∧ (∀ e ∈ c.topics, e.2.valid) ∧ c.histGossip ≤ c.histLen ∧
  100 ≤ c.mts ∧ (∀ e ∈ c.mtsT, 100 ≤ e.2)

/-! ## heartbeat -/

inductive Res (α : Type) where
  | ok (a : α)
  | panic (msg : String)
  | badOracle (why : String)
deriving Repr

def Res.bind {α β : Type} (r : Res α) (f : α → Res β) : Res β :=
  match r with
  | .ok a => f a
  | .panic m => .panic m
  | .badOracle w => .badOracle w

def Res.isPanic {α : Type} : Res α → Bool
  | .panic _ => true
  | _ => false

/-- checked `usize` subtraction (`attempt to subtract with overflow`) -/
def csub (a b : Nat) : Res Nat := if b ≤ a then .ok (a - b) else .panic "sub"

/-- `vec.get(i).expect(..)` -/
def idx (i len : Nat) : Res Unit := if i < len then .ok () else .panic "expect"

/-- what the heartbeat sees of one mesh topic -/
structure Obs where
  mIn : Nat    -- mesh peers with score ≥ 0, inbound
  mOut : Nat   -- mesh peers with score ≥ 0, outbound
  mNeg : Nat   -- mesh peers with score < 0
  cIn : Nat    -- eligible non-mesh peers (subscribed, gossipsub, not explicit, not backed off, score ≥ 0), inbound
  cOut : Nat   -- … outbound
  pool : Nat   -- upper bound on the peers the opportunistic graft can pick from
deriving Repr

/-- the random choices of one iteration -/
structure Orc where
  x2 : Nat            -- how many peers selected by the "mesh low" `get_random_peers` are outbound
  order : List Bool   -- `shuffled` of the "mesh high" branch, as outbound flags
  below : Bool        -- `median < opportunistic_graft_threshold`
  k5In : Nat          -- opportunistic grafts: inbound / outbound
  k5Out : Nat
deriving Repr

/-- "too little peers - add some".  State: (inbound, outbound, cIn, cOut). -/
def step2 (P : Params) (o : Obs) (x2 : Nat) : Res (Nat × Nat × Nat × Nat) :=
  let len := o.mIn + o.mOut
  if len < P.low then
    (csub P.n len).bind fun desired =>
    let k := min desired (o.cIn + o.cOut)
    if x2 ≤ o.cOut ∧ x2 ≤ k ∧ k - x2 ≤ o.cIn then
      .ok (o.mIn + (k - x2), o.mOut + x2, o.cIn - (k - x2), o.cOut - x2)
    else .badOracle "sel2"
  else .ok (o.mIn, o.mOut, o.cIn, o.cOut)

/-- `for peer in shuffled { if removed == excess {break}; if outbound(peer) { if outbound <=
mesh_outbound_min {continue}; outbound -= 1 }; peers.remove(peer); removed += 1 }`.
State: inbound count, outbound counter, removed. -/
def removeLoop (outMin excess : Nat) : List Bool → Nat → Nat → Nat → Res (Nat × Nat)
  | [], inb, ob, _ => .ok (inb, ob)
  | f :: fs, inb, ob, removed =>
    if removed = excess then .ok (inb, ob)
    else if f then
      if ob ≤ outMin then removeLoop outMin excess fs inb ob removed
      else (csub ob 1).bind fun ob' => removeLoop outMin excess fs inb ob' (removed + 1)
    else removeLoop outMin excess fs (inb - 1) ob (removed + 1)

/-- `if peers.len() > retain_scores { shuffled[..peers.len() - retain_scores].shuffle(..) }` -/
def retainGuard (len retain : Nat) : Res Unit :=
  if len > retain then (csub len retain).bind fun e => idx e (len + 1) else .ok ()

/-- "too many peers - remove some" -/
def step3 (P : Params) (retain : Nat) (inb ob : Nat) (order : List Bool) : Res (Nat × Nat) :=
  let len := inb + ob
  if len ≥ P.high then
    (csub len P.n).bind fun excess =>
    (retainGuard len retain).bind fun _ =>
    if order.length = len ∧ order.count true = ob then removeLoop P.outMin excess order inb ob 0
    else .badOracle "order"
  else .ok (inb, ob)

/-- "do we have enough outbound peers?"  State: (inbound, outbound). -/
def step4 (P : Params) (inb ob cOut : Nat) : Res (Nat × Nat) :=
  if inb + ob ≥ P.low then
    if ob < P.outMin then
      (csub P.outMin ob).bind fun needed => .ok (inb, ob + min needed cOut)
    else .ok (inb, ob)
  else .ok (inb, ob)

/-- opportunistic grafting: the median index arithmetic and the selection -/
def step5 (opp : Bool) (ogp pool : Nat) (inb ob : Nat) (orc : Orc) : Res (Nat × Nat) :=
  let len := inb + ob
  if opp ∧ len > 1 then
    let middle := len / 2
    (if len % 2 = 0 then
      (csub middle 1).bind fun sm => (idx sm len).bind fun _ => idx middle len
     else idx middle len).bind fun _ =>
    if orc.below then
      if orc.k5In + orc.k5Out ≤ ogp ∧ orc.k5In + orc.k5Out ≤ pool then .ok (inb + orc.k5In, ob + orc.k5Out)
      else .badOracle "sel5"
    else .ok (inb, ob)
  else .ok (inb, ob)

/-- heartbeat-wide settings: `retain_scores`, "opportunistic graft tick and scoring active",
`opportunistic_graft_peers` -/
structure HbCfg where
  retain : Nat
  opp : Bool
  ogp : Nat
deriving Repr

/-- one iteration of the mesh-maintenance loop; result = (inbound, outbound) mesh peers afterwards -/
def hbTopic (P : Params) (h : HbCfg) (o : Obs) (orc : Orc) : Res (Nat × Nat) :=
  (step2 P o orc.x2).bind fun (inb, ob, _cIn, cOut) =>
  (step3 P h.retain inb ob orc.order).bind fun (inb, ob) =>
  -- a peer removed by step 3 is inbound whenever step 4 runs, so step 4's pool is the rest of cOut
  (step4 P inb ob cOut).bind fun (inb, ob) =>
  step5 h.opp h.ogp o.pool inb ob orc

/-- the mesh loop over all topics.  The iteration order of the `HashMap` is unknown, and a panic in
any iteration is a panic of the heartbeat: `panic` dominates (an oracle for an iteration that the real
code never reached cannot be supplied, so `badOracle` has the lowest priority). -/
def hbTopics (c : Config) (h : HbCfg) : List (Nat × Obs × Orc) → Res (List (Nat × Nat × Nat))
  | [] => .ok []
  | (t, o, orc) :: r =>
    match hbTopic (c.paramsFor t) h o orc, hbTopics c h r with
    | .panic m, _ => .panic m
    | _, .panic m => .panic m
    | .badOracle w, _ => .badOracle w
    | _, .badOracle w => .badOracle w
    | .ok (inb, ob), .ok rest => .ok ((t, inb, ob) :: rest)

/-- `emit_gossip` → `mcache.get_gossip_message_ids(topic)` → `self.history[..self.gossip]`, once per
mesh (or fanout) topic -/
def gossipSlice (c : Config) (nTopics : Nat) : Res Unit :=
  if nTopics = 0 then .ok () else if c.histGossip ≤ c.histLen then .ok () else .panic "slice"

/-- the heartbeat as far as its arithmetic goes -/
def heartbeat (c : Config) (h : HbCfg) (blocks : List (Nat × Obs × Orc)) : Res (List (Nat × Nat × Nat)) :=
  match hbTopics c h blocks, gossipSlice c blocks.length with
  | .panic m, _ => .panic m
  | _, .panic m => .panic m
  | .badOracle w, _ => .badOracle w
  | _, .badOracle w => .badOracle w
  | .ok r, .ok _ => .ok r

/-! ## executable Spec (evaluated on the implementation's outputs) -/

/-- what `build` returned, as read off the getters: default parameter set, the parameter set and
transmit size *for every topic of the alphabet* (so also topics without an own entry), history. -/
structure Getters where
  dflt : Params
  perTopic : List Params
  histLen : Nat
  histGossip : Nat
  mts : Nat
  mtsPerTopic : List Nat
deriving Repr, DecidableEq

def Builder.getters (b : Builder) (alphabet : List Nat) : Getters :=
  { dflt := b.dflt, perTopic := alphabet.map b.paramsFor, histLen := b.histLen,
    histGossip := b.histGossip, mts := b.mts, mtsPerTopic := alphabet.map b.mtsFor }

/-- Spec of `build`: an accepted config satisfies the inequalities -/
def specBuild (g : Getters) : Bool :=
  decide g.dflt.valid && g.perTopic.all (fun p => decide p.valid) &&
  decide (g.histGossip ≤ g.histLen) && decide (100 ≤ g.mts) && g.mtsPerTopic.all (fun s => decide (100 ≤ s))

/-- how an accepted config (getters `g`, read off the implementation) relates to the property -/
inductive Class where
  | valid
  | known (key : String)   -- invalid only in the ways of the recorded finding
  | other (key : String)   -- invalid in any other way
deriving Repr, DecidableEq

def zip3 (ts : List Nat) (ps : List Params) (ms : List Nat) : List (Nat × Params × Nat) :=
  match ts, ps, ms with
  | t :: ts, p :: ps, m :: ms => (t, p, m) :: zip3 ts ps ms
  | _, _, _ => []

/-- Classification of an ACCEPTED config.  `b` (the builder state reconstructed from the op's setter
list) is only used to know which topics have a `max_transmit_size` entry / an own parameter entry;
validity is judged on the implementation's getters.  Reasons outside the recorded finding take
precedence, so a known reason never masks another defect:
* `…:history` — `history_gossip > history_length` accepted;
* `…:sized_topic` — a topic WITH a `max_transmit_size` entry accepted with a size < 100 or an
  invalid parameter set (the loop does check these);
* known: `…:default_mesh_params` (default parameter set invalid), `…:default_transmit_size`
  (default size < 100), `…:topic_without_size_entry` (an own per-topic parameter set is invalid and
  the topic has no `max_transmit_size` entry). -/
def classify (b : Builder) (alphabet : List Nat) (g : Getters) : Class :=
  if specBuild g then .valid
  else
    let rows := zip3 alphabet g.perTopic g.mtsPerTopic
    let sized := fun (t : Nat) => (lookup b.mtsT t).isSome
    let own := fun (t : Nat) => (lookup b.topics t).isSome
    if g.histLen < g.histGossip then .other "build_accepts_invalid:history"
    else if rows.any (fun r => sized r.1 && (decide (r.2.2 < 100) || !decide r.2.1.valid)) then
      .other "build_accepts_invalid:sized_topic"
    else if !decide g.dflt.valid then .known "build_accepts_invalid:default_mesh_params"
    else if g.mts < 100 then .known "build_accepts_invalid:default_transmit_size"
    else if rows.any (fun r => own r.1 && !sized r.1 && !decide r.2.1.valid) then
      .known "build_accepts_invalid:topic_without_size_entry"
    else .other "build_accepts_invalid:unclassified"

def Class.verdict : Class → String
  | .valid => "ok"
  | .known k => "FAIL:" ++ k
  | .other k => "FAIL:" ++ k

/-- Spec of a heartbeat on a behaviour built from an accepted config: no panic.  The failure key
says whether the accepted config was valid (`heartbeat_panic:valid_config`, a new defect), invalid exactly as in the recorded
finding, or invalid otherwise. -/
def specHbKey (accepted : Option Class) (panicked : Bool) : String :=
  if !panicked then "ok"
  else match accepted with
    | none => "ok"                                   -- config was not returned by `build`
    | some .valid => "FAIL:heartbeat_panic:valid_config"
    | some (.known _) => "FAIL:heartbeat_panic:accepted_invalid_config"
    | some (.other _) => "FAIL:heartbeat_panic:other_invalid_config"

/-- Spec of a heartbeat on a behaviour built from an accepted config: no panic -/
def specHb {α : Type} (accepted : Bool) (r : Res α) : Bool := !(accepted && r.isPanic)

end C34
