import Libp2pModel.Common.Varint
import Libp2pModel.Common.Framed
import Libp2pModel.Common.Drv
/-!
# C31 — gossipsub RPC size limits are applied per frame

Anchors: `protocols/gossipsub/src/protocol.rs` (`validate_rpc_limits`, `GossipsubCodec::decode`),
`misc/prost-codec/src/lib.rs` (`Codec::decode`, `consume_message_prefix`, `decode_field_tag`,
`consume_message`), and what they call: `unsigned_varint::decode::usize` (length prefix),
`prost::encoding::{decode_varint, decode_key, skip_field}`, the top level of the prost-generated
`Rpc::merge_field`.

Bytes are `List Nat` (each < 256).  `decodeStep` is ONE call of `GossipsubCodec::decode` on the read
buffer, as REPAIRED (finding `C31-size-test-on-whole-buffer`); `decodeStepBuggy` is the pre-fix
function.  An RPC is decoded down to its top-level fields `(tag, wire type, field size)`; the
nested contents of the known fields (1 subscriptions, 2 publish, 3 control, 10 partial) are opaque
and assumed well-formed (the harness only sends well-formed nested content).
-/
namespace C31

/-! ## `unsigned_varint::decode::u64` (the frame length prefix) -/

inductive UvRes where
  | insufficient
  | overflow
  | notMinimal
  | ok (n : Nat) (rest : List Nat)
deriving Repr, DecidableEq

/-- The `decode!` loop (`max_bytes = 9`) written recursively; `i` = index of the current byte.
The value of byte `i` is `(b & 0x7f) << 7i` in `u64`: for `i = 9` only bit 0 survives the shift. -/
def uvDecode (i : Nat) : List Nat → UvRes
  | [] => .insufficient
  | b :: rest =>
    if b < 128 then
      if b = 0 ∧ i > 0 then .notMinimal else .ok (if i = 9 then b % 2 else b) rest
    else if i = 9 then .overflow
    else match uvDecode (i + 1) rest with
      | .ok v r => .ok ((b - 128) + 128 * v) r
      | e => e

/-! ## `prost::encoding::decode_varint` (protobuf keys and lengths) -/

/-- at most 10 bytes, the 10th must be < 2; `none` = `DecodeError` ("invalid varint"), also when
the buffer ends early -/
def pbVarintAux : Nat → List Nat → Option (Nat × List Nat)
  | 0, _ => none
  | _ + 1, [] => none
  | fuel + 1, b :: rest =>
    if b < 128 then (if fuel = 0 ∧ b ≥ 2 then none else some (b, rest))
    else match pbVarintAux fuel rest with
      | none => none
      | some (v, r) => some ((b - 128) + 128 * v, r)

def pbVarint (buf : List Nat) : Option (Nat × List Nat) := pbVarintAux 10 buf

inductive WT where
  | varint | i64 | len | sgroup | egroup | i32
deriving Repr, DecidableEq

def wtOf : Nat → Option WT
  | 0 => some .varint | 1 => some .i64 | 2 => some .len | 3 => some .sgroup | 4 => some .egroup
  | 5 => some .i32 | _ => none

def WT.code : WT → Nat
  | .varint => 0 | .i64 => 1 | .len => 2 | .sgroup => 3 | .egroup => 4 | .i32 => 5

/-- `prost::encoding::decode_key` -/
def decodeKey (buf : List Nat) : Option (Nat × WT × List Nat) :=
  match pbVarint buf with
  | none => none
  | some (key, rest) =>
    if key > 4294967295 then none
    else match wtOf (key % 8) with
      | none => none
      | some wt => if key / 8 < 1 then none else some (key / 8, wt, rest)

/-- `if len > buf.remaining() { Err("buffer underflow") }; buf.advance(len)` -/
def adv (n : Nat) (buf : List Nat) : Option (List Nat) :=
  if n > buf.length then none else some (buf.drop n)

mutual
/-- `prost::encoding::skip_field`; `depth` = `ctx.recurse_count` (100 at the top), `fuel` bounds the
recursion structurally (every recursive call follows a key, i.e. ≥ 1 consumed byte) -/
def skipField : Nat → Nat → WT → Nat → List Nat → Option (List Nat)
  | 0, _, _, _, _ => none
  | fuel + 1, depth, wt, tag, buf =>
    if depth = 0 then none
    else match wt with
      | .varint => (pbVarint buf).map (·.2)
      | .i32 => adv 4 buf
      | .i64 => adv 8 buf
      | .len => match pbVarint buf with
        | none => none
        | some (l, r) => adv l r
      | .sgroup => skipGroup fuel depth tag buf
      | .egroup => none
/-- the `loop` of the `StartGroup` arm -/
def skipGroup : Nat → Nat → Nat → List Nat → Option (List Nat)
  | 0, _, _, _ => none
  | fuel + 1, depth, tag, buf =>
    match decodeKey buf with
    | none => none
    | some (itag, iwt, r) =>
      if iwt = .egroup then (if itag ≠ tag then none else some r)
      else match skipField fuel (depth - 1) iwt itag r with
        | none => none
        | some r' => skipGroup fuel depth tag r'
end

/-- `consume_message(wire_type, tag, buf)` = `skip_field(.., DecodeContext::default())` -/
def consumeMessage (wt : WT) (tag : Nat) (buf : List Nat) : Option (List Nat) :=
  skipField (buf.length + 1) 100 wt tag buf

/-! ## limits, errors -/

structure Limits where
  max : Nat          -- global_max_transmit_size (= the inner codec's max_message_len_bytes)
  maxPublish : Nat   -- max_publish_messages
  maxControl : Nat   -- max_control_message_size
deriving Repr

inductive Err where
  | tooLarge          -- "message with {n}b exceeds maximum of {max}b"
  | badPrefix         -- unsigned-varint Overflow / NotMinimal
  | tooManyPublish    -- "too many publish messages"
  | controlTooLarge   -- "rpc control size exceeds max control message size"
  | decode            -- a prost DecodeError
  | panic             -- slice index / subtraction underflow (never produced, see `C31.no_panic`)
deriving Repr, DecidableEq

def Err.name : Err → String
  | .tooLarge => "too-large" | .badPrefix => "bad-prefix" | .tooManyPublish => "too-many-publish"
  | .controlTooLarge => "control-too-large" | .decode => "decode" | .panic => "panic"

/-- a top-level field as the decoder sees it: tag, wire type, size in bytes (key + value) -/
abbrev Tok := Nat × WT × Nat

inductive WalkRes where
  | err (e : Err)
  | ok (fields : List Tok)
deriving Repr, DecidableEq

/-- the `while !buf.is_empty()` loop of `validate_rpc_limits`; `pc` = publish_count,
`cs` = control_size.  `fuel ≥ buf.length` always suffices (a field has ≥ 1 byte). -/
def walk (L : Limits) : Nat → List Nat → Nat → Nat → WalkRes
  | 0, buf, _, _ => if buf.isEmpty then .ok [] else .err .panic
  | fuel + 1, buf, pc, cs =>
    if buf.isEmpty then .ok []
    else match decodeKey buf with
      | none => .err .decode
      | some (tag, wt, r) =>
        match consumeMessage wt tag r with
        | none => .err .decode
        | some r' =>
          -- `field_start.len() - buf.len()`
          if buf.length < r'.length then .err .panic
          else
          let size := buf.length - r'.length
          let cont (pc cs : Nat) : WalkRes :=
            match walk L fuel r' pc cs with
            | .err e => .err e
            | .ok fs => .ok ((tag, wt, size) :: fs)
          if tag = 2 then
            if pc + 1 > L.maxPublish then .err .tooManyPublish else cont (pc + 1) cs
          else if tag = 1 ∨ tag = 3 then
            if cs + size > L.maxControl then .err .controlTooLarge else cont pc (cs + size)
          else cont pc cs

inductive PrefixRes where
  | incomplete
  | err (e : Err)
  | ok (body : List Nat)
deriving Repr, DecidableEq

/-- `prost_codec::consume_message_prefix` -/
def consumePrefix (buf : List Nat) : PrefixRes :=
  match uvDecode 0 buf with
  | .insufficient => .incomplete
  | .overflow => .err .badPrefix
  | .notMinimal => .err .badPrefix
  | .ok n rem =>
    if rem.length < n then .incomplete
    else .ok (rem.take n)        -- `&remaining[..message_length]`

inductive VRes where
  | incomplete   -- Ok(false)
  | err (e : Err)
  | ok           -- Ok(true)
deriving Repr, DecidableEq

/-- the REPAIRED `validate_rpc_limits`: the size test is applied to the bytes of the first message -/
def validate (L : Limits) (buf : List Nat) : VRes :=
  match consumePrefix buf with
  | .incomplete => .incomplete
  | .err e => .err e
  | .ok body =>
    if body.length > L.max then .err .tooLarge
    else match walk L body.length body 0 0 with
      | .err e => .err e
      | .ok _ => .ok

/-- the pre-fix `validate_rpc_limits`: the size test is applied to the whole read buffer -/
def validateBuggy (L : Limits) (buf : List Nat) : VRes :=
  if buf.length > L.max then .err .tooLarge
  else match consumePrefix buf with
    | .incomplete => .incomplete
    | .err e => .err e
    | .ok body =>
      match walk L body.length body 0 0 with
      | .err e => .err e
      | .ok _ => .ok

/-- top level of the prost-generated `Rpc::decode`: `while buf.has_remaining() { decode_key;
merge_field }`; fields 1, 2, 3, 10 are length-delimited messages (any other wire type is an
error; nested contents opaque), everything else is skipped. -/
def parse : Nat → List Nat → WalkRes
  | 0, buf => if buf.isEmpty then .ok [] else .err .panic
  | fuel + 1, buf =>
    if buf.isEmpty then .ok []
    else match decodeKey buf with
      | none => .err .decode
      | some (tag, wt, r) =>
        if (tag = 1 ∨ tag = 2 ∨ tag = 3 ∨ tag = 10) ∧ wt ≠ .len then .err .decode
        else match consumeMessage wt tag r with
          | none => .err .decode
          | some r' =>
            match parse fuel r' with
            | .err e => .err e
            | .ok fs => .ok ((tag, wt, buf.length - r'.length) :: fs)

inductive Step where
  | needMore
  | err (e : Err)
  | ok (fields : List Tok) (rest : List Nat)
deriving Repr, DecidableEq

/-- `prost_codec::Codec::decode` -/
def codecDecode (max : Nat) (src : List Nat) : Step :=
  match uvDecode 0 src with
  | .insufficient => .needMore
  | .overflow => .err .badPrefix
  | .notMinimal => .err .badPrefix
  | .ok n rem =>
    if n > max then .err .tooLarge
    else
      -- `message_length.checked_add(varint_length).is_none_or(|total| src.len() < total)`
      if src.length < n + (src.length - rem.length) then .needMore
      else
        let body := rem.take n
        match parse body.length body with
        | .err e => .err e
        | .ok fs => .ok fs (rem.drop n)

/-- ONE call of the REPAIRED `GossipsubCodec::decode`: validate the first message if it is
complete, then let the inner codec decode (or report "need more" / an oversized prefix). -/
def decodeStep (L : Limits) (src : List Nat) : Step :=
  match validate L src with
  | .err e => .err e
  | _ => codecDecode L.max src

/-- ONE call of the pre-fix `GossipsubCodec::decode` -/
def decodeStepBuggy (L : Limits) (src : List Nat) : Step :=
  match validateBuggy L src with
  | .err e => .err e
  | .incomplete => .needMore
  | .ok => codecDecode L.max src

/-! ## the codec's constructor parameters and the per-topic message-size check -/

/-- `GossipsubCodec`: what `GossipsubCodec::new(global_max_transmit_size, validation_mode,
max_transmit_sizes, max_publish_messages, max_control_message_size)` stores.  The FRAME bound —
both the `max_message_size` handed to `validate_rpc_limits` and the inner
`prost_codec::Codec::new(global_max_transmit_size)` — is the GLOBAL max, whatever the per-topic
map contains (also when a topic's max is larger than the global one). -/
structure Codec where
  L : Limits
  perTopic : List (List Nat × Nat)     -- max_transmit_sizes (topic bytes ↦ max)
deriving Repr

/-- `GossipsubCodec::new` -/
def Codec.new (globalMax : Nat) (perTopic : List (List Nat × Nat)) (maxPublish maxControl : Nat) : Codec :=
  { L := { max := globalMax, maxPublish := maxPublish, maxControl := maxControl }, perTopic := perTopic }

/-- ONE call of `GossipsubCodec::decode` as far as framing goes -/
def Codec.decodeStep (C : Codec) (src : List Nat) : Step := C31.decodeStep C.L src

/-- `self.max_transmit_sizes.get(topic).copied()` -/
def Codec.maxFor (C : Codec) (topic : List Nat) : Option Nat :=
  (C.perTopic.find? (·.1 = topic)).map (·.2)

/-- the payloads of the publish entries (field 2, length-delimited) of an RPC body that passed
`validate`/`parse` -/
def publishPayloads : Nat → List Nat → List (List Nat)
  | 0, _ => []
  | fuel + 1, buf =>
    if buf.isEmpty then []
    else match decodeKey buf with
      | none => []
      | some (tag, wt, r) =>
        match consumeMessage wt tag r with
        | none => []
        | some r' =>
          if tag = 2 ∧ wt = .len then
            match pbVarint r with
            | some (l, pl) => pl.take l :: publishPayloads fuel r'
            | none => publishPayloads fuel r'
          else publishPayloads fuel r'

/-- the `topic` (field 4, a string) of a nested `Message`: the last occurrence wins, `""` if absent -/
def msgTopicAux : Nat → List Nat → List Nat → List Nat
  | 0, _, acc => acc
  | fuel + 1, buf, acc =>
    if buf.isEmpty then acc
    else match decodeKey buf with
      | none => acc
      | some (tag, wt, r) =>
        match consumeMessage wt tag r with
        | none => acc
        | some r' =>
          if tag = 4 ∧ wt = .len then
            match pbVarint r with
            | some (l, pl) => msgTopicAux fuel r' (pl.take l)
            | none => msgTopicAux fuel r' acc
          else msgTopicAux fuel r' acc

def msgTopic (payload : List Nat) : List Nat := msgTopicAux payload.length payload []

/-- the per-message check of `decode`: `max_transmit_size_for_topic(&topic).is_some_and(|max|
message.encoded_len() > max)` — the message goes to `invalid_messages` with
`MessageSizeTooLargeForTopic`, the RPC is still delivered.  (`encoded_len` of a canonically
encoded message = the length of its payload.) -/
def Codec.tooLargeForTopic (C : Codec) (payload : List Nat) : Bool :=
  match C.maxFor (msgTopic payload) with
  | some max => payload.length > max
  | none => false

/-- number of publish entries of a decoded RPC body rejected by the per-topic check -/
def Codec.invalidCount (C : Codec) (body : List Nat) : Nat :=
  ((publishPayloads body.length body).filter C.tooLargeForTopic).length

/-- the RPC body of the complete frame at the front of `buf` -/
def frameBody (buf : List Nat) : List Nat :=
  match uvDecode 0 buf with
  | .ok n rem => rem.take n
  | _ => []

/-! ## the `FramedRead` loop -/

/-- decode from the buffer until "need more" or an error -/
def drainE (dec : List Nat → Step) : Nat → List Nat → List (List Tok) × Option Err × List Nat
  | 0, buf => ([], none, buf)
  | fuel + 1, buf =>
    match dec buf with
    | .needMore => ([], none, buf)
    | .err e => ([], some e, buf)
    | .ok f rest =>
      let (fs, e, r) := drainE dec fuel rest
      (f :: fs, e, r)

/-- read one chunk into the buffer and decode what is there -/
def feedE (dec : List Nat → Step) (st chunk : List Nat) : List (List Tok) × Option Err × List Nat :=
  drainE dec (st ++ chunk).length (st ++ chunk)

/-- a whole stream delivered in chunks; stops at the first error -/
def runE (dec : List Nat → Step) : List Nat → List (List Nat) → List (List Tok) × Option Err × List Nat
  | st, [] => ([], none, st)
  | st, c :: cs =>
    match feedE dec st c with
    | (fs, some e, r) => (fs, some e, r)
    | (fs, none, r) =>
      let (gs, e, r') := runE dec r cs
      (fs ++ gs, e, r')

/-! ## the sender's side (for the statements): RPCs as lists of length-delimited fields -/

structure Field where
  tag : Nat
  payload : List Nat
deriving Repr, DecidableEq

def encField (f : Field) : List Nat :=
  Varint.encode (f.tag * 8 + 2) ++ Varint.encode f.payload.length ++ f.payload

def encRpc (r : List Field) : List Nat := r.flatMap encField

/-- the frame on the wire: unsigned-varint length prefix + protobuf encoding -/
def frame (r : List Field) : List Nat := Varint.encode (encRpc r).length ++ encRpc r

def Field.wf (f : Field) : Prop := 1 ≤ f.tag ∧ f.tag < 536870912 ∧ f.payload.length < 2 ^ 32

def tokOf (f : Field) : Tok := (f.tag, .len, (encField f).length)

/-- number of publish entries -/
def publishCount (r : List Field) : Nat := (r.filter (·.tag = 2)).length

/-- bytes of subscription and control fields (what `control_size` accumulates) -/
def controlBytes (r : List Field) : Nat :=
  ((r.filter (fun f => f.tag = 1 ∨ f.tag = 3)).map (fun f => (encField f).length)).sum

/-- "within max_transmit_size and within the publish/control limits" -/
def within (L : Limits) (r : List Field) : Prop :=
  (encRpc r).length ≤ L.max ∧ publishCount r ≤ L.maxPublish ∧ controlBytes r ≤ L.maxControl

/-! ## executable Spec (a monitor over the implementation's outputs) -/

/-- ground truth of the harness about one frame it put on the wire: wire length (prefix + body),
encoded length of the RPC, and whether the RPC is good (well-formed and within all limits) -/
abbrev FrameInfo := Nat × Nat × Bool

structure SpecSt where
  max : Nat
  frames : List FrameInfo
  fed : Nat          -- bytes handed to the decoder so far
  delivered : Nat    -- RPCs the decoder has yielded so far
  dead : Bool        -- an error was reported
deriving Repr

/-- number of leading frames that are all good -/
def goodPrefix (frames : List FrameInfo) : Nat := (frames.takeWhile (·.2.2)).length

/-- number of leading frames wholly contained in the first `fed` bytes of the stream -/
def completeFrames : List FrameInfo → Nat → Nat
  | [], _ => 0
  | (w, _, _) :: r, fed => if w ≤ fed then 1 + completeFrames r (fed - w) else 0

/-- One chunk: the decoder yielded `oks` RPCs and then possibly an error.
* `oversize_accepted`: a delivered RPC's encoding exceeds `max` (or it is not a frame at all);
* `good_rpc_rejected`: an error although the next undelivered RPC is within all limits;
* `good_rpc_not_delivered`: all bytes of a good RPC (preceded by good RPCs only) have arrived,
  yet it was not yielded. -/
def specStep (s : SpecSt) (chunkLen oks : Nat) (err : Bool) : SpecSt × String :=
  let fed := s.fed + chunkLen
  let delivered := s.delivered + oks
  let s' := { s with fed := fed, delivered := delivered, dead := s.dead || err }
  let newly := (s.frames.drop s.delivered).take oks
  if newly.length < oks ∨ newly.any (fun f => f.2.1 > s.max) then (s', "FAIL:oversize_accepted")
  else if err ∧ delivered < goodPrefix s.frames then (s', "FAIL:good_rpc_rejected")
  else if !err ∧ !s.dead ∧ delivered < min (goodPrefix s.frames) (completeFrames s.frames fed) then
    (s', "FAIL:good_rpc_not_delivered")
  else (s', "ok")

end C31
