-- GENERATED on every check run by tools/gen_consts.py from /repo's working tree — do not edit
namespace Gen

/-- `transports/dns/src/lib.rs`: `const MAX_DIAL_ATTEMPTS: usize = 16;` -/
def MAX_DIAL_ATTEMPTS : Nat := 16
/-- `transports/dns/src/lib.rs`: `const MAX_DNS_LOOKUPS: usize = 32;` -/
def MAX_DNS_LOOKUPS : Nat := 32
/-- `transports/dns/src/lib.rs`: `const MAX_TXT_RECORDS: usize = 16;` -/
def MAX_TXT_RECORDS : Nat := 16

end Gen
