-- GENERATED on every check run by tools/gen_consts.py from /repo's working tree — do not edit
namespace Gen

/-- `transports/dns/src/lib.rs`: `const MAX_DIAL_ATTEMPTS: usize = 16;` -/
def MAX_DIAL_ATTEMPTS : Nat := 16
/-- `transports/dns/src/lib.rs`: `const MAX_DNS_LOOKUPS: usize = 32;` -/
def MAX_DNS_LOOKUPS : Nat := 32
/-- `transports/dns/src/lib.rs`: `const MAX_TXT_RECORDS: usize = 16;` -/
def MAX_TXT_RECORDS : Nat := 16
/-- `transports/noise/src/io/framed.rs`: `const MAX_NOISE_MSG_LEN: usize = 65535;` -/
def NOISE_MAX_NOISE_MSG_LEN : Nat := 65535
/-- `transports/noise/src/io/framed.rs`: `const EXTRA_ENCRYPT_SPACE: usize = 1024;` -/
def NOISE_EXTRA_ENCRYPT_SPACE : Nat := 1024
/-- `transports/noise/src/io/framed.rs`: `pub(crate) const MAX_FRAME_LEN: usize = MAX_NOISE_MSG_LEN - EXTRA_ENCRYPT_SPACE;` -/
def NOISE_FRAME_LEN_IS_MSG_MINUS_EXTRA_U16 : Nat := 16

end Gen
