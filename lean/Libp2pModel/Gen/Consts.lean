-- GENERATED on every check run by tools/gen_consts.py from /repo's working tree — do not edit
namespace Gen


end Gen
