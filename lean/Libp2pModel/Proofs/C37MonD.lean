import Libp2pModel.Proofs.C37MonC
/-!
# C37 — monitor proof, part D: final checks, every API call, the whole-history theorem
-/
namespace C37

/-! ## the final checks of a monitor step -/

theorem structural_accept {t : Table} (h : TInv t) (s : Nat) (hcap : ∀ i, i < 256 → (t.bucket i).capacity = s) :
    structural t.localKey s t.mdump = none := by
  unfold structural
  simp only [mdump_map_toBD, spec_dump h s hcap, if_true]

theorem incr_of_pairwise : ∀ l : List Nat, l.Pairwise (· < ·) → incr l = true
  | [], _ => rfl
  | [_], _ => rfl
  | a :: b :: r, h => by
    rw [List.pairwise_cons] at h
    simp only [incr, Bool.and_eq_true, decide_eq_true_eq]
    exact ⟨h.1 b (by simp), incr_of_pairwise (b :: r) h.2⟩

theorem lruBucket_accept {l i B : Nat} {b : Bucket} (h : BInv l i B b) {asg : List (Nat × Bool × Nat)}
    (hasg : AsgOK asg b) : lruBucket asg (b.mdump i) = none := by
  obtain ⟨D, C, hsp⟩ := h.split
  have hn : (b.mdump i).nodes = D.map (fun n => (n.key, false)) ++ C.map (fun n => (n.key, true)) :=
    dump_nodes_of_split hsp i
  have hD : ∀ n ∈ D, lookupA asg n.key = some (false, n.stamp) := by
    intro n hn'
    have := hasg n (by rw [hsp.nodes]; exact List.mem_append_left _ hn')
    rw [hsp.dis n hn'] at this
    exact this
  have hC : ∀ n ∈ C, lookupA asg n.key = some (true, n.stamp) := by
    intro n hn'
    have := hasg n (by rw [hsp.nodes]; exact List.mem_append_right _ hn')
    rw [hsp.con n hn'] at this
    exact this
  have hinfo : (b.mdump i).nodes.map (fun n => (n.2, lookupA asg n.1)) =
      D.map (fun n => (false, some (false, n.stamp))) ++ C.map (fun n => (true, some (true, n.stamp))) := by
    rw [hn, List.map_append, List.map_map, List.map_map]
    congr 1
    · apply List.map_congr_left
      intro n hn'
      simp only [Function.comp, hD n hn']
    · apply List.map_congr_left
      intro n hn'
      simp only [Function.comp, hC n hn']
  unfold lruBucket
  simp only [hinfo]
  have hany : (D.map (fun n => (false, some (false, n.stamp))) ++
      C.map (fun n => (true, some (true, n.stamp)))).any statusMismatch = false := by
    simp [List.any_append, List.any_map, statusMismatch, Function.comp_def]
  have e1 : ∀ (l : List Node), l.filter (fun _ => true) = l := fun l => List.filter_eq_self.2 (fun _ _ => rfl)
  have e2 : ∀ (l : List Node), l.filter (fun _ => false) = [] := fun l =>
    List.filter_eq_nil_iff.2 (fun _ _ => by simp)
  have hf : stampsOf (D.map (fun n => (false, some (false, n.stamp))) ++
      C.map (fun n => (true, some (true, n.stamp)))) false = D.map (·.stamp) := by
    simp [stampsOf, List.filter_append, List.filter_map, List.filterMap_map, Function.comp_def, e1, e2]
  have ht : stampsOf (D.map (fun n => (false, some (false, n.stamp))) ++
      C.map (fun n => (true, some (true, n.stamp)))) true = C.map (·.stamp) := by
    simp [stampsOf, List.filter_append, List.filter_map, List.filterMap_map, Function.comp_def, e1, e2]
  have h1 : incr (D.map (·.stamp)) = true := incr_of_pairwise _ (by
    rw [List.pairwise_map]; exact hsp.sortedD)
  have h2 : incr (C.map (·.stamp)) = true := incr_of_pairwise _ (by
    rw [List.pairwise_map]; exact hsp.sortedC)
  rw [hany, hf, ht, h1, h2]
  rfl

theorem lru_accept {t : Table} (h : TInv t) {asg : List (Nat × Bool × Nat)} (hasg : AsgT asg t) :
    lruCheck asg t.mdump = none := by
  unfold lruCheck
  rw [List.findSome?_eq_none_iff]
  intro bd hbd
  obtain ⟨i, hi, rfl⟩ := mem_mdump hbd
  exact lruBucket_accept (h.buckets i hi) (hasg i hi)

/-- `monStep`, unfolded -/
theorem monStep_spec (m : Mon) (o : MObs) :
    (monStep m o).1 =
      { m with now := (opEffect m (o.aps.foldl (applyAp m.prev m.step) m.assigned) o).2.2,
               step := m.step + 1, prev := o.dump,
               created := (opEffect m (o.aps.foldl (applyAp m.prev m.step) m.assigned) o).2.1,
               assigned := (opEffect m (o.aps.foldl (applyAp m.prev m.step) m.assigned) o).1 } ∧
    (structural m.localKey m.bsize o.dump = none → o.aps.findSome? (pendingRule m) = none →
      lruCheck (opEffect m (o.aps.foldl (applyAp m.prev m.step) m.assigned) o).1 o.dump = none →
      (monStep m o).2 = none) := by
  unfold monStep
  constructor
  · cases structural m.localKey m.bsize o.dump with
    | some k => rfl
    | none =>
      cases List.findSome? (pendingRule m) o.aps with
      | some k => rfl
      | none => rfl
  · intro h1 h2 h3
    simp only [h1, h2]
    exact h3

/-! ## `ops`, `now` and `applied` along a call -/

theorem applyList_facts : ∀ (L : List Nat) (t : Table),
    (applyList t L).ops = t.ops ∧ (applyList t L).now = t.now
  | [], _ => ⟨rfl, rfl⟩
  | i :: L, t => by
    simp only [applyList]
    obtain ⟨h1, h2⟩ := applyList_facts L ((t.setBucket i ((t.bucket i).applyPending t.now (2 * t.ops)).1).record
      ((t.bucket i).applyPending t.now (2 * t.ops)).2)
    rw [h1, h2, record_ops, record_now]
    exact ⟨rfl, rfl⟩

/-- closing a step: from the facts about the model's new table to the monitor's verdict and the
relation for the new states -/
theorem close_step {m : Mon} {t : Table} (hR : MonR m t) (h : TInv t) (op : Op) (hv : op.Valid)
    (hops : (t.step op).1.ops = t.ops + 1)
    (hrule : ((t.step op).1.applied.map obsAp).findSome? (pendingRule m) = none)
    (heff : AsgT (opEffect m (((t.step op).1.applied.map obsAp).foldl (applyAp m.prev m.step) m.assigned)
              (t.observe op).2).1 (t.step op).1 ∧
            CreT (opEffect m (((t.step op).1.applied.map obsAp).foldl (applyAp m.prev m.step) m.assigned)
              (t.observe op).2).2.1 m.timeout (t.step op).1 ∧
            (opEffect m (((t.step op).1.applied.map obsAp).foldl (applyAp m.prev m.step) m.assigned)
              (t.observe op).2).2.2 = (t.step op).1.now) :
    (monStep m (t.observe op).2).2 = none ∧ MonR (monStep m (t.observe op).2).1 (t.observe op).1 := by
  have hTs : TInv (t.step op).1 := step_inv h op hv
  have hobs1 : (t.observe op).1 = { (t.step op).1 with applied := [] } := rfl
  have hdump : (t.observe op).2.dump = (t.step op).1.mdump := rfl
  have haps : (t.observe op).2.aps = (t.step op).1.applied.map obsAp := rfl
  have hcap : ∀ i, i < 256 → ((t.step op).1.bucket i).capacity = m.bsize := fun i hi => by
    rw [step_cap]; exact hR.cap i hi
  have htmo : ∀ i, i < 256 → ((t.step op).1.bucket i).timeout = m.timeout := fun i hi => by
    rw [step_tmo]; exact hR.tmo i hi
  have hloc : (t.step op).1.localKey = t.localKey := step_local t op
  obtain ⟨hm1, hm2⟩ := monStep_spec m (t.observe op).2
  rw [haps] at hm1 hm2
  constructor
  · apply hm2
    · rw [hdump, hR.localKey, ← hloc]
      exact structural_accept hTs m.bsize hcap
    · exact hrule
    · rw [hdump]; exact lru_accept hTs heff.1
  · rw [hm1, hobs1]
    exact ⟨by simp only; rw [hR.localKey, hloc], hcap, htmo, heff.2.2, by simp only; rw [hR.step, hops],
      hdump, rfl, heff.1, heff.2.1⟩

end C37
