import Libp2pModel.Proofs.C55b
/-!
# C55 — helper lemmas III: interpretation of a built packet, chunk structure of `build`
-/
namespace C55

abbrev Item := Maddr × Bytes

/-! ### no-panic lemmas -/

theorem decodeCharacterString_no_panic (src : Bytes) : decodeCharacterString src ≠ .panic := by
  unfold decodeCharacterString
  cases src with
  | nil => simp
  | cons c cs =>
    simp only [List.isEmpty_cons, Bool.false_eq_true, ↓reduceIte, List.head?_cons]
    split
    · split
      · simp
      · rename_i h
        have hlen : (c :: cs).length ≠ 1 := fun h1 => h (Or.inl h1)
        have : ¬ (1 > (c :: cs).length - 1) := by
          simp at hlen ⊢; omega
        simp only [this, ↓reduceIte]
        split
        · split <;> simp
        · simp
    · simp

theorem isPrefixOf_length {l₁ l₂ : Bytes} (h : l₁.isPrefixOf l₂ = true) : l₁.length ≤ l₂.length :=
  (List.isPrefixOf_iff_prefix.1 h).length_le

theorem candidate_no_panic (txt : Bytes) : candidate txt ≠ .panic := by
  unfold candidate
  cases h : decodeCharacterString txt with
  | panic => exact absurd h (decodeCharacterString_no_panic txt)
  | err => simp
  | ok addr =>
    simp only
    by_cases hp : DNSADDR.isPrefixOf addr = true
    · have := isPrefixOf_length hp
      have h8 : ¬ (8 > addr.length) := by simp [DNSADDR] at this; omega
      simp [hp, h8]
    · simp [hp]

theorem peerFold_no_panic (oracle : Bytes → Option Maddr) (txts : List Bytes) (pid : Option Bytes)
    (acc : List Maddr) : peerFold oracle txts pid acc ≠ none := by
  induction txts generalizing pid acc with
  | nil => simp [peerFold]
  | cons t ts ih =>
    unfold peerFold
    cases hc : candidate t with
    | panic => exact absurd hc (candidate_no_panic t)
    | skip => exact ih _ _
    | text x =>
      simp only
      cases oracle x with
      | none => exact ih _ _
      | some a =>
        simp only
        cases popP2p a with
        | none => exact ih _ _
        | some q =>
          obtain ⟨a', id⟩ := q
          simp only
          cases pid with
          | none => exact ih _ _
          | some p =>
            simp only
            split
            · exact ih _ _
            · exact ih _ _

/-! ### interpretation of the builder's TXT strings -/

theorem popP2p_concat (a : Maddr) (peer : Bytes) : popP2p (a ++ [.p2p peer]) = some (a, peer) := by
  simp [popP2p]

theorem peerFold_items (oracle : Bytes → Option Maddr) (peer b58 : Bytes) (items : List Item)
    (horacle : ∀ it ∈ items, oracle (it.2 ++ P2P ++ b58) = some (it.1 ++ [.p2p peer]))
    (pid : Option Bytes) (hpid : pid = none ∨ pid = some peer) (acc : List Maddr) :
    peerFold oracle (items.map (fun it => charString (txtValue it.2 b58))) pid acc
      = some (if items = [] then pid else some peer, acc ++ items.map (·.1)) := by
  induction items generalizing pid acc with
  | nil => simp [peerFold]
  | cons it items ih =>
    have ho := horacle it (by simp)
    have ih' := fun pid hpid acc => ih (fun x hx => horacle x (by simp [hx])) pid hpid acc
    simp only [List.map_cons]
    unfold peerFold
    rw [candidate_charString]
    simp only [ho, popP2p_concat]
    rcases hpid with rfl | rfl
    · simp only
      rw [ih' (some peer) (Or.inr rfl)]
      by_cases he : items = [] <;> simp [he]
    · simp only [ne_eq, not_true_eq_false, ↓reduceIte]
      rw [ih' (some peer) (Or.inr rfl)]
      by_cases he : items = [] <;> simp [he]

theorem nameEq_refl (a : List Bytes) : nameEq a a = true := by simp [nameEq]

theorem interpret_built (oracle : Bytes → Option Maddr) (id ttl : Nat) (nm peer b58 : Bytes) (items : List Item)
    (horacle : ∀ it ∈ items, oracle (it.2 ++ P2P ++ b58) = some (it.1 ++ [.p2p peer])) :
    interpret oracle ⟨id, serviceLabels, ttl, [nm], (items.map (fun it => txtValue it.2 b58)).map (txtRecOf nm ttl)⟩
      = .resp (if items = [] then [] else [⟨peer, ttl, items.map (·.1)⟩]) := by
  have hstr : ((((items.map (fun it => txtValue it.2 b58)).map (txtRecOf nm ttl)).filter
        (fun r => nameEq r.owner [nm])).flatMap (·.strings))
      = items.map (fun it => charString (txtValue it.2 b58)) := by
    induction items with
    | nil => rfl
    | cons it items ih =>
      have ih' := ih (fun x hx => horacle x (by simp [hx]))
      simp only [List.map_cons, List.filter_cons, txtRecOf, nameEq_refl, ↓reduceIte, List.flatMap_cons]
      rw [ih']
      rfl
  unfold interpret mdnsPeerNew
  simp only [ne_eq, not_true_eq_false, ↓reduceIte, hstr]
  rw [peerFold_items oracle peer b58 items horacle none (Or.inl rfl) []]
  by_cases he : items = [] <;> simp [he]

/-! ### chunk structure of `build` -/

/-- the record groups `build_query_response` packs into packets: full groups of `maxRec`, then the
remainder if non-empty; a single empty group if there is nothing at all -/
def finalChunks {ι : Type} (maxRec : Nat) (g : List ι) : List (List ι) :=
  let st := chunkLoop maxRec g [] []
  let ch := if st.1.isEmpty then st.2 else st.2 ++ [st.1]
  if ch.isEmpty then [[]] else ch

theorem finalChunks_flatten {ι : Type} (maxRec : Nat) (g : List ι) :
    (finalChunks maxRec g).flatten = g := by
  have h := chunkLoop_flatten maxRec g [] []
  simp only [List.flatten_nil, List.nil_append] at h
  unfold finalChunks
  simp only
  cases h1 : (chunkLoop maxRec g [] []).1 with
  | nil =>
    rw [h1] at h
    cases h2 : (chunkLoop maxRec g [] []).2 with
    | nil => rw [h2] at h; simp at h; simp [h]
    | cons c cs => rw [h2] at h; simpa using h
  | cons x xs =>
    rw [h1] at h
    simpa using h

theorem finalChunks_length_le {ι : Type} (maxRec : Nat) (hpos : 0 < maxRec) (g : List ι) :
    ∀ c ∈ finalChunks maxRec g, c.length ≤ maxRec := by
  have h := chunkLoop_sizes maxRec hpos g [] [] (by simpa using hpos) (by simp)
  intro c hc
  unfold finalChunks at hc
  simp only at hc
  cases h1 : (chunkLoop maxRec g [] []).1 with
  | nil =>
    rw [h1] at hc
    cases h2 : (chunkLoop maxRec g [] []).2 with
    | nil => rw [h2] at hc; simp at hc; subst hc; simp
    | cons x xs =>
      rw [h2] at hc
      simp only [List.isEmpty_nil, ↓reduceIte, List.isEmpty_cons, Bool.false_eq_true] at hc
      exact Nat.le_of_eq (h.2 c (by rw [h2]; exact hc))
  | cons x xs =>
    rw [h1] at hc
    simp at hc
    rcases hc with hc | hc
    · exact Nat.le_of_eq (h.2 c hc)
    · subst hc; rw [h1] at h; exact Nat.le_of_lt h.1

theorem mem_of_mem_finalChunks {ι : Type} (maxRec : Nat) (g : List ι) (c : List ι)
    (hc : c ∈ finalChunks maxRec g) (x : ι) (hx : x ∈ c) : x ∈ g := by
  rw [← finalChunks_flatten maxRec g]
  exact List.mem_flatten.2 ⟨c, hc, hx⟩

/-- **`build_query_response` = one packet per record group** -/
theorem buildWith_eq {ι : Type} (maxRec : Nat) (hpos : 0 < maxRec)
    (rec : Bytes → Nat → Bytes → Except TxtErr Bytes) (id : Nat) (b58 : Bytes) (ttl : Nat) (pn : Bytes)
    (texts : List Bytes) (items : List ι) (val : ι → Bytes) (good : ι → Bool) (recOf : ι → Bytes)
    (hvals : (texts.take 65535).map (txtValue · b58) = items.map val)
    (hgood : ∀ it, good it = true → rec pn ttl (val it) = .ok (recOf it))
    (hbad : ∀ it, good it = false → ∃ e, rec pn ttl (val it) = .error e) :
    buildWith maxRec rec id b58 texts ttl pn
      = (finalChunks maxRec (items.filter good)).map
          (fun c => queryResponsePacket id pn (c.map recOf) ttl) := by
  unfold buildWith
  simp only [hvals]
  have h := buildLoop_eq_chunkLoop maxRec (fun v => rec pn ttl v)
    (fun recs => queryResponsePacket id pn recs ttl) val good recOf hgood hbad items [] []
    (by simp; omega)
  simp only [List.map_nil] at h
  rw [h]
  unfold buildFinish finalChunks
  simp only [List.isEmpty_iff, List.map_eq_nil_iff]
  cases h1 : (chunkLoop maxRec (List.filter good items) [] []).1 with
  | nil =>
    cases h2 : (chunkLoop maxRec (List.filter good items) [] []).2 with
    | nil => simp
    | cons c cs => simp
  | cons x xs => simp

end C55
