import Libp2pModel.Model.C51
/-!
# C51 — helper lemmas: association lists, the LRU list, and the refinement relation `Sim`
between the model state and the Spec's reference state.
-/
namespace C51

/-! ## association-list lemmas -/

theorem lookup_some_mem {α β} [DecidableEq α] {k : α} {v : β} :
    ∀ {l : List (α × β)}, lookup k l = some v → (k, v) ∈ l
  | [], h => by simp [lookup] at h
  | (a, b) :: t, h => by
    unfold lookup at h
    split at h
    · next hk => cases h; subst hk; simp
    · exact List.mem_cons_of_mem _ (lookup_some_mem h)

theorem lookup_none_not_mem {α β} [DecidableEq α] {k : α} :
    ∀ {l : List (α × β)}, lookup k l = none → ∀ e ∈ l, e.1 ≠ k
  | [], _ => by simp
  | (a, b) :: t, h => by
    unfold lookup at h
    split at h
    · cases h
    · next hk =>
      intro e he
      rcases List.mem_cons.1 he with rfl | he
      · exact hk
      · exact lookup_none_not_mem h e he

theorem lookup_map {α β γ} [DecidableEq α] (f : β → γ) (k : α) :
    ∀ l : List (α × β), lookup k (l.map fun e => (e.1, f e.2)) = (lookup k l).map f
  | [] => rfl
  | (a, b) :: t => by
    simp only [List.map, lookup]
    split <;> simp [lookup_map f k t]

/-- with distinct keys, `lookup` finds exactly the listed pair -/
theorem lookup_of_mem_nodup {α β} [DecidableEq α] {k : α} {v : β} :
    ∀ {l : List (α × β)}, (l.map (·.1)).Nodup → (k, v) ∈ l → lookup k l = some v
  | [], _, h => by simp at h
  | (a, b) :: t, hn, h => by
    simp only [List.map, List.nodup_cons] at hn
    unfold lookup
    rcases List.mem_cons.1 h with heq | hmem
    · cases heq; simp
    · have : a ≠ k := by
        intro hak; subst hak
        exact hn.1 (List.mem_map.2 ⟨(a, v), hmem, rfl⟩)
      simp [this, lookup_of_mem_nodup hn.2 hmem]

theorem lookup_append_new {α β} [DecidableEq α] (k : α) (v : β) :
    ∀ l : List (α × β), (∀ e ∈ l, e.1 ≠ k) → lookup k (l ++ [(k, v)]) = some v
  | [], _ => by simp [lookup]
  | (a, b) :: t, h => by
    have ha : a ≠ k := h (a, b) (by simp)
    simp only [List.cons_append, lookup, ha, if_false]
    exact lookup_append_new k v t (fun e he => h e (List.mem_cons_of_mem _ he))

theorem lookup_append_old {α β} [DecidableEq α] (k k' : α) (v : β) (hk : k' ≠ k) :
    ∀ l : List (α × β), lookup k (l ++ [(k', v)]) = lookup k l
  | [] => by simp [lookup, hk]
  | (a, b) :: t => by
    simp only [List.cons_append, lookup]
    split
    · rfl
    · exact lookup_append_old k k' v hk t

theorem filter_length_lt_of_mem {α} (p : α → Bool) {l : List α} {x : α} (hx : x ∈ l) (hp : p x = false) :
    (l.filter p).length + 1 ≤ l.length := by
  induction l with
  | nil => simp at hx
  | cons a t ih =>
    rcases List.mem_cons.1 hx with rfl | hm
    · simp only [List.filter, hp, List.length_cons]
      have := List.length_filter_le p t
      omega
    · have := ih hm
      by_cases hpa : p a <;> simp [List.filter, hpa] <;> omega

/-! ## the reference map as the model's two tables -/

def liveBP (l : List (Key × Live)) : List (Key × Nat) := l.map fun e => (e.1, e.2.id)
def liveRegs (l : List (Key × Live)) : List (Nat × Reg) := l.map liveEntry

theorem liveBP_filter (p : Key × Nat → Bool) (l : List (Key × Live)) :
    (liveBP l).filter p = liveBP (l.filter fun e => p (e.1, e.2.id)) := by
  simp [liveBP, List.filter_map, Function.comp_def]

theorem liveRegs_filter (p : Nat × Reg → Bool) (l : List (Key × Live)) :
    (liveRegs l).filter p = liveRegs (l.filter fun e => p (liveEntry e)) := by
  simp [liveRegs, List.filter_map, Function.comp_def]

theorem lookup_liveBP (k : Key) (l : List (Key × Live)) :
    lookup k (liveBP l) = (lookup k l).map (·.id) := lookup_map _ k l

theorem countPeer_liveBP (l : List (Key × Live)) (p : Nat) : countPeer (liveBP l) p = countLive l p := by
  simp [countPeer, countLive, liveBP, List.filter_map, Function.comp_def]

theorem mem_liveBP {l : List (Key × Live)} {k : Key} {id : Nat} :
    (k, id) ∈ liveBP l ↔ ∃ e ∈ l, e.1 = k ∧ e.2.id = id := by
  simp only [liveBP, List.mem_map, Prod.mk.injEq]

/-- with distinct ids, the registration table returns the entry's own registration -/
theorem lookup_liveRegs {l : List (Key × Live)} (hn : (l.map (·.2.id)).Nodup) {e : Key × Live} (he : e ∈ l) :
    lookup e.2.id (liveRegs l) = some (liveEntry e).2 := by
  apply lookup_of_mem_nodup
  · simpa [liveRegs, liveEntry, Function.comp_def] using hn
  · exact List.mem_map.2 ⟨e, he, rfl⟩

theorem nodup_map_filter {α β} (f : α → β) (p : α → Bool) {l : List α} (h : (l.map f).Nodup) :
    ((l.filter p).map f).Nodup :=
  h.sublist ((List.filter_sublist).map f)

/-- entries of a list with distinct ids are determined by their id -/
theorem eq_of_id_eq {l : List (Key × Live)} (hn : (l.map (·.2.id)).Nodup) {e e' : Key × Live}
    (he : e ∈ l) (he' : e' ∈ l) (h : e.2.id = e'.2.id) : e = e' := by
  induction l with
  | nil => simp at he
  | cons a t ih =>
    simp only [List.map, List.nodup_cons] at hn
    rcases List.mem_cons.1 he with rfl | hm <;> rcases List.mem_cons.1 he' with rfl | hm'
    · rfl
    · exact absurd (List.mem_map.2 ⟨e', hm', h.symm⟩) hn.1
    · exact absurd (List.mem_map.2 ⟨e, hm, h⟩) hn.1
    · exact ih hn.2 hm hm'

theorem eq_of_key_eq {l : List (Key × Live)} (hn : (l.map (·.1)).Nodup) {e e' : Key × Live}
    (he : e ∈ l) (he' : e' ∈ l) (h : e.1 = e'.1) : e = e' := by
  induction l with
  | nil => simp at he
  | cons a t ih =>
    simp only [List.map, List.nodup_cons] at hn
    rcases List.mem_cons.1 he with rfl | hm <;> rcases List.mem_cons.1 he' with rfl | hm'
    · rfl
    · exact absurd (List.mem_map.2 ⟨e', hm', h.symm⟩) hn.1
    · exact absurd (List.mem_map.2 ⟨e, hm, h⟩) hn.1
    · exact ih hn.2 hm hm'

/-! ## the LRU list -/

theorem lruInsert_lookup (cap : Nat) (hcap : 1 ≤ cap) (cs : List (Cookie × List Nat)) (ck : Cookie) (set : List Nat) :
    lookup ck (lruInsert cap cs ck set) = some set := by
  simp only [lruInsert]
  have hnew : ∀ e ∈ cs.filter (fun e => !decide (e.1 = ck)), e.1 ≠ ck := by
    intro e he; simpa using (List.mem_filter.1 he).2
  split
  · next hlen =>
    cases hf : cs.filter (fun e => !decide (e.1 = ck)) with
    | nil => simp [hf] at hlen; omega
    | cons a t =>
      simp only [List.cons_append, List.tail_cons]
      apply lookup_append_new
      intro e he
      exact hnew e (by rw [hf]; exact List.mem_cons_of_mem _ he)
  · exact lookup_append_new ck set _ hnew

/-- purging ids from the stored sets keeps a cookie whose set stays non-empty -/
theorem lookup_filterMap_retain (p : Nat → Bool) (ck : Cookie) :
    ∀ (cs : List (Cookie × List Nat)) (st : List Nat), lookup ck cs = some st → (st.filter p) ≠ [] →
      lookup ck (cs.filterMap (purgeEntry p)) = some (st.filter p)
  | [], _, h, _ => by simp [lookup] at h
  | (a, b) :: t, st, h, hne => by
    unfold lookup at h
    split at h
    · next hk =>
      cases h; subst hk
      cases hf : List.filter p b with
      | nil => exact absurd hf hne
      | cons x xs => simp [List.filterMap_cons, purgeEntry, hf, lookup]
    · next hk =>
      have ih := lookup_filterMap_retain p ck t st h hne
      simp only [List.filterMap_cons]
      cases hf : purgeEntry p (a, b) with
      | none => exact ih
      | some e =>
        have : e.1 = a := by
          unfold purgeEntry at hf
          simp only at hf
          split at hf
          · cases hf
          · cases hf; rfl
        obtain ⟨e1, e2⟩ := e
        simp only at this
        subst this
        simp only [lookup, hk, if_false]
        exact ih

/-! ## the LRU list without eviction -/

theorem lookup_filter_ne {α β} [DecidableEq α] {k k' : α} (hk : k ≠ k') :
    ∀ l : List (α × β), lookup k (l.filter fun e => !decide (e.1 = k')) = lookup k l
  | [] => rfl
  | (a, b) :: t => by
    by_cases ha : a = k'
    · have hak : a ≠ k := fun h => hk (h ▸ ha)
      simp only [List.filter, ha, decide_true, Bool.not_true, lookup]
      rw [if_neg (by rw [← ha]; exact hak)]
      exact lookup_filter_ne hk t
    · simp only [List.filter, ha, decide_false, Bool.not_false, lookup]
      rw [lookup_filter_ne hk t]

/-- `LruCache::get` only reorders: every key still maps to the same set -/
theorem lruGet_snd_lookup (cs : List (Cookie × List Nat)) (ck k : Cookie) :
    lookup k (lruGet cs ck).2 = lookup k cs := by
  unfold lruGet
  cases hl : lookup ck cs with
  | none => rfl
  | some set =>
    simp only
    by_cases hk : k = ck
    · subst hk
      rw [hl]
      apply lookup_append_new
      intro e he; simpa using (List.mem_filter.1 he).2
    · rw [lookup_append_old _ _ _ (fun h => hk h.symm), lookup_filter_ne hk]

theorem lruGet_snd_length (cs : List (Cookie × List Nat)) (ck : Cookie) :
    (lruGet cs ck).2.length ≤ cs.length := by
  unfold lruGet
  cases hl : lookup ck cs with
  | none => exact Nat.le_refl _
  | some set =>
    simp only [List.length_append, List.length_cons, List.length_nil]
    exact filter_length_lt_of_mem _ (lookup_some_mem hl) (by simp)

theorem lruInsert_length (cap : Nat) (cs : List (Cookie × List Nat)) (ck : Cookie) (set : List Nat) :
    (lruInsert cap cs ck set).length ≤ cs.length + 1 := by
  simp only [lruInsert]
  have := List.length_filter_le (fun e : Cookie × List Nat => !decide (e.1 = ck)) cs
  split
  · simp only [List.length_tail, List.length_append, List.length_cons, List.length_nil]; omega
  · simp only [List.length_append, List.length_cons, List.length_nil]; omega

/-- while the cache is not full nothing is evicted: every other key keeps its set -/
theorem lruInsert_noevict (cap : Nat) (cs : List (Cookie × List Nat)) (ck k : Cookie) (set : List Nat)
    (hroom : cs.length + 1 ≤ cap) (hk : k ≠ ck) :
    lookup k (lruInsert cap cs ck set) = lookup k cs := by
  simp only [lruInsert]
  have := List.length_filter_le (fun e : Cookie × List Nat => !decide (e.1 = ck)) cs
  rw [if_neg (by simp only [List.length_append, List.length_cons, List.length_nil]; omega)]
  rw [lookup_append_old _ _ _ (fun h => hk h.symm), lookup_filter_ne hk]

theorem lookup_append_single {α β} [DecidableEq α] {k k' : α} {v seen : β} :
    ∀ {l : List (α × β)}, lookup k (l ++ [(k', v)]) = some seen →
      lookup k l = some seen ∨ (lookup k l = none ∧ k' = k ∧ v = seen)
  | [], h => by
    simp only [List.nil_append, lookup] at h
    split at h
    · next hk => right; exact ⟨rfl, hk, Option.some.inj h⟩
    · cases h
  | (a, b) :: t, h => by
    simp only [List.cons_append, lookup] at h ⊢
    split
    · next ha => rw [if_pos ha] at h; exact Or.inl h
    · next ha => rw [if_neg ha] at h; exact lookup_append_single h

end C51
