import Libp2pModel.Model.C33
/-!
# C33 — `TimeCache`: the purge in closed form, well-formedness, and the window monitor
-/
namespace C33

/-- what a purge at `now` leaves of a map entry -/
def live (now : Nat) (x : Option (Nat × Nat)) : Option (Nat × Nat) :=
  match x with
  | some (v, e) => if e ≤ now then none else some (v, e)
  | none => none

theorem live_eq_some (now : Nat) (x : Option (Nat × Nat)) (v e : Nat) :
    live now x = some (v, e) ↔ x = some (v, e) ∧ now < e := by
  unfold live
  cases x with
  | none => simp
  | some p =>
    obtain ⟨v', e'⟩ := p
    by_cases h : e' ≤ now
    · simp only [h, ↓reduceIte, Option.some.injEq, Prod.mk.injEq]
      constructor
      · intro hh; cases hh
      · rintro ⟨⟨_, rfl⟩, hlt⟩; omega
    · simp only [h, ↓reduceIte, Option.some.injEq, Prod.mk.injEq]
      constructor
      · rintro ⟨rfl, rfl⟩; exact ⟨⟨rfl, rfl⟩, by omega⟩
      · rintro ⟨⟨rfl, rfl⟩, _⟩; exact ⟨rfl, rfl⟩

theorem live_eq_none (now : Nat) (x : Option (Nat × Nat)) :
    live now x = none ↔ ∀ v e, x = some (v, e) → e ≤ now := by
  unfold live
  cases x with
  | none => simp
  | some p =>
    obtain ⟨v', e'⟩ := p
    by_cases h : e' ≤ now
    · simp [h]
    · simp [h]

/-- list and map describe the same entries; keys are distinct; expiries are ordered -/
structure Consistent (l : List (Nat × Nat)) (m : Nat → Option (Nat × Nat)) : Prop where
  nodup : (l.map Prod.fst).Nodup
  sorted : l.Pairwise (fun a b => a.2 ≤ b.2)
  cons : ∀ k e, (∃ v, m k = some (v, e)) ↔ (k, e) ∈ l

theorem setOpt_same {α : Type} (f : Nat → Option α) (k : Nat) (v : Option α) : setOpt f k v k = v := by
  simp [setOpt]

theorem setOpt_other {α : Type} (f : Nat → Option α) (k k' : Nat) (v : Option α) (h : k' ≠ k) :
    setOpt f k v k' = f k' := by
  simp [setOpt, h]

/-- **`remove_expired_keys` in closed form** (on a consistent cache): the list keeps exactly the
elements that expire after `now`, the map keeps exactly the entries that expire after `now`. -/
theorem removeExpired_closed (now : Nat) (l : List (Nat × Nat)) (m : Nat → Option (Nat × Nat))
    (h : Consistent l m) :
    (removeExpired now l m).1 = l.filter (fun p => decide (now < p.2)) ∧
    ∀ k, (removeExpired now l m).2 k = live now (m k) := by
  induction l generalizing m with
  | nil =>
    refine ⟨by simp [removeExpired], ?_⟩
    intro k
    simp only [removeExpired]
    have hnone : m k = none := by
      cases hk : m k with
      | none => rfl
      | some x =>
        obtain ⟨v, e⟩ := x
        have := (h.cons k e).1 ⟨v, hk⟩
        simp at this
    rw [hnone]; rfl
  | cons p rest ih =>
    obtain ⟨k0, e0⟩ := p
    unfold removeExpired
    by_cases hgt : e0 > now
    · simp only [hgt, ↓reduceIte]
      have hall : ∀ q ∈ (k0, e0) :: rest, now < q.2 := by
        intro q hq
        rcases List.mem_cons.1 hq with rfl | hq
        · exact hgt
        · have := (List.pairwise_cons.1 h.sorted).1 q hq
          simp only at this
          omega
      constructor
      · symm
        rw [List.filter_eq_self]
        intro q hq
        simpa using hall q hq
      · intro k
        symm
        cases hk : m k with
        | none => rfl
        | some x =>
          obtain ⟨v, e⟩ := x
          rw [live_eq_some]
          refine ⟨rfl, ?_⟩
          exact hall (k, e) ((h.cons k e).1 ⟨v, hk⟩)
    · simp only [hgt, ↓reduceIte]
      have hle : e0 ≤ now := Nat.le_of_not_lt hgt
      obtain ⟨v0, hv0⟩ := (h.cons k0 e0).2 (by simp)
      simp only [hv0, hle, ↓reduceIte]
      have hnd := h.nodup
      simp only [List.map_cons, List.nodup_cons] at hnd
      have hc : Consistent rest (setOpt m k0 none) := by
        refine ⟨hnd.2, (List.pairwise_cons.1 h.sorted).2, ?_⟩
        intro k e
        by_cases hk : k = k0
        · subst hk
          rw [setOpt_same]
          constructor
          · rintro ⟨v, hv⟩; cases hv
          · intro hmem
            exact absurd (List.mem_map.2 ⟨(k, e), hmem, rfl⟩) hnd.1
        · rw [setOpt_other _ _ _ _ hk, h.cons k e]
          simp [hk]
      obtain ⟨i1, i2⟩ := ih (setOpt m k0 none) hc
      constructor
      · rw [i1, List.filter_cons]
        simp [hgt]
      · intro k
        rw [i2]
        by_cases hk : k = k0
        · subst hk
          rw [setOpt_same, hv0]
          simp [live, hle]
        · rw [setOpt_other _ _ _ _ hk]

/-- well-formedness of a cache whose last op took place at time `T` -/
structure TWF (c : TC) (T : Nat) : Prop where
  consistent : Consistent c.list c.map
  bound : ∀ p ∈ c.list, p.2 ≤ T + c.ttl

theorem twf_new (limit ttl : Nat) : TWF (tcNew limit ttl) 0 := by
  refine ⟨⟨by simp [tcNew], by simp [tcNew], ?_⟩, by simp [tcNew]⟩
  intro k e
  simp [tcNew]

theorem purge_map (c : TC) (T now : Nat) (h : TWF c T) (k : Nat) :
    (purge c now).map k = live now (c.map k) := by
  unfold purge
  exact (removeExpired_closed now c.list c.map h.consistent).2 k

theorem purge_fields (c : TC) (now : Nat) : (purge c now).ttl = c.ttl ∧ (purge c now).limit = c.limit := by
  simp [purge]

theorem twf_purge (c : TC) (T now : Nat) (h : TWF c T) (hT : T ≤ now) : TWF (purge c now) now := by
  obtain ⟨h1, h2⟩ := removeExpired_closed now c.list c.map h.consistent
  have hl : (purge c now).list = c.list.filter (fun p => decide (now < p.2)) := by
    unfold purge; exact h1
  have hm : ∀ k, (purge c now).map k = live now (c.map k) := by
    unfold purge; exact h2
  constructor
  · constructor
    · rw [hl]
      exact List.Nodup.sublist (List.Sublist.map _ List.filter_sublist) h.consistent.nodup
    · rw [hl]
      exact List.Pairwise.sublist List.filter_sublist h.consistent.sorted
    · intro k e
      rw [hl, List.mem_filter]
      constructor
      · rintro ⟨v, hv⟩
        rw [hm, live_eq_some] at hv
        exact ⟨(h.consistent.cons k e).1 ⟨v, hv.1⟩, by simpa using hv.2⟩
      · rintro ⟨hmem, hlt⟩
        obtain ⟨v, hv⟩ := (h.consistent.cons k e).2 hmem
        exact ⟨v, by rw [hm, live_eq_some]; exact ⟨hv, by simpa using hlt⟩⟩
  · intro p hp
    rw [hl, List.mem_filter] at hp
    have := h.bound p hp.1
    simp only [purge]
    omega

/-- pushing a fresh entry for a vacant key -/
theorem twf_push (c : TC) (now key v : Nat) (h : TWF c now) (hvac : c.map key = none)
    (hrep : now + c.ttl ≤ c.limit) :
    TWF { c with list := c.list ++ [(key, expiration c now)],
                 map := setOpt c.map key (some (v, expiration c now)) } now := by
  have hexp : expiration c now = now + c.ttl := by simp [expiration, hrep]
  have hnot : ∀ e, (key, e) ∉ c.list := by
    intro e hmem
    obtain ⟨v', hv'⟩ := (h.consistent.cons key e).2 hmem
    rw [hvac] at hv'; cases hv'
  constructor
  · constructor
    · simp only [List.map_append, List.map_cons, List.map_nil]
      rw [List.nodup_append]
      refine ⟨h.consistent.nodup, by simp, ?_⟩
      intro a ha b hb
      simp only [List.mem_cons, List.not_mem_nil, or_false] at hb
      subst hb
      obtain ⟨⟨k', e'⟩, hmem, rfl⟩ := List.mem_map.1 ha
      intro heq
      simp only at heq
      subst heq
      exact hnot e' hmem
    · simp only
      rw [List.pairwise_append]
      refine ⟨h.consistent.sorted, by simp, ?_⟩
      intro a ha b hb
      simp only [List.mem_cons, List.not_mem_nil, or_false] at hb
      subst hb
      have := h.bound a ha
      simp only [hexp]
      exact this
    · intro k e
      simp only [List.mem_append, List.mem_cons, List.not_mem_nil, or_false, Prod.mk.injEq]
      by_cases hk : k = key
      · subst hk
        rw [setOpt_same]
        constructor
        · rintro ⟨v', hv'⟩
          simp only [Option.some.injEq, Prod.mk.injEq] at hv'
          exact Or.inr ⟨rfl, hv'.2.symm⟩
        · rintro (hmem | ⟨_, rfl⟩)
          · exact absurd hmem (hnot e)
          · exact ⟨v, rfl⟩
      · rw [setOpt_other _ _ _ _ hk, h.consistent.cons k e]
        simp [hk]
  · intro p hp
    simp only [List.mem_append, List.mem_cons, List.not_mem_nil, or_false] at hp
    rcases hp with hp | rfl
    · exact h.bound p hp
    · simp [hexp]

/-- replacing the value of a present key (expiry untouched) -/
theorem twf_setval (c : TC) (T key v v' e : Nat) (h : TWF c T) (hk : c.map key = some (v, e)) :
    TWF { c with map := setOpt c.map key (some (v', e)) } T := by
  refine ⟨⟨h.consistent.nodup, h.consistent.sorted, ?_⟩, h.bound⟩
  intro k e'
  by_cases hkk : k = key
  · subst hkk
    simp only [setOpt_same, Option.some.injEq, Prod.mk.injEq]
    rw [← h.consistent.cons k e']
    constructor
    · rintro ⟨_, _, rfl⟩; exact ⟨v, hk⟩
    · rintro ⟨v'', hv''⟩
      rw [hk] at hv''
      simp only [Option.some.injEq, Prod.mk.injEq] at hv''
      exact ⟨v', rfl, hv''.2⟩
  · simp only [setOpt_other _ _ _ _ hkk]
    exact h.consistent.cons k e'

/-! ### the ops in closed form on a well-formed cache -/

/-- `DuplicateCache::insert` at `now ≥ T` with `now + ttl` representable: it returns `true`
exactly when the key has no entry expiring after `now`; afterwards every other key keeps exactly
its unexpired entry, and the inserted key expires at `now + ttl` if it was (re)inserted, at its OLD
expiry otherwise (no refresh). -/
theorem dupInsert_closed (c : TC) (T now key : Nat) (h : TWF c T) (hT : T ≤ now)
    (hrep : now + c.ttl ≤ c.limit) :
    TWF (dupInsert c now key).1 now ∧
    (dupInsert c now key).1.ttl = c.ttl ∧ (dupInsert c now key).1.limit = c.limit ∧
    ((dupInsert c now key).2 = true ↔ live now (c.map key) = none) ∧
    (∀ k, k ≠ key → (dupInsert c now key).1.map k = live now (c.map k)) ∧
    ((dupInsert c now key).1.map key =
      if live now (c.map key) = none then some (0, now + c.ttl) else live now (c.map key)) := by
  have hp := twf_purge c T now h hT
  have hm := purge_map c T now h
  have hexp : expiration c now = now + c.ttl := by simp [expiration, hrep]
  have hexp' : expiration (purge c now) now = now + c.ttl := by simp [expiration, purge, hrep]
  unfold dupInsert
  simp only
  cases hk : (purge c now).map key with
  | some x =>
    have hk' : live now (c.map key) = some x := by rw [← hm]; exact hk
    simp only [hk']
    refine ⟨hp, (purge_fields c now).1, (purge_fields c now).2, by simp, fun k _ => hm k, ?_⟩
    simp [hk]
  | none =>
    have hk' : live now (c.map key) = none := by rw [← hm]; exact hk
    simp only [hk']
    refine ⟨?_, (purge_fields c now).1, (purge_fields c now).2, by simp, ?_, ?_⟩
    · have := twf_push (purge c now) now key 0 hp hk (by simpa [purge] using hrep)
      rw [hexp'] at this
      rw [hexp]
      exact this
    · intro k hne
      try simp only
      rw [setOpt_other _ _ _ _ hne, hm]
    · simp only [setOpt_same, hexp, ↓reduceIte]

/-- `*entry(key).or_default() += delta` in closed form -/
theorem addEntry_closed (c : TC) (T now key delta : Nat) (h : TWF c T) (hT : T ≤ now)
    (hrep : now + c.ttl ≤ c.limit) :
    TWF (addEntry c now key delta).1 now ∧
    (addEntry c now key delta).1.ttl = c.ttl ∧ (addEntry c now key delta).1.limit = c.limit ∧
    ((addEntry c now key delta).2 =
      match live now (c.map key) with | some (v, _) => v + delta | none => delta) ∧
    (∀ k, k ≠ key → (addEntry c now key delta).1.map k = live now (c.map k)) ∧
    ((addEntry c now key delta).1.map key =
      match live now (c.map key) with
      | some (v, e) => some (v + delta, e)
      | none => some (delta, now + c.ttl)) := by
  have hp := twf_purge c T now h hT
  have hm := purge_map c T now h
  have hexp : expiration c now = now + c.ttl := by simp [expiration, hrep]
  have hexp' : expiration (purge c now) now = now + c.ttl := by simp [expiration, purge, hrep]
  unfold addEntry
  simp only
  cases hk : (purge c now).map key with
  | some x =>
    obtain ⟨v, e⟩ := x
    have hk' : live now (c.map key) = some (v, e) := by rw [← hm]; exact hk
    simp only [hk']
    refine ⟨twf_setval (purge c now) now key v (v + delta) e hp hk, (purge_fields c now).1,
      (purge_fields c now).2, trivial, ?_, ?_⟩
    · intro k hne
      try simp only
      rw [setOpt_other _ _ _ _ hne, hm]
    · simp only [setOpt_same]
  | none =>
    have hk' : live now (c.map key) = none := by rw [← hm]; exact hk
    simp only [hk']
    refine ⟨?_, (purge_fields c now).1, (purge_fields c now).2, trivial, ?_, ?_⟩
    · have := twf_push (purge c now) now key delta hp hk (by simpa [purge] using hrep)
      rw [hexp'] at this
      rw [hexp]
      exact this
    · intro k hne
      try simp only
      rw [setOpt_other _ _ _ _ hne, hm]
    · simp only [setOpt_same, hexp]

end C33
