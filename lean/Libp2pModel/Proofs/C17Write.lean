import Libp2pModel.Proofs.C17Frame
/-! C17 helper lemmas: the writer invariant (write accounting). -/
namespace C17

theorem wireOf_snoc (A : Aead) (ps : List Bytes) (p : Bytes) (n : Nat) :
    wireOf A n (ps ++ [p]) = wireOf A n ps ++ encodeLengthPrefixed (A.enc (n + ps.length) p) := by
  induction ps generalizing n with
  | nil => simp [wireOf]
  | cons q qs ih =>
    simp only [List.cons_append, wireOf, ih, List.length_cons, List.append_assoc]
    have : n + 1 + qs.length = n + (qs.length + 1) := by omega
    rw [this]

theorem resize_length (v : Bytes) (n : Nat) : (resize v n).length = n := by
  simp only [resize, List.length_append, List.length_take, List.length_replicate]
  omega

theorem resize_take (v : Bytes) (n k : Nat) (hk : k ≤ n) (hv : k ≤ v.length) :
    (resize v n).take k = v.take k := by
  unfold resize
  rw [List.take_append_of_le_length (by simp only [List.length_take]; omega)]
  rw [List.take_take]
  congr 1
  omega

/-- The writer invariant. -/
structure WInv (A : Aead) (w : Writer) : Prop where
  off_le : w.sendOff ≤ MAX_FRAME_LEN
  buf_len : w.sendOff = 0 ∨ w.sendBuf.length = w.sendOff
  frames_ok : ∀ f ∈ w.frames, 0 < f.length ∧ f.length ≤ MAX_FRAME_LEN
  acct : w.frames.flatten ++ w.sendBuf.take w.sendOff = w.accepted
  nonce_eq : w.nonce = w.frames.length
  wire_eq : w.wire = wireOf A 0 w.frames

theorem winv_init (A : Aead) : WInv A {} := by
  constructor <;> simp [wireOf]

/-- the second half of `poll_write` (after the optional `start_send`) -/
def bufferPart (w : Writer) (buf : Bytes) : Writer × WRes :=
  let off := w.sendOff
  let n := min MAX_FRAME_LEN (off + buf.length)
  let sb := resize w.sendBuf n
  if off > MAX_FRAME_LEN then (w, .panic) else
  let n := min (MAX_FRAME_LEN - off) buf.length
  if off + n > sb.length then (w, .panic) else
  let sb := sb.take off ++ buf.take n ++ sb.drop (off + n)
  ({ w with sendBuf := sb, sendOff := off + n, accepted := w.accepted ++ buf.take n }, .ok n)

theorem pollWrite_eq (A : Aead) (w : Writer) (buf : Bytes) :
    pollWrite A w buf =
      match (if w.sendOff = MAX_FRAME_LEN then
               (startSend A w).map (fun w' => { w' with sendOff := 0 }) else some w) with
      | none => (w, .err)
      | some w1 => bufferPart w1 buf := rfl

/-- `start_send` from a state with a non-empty pending buffer keeps the invariant (after the
caller resets `send_offset`) and records exactly the pending bytes as a frame. -/
theorem startSend_inv (A : Aead) (w w' : Writer) (h : WInv A w) (hpos : 0 < w.sendOff)
    (hs : startSend A w = some w') :
    WInv A { w' with sendOff := 0 } ∧ w'.frames = w.frames ++ [w.sendBuf] ∧
      w'.accepted = w.accepted ∧ w'.sendBuf = w.sendBuf := by
  unfold startSend at hs
  cases hsw : snowWrite A w.nonce w.sendBuf (w.sendBuf.length + EXTRA_ENCRYPT_SPACE) with
  | none => simp [hsw] at hs
  | some ct =>
    simp only [hsw, Option.some.injEq] at hs
    subst hs
    have hlen : w.sendBuf.length = w.sendOff := by
      rcases h.buf_len with h0 | h1
      · omega
      · exact h1
    have hct : ct = A.enc w.nonce w.sendBuf := by
      unfold snowWrite at hsw
      split at hsw
      · simp at hsw
      · split at hsw
        · simp at hsw
        · simpa using hsw.symm
    refine ⟨⟨?_, ?_, ?_, ?_, ?_, ?_⟩, rfl, rfl, rfl⟩
    · simp
    · simp
    · intro f hf
      simp only [List.mem_append, List.mem_singleton] at hf
      rcases hf with hf | rfl
      · exact h.frames_ok f hf
      · have := h.off_le
        omega
    · have := h.acct
      simp only [List.flatten_append, List.flatten_cons, List.flatten_nil, List.append_nil,
        List.take_zero]
      rw [← this, ← hlen, List.take_length]
    · simp [h.nonce_eq]
    · simp only
      rw [wireOf_snoc, h.wire_eq, hct, h.nonce_eq]
      simp

theorem bufferPart_inv (A : Aead) (w : Writer) (buf : Bytes) (h : WInv A w) :
    WInv A (bufferPart w buf).1 ∧
    (bufferPart w buf).2 = .ok (min (MAX_FRAME_LEN - w.sendOff) buf.length) ∧
    (bufferPart w buf).1.accepted =
      w.accepted ++ buf.take (min (MAX_FRAME_LEN - w.sendOff) buf.length) ∧
    (bufferPart w buf).1.frames = w.frames ∧ (bufferPart w buf).1.wire = w.wire ∧
    (bufferPart w buf).1.flushed = w.flushed := by
  have hoff := h.off_le
  have hrl := resize_length w.sendBuf (min MAX_FRAME_LEN (w.sendOff + buf.length))
  have hsum : w.sendOff + min (MAX_FRAME_LEN - w.sendOff) buf.length
      = min MAX_FRAME_LEN (w.sendOff + buf.length) := by omega
  unfold bufferPart
  simp only [show ¬ w.sendOff > MAX_FRAME_LEN by omega, ↓reduceIte, hrl, hsum,
    show ¬ min MAX_FRAME_LEN (w.sendOff + buf.length) > min MAX_FRAME_LEN (w.sendOff + buf.length)
      by omega]
  have hdrop : (resize w.sendBuf (min MAX_FRAME_LEN (w.sendOff + buf.length))).drop
      (min MAX_FRAME_LEN (w.sendOff + buf.length)) = [] := by
    apply List.drop_eq_nil_of_le; omega
  have htake : (resize w.sendBuf (min MAX_FRAME_LEN (w.sendOff + buf.length))).take w.sendOff
      = w.sendBuf.take w.sendOff := by
    rcases h.buf_len with h0 | h1
    · simp [h0]
    · exact resize_take _ _ _ (by omega) (by omega)
  have htl : (w.sendBuf.take w.sendOff).length = w.sendOff := by
    rcases h.buf_len with h0 | h1
    · simp [h0]
    · simp [h1]
  rw [hdrop, htake]
  refine ⟨⟨?_, ?_, ?_, ?_, ?_, ?_⟩, trivial, trivial, trivial, trivial, trivial⟩
  · simp only; omega
  · right
    simp only [List.append_nil, List.length_append, htl, List.length_take]
    omega
  · exact h.frames_ok
  · simp only [List.append_nil]
    rw [← h.acct, List.append_assoc]
    congr 1
    rw [← hsum]
    apply List.take_of_length_le
    simp only [List.length_append, htl, List.length_take]
    omega
  · exact h.nonce_eq
  · exact h.wire_eq

end C17
