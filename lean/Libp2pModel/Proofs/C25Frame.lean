import Libp2pModel.Proofs.C25Varint
namespace C25

theorem flag_lt (f : Frame) : flag f < 8 := by
  cases f with
  | opn i => simp [flag]
  | data i d => obtain ⟨n, r⟩ := i; cases r <;> simp [flag]
  | close i => obtain ⟨n, r⟩ := i; cases r <;> simp [flag]
  | reset i => obtain ⟨n, r⟩ := i; cases r <;> simp [flag]

theorem header_eq (f : Frame) (hn : f.id.num < 2305843009213693952) :
    header f = f.id.num * 8 + flag f := by
  unfold header
  have h1 : f.id.num <<< 3 = f.id.num * 8 := by rw [Nat.shiftLeft_eq]
  have h2 : f.id.num * 8 < U64 := by unfold U64; omega
  rw [h1, Nat.mod_eq_of_lt h2, ← h1]
  exact (Nat.shiftLeft_add_eq_or_of_lt (by simpa using flag_lt f) _).symm

theorem header_lt (f : Frame) (hn : f.id.num < 2305843009213693952) : header f < U64 := by
  rw [header_eq f hn]; have := flag_lt f; unfold U64; omega

theorem mkFrame_header (f : Frame) (hw : f.wire = true) : mkFrame (header f) f.payload = some f := by
  simp only [Frame.wire, Bool.and_eq_true, decide_eq_true_eq] at hw
  obtain ⟨hn, ho⟩ := hw
  rw [header_eq f hn]
  cases f with
  | opn i =>
    obtain ⟨n, r⟩ := i
    simp at ho; subst ho
    simp only [mkFrame, flag, Frame.id]
    simp
  | data i d =>
    obtain ⟨n, r⟩ := i
    cases r
    · simp only [mkFrame, flag, Frame.id, Frame.payload]
      have h1 : (n * 8 + 2) % 8 = 2 := by omega
      have h2 : (n * 8 + 2) / 8 = n := by omega
      simp [h1, h2]
    · simp only [mkFrame, flag, Frame.id, Frame.payload]
      have h1 : (n * 8 + 1) % 8 = 1 := by omega
      have h2 : (n * 8 + 1) / 8 = n := by omega
      simp [h1, h2]
  | close i =>
    obtain ⟨n, r⟩ := i
    cases r
    · simp only [mkFrame, flag, Frame.id, Frame.payload]
      have h1 : (n * 8 + 4) % 8 = 4 := by omega
      have h2 : (n * 8 + 4) / 8 = n := by omega
      simp [h1, h2]
    · simp only [mkFrame, flag, Frame.id, Frame.payload]
      have h1 : (n * 8 + 3) % 8 = 3 := by omega
      have h2 : (n * 8 + 3) / 8 = n := by omega
      simp [h1, h2]
  | reset i =>
    obtain ⟨n, r⟩ := i
    cases r
    · simp only [mkFrame, flag, Frame.id, Frame.payload]
      have h1 : (n * 8 + 6) % 8 = 6 := by omega
      have h2 : (n * 8 + 6) / 8 = n := by omega
      simp [h1, h2]
    · simp only [mkFrame, flag, Frame.id, Frame.payload]
      have h1 : (n * 8 + 5) % 8 = 5 := by omega
      have h2 : (n * 8 + 5) / 8 = n := by omega
      simp [h1, h2]

/-- one `decode` call on an encoded wire frame (followed by anything) returns that frame and
leaves exactly what followed -/
theorem fromBegin_encode (f : Frame) (hw : f.wire = true) (bs : List Nat) (he : encode f = some bs)
    (rest : List Nat) : fromBegin (bs ++ rest) = (.begin, rest, .some f) := by
  unfold encode at he
  split at he
  · simp at he
  · rename_i hlen
    simp only [Option.some.injEq] at he
    subst he
    have hn : f.id.num < 2305843009213693952 := by
      simp only [Frame.wire, Bool.and_eq_true, decide_eq_true_eq] at hw; exact hw.1
    unfold fromBegin
    rw [List.append_assoc, List.append_assoc, uvi64_encode _ (header_lt f hn)]
    simp only
    unfold fromH
    rw [uvi64_encode _ (by unfold U64; unfold MAX_FRAME_SIZE at hlen; omega)]
    simp only [hlen, ↓reduceIte]
    unfold fromHL
    have h1 : ¬ (f.payload ++ rest).length < f.payload.length := by simp
    simp only [h1, ↓reduceIte, List.take_left', List.drop_left', mkFrame_header f hw]

theorem encode_isSome_iff (f : Frame) : (encode f).isSome ↔ f.payload.length ≤ MAX_FRAME_SIZE := by
  unfold encode; split <;> simp <;> omega

theorem drain_encodeAll : ∀ (fs : List Frame), (∀ f ∈ fs, f.wire = true) →
    ∀ (bs : List Nat), encodeAll fs = some bs → ∀ rest : List Nat,
    drain .begin (bs ++ rest) = (fs ++ (drain .begin rest).1, (drain .begin rest).2) := by
  intro fs
  induction fs with
  | nil => intro _ bs he rest; simp [encodeAll] at he; subst he; simp
  | cons f fs ih =>
    intro hw bs he rest
    simp only [encodeAll] at he
    cases h1 : encode f with
    | none => simp [h1] at he
    | some a =>
      cases h2 : encodeAll fs with
      | none => simp [h1, h2] at he
      | some b =>
        simp only [h1, h2, Option.some.injEq] at he
        subst he
        rw [List.append_assoc, drain_unfold]
        have := fromBegin_encode f (hw f (by simp)) a h1 (b ++ rest)
        simp only [decode, this]
        rw [ih (fun g hg => hw g (by simp [hg])) b h2 rest]
        simp

end C25
