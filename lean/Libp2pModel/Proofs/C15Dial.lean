import Libp2pModel.Proofs.C15Auto
/-!
# C15 helper: the dialer automaton on hostile byte streams — the Spec accepts the model
-/
namespace C15
open Mss

/-- generic: an invariant of the automaton and "everything sent fits a frame" survive a run over bytes -/
theorem runBytes_inv {σ : Type} (step : σ → RdEv → σ × List Msg) (isDone : σ → Bool) (Good : σ → Prop)
    (hstep : ∀ s ev, Good s → (∀ w, ev ≠ .panic w) →
      Good (step s ev).1 ∧ ∀ x ∈ (step s ev).2, sendable x = true) :
    ∀ (fuel : Nat) (s : σ) (buf : Bytes), Good s →
      Good (runBytes step isDone fuel s buf).1 ∧
        ∀ x ∈ (runBytes step isDone fuel s buf).2.1, sendable x = true := by
  intro fuel
  induction fuel with
  | zero => intro s buf h; simpa [runBytes] using h
  | succ f ih =>
    intro s buf h
    rw [runBytes]
    split
    · simpa using h
    · split
      · simpa using h
      · rename_i fr rest _
        obtain ⟨g1, g2⟩ := hstep s (frameEvent fr) h (frameEvent_no_panic' fr)
        obtain ⟨i1, i2⟩ := ih (step s (frameEvent fr)).1 rest g1
        refine ⟨i1, ?_⟩
        intro x hx
        simp only [List.mem_append] at hx
        rcases hx with hx | hx
        · exact g2 x hx
        · exact i2 x hx

theorem runToEof_inv {σ : Type} (step : σ → RdEv → σ × List Msg) (isDone : σ → Bool) (Good : σ → Prop)
    (hstep : ∀ s ev, Good s → (∀ w, ev ≠ .panic w) →
      Good (step s ev).1 ∧ ∀ x ∈ (step s ev).2, sendable x = true)
    (s : σ) (input : Bytes) (h : Good s) :
    Good (runToEof step isDone s input).1 ∧
      ∀ x ∈ (runToEof step isDone s input).2.1, sendable x = true := by
  obtain ⟨g1, g2⟩ := runBytes_inv step isDone Good hstep (input.length + 1) s input h
  unfold runToEof
  simp only
  split
  · exact ⟨g1, g2⟩
  · obtain ⟨h1, h2⟩ := hstep _ (eofEvent (runBytes step isDone (input.length + 1) s input).2.2)
      g1 (eofEvent_no_panic _)
    refine ⟨h1, ?_⟩
    intro x hx
    simp only [List.mem_append] at hx
    rcases hx with hx | hx
    · exact g2 x hx
    · exact h2 x hx

/-- what the dialer can be in: every protocol it holds is one of the caller's names; the one it
proposed or settled on passed `Protocol::try_from`; never a panic -/
def DGood (names : List Bytes) : DSt → Prop
  | .await cur rest => cur ∈ names ∧ nameOk cur = true ∧ ∀ x ∈ rest, x ∈ names
  | .expecting cur _ => cur ∈ names ∧ nameOk cur = true
  | .done (.ok p) => p ∈ names ∧ nameOk p = true
  | .done (.panic _) => False
  | .done _ => True

theorem sendable_header' : sendable .header = true := by decide

theorem dPropose_good (names : List Bytes) (lazy : Bool) (d : Bytes) (rest : List Bytes)
    (pending : List Msg) (hd : d ∈ names) (hr : ∀ x ∈ rest, x ∈ names)
    (hp : ∀ x ∈ pending, sendable x = true) :
    DGood names (dPropose lazy d rest pending).1 ∧
      ∀ x ∈ (dPropose lazy d rest pending).2, sendable x = true := by
  unfold dPropose
  split
  · simp [DGood]
  · rename_i hn
    split
    · simp [DGood]
    · rename_i hs
      simp at hn hs
      split
      · refine ⟨⟨hd, hn⟩, ?_⟩
        intro x hx
        simp at hx
        rcases hx with hx | rfl
        · exact hp x hx
        · exact hs
      · refine ⟨⟨hd, hn, hr⟩, ?_⟩
        intro x hx
        simp at hx
        rcases hx with hx | rfl
        · exact hp x hx
        · exact hs

theorem dStart_good (names : List Bytes) (lazy : Bool) :
    DGood names (dStart lazy names).1 ∧ ∀ x ∈ (dStart lazy names).2, sendable x = true := by
  unfold dStart
  cases names with
  | nil => simp [DGood]
  | cons d rest =>
    exact dPropose_good (d :: rest) lazy d rest [.header] (by simp)
      (fun x hx => by simp [hx]) (by simp [sendable_header'])

theorem dStep_good (names : List Bytes) (lazy : Bool) (s : DSt) (ev : RdEv) (hs : DGood names s)
    (hev : ∀ w, ev ≠ .panic w) :
    DGood names (dStep lazy s ev).1 ∧ ∀ x ∈ (dStep lazy s ev).2, sendable x = true := by
  cases s with
  | done r => simpa [dStep] using hs
  | await cur rest =>
    obtain ⟨h1, h2, h3⟩ := hs
    cases ev with
    | panic w => exact absurd rfl (hev w)
    | eof => simp [dStep, DGood]
    | err e => simp [dStep, DGood]
    | msg m =>
      cases m with
      | header => simp [dStep, DGood, h1, h2]; exact h3
      | proto p =>
        simp only [dStep]
        split
        · simp [DGood, h1, h2]
        · simp [DGood]
      | na =>
        simp only [dStep]
        cases rest with
        | nil => simp [DGood]
        | cons d rest' =>
          exact dPropose_good names lazy d rest' [] (h3 d (by simp))
            (fun x hx => h3 x (by simp [hx])) (by simp)
      | ls => simp [dStep, DGood]
      | protos ps => simp [dStep, DGood]
  | expecting cur hx =>
    obtain ⟨h1, h2⟩ := hs
    cases ev with
    | panic w => exact absurd rfl (hev w)
    | eof => simp [dStep, DGood]
    | err e => simp [dStep, DGood]
    | msg m =>
      cases m with
      | header => cases hx <;> simp [dStep, DGood, h1, h2]
      | proto p =>
        simp only [dStep]
        split
        · simp [DGood, h1, h2]
        · simp [DGood]
      | na => simp [dStep, DGood]
      | ls => simp [dStep, DGood]
      | protos ps => simp [dStep, DGood]

/-- an oversized first length prefix: a reading dialer fails with a `ProtocolError` after 2 bytes -/
theorem dial_oversize (lazy : Bool) (isDone : DSt → Bool) (s : DSt) (input : Bytes)
    (h : oversizeFirst input = true) (hnd : isDone s = false) (hs : ∀ r, s ≠ .done r)
    (hdone : ∀ r, isDone (.done r) = true) :
    ∃ e, (runToEof (dStep lazy) isDone s input).1 = .done (.perr e) := by
  match input, h with
  | b0 :: b1 :: rest, h =>
    simp [oversizeFirst] at h
    have a : ¬ b0 < 128 := by omega
    have b : ¬ b1 < 128 := by omega
    have hd : frameDec (b0 :: b1 :: rest) = some (.err .frameTooLong, rest) := by
      simp [frameDec, a, b]
    have hstep : (dStep lazy s (.err .frameTooLong)).1 = .done (.perr .frameTooLong) := by
      cases s with
      | done r => exact absurd rfl (hs r)
      | await c r => simp [dStep]
      | expecting c x => simp [dStep]
    refine ⟨.frameTooLong, ?_⟩
    unfold runToEof
    simp only [List.length_cons, runBytes, hnd, Bool.false_eq_true, ↓reduceIte, hd, frameEvent]
    cases hk : rest.length + 1 + 1 with
    | zero => omega
    | succ k =>
      have : dStep lazy s (.err .frameTooLong) = (.done (.perr .frameTooLong), (dStep lazy s (.err .frameTooLong)).2) := by
        rw [← hstep]
      rw [this]
      simp [runBytes, hdone]

end C15

namespace C15
open Mss

theorem runToEof_of_done {σ : Type} (step : σ → RdEv → σ × List Msg) (isDone : σ → Bool)
    (s : σ) (input : Bytes) (h : isDone s = true) :
    runToEof step isDone s input = (s, [], input) := by
  unfold runToEof
  simp [runBytes, h]

theorem dStep_eof_done (lazy : Bool) (s : DSt) (r : Bytes) :
    dDone (dStep lazy s (eofEvent r)).1 = true := by
  unfold eofEvent
  cases s with
  | done x => split <;> simp [dStep, dDone]
  | await c t => split <;> simp [dStep, dDone]
  | expecting c x => split <;> simp [dStep, dDone]

theorem runToEof_dDone (lazy : Bool) (s : DSt) (input : Bytes) :
    dDone (runToEof (dStep lazy) dDone s input).1 = true := by
  unfold runToEof
  simp only
  split
  · rename_i h; exact h
  · exact dStep_eof_done lazy _ _

theorem dStep_eof_future (lazy : Bool) (s : DSt) (r : Bytes) :
    dFutureDone (dStep lazy s (eofEvent r)).1 = true := by
  have := dStep_eof_done lazy s r
  cases h : (dStep lazy s (eofEvent r)).1 <;> simp_all [dDone, dFutureDone]

theorem runToEof_dFuture (lazy : Bool) (s : DSt) (input : Bytes) :
    dFutureDone (runToEof (dStep lazy) dFutureDone s input).1 = true := by
  unfold runToEof
  simp only
  split
  · rename_i h; exact h
  · exact dStep_eof_future lazy _ _

/-- `dStart` never succeeds by itself -/
theorem dStart_not_ok (lazy : Bool) (names : List Bytes) (p : Bytes) :
    (dStart lazy names).1 ≠ .done (.ok p) := by
  unfold dStart
  cases names with
  | nil => simp
  | cons d rest =>
    simp only [dPropose]
    split
    · simp
    · split
      · simp
      · split <;> simp

theorem sendable_append {a b : List Msg} (ha : ∀ x ∈ a, sendable x = true)
    (hb : ∀ x ∈ b, sendable x = true) : ∀ x ∈ a ++ b, sendable x = true := by
  intro x hx
  rw [List.mem_append] at hx
  rcases hx with h | h
  · exact ha x h
  · exact hb x h

theorem contains_of_mem (names : List Bytes) (p : Bytes) (h : p ∈ names) : names.contains p = true := by
  simpa using h

/-- **The Spec of `dial` accepts the model**, for both versions, every list of names, every input. -/
theorem spec_dial_model (lazy : Bool) (names : List Bytes) (input : Bytes) :
    specDialRes names input (dialRun lazy names input).1 (dialRun lazy names input).2.1
      (dialRun lazy names input).2.2 = "ok" := by
  obtain ⟨g0, w0⟩ := dStart_good names lazy
  have hnotok := dStart_not_ok lazy names
  unfold dialRun
  generalize hs0 : dStart lazy names = r0 at g0 w0 hnotok
  obtain ⟨s0, sent0⟩ := r0
  simp only at g0 w0 hnotok ⊢
  obtain ⟨g1, w1⟩ := runToEof_inv (dStep lazy) dFutureDone (DGood names) (dStep_good names lazy) s0 input g0
  have hf1 := runToEof_dFuture lazy s0 input
  -- how an oversized first frame shows up in phase 1
  have hov1 : oversizeFirst input = true → (∀ r, s0 ≠ .done r) → dFutureDone s0 = false →
      ∃ e, (runToEof (dStep lazy) dFutureDone s0 input).1 = .done (.perr e) :=
    fun ho hnd hfd => dial_oversize lazy dFutureDone s0 input ho hfd hnd (by intro r; rfl)
  have himm : dFutureDone s0 = true → runToEof (dStep lazy) dFutureDone s0 input = (s0, [], input) :=
    runToEof_of_done _ _ _ _
  generalize hr1 : runToEof (dStep lazy) dFutureDone s0 input = r1 at g1 w1 hf1 hov1 himm
  obtain ⟨s1, sent1, rest1⟩ := r1
  simp only at g1 w1 hf1 hov1 himm ⊢
  cases s1 with
  | await c t => simp [dFutureDone] at hf1
  | expecting c hx =>
    obtain ⟨g2, w2⟩ := runToEof_inv (dStep lazy) dDone (DGood names) (dStep_good names lazy)
      (.expecting c hx) rest1 g1
    have hd2 := runToEof_dDone lazy (.expecting c hx) rest1
    have hov2 : oversizeFirst rest1 = true →
        ∃ e, (runToEof (dStep lazy) dDone (.expecting c hx) rest1).1 = .done (.perr e) :=
      fun ho => dial_oversize lazy dDone _ rest1 ho rfl (by intro r; simp) (by intro r; rfl)
    -- with an oversized input the lazy exit was taken at once, so phase 2 sees the whole input
    have hrest : oversizeFirst input = true → rest1 = input := by
      intro ho
      cases s0 with
      | done r =>
        have := himm rfl
        simp at this
      | expecting c' x' =>
        have := himm rfl
        simp at this; exact this.2.2
      | await c' t' =>
        obtain ⟨e, he⟩ := hov1 ho (by intro r; simp) rfl
        simp at he
    generalize hr2 : runToEof (dStep lazy) dDone (.expecting c hx) rest1 = r2 at g2 w2 hd2 hov2
    obtain ⟨s2, sent2, rest2⟩ := r2
    simp only at g2 w2 hd2 hov2 ⊢
    have hwf : wireWellFormed (wireOfAll (sent0 ++ (sent1 ++ sent2))) = true := by
      simpa [List.append_assoc] using wire_wellformed _ (sendable_append (sendable_append w0 w1) w2)
    have hc : c ∈ names := g1.1
    cases s2 with
    | await c' t' => simp [dDone] at hd2
    | expecting c' x' => simp [dDone] at hd2
    | done r =>
      cases r with
      | ok p =>
        have hno : oversizeFirst input = false := by
          cases ho : oversizeFirst input with
          | false => rfl
          | true =>
            rw [hrest ho] at hov2
            obtain ⟨e, he⟩ := hov2 ho
            simp at he
        simp [specDialRes, nresPanic, hc, g1.2, hno, hwf]
      | failed =>
        have hno : oversizeFirst input = false := by
          cases ho : oversizeFirst input with
          | false => rfl
          | true =>
            rw [hrest ho] at hov2
            obtain ⟨e, he⟩ := hov2 ho
            simp at he
        simp [specDialRes, nresPanic, hc, g1.2, hno, hwf]
      | perr e => simp [specDialRes, nresPanic, nresErr, hc, g1.2, hwf]
      | panic w => exact absurd g2 (by simp [DGood])
  | done r =>
    have hwf := wire_wellformed _ (sendable_append w0 w1)
    -- oversized input: either nothing was read (failure at start) or the result is an error
    have hover : oversizeFirst input = true →
        (rest1 = input ∨ ∃ e, r = .perr e) := by
      intro ho
      cases s0 with
      | done r' =>
        have := himm rfl
        simp at this; exact Or.inl this.2.2
      | expecting c' x' =>
        have := himm rfl
        simp at this
      | await c' t' =>
        obtain ⟨e, he⟩ := hov1 ho (by intro r; simp) rfl
        simp at he
        exact Or.inr ⟨e, he⟩
    cases r with
    | ok p =>
      have hc : p ∈ names := g1.1
      have hno : oversizeFirst input = false := by
        cases ho : oversizeFirst input with
        | false => rfl
        | true =>
          rcases hover ho with h | ⟨e, he⟩
          · -- nothing read and yet `ok`: the start state itself would have been `ok`
            cases s0 with
            | done r' =>
              have := himm rfl
              simp at this
              exact absurd (by rw [this.1]) (hnotok p)
            | expecting c' x' => have := himm rfl; simp at this
            | await c' t' =>
              obtain ⟨e, he⟩ := hov1 ho (by intro r; simp) rfl
              simp at he
          · simp at he
      simp [specDialRes, nresPanic, hc, g1.2, hno, hwf]
    | failed =>
      have hcons : oversizeFirst input = true → input.length - rest1.length = 0 := by
        intro ho
        rcases hover ho with h | ⟨e, he⟩
        · rw [h]; simp
        · simp at he
      by_cases ho : oversizeFirst input = true
      · simp [specDialRes, nresPanic, nresErr, hwf, hcons ho]
      · simp [specDialRes, nresPanic, nresErr, hwf, ho]
    | perr e => simp [specDialRes, nresPanic, nresErr, hwf]
    | panic w => exact absurd g1 (by simp [DGood])

end C15
