import Libp2pModel.Proofs.C15Auto
/-!
# C15 helper: the dialer automaton on hostile byte streams — the Spec accepts the model
-/
namespace C15
open Mss

/-- generic: an invariant of the automaton and "everything sent fits a frame" survive a run over bytes -/
theorem runBytes_inv {σ : Type} (step : σ → RdEv → σ × List Msg) (isDone : σ → Bool) (Good : σ → Prop)
    (hstep : ∀ s ev, Good s → (∀ w, ev ≠ .panic w) →
      Good (step s ev).1 ∧ ∀ x ∈ (step s ev).2, sendable x = true) :
    ∀ (fuel : Nat) (s : σ) (buf : Bytes), Good s →
      Good (runBytes step isDone fuel s buf).1 ∧
        ∀ x ∈ (runBytes step isDone fuel s buf).2.1, sendable x = true := by
  intro fuel
  induction fuel with
  | zero => intro s buf h; simpa [runBytes] using h
  | succ f ih =>
    intro s buf h
    rw [runBytes]
    split
    · simpa using h
    · split
      · simpa using h
      · rename_i fr rest _
        obtain ⟨g1, g2⟩ := hstep s (frameEvent fr) h (frameEvent_no_panic' fr)
        obtain ⟨i1, i2⟩ := ih (step s (frameEvent fr)).1 rest g1
        refine ⟨i1, ?_⟩
        intro x hx
        simp only [List.mem_append] at hx
        rcases hx with hx | hx
        · exact g2 x hx
        · exact i2 x hx

theorem runToEof_inv {σ : Type} (step : σ → RdEv → σ × List Msg) (isDone : σ → Bool) (Good : σ → Prop)
    (hstep : ∀ s ev, Good s → (∀ w, ev ≠ .panic w) →
      Good (step s ev).1 ∧ ∀ x ∈ (step s ev).2, sendable x = true)
    (s : σ) (input : Bytes) (h : Good s) :
    Good (runToEof step isDone s input).1 ∧
      ∀ x ∈ (runToEof step isDone s input).2.1, sendable x = true := by
  obtain ⟨g1, g2⟩ := runBytes_inv step isDone Good hstep (input.length + 1) s input h
  unfold runToEof
  simp only
  split
  · exact ⟨g1, g2⟩
  · obtain ⟨h1, h2⟩ := hstep _ (eofEvent (runBytes step isDone (input.length + 1) s input).2.2)
      g1 (eofEvent_no_panic _)
    refine ⟨h1, ?_⟩
    intro x hx
    simp only [List.mem_append] at hx
    rcases hx with hx | hx
    · exact g2 x hx
    · exact h2 x hx

/-- what the dialer can be in: every protocol it holds is one of the caller's names; the one it
proposed or settled on passed `Protocol::try_from`; never a panic -/
def DGood (names : List Bytes) : DSt → Prop
  | .await cur rest => cur ∈ names ∧ nameOk cur = true ∧ ∀ x ∈ rest, x ∈ names
  | .expecting cur _ => cur ∈ names ∧ nameOk cur = true
  | .done (.ok p) => p ∈ names ∧ nameOk p = true
  | .done (.panic _) => False
  | .done _ => True

theorem sendable_header' : sendable .header = true := by decide

theorem dPropose_good (names : List Bytes) (lazy : Bool) (d : Bytes) (rest : List Bytes)
    (pending : List Msg) (hd : d ∈ names) (hr : ∀ x ∈ rest, x ∈ names)
    (hp : ∀ x ∈ pending, sendable x = true) :
    DGood names (dPropose lazy d rest pending).1 ∧
      ∀ x ∈ (dPropose lazy d rest pending).2, sendable x = true := by
  unfold dPropose
  split
  · simp [DGood]
  · rename_i hn
    split
    · simp [DGood]
    · rename_i hs
      simp at hn hs
      split
      · refine ⟨⟨hd, hn⟩, ?_⟩
        intro x hx
        simp at hx
        rcases hx with hx | rfl
        · exact hp x hx
        · exact hs
      · refine ⟨⟨hd, hn, hr⟩, ?_⟩
        intro x hx
        simp at hx
        rcases hx with hx | rfl
        · exact hp x hx
        · exact hs

theorem dStart_good (names : List Bytes) (lazy : Bool) :
    DGood names (dStart lazy names).1 ∧ ∀ x ∈ (dStart lazy names).2, sendable x = true := by
  unfold dStart
  cases names with
  | nil => simp [DGood]
  | cons d rest =>
    exact dPropose_good (d :: rest) lazy d rest [.header] (by simp)
      (fun x hx => by simp [hx]) (by simp [sendable_header'])

theorem dStep_good (names : List Bytes) (lazy : Bool) (s : DSt) (ev : RdEv) (hs : DGood names s)
    (hev : ∀ w, ev ≠ .panic w) :
    DGood names (dStep lazy s ev).1 ∧ ∀ x ∈ (dStep lazy s ev).2, sendable x = true := by
  cases s with
  | done r => simpa [dStep] using hs
  | await cur rest =>
    obtain ⟨h1, h2, h3⟩ := hs
    cases ev with
    | panic w => exact absurd rfl (hev w)
    | eof => simp [dStep, DGood]
    | err e => simp [dStep, DGood]
    | msg m =>
      cases m with
      | header => simp [dStep, DGood, h1, h2]; exact h3
      | proto p =>
        simp only [dStep]
        split
        · simp [DGood, h1, h2]
        · simp [DGood]
      | na =>
        simp only [dStep]
        cases rest with
        | nil => simp [DGood]
        | cons d rest' =>
          exact dPropose_good names lazy d rest' [] (h3 d (by simp))
            (fun x hx => h3 x (by simp [hx])) (by simp)
      | ls => simp [dStep, DGood]
      | protos ps => simp [dStep, DGood]
  | expecting cur hx =>
    obtain ⟨h1, h2⟩ := hs
    cases ev with
    | panic w => exact absurd rfl (hev w)
    | eof => simp [dStep, DGood]
    | err e => simp [dStep, DGood]
    | msg m =>
      cases m with
      | header => cases hx <;> simp [dStep, DGood, h1, h2]
      | proto p =>
        simp only [dStep]
        split
        · simp [DGood, h1, h2]
        · simp [DGood]
      | na => simp [dStep, DGood]
      | ls => simp [dStep, DGood]
      | protos ps => simp [dStep, DGood]

/-- an oversized first length prefix: a reading dialer fails with a `ProtocolError` after 2 bytes -/
theorem dial_oversize (lazy : Bool) (isDone : DSt → Bool) (s : DSt) (input : Bytes)
    (h : oversizeFirst input = true) (hnd : isDone s = false) (hs : ∀ r, s ≠ .done r)
    (hdone : ∀ r, isDone (.done r) = true) :
    ∃ e, (runToEof (dStep lazy) isDone s input).1 = .done (.perr e) := by
  match input, h with
  | b0 :: b1 :: rest, h =>
    simp [oversizeFirst] at h
    have a : ¬ b0 < 128 := by omega
    have b : ¬ b1 < 128 := by omega
    have hd : frameDec (b0 :: b1 :: rest) = some (.err .frameTooLong, rest) := by
      simp [frameDec, a, b]
    have hstep : (dStep lazy s (.err .frameTooLong)).1 = .done (.perr .frameTooLong) := by
      cases s with
      | done r => exact absurd rfl (hs r)
      | await c r => simp [dStep]
      | expecting c x => simp [dStep]
    refine ⟨.frameTooLong, ?_⟩
    unfold runToEof
    simp only [List.length_cons, runBytes, hnd, Bool.false_eq_true, ↓reduceIte, hd, frameEvent]
    cases hk : rest.length + 1 + 1 with
    | zero => omega
    | succ k =>
      have : dStep lazy s (.err .frameTooLong) = (.done (.perr .frameTooLong), (dStep lazy s (.err .frameTooLong)).2) := by
        rw [← hstep]
      rw [this]
      simp [runBytes, hdone]

end C15
