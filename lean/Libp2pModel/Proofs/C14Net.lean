import Libp2pModel.Model.C14_Net
import Libp2pModel.Proofs.C14Sys
import Libp2pModel.Proofs.C14Bytes
/-!
# C14 helper: every run of the byte-level network is a run of the message-level system
-/
namespace C14
open Mss

/-- none of these messages is reached in a finished state -/
def NotDoneBefore {σ : Type} (step : σ → RdEv → σ × List Msg) (isDone : σ → Bool) : σ → List Msg → Prop
  | _, [] => True
  | s, m :: ms => isDone s = false ∧ NotDoneBefore step isDone (step s (.msg m)).1 ms

theorem frameDec_proper_prefix (w : Bytes) (f : Frame) (h : frameDec w = some (f, []))
    (n : Nat) (hn : n < w.length) : frameDec (w.take n) = none := by
  cases hp : frameDec (w.take n) with
  | none => rfl
  | some p =>
    obtain ⟨f', r⟩ := p
    have := C15.frameDec_stable _ _ _ (w.drop n) hp
    rw [List.take_append_drop, h] at this
    simp at this
    have := this.2.2
    omega

/-- **Reading a prefix.**  Whatever prefix (`n` bytes) of the wire image of `ms` is readable, the
reader-driven automaton consumes some number `j` of whole messages — exactly as the message-level
run over the first `j` messages does —, the bytes it leaves together with the unread rest are the
wire image of the remaining messages, and it stopped because it is finished or because the next
frame is not complete yet. -/
theorem runBytes_prefix {σ : Type} (step : σ → RdEv → σ × List Msg) (isDone : σ → Bool) :
    ∀ (ms : List Msg) (s : σ) (n fuel : Nat), (∀ m ∈ ms, wireOk m) → n < fuel →
    ∃ (j : Nat) (rest : Bytes), j ≤ ms.length ∧ NotDoneBefore step isDone s (ms.take j) ∧
      runBytes step isDone fuel s ((wireOfAll ms).take n) =
        ((runSteps step s ((ms.take j).map .msg)).1, (runSteps step s ((ms.take j).map .msg)).2, rest) ∧
      rest ++ (wireOfAll ms).drop n = wireOfAll (ms.drop j) ∧
      (isDone (runSteps step s ((ms.take j).map .msg)).1 = true ∨
        (frameDec rest = none ∧ (j = ms.length → rest = []))) := by
  intro ms
  induction ms with
  | nil =>
    intro s n fuel _ hf
    cases fuel with
    | zero => omega
    | succ f =>
      refine ⟨0, [], Nat.le_refl _, trivial, ?_, by simp [wireOfAll], Or.inr ⟨rfl, fun _ => rfl⟩⟩
      simp only [wireOfAll, List.flatMap_nil, List.take_nil, runBytes, frameDec]
      split <;> simp [runSteps]
  | cons m ms ih =>
    intro s n fuel hw hf
    cases fuel with
    | zero => omega
    | succ f =>
      obtain ⟨w, hw1, hw2, hw3, hw4⟩ := wireOf_frame m (hw m (by simp)) []
      have hwX : ∀ X, frameDec (w ++ X) = some (.data (encodeMsg m), X) := by
        intro X
        have := C15.frameDec_stable _ _ _ X (by simpa using hw3)
        simpa using this
      have hall : wireOfAll (m :: ms) = w ++ wireOfAll ms := by simp [wireOfAll, hw1]
      by_cases hd : isDone s = true
      · refine ⟨0, (wireOfAll (m :: ms)).take n, Nat.zero_le _, trivial, ?_, ?_, Or.inl (by simpa [runSteps] using hd)⟩
        · simp [runBytes, hd, runSteps]
        · simp
      · have hd' : isDone s = false := by simpa using hd
        by_cases hn : w.length ≤ n
        · -- the first frame is complete
          obtain ⟨j, rest, hj, hnd, hrun, hrest, hstop⟩ :=
            ih (step s (.msg m)).1 (n - w.length) f (fun x hx => hw x (by simp [hx])) (by omega)
          refine ⟨j + 1, rest, by simp; omega, ⟨hd', by simpa using hnd⟩, ?_, ?_, ?_⟩
          · have htake : (wireOfAll (m :: ms)).take n = w ++ (wireOfAll ms).take (n - w.length) := by
              rw [hall, List.take_append]
              rw [List.take_of_length_le hn]
            rw [htake, runBytes]
            simp only [hd', Bool.false_eq_true, ↓reduceIte, hwX, hw4, hrun, List.take_succ_cons,
              List.map_cons, runSteps]
          · have hdrop : (wireOfAll (m :: ms)).drop n = (wireOfAll ms).drop (n - w.length) := by
              rw [hall, List.drop_append]
              rw [List.drop_of_length_le hn]; rfl
            rw [hdrop, hrest]; simp
          · rcases hstop with h | ⟨h1, h2⟩
            · left; simpa [runSteps] using h
            · right; exact ⟨h1, fun hh => h2 (by simpa using hh)⟩
        · -- only a proper prefix of the first frame is there
          have hlt : n < w.length := by omega
          have htake : (wireOfAll (m :: ms)).take n = w.take n := by
            rw [hall, List.take_append_of_le_length (by omega)]
          have hnone := frameDec_proper_prefix w _ (by simpa using hw3) n hlt
          refine ⟨0, w.take n, Nat.zero_le _, trivial, ?_, ?_, Or.inr ⟨hnone, by simp⟩⟩
          · rw [htake, runBytes]
            simp [hd', hnone, runSteps]
          · rw [hall, List.drop_append_of_le_length (by omega), ← List.append_assoc,
              List.take_append_drop]
            simp [hall]

end C14

namespace C14
open Mss

theorem lFailed_of_not_done (s : LSt) (h : lIsDone s = false) : lFailed s = false := by
  cases s <;> simp_all [lIsDone, lFailed]

theorem dFailed_of_not_done (s : DSt) (h : dIsDone s = false) : dFailed s = false := by
  cases s <;> simp_all [dIsDone, dFailed]

theorem not_done_l (s : LSt) (h : lIsDone s = false) : ∀ r, s ≠ .done r := by
  intro r hs; subst hs; simp [lIsDone] at h

theorem not_done_d (s : DSt) (h : dIsDone s = false) : ∀ r, s ≠ .done r := by
  intro r hs; subst hs; simp [dIsDone] at h

/-- `j` consecutive listener moves on a queue that starts with `ms` -/
theorem stepL_iter (P : Params) : ∀ (ms : List Msg) (c : Cfg) (tail : List Item),
    lIsDone c.l = false →
    c.dl.q = ms.map Item.msg ++ tail → NotDoneBefore (lStep P.ls) lIsDone c.l ms →
    (List.replicate ms.length Move.stepL).foldl (step P) c =
      { c with l := (runSteps (lStep P.ls) c.l (ms.map RdEv.msg)).1,
               dl := ⟨tail, c.dl.closed⟩,
               ld := ⟨c.ld.q ++ (runSteps (lStep P.ls) c.l (ms.map RdEv.msg)).2.map Item.msg,
                      c.ld.closed || lFailed (runSteps (lStep P.ls) c.l (ms.map RdEv.msg)).1⟩ } := by
  intro ms
  induction ms with
  | nil =>
    intro c tail hnf hq _
    simp only [List.length_nil, List.replicate_zero, List.foldl_nil, List.map_nil, runSteps,
      List.append_nil, lFailed_of_not_done _ hnf, Bool.or_false]
    simp at hq
    cases c with
    | mk st d l dl ld =>
      cases dl with
      | mk q cl => simp at hq; subst hq; rfl
  | cons m ms ih =>
    intro c tail hnf hq hnd
    obtain ⟨h0, hrest⟩ := hnd
    have hitem := stepL_item P c (.msg m) (ms.map Item.msg ++ tail) (not_done_l _ h0) (by simpa using hq)
    simp only [List.length_cons, List.replicate_succ, List.foldl_cons, step]
    rw [hitem]
    cases ms with
    | nil => simp [runSteps, itemEv]
    | cons m2 ms2 =>
      have hnf2 : lIsDone (lStep P.ls c.l (itemEv (.msg m))).1 = false := by
        simpa [itemEv] using hrest.1
      rw [ih _ tail hnf2 (by simp) (by simpa [itemEv] using hrest)]
      simp only [itemEv, List.map_cons, runSteps, List.map_append, List.append_assoc]
      have := lFailed_of_not_done _ hnf2
      simp only [itemEv] at this
      simp [this]

theorem dEmit_nojunk (P : Params) (hj : P.junk = none) (old new : DSt) (out : List Msg) :
    dEmit P old new out = out.map Item.msg := by
  simp [dEmit, junkItems, hj]

/-- `j` consecutive dialer moves on a queue that starts with `ms` -/
theorem stepD_iter (P : Params) (hj : P.junk = none) : ∀ (ms : List Msg) (c : Cfg) (tail : List Item),
    c.started = true → dIsDone c.d = false →
    c.ld.q = ms.map Item.msg ++ tail → NotDoneBefore (dStep P.lazy) dIsDone c.d ms →
    (List.replicate ms.length Move.stepD).foldl (step P) c =
      { c with d := (runSteps (dStep P.lazy) c.d (ms.map RdEv.msg)).1,
               ld := ⟨tail, c.ld.closed⟩,
               dl := ⟨c.dl.q ++ (runSteps (dStep P.lazy) c.d (ms.map RdEv.msg)).2.map Item.msg,
                      c.dl.closed || dFailed (runSteps (dStep P.lazy) c.d (ms.map RdEv.msg)).1⟩ } := by
  intro ms
  induction ms with
  | nil =>
    intro c tail _ hnf hq _
    simp only [List.length_nil, List.replicate_zero, List.foldl_nil, List.map_nil, runSteps,
      List.append_nil, dFailed_of_not_done _ hnf, Bool.or_false]
    simp at hq
    cases c with
    | mk st d l dl ld =>
      cases ld with
      | mk q cl => simp at hq; subst hq; rfl
  | cons m ms ih =>
    intro c tail hst hnf hq hnd
    obtain ⟨h0, hrest⟩ := hnd
    have hitem := stepD_item P c (.msg m) (ms.map Item.msg ++ tail) hst (not_done_d _ h0) (by simpa using hq)
    simp only [List.length_cons, List.replicate_succ, List.foldl_cons, step]
    cases ms with
    | nil => rw [hitem]; simp [runSteps, itemEv, dEmit_nojunk P hj]
    | cons m2 ms2 =>
      have hnf2 : dIsDone (dStep P.lazy c.d (itemEv (.msg m))).1 = false := by
        simpa [itemEv] using hrest.1
      have hst' : (stepD P c).started = true := by rw [hitem]; exact hst
      have hd' : (stepD P c).d = (dStep P.lazy c.d (itemEv (.msg m))).1 := by rw [hitem]
      have hq' : (stepD P c).ld.q = (m2 :: ms2).map Item.msg ++ tail := by rw [hitem]
      rw [ih (stepD P c) tail hst' (by rw [hd']; exact hnf2) hq'
        (by rw [hd']; simpa [itemEv] using hrest)]
      rw [hitem]
      simp only [itemEv, List.map_cons, runSteps, List.map_append, List.append_assoc,
        dEmit_nojunk P hj]
      have := dFailed_of_not_done _ hnf2
      simp only [itemEv] at this
      simp [this]

/-- **One byte-level poll = some message-level steps of that side**: it consumes `j` whole
messages like the message-level automaton (and, only when the peer closed, everything was
delivered and the queue is empty, sees EOF exactly like the message-level step on an empty closed
queue); the unconsumed bytes are the wire image of the remaining messages. -/
theorem pollBytes_spec {σ : Type} (step : σ → RdEv → σ × List Msg) (isDone : σ → Bool)
    (s : σ) (ms : List Msg) (closed : Bool) (n : Nat) (hw : ∀ m ∈ ms, wireOk m)
    (hnd : isDone s = false) :
    ∃ j, j ≤ ms.length ∧ NotDoneBefore step isDone s (ms.take j) ∧
      (pollBytes step isDone s (wireOfAll ms) closed n =
          ((runSteps step s ((ms.take j).map .msg)).1, wireOfAll (ms.drop j),
           (runSteps step s ((ms.take j).map .msg)).2) ∨
       (j = ms.length ∧ closed = true ∧
        isDone (runSteps step s ((ms.take j).map .msg)).1 = false ∧
        pollBytes step isDone s (wireOfAll ms) closed n =
          ((step (runSteps step s ((ms.take j).map .msg)).1 .eof).1, [],
           (runSteps step s ((ms.take j).map .msg)).2 ++
             (step (runSteps step s ((ms.take j).map .msg)).1 .eof).2))) := by
  obtain ⟨j, rest, hj, hnb, hrun, hrest, hstop⟩ := runBytes_prefix step isDone ms s n (n + 1) hw (by omega)
  refine ⟨j, hj, hnb, ?_⟩
  unfold pollBytes
  simp only [hnd, Bool.false_eq_true, ↓reduceIte, hrun]
  by_cases hc : (!isDone (runSteps step s ((ms.take j).map RdEv.msg)).1 && closed &&
      decide ((wireOfAll ms).length < n)) = true
  · -- EOF branch
    right
    have hc0 := hc
    simp only [Bool.and_eq_true, Bool.not_eq_true', decide_eq_true_eq] at hc
    obtain ⟨⟨hnd2, hcl⟩, hlen⟩ := hc
    have hdrop : (wireOfAll ms).drop n = [] := List.drop_of_length_le (Nat.le_of_lt hlen)
    rw [hdrop, List.append_nil] at hrest
    rcases hstop with h | ⟨hnone, hjl⟩
    · rw [hnd2] at h; cases h
    · -- the remaining queue must be empty: a complete frame would have been decoded
      have hempty : ms.drop j = [] := by
        cases hdj : ms.drop j with
        | nil => rfl
        | cons m' t =>
          have hm' : m' ∈ ms := List.mem_of_mem_drop (by rw [hdj]; simp)
          obtain ⟨w, hw1, _, hw3, _⟩ := wireOf_frame m' (hw m' hm') (wireOfAll t)
          rw [hdj] at hrest
          have : rest = w ++ wireOfAll t := by rw [hrest]; simp [wireOfAll, hw1]
          rw [this, hw3] at hnone
          cases hnone
      have hjeq : j = ms.length := by
        have := congrArg List.length hempty
        simp at this; omega
      have hr : rest = [] := hjl hjeq
      subst hr
      refine ⟨hjeq, hcl, hnd2, ?_⟩
      rw [if_pos hc0]
      simp only [eofEvent, ↓reduceIte]
  · left
    simp only [hc, Bool.false_eq_true, ↓reduceIte, hrest]

/-! ### the refinement relation -/

structure Rel (bc : BCfg) (mc : Cfg) : Prop where
  hs : bc.started = mc.started
  hd : bc.d = mc.d
  hl : bc.l = mc.l
  hdl : ∃ ms, mc.dl.q = ms.map Item.msg ∧ bc.dl.bytes = wireOfAll ms
  hdlc : bc.dl.closed = mc.dl.closed
  hld : ∃ ms, mc.ld.q = ms.map Item.msg ∧ bc.ld.bytes = wireOfAll ms
  hldc : bc.ld.closed = mc.ld.closed

def itemOk : Item → Prop
  | .msg m => wireOk m
  | .junk _ => False

theorem wok_header : wireOk .header := ⟨by decide, by decide⟩
theorem wok_na : wireOk .na := ⟨by decide, by decide⟩

theorem wok_proto (p : Bytes) (h : validName p = true) : wireOk (.proto p) := by
  simp [validName] at h
  obtain ⟨⟨⟨⟨h1, h2⟩, h3⟩, h4⟩, h5⟩ := h
  have e : MAX_FRAME_SIZE = 16383 := by decide
  refine ⟨?_, ?_⟩
  · simp [C15.valid, C15.validName, h1, h2, h3, h4]
    rw [e] at h5
    have : (2:Nat) ^ 64 = 18446744073709551616 := by decide
    omega
  · simp [encodeMsg]; omega

theorem wireOfAll_append (a b : List Msg) : wireOfAll (a ++ b) = wireOfAll a ++ wireOfAll b := by
  simp [wireOfAll]

theorem valid_of_split (P : Params) (hv : ∀ d ∈ P.ds, validName d = true) (pre : List Bytes)
    (cur : Bytes) (rest : List Bytes) (h : splitOK P pre cur rest) : validName cur = true :=
  hv cur (by rw [h.1]; simp)

/-- with no optimistic data, every item queued in a reachable configuration is a message that
survives the wire -/
theorem shape_items_ok (P : Params) (hv : ∀ d ∈ P.ds, validName d = true) (hj : P.junk = none)
    (ph : Phase) (hok : PhaseOK P ph) :
    (∀ it ∈ (shape P ph).dl.q, itemOk it) ∧ (∀ it ∈ (shape P ph).ld.q, itemOk it) := by
  have hjk : ∀ rest, jk P rest = [] := by intro rest; simp [jk, junkItems, hj]
  have hh : ∀ hq it, it ∈ hdr hq → itemOk it := by
    intro hq it hit
    cases hq with
    | true => simp [hdr] at hit; subst hit; exact wok_header
    | false => simp [hdr] at hit
  cases ph with
  | p0 => simp [shape, init]
  | e1 => simp [shape]
  | e2 => simp [shape]
  | a cur rest =>
    have hc : validName cur = true := hv cur (by rw [show P.ds = cur :: rest from hok]; simp)
    refine ⟨?_, by simp [shape]⟩
    intro it hit
    simp [shape, hjk] at hit
    rcases hit with rfl | rfl
    · exact wok_header
    · exact wok_proto cur hc
  | b pre cur rest hq hx =>
    have hc := valid_of_split P hv pre cur rest hok.1
    refine ⟨?_, ?_⟩
    · intro it hit
      simp [shape, hjk] at hit
      subst hit; exact wok_proto cur hc
    · intro it hit; exact hh hq it (by simpa [shape] using hit)
  | c pre cur rest hq hx =>
    have hc := valid_of_split P hv pre cur rest hok.1
    refine ⟨by simp [shape, hjk], ?_⟩
    intro it hit
    simp only [shape, List.mem_append, List.mem_singleton] at hit
    rcases hit with h | rfl
    · exact hh hq it h
    · exact wok_proto cur hc
  | cdone pre cur rest => simp [shape, hjk]
  | n pre cur rest hq hx =>
    refine ⟨by simp [shape, hjk], ?_⟩
    intro it hit
    simp only [shape, List.mem_append, List.mem_singleton] at hit
    rcases hit with h | rfl
    · exact hh hq it h
    · exact wok_na
  | nj pre cur hq hx =>
    refine ⟨by simp [shape], ?_⟩
    intro it hit
    simp only [shape, List.mem_append, List.mem_singleton] at hit
    rcases hit with h | rfl
    · exact hh hq it h
    · exact wok_na
  | f1 pre cur => simp [shape, hjk]
  | f2 pre cur => simp [shape]

theorem msgs_ok (q : List Item) (ms : List Msg) (hq : q = ms.map Item.msg)
    (h : ∀ it ∈ q, itemOk it) : ∀ m ∈ ms, wireOk m := by
  intro m hm
  exact h (.msg m) (by rw [hq]; exact List.mem_map_of_mem hm)

theorem foldl_append_moves (P : Params) (c : Cfg) (a b : List Move) :
    (a ++ b).foldl (step P) c = b.foldl (step P) (a.foldl (step P) c) := by
  simp [List.foldl_append]

/-- a byte-level listener poll is matched by message-level listener moves -/
theorem refine_L (P : Params) (bc : BCfg) (mc : Cfg) (n : Nat) (hrel : Rel bc mc)
    (hok : ∀ it ∈ mc.dl.q, itemOk it) :
    ∃ ex : List Move, Rel (bStepL P n bc) (ex.foldl (step P) mc) := by
  unfold bStepL
  by_cases hdone : lIsDone bc.l = true
  · exact ⟨[], by simpa [hdone] using hrel⟩
  · have hnd : lIsDone bc.l = false := by simpa using hdone
    simp only [hnd, Bool.false_eq_true, ↓reduceIte]
    obtain ⟨ms, hq, hb⟩ := hrel.hdl
    obtain ⟨ms2, hq2, hb2⟩ := hrel.hld
    have hw := msgs_ok _ ms hq hok
    obtain ⟨j, hj, hnb, hcase⟩ := pollBytes_spec (lStep P.ls) lIsDone bc.l ms bc.dl.closed n hw hnd
    have hsplit : mc.dl.q = (ms.take j).map Item.msg ++ (ms.drop j).map Item.msg := by
      rw [hq, ← List.map_append, List.take_append_drop]
    have hlen : (ms.take j).length = j := by simp; omega
    have hiter := stepL_iter P (ms.take j) mc ((ms.drop j).map Item.msg)
      (by rw [← hrel.hl]; exact hnd) hsplit (by rw [← hrel.hl]; exact hnb)
    rw [hlen] at hiter
    rcases hcase with hp | ⟨hjl, hcl, hnd2, hp⟩
    · refine ⟨List.replicate j .stepL, ?_⟩
      rw [hiter, hb, hp]
      exact {
        hs := hrel.hs
        hd := hrel.hd
        hl := by simp [hrel.hl]
        hdl := ⟨ms.drop j, rfl, rfl⟩
        hdlc := hrel.hdlc
        hld := ⟨ms2 ++ (runSteps (lStep P.ls) bc.l ((ms.take j).map RdEv.msg)).2,
          by simp [hq2, hrel.hl], by simp [hb2, wireOfAll_append]⟩
        hldc := by simp [hrel.hldc, hrel.hl] }
    · -- EOF
      refine ⟨List.replicate j .stepL ++ [.stepL], ?_⟩
      rw [foldl_append_moves, hiter, hb, hp]
      have hdrop : ms.drop j = [] := by rw [hjl]; simp
      simp only [List.foldl_cons, List.foldl_nil, step]
      rw [stepL_eof P _ (by
            intro r
            simp only
            rw [← hrel.hl]
            exact not_done_l _ hnd2 r)
          (by simp [hdrop]) (by simp [← hrel.hdlc, hcl])]
      have hnf := lFailed_of_not_done _ hnd2
      have hnf' : lFailed (runSteps (lStep P.ls) mc.l (List.take j (List.map RdEv.msg ms))).fst = false := by
        rw [← List.map_take, ← hrel.hl]; exact hnf
      exact {
        hs := hrel.hs
        hd := hrel.hd
        hl := by simp [hrel.hl]
        hdl := ⟨[], by simp [hdrop], by simp [wireOfAll]⟩
        hdlc := hrel.hdlc
        hld := ⟨ms2 ++ ((runSteps (lStep P.ls) bc.l ((ms.take j).map RdEv.msg)).2 ++
            (lStep P.ls (runSteps (lStep P.ls) bc.l ((ms.take j).map RdEv.msg)).1 .eof).2),
          by simp [hq2, hrel.hl], by simp [hb2, wireOfAll_append]⟩
        hldc := by simp [hrel.hldc, hrel.hl, hnf'] }

theorem stepD_eof (P : Params) (c : Cfg) (hs : c.started = true) (hd : ∀ r, c.d ≠ .done r)
    (hq : c.ld.q = []) (hc : c.ld.closed = true) :
    stepD P c =
      { c with d := (dStep P.lazy c.d .eof).1,
               dl := ⟨c.dl.q ++ dEmit P c.d (dStep P.lazy c.d .eof).1 (dStep P.lazy c.d .eof).2,
                      c.dl.closed || dFailed (dStep P.lazy c.d .eof).1⟩ } := by
  unfold stepD
  simp only [hs, Bool.not_true, Bool.false_eq_true, ↓reduceIte]
  cases hdd : c.d with
  | done r => exact absurd hdd (hd r)
  | await a b => simp [hq, hc]
  | expecting a b => simp [hq, hc]

/-- a byte-level dialer poll is matched by message-level dialer moves -/
theorem refine_D (P : Params) (hj : P.junk = none) (bc : BCfg) (mc : Cfg) (n : Nat)
    (hrel : Rel bc mc) (hok : ∀ it ∈ mc.ld.q, itemOk it) :
    ∃ ex : List Move, Rel (bStepD P n bc) (ex.foldl (step P) mc) := by
  unfold bStepD
  by_cases hst : bc.started = true
  · have hst' : mc.started = true := by rw [← hrel.hs]; exact hst
    simp only [hst, Bool.not_true, Bool.false_eq_true, ↓reduceIte]
    by_cases hdone : dIsDone bc.d = true
    · exact ⟨[], by simpa [hdone] using hrel⟩
    · have hnd : dIsDone bc.d = false := by simpa using hdone
      simp only [hnd, Bool.false_eq_true, ↓reduceIte]
      obtain ⟨ms, hq, hb⟩ := hrel.hld
      obtain ⟨ms2, hq2, hb2⟩ := hrel.hdl
      have hw := msgs_ok _ ms hq hok
      obtain ⟨j, hjle, hnb, hcase⟩ := pollBytes_spec (dStep P.lazy) dIsDone bc.d ms bc.ld.closed n hw hnd
      have hsplit : mc.ld.q = (ms.take j).map Item.msg ++ (ms.drop j).map Item.msg := by
        rw [hq, ← List.map_append, List.take_append_drop]
      have hlen : (ms.take j).length = j := by simp; omega
      have hiter := stepD_iter P hj (ms.take j) mc ((ms.drop j).map Item.msg) hst'
        (by rw [← hrel.hd]; exact hnd) hsplit (by rw [← hrel.hd]; exact hnb)
      rw [hlen] at hiter
      rcases hcase with hp | ⟨hjl, hcl, hnd2, hp⟩
      · refine ⟨List.replicate j .stepD, ?_⟩
        rw [hiter, hb, hp]
        exact {
          hs := by simp [hst']
          hd := by simp [hrel.hd]
          hl := hrel.hl
          hld := ⟨ms.drop j, rfl, rfl⟩
          hldc := hrel.hldc
          hdl := ⟨ms2 ++ (runSteps (dStep P.lazy) bc.d ((ms.take j).map RdEv.msg)).2,
            by simp [hq2, hrel.hd], by simp [hb2, wireOfAll_append]⟩
          hdlc := by simp [hrel.hdlc, hrel.hd] }
      · refine ⟨List.replicate j .stepD ++ [.stepD], ?_⟩
        rw [foldl_append_moves, hiter, hb, hp]
        have hdrop : ms.drop j = [] := by rw [hjl]; simp
        simp only [List.foldl_cons, List.foldl_nil, step]
        rw [stepD_eof P _ (by simp [hst']) (by
              intro r
              simp only
              rw [← hrel.hd]
              exact not_done_d _ hnd2 r)
            (by simp [hdrop]) (by simp [← hrel.hldc, hcl])]
        have hnf := dFailed_of_not_done _ hnd2
        have hnf' : dFailed (runSteps (dStep P.lazy) mc.d (List.take j (List.map RdEv.msg ms))).fst = false := by
          rw [← List.map_take, ← hrel.hd]; exact hnf
        exact {
          hs := by simp [hst']
          hd := by simp [hrel.hd]
          hl := hrel.hl
          hld := ⟨[], by simp [hdrop], by simp [wireOfAll]⟩
          hldc := hrel.hldc
          hdl := ⟨ms2 ++ ((runSteps (dStep P.lazy) bc.d ((ms.take j).map RdEv.msg)).2 ++
              (dStep P.lazy (runSteps (dStep P.lazy) bc.d ((ms.take j).map RdEv.msg)).1 .eof).2),
            by simp [hq2, hrel.hd, dEmit_nojunk P hj], by simp [hb2, wireOfAll_append]⟩
          hdlc := by simp [hrel.hdlc, hrel.hd, hnf'] }
  · -- the very first poll: `SendHeader` + first `SendProtocol`
    have hst0 : bc.started = false := by simpa using hst
    have hst' : mc.started = false := by rw [← hrel.hs]; exact hst0
    refine ⟨[.stepD], ?_⟩
    obtain ⟨ms2, hq2, hb2⟩ := hrel.hdl
    simp only [hst0, Bool.not_false, ↓reduceIte, List.foldl_cons, List.foldl_nil, step, stepD, hst']
    exact {
      hs := rfl
      hd := rfl
      hl := hrel.hl
      hld := hrel.hld
      hldc := hrel.hldc
      hdl := ⟨ms2 ++ (dStart P.lazy P.ds).2, by simp [hq2, dEmit_nojunk P hj],
        by simp [hb2, wireOfAll_append]⟩
      hdlc := by simp [hrel.hdlc] }

theorem rel_init : Rel binit init :=
  { hs := rfl, hd := rfl, hl := rfl, hdl := ⟨[], rfl, rfl⟩, hdlc := rfl, hld := ⟨[], rfl, rfl⟩, hldc := rfl }

/-- **Byte-level refinement**: for every adversarial delivery schedule of the byte-level network
there is a schedule of the message-level system that reaches the same automaton states, with
channels holding the parsed image of the unconsumed bytes. -/
theorem bytes_refine (P : Params) (hv : ∀ d ∈ P.ds, validName d = true) (hj : P.junk = none)
    (bs : List BMove) : ∃ sched, Rel (bexec P bs) (exec P sched) := by
  have gen : ∀ (bs : List BMove) (bc : BCfg), (∃ sched, Rel bc (exec P sched)) →
      ∃ sched, Rel (bs.foldl (bstep P) bc) (exec P sched) := by
    intro bs
    induction bs with
    | nil => intro bc h; simpa using h
    | cons mv rest ih =>
      intro bc ⟨sched, hrel⟩
      simp only [List.foldl_cons]
      apply ih
      obtain ⟨ph, hok, he⟩ := reachable_shape P hv sched
      have hitems := shape_items_ok P hv hj ph hok
      rw [← he] at hitems
      cases mv with
      | pollD n =>
        obtain ⟨ex, hex⟩ := refine_D P hj bc (exec P sched) n hrel hitems.2
        exact ⟨sched ++ ex, by simpa [exec, List.foldl_append, bstep] using hex⟩
      | pollL n =>
        obtain ⟨ex, hex⟩ := refine_L P bc (exec P sched) n hrel hitems.1
        exact ⟨sched ++ ex, by simpa [exec, List.foldl_append, bstep] using hex⟩
  exact gen bs binit ⟨[], by simpa [exec] using rel_init⟩

end C14
