import Libp2pModel.Proofs.C12Ext
/-! # C12 — proofs for `PeerAddresses` (model = hashlink LRU lists, Spec = most-recent-first lists) -/
namespace C12

/-- abstraction: reverse both levels (LRU-first iteration order ↦ most-recent-first) -/
def abs (o : PA) : Spec.PAS := (o.map (fun e => (e.1, e.2.reverse))).reverse

def keys (o : PA) : List Peer := o.map (·.1)

structure PaInv (c : Caps) (o : PA) : Prop where
  nodup : (keys o).Nodup
  len : o.length ≤ c.peers
  inner : ∀ e ∈ o, e.2.length ≤ c.addr

/-! ### generic LRU-list lemma -/

theorem lru_push_reverse {α : Type} (xs : List α) (x : α) (n : Nat) (h : xs.length ≤ n) :
    (if (xs ++ [x]).length > n then (xs ++ [x]).drop 1 else xs ++ [x]).reverse = (x :: xs.reverse).take n := by
  by_cases hc : (xs ++ [x]).length > n
  · rw [if_pos hc, List.reverse_drop]
    simp only [List.reverse_append, List.reverse_cons, List.reverse_nil, List.nil_append,
      List.singleton_append, List.length_append, List.length_cons, List.length_nil]
    congr 1
    simp at hc; omega
  · rw [if_neg hc, List.take_of_length_le]
    · simp
    · simp at hc ⊢; omega

theorem nodup_reverse' {α : Type} (l : List α) (h : l.Nodup) : l.reverse.Nodup := by
  unfold List.Nodup at *
  rw [List.pairwise_reverse]
  exact h.imp (fun hab => fun e => hab e.symm)

/-! ### lookup / del -/

theorem lookup_eq_some_iff (o : PA) (hnd : (keys o).Nodup) (p : Peer) (l : Inner) :
    lookup p o = some l ↔ (p, l) ∈ o := by
  induction o with
  | nil => simp [lookup]
  | cons e t ih =>
    obtain ⟨q, m⟩ := e
    simp only [keys, List.map_cons, List.nodup_cons] at hnd
    simp only [lookup]
    by_cases hq : q = p
    · subst hq
      simp only [↓reduceIte, Option.some.injEq, List.mem_cons, Prod.mk.injEq, true_and]
      constructor
      · intro h; exact Or.inl h.symm
      · rintro (h | h)
        · exact h.symm
        · exact absurd (List.mem_map_of_mem (f := (·.1)) h) hnd.1
    · simp only [hq, ↓reduceIte, List.mem_cons, Prod.mk.injEq]
      rw [ih hnd.2]
      constructor
      · intro h; exact Or.inr h
      · rintro (h | h)
        · exact absurd h.1.symm hq
        · exact h

theorem lookup_none_iff (o : PA) (p : Peer) : lookup p o = none ↔ p ∉ keys o := by
  induction o with
  | nil => simp [lookup, keys]
  | cons e t ih =>
    obtain ⟨q, m⟩ := e
    simp only [lookup, keys, List.map_cons, List.mem_cons, not_or]
    by_cases hq : q = p
    · subst hq; simp
    · simp only [hq, ↓reduceIte]
      rw [ih]; simp only [keys]
      constructor
      · intro h; exact ⟨fun h' => hq h'.symm, h⟩
      · intro h; exact h.2

theorem keys_abs (o : PA) : (abs o).map (·.1) = (keys o).reverse := by
  simp [abs, keys, List.map_reverse, Function.comp_def]

theorem mem_abs (o : PA) (p : Peer) (l' : List Maddr) :
    (p, l') ∈ abs o ↔ ∃ l, (p, l) ∈ o ∧ l' = l.reverse := by
  simp only [abs, List.mem_reverse, List.mem_map, Prod.mk.injEq]
  constructor
  · rintro ⟨⟨q, l⟩, hm, hq, hl⟩
    subst hq; exact ⟨l, hm, hl.symm⟩
  · rintro ⟨l, hm, hl⟩
    exact ⟨(p, l), hm, rfl, hl.symm⟩

theorem lookup_abs (o : PA) (hnd : (keys o).Nodup) (p : Peer) :
    lookup p (abs o) = (lookup p o).map List.reverse := by
  have hnd' : (keys (abs o)).Nodup := by
    show ((abs o).map (·.1)).Nodup
    rw [keys_abs]; exact nodup_reverse' _ hnd
  cases h : lookup p o with
  | none =>
    simp only [Option.map_none]
    rw [lookup_none_iff] at h ⊢
    show p ∉ (abs o).map (·.1)
    rw [keys_abs]; simpa using h
  | some l =>
    simp only [Option.map_some]
    rw [lookup_eq_some_iff _ hnd'] 
    rw [lookup_eq_some_iff _ hnd] at h
    exact (mem_abs o p _).2 ⟨l, h, rfl⟩

theorem del_abs (o : PA) (p : Peer) : del p (abs o) = abs (del p o) := by
  simp only [del, abs, List.filter_reverse, List.filter_map]
  congr 2

theorem abs_snoc (o : PA) (p : Peer) (l : Inner) : abs (o ++ [(p, l)]) = (p, l.reverse) :: abs o := by
  simp [abs]

theorem keys_del (o : PA) (p : Peer) : keys (del p o) = (keys o).filter (· != p) := by
  simp only [keys, del, List.filter_map]; congr 1

theorem del_length_lt (o : PA) (p : Peer) (l : Inner) (h : lookup p o = some l) :
    (del p o).length < o.length := by
  induction o with
  | nil => simp [lookup] at h
  | cons e t ih =>
    obtain ⟨q, m⟩ := e
    simp only [lookup] at h
    by_cases hq : q = p
    · subst hq
      simp only [del, List.filter_cons, bne_self_eq_false, Bool.false_eq_true, ↓reduceIte,
        List.length_cons]
      exact Nat.lt_succ_of_le (List.length_filter_le _ _)
    · simp only [hq, ↓reduceIte] at h
      have := ih h
      simp only [del, List.filter_cons, List.length_cons] at this ⊢
      have hq' : ((q, m).1 != p) = true := by simp [hq]
      simp only [hq', ↓reduceIte, List.length_cons]
      omega

theorem del_length_le (o : PA) (p : Peer) : (del p o).length ≤ o.length :=
  List.length_filter_le _ _

theorem nodup_del_snoc (o : PA) (hnd : (keys o).Nodup) (p : Peer) (l : Inner) :
    (keys (del p o ++ [(p, l)])).Nodup := by
  simp only [keys, List.map_append, List.map_cons, List.map_nil]
  rw [List.nodup_append]
  refine ⟨?_, by simp, ?_⟩
  · have := keys_del o p
    simp only [keys] at this
    rw [this]; exact hnd.sublist List.filter_sublist
  · intro x hx y hy
    simp at hy; subst hy
    have := keys_del o y
    simp only [keys] at this
    rw [this] at hx
    simp at hx
    exact hx.2


/-! ### simulation: every model step is the Spec step under `abs` -/

theorem innerInsert_reverse (cap : Nat) (l : Inner) (a : Maddr) (h : l.length ≤ cap) :
    (innerInsert cap l a).1.reverse = (a :: l.reverse.filter (· != a)).take cap := by
  simp only [innerInsert]
  rw [lru_push_reverse _ _ _ (Nat.le_trans (List.length_filter_le _ _) h), List.filter_reverse]

theorem innerInsert_length (cap : Nat) (_hcap : 1 ≤ cap) (l : Inner) (a : Maddr) (h : l.length ≤ cap) :
    (innerInsert cap l a).1.length ≤ cap := by
  have := congrArg List.length (innerInsert_reverse cap l a h)
  simp only [List.length_reverse, List.length_take] at this
  omega

theorem abs_length (o : PA) : (abs o).length = o.length := by simp [abs]

theorem abs_outerInsert (cap : Nat) (o : PA) (p : Peer) (l : Inner) (h : o.length ≤ cap) :
    abs (outerInsert cap o p l) = ((p, l.reverse) :: del p (abs o)).take cap := by
  have h' : (del p o).length ≤ cap := Nat.le_trans (del_length_le o p) h
  have key := lru_push_reverse ((del p o).map (fun e => (e.1, e.2.reverse))) (p, l.reverse) cap (by simpa using h')
  rw [del_abs]
  have e1 : abs (del p o) = ((del p o).map (fun e => (e.1, e.2.reverse))).reverse := rfl
  rw [e1, ← key]
  simp only [abs, outerInsert]
  congr 1
  by_cases hc : (del p o ++ [(p, l)]).length > cap
  · have hc' : (List.map (fun e => (e.1, e.2.reverse)) (del p o) ++ [(p, l.reverse)]).length > cap := by
      simpa using hc
    rw [if_pos hc, if_pos hc']
    simp
  · have hc' : ¬ (List.map (fun e => (e.1, e.2.reverse)) (del p o) ++ [(p, l.reverse)]).length > cap := by
      simpa using hc
    rw [if_neg hc, if_neg hc']
    simp

theorem spec_addrs_abs (o : PA) (hnd : (keys o).Nodup) (p : Peer) :
    Spec.addrs (abs o) p = (addrsOf o p).reverse := by
  simp only [Spec.addrs, addrsOf, lookup_abs o hnd p]
  cases lookup p o <;> simp

theorem paAdd_abs (c : Caps) (o : PA) (hi : PaInv c o) (p : Peer) (a : Maddr) :
    abs (paAdd c o p a).1 = Spec.paAdd c (abs o) p a := by
  simp only [paAdd, Spec.paAdd]
  cases hw : Maddr.withP2p a p with
  | none => rfl
  | some a' =>
    simp only
    rw [spec_addrs_abs o hi.nodup p]
    cases hl : lookup p o with
    | some l =>
      have hmem := (lookup_eq_some_iff o hi.nodup p l).1 hl
      simp only [addrsOf, hl, Option.getD_some, abs_snoc]
      rw [innerInsert_reverse _ _ _ (hi.inner _ hmem), del_abs]
      have h1 := del_length_lt o p l hl
      have h2 := hi.len
      refine (List.take_of_length_le ?_).symm
      rw [List.length_cons, abs_length]; omega
    | none =>
      simp only [addrsOf, hl, Option.getD_none, List.reverse_nil, List.filter_nil]
      rw [abs_outerInsert _ _ _ _ hi.len, innerInsert_reverse _ _ _ (by simp)]
      simp

theorem paRemove_abs (o : PA) (hnd : (keys o).Nodup) (p : Peer) (a : Maddr) :
    abs (paRemove o p a).1 = Spec.paRemove (abs o) p a := by
  simp only [paRemove, Spec.paRemove, Spec.paUse, lookup_abs o hnd p]
  cases hl : lookup p o with
  | none => cases Maddr.withP2p a p <;> simp
  | some l =>
    cases hw : Maddr.withP2p a p with
    | none => simp [abs_snoc, del_abs]
    | some a' => simp [abs_snoc, del_abs, List.filter_reverse]

theorem paGet_abs (o : PA) (hnd : (keys o).Nodup) (p : Peer) :
    abs (paGet o p).1 = Spec.paUse (abs o) p id ∧ (paGet o p).2 = (Spec.addrs (abs o) p).reverse := by
  simp only [paGet, Spec.paUse, Spec.addrs, lookup_abs o hnd p]
  cases hl : lookup p o with
  | none => simp
  | some l => simp [abs_snoc, del_abs]

/-! ### invariant preservation -/

theorem inv_del_snoc (c : Caps) (o : PA) (hi : PaInv c o) (p : Peer) (l l' : Inner)
    (hl : lookup p o = some l) (hlen : l'.length ≤ c.addr) : PaInv c (del p o ++ [(p, l')]) := by
  refine ⟨nodup_del_snoc o hi.nodup p l', ?_, ?_⟩
  · have := del_length_lt o p l hl
    have := hi.len
    simp; omega
  · intro e he
    simp only [List.mem_append, List.mem_singleton] at he
    rcases he with he | he
    · exact hi.inner e (List.mem_filter.1 he).1
    · subst he; exact hlen

theorem paRemove_inv (c : Caps) (o : PA) (hi : PaInv c o) (p : Peer) (a : Maddr) :
    PaInv c (paRemove o p a).1 := by
  simp only [paRemove]
  cases hl : lookup p o with
  | none => exact hi
  | some l =>
    have hmem := (lookup_eq_some_iff o hi.nodup p l).1 hl
    have hlen := hi.inner _ hmem
    cases hw : Maddr.withP2p a p with
    | none => exact inv_del_snoc c o hi p l l hl hlen
    | some a' =>
      exact inv_del_snoc c o hi p l _ hl (Nat.le_trans (List.length_filter_le _ _) hlen)

theorem paGet_inv (c : Caps) (o : PA) (hi : PaInv c o) (p : Peer) : PaInv c (paGet o p).1 := by
  simp only [paGet]
  cases hl : lookup p o with
  | none => exact hi
  | some l =>
    have hmem := (lookup_eq_some_iff o hi.nodup p l).1 hl
    exact inv_del_snoc c o hi p l l hl (hi.inner _ hmem)

theorem paAdd_inv (c : Caps) (hcap : 1 ≤ c.addr) (o : PA) (hi : PaInv c o) (p : Peer) (a : Maddr) :
    PaInv c (paAdd c o p a).1 := by
  simp only [paAdd]
  cases hw : Maddr.withP2p a p with
  | none => exact hi
  | some a' =>
    cases hl : lookup p o with
    | some l =>
      have hmem := (lookup_eq_some_iff o hi.nodup p l).1 hl
      exact inv_del_snoc c o hi p l _ hl (innerInsert_length _ hcap _ _ (hi.inner _ hmem))
    | none =>
      simp only [outerInsert]
      have hbase : PaInv { c with peers := c.peers + 1 } (del p o ++ [(p, (innerInsert c.addr [] a').1)]) := by
        refine ⟨nodup_del_snoc o hi.nodup p _, ?_, ?_⟩
        · have := del_length_le o p
          have := hi.len
          simp; omega
        · intro e he
          simp only [List.mem_append, List.mem_singleton] at he
          rcases he with he | he
          · exact hi.inner e (List.mem_filter.1 he).1
          · subst he; exact innerInsert_length _ hcap _ _ (by simp)
      by_cases hc : (del p o ++ [(p, (innerInsert c.addr [] a').1)]).length > c.peers
      · rw [if_pos hc]
        refine ⟨?_, ?_, ?_⟩
        · have := hbase.nodup
          simp only [keys] at this ⊢
          rw [List.map_drop]
          exact this.sublist (List.drop_sublist _ _)
        · have := hbase.len
          simp only [List.length_drop] at this ⊢
          omega
        · intro e he; exact hbase.inner e (List.mem_of_mem_drop he)
      · rw [if_neg hc]
        exact ⟨hbase.nodup, by omega, hbase.inner⟩

theorem paRemoveAll_inv (c : Caps) (p : Peer) (as : List Maddr) :
    ∀ o, PaInv c o → PaInv c (paRemoveAll o p as).1 := by
  induction as with
  | nil => intro o hi; exact hi
  | cons a as ih => intro o hi; exact ih _ (paRemove_inv c o hi p a)

theorem paRemoveAll_abs (p : Peer) (as : List Maddr) (c : Caps) :
    ∀ o, PaInv c o → abs (paRemoveAll o p as).1 = as.foldl (fun o a => Spec.paRemove o p a) (abs o) := by
  induction as with
  | nil => intro o _; rfl
  | cons a as ih =>
    intro o hi
    simp only [paRemoveAll, List.foldl_cons]
    rw [ih _ (paRemove_inv c o hi p a), paRemove_abs o hi.nodup p a]

theorem paStep_inv (c : Caps) (hcap : 1 ≤ c.addr) (o : PA) (hi : PaInv c o) (ev : Ev) :
    PaInv c (paStep c o ev).1 := by
  cases ev
  all_goals (try (exact hi))
  case newExtAddrOfPeer p a => exact paAdd_inv c hcap o hi p a
  case dialFailure p err =>
    cases p with
    | none => exact hi
    | some p =>
      cases err with
      | other => exact hi
      | transport as => exact paRemoveAll_inv c p as o hi

theorem paStep_abs (c : Caps) (o : PA) (hi : PaInv c o) (ev : Ev) :
    abs (paStep c o ev).1 = Spec.pa c (abs o) ev := by
  cases ev
  all_goals (try (rfl; done))
  case newExtAddrOfPeer p a => exact paAdd_abs c o hi p a
  case dialFailure p err =>
    cases p with
    | none => rfl
    | some p =>
      cases err with
      | other => rfl
      | transport as => exact paRemoveAll_abs p as c o hi


/-! ### `changed` is returned exactly when the per-peer address sets change -/

/-- the per-peer address sets of `o'` and `o` coincide -/
def SameAddrs (o o' : PA) : Prop := ∀ q x, x ∈ addrsOf o' q ↔ x ∈ addrsOf o q

/-- some address cached in `o` is no longer cached in `o'` -/
def Lost (o o' : PA) : Prop := ∃ q x, x ∈ addrsOf o q ∧ x ∉ addrsOf o' q

def Sub (o o' : PA) : Prop := ∀ q x, x ∈ addrsOf o' q → x ∈ addrsOf o q

theorem lookup_del (o : PA) (p q : Peer) : lookup q (del p o) = if q = p then none else lookup q o := by
  induction o with
  | nil => simp [del, lookup]
  | cons e t ih =>
    obtain ⟨k, m⟩ := e
    simp only [del, List.filter_cons] at ih ⊢
    by_cases hk : k = p
    · subst hk
      simp only [bne_self_eq_false, Bool.false_eq_true, ↓reduceIte, lookup]
      rw [ih]
      by_cases hq : q = k
      · subst hq; simp
      · have : ¬ k = q := fun h => hq h.symm
        simp [hq, this]
    · have hk' : (k != p) = true := by simp [hk]
      simp only [hk', ↓reduceIte, lookup]
      by_cases hkq : k = q
      · subst hkq; simp [hk]
      · simp only [hkq, ↓reduceIte]; exact ih

theorem lookup_append (xs ys : PA) (q : Peer) :
    lookup q (xs ++ ys) = (lookup q xs).or (lookup q ys) := by
  induction xs with
  | nil => simp [lookup]
  | cons e t ih =>
    obtain ⟨k, m⟩ := e
    simp only [List.cons_append, lookup]
    by_cases hk : k = q
    · simp [hk]
    · simp [hk, ih]

theorem addrsOf_del_snoc (o : PA) (p q : Peer) (l : Inner) :
    addrsOf (del p o ++ [(p, l)]) q = if q = p then l else addrsOf o q := by
  simp only [addrsOf, lookup_append, lookup_del, lookup]
  by_cases hq : q = p
  · subst hq; simp
  · have : ¬ p = q := fun h => hq h.symm
    simp [hq, this]

theorem paRemove_sub (o : PA) (p : Peer) (a : Maddr) : Sub o (paRemove o p a).1 := by
  intro q x
  simp only [paRemove]
  cases hl : lookup p o with
  | none => exact id
  | some l =>
    cases hw : Maddr.withP2p a p with
    | none =>
      simp only [addrsOf_del_snoc]
      by_cases hq : q = p
      · subst hq; simp [addrsOf, hl]
      · simp [hq]
    | some a' =>
      simp only [addrsOf_del_snoc]
      by_cases hq : q = p
      · subst hq; simp only [↓reduceIte, addrsOf, hl, Option.getD_some]
        intro h; exact (List.mem_filter.1 h).1
      · simp [hq]

theorem paRemove_flag (o : PA) (p : Peer) (a : Maddr) :
    (paRemove o p a).2 = true ↔ Lost o (paRemove o p a).1 := by
  simp only [paRemove, Lost]
  cases hl : lookup p o with
  | none => simp
  | some l =>
    cases hw : Maddr.withP2p a p with
    | none =>
      simp only [Bool.false_eq_true, false_iff, addrsOf_del_snoc]
      rintro ⟨q, x, h1, h2⟩
      by_cases hq : q = p
      · subst hq; simp [addrsOf, hl] at h1 h2; exact h2 h1
      · simp [hq] at h2; exact h2 h1
    | some a' =>
      simp only [addrsOf_del_snoc, List.contains_iff_mem]
      constructor
      · intro hm
        refine ⟨p, a', by simp [addrsOf, hl, hm], by simp⟩
      · rintro ⟨q, x, h1, h2⟩
        by_cases hq : q = p
        · subst hq
          simp only [addrsOf, hl, Option.getD_some] at h1
          simp only [↓reduceIte, List.mem_filter, h1, true_and, bne_iff_ne, ne_eq, Classical.not_not] at h2
          exact h2 ▸ h1
        · simp [hq] at h2; exact absurd h1 h2

theorem paRemoveAll_sub (p : Peer) (as : List Maddr) : ∀ o, Sub o (paRemoveAll o p as).1 := by
  induction as with
  | nil => intro o q x h; exact h
  | cons a as ih =>
    intro o q x h
    exact paRemove_sub o p a q x (ih _ q x h)

theorem paRemoveAll_flag (p : Peer) (as : List Maddr) :
    ∀ o, (paRemoveAll o p as).2 = true ↔ Lost o (paRemoveAll o p as).1 := by
  induction as with
  | nil => intro o; simp [paRemoveAll, Lost]
  | cons a as ih =>
    intro o
    simp only [paRemoveAll, Bool.or_eq_true]
    rw [paRemove_flag, ih]
    constructor
    · rintro (⟨q, x, h1, h2⟩ | ⟨q, x, h1, h2⟩)
      · exact ⟨q, x, h1, fun h => h2 (paRemoveAll_sub p as _ q x h)⟩
      · exact ⟨q, x, paRemove_sub o p a q x h1, h2⟩
    · rintro ⟨q, x, h1, h2⟩
      by_cases hx : x ∈ addrsOf (paRemove o p a).1 q
      · exact Or.inr ⟨q, x, hx, h2⟩
      · exact Or.inl ⟨q, x, h1, hx⟩

theorem lost_iff_not_same (o o' : PA) (hs : Sub o o') : Lost o o' ↔ ¬ SameAddrs o o' := by
  constructor
  · rintro ⟨q, x, h1, h2⟩ hsame; exact h2 ((hsame q x).2 h1)
  · intro hn
    apply Classical.byContradiction
    intro hl
    apply hn
    intro q x
    constructor
    · exact hs q x
    · intro h1
      apply Classical.byContradiction
      intro h2; exact hl ⟨q, x, h1, h2⟩

theorem last_survives {α : Type} (xs : List α) (x : α) (n : Nat) (hn : 1 ≤ n) :
    x ∈ (if (xs ++ [x]).length > n then (xs ++ [x]).drop 1 else xs ++ [x]) := by
  by_cases hc : (xs ++ [x]).length > n
  · rw [if_pos hc]
    cases xs with
    | nil => simp at hc; omega
    | cons y ys => simp
  · rw [if_neg hc]; simp

theorem paAdd_changed_iff (c : Caps) (ha : 1 ≤ c.addr) (hp : 1 ≤ c.peers) (o : PA) (hi : PaInv c o)
    (p : Peer) (a : Maddr) :
    (paAdd c o p a).2 = true ↔ ¬ SameAddrs o (paAdd c o p a).1 := by
  simp only [paAdd]
  cases hw : Maddr.withP2p a p with
  | none => simp [SameAddrs]
  | some a' =>
    cases hl : lookup p o with
    | some l =>
      have hmem := (lookup_eq_some_iff o hi.nodup p l).1 hl
      have hlen : l.length ≤ c.addr := hi.inner _ hmem
      simp only [innerInsert, Bool.not_eq_true', List.contains_eq_mem, decide_eq_false_iff_not]
      by_cases hm : a' ∈ l
      · simp only [hm, not_true_eq_false, false_iff, Classical.not_not]
        intro q x
        rw [addrsOf_del_snoc]
        by_cases hq : q = p
        · subst hq
          simp only [↓reduceIte, addrsOf, hl, Option.getD_some]
          have hlt : (l.filter (· != a') ++ [a']).length ≤ c.addr := by
            have : (l.filter (· != a')).length < l.length := by
              apply List.length_filter_lt_length_iff_exists.2
              exact ⟨a', hm, by simp⟩
            simp; omega
          rw [if_neg (by omega)]
          simp only [List.mem_append, List.mem_filter, bne_iff_ne, ne_eq, List.mem_singleton]
          constructor
          · rintro (h | h)
            · exact h.1
            · exact h ▸ hm
          · intro h
            by_cases hx : x = a'
            · exact Or.inr hx
            · exact Or.inl ⟨h, hx⟩
        · simp [hq]
      · simp only [hm, not_false_eq_true, true_iff]
        intro hsame
        have := (hsame p a').1 (by
          rw [addrsOf_del_snoc]; simp only [↓reduceIte]
          exact last_survives _ _ _ ha)
        simp only [addrsOf, hl, Option.getD_some] at this
        exact hm this
    | none =>
      simp only [true_iff]
      intro hsame
      have hnk : p ∉ keys (del p o) := by rw [keys_del]; simp
      have hnone : lookup p (del p o) = none := (lookup_none_iff _ _).2 hnk
      have hin : a' ∈ (innerInsert c.addr [] a').1 := by
        simp only [innerInsert, List.filter_nil, List.nil_append]
        have := last_survives ([] : List Maddr) a' c.addr ha
        simpa using this
      have hlook : lookup p (outerInsert c.peers o p (innerInsert c.addr [] a').1)
          = some (innerInsert c.addr [] a').1 := by
        simp only [outerInsert]
        by_cases hc : (del p o ++ [(p, (innerInsert c.addr [] a').1)]).length > c.peers
        · rw [if_pos hc]
          cases hd : del p o with
          | nil => rw [hd] at hc; simp at hc; omega
          | cons y ys =>
            simp only [List.cons_append, List.drop_succ_cons, List.drop_zero]
            rw [lookup_append]
            have : lookup p ys = none := by
              rw [lookup_none_iff]
              intro hk
              apply hnk
              rw [hd]; simp only [keys, List.map_cons, List.mem_cons]; exact Or.inr hk
            simp [this, lookup]
        · rw [if_neg hc, lookup_append, hnone]; simp [lookup]
      have := (hsame p a').1 (by simp only [addrsOf, hlook, Option.getD_some]; exact hin)
      simp [addrsOf, hl] at this

/-- **changed-iff** for the repaired `PeerAddresses::on_swarm_event` -/
theorem paStep_changed_iff (c : Caps) (ha : 1 ≤ c.addr) (hp : 1 ≤ c.peers) (o : PA) (hi : PaInv c o)
    (ev : Ev) : (paStep c o ev).2 = true ↔ ¬ SameAddrs o (paStep c o ev).1 := by
  cases ev
  all_goals (try (simp [paStep, SameAddrs]; done))
  case newExtAddrOfPeer p a => exact paAdd_changed_iff c ha hp o hi p a
  case dialFailure p err =>
    cases p with
    | none => simp [paStep, SameAddrs]
    | some p =>
      cases err with
      | other => simp [paStep, SameAddrs]
      | transport as =>
        simp only [paStep, paDialFailure]
        rw [paRemoveAll_flag, lost_iff_not_same _ _ (paRemoveAll_sub p as o)]

end C12
