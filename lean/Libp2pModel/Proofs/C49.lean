import Libp2pModel.Model.C49
/-!
# C49 — helper lemmas: what one `forward_data` call does
-/
namespace C49

theorem read_spec (cap : Nat) (hcap : 0 < cap) (e : End) :
    (e.read cap).2.out = e.out ∧ (e.read cap).2.closes = e.closes ∧
    match (e.read cap).1 with
    | .data bs => bs ++ (e.read cap).2.inp = e.inp ∧ bs.length ≤ cap ∧ (bs = [] → e.inp = [])
    | _ => (e.read cap).2.inp = e.inp := by
  unfold End.read
  split
  · refine ⟨rfl, rfl, ?_⟩
    simp only [List.take_append_drop, List.length_take, true_and]
    refine ⟨by omega, ?_⟩
    intro h
    have : min cap e.inp.length = 0 ∨ e.inp = [] := by
      rcases List.take_eq_nil_iff.1 h with h | h
      · exact Or.inl h
      · exact Or.inr h
    rcases this with h | h
    · have : e.inp.length = 0 := by omega
      exact List.length_eq_zero_iff.1 this
    · exact h
  · exact ⟨rfl, rfl, rfl⟩
  · exact ⟨rfl, rfl, rfl⟩
  · rename_i k rs _
    refine ⟨rfl, rfl, ?_⟩
    simp only [List.take_append_drop, List.length_take, true_and]
    refine ⟨by omega, ?_⟩
    intro h
    rcases List.take_eq_nil_iff.1 h with h | h
    · have : e.inp.length = 0 := by omega
      exact List.length_eq_zero_iff.1 this
    · exact h

theorem flush_spec (e : End) :
    e.flush.2.inp = e.inp ∧ e.flush.2.out = e.out ∧ e.flush.2.closes = e.closes := by
  unfold End.flush; split <;> exact ⟨rfl, rfl, rfl⟩

theorem close_spec (e : End) :
    e.close.2.inp = e.inp ∧ e.close.2.out = e.out ∧ e.closes ≤ e.close.2.closes ∧
    (e.close.1 = .ready → e.close.2.closes = e.closes + 1) := by
  unfold End.close
  split
  · exact ⟨rfl, rfl, Nat.le_succ _, fun _ => rfl⟩
  · exact ⟨rfl, rfl, Nat.le_succ _, fun _ => rfl⟩
  · rename_i hnr _
    exact ⟨rfl, rfl, Nat.le_refl _, fun h => absurd h hnr⟩

theorem write_spec (e : End) (data : List Nat) :
    (e.write data).2.inp = e.inp ∧ (e.write data).2.closes = e.closes ∧
    match (e.write data).1 with
    | .wrote n => n ≤ data.length ∧ (e.write data).2.out = e.out ++ data.take n
    | _ => (e.write data).2.out = e.out := by
  unfold End.write
  split
  · refine ⟨rfl, rfl, Nat.le_refl _, ?_⟩
    simp
  · exact ⟨rfl, rfl, rfl⟩
  · exact ⟨rfl, rfl, rfl⟩
  · exact ⟨rfl, rfl, Nat.min_le_right _ _, rfl⟩

/-- the contract of one `forward_data(src → dst)` call -/
structure FwdOK (cap : Nat) (buf : List Nat) (src dst : End) (buf' : List Nat) (src' dst' : End) (r : FRes) :
    Prop where
  /-- nothing is lost, duplicated or reordered: written ++ buffered ++ still to read is constant -/
  conserve : dst'.out ++ buf' ++ src'.inp = dst.out ++ buf ++ src.inp
  grow : ∃ w, dst'.out = dst.out ++ w ∧ w.length = r.bytes
  srcOut : src'.out = src.out
  dstInp : dst'.inp = dst.inp
  srcCloses : src'.closes = src.closes
  dstCloses : dst.closes ≤ dst'.closes
  bufCap : buf'.length ≤ cap
  bytesCap : r.bytes ≤ cap
  /-- `Ok(0)` = source at EOF with an empty buffer, destination flushed and closed -/
  done : r = .ok 0 → buf' = [] ∧ src'.inp = [] ∧ dst'.closes = dst.closes + 1
  meas : src'.inp.length + buf'.length + r.bytes = src.inp.length + buf.length

theorem deliver_spec (cap : Nat) (buf : List Nat) (src dst : End) (hbuf : buf.length ≤ cap)
    (heof : buf = [] → src.inp = []) :
    FwdOK cap buf src dst (deliver buf src dst).1 (deliver buf src dst).2.1 (deliver buf src dst).2.2.1
      (deliver buf src dst).2.2.2 := by
  unfold deliver
  by_cases hb : buf.isEmpty = true
  · have hnil : buf = [] := List.isEmpty_iff.1 hb
    subst hnil
    have hinp := heof rfl
    simp only [List.isEmpty_nil, ↓reduceIte]
    obtain ⟨f1, f2, f3⟩ := flush_spec dst
    cases hf : dst.flush with
    | mk fe dst1 =>
      rw [hf] at f1 f2 f3
      simp only at f1 f2 f3
      cases fe with
      | pending =>
        try dsimp only
        exact ⟨by simp [f2], ⟨[], by simp [f2], rfl⟩, rfl, f1, rfl, by omega, by simp, by simp [FRes.bytes],
          by simp, by simp [FRes.bytes]⟩
      | err =>
        try dsimp only
        exact ⟨by simp [f2], ⟨[], by simp [f2], rfl⟩, rfl, f1, rfl, by omega, by simp, by simp [FRes.bytes],
          by simp, by simp [FRes.bytes]⟩
      | ready =>
        simp only
        obtain ⟨c1, c2, c3, c4⟩ := close_spec dst1
        cases hc : dst1.close with
        | mk ce dst2 =>
          rw [hc] at c1 c2 c3 c4
          simp only at c1 c2 c3 c4
          cases ce with
          | pending =>
            try dsimp only
            exact ⟨by simp [f2, c2], ⟨[], by simp [f2, c2], rfl⟩, rfl, by rw [c1, f1], rfl, by omega, by simp,
              by simp [FRes.bytes], by simp, by simp [FRes.bytes]⟩
          | err =>
            try dsimp only
            exact ⟨by simp [f2, c2], ⟨[], by simp [f2, c2], rfl⟩, rfl, by rw [c1, f1], rfl, by omega, by simp,
              by simp [FRes.bytes], by simp, by simp [FRes.bytes]⟩
          | ready =>
            try dsimp only
            exact ⟨by simp [f2, c2], ⟨[], by simp [f2, c2], rfl⟩, rfl, by rw [c1, f1], rfl, by omega, by simp,
              by simp [FRes.bytes], fun _ => ⟨rfl, hinp, by rw [c4 rfl, f3]⟩, by simp [FRes.bytes]⟩
  · simp only [hb, Bool.false_eq_true, ↓reduceIte]
    obtain ⟨w1, w2, w3⟩ := write_spec dst buf
    cases hw : dst.write buf with
    | mk we dst1 =>
      rw [hw] at w1 w2 w3
      simp only at w1 w2 w3
      cases we with
      | pending =>
        try dsimp only
        exact ⟨by simp [w3], ⟨[], by simp [w3], rfl⟩, rfl, w1, rfl, by omega, hbuf, by simp [FRes.bytes],
          by simp, by simp [FRes.bytes]⟩
      | err =>
        try dsimp only
        exact ⟨by simp [w3], ⟨[], by simp [w3], rfl⟩, rfl, w1, rfl, by omega, hbuf, by simp [FRes.bytes],
          by simp, by simp [FRes.bytes]⟩
      | wrote n =>
        simp only at w3 ⊢
        obtain ⟨hn, hout⟩ := w3
        by_cases hn0 : n = 0
        · subst hn0
          simp only [↓reduceIte]
          try dsimp only
          exact ⟨by simp [hout], ⟨[], by simp [hout], rfl⟩, rfl, w1, rfl, by omega, hbuf, by simp [FRes.bytes],
            by simp, by simp [FRes.bytes]⟩
        · simp only [hn0, ↓reduceIte]
          try dsimp only
          refine ⟨?_, ⟨buf.take n, hout, by simp [FRes.bytes]; omega⟩, rfl, w1, rfl, by omega, ?_, ?_, ?_, ?_⟩
          · rw [hout]; simp [List.append_assoc]
          · simp only [List.length_drop]; omega
          · simp only [FRes.bytes]; omega
          · intro h; simp at h; exact absurd h hn0
          · simp only [List.length_drop, FRes.bytes]; omega

theorem forward_spec (cap : Nat) (hcap : 0 < cap) (buf : List Nat) (src dst : End) (hbuf : buf.length ≤ cap) :
    FwdOK cap buf src dst (forward cap buf src dst).1 (forward cap buf src dst).2.1
      (forward cap buf src dst).2.2.1 (forward cap buf src dst).2.2.2 := by
  unfold forward
  by_cases hb : buf.isEmpty = true
  · have hnil : buf = [] := List.isEmpty_iff.1 hb
    subst hnil
    simp only [List.isEmpty_nil, ↓reduceIte]
    obtain ⟨r1, r2, r3⟩ := read_spec cap hcap src
    cases hr : src.read cap with
    | mk re src1 =>
      rw [hr] at r1 r2 r3
      simp only at r1 r2 r3
      cases re with
      | pending =>
        simp only at r3 ⊢
        obtain ⟨f1, f2, f3⟩ := flush_spec dst
        cases hf : dst.flush with
        | mk fe dst1 =>
          rw [hf] at f1 f2 f3
          simp only at f1 f2 f3
          cases fe <;>
            exact ⟨by simp [f2, r3], ⟨[], by simp [f2], rfl⟩, r1, f1, r2, by dsimp only; omega, by simp,
              by simp [FRes.bytes], by simp, by simp [FRes.bytes, r3]⟩
      | err =>
        simp only at r3 ⊢
        try dsimp only
        exact ⟨by simp [r3], ⟨[], by simp, rfl⟩, r1, rfl, r2, Nat.le_refl _, by simp, by simp [FRes.bytes],
          by simp, by simp [FRes.bytes, r3]⟩
      | data bs =>
        simp only at r3 ⊢
        obtain ⟨h1, h2, h3⟩ := r3
        have hd := deliver_spec cap bs src1 dst h2 (by
          intro hbs; have := h3 hbs; rw [hbs] at h1; simpa [this] using h1)
        try dsimp only
        refine ⟨?_, hd.grow, by rw [hd.srcOut, r1], hd.dstInp, by rw [hd.srcCloses, r2], hd.dstCloses,
          hd.bufCap, hd.bytesCap, hd.done, ?_⟩
        · rw [hd.conserve, ← h1]; simp [List.append_assoc]
        · have := hd.meas
          rw [← h1]
          simp only [List.length_append, List.length_nil] at this ⊢
          omega
  · simp only [hb, Bool.false_eq_true, ↓reduceIte]
    have hne : buf ≠ [] := fun h => hb (by simp [h])
    exact deliver_spec cap buf src dst hbuf (fun h => absurd h hne)

end C49
