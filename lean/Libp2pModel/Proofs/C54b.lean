import Libp2pModel.Proofs.C54
/-!
# C54 — simulation between the model and the set-level reference `refOp` used by the Spec
-/
set_option linter.unusedSimpArgs false
set_option linter.unusedVariables false

namespace C54
open Lru

/-! ## custom-data operations do not touch addresses -/

theorem takeCustom_spec {s : State} (h : Inv s) (p : Peer) :
    let x := takeCustom s p
    Inv x.1 ∧ x.1.cfg = s.cfg ∧ x.1.pending = s.pending ∧ (∀ q b, flag x.1 q b = flag s q b) := by
  have h' := h
  obtain ⟨hwf, hcap, hlen, hrecs, hpc, hrc⟩ := h
  unfold takeCustom
  cases hp : s.records.peek p with
  | none =>
    rw [getMut_none hp]
    exact ⟨h', rfl, rfl, fun _ _ => rfl⟩
  | some r =>
    rw [getMut_some hp]
    have hr : RecOk s.cfg r := Cache.allV_of_peek _ hrecs hp
    have hr' : RecOk s.cfg { r with custom := none } := ⟨hr.wf, hr.cap, hr.len⟩
    obtain ⟨twf, tcap, tlen, tall, tpeek⟩ := inv_touch h' hp hr'
    have hf : ∀ b, flag s p b = r.addrs.peek b := by intro b; simp [flag, hp]
    simp only
    by_cases hc : r.addrs.isEmpty = true
    · simp only [hc, ↓reduceIte]
      refine ⟨⟨Cache.wf_remove _ twf _, by simp [hcap], ?_, Cache.allV_remove _ tall _, hpc, hrc⟩,
        by first | trivial | rfl, by first | trivial | rfl, ?_⟩
      · have := Cache.length_remove_le ((s.records.upsertBack p r).upsertBack p { r with custom := none }) p
        simp only; omega
      · intro q b
        show ((((s.records.upsertBack p r).upsertBack p { r with custom := none }).remove p).1.peek q).bind
          (fun r => r.addrs.peek b) = _
        rw [Cache.peek_remove, tpeek]
        by_cases hq : q = p
        · subst hq
          simp only [↓reduceIte, Option.bind_none, hf]
          exact (Cache.peek_eq_none_of_isEmpty _ hc b).symm
        · simp [hq, flag]
    · simp only [hc, Bool.false_eq_true, ↓reduceIte]
      refine ⟨⟨twf, by simp [hcap], tlen, tall, hpc, hrc⟩, by first | trivial | rfl, by first | trivial | rfl, ?_⟩
      intro q b
      show (((s.records.upsertBack p r).upsertBack p { r with custom := none }).peek q).bind
        (fun r => r.addrs.peek b) = _
      rw [tpeek]
      by_cases hq : q = p
      · subst hq; simp [hf]
      · simp [hq, flag]

theorem insertCustom_spec {s : State} (h : Inv s) (p : Peer) (d : Nat) :
    let x := insertCustom s p d
    Inv x ∧ x.cfg = s.cfg ∧ x.pending = s.pending ∧
    (∀ q b, flag x q b = none ∨ flag x q b = flag s q b) ∧
    ((s.records.peek p).isSome → ∀ q b, flag x q b = flag s q b) := by
  have h' := h
  obtain ⟨hwf, hcap, hlen, hrecs, hpc, hrc⟩ := h
  unfold insertCustom
  cases hp : s.records.peek p with
  | some r =>
    rw [getMut_some hp]
    have hr : RecOk s.cfg r := Cache.allV_of_peek _ hrecs hp
    have hr' : RecOk s.cfg { r with custom := some d } := ⟨hr.wf, hr.cap, hr.len⟩
    obtain ⟨twf, tcap, tlen, tall, tpeek⟩ := inv_touch h' hp hr'
    have hf : ∀ b, flag s p b = r.addrs.peek b := by intro b; simp [flag, hp]
    have key : ∀ q b, flag { s with records := (s.records.upsertBack p r).upsertBack p { r with custom := some d } } q b = flag s q b := by
      intro q b
      show (((s.records.upsertBack p r).upsertBack p { r with custom := some d }).peek q).bind
        (fun r => r.addrs.peek b) = _
      rw [tpeek]
      by_cases hq : q = p
      · subst hq; simp [hf]
      · simp [hq, flag]
    exact ⟨⟨twf, by simp [hcap], tlen, tall, hpc, hrc⟩, rfl, rfl, fun q b => Or.inr (key q b), fun _ => key⟩
  | none =>
    rw [getMut_none hp]
    simp only
    have hnew : RecOk s.cfg ⟨Cache.new s.cfg.recCap, some d⟩ :=
      ⟨Cache.wf_new _, rfl, by simp⟩
    have hnone : ∀ b, (⟨Cache.new s.cfg.recCap, some d⟩ : Rec).addrs.peek b = none := fun b => rfl
    generalize (⟨Cache.new s.cfg.recCap, some d⟩ : Rec) = nr at hnew hnone ⊢
    have hwf1 := Cache.wf_upsertBack _ hwf p nr
    refine ⟨⟨Cache.wf_insert _ hwf _ _, by simp [hcap], ?_, Cache.allV_insert _ hrecs _ hnew, hpc, hrc⟩,
      by first | trivial | rfl, by first | trivial | rfl, ?_, by simp⟩
    · have := Cache.length_insert_le_cap s.records p nr (by omega)
      show (s.records.insert p nr).1.len ≤ s.cfg.peerCap
      omega
    · intro q b
      show ((s.records.upsertBack p nr).evictIfOver.peek q).bind (fun r => r.addrs.peek b) = none ∨
        ((s.records.upsertBack p nr).evictIfOver.peek q).bind (fun r => r.addrs.peek b) = flag s q b
      simp only [Cache.peek_evictIfOver _ hwf1, Cache.peek_upsertBack]
      by_cases hev : (s.records.upsertBack p nr).len > (s.records.upsertBack p nr).cap ∧
          (s.records.upsertBack p nr).lruKey = some q
      · left; rw [if_pos hev]; rfl
      · rw [if_neg hev]
        by_cases hq : q = p
        · left; subst hq; simp [hnone]
        · right; simp [hq, flag]

theorem getCustomMut_spec {s : State} (h : Inv s) (p : Peer) :
    let x : State := { s with records := (s.records.getMut p).1 }
    Inv x ∧ (∀ q b, flag x q b = flag s q b) := by
  obtain ⟨hwf, hcap, hlen, hrecs, hpc, hrc⟩ := h
  refine ⟨⟨Cache.wf_getMut _ hwf _, by simp [hcap], ?_, Cache.allV_getMut _ hrecs _, hpc, hrc⟩, ?_⟩
  · have := Cache.length_getMut_le s.records p
    simp only; omega
  · intro q b
    show ((s.records.getMut p).1.peek q).bind _ = _
    rw [Cache.peek_getMut]; rfl

/-! ## relations between a model state and the reference's view -/

/-- `cur` lists exactly the stored pairs -/
def Cur (s : State) (cur : List Pair) : Prop := ∀ q b, (q, b) ∈ cur ↔ (flag s q b).isSome
/-- `perm` lists exactly the permanent pairs -/
def PermRel (s : State) (perm : List Pair) : Prop := ∀ q b, (q, b) ∈ perm ↔ flag s q b = some true

theorem cur_pairs_dump {s : State} (h : Inv s) : Cur s (pairsOf (dump s)) :=
  fun q b => mem_pairs_dump s h.wf q b

theorem contains_iff {l : List Pair} {x : Pair} : l.contains x = true ↔ x ∈ l := by
  simp

/-- a non-forced removal, model vs reference -/
theorem sim_remove_nf {s : State} (h : Inv s) {perm : List Pair} (hperm : PermRel s perm)
    {r : Ref} (hcur : Cur s r.cur) {base : List Event} (hpend : s.pending = base ++ r.evs)
    (p : Peer) (a : Addr) :
    let x := removeInner s p a false
    let y := Ref.remove perm r p a false
    Inv x.1 ∧ x.1.cfg = s.cfg ∧ PermRel x.1 perm ∧ Cur x.1 y.1.cur ∧
    x.1.pending = base ++ y.1.evs ∧ x.2 = y.2 ∧ y.1.newKey = r.newKey := by
  obtain ⟨i1, i2, i3, i4, i5⟩ := removeInner_spec h p a false
  have hc := hcur p a
  have hpm := hperm p a
  simp only
  cases hf : flag s p a with
  | none =>
    rw [hf] at i3 hc hpm
    have hy : Ref.remove perm r p a false = (r, false) := by
      unfold Ref.remove
      have : (p, a) ∉ r.cur := fun hh => absurd (hc.1 hh) (by simp)
      simp [this]
    rw [hy]
    simp only at i3
    rw [i3] at i4 i5
    refine ⟨i1, i2, ?_, ?_, ?_, i3, rfl⟩
    · intro q b; rw [i5]; simpa using hperm q b
    · intro q b; rw [i5]; simpa using hcur q b
    · simpa [hpend] using i4
  | some f =>
    rw [hf] at i3 hc hpm
    have hmem : (p, a) ∈ r.cur := hc.2 (by simp)
    cases f with
    | true =>
      have hpc : (p, a) ∈ perm := hpm.2 rfl
      have hy : Ref.remove perm r p a false = (r, false) := by
        unfold Ref.remove; simp [hmem, hpc]
      rw [hy]
      simp only [Bool.false_or, Bool.not_true] at i3
      rw [i3] at i4 i5
      refine ⟨i1, i2, ?_, ?_, ?_, i3, rfl⟩
      · intro q b; rw [i5]; simpa using hperm q b
      · intro q b; rw [i5]; simpa using hcur q b
      · simpa [hpend] using i4
    | false =>
      have hpc : (p, a) ∉ perm := fun hh => absurd (hpm.1 hh) (by simp)
      have hy : Ref.remove perm r p a false =
          ({ r with cur := r.cur.filter (fun x => x != (p, a)), evs := r.evs ++ [Event.removed p a] }, true) := by
        unfold Ref.remove; simp [hmem, hpc]
      rw [hy]
      simp only [Bool.false_or, Bool.not_false] at i3
      rw [i3] at i4 i5
      refine ⟨i1, i2, ?_, ?_, ?_, i3, rfl⟩
      · intro q b
        rw [i5]
        by_cases hqb : q = p ∧ b = a
        · obtain ⟨rfl, rfl⟩ := hqb
          simp only [and_self, ↓reduceIte]
          constructor
          · intro hm; have := (hperm q b).1 hm; rw [hf] at this; cases this
          · intro hm; cases hm
        · simp only [hqb, false_and, ↓reduceIte]; exact hperm q b
      · intro q b
        rw [i5]
        simp only [List.mem_filter, bne_iff_ne, ne_eq, Prod.mk.injEq]
        by_cases hqb : q = p ∧ b = a
        · simp [hqb]
        · simp only [hqb, not_false_eq_true, and_true, false_and, ↓reduceIte]; exact hcur q b
      · simp [i4, hpend]

theorem sim_removeMany {perm : List Pair} {base : List Event} (p : Peer) (l : List Addr) :
    ∀ {s : State} (h : Inv s) (hperm : PermRel s perm) {r : Ref} (hcur : Cur s r.cur)
      (hpend : s.pending = base ++ r.evs),
    let x := removeMany s p l
    let y := Ref.removeMany perm r p l
    Inv x ∧ x.cfg = s.cfg ∧ PermRel x perm ∧ Cur x y.cur ∧ x.pending = base ++ y.evs ∧ y.newKey = r.newKey := by
  induction l with
  | nil => intro s h hperm r hcur hpend; exact ⟨h, rfl, hperm, hcur, hpend, rfl⟩
  | cons f t ih =>
    intro s h hperm r hcur hpend
    obtain ⟨j1, j2, j3, j4, j5, j6, j7⟩ := sim_remove_nf h hperm hcur hpend p f
    obtain ⟨k1, k2, k3, k4, k5, k6⟩ := ih j1 j3 j4 j5
    simp only [removeMany, Ref.removeMany, List.foldl_cons] at *
    exact ⟨k1, k2.trans j2, k3, k4, k5, k6.trans j7⟩

/-- the final `add_address_inner` of an op, model vs reference -/
theorem sim_add {s : State} (h : Inv s) {perm : List Pair} (hperm : PermRel s perm)
    {r : Ref} (hcur : Cur s r.cur) {base : List Event} (hpend : s.pending = base ++ r.evs)
    (p : Peer) (a : Addr) (isPerm : Bool) :
    let x := addInner true s p a isPerm
    let y := Ref.add r p a isPerm
    Inv x.1 ∧ x.1.cfg = s.cfg ∧ x.2 = y.2 ∧ x.1.pending = base ++ y.1.evs ∧
    (∀ q b, (flag x.1 q b).isSome → (q, b) ∈ y.1.cur) ∧
    (y.1.newKey = false → y.2 = false) ∧
    (y.2 = false → y.1.newKey = r.newKey ∧ ∀ q b, (q, b) ∈ y.1.cur → (flag x.1 q b).isSome) ∧
    (∀ q b, flag x.1 q b = some true ↔
      ((q, b) ∈ perm ∨ (isPerm = true ∧ q = p ∧ b = a)) ∧ (flag x.1 q b).isSome) := by
  obtain ⟨i1, i2, i3, i4, i5, i6, i7, _⟩ := addInner_spec h p a isPerm
  have hc := hcur p a
  simp only
  have hy : Ref.add r p a isPerm =
      if (flag s p a).isSome then (r, false)
      else ({ cur := (p, a) :: r.cur, evs := r.evs ++ [Event.added p a isPerm], newKey := true }, true) := by
    unfold Ref.add
    by_cases hm : (p, a) ∈ r.cur
    · simp [hm, hc.1 hm]
    · have : ¬ (flag s p a).isSome = true := fun hh => hm (hc.2 hh)
      simp [hm, this]
  have hperm' : ∀ q b, flag (addInner true s p a isPerm).1 q b = some true ↔
      ((q, b) ∈ perm ∨ (isPerm = true ∧ q = p ∧ b = a)) ∧ (flag (addInner true s p a isPerm).1 q b).isSome := by
    intro q b
    by_cases hqb : (q, b) = (p, a)
    · obtain ⟨rfl, rfl⟩ := Prod.mk.inj hqb
      rw [i5]
      have := hperm q b
      cases hf : flag s q b with
      | none =>
        rw [hf] at this
        cases isPerm <;> simp [this]
      | some f =>
        rw [hf] at this
        cases isPerm <;> cases f <;> simp_all
    · have hne : ¬ (q = p ∧ b = a) := fun ⟨e1, e2⟩ => hqb (by rw [e1, e2])
      rcases i6 q b hqb with hn | he
      · simp [hn]
      · rw [he]
        have := hperm q b
        constructor
        · intro ht; exact ⟨Or.inl (this.2 ht), by simp [ht]⟩
        · rintro ⟨hm | hm, _⟩
          · exact this.1 hm
          · exact absurd ⟨hm.2.1, hm.2.2⟩ hne
  cases hs : (flag s p a).isSome with
  | true =>
    rw [hy, hs]
    simp only [↓reduceIte]
    have hnotnew : (addInner true s p a isPerm).2 = false := by
      rw [i3]; cases hh : flag s p a <;> simp_all
    have hsame := i7 hnotnew
    rw [hnotnew] at i4
    refine ⟨i1, i2, hnotnew, by simpa [hpend] using i4, ?_, fun _ => (by first | trivial | rfl), fun _ => ⟨by first | trivial | rfl, ?_⟩, hperm'⟩
    · intro q b hsome
      by_cases hqb : (q, b) = (p, a)
      · rw [hqb]; exact hc.2 hs
      · rw [hsame q b hqb] at hsome; exact (hcur q b).2 hsome
    · intro q b hm
      by_cases hqb : (q, b) = (p, a)
      · obtain ⟨rfl, rfl⟩ := Prod.mk.inj hqb; rw [i5]; rfl
      · rw [hsame q b hqb]; exact (hcur q b).1 hm
  | false =>
    rw [hy, hs]
    simp only [Bool.false_eq_true, ↓reduceIte]
    have hnew : (addInner true s p a isPerm).2 = true := by
      rw [i3]; cases hh : flag s p a <;> simp_all
    rw [hnew] at i4
    refine ⟨i1, i2, hnew, by simp [i4, hpend], ?_, by simp, by simp, hperm'⟩
    intro q b hsome
    by_cases hqb : (q, b) = (p, a)
    · rw [hqb]; simp
    · rcases i6 q b hqb with hn | he
      · rw [hn] at hsome; cases hsome
      · rw [he] at hsome
        exact List.mem_cons_of_mem _ ((hcur q b).2 hsome)

end C54
