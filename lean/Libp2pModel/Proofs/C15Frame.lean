import Libp2pModel.Common.Mss
/-!
# C15/C14 helper lemmas: the `LengthDelimited` frame reader is a `Good` decoder and inverts
`start_send`
-/
namespace C15
open Mss

theorem frameDec_progress : ∀ (b : Bytes) (f : Frame) (r : Bytes),
    frameDec b = some (f, r) → r.length < b.length := by
  intro b f r h
  unfold frameDec at h
  split at h
  · simp at h
  · rename_i b0 r0
    split at h
    · split at h
      · split at h
        · simp at h; obtain ⟨_, rfl⟩ := h; simp; omega
        · simp at h
      · simp at h; obtain ⟨_, rfl⟩ := h; simp
    · split at h
      · simp at h
      · rename_i b1 r1
        split at h
        · split at h
          · simp at h; obtain ⟨_, rfl⟩ := h; simp; omega
          · simp only at h
            split at h
            · simp at h; obtain ⟨_, rfl⟩ := h; simp; omega
            · simp at h
        · simp at h; obtain ⟨_, rfl⟩ := h; simp; omega

theorem frameDec_stable : ∀ (b : Bytes) (f : Frame) (r x : Bytes),
    frameDec b = some (f, r) → frameDec (b ++ x) = some (f, r ++ x) := by
  intro b f r x h
  unfold frameDec at h
  split at h
  · simp at h
  · rename_i b0 r0
    simp only [List.cons_append]
    unfold frameDec
    split at h
    · rename_i hb0
      simp only [hb0, ↓reduceIte]
      split at h
      · rename_i hge
        simp only [hge, ↓reduceIte]
        split at h
        · rename_i hle
          simp at h; obtain ⟨rfl, rfl⟩ := h
          have : b0 ≤ (r0 ++ x).length := by simp; omega
          simp only [this, ↓reduceIte, List.take_append_of_le_length hle,
            List.drop_append_of_le_length hle]
        · simp at h
      · rename_i hge
        simp at h; obtain ⟨rfl, rfl⟩ := h
        simp [hge]
    · rename_i hb0
      simp only [hb0, ↓reduceIte]
      split at h
      · simp at h
      · rename_i b1 r1
        simp only [List.cons_append]
        split at h
        · rename_i hb1
          simp only [hb1, ↓reduceIte]
          split at h
          · rename_i hz
            simp at h; obtain ⟨rfl, rfl⟩ := h
            simp [hz]
          · rename_i hz
            simp only [hz, ↓reduceIte]
            simp only at h
            split at h
            · rename_i hle
              simp at h; obtain ⟨rfl, rfl⟩ := h
              have : (b0 % 128 ||| b1 <<< 7) ≤ (r1 ++ x).length := by simp; omega
              simp only [this, ↓reduceIte, List.take_append_of_le_length hle,
                List.drop_append_of_le_length hle]
            · simp at h
        · rename_i hb1
          simp at h; obtain ⟨rfl, rfl⟩ := h
          simp [hb1]

/-- The frame reader is a well-behaved (`Good`) one-frame decoder. -/
theorem frameDec_good : Framed.Good frameDec :=
  ⟨frameDec_progress, frameDec_stable⟩

/-- the two-byte length prefix decodes back: `(lo | 0x80, hi)` ↦ `lo | hi << 7` -/
theorem prefix2 (n : Nat) (_h : 128 ≤ n) (_h2 : n < 16384) :
    ((n % 128 + 128) % 128 ||| (n / 128) <<< 7) = n := by
  have e : (n % 128 + 128) % 128 = n % 128 := by omega
  rw [e, Nat.or_comm, ← Nat.shiftLeft_add_eq_or_of_lt (by omega : n % 128 < 2 ^ 7), Nat.shiftLeft_eq]
  have := Nat.div_add_mod n 128
  omega

theorem encode_small (n : Nat) (h : n < 128) : Varint.encode n = [n] := by
  unfold Varint.encode; simp [h]

theorem encode_two (n : Nat) (h : 128 ≤ n) (h2 : n < 16384) :
    Varint.encode n = [n % 128 + 128, n / 128] := by
  have hn : ¬ n < 128 := by omega
  have : n / 128 < 128 := by omega
  rw [Varint.encode]; simp only [hn, ↓reduceDIte]
  rw [encode_small _ this]

theorem MAX_FRAME_SIZE_eq : MAX_FRAME_SIZE = 16383 := by decide

/-- **Frame round trip**: what `start_send` appends for an item of at most `MAX_FRAME_SIZE`
bytes is a prefix of at most two bytes followed by the item, and the reader, given these bytes
followed by anything, yields exactly the item and leaves the rest untouched. -/
theorem frame_roundtrip (item rest : Bytes) (h : item.length ≤ MAX_FRAME_SIZE) :
    ∃ pre, startSend item = .ok (pre ++ item) ∧ pre.length ≤ 2 ∧ 0 < pre.length ∧
      frameDec (pre ++ item ++ rest) = some (.data item, rest) := by
  rw [MAX_FRAME_SIZE_eq] at h
  refine ⟨Varint.encode item.length, ?_, ?_, ?_, ?_⟩
  · simp [startSend, MAX_FRAME_SIZE_eq, h]
  · by_cases hs : item.length < 128
    · rw [encode_small _ hs]; simp
    · rw [encode_two _ (by omega) (by omega)]; simp
  · exact Varint.len_pos _
  · by_cases hs : item.length < 128
    · rw [encode_small _ hs]
      simp only [List.cons_append, List.nil_append, frameDec, hs, ↓reduceIte]
      by_cases h0 : item.length ≥ 1
      · have : item.length ≤ (item ++ rest).length := by simp
        simp [h0]
      · have : item = [] := by cases item <;> simp_all
        subst this; simp
    · have hn : ¬ (item.length % 128 + 128 < 128) := by omega
      have hd : item.length / 128 < 128 := by omega
      have hd0 : item.length / 128 ≠ 0 := by omega
      rw [encode_two _ (by omega) (by omega)]
      simp only [List.cons_append, List.nil_append, frameDec, hn, hd, hd0, ↓reduceIte,
        prefix2 item.length (by omega) (by omega)]
      have : item.length ≤ (item ++ rest).length := by simp
      simp

/-- `start_send` refuses anything larger. -/
theorem send_oversize (item : Bytes) (h : MAX_FRAME_SIZE < item.length) :
    startSend item = .error .sendTooLarge := by
  have : ¬ item.length ≤ MAX_FRAME_SIZE := by omega
  simp [startSend, this]

end C15
