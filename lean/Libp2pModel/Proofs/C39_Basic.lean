import Libp2pModel.Model.C39
/-!
# C39 — basic lemmas about the sorted peer list (`find`, `setSt`, `ins`) and its counters
-/
namespace C39

def keys (cl : List (Nat × PState)) : List Nat := cl.map (·.1)

/-- strictly ascending in the distance rank -/
def Sorted (cl : List (Nat × PState)) : Prop := (keys cl).Pairwise (· < ·)

def countW (cl : List (Nat × PState)) : Nat := (cl.filter (fun e => isWaiting e.2)).length
def countNC (cl : List (Nat × PState)) : Nat := (cl.filter (fun e => e.2 = .notContacted)).length
def countU (cl : List (Nat × PState)) : Nat := (cl.filter (fun e => e.2 = .unresponsive)).length

@[simp] theorem countW_nil : countW [] = 0 := rfl
@[simp] theorem countNC_nil : countNC [] = 0 := rfl
@[simp] theorem countU_nil : countU [] = 0 := rfl

theorem countW_cons (p : Nat) (st : PState) (t : List (Nat × PState)) :
    countW ((p, st) :: t) = (if isWaiting st then 1 else 0) + countW t := by
  unfold countW
  by_cases h : isWaiting st <;> simp [List.filter_cons, h] <;> omega

theorem countNC_cons (p : Nat) (st : PState) (t : List (Nat × PState)) :
    countNC ((p, st) :: t) = (if st = .notContacted then 1 else 0) + countNC t := by
  unfold countNC
  by_cases h : st = .notContacted <;> simp [List.filter_cons, h] <;> omega

theorem countU_cons (p : Nat) (st : PState) (t : List (Nat × PState)) :
    countU ((p, st) :: t) = (if st = .unresponsive then 1 else 0) + countU t := by
  unfold countU
  by_cases h : st = .unresponsive <;> simp [List.filter_cons, h] <;> omega

theorem sorted_cons {p : Nat} {st : PState} {t : List (Nat × PState)} :
    Sorted ((p, st) :: t) ↔ (∀ e ∈ t, p < e.1) ∧ Sorted t := by
  unfold Sorted keys
  simp [List.pairwise_cons]

theorem sorted_nil : Sorted [] := by simp [Sorted, keys]

/-! ## `find` -/

theorem find_none_of_lt {cl : List (Nat × PState)} {q : Nat} (h : ∀ e ∈ cl, q < e.1) : find cl q = none := by
  induction cl with
  | nil => rfl
  | cons e t ih =>
    obtain ⟨p, st⟩ := e
    have h1 : q < p := h (p, st) List.mem_cons_self
    have h2 : p ≠ q := by omega
    simp [find, h2, ih (fun e he => h e (List.mem_cons_of_mem _ he))]

theorem find_some_mem {cl : List (Nat × PState)} {q : Nat} {st : PState} (h : find cl q = some st) :
    (q, st) ∈ cl := by
  induction cl with
  | nil => simp [find] at h
  | cons e t ih =>
    obtain ⟨p, s0⟩ := e
    by_cases hp : p = q
    · subst hp; simp [find] at h; simp [h]
    · simp [find, hp] at h; exact List.mem_cons_of_mem _ (ih h)

theorem find_of_mem {cl : List (Nat × PState)} (hs : Sorted cl) {q : Nat} {st : PState}
    (h : (q, st) ∈ cl) : find cl q = some st := by
  induction cl with
  | nil => simp at h
  | cons e t ih =>
    obtain ⟨p, s0⟩ := e
    rw [sorted_cons] at hs
    rcases List.mem_cons.1 h with heq | hm
    · cases heq; simp [find]
    · have := hs.1 (q, st) hm
      have hp : p ≠ q := by simp at this; omega
      simp [find, hp, ih hs.2 hm]

theorem find_isSome_iff {cl : List (Nat × PState)} {q : Nat} : (find cl q).isSome ↔ q ∈ keys cl := by
  induction cl with
  | nil => simp [find, keys]
  | cons e t ih =>
    obtain ⟨p, s0⟩ := e
    by_cases hp : p = q
    · subst hp; simp [find, keys]
    · have : ¬ q = p := fun h => hp h.symm
      simp only [find, hp, if_false, ih, keys, List.map_cons, List.mem_cons, this, false_or]

/-! ## `setSt` -/

theorem keys_setSt (cl : List (Nat × PState)) (p : Nat) (st : PState) : keys (setSt cl p st) = keys cl := by
  induction cl with
  | nil => rfl
  | cons e t ih =>
    obtain ⟨q, s0⟩ := e
    by_cases hp : q = p
    · subst hp; simp [setSt, keys]
    · simp only [setSt, hp, if_false, keys, List.map_cons] at ih ⊢
      rw [ih]

theorem find_setSt (cl : List (Nat × PState)) (p : Nat) (st : PState) (q : Nat) :
    find (setSt cl p st) q = if q = p then (find cl p).map (fun _ => st) else find cl q := by
  induction cl with
  | nil => simp [setSt, find]
  | cons e t ih => grind [setSt, find]

theorem length_setSt (cl : List (Nat × PState)) (p : Nat) (st : PState) :
    (setSt cl p st).length = cl.length := by
  have := congrArg List.length (keys_setSt cl p st)
  simpa [keys] using this

theorem sorted_setSt {cl : List (Nat × PState)} (hs : Sorted cl) (p : Nat) (st : PState) :
    Sorted (setSt cl p st) := by
  unfold Sorted; rw [keys_setSt]; exact hs

/-- effect of `setSt` on the three counters -/
theorem counts_setSt {cl : List (Nat × PState)} {p : Nat} {s0 : PState} (st : PState)
    (h : find cl p = some s0) :
    countW (setSt cl p st) + (if isWaiting s0 then 1 else 0) = countW cl + (if isWaiting st then 1 else 0) ∧
    countNC (setSt cl p st) + (if s0 = .notContacted then 1 else 0) =
      countNC cl + (if st = .notContacted then 1 else 0) ∧
    countU (setSt cl p st) + (if s0 = .unresponsive then 1 else 0) =
      countU cl + (if st = .unresponsive then 1 else 0) := by
  induction cl with
  | nil => simp [find] at h
  | cons e t ih =>
    obtain ⟨q, s1⟩ := e
    by_cases hp : q = p
    · subst hp
      simp [find] at h; subst h
      simp only [setSt, if_true, countW_cons, countNC_cons, countU_cons]
      omega
    · simp only [find, hp, if_false] at h
      have := ih h
      simp only [setSt, hp, if_false, countW_cons, countNC_cons, countU_cons]
      omega

/-! ## `ins` -/

theorem find_ins {cl : List (Nat × PState)} {p : Nat} (h : find cl p = none) (q : Nat) :
    find (ins cl p) q = if q = p then some .notContacted else find cl q := by
  induction cl with
  | nil =>
    by_cases hq : q = p
    · subst hq; simp [ins, find]
    · have : ¬ p = q := fun h => hq h.symm
      simp [ins, find, hq, this]
  | cons e t ih => grind [ins, find]

theorem keys_ins_mem {cl : List (Nat × PState)} {p : Nat} (q : Nat) :
    q ∈ keys (ins cl p) ↔ q = p ∨ q ∈ keys cl := by
  induction cl with
  | nil => simp [ins, keys]
  | cons e t ih =>
    obtain ⟨r, s0⟩ := e
    unfold keys at ih ⊢
    by_cases h1 : p < r
    · simp [ins, h1]
    · by_cases h2 : p = r
      · subst h2; simp [ins]
      · simp only [ins, h1, h2, if_false, List.map_cons, List.mem_cons, ih]
        constructor
        · rintro (h | h | h)
          · exact Or.inr (Or.inl h)
          · exact Or.inl h
          · exact Or.inr (Or.inr h)
        · rintro (h | h | h)
          · exact Or.inr (Or.inl h)
          · exact Or.inl h
          · exact Or.inr (Or.inr h)

theorem sorted_ins {cl : List (Nat × PState)} (hs : Sorted cl) (p : Nat) : Sorted (ins cl p) := by
  induction cl with
  | nil => simp [ins, Sorted, keys]
  | cons e t ih =>
    obtain ⟨r, s0⟩ := e
    have hs' := sorted_cons.1 hs
    by_cases h1 : p < r
    · simp only [ins, h1, if_true]
      rw [sorted_cons]
      refine ⟨?_, hs⟩
      intro e he
      rcases List.mem_cons.1 he with rfl | he
      · exact h1
      · have := hs'.1 e he; omega
    · by_cases h2 : p = r
      · subst h2
        simp only [ins, Nat.lt_irrefl, if_true, if_false]
        exact hs
      · simp only [ins, h1, h2, if_false]
        rw [sorted_cons]
        refine ⟨?_, ih hs'.2⟩
        intro e he
        have hk : e.1 ∈ keys (ins t p) := List.mem_map.2 ⟨e, he, rfl⟩
        rcases (keys_ins_mem e.1).1 hk with h | h
        · omega
        · obtain ⟨e', he', hk'⟩ := List.mem_map.1 h
          have := hs'.1 e' he'
          omega

theorem counts_ins {cl : List (Nat × PState)} {p : Nat} (h : find cl p = none) :
    countW (ins cl p) = countW cl ∧ countNC (ins cl p) = countNC cl + 1 ∧
    countU (ins cl p) = countU cl ∧ (ins cl p).length = cl.length + 1 := by
  induction cl with
  | nil => simp [ins, countW, countNC, countU, isWaiting]
  | cons e t ih =>
    obtain ⟨r, s0⟩ := e
    by_cases hr : r = p
    · subst hr; simp [find] at h
    · simp only [find, hr, if_false] at h
      have := ih h
      by_cases h1 : p < r
      · simp only [ins, h1, if_true, countW_cons, countNC_cons, countU_cons, isWaiting, List.length_cons]
        simp
        omega
      · have h2 : ¬ p = r := fun hh => hr hh.symm
        simp only [ins, h1, h2, if_false, countW_cons, countNC_cons, countU_cons, List.length_cons]
        omega

/-- a strictly ascending list of naturals below `n` has at most `n` elements -/
theorem pairwise_lt_length_le (l : List Nat) (lo n : Nat) (hp : l.Pairwise (· < ·))
    (hb : ∀ x ∈ l, lo ≤ x ∧ x < n) : l.length ≤ n - lo := by
  induction l generalizing lo with
  | nil => simp
  | cons x t ih =>
    rw [List.pairwise_cons] at hp
    have hx := hb x List.mem_cons_self
    have := ih (x + 1) hp.2 (fun y hy => ⟨hp.1 y hy, (hb y (List.mem_cons_of_mem _ hy)).2⟩)
    simp only [List.length_cons]
    omega

theorem sorted_length_le {cl : List (Nat × PState)} {n : Nat} (hs : Sorted cl)
    (hb : ∀ e ∈ cl, e.1 < n) : cl.length ≤ n := by
  have := pairwise_lt_length_le (keys cl) 0 n hs (by
    intro x hx
    obtain ⟨e, he, rfl⟩ := List.mem_map.1 hx
    exact ⟨Nat.zero_le _, hb e he⟩)
  simpa [keys] using this

end C39
