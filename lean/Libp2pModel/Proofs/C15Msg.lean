import Libp2pModel.Model.C15
import Libp2pModel.Proofs.C15Uvi
/-!
# C15 helper lemmas: `Message::decode ∘ Message::encode`
-/
namespace C15
open Mss

/-- one entry of an `ls` response -/
def encEntry (p : Bytes) : Bytes := Varint.encode (p.length + 1) ++ p ++ [10]

theorem encodeMsg_protos (ps : List Bytes) :
    encodeMsg (.protos ps) = ps.flatMap encEntry ++ [10] := rfl

/-- reference semantics of the `ls`-response loop on a list of (arbitrary) names -/
def lsRef : Nat → List Bytes → List Bytes → DecRes
  | _, acc, [] => .ok (.protos acc)
  | cnt, acc, p :: ps =>
    if cnt = MAX_PROTOCOLS then .err .tooManyProtocols
    else match protocolTryFrom p with
      | .error e => .err e
      | .ok q => lsRef (cnt + 1) (acc ++ [q]) ps

theorem encEntry_length (p : Bytes) : 2 ≤ (encEntry p).length := by
  have := Varint.len_pos (p.length + 1)
  unfold Varint.len at this
  simp [encEntry]; omega

theorem decodeLs_encode : ∀ (ps : List Bytes) (fuel cnt : Nat) (acc : List Bytes),
    (∀ p ∈ ps, p.length + 1 < 2 ^ 64) → ps.length < fuel →
    decodeLs fuel cnt acc (ps.flatMap encEntry ++ [10]) = lsRef cnt acc ps := by
  intro ps
  induction ps with
  | nil =>
    intro fuel cnt acc _ hf
    cases fuel with
    | zero => omega
    | succ f => simp [decodeLs, lsRef]
  | cons p ps ih =>
    intro fuel cnt acc hlen hf
    cases fuel with
    | zero => omega
    | succ f =>
      have hne : (p :: ps).flatMap encEntry ++ [10] ≠ [10] := by
        intro h
        have := congrArg List.length h
        have h2 := encEntry_length p
        simp at this; omega
      have hp : p.length + 1 < 2 ^ 64 := hlen p (by simp)
      have hshape : (p :: ps).flatMap encEntry ++ [10] =
          Varint.encode (p.length + 1) ++ (p ++ [10] ++ (ps.flatMap encEntry ++ [10])) := by
        simp [encEntry, List.append_assoc]
      rw [decodeLs, if_neg hne, lsRef]
      by_cases hc : cnt = MAX_PROTOCOLS
      · simp [hc]
      · rw [if_neg hc, if_neg hc, hshape, uviU64_encode _ _ hp]
        have h0 : ¬ (p.length + 1 = 0) := by omega
        have h1 : ¬ (p.length + 1 > (p ++ [10] ++ (ps.flatMap encEntry ++ [10])).length) := by
          simp
        have h2 : (p ++ [10] ++ (ps.flatMap encEntry ++ [10]))[p.length + 1 - 1]? = some 10 := by
          simp [List.append_assoc]
        have h3 : (p ++ [10] ++ (ps.flatMap encEntry ++ [10])).take (p.length + 1 - 1) = p := by
          simp [List.append_assoc]
        have h4 : (p ++ [10] ++ (ps.flatMap encEntry ++ [10])).drop (p.length + 1) =
            ps.flatMap encEntry ++ [10] := by
          rw [show p ++ [10] ++ (ps.flatMap encEntry ++ [10]) = (p ++ [10]) ++ (ps.flatMap encEntry ++ [10]) from rfl]
          exact List.drop_left' (by simp)
        simp only [h0, h1, ↓reduceIte, h2, h3, h4]
        cases hq : protocolTryFrom p with
        | error e => try simp
        | ok q =>
          simp only [ne_eq, not_true_eq_false, ↓reduceIte]
          exact ih f (cnt + 1) (acc ++ [q]) (fun x hx => hlen x (by simp [hx])) (by simp at hf; omega)

theorem protocolTryFrom_ok (p : Bytes) (h1 : nameOk p = true) (h2 : utf8Valid p = true) :
    protocolTryFrom p = .ok p := by
  unfold nameOk at h1
  simp at h1
  simp [protocolTryFrom, h1, h2]

theorem protocolTryFrom_eq_ok (p q : Bytes) (h : protocolTryFrom p = .ok q) :
    q = p ∧ nameOk p = true ∧ utf8Valid p = true := by
  unfold protocolTryFrom at h
  split at h
  · simp at h
  · rename_i h1
    split at h
    · simp at h
    · rename_i h2
      simp at h1 h2
      simp [nameOk, h1, h2]
      cases h; rfl

theorem lsRef_valid : ∀ (ps : List Bytes) (cnt : Nat) (acc : List Bytes),
    (∀ p ∈ ps, validListName p = true) → cnt + ps.length ≤ MAX_PROTOCOLS →
    lsRef cnt acc ps = .ok (.protos (acc ++ ps)) := by
  intro ps
  induction ps with
  | nil => intro cnt acc _ _; simp [lsRef]
  | cons p ps ih =>
    intro cnt acc hv hc
    have hp := hv p (by simp)
    simp [validListName] at hp
    have hne : cnt ≠ MAX_PROTOCOLS := by simp at hc; omega
    rw [lsRef, if_neg hne, protocolTryFrom_ok p hp.1.1 hp.1.2]
    simp only
    rw [ih (cnt + 1) (acc ++ [p]) (fun x hx => hv x (by simp [hx])) (by simp at hc; omega)]
    simp

theorem lsRef_too_many : ∀ (ps : List Bytes) (cnt : Nat) (acc : List Bytes),
    (∀ p ∈ ps, validListName p = true) → cnt ≤ MAX_PROTOCOLS → MAX_PROTOCOLS < cnt + ps.length →
    lsRef cnt acc ps = .err .tooManyProtocols := by
  intro ps
  induction ps with
  | nil => intro cnt acc _ h1 h2; simp at h2; omega
  | cons p ps ih =>
    intro cnt acc hv h1 h2
    rw [lsRef]
    by_cases hc : cnt = MAX_PROTOCOLS
    · simp [hc]
    · have hp := hv p (by simp)
      simp [validListName] at hp
      rw [if_neg hc, protocolTryFrom_ok p hp.1.1 hp.1.2]
      simp only
      exact ih (cnt + 1) _ (fun x hx => hv x (by simp [hx])) (by omega) (by simp at h2; omega)

theorem lsRef_bad_name : ∀ (ps : List Bytes) (cnt : Nat) (acc : List Bytes),
    (∃ p ∈ ps, nameOk p = false) → ∃ e, lsRef cnt acc ps = .err e := by
  intro ps
  induction ps with
  | nil => intro cnt acc h; simp at h
  | cons p ps ih =>
    intro cnt acc h
    rw [lsRef]
    by_cases hc : cnt = MAX_PROTOCOLS
    · exact ⟨.tooManyProtocols, by simp [hc]⟩
    · rw [if_neg hc]
      cases hq : protocolTryFrom p with
      | error e => exact ⟨e, rfl⟩
      | ok q =>
        obtain ⟨_, hn, _⟩ := protocolTryFrom_eq_ok p q hq
        simp only
        obtain ⟨x, hx, hbad⟩ := h
        simp at hx
        rcases hx with rfl | hx
        · rw [hn] at hbad; cases hbad
        · exact ih _ _ ⟨x, hx, hbad⟩

/-- whatever `lsRef` accepts is a well-formed listing -/
theorem lsRef_sound : ∀ (ps : List Bytes) (cnt : Nat) (acc : List Bytes) (m : Msg),
    cnt ≤ MAX_PROTOCOLS → lsRef cnt acc ps = .ok m →
    ∃ qs, m = .protos (acc ++ qs) ∧ (∀ q ∈ qs, nameOk q = true ∧ utf8Valid q = true) ∧
      cnt + qs.length ≤ MAX_PROTOCOLS := by
  intro ps
  induction ps with
  | nil =>
    intro cnt acc m hle h
    simp [lsRef] at h
    exact ⟨[], by simp [h, hle]⟩
  | cons p ps ih =>
    intro cnt acc m hle h
    rw [lsRef] at h
    by_cases hc : cnt = MAX_PROTOCOLS
    · simp [hc] at h
    · rw [if_neg hc] at h
      cases hq : protocolTryFrom p with
      | error e => rw [hq] at h; simp at h
      | ok q =>
        rw [hq] at h
        simp only at h
        obtain ⟨rfl, hn, hu⟩ := protocolTryFrom_eq_ok p q hq
        obtain ⟨qs, rfl, hall, hcnt⟩ := ih _ _ _ (by omega) h
        refine ⟨q :: qs, by simp, ?_, ?_⟩
        · intro x hx
          simp at hx
          rcases hx with rfl | hx
          · exact ⟨hn, hu⟩
          · exact hall x hx
        · simp; omega

end C15
