import Libp2pModel.Proofs.C50Filter
/-!
# C50 — the server state machine refines the trace monitor
-/
namespace C50

/-! ### association-list helpers -/

theorem erase_of_not_hasKey {β} (l : List (Peer × β)) (p : Peer) (h : hasKey l p = false) :
    erase l p = l := by
  unfold erase
  unfold hasKey at h
  rw [List.filter_eq_self]
  intro e he
  have := List.any_eq_false.1 h e he
  simpa using this

theorem hasKey_map {β γ} (l : List (Peer × β)) (f : β → γ) (p : Peer) :
    hasKey (l.map (fun e => (e.1, f e.2))) p = hasKey l p := by
  unfold hasKey
  simp [List.any_map, Function.comp_def]

theorem lookup_none_of_not_hasKey {β} (l : List (Peer × β)) (p : Peer) (h : hasKey l p = false) :
    lookup l p = none := by
  induction l with
  | nil => rfl
  | cons e t ih =>
    obtain ⟨k, v⟩ := e
    simp only [hasKey, List.any_cons, Bool.or_eq_false_iff] at h
    simp only [lookup, h.1, Bool.false_eq_true, ↓reduceIte]
    exact ih (by simpa [hasKey] using h.2)

theorem lookup_mem {β} (l : List (Peer × β)) (p : Peer) (v : β) (h : lookup l p = some v) :
    (p, v) ∈ l := by
  induction l with
  | nil => simp [lookup] at h
  | cons e t ih =>
    obtain ⟨k, w⟩ := e
    simp only [lookup] at h
    by_cases hk : (k == p) = true
    · simp only [hk, ↓reduceIte, Option.some.injEq] at h
      have : k = p := by simpa using hk
      subst this; subst h; simp
    · simp only [hk, Bool.false_eq_true, ↓reduceIte] at h
      exact List.mem_cons_of_mem _ (ih h)

theorem erase_map_req (l : List (Peer × Ongoing)) (p : Peer) :
    (erase l p).map (fun e => (e.1, e.2.req)) =
      (l.map (fun e => (e.1, e.2.req))).filter (fun e => !(e.1 == p)) := by
  unfold erase
  rw [List.filter_map]
  rfl

theorem lookup_unique {β} (l : List (Peer × β)) (p : Peer) (o : β)
    (hl : lookup l p = some o) (hn : (l.map (·.1)).Nodup) : ∀ e ∈ l, e.1 = p → e.2 = o := by
  induction l with
  | nil => simp [lookup] at hl
  | cons x t ih =>
    obtain ⟨k, v⟩ := x
    simp only [List.map_cons, List.nodup_cons] at hn
    simp only [lookup] at hl
    intro e he hep
    by_cases hk : (k == p) = true
    · have hkp : k = p := by simpa using hk
      simp only [hk, ↓reduceIte, Option.some.injEq] at hl
      rcases List.mem_cons.1 he with rfl | he
      · exact hl
      · exfalso
        apply hn.1
        rw [hkp, ← hep]
        exact List.mem_map_of_mem he
    · simp only [hk, Bool.false_eq_true, ↓reduceIte] at hl
      rcases List.mem_cons.1 he with rfl | he
      · exfalso; apply hk; simpa using hep
      · exact ih hl hn.2 e he hep

theorem lookup_none_keys {β} (l : List (Peer × β)) (p : Peer) (hl : lookup l p = none) :
    ∀ e ∈ l, e.1 ≠ p := by
  induction l with
  | nil => intro e he; simp at he
  | cons x t ih =>
    obtain ⟨k, v⟩ := x
    simp only [lookup] at hl
    by_cases hk : (k == p) = true
    · simp [hk] at hl
    · simp only [hk, Bool.false_eq_true, ↓reduceIte] at hl
      intro e he
      rcases List.mem_cons.1 he with rfl | he
      · simpa using hk
      · exact ih hl e he

/-- a failure of a request that did not start the tracked dial-back of `p` finishes nothing -/
theorem filter_req_nomatch (l : List (Peer × Ongoing)) (p : Peer) (reqId : Nat)
    (h : ∀ e ∈ l, e.1 = p → e.2.req ≠ reqId) :
    (l.map (fun e => (e.1, e.2.req))).filter (· ≠ (p, reqId)) = l.map (fun e => (e.1, e.2.req)) := by
  rw [List.filter_eq_self]
  intro e he
  simp only [List.mem_map] at he
  obtain ⟨e', he', rfl⟩ := he
  simp only [ne_eq, Prod.mk.injEq, not_and, decide_eq_true_eq]
  intro hp
  exact h e' he' hp

/-- a failure of the request that started the tracked dial-back of `p` finishes exactly it -/
theorem filter_req_match (l : List (Peer × Ongoing)) (p : Peer) (o : Ongoing)
    (hl : lookup l p = some o) (hn : (l.map (·.1)).Nodup) :
    (l.map (fun e => (e.1, e.2.req))).filter (· ≠ (p, o.req)) =
      (erase l p).map (fun e => (e.1, e.2.req)) := by
  rw [erase_map_req]
  apply List.filter_congr
  intro e he
  simp only [List.mem_map] at he
  obtain ⟨e', he', rfl⟩ := he
  by_cases hp : e'.1 = p
  · have := lookup_unique l p o hl hn e' he' hp
    simp [hp, this]
  · simp [hp]

theorem erase_keys_nodup {β} (l : List (Peer × β)) (p : Peer) (h : (l.map (·.1)).Nodup) :
    ((erase l p).map (·.1)).Nodup := by
  unfold erase
  exact List.Nodup.sublist (List.Sublist.map _ List.filter_sublist) h

theorem mem_erase {β} (l : List (Peer × β)) (p : Peer) (e : Peer × β) (h : e ∈ erase l p) : e ∈ l := by
  unfold erase at h
  exact (List.mem_filter.1 h).1

theorem firstObserved_mem (conns : List (Nat × Option Maddr)) (obs : Maddr)
    (h : firstObserved conns = some obs) : ∃ c ∈ conns, c.2 = some obs := by
  induction conns with
  | nil => simp [firstObserved] at h
  | cons c t ih =>
    obtain ⟨i, o⟩ := c
    cases o with
    | some a =>
      simp only [firstObserved, Option.some.injEq] at h
      subst h
      exact ⟨(i, some a), by simp, rfl⟩
    | none =>
      simp only [firstObserved] at h
      obtain ⟨c, hc, hco⟩ := ih h
      exact ⟨c, List.mem_cons_of_mem _ hc, hco⟩

/-! ### throttle bookkeeping -/

theorem live_append (period now : Nat) (a b : List (Peer × Nat)) :
    live period now (a ++ b) = live period now a ++ live period now b := by
  simp [live]

theorem live_expired (period now : Nat) (a : List (Peer × Nat))
    (h : ∀ e ∈ a, e.2 + period < now) : live period now a = [] := by
  unfold live
  rw [List.filter_eq_nil_iff]
  intro e he
  simp [h e he]

theorem mem_takeWhile_imp' {α} (p : α → Bool) : ∀ (l : List α) (e : α), e ∈ l.takeWhile p → p e = true := by
  intro l
  induction l with
  | nil => intro e he; simp at he
  | cons a t ih =>
    intro e he
    by_cases ha : p a = true
    · simp only [List.takeWhile_cons, ha, ↓reduceIte, List.mem_cons] at he
      rcases he with rfl | he
      · exact ha
      · exact ih e he
    · simp [List.takeWhile_cons, ha] at he

theorem purge_split (period now : Nat) (l : List (Peer × Nat)) :
    ∃ d, l = d ++ purge period now l ∧ ∀ e ∈ d, e.2 + period < now := by
  refine ⟨l.takeWhile (fun e => e.2 + period < now), ?_, ?_⟩
  · unfold purge; exact (List.takeWhile_append_dropWhile).symm
  · intro e he
    have := mem_takeWhile_imp' _ _ e he
    simpa using this

theorem live_length_le (period now : Nat) (l : List (Peer × Nat)) :
    (live period now l).length ≤ l.length := by
  unfold live; exact List.length_filter_le _ _

theorem countPeer_live_le (period now : Nat) (l : List (Peer × Nat)) (p : Peer) :
    countPeer (live period now l) p ≤ countPeer l p := by
  unfold countPeer live
  apply List.Sublist.length_le
  exact List.Sublist.filter _ List.filter_sublist

/-- the live part of the monitor's log is accounted for by the purged `throttled_clients` -/
theorem live_log_eq (period now : Nat) (dropped thr : List (Peer × Nat))
    (hd : ∀ e ∈ dropped, e.2 + period < now) :
    live period now (dropped ++ thr) = live period now (purge period now thr) := by
  obtain ⟨d, hsplit, hdexp⟩ := purge_split period now thr
  rw [live_append, live_expired _ _ _ hd, List.nil_append]
  conv => lhs; rw [hsplit]
  rw [live_append, live_expired _ _ _ hdexp, List.nil_append]

/-! ### what an accepted `resolve` guarantees -/

theorem resolve_ok (cfg : Cfg) (st : St) (sender reqPeer : Peer) (addrs as : List Maddr)
    (thr : List (Peer × Nat)) (h : resolve cfg st sender reqPeer addrs = (thr, .ok as)) :
    reqPeer = sender ∧ hasKey st.ongoing sender = false ∧ thr = purge cfg.period st.now st.throttled ∧
      thr.length < cfg.globalMax ∧ countPeer thr sender < cfg.peerMax ∧
      ∃ conns obs, lookup st.connected sender = some conns ∧ firstObserved conns = some obs ∧
        as = (filterValidAddrs sender addrs obs).take cfg.maxPeerAddresses ∧ as ≠ [] := by
  unfold resolve at h
  simp only at h
  split at h
  · simp at h
  · rename_i h1
    split at h
    · simp at h
    · rename_i h2
      split at h
      · simp at h
      · rename_i h3
        split at h
        · simp at h
        · rename_i h4
          split at h
          · simp at h
          · rename_i conns hc
            split at h
            · simp at h
            · rename_i obs ho
              split at h
              · simp at h
              · rename_i h5
                simp only [Prod.mk.injEq, Except.ok.injEq] at h
                obtain ⟨rfl, rfl⟩ := h
                refine ⟨by simpa using h1, by simpa using h2, rfl, by omega, by omega, conns, obs, hc, ho, rfl, ?_⟩
                intro hnil
                rw [hnil] at h5
                simp at h5

theorem resolve_err_thr (cfg : Cfg) (st : St) (sender reqPeer : Peer) (addrs : List Maddr) :
    (resolve cfg st sender reqPeer addrs).1 = purge cfg.period st.now st.throttled := by
  unfold resolve
  simp only
  repeat' split
  all_goals rfl

/-- all addresses accepted by `resolve` satisfy the per-address property w.r.t. the observed IP -/
theorem filter_addrOk (peer : Peer) (demanded : List Maddr) (obs : Maddr) (ip : Proto)
    (hip : observedIp obs = some ip) :
    ∀ a ∈ filterValidAddrs peer demanded obs, addrOk peer ip a = true := by
  intro a ha
  unfold filterValidAddrs at ha
  rw [hip] at ha
  obtain ⟨_, d, _, hd⟩ := (mem_collect _ _ _ _).1 ha
  exact rewriteOne_ok peer ip d a hd

theorem filter_nodup (peer : Peer) (demanded : List Maddr) (obs : Maddr) :
    (filterValidAddrs peer demanded obs).Nodup := by
  unfold filterValidAddrs
  split
  · simp
  · exact nodup_collect _ _ _

/-! ### the coupling invariant -/

structure R (cfg : Cfg) (st : St) (m : Mon) : Prop where
  now : m.now = st.now
  conns : m.conns = st.connected
  inflight : m.inflight = st.ongoing.map (fun e => (e.1, e.2.req))
  keys : (st.ongoing.map (·.1)).Nodup
  probes : ∀ e ∈ st.ongoing, e.2.probe < st.probeId
  log : ∃ dropped, m.log = dropped ++ st.throttled ∧ ∀ e ∈ dropped, e.2 + cfg.period < st.now

theorem R_init (cfg : Cfg) : R cfg St.init Mon.init :=
  ⟨rfl, rfl, rfl, by simp [St.init], by simp [St.init], ⟨[], rfl, by simp⟩⟩

/-- completion of a dial-back by the outcome of the dial (`response`, `dialFailed`) -/
theorem R_complete (cfg : Cfg) (st : St) (m : Mon) (hR : R cfg st m) (peer : Peer) :
    R cfg { st with ongoing := erase st.ongoing peer }
      { m with inflight := m.inflight.filter (fun e => !(e.1 == peer)) } := by
  refine ⟨hR.now, hR.conns, ?_, erase_keys_nodup _ _ hR.keys, ?_, hR.log⟩
  · simp only
    rw [hR.inflight, erase_map_req]
  · intro e he
    exact hR.probes e (mem_erase _ _ _ he)

theorem R_setCur (cfg : Cfg) (st : St) (m : Mon) (hR : R cfg st m) (r : Nat) :
    R cfg st { m with curReq := r } :=
  ⟨hR.now, hR.conns, hR.inflight, hR.keys, hR.probes, hR.log⟩

theorem R_onOutbound (cfg : Cfg) (st : St) (m : Mon) (hR : R cfg st m) (peer : Peer) (a : Maddr) :
    (judge cfg m (onOutboundConnection st peer a).2).2 = none ∧
      R cfg (onOutboundConnection st peer a).1 (judge cfg m (onOutboundConnection st peer a).2).1 := by
  unfold onOutboundConnection
  split
  · simp only [judge]; exact ⟨trivial, hR⟩
  · rename_i o ho
    split
    · simp only [judge]; exact ⟨trivial, hR⟩
    · simp only [judge]
      exact ⟨trivial, R_complete cfg st m hR peer⟩

theorem R_probe_succ (cfg : Cfg) (st : St) (m : Mon) (hR : R cfg st m) :
    R cfg { st with probeId := st.probeId + 1 } m :=
  ⟨hR.now, hR.conns, hR.inflight, hR.keys, fun e he => Nat.lt_succ_of_lt (hR.probes e he), hR.log⟩

theorem R_purge (cfg : Cfg) (st : St) (m : Mon) (hR : R cfg st m) :
    R cfg { st with throttled := purge cfg.period st.now st.throttled } m := by
  refine ⟨hR.now, hR.conns, hR.inflight, hR.keys, hR.probes, ?_⟩
  obtain ⟨d, h1, h2⟩ := hR.log
  obtain ⟨d', h3, h4⟩ := purge_split cfg.period st.now st.throttled
  refine ⟨d ++ d', ?_, ?_⟩
  · simp only; rw [List.append_assoc, ← h3]; exact h1
  · intro e he
    rcases List.mem_append.1 he with he | he
    · exact h2 e he
    · exact h4 e he

/-- an accepted request passes every check of the monitor -/
theorem judge_dial (cfg : Cfg) (st : St) (m : Mon) (hR : R cfg st m) (peer reqPeer : Peer) (reqId probe : Nat)
    (addrs as : List Maddr) (thr : List (Peer × Nat)) (hp : st.probeId ≤ probe) (hcur : m.curReq = reqId)
    (h : resolve cfg st peer reqPeer addrs = (thr, .ok as)) :
    (judge cfg m (.dial probe peer as)).2 = none ∧
      R cfg { st with probeId := probe + 1, throttled := thr ++ [(peer, st.now)],
                      ongoing := insert st.ongoing peer ⟨probe, reqId, as⟩ }
        (judge cfg m (.dial probe peer as)).1 := by
  obtain ⟨_, hk, hthr, hg, hpm, conns, obs, hconns, hobs, has, hne⟩ := resolve_ok cfg st peer reqPeer addrs as thr h
  obtain ⟨d, hlog, hd⟩ := hR.log
  have hlive : live cfg.period m.now m.log = live cfg.period st.now thr := by
    rw [hR.now, hlog, hthr]; exact live_log_eq _ _ _ _ hd
  have c1 : hasKey m.inflight peer = false := by
    rw [hR.inflight, hasKey_map]; exact hk
  have c2 : ¬ (live cfg.period m.now m.log).length ≥ cfg.globalMax := by
    rw [hlive]; have := live_length_le cfg.period st.now thr; omega
  have c3 : ¬ countPeer (live cfg.period m.now m.log) peer ≥ cfg.peerMax := by
    rw [hlive]; have := countPeer_live_le cfg.period st.now thr peer; omega
  have c4 : (as.isEmpty || decide (as.length > cfg.maxPeerAddresses)) = false := by
    have h1 : as.isEmpty = false := by cases as <;> simp_all
    have h2 : as.length ≤ cfg.maxPeerAddresses := by rw [has]; simp [List.length_take]; omega
    simp [h1]; omega
  have c5 : nodupB as = true := by
    rw [nodupB_iff, has]
    exact List.Nodup.sublist (List.take_sublist _ _) (filter_nodup _ _ _)
  have c6 : addrsOkFor peer ((lookup m.conns peer).getD []) as = true := by
    rw [hR.conns, hconns]
    simp only [Option.getD_some]
    obtain ⟨c, hc, hco⟩ := firstObserved_mem conns obs hobs
    unfold addrsOkFor
    rw [List.any_eq_true]
    refine ⟨c, hc, ?_⟩
    rw [hco]
    cases hip : observedIp obs with
    | none =>
      exfalso; apply hne; rw [has]; unfold filterValidAddrs; rw [hip]; simp
    | some ip =>
      simp only [hip]
      rw [List.all_eq_true]
      intro a ha
      rw [has] at ha
      exact filter_addrOk peer addrs obs ip hip a (List.mem_of_mem_take ha)
  unfold judge
  simp only [c1, Bool.false_eq_true, ↓reduceIte, c2, c3, c4, c5, c6, Bool.not_true]
  refine ⟨trivial, ⟨hR.now, hR.conns, ?_, ?_, ?_, ?_⟩⟩
  · simp only [insert]
    rw [erase_of_not_hasKey _ _ hk, List.map_cons, hR.inflight, hcur]
  · simp only [insert]
    rw [erase_of_not_hasKey _ _ hk, List.map_cons, List.nodup_cons]
    refine ⟨?_, hR.keys⟩
    intro hmem
    simp only [List.mem_map] at hmem
    obtain ⟨e, he, hep⟩ := hmem
    have : hasKey st.ongoing peer = true := by
      unfold hasKey; rw [List.any_eq_true]; exact ⟨e, he, by simp [hep]⟩
    rw [hk] at this; cases this
  · intro e he
    simp only [insert] at he
    rw [erase_of_not_hasKey _ _ hk] at he
    rcases List.mem_cons.1 he with rfl | he
    · simp only; omega
    · have := hR.probes e he; simp only; omega
  · obtain ⟨d', h3, h4⟩ := purge_split cfg.period st.now st.throttled
    refine ⟨d ++ d', ?_, ?_⟩
    · simp only [hR.now]
      rw [hlog, hthr]
      conv => lhs; rw [h3]
      simp [List.append_assoc]
    · intro e he
      rcases List.mem_append.1 he with he | he
      · exact hd e he
      · exact h4 e he

theorem step_refines (cfg : Cfg) (st : St) (m : Mon) (op : Op) (hR : R cfg st m) :
    (monStep cfg m op (step cfg st op).2).2 = none ∧
      R cfg (step cfg st op).1 (monStep cfg m op (step cfg st op).2).1 := by
  unfold monStep
  cases op with
  | advance dt =>
    simp only [step, monConn, judge]
    refine ⟨trivial, ⟨by simp [hR.now], hR.conns, hR.inflight, hR.keys, hR.probes, ?_⟩⟩
    obtain ⟨d, h1, h2⟩ := hR.log
    exact ⟨d, h1, fun e he => by have := h2 e he; simp only; omega⟩
  | connEstablished peer conn observed dialed =>
    have hR1 : R cfg { st with connected := (insert st.connected peer
          ((conn, observed) :: List.filter (fun c => !(c.1 == conn)) ((lookup st.connected peer).getD []))) }
        (monConn m (.connEstablished peer conn observed dialed)) := by
      simp only [monConn]
      exact ⟨hR.now, by simp [hR.conns], hR.inflight, hR.keys, hR.probes, hR.log⟩
    simp only [step]
    cases dialed with
    | none => simp only [judge]; exact ⟨trivial, hR1⟩
    | some a => exact R_onOutbound cfg _ _ hR1 peer a
  | connClosed peer conn remaining =>
    simp only [step, monConn]
    by_cases h0 : (remaining == 0) = true
    · simp only [h0, ↓reduceIte, judge]
      exact ⟨trivial, ⟨hR.now, by simp [hR.conns], hR.inflight, hR.keys, hR.probes, hR.log⟩⟩
    · simp only [h0, Bool.false_eq_true, ↓reduceIte]
      rw [hR.conns]
      cases hl : lookup st.connected peer with
      | none => simp only [judge]; exact ⟨trivial, hR⟩
      | some conns =>
        simp only [judge]
        exact ⟨trivial, ⟨hR.now, by simp [hR.conns], hR.inflight, hR.keys, hR.probes, hR.log⟩⟩
  | request peer reqPeer reqId addrs =>
    simp only [step, monConn]
    have hRc := R_setCur cfg st m hR reqId
    by_cases hc : hasKey st.connected peer = true
    · simp only [hc, Bool.not_true, Bool.false_eq_true, ↓reduceIte]
      have hR1 := R_probe_succ cfg st _ hRc
      cases hres : resolve cfg { st with probeId := st.probeId + 1 } peer reqPeer addrs with
      | mk thr res =>
        cases res with
        | error e =>
          simp only [judge]
          have hthr := resolve_err_thr cfg { st with probeId := st.probeId + 1 } peer reqPeer addrs
          rw [hres] at hthr
          simp only at hthr
          rw [hthr]
          exact ⟨trivial, R_purge cfg _ _ hR1⟩
        | ok as =>
          simp only
          have hres' : resolve cfg st peer reqPeer addrs = (thr, .ok as) := by
            rw [← hres]; rfl
          exact judge_dial cfg st _ hRc peer reqPeer reqId st.probeId addrs as thr (Nat.le_refl _) rfl hres'
    · simp only [hc, Bool.not_false, ↓reduceIte, judge]
      exact ⟨trivial, R_probe_succ cfg st _ hRc⟩
  | inboundFailure peer reqId =>
    simp only [step, monConn]
    cases hl : lookup st.ongoing peer with
    | none =>
      simp only [judge]
      refine ⟨trivial, ?_⟩
      have := R_probe_succ cfg st m hR
      refine ⟨this.now, this.conns, ?_, this.keys, this.probes, this.log⟩
      simp only
      rw [hR.inflight, filter_req_nomatch]
      intro e he hep
      exact absurd hep (lookup_none_keys _ _ hl e he)
    | some o =>
      simp only
      by_cases hq : (o.req == reqId) = true
      · simp only [hq, ↓reduceIte, judge]
        have hq' : o.req = reqId := by simpa using hq
        refine ⟨trivial, ⟨hR.now, hR.conns, ?_, erase_keys_nodup _ _ hR.keys, ?_, hR.log⟩⟩
        · simp only
          rw [hR.inflight, ← hq', filter_req_match _ _ _ hl hR.keys]
        · intro e he
          exact hR.probes e (mem_erase _ _ _ he)
      · simp only [hq, Bool.false_eq_true, ↓reduceIte, judge]
        have hq' : o.req ≠ reqId := by simpa using hq
        refine ⟨trivial, ?_⟩
        have := R_probe_succ cfg st m hR
        refine ⟨this.now, this.conns, ?_, this.keys, this.probes, this.log⟩
        simp only
        rw [hR.inflight, filter_req_nomatch]
        intro e he hep
        rw [lookup_unique _ _ _ hl hR.keys e he hep]
        exact hq'
  | responseSent peer reqId =>
    simp only [step, monConn, judge]; exact ⟨trivial, hR⟩
  | dialFailure peer =>
    cases peer with
    | none => simp only [step, monConn, judge]; exact ⟨trivial, hR⟩
    | some peer =>
      simp only [step, monConn]
      cases hl : lookup st.ongoing peer with
      | none => simp only [judge]; exact ⟨trivial, hR⟩
      | some o =>
        simp only [judge]
        exact ⟨trivial, R_complete cfg st m hR peer⟩

/-- **Refinement**: the monitor accepts every trace of the model, from any coupled pair of states,
and its final state is coupled with the final state of the model. -/
theorem monRun_trace_R (cfg : Cfg) : ∀ (ops : List Op) (st : St) (m : Mon), R cfg st m →
    (monRun cfg m (trace cfg st ops)).2 = none ∧
      R cfg (Machine.exec (step cfg) st ops) (monRun cfg m (trace cfg st ops)).1 := by
  intro ops
  induction ops with
  | nil => intro st m h; exact ⟨rfl, h⟩
  | cons op ops ih =>
    intro st m hR
    obtain ⟨h1, h2⟩ := step_refines cfg st m op hR
    simp only [trace, monRun, Machine.exec, List.foldl]
    generalize hms : monStep cfg m op (step cfg st op).2 = ms at h1 h2
    obtain ⟨m', v⟩ := ms
    simp only at h1 h2
    subst h1
    exact ih _ _ h2

/-- **Refinement**: the monitor accepts every trace of the model, from any coupled pair of states. -/
theorem monRun_trace (cfg : Cfg) : ∀ (ops : List Op) (st : St) (m : Mon), R cfg st m →
    (monRun cfg m (trace cfg st ops)).2 = none := by
  intro ops
  induction ops with
  | nil => intro st m _; rfl
  | cons op ops ih =>
    intro st m hR
    exact (monRun_trace_R cfg (op :: ops) st m hR).1

end C50
