import Libp2pModel.Proofs.SwarmFrame
/-!
# The bookkeeping invariant of the Swarm model, preserved by every transition

`Inv s`: the four counters equal the sizes of the tables they summarise, every connection id
occurs at most once across pending-outgoing / pending-incoming / established, and every id in a
table is smaller than the next id to be handed out (ids are never reused).
-/
namespace Swarm

def idsO (s : State) : List Nat := s.pendOut.map (·.id)
def idsI (s : State) : List Nat := s.pendIn.map (·.id)
def idsE (s : State) : List Nat := s.est.map (·.id)

structure Inv (s : State) : Prop where
  cPO : s.cPO = s.pendOut.length
  cPI : s.cPI = s.pendIn.length
  cEO : s.cEO = (s.est.filter (·.out)).length
  cEI : s.cEI = (s.est.filter (fun e => !e.out)).length
  ndO : (idsO s).Nodup
  ndI : (idsI s).Nodup
  ndE : (idsE s).Nodup
  dOI : ∀ i ∈ idsO s, i ∉ idsI s
  dOE : ∀ i ∈ idsO s, i ∉ idsE s
  dIE : ∀ i ∈ idsI s, i ∉ idsE s
  frO : ∀ i ∈ idsO s, i < s.nextId
  frI : ∀ i ∈ idsI s, i < s.nextId
  frE : ∀ i ∈ idsE s, i < s.nextId

theorem inv_init (peerIds : List (List Nat)) : Inv (State.init peerIds) := by
  constructor <;> simp [State.init, idsO, idsI, idsE]

/-! ### list lemmas -/

theorem filter_ne_length {α : Type} (f : α → Nat) : ∀ (l : List α) (c : Nat),
    (l.map f).Nodup → c ∈ l.map f → (l.filter (fun y => f y != c)).length + 1 = l.length := by
  intro l
  induction l with
  | nil => intro c _ h; simp at h
  | cons a rest ih =>
    intro c hnd hc
    simp only [List.map_cons, List.nodup_cons] at hnd
    by_cases hac : f a = c
    · subst hac
      have : rest.filter (fun y => f y != f a) = rest := by
        apply List.filter_eq_self.2
        intro y hy
        have : f y ≠ f a := fun h => hnd.1 (h ▸ List.mem_map_of_mem hy)
        simpa [bne] using this
      have h2 : (f a != f a) = false := by simp
      rw [List.filter_cons]
      simp only [h2, Bool.false_eq_true, ↓reduceIte, this, List.length_cons]
    · have hc' : c ∈ rest.map f := by
        simp only [List.map_cons, List.mem_cons] at hc
        rcases hc with h | h
        · exact absurd h.symm hac
        · exact h
      have := ih c hnd.2 hc'
      have h2 : (f a != c) = true := by simp [bne, hac]
      rw [List.filter_cons]
      simp only [h2, ↓reduceIte, List.length_cons]
      omega

theorem filter_ne_not_mem {α : Type} (f : α → Nat) (l : List α) (c : Nat) :
    c ∉ (l.filter (fun y => f y != c)).map f := by
  intro h
  obtain ⟨y, hy, hyc⟩ := List.mem_map.1 h
  have := (List.mem_filter.1 hy).2
  simp [bne, hyc] at this

theorem map_filter_sublist {α : Type} (f : α → Nat) (p : α → Bool) (l : List α) :
    ((l.filter p).map f).Sublist (l.map f) :=
  (List.filter_sublist).map f

theorem find?_id_mem {α : Type} (f : α → Nat) (l : List α) (c : Nat) (x : α)
    (h : l.find? (fun y => f y == c) = some x) : x ∈ l ∧ f x = c := by
  have h1 := List.mem_of_find?_eq_some h
  have h2 := List.find?_some h
  exact ⟨h1, by simpa using h2⟩

/-! ### the primitive transitions -/

/-- removing the pending-outgoing entry `c` (present) keeps the invariant and frees `c` -/
theorem removePendOut_inv (s : State) (c : Nat) (h : Inv s) (hc : c ∈ idsO s) :
    Inv (removePendOut s c) ∧ c ∉ idsO (removePendOut s c) ∧ c ∉ idsI s ∧ c ∉ idsE s ∧ c < s.nextId := by
  have hlen := filter_ne_length (fun x : PendingOut => x.id) s.pendOut c h.ndO hc
  have hsub : (idsO (removePendOut s c)).Sublist (idsO s) := map_filter_sublist _ _ _
  refine ⟨⟨?_, h.cPI, h.cEO, h.cEI, hsub.nodup h.ndO, h.ndI, h.ndE, ?_, ?_, h.dIE, ?_, h.frI, h.frE⟩,
    filter_ne_not_mem (fun x : PendingOut => x.id) s.pendOut c, h.dOI c hc, h.dOE c hc, h.frO c hc⟩
  · simp only [removePendOut]; rw [h.cPO]; omega
  · intro i hi; exact h.dOI i (hsub.subset hi)
  · intro i hi; exact h.dOE i (hsub.subset hi)
  · intro i hi; exact h.frO i (hsub.subset hi)

theorem removePendIn_inv (s : State) (c : Nat) (h : Inv s) (hc : c ∈ idsI s) :
    Inv (removePendIn s c) ∧ c ∉ idsI (removePendIn s c) ∧ c ∉ idsO s ∧ c ∉ idsE s ∧ c < s.nextId := by
  have hlen := filter_ne_length (fun x : PendingIn => x.id) s.pendIn c h.ndI hc
  have hsub : (idsI (removePendIn s c)).Sublist (idsI s) := map_filter_sublist _ _ _
  refine ⟨⟨h.cPO, ?_, h.cEO, h.cEI, h.ndO, hsub.nodup h.ndI, h.ndE, ?_, h.dOE, ?_, h.frO, ?_, h.frE⟩,
    filter_ne_not_mem (fun x : PendingIn => x.id) s.pendIn c, fun hO => h.dOI c hO hc, h.dIE c hc, h.frI c hc⟩
  · simp only [removePendIn]; rw [h.cPI]; omega
  · intro i hi hi'; exact h.dOI i hi (hsub.subset hi')
  · intro i hi; exact h.dIE i (hsub.subset hi)
  · intro i hi; exact h.frI i (hsub.subset hi)

/-- registering a new established connection under an id that is free and below `nextId` -/
theorem establish_inv (s : State) (id p : Nat) (o md : Bool) (mk : Nat) (f : List Maddr)
    (h : Inv s) (hO : id ∉ idsO s) (hI : id ∉ idsI s) (hE : id ∉ idsE s) (hlt : id < s.nextId) :
    Inv (establish s id p o md mk f).1 := by
  have hE' : idsE (establish s id p o md mk f).1 = idsE s ++ [id] := by simp [idsE, establish]
  refine ⟨?_, ?_, ?_, ?_, h.ndO, h.ndI, ?_, h.dOI, ?_, ?_, h.frO, h.frI, ?_⟩
  · simp [establish, h.cPO]
  · simp [establish, h.cPI]
  · cases o <;> simp [establish, h.cEO, List.filter_append]
  · cases o <;> simp [establish, h.cEI, List.filter_append]
  · rw [hE']
    exact List.nodup_append.2 ⟨h.ndE, by simp, by
      intro a ha b hb hab
      simp at hb; subst hb; subst hab; exact hE ha⟩
  · intro i hi hi'
    rw [hE'] at hi'
    rcases List.mem_append.1 hi' with h1 | h1
    · exact h.dOE i hi h1
    · simp at h1; subst h1; exact hO hi
  · intro i hi hi'
    rw [hE'] at hi'
    rcases List.mem_append.1 hi' with h1 | h1
    · exact h.dIE i hi h1
    · simp at h1; subst h1; exact hI hi
  · intro i hi
    rw [hE'] at hi
    have hn : (establish s id p o md mk f).1.nextId = s.nextId := by simp [establish]
    rw [hn]
    rcases List.mem_append.1 hi with h1 | h1
    · exact h.frE i h1
    · simp at h1; subst h1; exact hlt

/-- a state that differs from an invariant state only in components the invariant ignores -/
theorem inv_congr (s s' : State) (h : Inv s)
    (h1 : s'.pendOut = s.pendOut) (h2 : s'.pendIn = s.pendIn) (h3 : s'.est = s.est)
    (h4 : s'.cPO = s.cPO) (h5 : s'.cPI = s.cPI) (h6 : s'.cEO = s.cEO) (h7 : s'.cEI = s.cEI)
    (h8 : s.nextId ≤ s'.nextId) : Inv s' := by
  have eO : idsO s' = idsO s := by simp [idsO, h1]
  have eI : idsI s' = idsI s := by simp [idsI, h2]
  have eE : idsE s' = idsE s := by simp [idsE, h3]
  refine ⟨by rw [h4, h1]; exact h.cPO, by rw [h5, h2]; exact h.cPI, by rw [h6, h3]; exact h.cEO,
    by rw [h7, h3]; exact h.cEI, eO ▸ h.ndO, eI ▸ h.ndI, eE ▸ h.ndE, ?_, ?_, ?_, ?_, ?_, ?_⟩
  · rw [eO, eI]; exact h.dOI
  · rw [eO, eE]; exact h.dOE
  · rw [eI, eE]; exact h.dIE
  · rw [eO]; intro i hi; exact Nat.lt_of_lt_of_le (h.frO i hi) h8
  · rw [eI]; intro i hi; exact Nat.lt_of_lt_of_le (h.frI i hi) h8
  · rw [eE]; intro i hi; exact Nat.lt_of_lt_of_le (h.frE i hi) h8

theorem dial_inv (s : State) (v : Bool) (c : Cond) (p : Option Nat) (a : List Maddr) (e : Bool)
    (b : List Maddr) (d : Bool) (r : List Maddr) (h : Inv s) : Inv (dial s v c p a e b d r).1 := by
  unfold dial
  cases dialPeer s p a with
  | none => exact h
  | some peer =>
    simp only
    have hrej : ∀ (er : DialErr) (evs : List Ev), Inv (dialRejected s v s.nextId er evs).1 := by
      intro er evs
      exact inv_congr s _ h rfl rfl rfl rfl rfl rfl rfl (Nat.le_succ _)
    split
    · exact hrej _ _
    · split
      · exact hrej _ _
      · split
        · exact hrej _ _
        · unfold dialAccepted
          simp only
          split
          · exact inv_congr s _ h rfl rfl rfl rfl rfl rfl rfl (Nat.le_succ _)
          · -- a new pending outgoing connection under the fresh id `s.nextId`
            have hO : s.nextId ∉ idsO s := fun hm => Nat.lt_irrefl _ (h.frO _ hm)
            have hI : s.nextId ∉ idsI s := fun hm => Nat.lt_irrefl _ (h.frI _ hm)
            have hE : s.nextId ∉ idsE s := fun hm => Nat.lt_irrefl _ (h.frE _ hm)
            refine ⟨?_, h.cPI, h.cEO, h.cEI, ?_, h.ndI, h.ndE, ?_, ?_, h.dIE, ?_, ?_, ?_⟩
            · simp [h.cPO]
            · simp only [idsO, List.map_append, List.map_cons, List.map_nil]
              exact List.nodup_append.2 ⟨h.ndO, by simp, by
                intro x hx y hy hxy
                simp at hy; subst hy; subst hxy; exact hO hx⟩
            · intro i hi
              simp only [idsO, List.map_append, List.map_cons, List.map_nil, List.mem_append,
                List.mem_singleton] at hi
              rcases hi with h1 | h1
              · exact h.dOI i h1
              · subst h1; exact hI
            · intro i hi
              simp only [idsO, List.map_append, List.map_cons, List.map_nil, List.mem_append,
                List.mem_singleton] at hi
              rcases hi with h1 | h1
              · exact h.dOE i h1
              · subst h1; exact hE
            · intro i hi
              simp only [idsO, List.map_append, List.map_cons, List.map_nil, List.mem_append,
                List.mem_singleton] at hi
              rcases hi with h1 | h1
              · exact Nat.lt_succ_of_lt (h.frO i h1)
              · subst h1; exact Nat.lt_succ_self _
            · intro i hi; exact Nat.lt_succ_of_lt (h.frI i hi)
            · intro i hi; exact Nat.lt_succ_of_lt (h.frE i hi)

theorem findPendOut_mem (l : List PendingOut) (k : Nat) (pc : PendingOut)
    (h : findPendOut l k = some pc) : pc ∈ l := List.mem_of_find?_eq_some h

theorem resolveDial_inv (s : State) (k p : Nat) (d : Bool) (h : Inv s) : Inv (resolveDial s k p d).1 := by
  unfold resolveDial
  cases hf : findPendOut s.pendOut k with
  | none => exact h
  | some pc =>
    have hmem : pc.id ∈ idsO s := List.mem_map_of_mem (findPendOut_mem _ _ _ hf)
    obtain ⟨hinv, hO, hI, hE, hlt⟩ := removePendOut_inv s pc.id h hmem
    simp only
    cases checkPeerId pc.peer p (removePendOut s pc.id).localPeer with
    | wrongPeerId => exact hinv
    | localPeerId => exact hinv
    | ok =>
      cases d with
      | true => exact hinv
      | false =>
        exact establish_inv (removePendOut s pc.id) pc.id p true true k (pc.errors.map (·.1)) hinv hO hI hE hlt

theorem updatePendOut_inv (s : State) (g : PendingOut → PendingOut) (hg : ∀ q, (g q).id = q.id) (h : Inv s) :
    Inv { s with pendOut := s.pendOut.map g } := by
  have hmap : ∀ (l : List PendingOut), (l.map g).map (·.id) = l.map (·.id) := by
    intro l; induction l with
    | nil => rfl
    | cons a t ih => simp [hg, ih]
  have e : idsO { s with pendOut := s.pendOut.map g } = idsO s := hmap s.pendOut
  refine ⟨?_, h.cPI, h.cEO, h.cEI, e ▸ h.ndO, h.ndI, h.ndE, ?_, ?_, h.dIE, ?_, h.frI, h.frE⟩
  · simp [h.cPO]
  · rw [e]; exact h.dOI
  · rw [e]; exact h.dOE
  · rw [e]; exact h.frO

theorem failDial_inv (s : State) (k : Nat) (h : Inv s) : Inv (failDial s k).1 := by
  unfold failDial
  cases hf : findPendOut s.pendOut k with
  | none => exact h
  | some pc =>
    have hmem : pc.id ∈ idsO s := List.mem_map_of_mem (findPendOut_mem _ _ _ hf)
    simp only
    split
    · exact (removePendOut_inv s pc.id h hmem).1
    · -- only `inflight` / `errors` of one entry change: ids and lengths are the same
      exact updatePendOut_inv s _ (by intro q; split <;> rfl) h

theorem incoming_inv (s : State) (d : Bool) (h : Inv s) : Inv (incoming s d).1 := by
  unfold incoming
  simp only
  split
  · exact inv_congr s _ h rfl rfl rfl rfl rfl rfl rfl (Nat.le_succ _)
  · have hO : s.nextId ∉ idsO s := fun hm => Nat.lt_irrefl _ (h.frO _ hm)
    have hI : s.nextId ∉ idsI s := fun hm => Nat.lt_irrefl _ (h.frI _ hm)
    have hE : s.nextId ∉ idsE s := fun hm => Nat.lt_irrefl _ (h.frE _ hm)
    refine ⟨h.cPO, ?_, h.cEO, h.cEI, h.ndO, ?_, h.ndE, ?_, h.dOE, ?_, ?_, ?_, ?_⟩
    · simp [h.cPI]
    · simp only [idsI, List.map_append, List.map_cons, List.map_nil]
      exact List.nodup_append.2 ⟨h.ndI, by simp, by
        intro x hx y hy hxy
        simp at hy; subst hy; subst hxy; exact hI hx⟩
    · intro i hi hi'
      simp only [idsI, List.map_append, List.map_cons, List.map_nil, List.mem_append,
        List.mem_singleton] at hi'
      rcases hi' with h1 | h1
      · exact h.dOI i hi h1
      · subst h1; exact hO hi
    · intro i hi
      simp only [idsI, List.map_append, List.map_cons, List.map_nil, List.mem_append,
        List.mem_singleton] at hi
      rcases hi with h1 | h1
      · exact h.dIE i h1
      · subst h1; exact hE
    · intro i hi; exact Nat.lt_succ_of_lt (h.frO i hi)
    · intro i hi
      simp only [idsI, List.map_append, List.map_cons, List.map_nil, List.mem_append,
        List.mem_singleton] at hi
      rcases hi with h1 | h1
      · exact Nat.lt_succ_of_lt (h.frI i h1)
      · subst h1; exact Nat.lt_succ_self _
    · intro i hi; exact Nat.lt_succ_of_lt (h.frE i hi)

theorem resolveIn_inv (s : State) (k p : Nat) (d : Bool) (h : Inv s) : Inv (resolveIn s k p d).1 := by
  unfold resolveIn
  cases hf : s.pendIn.find? (·.k == k) with
  | none => exact h
  | some pc =>
    have hmem : pc.id ∈ idsI s := List.mem_map_of_mem (List.mem_of_find?_eq_some hf)
    obtain ⟨hinv, hI, hO, hE, hlt⟩ := removePendIn_inv s pc.id h hmem
    simp only
    cases checkPeerId none p (removePendIn s pc.id).localPeer with
    | wrongPeerId => exact hinv
    | localPeerId => exact hinv
    | ok =>
      cases d with
      | true => exact hinv
      | false => exact establish_inv (removePendIn s pc.id) pc.id p false false k [] hinv hO hI hE hlt

theorem failIn_inv (s : State) (k : Nat) (h : Inv s) : Inv (failIn s k).1 := by
  unfold failIn
  cases hf : s.pendIn.find? (·.k == k) with
  | none => exact h
  | some pc =>
    exact (removePendIn_inv s pc.id h (List.mem_map_of_mem (List.mem_of_find?_eq_some hf))).1

/-- the entry with id `c` is the only one removed by `filter (·.id != c)` -/
theorem filter_split : ∀ (l : List Est) (c : Nat) (e : Est) (q : Est → Bool),
    (l.map (·.id)).Nodup → e ∈ l → e.id = c →
    (l.filter q).length = ((l.filter (·.id != c)).filter q).length + (if q e then 1 else 0) := by
  intro l
  induction l with
  | nil => intro c e q _ hmem; simp at hmem
  | cons a t ih =>
    intro c e q hnd hmem hid
    simp only [List.map_cons, List.nodup_cons] at hnd
    rcases List.mem_cons.1 hmem with rfl | hm
    · have hne : ∀ y ∈ t, (y.id != c) = true := by
        intro y hy
        have : y.id ≠ e.id := fun hh => hnd.1 (hh ▸ List.mem_map_of_mem hy)
        simpa [bne, hid] using this
      have ht : t.filter (·.id != c) = t := List.filter_eq_self.2 hne
      have he : (e.id != c) = false := by simp [hid]
      rw [List.filter_cons (p := fun x : Est => x.id != c)]
      simp only [he, Bool.false_eq_true, ↓reduceIte, ht]
      rw [List.filter_cons]
      split <;> simp
    · have hac : (a.id != c) = true := by
        have : a.id ≠ c := by
          intro hh
          exact hnd.1 (hh ▸ hid ▸ List.mem_map_of_mem hm)
        simpa [bne] using this
      have := ih c e q hnd.2 hm hid
      rw [List.filter_cons (p := fun x : Est => x.id != c)]
      simp only [hac, ↓reduceIte]
      rw [List.filter_cons (p := q), List.filter_cons (p := q)]
      split <;> simp [this] <;> omega

theorem closeConn_inv (s : State) (c : Nat) (g : Bool) (h : Inv s) : Inv (closeConn s c g).1 := by
  unfold closeConn
  cases hf : s.est.find? (·.id == c) with
  | none => exact h
  | some e =>
    obtain ⟨hmem, hid⟩ := find?_id_mem (fun x : Est => x.id) s.est c e hf
    have hc : c ∈ idsE s := hid ▸ List.mem_map_of_mem hmem
    have hsub : ((s.est.filter (·.id != c)).map (·.id)).Sublist (idsE s) := map_filter_sublist _ _ _
    have hsplit := fun q => filter_split s.est c e q h.ndE hmem hid
    have hO := hsplit (·.out)
    have hI := hsplit (fun x => !x.out)
    refine ⟨h.cPO, h.cPI, ?_, ?_, h.ndO, h.ndI, hsub.nodup h.ndE, h.dOI, ?_, ?_, h.frO, h.frI, ?_⟩
    · show (if e.out = true then s.cEO - 1 else s.cEO) = _
      rw [h.cEO, hO]; cases e.out <;> simp
    · show (if e.out = true then s.cEI else s.cEI - 1) = _
      rw [h.cEI, hI]; cases e.out <;> simp
    · intro i hi hi'; exact h.dOE i hi (hsub.subset hi')
    · intro i hi hi'; exact h.dIE i hi (hsub.subset hi')
    · intro i hi; exact h.frE i (hsub.subset hi)

theorem closeMany_inv (cs : List Nat) : ∀ (s : State), Inv s → Inv (closeMany s cs).1 := by
  induction cs with
  | nil => intro s h; exact h
  | cons c cs ih => intro s h; simp only [closeMany]; exact ih _ (closeConn_inv s c true h)

theorem abortOne_inv (s : State) (c : Nat) (h : Inv s) : Inv (abortOne s c).1 := by
  unfold abortOne
  cases hf : s.pendOut.find? (·.id == c) with
  | none => exact h
  | some pc =>
    obtain ⟨hmem, hid⟩ := find?_id_mem (fun x : PendingOut => x.id) s.pendOut c pc hf
    exact (removePendOut_inv s c h (hid ▸ List.mem_map_of_mem hmem)).1

theorem abortMany_inv (cs : List Nat) : ∀ (s : State), Inv s → Inv (abortMany s cs).1 := by
  induction cs with
  | nil => intro s h; exact h
  | cons c cs ih => intro s h; simp only [abortMany]; exact ih _ (abortOne_inv s c h)

theorem disconnect_inv (s : State) (p : Nat) (o a : List Nat) (r : State × List Ev) (h : Inv s)
    (hd : disconnect s p o a = some r) : Inv r.1 := by
  rw [disconnect_eq s p o a r hd]
  exact abortMany_inv a _ (closeMany_inv o s h)

/-- **every transition preserves the bookkeeping invariant** -/
theorem step_inv (s : State) (op : Op) (h : Inv s) : Inv (step s op).1 := by
  cases op with
  | dial v c p a e b d r => exact dial_inv s v c p a e b d r h
  | resolve k p d => exact resolveDial_inv s k p d h
  | fail k => exact failDial_inv s k h
  | incoming d => exact incoming_inv s d h
  | resolveIn k p d => exact resolveIn_inv s k p d h
  | failIn k => exact failIn_inv s k h
  | close c => exact closeConn_inv s c true h
  | disconnect p o a =>
    simp only [step]
    cases hd : disconnect s p o a with
    | none => exact h
    | some r => exact disconnect_inv s p o a r h hd
  | remoteClose c => exact closeConn_inv s c false h
  | newAddr a => exact inv_congr s _ h rfl rfl rfl rfl rfl rfl rfl (Nat.le_refl _)
  | expire a => exact inv_congr s _ h rfl rfl rfl rfl rfl rfl rfl (Nat.le_refl _)
  | behClose p one o a =>
    simp only [step]
    cases one with
    | some c => exact closeConn_inv s c true h
    | none =>
      simp only
      cases hd : disconnect s p o a with
      | none => exact h
      | some r => exact disconnect_inv s p o a r h hd

/-- the invariant holds after every operation history -/
theorem inv_reachable (peerIds : List (List Nat)) (ops : List Op) :
    Inv (ops.foldl (fun s o => (step s o).1) (State.init peerIds)) := by
  have : ∀ (ops : List Op) (s : State), Inv s → Inv (ops.foldl (fun s o => (step s o).1) s) := by
    intro ops
    induction ops with
    | nil => intro s h; exact h
    | cons o os ih => intro s h; exact ih _ (step_inv s o h)
  exact this ops _ (inv_init peerIds)

end Swarm
