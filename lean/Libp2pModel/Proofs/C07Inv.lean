import Libp2pModel.Model.C07
/-!
# C07 — the joint invariant (targeting, per-handler order, justified drops) and its preservation
-/
namespace C07

def okTgt : Target → Nat → Prop
  | .one c, id => id = c
  | .any ids, id => id ∈ ids

/-- no `NotifyHandler` command behind a `Close` -/
def noNAC : List Cmd → Prop
  | [] => True
  | .notify _ :: r => noNAC r
  | .close :: r => Cmd.notes r = []

/-- everything the handler of `k` has received or will receive, in order -/
def Conn.seq (k : Conn) : List Note := k.got ++ Cmd.notes k.q

/-- per-connection invariant, relative to the numbers `U` not yet sent and the next fresh number -/
structure CI (U : List Nat) (nx : Nat) (k : Conn) : Prop where
  tgt : ∀ e ∈ k.seq, okTgt e.tgt k.id
  sorted : (k.seq.map (·.n)).Pairwise (· < ·)
  below : ∀ e ∈ k.seq, e.n < nx ∧ ∀ m ∈ U, e.n < m
  open_ : k.closing = false → Cmd.close ∉ k.q
  nac : noNAC k.q

def pendNums : Option Pending → List Nat
  | none => []
  | some p => [p.e.n]

def State.U (s : State) : List Nat := pendNums s.pending ++ BCmd.nums s.behQ

def pendOK (p : Pending) : Prop :=
  match p.cur with
  | .one c => p.e.tgt = .one c
  | .any cur => ∃ ids, p.e.tgt = .any ids ∧ ∀ id ∈ cur, id ∈ ids

structure Inv (s : State) : Prop where
  fixed : s.fixed = true
  conns : ∀ k ∈ s.conns ++ s.gone, CI s.U s.nextEv k
  usorted : s.U.Pairwise (· < ·)
  ubound : ∀ m ∈ s.U, m < s.nextEv
  pend : ∀ p, s.pending = some p → pendOK p
  drops : ∀ d ∈ s.dropped, d.live = []

/-! ### list helpers -/

theorem notes_append (a b : List Cmd) : Cmd.notes (a ++ b) = Cmd.notes a ++ Cmd.notes b := by
  induction a with
  | nil => rfl
  | cons c r ih => cases c <;> simp [Cmd.notes, ih]

theorem noNAC_append_close (q : List Cmd) (h : noNAC q) : noNAC (q ++ [.close]) := by
  induction q with
  | nil => simp [noNAC, Cmd.notes]
  | cons c r ih =>
    cases c with
    | notify e => simpa [noNAC] using ih h
    | close => simp [noNAC] at h ⊢; simp [notes_append, h, Cmd.notes]

theorem noNAC_append_notify (q : List Cmd) (e : Note) (h : Cmd.close ∉ q) : noNAC (q ++ [.notify e]) := by
  induction q with
  | nil => simp [noNAC]
  | cons c r ih =>
    cases c with
    | notify e' => simp [noNAC]; exact ih (fun hm => h (List.mem_cons_of_mem _ hm))
    | close => simp at h

theorem mem_upd {cs : List Conn} {c : Nat} {f : Conn → Conn} {k : Conn} (h : k ∈ upd cs c f) :
    k ∈ cs ∨ ∃ k0 ∈ cs, k0.id = c ∧ k = f k0 := by
  induction cs with
  | nil => simp [upd] at h
  | cons a r ih =>
    unfold upd at h
    by_cases ha : (a.id == c) = true
    · rw [if_pos ha] at h
      rcases List.mem_cons.1 h with h | h
      · exact Or.inr ⟨a, by simp, by simpa using ha, h⟩
      · exact Or.inl (by simp [h])
    · rw [if_neg ha] at h
      rcases List.mem_cons.1 h with h | h
      · exact Or.inl (by simp [h])
      · rcases ih h with h | ⟨k0, hk0, hid, hk⟩
        · exact Or.inl (by simp [h])
        · exact Or.inr ⟨k0, by simp [hk0], hid, hk⟩

theorem mem_eraseConn {cs : List Conn} {c : Nat} {k : Conn} (h : k ∈ eraseConn cs c) : k ∈ cs := by
  induction cs with
  | nil => simp [eraseConn] at h
  | cons a r ih =>
    unfold eraseConn at h
    by_cases ha : (a.id == c) = true
    · rw [if_pos ha] at h; simp [h]
    · rw [if_neg ha] at h
      rcases List.mem_cons.1 h with h | h
      · simp [h]
      · simp [ih h]

theorem findConn_mem {cs : List Conn} {c : Nat} {k : Conn} (h : findConn cs c = some k) :
    k ∈ cs ∧ k.id = c := by
  unfold findConn at h
  exact ⟨List.mem_of_find?_eq_some h, by simpa using List.find?_some h⟩

/-! ### per-connection preservation -/

theorem CI.mono {U U' : List Nat} {nx nx' : Nat} {k : Conn} (h : CI U nx k)
    (hU : ∀ m ∈ U', m ∈ U ∨ nx ≤ m) (hn : nx ≤ nx') : CI U' nx' k where
  tgt := h.tgt
  sorted := h.sorted
  below := by
    intro e he
    obtain ⟨h1, h2⟩ := h.below e he
    refine ⟨by omega, ?_⟩
    intro m hm
    rcases hU m hm with hm | hm
    · exact h2 m hm
    · omega
  open_ := h.open_
  nac := h.nac

theorem startClose_fields (buf : Nat) (k : Conn) :
    (k.startClose buf).seq = k.seq ∧ (k.startClose buf).id = k.id ∧ (k.startClose buf).closing = true ∧
    ((k.startClose buf).q = k.q ∨ (k.startClose buf).q = k.q ++ [.close]) ∧
    (k.startClose buf).got = k.got := by
  unfold Conn.startClose Conn.seq
  split <;> simp [notes_append, Cmd.notes]

theorem CI.startClose {U : List Nat} {nx : Nat} {k : Conn} (buf : Nat) (h : CI U nx k) :
    CI U nx (k.startClose buf) := by
  obtain ⟨h1, h2, hcl, hq, _⟩ := startClose_fields buf k
  refine ⟨?_, ?_, ?_, ?_, ?_⟩
  · rw [h1, h2]; exact h.tgt
  · rw [h1]; exact h.sorted
  · rw [h1]; exact h.below
  · intro hc; rw [hcl] at hc; cases hc
  · rcases hq with hq | hq <;> rw [hq]
    · exact h.nac
    · exact noNAC_append_close _ h.nac

theorem push_fields (buf : Nat) (e : Note) (k : Conn) :
    (k.push buf e).seq = k.seq ++ [e] ∧ (k.push buf e).id = k.id ∧
      (k.push buf e).q = k.q ++ [.notify e] ∧ (k.push buf e).closing = k.closing ∧
      (k.push buf e).got = k.got := by
  unfold Conn.push Conn.seq
  simp [notes_append, Cmd.notes]

theorem CI.push {U : List Nat} {nx : Nat} {k : Conn} (buf : Nat) (e : Note) (h : CI (e.n :: U) nx k)
    (hU : (e.n :: U).Pairwise (· < ·)) (hb : e.n < nx)
    (ht : okTgt e.tgt k.id) (hc : k.closing = false) : CI U nx (k.push buf e) := by
  obtain ⟨h1, h2, h3, h4, _⟩ := push_fields buf e k
  have hU' := List.pairwise_cons.1 hU
  refine ⟨?_, ?_, ?_, ?_, ?_⟩
  · rw [h1, h2]
    intro x hx
    rcases List.mem_append.1 hx with hx | hx
    · exact h.tgt x hx
    · simp at hx; subst hx; exact ht
  · rw [h1, List.map_append, List.pairwise_append]
    refine ⟨h.sorted, by simp, ?_⟩
    intro a ha b hb'
    simp at hb'
    subst hb'
    obtain ⟨x, hx, rfl⟩ := List.mem_map.1 ha
    exact (h.below x hx).2 e.n (by simp)
  · rw [h1]
    intro x hx
    rcases List.mem_append.1 hx with hx | hx
    · obtain ⟨ha, hb'⟩ := h.below x hx
      exact ⟨ha, fun m hm => hb' m (by simp [hm])⟩
    · simp at hx; subst hx
      exact ⟨hb, fun m hm => hU'.1 m hm⟩
  · rw [h3, h4]
    intro hcl hm
    rcases List.mem_append.1 hm with hm | hm
    · exact h.open_ hcl hm
    · simp at hm
  · rw [h3]; exact noNAC_append_notify _ _ (h.open_ hc)

theorem unparkOne_fields (k : Conn) : k.unparkOne.id = k.id ∧ k.unparkOne.got = k.got ∧
    k.unparkOne.closing = k.closing ∧ k.unparkOne.q = k.q ∧ k.unparkOne.done = k.done ∧
    k.unparkOne.muxFail = k.muxFail := by
  unfold Conn.unparkOne; split <;> simp

theorem runCmds_notify (k : Conn) (e : Note) (rest : List Cmd) :
    runCmds k (.notify e :: rest) =
      ((runCmds { k.unparkOne with got := k.got ++ [e] } rest).1,
       e :: (runCmds { k.unparkOne with got := k.got ++ [e] } rest).2.1,
       (runCmds { k.unparkOne with got := k.got ++ [e] } rest).2.2) := by
  rw [runCmds]

/-- what `runCmds` does to the ghost-relevant fields -/
theorem runCmds_spec (q : List Cmd) : ∀ (k : Conn),
    (runCmds k q).1.id = k.id ∧ (runCmds k q).1.q = [] ∧ (runCmds k q).1.closing = k.closing ∧
    (noNAC q → (runCmds k q).2.2 = [] ∧ (runCmds k q).1.got = k.got ++ Cmd.notes q ∧
      (runCmds k q).2.1 = Cmd.notes q) := by
  induction q with
  | nil => intro k; simp [runCmds, Cmd.notes]
  | cons c rest ih =>
    intro k
    cases c with
    | close =>
      simp only [runCmds, noNAC, Cmd.notes]
      refine ⟨trivial, trivial, trivial, ?_⟩
      intro h; simp [h]
    | notify e =>
      rw [runCmds_notify]
      simp only [noNAC, Cmd.notes]
      have hu := unparkOne_fields k
      obtain ⟨a, b, c, f⟩ := ih { k.unparkOne with got := k.got ++ [e] }
      refine ⟨by rw [a]; exact hu.1, b, by rw [c]; exact hu.2.2.1, ?_⟩
      intro h
      obtain ⟨f1, f2, f3⟩ := f h
      refine ⟨f1, ?_, by rw [f3]⟩
      rw [f2]; simp

theorem runTask_spec (k : Conn) :
    k.runTask.1.id = k.id ∧ k.runTask.1.closing = k.closing ∧
    (noNAC k.q → k.runTask.2.2 = [] ∧ k.runTask.1.seq = k.seq ∧ (k.runTask.1.q = [] ∨ k.runTask.1 = k) ∧
      k.runTask.1.got = k.got ++ k.runTask.2.1) := by
  unfold Conn.runTask
  by_cases hd : k.done = true
  · simp [hd]
  · simp only [hd, Bool.false_eq_true, ↓reduceIte]
    obtain ⟨a, b, c, f⟩ := runCmds_spec k.q k
    split
    · refine ⟨a, c, ?_⟩
      intro hn; obtain ⟨f1, f2, f3⟩ := f hn
      exact ⟨f1, by simp [Conn.seq, f2, b, Cmd.notes], Or.inl b, by rw [f2, f3]⟩
    · split
      · refine ⟨a, c, ?_⟩
        intro hn; obtain ⟨f1, f2, f3⟩ := f hn
        exact ⟨f1, by simp [Conn.seq, f2, b, Cmd.notes], Or.inl b, by simp [f2, f3]⟩
      · refine ⟨a, c, ?_⟩
        intro hn; obtain ⟨f1, f2, f3⟩ := f hn
        exact ⟨f1, by simp [Conn.seq, f2, b, Cmd.notes], Or.inl b, by rw [f2, f3]⟩

theorem CI.runTask {U : List Nat} {nx : Nat} {k : Conn} (h : CI U nx k) :
    CI U nx k.runTask.1 ∧ k.runTask.2.2 = [] := by
  obtain ⟨a, c, f⟩ := runTask_spec k
  obtain ⟨f1, f2, f3, _⟩ := f h.nac
  refine ⟨⟨?_, ?_, ?_, ?_, ?_⟩, f1⟩
  · rw [f2, a]; exact h.tgt
  · rw [f2]; exact h.sorted
  · rw [f2]; exact h.below
  · rcases f3 with f3 | f3
    · intro _; rw [f3]; simp
    · rw [f3]; exact h.open_
  · rcases f3 with f3 | f3
    · rw [f3]; trivial
    · rw [f3]; exact h.nac

end C07
