import Libp2pModel.Model.C07
/-!
# C07 — the joint invariant (targeting, per-handler order, justified drops) and its preservation
-/
namespace C07

def okTgt : Target → Nat → Prop
  | .one c, id => id = c
  | .any ids, id => id ∈ ids

/-- no `NotifyHandler` command behind a `Close` -/
def noNAC : List Cmd → Prop
  | [] => True
  | .notify _ :: r => noNAC r
  | .close :: r => Cmd.notes r = []

/-- everything the handler of `k` has received or will receive, in order -/
def Conn.seq (k : Conn) : List Note := k.got ++ Cmd.notes k.q

/-- per-connection invariant, relative to the numbers `U` not yet sent and the next fresh number -/
structure CI (U : List Nat) (nx : Nat) (k : Conn) : Prop where
  tgt : ∀ e ∈ k.seq, okTgt e.tgt k.id
  sorted : (k.seq.map (·.n)).Pairwise (· < ·)
  below : ∀ e ∈ k.seq, e.n < nx ∧ ∀ m ∈ U, e.n < m
  open_ : k.closing = false → Cmd.close ∉ k.q
  nac : noNAC k.q

def pendNums : Option Pending → List Nat
  | none => []
  | some p => [p.e.n]

def State.U (s : State) : List Nat := pendNums s.pending ++ BCmd.nums s.behQ

def pendOK (p : Pending) : Prop :=
  match p.cur with
  | .one c => p.e.tgt = .one c
  | .any cur => ∃ ids, p.e.tgt = .any ids ∧ ∀ id ∈ cur, id ∈ ids

structure Inv (s : State) : Prop where
  fixed : s.fixed = true
  conns : ∀ k ∈ s.conns ++ s.gone, CI s.U s.nextEv k
  usorted : s.U.Pairwise (· < ·)
  ubound : ∀ m ∈ s.U, m < s.nextEv
  pend : ∀ p, s.pending = some p → pendOK p
  drops : ∀ d ∈ s.dropped, d.live = []

/-! ### list helpers -/

theorem notes_append (a b : List Cmd) : Cmd.notes (a ++ b) = Cmd.notes a ++ Cmd.notes b := by
  induction a with
  | nil => rfl
  | cons c r ih => cases c <;> simp [Cmd.notes, ih]

theorem noNAC_append_close (q : List Cmd) (h : noNAC q) : noNAC (q ++ [.close]) := by
  induction q with
  | nil => simp [noNAC, Cmd.notes]
  | cons c r ih =>
    cases c with
    | notify e => simpa [noNAC] using ih h
    | close => simp [noNAC] at h ⊢; simp [notes_append, h, Cmd.notes]

theorem noNAC_append_notify (q : List Cmd) (e : Note) (h : Cmd.close ∉ q) : noNAC (q ++ [.notify e]) := by
  induction q with
  | nil => simp [noNAC]
  | cons c r ih =>
    cases c with
    | notify e' => simp [noNAC]; exact ih (fun hm => h (List.mem_cons_of_mem _ hm))
    | close => simp at h

theorem mem_upd {cs : List Conn} {c : Nat} {f : Conn → Conn} {k : Conn} (h : k ∈ upd cs c f) :
    k ∈ cs ∨ ∃ k0, findConn cs c = some k0 ∧ k = f k0 := by
  induction cs with
  | nil => simp [upd] at h
  | cons a r ih =>
    unfold upd at h
    by_cases ha : (a.id == c) = true
    · rw [if_pos ha] at h
      rcases List.mem_cons.1 h with h | h
      · exact Or.inr ⟨a, by simp [findConn, List.find?, ha], h⟩
      · exact Or.inl (by simp [h])
    · rw [if_neg ha] at h
      rcases List.mem_cons.1 h with h | h
      · exact Or.inl (by simp [h])
      · rcases ih h with h | ⟨k0, hk0, hk⟩
        · exact Or.inl (by simp [h])
        · refine Or.inr ⟨k0, ?_, hk⟩
          simp only [findConn, List.find?] at hk0 ⊢
          simp [ha, hk0]

theorem mem_eraseConn {cs : List Conn} {c : Nat} {k : Conn} (h : k ∈ eraseConn cs c) : k ∈ cs := by
  induction cs with
  | nil => simp [eraseConn] at h
  | cons a r ih =>
    unfold eraseConn at h
    by_cases ha : (a.id == c) = true
    · rw [if_pos ha] at h; simp [h]
    · rw [if_neg ha] at h
      rcases List.mem_cons.1 h with h | h
      · simp [h]
      · simp [ih h]

theorem findConn_mem {cs : List Conn} {c : Nat} {k : Conn} (h : findConn cs c = some k) :
    k ∈ cs ∧ k.id = c := by
  unfold findConn at h
  exact ⟨List.mem_of_find?_eq_some h, by simpa using List.find?_some h⟩

/-! ### per-connection preservation -/

theorem CI.mono {U U' : List Nat} {nx nx' : Nat} {k : Conn} (h : CI U nx k)
    (hU : ∀ m ∈ U', m ∈ U ∨ nx ≤ m) (hn : nx ≤ nx') : CI U' nx' k where
  tgt := h.tgt
  sorted := h.sorted
  below := by
    intro e he
    obtain ⟨h1, h2⟩ := h.below e he
    refine ⟨by omega, ?_⟩
    intro m hm
    rcases hU m hm with hm | hm
    · exact h2 m hm
    · omega
  open_ := h.open_
  nac := h.nac

theorem startClose_fields (buf : Nat) (k : Conn) :
    (k.startClose buf).seq = k.seq ∧ (k.startClose buf).id = k.id ∧ (k.startClose buf).closing = true ∧
    ((k.startClose buf).q = k.q ∨ (k.startClose buf).q = k.q ++ [.close]) ∧
    (k.startClose buf).got = k.got := by
  unfold Conn.startClose Conn.seq
  split <;> simp [notes_append, Cmd.notes]

theorem CI.startClose {U : List Nat} {nx : Nat} {k : Conn} (buf : Nat) (h : CI U nx k) :
    CI U nx (k.startClose buf) := by
  obtain ⟨h1, h2, hcl, hq, _⟩ := startClose_fields buf k
  refine ⟨?_, ?_, ?_, ?_, ?_⟩
  · rw [h1, h2]; exact h.tgt
  · rw [h1]; exact h.sorted
  · rw [h1]; exact h.below
  · intro hc; rw [hcl] at hc; cases hc
  · rcases hq with hq | hq <;> rw [hq]
    · exact h.nac
    · exact noNAC_append_close _ h.nac

theorem push_fields (buf : Nat) (e : Note) (k : Conn) :
    (k.push buf e).seq = k.seq ++ [e] ∧ (k.push buf e).id = k.id ∧
      (k.push buf e).q = k.q ++ [.notify e] ∧ (k.push buf e).closing = k.closing ∧
      (k.push buf e).got = k.got := by
  unfold Conn.push Conn.seq
  simp [notes_append, Cmd.notes]

theorem CI.push {U : List Nat} {nx : Nat} {k : Conn} (buf : Nat) (e : Note) (h : CI (e.n :: U) nx k)
    (hU : (e.n :: U).Pairwise (· < ·)) (hb : e.n < nx)
    (ht : okTgt e.tgt k.id) (hc : k.closing = false) : CI U nx (k.push buf e) := by
  obtain ⟨h1, h2, h3, h4, _⟩ := push_fields buf e k
  have hU' := List.pairwise_cons.1 hU
  refine ⟨?_, ?_, ?_, ?_, ?_⟩
  · rw [h1, h2]
    intro x hx
    rcases List.mem_append.1 hx with hx | hx
    · exact h.tgt x hx
    · simp at hx; subst hx; exact ht
  · rw [h1, List.map_append, List.pairwise_append]
    refine ⟨h.sorted, by simp, ?_⟩
    intro a ha b hb'
    simp at hb'
    subst hb'
    obtain ⟨x, hx, rfl⟩ := List.mem_map.1 ha
    exact (h.below x hx).2 e.n (by simp)
  · rw [h1]
    intro x hx
    rcases List.mem_append.1 hx with hx | hx
    · obtain ⟨ha, hb'⟩ := h.below x hx
      exact ⟨ha, fun m hm => hb' m (by simp [hm])⟩
    · simp at hx; subst hx
      exact ⟨hb, fun m hm => hU'.1 m hm⟩
  · rw [h3, h4]
    intro hcl hm
    rcases List.mem_append.1 hm with hm | hm
    · exact h.open_ hcl hm
    · simp at hm
  · rw [h3]; exact noNAC_append_notify _ _ (h.open_ hc)

theorem unparkOne_fields (k : Conn) : k.unparkOne.id = k.id ∧ k.unparkOne.got = k.got ∧
    k.unparkOne.closing = k.closing ∧ k.unparkOne.q = k.q ∧ k.unparkOne.done = k.done ∧
    k.unparkOne.muxFail = k.muxFail := by
  unfold Conn.unparkOne; split <;> simp

theorem runCmds_notify (k : Conn) (e : Note) (rest : List Cmd) :
    runCmds k (.notify e :: rest) =
      ((runCmds { k.unparkOne with got := k.got ++ [e] } rest).1,
       e :: (runCmds { k.unparkOne with got := k.got ++ [e] } rest).2.1,
       (runCmds { k.unparkOne with got := k.got ++ [e] } rest).2.2) := by
  rw [runCmds]

/-- what `runCmds` does to the ghost-relevant fields -/
theorem runCmds_spec (q : List Cmd) : ∀ (k : Conn),
    (runCmds k q).1.id = k.id ∧ (runCmds k q).1.q = [] ∧ (runCmds k q).1.closing = k.closing ∧
    (noNAC q → (runCmds k q).2.2 = [] ∧ (runCmds k q).1.got = k.got ++ Cmd.notes q ∧
      (runCmds k q).2.1 = Cmd.notes q) := by
  induction q with
  | nil => intro k; simp [runCmds, Cmd.notes]
  | cons c rest ih =>
    intro k
    cases c with
    | close =>
      simp only [runCmds, noNAC, Cmd.notes]
      refine ⟨trivial, trivial, trivial, ?_⟩
      intro h; simp [h]
    | notify e =>
      rw [runCmds_notify]
      simp only [noNAC, Cmd.notes]
      have hu := unparkOne_fields k
      obtain ⟨a, b, c, f⟩ := ih { k.unparkOne with got := k.got ++ [e] }
      refine ⟨by rw [a]; exact hu.1, b, by rw [c]; exact hu.2.2.1, ?_⟩
      intro h
      obtain ⟨f1, f2, f3⟩ := f h
      refine ⟨f1, ?_, by rw [f3]⟩
      rw [f2]; simp

theorem runTask_spec (k : Conn) :
    k.runTask.1.id = k.id ∧ k.runTask.1.closing = k.closing ∧
    (noNAC k.q → k.runTask.2.2 = [] ∧ k.runTask.1.seq = k.seq ∧ (k.runTask.1.q = [] ∨ k.runTask.1 = k) ∧
      k.runTask.1.got = k.got ++ k.runTask.2.1) := by
  unfold Conn.runTask
  by_cases hd : k.done = true
  · simp [hd]
  · simp only [hd, Bool.false_eq_true, ↓reduceIte]
    obtain ⟨a, b, c, f⟩ := runCmds_spec k.q k
    split
    · refine ⟨a, c, ?_⟩
      intro hn; obtain ⟨f1, f2, f3⟩ := f hn
      exact ⟨f1, by simp [Conn.seq, f2, b, Cmd.notes], Or.inl b, by rw [f2, f3]⟩
    · split
      · refine ⟨a, c, ?_⟩
        intro hn; obtain ⟨f1, f2, f3⟩ := f hn
        exact ⟨f1, by simp [Conn.seq, f2, b, Cmd.notes], Or.inl b, by simp [f2, f3]⟩
      · refine ⟨a, c, ?_⟩
        intro hn; obtain ⟨f1, f2, f3⟩ := f hn
        exact ⟨f1, by simp [Conn.seq, f2, b, Cmd.notes], Or.inl b, by rw [f2, f3]⟩

theorem CI.runTask {U : List Nat} {nx : Nat} {k : Conn} (h : CI U nx k) :
    CI U nx k.runTask.1 ∧ k.runTask.2.2 = [] := by
  obtain ⟨a, c, f⟩ := runTask_spec k
  obtain ⟨f1, f2, f3, _⟩ := f h.nac
  refine ⟨⟨?_, ?_, ?_, ?_, ?_⟩, f1⟩
  · rw [f2, a]; exact h.tgt
  · rw [f2]; exact h.sorted
  · rw [f2]; exact h.below
  · rcases f3 with f3 | f3
    · intro _; rw [f3]; simp
    · rw [f3]; exact h.open_
  · rcases f3 with f3 | f3
    · rw [f3]; trivial
    · rw [f3]; exact h.nac

/-! ### state-level preservation -/

theorem Inv.same {s s' : State} (h : Inv s) (hf : s'.fixed = s.fixed) (hp : s'.pending = s.pending)
    (hb : s'.behQ = s.behQ) (hn : s'.nextEv = s.nextEv) (hd : s'.dropped = s.dropped)
    (hc : ∀ k ∈ s'.conns ++ s'.gone, CI s.U s.nextEv k) : Inv s' := by
  have hU : s'.U = s.U := by simp [State.U, hp, hb]
  exact ⟨hf ▸ h.fixed, by rw [hU, hn]; exact hc, hU ▸ h.usorted, by rw [hU, hn]; exact h.ubound,
    by rw [hp]; exact h.pend, by rw [hd]; exact h.drops⟩

theorem Inv.updConn {s : State} (h : Inv s) (c : Nat) (f : Conn → Conn)
    (hf : ∀ k, findConn s.conns c = some k → CI s.U s.nextEv k → CI s.U s.nextEv (f k)) :
    Inv { s with conns := upd s.conns c f } := by
  refine h.same rfl rfl rfl rfl rfl ?_
  intro k hk
  rcases List.mem_append.1 hk with hk | hk
  · rcases mem_upd hk with hk | ⟨k0, hk0, rfl⟩
    · exact h.conns k (List.mem_append_left _ hk)
    · exact hf k0 hk0 (h.conns k0 (List.mem_append_left _ (findConn_mem hk0).1))
  · exact h.conns k (List.mem_append_right _ hk)

theorem Inv.disconnect {s : State} (h : Inv s) (p : Nat) : Inv (disconnect s p) := by
  refine h.same rfl rfl rfl rfl rfl ?_
  intro k hk
  rcases List.mem_append.1 hk with hk | hk
  · have hk' : k ∈ s.conns.map (fun k => if k.peer == p then k.startClose s.buf else k) := hk
    obtain ⟨k0, hk0, rfl⟩ := List.mem_map.1 hk'
    have := h.conns k0 (List.mem_append_left _ hk0)
    split
    · exact this.startClose _
    · exact this
  · exact h.conns k (List.mem_append_right _ hk)

theorem nums_append (a b : List BCmd) : BCmd.nums (a ++ b) = BCmd.nums a ++ BCmd.nums b := by
  induction a with
  | nil => rfl
  | cons c r ih => cases c <;> simp [BCmd.nums, ih]

/-- appending a command with fresh number(s) -/
theorem Inv.pushNum {s : State} (h : Inv s) (cmd : BCmd) (hc : BCmd.nums [cmd] = [s.nextEv]) :
    Inv { s with behQ := s.behQ ++ [cmd], nextEv := s.nextEv + 1 } := by
  have hU : ({ s with behQ := s.behQ ++ [cmd], nextEv := s.nextEv + 1 } : State).U = s.U ++ [s.nextEv] := by
    simp [State.U, nums_append, hc]
  refine ⟨h.fixed, ?_, ?_, ?_, h.pend, h.drops⟩
  · rw [hU]
    intro k hk
    refine (h.conns k hk).mono ?_ (Nat.le_succ _)
    intro m hm
    rcases List.mem_append.1 hm with hm | hm
    · exact Or.inl hm
    · simp at hm; exact Or.inr (by omega)
  · rw [hU, List.pairwise_append]
    refine ⟨h.usorted, by simp, ?_⟩
    intro a ha b hb
    simp at hb; subst hb
    exact h.ubound a ha
  · rw [hU]
    intro m hm
    rcases List.mem_append.1 hm with hm | hm
    · have := h.ubound m hm; show m < s.nextEv + 1; omega
    · simp at hm; show m < s.nextEv + 1; omega

theorem Inv.pushPlain {s : State} (h : Inv s) (cmd : BCmd) (hc : BCmd.nums [cmd] = []) :
    Inv { s with behQ := s.behQ ++ [cmd] } := by
  have hU : ({ s with behQ := s.behQ ++ [cmd] } : State).U = s.U := by
    simp [State.U, nums_append, hc]
  exact ⟨h.fixed, by rw [hU]; exact h.conns, hU ▸ h.usorted, by rw [hU]; exact h.ubound, h.pend, h.drops⟩

theorem Inv.pushCmds (cmds : List ECmd) : ∀ {s : State}, Inv s → Inv (pushCmds s cmds) := by
  induction cmds with
  | nil => intro s h; exact h
  | cons c r ih =>
    intro s h
    cases c with
    | one c => exact ih (h.pushNum _ rfl)
    | any p ch => exact ih (h.pushNum _ rfl)
    | closeOne c => exact ih (h.pushPlain _ rfl)
    | closeAll p => exact ih (h.pushPlain _ rfl)
    | gen => exact ih (h.pushPlain _ rfl)

theorem status_some {s : State} {c : Nat} {r : Ready} (h : s.status c = some r) :
    ∃ k, findConn s.conns c = some k ∧ k.pollReady s.fixed = r := by
  unfold State.status at h
  cases hk : findConn s.conns c with
  | none => simp [hk] at h
  | some k => exact ⟨k, rfl, by simpa [hk] using h⟩

theorem pollReady_live {f : Bool} {k : Conn} (h : k.isLive = true) :
    k.pollReady f = .ok ∨ k.pollReady f = .pending := by
  unfold Conn.isLive at h
  unfold Conn.pollReady
  have h1 : k.closing = false := by cases hc : k.closing <;> simp_all
  have h2 : k.rxOpen = true := by cases hc : k.rxOpen <;> simp_all
  simp [h1, h2]

theorem pollReady_ok_open {k : Conn} (h : k.pollReady true = .ok) : k.closing = false := by
  unfold Conn.pollReady at h
  cases hc : k.closing
  · rfl
  · simp [hc] at h

theorem live_status {s : State} {id : Nat} (h : s.isLiveId id = true) :
    s.status id = some .ok ∨ s.status id = some .pending := by
  unfold State.isLiveId at h
  unfold State.status
  cases hk : findConn s.conns id with
  | none => simp [hk] at h
  | some k =>
    simp only [hk] at h
    simpa using pollReady_live (f := s.fixed) h

theorem Inv.dropHead {s : State} {p : Pending} (h : Inv s) (hp : s.pending = some p) (cur : Target)
    (hl : ({ s with pending := none } : State).liveIds cur = []) :
    Inv (({ s with pending := none } : State).dropNote p.e cur) := by
  have hU : s.U = p.e.n :: BCmd.nums s.behQ := by simp [State.U, hp, pendNums]
  have hU' : (({ s with pending := none } : State).dropNote p.e cur).U = BCmd.nums s.behQ := by
    simp [State.U, State.dropNote, pendNums]
  refine ⟨h.fixed, ?_, ?_, ?_, ?_, ?_⟩
  · rw [hU']
    intro k hk
    refine (h.conns k hk).mono ?_ (Nat.le_refl _)
    intro m hm; rw [hU]; exact Or.inl (List.mem_cons_of_mem _ hm)
  · rw [hU']; have := h.usorted; rw [hU] at this; exact (List.pairwise_cons.1 this).2
  · rw [hU']; intro m hm; exact h.ubound m (by rw [hU]; exact List.mem_cons_of_mem _ hm)
  · intro q hq; simp [State.dropNote] at hq
  · intro d hd
    simp only [State.dropNote, List.mem_append, List.mem_singleton] at hd
    rcases hd with hd | hd
    · exact h.drops d hd
    · subst hd; exact hl

theorem Inv.sendHead {s : State} {p : Pending} (h : Inv s) (hp : s.pending = some p) (c : Nat) (bad : Bool)
    (hok : s.status c = some .ok) (ht : okTgt p.e.tgt c) :
    Inv { s with pending := none, conns := upd s.conns c (Conn.push s.buf p.e), bad := bad } := by
  have hU : s.U = p.e.n :: BCmd.nums s.behQ := by simp [State.U, hp, pendNums]
  have hU' : ({ s with pending := none, conns := upd s.conns c (Conn.push s.buf p.e), bad := bad } : State).U
      = BCmd.nums s.behQ := by simp [State.U, pendNums]
  have hsub : ∀ m ∈ BCmd.nums s.behQ, m ∈ s.U ∨ s.nextEv ≤ m := by
    intro m hm; rw [hU]; exact Or.inl (List.mem_cons_of_mem _ hm)
  obtain ⟨k0, hk0, hr⟩ := status_some hok
  refine ⟨h.fixed, ?_, ?_, ?_, ?_, h.drops⟩
  · rw [hU']
    intro k hk
    rcases List.mem_append.1 hk with hk | hk
    · rcases mem_upd hk with hk | ⟨k1, hk1, rfl⟩
      · exact (h.conns k (List.mem_append_left _ hk)).mono hsub (Nat.le_refl _)
      · rw [hk0] at hk1; cases hk1
        have hci := h.conns k0 (List.mem_append_left _ (findConn_mem hk0).1)
        rw [hU] at hci
        have hs := h.usorted; rw [hU] at hs
        refine hci.push _ _ hs (h.ubound _ (by rw [hU]; simp)) ?_ ?_
        · rw [(findConn_mem hk0).2]; exact ht
        · rw [h.fixed] at hr; exact pollReady_ok_open hr
    · exact (h.conns k (List.mem_append_right _ hk)).mono hsub (Nat.le_refl _)
  · rw [hU']; have := h.usorted; rw [hU] at this; exact (List.pairwise_cons.1 this).2
  · rw [hU']; intro m hm; exact h.ubound m (by rw [hU]; exact List.mem_cons_of_mem _ hm)
  · intro q hq; simp at hq

theorem Inv.restorePending {s : State} {p : Pending} (h : Inv s) (hp : s.pending = some p) (p' : Pending)
    (he : p'.e = p.e) (hok : pendOK p') : Inv { s with pending := some p' } := by
  have hU : ({ s with pending := some p' } : State).U = s.U := by
    simp [State.U, hp, pendNums, he]
  refine ⟨h.fixed, by rw [hU]; exact h.conns, hU ▸ h.usorted, by rw [hU]; exact h.ubound, ?_, h.drops⟩
  intro q hq
  simp only [Option.some.injEq] at hq
  subst hq; exact hok

theorem Inv.deliverPending {s : State} {p : Pending} (h : Inv s) (hp : s.pending = some p) :
    Inv (deliverPending { s with pending := none } p).1 := by
  have hpo := h.pend p hp
  unfold C07.deliverPending
  cases hcur : p.cur with
  | one c =>
    simp only [pendOK, hcur] at hpo
    simp only
    cases hst : ({ s with pending := none } : State).status c with
    | none =>
      refine h.dropHead hp _ ?_
      simp only [State.liveIds, List.filter_eq_nil_iff, List.mem_singleton]
      intro a ha; subst ha
      intro hl
      rcases live_status hl with h1 | h1 <;> rw [hst] at h1 <;> cases h1
    | some r =>
      cases r with
      | ok =>
        have := h.sendHead hp c s.bad (by simpa [State.status] using hst) (by rw [hpo]; rfl)
        simpa using this
      | pending =>
        exact h.restorePending hp p rfl (h.pend p hp)
      | err =>
        refine h.dropHead hp _ ?_
        simp only [State.liveIds, List.filter_eq_nil_iff, List.mem_singleton]
        intro a ha; subst ha
        intro hl
        rcases live_status hl with h1 | h1 <;> rw [hst] at h1 <;> cases h1
  | any ids =>
    simp only [pendOK, hcur] at hpo
    obtain ⟨ids0, htgt, hsub⟩ := hpo
    simp only
    split
    · rename_i r0 rest hready
      have hmem : ∀ c, c ∈ ids.filter (fun id => ({ s with pending := none } : State).status id == some .ok) →
          s.status c = some .ok ∧ okTgt p.e.tgt c := by
        intro c hc
        obtain ⟨h1, h2⟩ := List.mem_filter.1 hc
        refine ⟨by simpa [State.status] using h2, ?_⟩
        rw [htgt]; exact hsub c h1
      have hr0 : r0 ∈ ids.filter (fun id => ({ s with pending := none } : State).status id == some .ok) := by
        rw [hready]; simp
      have hc : ∀ ch : Option Nat,
          (match ch with
            | some c => if (ids.filter (fun id => ({ s with pending := none } : State).status id == some .ok)).contains c then c else r0
            | none => r0) ∈ ids.filter (fun id => ({ s with pending := none } : State).status id == some .ok) := by
        intro ch
        cases ch with
        | none => exact hr0
        | some c =>
          simp only
          split
          · rename_i hcc; simpa using hcc
          · exact hr0
      obtain ⟨h1, h2⟩ := hmem _ (hc p.ch)
      exact h.sendHead hp _ _ h1 h2
    · rename_i hready
      split
      · rename_i hpend
        refine h.dropHead hp _ ?_
        simp only [State.liveIds, List.filter_eq_nil_iff]
        intro a ha hl
        rcases live_status hl with h1 | h1
        · have : a ∈ ids.filter (fun id => ({ s with pending := none } : State).status id == some .ok) :=
            List.mem_filter.2 ⟨ha, by simp [h1]⟩
          rw [hready] at this; cases this
        · have : a ∈ ids.filter (fun id => ({ s with pending := none } : State).status id == some .pending) :=
            List.mem_filter.2 ⟨ha, by simp [h1]⟩
          simp only [List.isEmpty_iff] at hpend
          rw [hpend] at this; cases this
      · refine h.restorePending hp _ rfl ?_
        simp only [pendOK]
        exact ⟨ids0, htgt, fun id hid => hsub id (List.mem_filter.1 hid).1⟩

theorem Inv.congrU {s s' : State} (h : Inv s) (hf : s'.fixed = s.fixed) (hc : s'.conns = s.conns)
    (hg : s'.gone = s.gone) (hU : s'.U = s.U) (hn : s'.nextEv = s.nextEv) (hd : s'.dropped = s.dropped)
    (hp : ∀ p, s'.pending = some p → pendOK p) : Inv s' :=
  ⟨hf ▸ h.fixed, by rw [hU, hn, hc, hg]; exact h.conns, hU ▸ h.usorted, by rw [hU, hn]; exact h.ubound,
    hp, by rw [hd]; exact h.drops⟩

theorem Inv.handleBeh {s : State} {cmd : BCmd} {rest : List BCmd} (h : Inv s) (hp : s.pending = none)
    (hq : s.behQ = cmd :: rest) : Inv (handleBeh { s with behQ := rest } cmd) := by
  cases cmd with
  | one c n =>
    refine h.congrU rfl rfl rfl ?_ rfl rfl ?_
    · simp [C07.handleBeh, State.U, hp, hq, pendNums, BCmd.nums]
    · intro p hp'; simp only [C07.handleBeh, Option.some.injEq] at hp'; subst hp'; simp [pendOK]
  | any p n ch =>
    refine h.congrU rfl rfl rfl ?_ rfl rfl ?_
    · simp [C07.handleBeh, State.U, hp, hq, pendNums, BCmd.nums]
    · intro p' hp'; simp only [C07.handleBeh, Option.some.injEq] at hp'; subst hp'
      simp only [pendOK]; exact ⟨_, rfl, fun _ hid => hid⟩
  | closeOne c =>
    have h1 : Inv { s with behQ := rest } :=
      h.congrU rfl rfl rfl (by simp [State.U, hq, BCmd.nums]) rfl rfl (by intro p hp'; exact h.pend p hp')
    exact h1.updConn c _ (fun k _ hk => hk.startClose _)
  | closeAll p =>
    have h1 : Inv { s with behQ := rest } :=
      h.congrU rfl rfl rfl (by simp [State.U, hq, BCmd.nums]) rfl rfl (by intro p hp'; exact h.pend p hp')
    exact h1.disconnect p
  | gen =>
    exact h.congrU rfl rfl rfl (by simp [C07.handleBeh, State.U, hq, BCmd.nums]) rfl rfl
      (by intro p hp'; exact h.pend p hp')

theorem runAll_spec {U : List Nat} {nx : Nat} (cs : List Conn) (h : ∀ k ∈ cs, CI U nx k) :
    (∀ k ∈ (runAll cs).1, CI U nx k) ∧ (runAll cs).2.2 = [] := by
  induction cs with
  | nil => simp [runAll]
  | cons a r ih =>
    obtain ⟨ih1, ih2⟩ := ih (fun k hk => h k (List.mem_cons_of_mem _ hk))
    obtain ⟨ha1, ha2⟩ := (h a (by simp)).runTask
    have e1 : (runAll (a :: r)).1 = a.runTask.1 :: (runAll r).1 := by rw [runAll]
    have e2 : (runAll (a :: r)).2.2 = a.runTask.2.2 ++ (runAll r).2.2 := by rw [runAll]
    refine ⟨?_, by rw [e2, ha2, ih2]; rfl⟩
    intro k hk
    rw [e1] at hk
    rcases List.mem_cons.1 hk with hk | hk
    · rw [hk]; exact ha1
    · exact ih1 k hk

theorem Inv.advanceLocal {s : State} (h : Inv s) : Inv (advanceLocal s) := by
  obtain ⟨h1, h2⟩ := runAll_spec s.conns (fun k hk => h.conns k (List.mem_append_left _ hk))
  rcases hr : runAll s.conns with ⟨cs, lg, dr⟩
  rw [hr] at h1 h2
  simp only at h1 h2
  subst h2
  simp only [C07.advanceLocal, hr, dropAll]
  refine h.same rfl rfl rfl rfl rfl ?_
  intro k hk
  rcases List.mem_append.1 hk with hk | hk
  · exact h1 k hk
  · exact h.conns k (List.mem_append_right _ hk)

theorem CI.fresh (U : List Nat) (nx id peer t : Nat) :
    CI U nx ({ id := id, peer := peer, estAt := t } : Conn) :=
  ⟨by simp [Conn.seq, Cmd.notes], by simp [Conn.seq, Cmd.notes], by simp [Conn.seq, Cmd.notes],
    by simp, trivial⟩

theorem Inv.reportClosed {s : State} (h : Inv s) (c : Nat) (bad : Bool) : Inv (reportClosed s c bad).1 := by
  refine h.same rfl rfl rfl rfl rfl ?_
  intro k hk
  rcases List.mem_append.1 hk with hk | hk
  · exact h.conns k (List.mem_append_left _ (mem_eraseConn hk))
  · rcases List.mem_append.1 hk with hk | hk
    · exact h.conns k (List.mem_append_right _ hk)
    · simp only [Option.mem_toList] at hk
      exact h.conns k (List.mem_append_left _ (findConn_mem hk).1)

theorem Inv.reportPending {s : State} (h : Inv s) (m : PendMsg) (bad : Bool) :
    Inv (reportPending s m bad).1 := by
  unfold C07.reportPending
  split
  · refine h.same rfl rfl rfl rfl rfl ?_
    intro k hk
    rcases List.mem_append.1 hk with hk | hk
    · rcases List.mem_append.1 hk with hk | hk
      · exact h.conns k (List.mem_append_left _ hk)
      · simp only [List.mem_singleton] at hk; subst hk; exact CI.fresh _ _ _ _ _
    · exact h.conns k (List.mem_append_right _ hk)
  · exact h.same rfl rfl rfl rfl rfl h.conns

theorem Inv.poolPoll {s : State} (h : Inv s) (pick : Option Nat) : Inv (poolPoll s pick).1 := by
  unfold C07.poolPoll
  split
  · exact h.reportClosed _ _
  · split
    · exact h.reportPending _ _
    · exact h.advanceLocal

theorem Inv.transportPoll {s : State} (h : Inv s) : Inv (transportPoll s).1 := by
  unfold C07.transportPoll
  split
  · exact h.same rfl rfl rfl rfl rfl h.conns
  · exact h

theorem Inv.poolPart {s : State} (h : Inv s) (pick : Option Nat) : Inv (poolPart s pick).1 := by
  unfold C07.poolPart
  have := h.poolPoll pick
  split
  · simp_all
  · rename_i s' heq
    rw [heq] at this
    exact Inv.transportPoll this

theorem Inv.pollLoop (fuel : Nat) : ∀ {s : State}, Inv s → ∀ pick, Inv (pollLoop fuel s pick).1 := by
  induction fuel with
  | zero => intro s h pick; exact h
  | succ n ih =>
    intro s h pick
    unfold C07.pollLoop
    split
    · exact h.same rfl rfl rfl rfl rfl h.conns
    · split
      · rename_i p hp
        have hd := h.deliverPending hp
        split
        · rename_i s1 heq
          rw [heq] at hd
          exact Inv.poolPart hd pick
        · rename_i s1 heq
          rw [heq] at hd
          exact ih hd pick
      · rename_i hp
        split
        · rename_i cmd rest hq
          exact ih (h.handleBeh hp hq) pick
        · exact h.poolPart pick

theorem Inv.step {s : State} (h : Inv s) (op : Op) : Inv (step s op).1 := by
  cases op with
  | connect p => exact h.same rfl rfl rfl rfl rfl h.conns
  | dial p =>
    simp only [C07.step]
    split
    · exact h.same rfl rfl rfl rfl rfl h.conns
    · exact h.same rfl rfl rfl rfl rfl h.conns
  | resolve c p => exact h.same rfl rfl rfl rfl rfl h.conns
  | incoming => exact h.same rfl rfl rfl rfl rfl h.conns
  | close c => exact h.updConn c _ (fun k _ hk => hk.startClose _)
  | disconnect p => exact h.disconnect p
  | rclose c =>
    exact h.updConn c _ (fun k _ hk => ⟨hk.tgt, hk.sorted, hk.below, hk.open_, hk.nac⟩)
  | emit cmds => exact h.pushCmds cmds
  | poll pick =>
    have h0 : Inv { s with bad := false } := h.same rfl rfl rfl rfl rfl h.conns
    have := Inv.pollLoop (pollFuel s) h0 pick
    simp only [C07.step]
    exact this

theorem Inv.init (n : Nat) : Inv (State.init n) :=
  ⟨rfl, by simp [State.init], by simp [State.init, State.U, pendNums, BCmd.nums],
    by simp [State.init, State.U, pendNums, BCmd.nums], by simp [State.init], by simp [State.init]⟩

end C07
