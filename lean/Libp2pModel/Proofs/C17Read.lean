import Libp2pModel.Proofs.C17Frame
/-! C17 helper lemmas: the reader invariant under an ARBITRARY (adversarial) wire. -/
namespace C17

/-- the copy branch of `poll_read` -/
def copyStep (r : Reader) (buflen : Nat) : Reader × RRes :=
  let len := r.recvBuf.length
  let off := r.recvOff
  let n := min (len - off) buflen
  let data := (r.recvBuf.drop off).take n
  let off' := off + n
  ({ r with recvOff := off',
            recvBuf := if len = off' then [] else r.recvBuf,
            delivered := r.delivered ++ data }, .ok data)

theorem loop_copy (A : Aead) (fuel : Nat) (r : Reader) (n : Nat)
    (h : 0 < r.recvBuf.length) (hoff : r.recvOff ≤ r.recvBuf.length) :
    pollReadLoop A (fuel + 1) r n = copyStep r n := by
  simp only [pollReadLoop, gt_iff_lt, h, ↓reduceIte, show ¬ r.recvBuf.length < r.recvOff by omega,
    copyStep]

theorem loop_next (A : Aead) (fuel : Nat) (r : Reader) (n : Nat) (h : r.recvBuf = []) :
    pollReadLoop A (fuel + 1) r n =
      match pollNext A r with
      | (r', .pending) => (r', .pending)
      | (r', .none) => (r', .ok [])
      | (r', .err e) => (r', .err e)
      | (r', .frame pt) => pollReadLoop A fuel { r' with recvBuf := pt, recvOff := 0 } n := by
  simp only [pollReadLoop, h, List.length_nil, gt_iff_lt, Nat.lt_irrefl, ↓reduceIte]
  rfl

/-- Reader invariant relative to the honest transcript `sent` (plaintext per nonce). It holds
whatever bytes arrive on the wire. -/
structure RInv (sent : List Bytes) (r : Reader) : Prop where
  recv_ok : r.recvBuf = [] ∨ r.recvOff < r.recvBuf.length
  nonce_le : r.nonce ≤ sent.length
  acct : r.delivered ++ r.recvBuf.drop r.recvOff = (sent.take r.nonce).flatten

theorem rinv_init (sent : List Bytes) : RInv sent {} := by
  constructor <;> simp

theorem take_succ_flatten (sent : List Bytes) (k : Nat) (p : Bytes) (h : sent[k]? = some p) :
    (sent.take (k + 1)).flatten = (sent.take k).flatten ++ p := by
  rw [List.take_add_one, h]
  simp

theorem copyStep_inv (sent : List Bytes) (r : Reader) (n : Nat) (h : RInv sent r)
    (hpos : 0 < r.recvBuf.length) :
    RInv sent (copyStep r n).1 ∧
      ∃ data, (copyStep r n).2 = .ok data ∧ (copyStep r n).1.delivered = r.delivered ++ data ∧
        (0 < n → data ≠ []) ∧ (copyStep r n).1.nonce = r.nonce ∧
        (copyStep r n).1.inbuf = r.inbuf ∧ (copyStep r n).1.eof = r.eof := by
  have hoff : r.recvOff < r.recvBuf.length := by
    rcases h.recv_ok with h0 | h1
    · simp [h0] at hpos
    · exact h1
  refine ⟨⟨?_, ?_, ?_⟩, _, rfl, rfl, ?_, rfl, rfl, rfl⟩
  · simp only [copyStep]
    split
    · left; rfl
    · right; omega
  · exact h.nonce_le
  · simp only [copyStep]
    rw [← h.acct, List.append_assoc]
    congr 1
    have hsplit : r.recvBuf.drop r.recvOff =
        (r.recvBuf.drop r.recvOff).take (min (r.recvBuf.length - r.recvOff) n) ++
          r.recvBuf.drop (r.recvOff + min (r.recvBuf.length - r.recvOff) n) := by
      rw [← List.drop_drop, List.take_append_drop]
    split
    · rename_i heq
      rw [List.drop_nil, List.append_nil]
      apply List.take_of_length_le
      simp only [List.length_drop]
      omega
    · exact hsplit.symm
  · intro hn hd
    have : ((r.recvBuf.drop r.recvOff).take (min (r.recvBuf.length - r.recvOff) n)).length = 0 := by
      rw [hd]; rfl
    simp only [List.length_take, List.length_drop] at this
    omega

/-- what `poll_next` can do under the AEAD integrity hypothesis, whatever `inbuf` holds -/
theorem pollNext_inv (A : Aead) (sent : List Bytes) (hA : AeadIdeal A sent) (r : Reader)
    (h : RInv sent r) (hempty : r.recvBuf = []) :
    (∀ r' pt, pollNext A r = (r', .frame pt) →
        RInv sent { r' with recvBuf := pt, recvOff := 0 } ∧ r'.delivered = r.delivered ∧
          r'.inbuf.length < r.inbuf.length) ∧
    (∀ r' o, pollNext A r = (r', o) → (∀ pt, o ≠ .frame pt) → RInv sent r' ∧
        r'.delivered = r.delivered) := by
  unfold pollNext
  cases hd : decodeLengthPrefixed r.inbuf with
  | none =>
    simp only
    constructor
    · intro r' pt hh
      split at hh
      · split at hh <;> simp at hh
      · simp at hh
    · intro r' o hh _
      split at hh
      · split at hh <;> (simp only [Prod.mk.injEq] at hh; obtain ⟨rfl, _⟩ := hh; exact ⟨h, rfl⟩)
      · simp only [Prod.mk.injEq] at hh; obtain ⟨rfl, _⟩ := hh; exact ⟨h, rfl⟩
  | some p =>
    obtain ⟨ct, rest⟩ := p
    have hprog := lp_good.progress _ _ _ hd
    simp only
    cases hs : snowRead A r.nonce ct with
    | none =>
      simp only
      constructor
      · intro r' pt hh; simp at hh
      · intro r' o hh _
        simp only [Prod.mk.injEq] at hh
        obtain ⟨rfl, _⟩ := hh
        exact ⟨⟨h.recv_ok, h.nonce_le, h.acct⟩, rfl⟩
    | some pt =>
      simp only
      have hdec : A.dec r.nonce ct = some pt := by
        unfold snowRead at hs
        split at hs
        · simp at hs
        · split at hs
          · simp at hs
          · split at hs
            · simp at hs
            · exact hs
      obtain ⟨p, hp, hc⟩ := hA.integrity _ _ _ hdec
      have hpt : pt = p := by
        have := hA.correct _ _ hp
        rw [← hc, hdec] at this
        exact Option.some.inj this
      subst hpt
      constructor
      · intro r' pt' hh
        simp only [Prod.mk.injEq, Next.frame.injEq] at hh
        obtain ⟨rfl, rfl⟩ := hh
        refine ⟨⟨?_, ?_, ?_⟩, by first | rfl | trivial, hprog⟩
        · simp only
          cases pt with
          | nil => left; rfl
          | cons a t => right; simp
        · simp only
          have : r.nonce < sent.length := by
            rcases Nat.lt_or_ge r.nonce sent.length with hlt | hge
            · exact hlt
            · rw [List.getElem?_eq_none hge] at hp; simp at hp
          omega
        · simp only [List.drop_zero]
          rw [take_succ_flatten sent r.nonce pt hp, ← h.acct, hempty]
          simp
      · intro r' o hh hne
        simp only [Prod.mk.injEq] at hh
        obtain ⟨_, rfl⟩ := hh
        exact absurd rfl (hne pt)

/-- `poll_read` under an arbitrary wire: invariant kept, no panic, `delivered` grows exactly by
the returned data. -/
theorem loop_inv (A : Aead) (sent : List Bytes) (hA : AeadIdeal A sent) (n : Nat) :
    ∀ (fuel : Nat) (r : Reader), RInv sent r →
      RInv sent (pollReadLoop A fuel r n).1 ∧ (pollReadLoop A fuel r n).2 ≠ .panic ∧
      (∀ data, (pollReadLoop A fuel r n).2 = .ok data →
          (pollReadLoop A fuel r n).1.delivered = r.delivered ++ data) ∧
      ((∀ data, (pollReadLoop A fuel r n).2 ≠ .ok data) →
          (pollReadLoop A fuel r n).1.delivered = r.delivered) := by
  intro fuel
  induction fuel with
  | zero =>
    intro r h
    simp only [pollReadLoop]
    exact ⟨h, by simp, by simp, fun _ => trivial⟩
  | succ fuel ih =>
    intro r h
    by_cases hpos : 0 < r.recvBuf.length
    · have hoff : r.recvOff ≤ r.recvBuf.length := by
        rcases h.recv_ok with h0 | h1
        · simp [h0] at hpos
        · omega
      rw [loop_copy A fuel r n hpos hoff]
      obtain ⟨hinv, data, hout, hdel, _⟩ := copyStep_inv sent r n h hpos
      refine ⟨hinv, by rw [hout]; simp, ?_, ?_⟩
      · intro d hd
        rw [hout] at hd
        simp only [RRes.ok.injEq] at hd
        subst hd
        exact hdel
      · intro hne
        exact absurd hout (hne data)
    · have hempty : r.recvBuf = [] := by
        cases hb : r.recvBuf with
        | nil => rfl
        | cons a t => simp [hb] at hpos
      rw [loop_next A fuel r n hempty]
      obtain ⟨hframe, hother⟩ := pollNext_inv A sent hA r h hempty
      cases hpn : pollNext A r with
      | mk r' o =>
        cases o with
        | pending =>
          obtain ⟨hi, hd⟩ := hother r' _ hpn (by simp)
          exact ⟨hi, by simp, by simp, fun _ => hd⟩
        | none =>
          obtain ⟨hi, hd⟩ := hother r' _ hpn (by simp)
          refine ⟨hi, by simp, ?_, ?_⟩
          · intro d hdd
            simp only [RRes.ok.injEq] at hdd
            subst hdd
            simp [hd]
          · intro hne; exact absurd rfl (hne [])
        | err e =>
          obtain ⟨hi, hd⟩ := hother r' _ hpn (by simp)
          exact ⟨hi, by simp, by simp, fun _ => hd⟩
        | frame pt =>
          obtain ⟨hi, hd, _⟩ := hframe r' pt hpn
          simp only
          obtain ⟨a, b, c, d⟩ := ih { r' with recvBuf := pt, recvOff := 0 } hi
          refine ⟨a, b, ?_, ?_⟩
          · intro data hdd
            rw [c data hdd]
            exact congrArg (· ++ data) hd
          · intro hne
            rw [d hne]
            exact hd

end C17
