import Libp2pModel.Proofs.C24Sys2
/-! preservation, part 2: `silent`, `fail`, `dataDrop`, `closeReset`, `dataAccept` at endpoint `X` -/
namespace C24
open C26
open C25 (Sid Role Frame)

theorem chanXY_of_emitted {X X' Y : State} (he : X'.emitted = X.emitted) : chan X' Y = chan X Y := by
  unfold chan; rw [he]

theorem full_silent {X X' Y : State} (h : Full X Y) (hn : X'.nextId = X.nextId)
    (hi : inFrames X' = inFrames X) (hp : X'.pendQ = X.pendQ) (he : X'.emitted = X.emitted)
    (hent : ∀ id, entOf X' id = entOf X id) : Full X' Y := by
  have hch := chanXY_of_emitted (Y := Y) he
  have hch2 : chan Y X' = chan Y X := by unfold chan; rw [hi]
  refine ⟨dir_emitter_quiet h.xy hn he (by intro f hf; rw [hp] at hf; exact hf)
    (by intro f hf; rw [hi] at hf; exact hf) (AccSame_of_eq hent), ?_⟩
  refine dir_of_tail (dir_tail_same h.yx hn hi) ?_ ?_ ?_ ?_
  · intro id e he'; rw [hent] at he'; exact h.yx.k2 id e he'
  · intro i ex ey hx hy; rw [hent] at hy; rw [hch2]; exact h.yx.k5 i ex ey hx hy
  · intro id hid
    rw [hch] at hid
    have := h.yx.k6 id hid
    rw [hch2]
    exact ⟨this.1, fun e he' => this.2 e (by rw [← hent]; exact he')⟩
  · intro id hid; rw [hch2] at hid; rw [hent]; exact h.yx.k7 id hid

theorem full_fail {X X' Y : State} (h : Full X Y) (hn : X'.nextId = X.nextId)
    (hi : inFrames X' = inFrames X ∨ ∃ f, inFrames X = f :: inFrames X') (hp : X'.pendQ = [])
    (he : X'.emitted = X.emitted) (hent : ∀ id, entOf X' id = none) : Full X' Y := by
  have hch := chanXY_of_emitted (Y := Y) he
  have hin : ∀ f, f ∈ inFrames X' → f ∈ inFrames X := by
    intro f hf
    rcases hi with hi | ⟨g, hi⟩
    · rw [hi] at hf; exact hf
    · rw [hi]; exact List.mem_cons_of_mem _ hf
  refine ⟨dir_emitter_quiet h.xy hn he (by intro f hf; rw [hp] at hf; cases hf) hin (AccSame_of_none hent), ?_⟩
  have t : DirTail Y X' X := by
    rcases hi with hi | ⟨g, hi⟩
    · exact dir_tail_same h.yx hn hi
    · exact dir_tail_pop h.yx hn hi
  refine dir_of_tail t ?_ ?_ ?_ ?_
  · intro id e he'; rw [hent] at he'; cases he'
  · intro i ex ey _ hy; rw [hent] at hy; cases hy
  · intro id hid
    rw [hch] at hid
    have := h.yx.k6 id hid
    exact ⟨fun f hf => this.1 f (t.sub f hf), fun e he' => by rw [hent] at he'; cases he'⟩
  · intro id _; exact hent _

theorem full_dataDrop {X X' Y : State} (h : Full X Y) (rid : Sid) (d : List Nat) (hn : X'.nextId = X.nextId)
    (hi : inFrames X = .data rid d :: inFrames X') (hp : X'.pendQ = X.pendQ) (he : X'.emitted = X.emitted)
    (h0 : ∀ e, entOf X rid.mirror = some e → e.ro = false)
    (hent : ∀ id, entOf X' id = entOf X id) : Full X' Y := by
  have hch := chanXY_of_emitted (Y := Y) he
  have hch2 := chan_pop (Y := Y) hi
  refine ⟨dir_emitter_quiet h.xy hn he (by intro f hf; rw [hp] at hf; exact hf)
    (by intro f hf; rw [hi]; exact List.mem_cons_of_mem _ hf) (AccSame_of_eq hent), ?_⟩
  have t := dir_tail_pop h.yx hn hi
  refine dir_of_tail t ?_ ?_ ?_ ?_
  · intro id e he'; rw [hent] at he'; exact h.yx.k2 id e he'
  · intro i ex ey hx hy
    rw [hent] at hy
    have old := h.yx.k5 i ex ey hx hy
    refine ⟨fun hro => ?_, old.2⟩
    by_cases hir : i = rid
    · subst hir
      have := h0 ey hy
      rw [this] at hro; cases hro
    · have := old.1 hro
      rw [hch2, dataOf_cons_ne i _ _ (fun d' e' => hir (by injection e' with e1 _; exact e1.symm))] at this
      exact this
  · intro id hid
    rw [hch] at hid
    have := h.yx.k6 id hid
    exact ⟨fun f hf => this.1 f (t.sub f hf), fun e he' => this.2 e (by rw [← hent]; exact he')⟩
  · intro id hid
    rw [hent]
    exact h.yx.k7 id (by rw [hch2]; exact List.mem_cons_of_mem _ hid)

theorem full_closeReset {X X' Y : State} (h : Full X Y) (f : Frame) (rid : Sid)
    (hf : f = .close rid ∨ f = .reset rid) (hn : X'.nextId = X.nextId)
    (hi : inFrames X = f :: inFrames X') (hp : X'.pendQ = X.pendQ) (he : X'.emitted = X.emitted)
    (h1 : entOf X' rid.mirror = (entOf X rid.mirror).map fun e => { e with ro := false })
    (h2 : ∀ j, j ≠ rid.mirror → entOf X' j = entOf X j) : Full X' Y := by
  have hch := chanXY_of_emitted (Y := Y) he
  have hch2 := chan_pop (Y := Y) hi
  -- every entry of X' comes from an entry of X with the same histories (only `ro` may have dropped)
  have hfrom : ∀ j e', entOf X' j = some e' →
      ∃ e, entOf X j = some e ∧ e'.rx = e.rx ∧ e'.acc = e.acc ∧ (e'.ro = true → e.ro = true ∧ j ≠ rid.mirror) := by
    intro j e' hj
    by_cases hjr : j = rid.mirror
    · subst hjr
      rw [h1] at hj
      cases hx : entOf X rid.mirror with
      | none => rw [hx] at hj; cases hj
      | some e =>
        rw [hx] at hj
        simp only [Option.map_some, Option.some.injEq] at hj
        subst hj
        exact ⟨e, rfl, rfl, rfl, by simp⟩
    · rw [h2 j hjr] at hj
      exact ⟨e', hj, rfl, rfl, fun hr => ⟨hr, hjr⟩⟩
  have hnd : ∀ i d', f ≠ .data i d' := by
    intro i d' e'
    rcases hf with hf | hf <;> rw [hf] at e' <;> cases e'
  refine ⟨dir_emitter_quiet h.xy hn he (by intro g hg; rw [hp] at hg; exact hg)
    (by intro g hg; rw [hi]; exact List.mem_cons_of_mem _ hg)
    (fun i ex' hx => by obtain ⟨e, a, _, c, _⟩ := hfrom i ex' hx; exact ⟨e, a, c⟩), ?_⟩
  have t := dir_tail_pop h.yx hn hi
  refine dir_of_tail t ?_ ?_ ?_ ?_
  · intro id e' he' hr
    obtain ⟨e, a, _⟩ := hfrom id e' he'
    exact h.yx.k2 id e a hr
  · intro i ex ey' hx hy
    obtain ⟨ey, a, b, _, c⟩ := hfrom _ ey' hy
    have old := h.yx.k5 i ex ey hx a
    refine ⟨fun hro => ?_, by rw [b]; exact old.2⟩
    have := old.1 (c hro).1
    rw [hch2, dataOf_cons_ne i f _ (hnd i)] at this
    rw [b]; exact this
  · intro id hid
    rw [hch] at hid
    have := h.yx.k6 id hid
    refine ⟨fun g hg => this.1 g (t.sub g hg), fun e' he' => ?_⟩
    obtain ⟨e, a, b, _⟩ := hfrom id e' he'
    rw [b]; exact this.2 e a
  · intro id hid
    have old := h.yx.k7 id (by rw [hch2]; exact List.mem_cons_of_mem _ hid)
    by_cases hjr : id.mirror = rid.mirror
    · rw [hjr] at old ⊢; rw [h1, old]; rfl
    · rw [h2 _ hjr]; exact old

theorem full_dataAccept {X X' Y : State} (h : Full X Y) (rid : Sid) (d : List Nat) (e : Ent)
    (hn : X'.nextId = X.nextId) (hi : inFrames X = .data rid d :: inFrames X') (hp : X'.pendQ = X.pendQ)
    (he : X'.emitted = X.emitted) (h0 : entOf X rid.mirror = some e) (hro : e.ro = true)
    (h1 : entOf X' rid.mirror = some ⟨true, e.rx ++ [d], e.acc⟩)
    (h2 : ∀ j, j ≠ rid.mirror → entOf X' j = entOf X j) : Full X' Y := by
  have hch := chanXY_of_emitted (Y := Y) he
  have hch2 := chan_pop (Y := Y) hi
  have hacc : AccSame X X' := by
    intro i ex' hx
    by_cases hir : i = rid.mirror
    · subst hir; rw [h1] at hx
      simp only [Option.some.injEq] at hx; subst hx
      exact ⟨e, h0, rfl⟩
    · rw [h2 i hir] at hx; exact ⟨ex', hx, rfl⟩
  refine ⟨dir_emitter_quiet h.xy hn he (by intro g hg; rw [hp] at hg; exact hg)
    (by intro g hg; rw [hi]; exact List.mem_cons_of_mem _ hg) hacc, ?_⟩
  have t := dir_tail_pop h.yx hn hi
  have hhead : Frame.data rid d ∈ chan Y X ++ Y.pendQ := by
    rw [hch2]; exact List.mem_cons_self
  refine dir_of_tail t ?_ ?_ ?_ ?_
  · intro id e' he' hr
    by_cases hir : id = rid.mirror
    · subst hir; exact h.yx.k2 _ e h0 hr
    · rw [h2 id hir] at he'; exact h.yx.k2 id e' he' hr
  · intro i ex ey hx hy
    by_cases hir : i = rid
    · subst hir
      rw [h1] at hy
      simp only [Option.some.injEq] at hy; subst hy
      have old := (h.yx.k5 i ex e hx h0).1 hro
      rw [hch2, dataOf_cons_eq] at old
      have e1 : ex.acc = (e.rx ++ [d]) ++ dataOf i (chan Y X') := by rw [old]; simp
      exact ⟨fun _ => e1, by rw [e1]; exact List.prefix_append _ _⟩
    · have hne : i.mirror ≠ rid.mirror := fun e' => hir (mirror_inj e')
      rw [h2 _ hne] at hy
      have old := h.yx.k5 i ex ey hx hy
      refine ⟨fun hr => ?_, old.2⟩
      have := old.1 hr
      rw [hch2, dataOf_cons_ne i _ _ (fun d' e' => hir (by injection e' with e1 _; exact e1.symm))] at this
      exact this
  · intro id hid
    rw [hch] at hid
    have := h.yx.k6 id hid
    refine ⟨fun g hg => this.1 g (t.sub g hg), fun e' he' => ?_⟩
    by_cases hir : id = rid.mirror
    · -- impossible: a Data frame for this very substream was at the head of the channel
      exfalso
      have := this.1 _ hhead
      apply this
      rw [hir, mirror_mirror]; rfl
    · rw [h2 id hir] at he'; exact this.2 e' he'
  · intro id hid
    have old := h.yx.k7 id (by rw [hch2]; exact List.mem_cons_of_mem _ hid)
    by_cases hjr : id.mirror = rid.mirror
    · rw [hjr, h0] at old; cases old
    · rw [h2 _ hjr]; exact old

end C24
