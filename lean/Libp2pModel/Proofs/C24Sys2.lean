import Libp2pModel.Proofs.C24Sys
/-! preservation of the directional invariant, part 1: events that do not emit -/
namespace C24
open C26
open C25 (Sid Role Frame)

/-- entries of `X'` come from entries of `X` with the same accepted-write history -/
def AccSame (X X' : State) : Prop :=
  ∀ i ex', entOf X' i = some ex' → ∃ ex, entOf X i = some ex ∧ ex'.acc = ex.acc

theorem AccSame_of_eq {X X' : State} (h : ∀ id, entOf X' id = entOf X id) : AccSame X X' :=
  fun i ex' he => ⟨ex', by rw [← h]; exact he, rfl⟩

theorem AccSame_of_none {X X' : State} (h : ∀ id, entOf X' id = none) : AccSame X X' :=
  fun i ex' he => by rw [h] at he; cases he

/-- `DirInv X Y` survives any change of `X` that emits nothing, only shrinks the pending queue, keeps
the accepted-write histories, and only takes frames out of `X`'s inbound queue -/
theorem dir_emitter_quiet {X X' Y : State} (h : DirInv X Y) (hn : X'.nextId = X.nextId)
    (he : X'.emitted = X.emitted) (hp : ∀ f, f ∈ X'.pendQ → f ∈ X.pendQ)
    (hin : ∀ f, f ∈ inFrames X' → f ∈ inFrames X) (hacc : AccSame X X') : DirInv X' Y := by
  have hch : chan X' Y = chan X Y := by unfold chan; rw [he]
  have hall : ∀ f, f ∈ chan X' Y ++ X'.pendQ → f ∈ chan X Y ++ X.pendQ := by
    intro f hf
    rw [hch] at hf
    rcases List.mem_append.1 hf with h1 | h1
    · exact List.mem_append.2 (.inl h1)
    · exact List.mem_append.2 (.inr (hp f h1))
  have hopn : ∀ id, Frame.opn id ∈ chan Y X' → Frame.opn id ∈ chan Y X := by
    intro id hid
    unfold chan at hid ⊢
    rcases List.mem_append.1 hid with h1 | h1
    · exact List.mem_append.2 (.inl (hin _ h1))
    · exact List.mem_append.2 (.inr h1)
  refine { k0 := ?_, k1 := ?_, k2 := ?_, k3 := ?_, k4 := ?_, k5 := ?_, k6 := ?_, k7 := ?_, k8 := ?_, k9 := ?_, k10 := ?_ }
  · intro id hid; rw [hch] at hid; exact h.k0 id hid
  · intro f hf hr; rw [hn]; exact h.k1 f (hall f hf) hr
  · intro id e he' hr; rw [hn]; exact h.k2 id e he' hr
  · rw [hch]; exact h.k3
  · intro id hid e he'
    rw [hch] at hid ⊢
    obtain ⟨ex, h1, h2⟩ := hacc id e he'
    rw [h2]; exact h.k4 id hid ex h1
  · intro i ex' ey hx hy
    obtain ⟨ex, h1, h2⟩ := hacc i ex' hx
    rw [hch, h2]; exact h.k5 i ex ey h1 hy
  · intro id hid
    have := h.k6 id (hopn id hid)
    exact ⟨fun f hf => this.1 f (hall f hf), this.2⟩
  · intro id hid; rw [hch] at hid; exact h.k7 id hid
  · intro f hf hr; exact h.k8 f (hall f hf) hr
  · intro f hf; exact h.k9 f (hp f hf)
  · intro id e he' hr
    obtain ⟨ex, h1, _⟩ := hacc id e he'
    rw [hn]; exact h.k10 id ex h1 hr

/-- what survives, in `DirInv Y X`, when the receiver `X` takes the head frame `f` out of its queue:
everything that does not mention `X`'s entries -/
structure DirTail (Y X' : State) (X : State) : Prop where
  k0 : ∀ id, Frame.opn id ∈ chan Y X' → id.role = .dialer
  k1 : ∀ f, f ∈ chan Y X' ++ Y.pendQ → f.id.role = .dialer → f.id.num < Y.nextId
  k3 : OrdOK (chan Y X')
  k4 : ∀ id, Frame.opn id ∈ chan Y X' → ∀ e, entOf Y id = some e → e.acc = dataOf id (chan Y X')
  k8 : ∀ f, f ∈ chan Y X' ++ Y.pendQ → f.id.role = .listener → f.id.num < X'.nextId
  k9 : ∀ f, f ∈ Y.pendQ → ∃ id, f = .reset id
  k10 : ∀ id e, entOf Y id = some e → id.role = .dialer → id.num < Y.nextId
  sub : ∀ g, g ∈ chan Y X' ++ Y.pendQ → g ∈ chan Y X ++ Y.pendQ

theorem chan_pop {X X' Y : State} {f : Frame} (hi : inFrames X = f :: inFrames X') :
    chan Y X = f :: chan Y X' := by
  unfold chan; rw [hi]; rfl

theorem dir_tail_pop {X X' Y : State} {f : Frame} (h : DirInv Y X) (hn : X'.nextId = X.nextId)
    (hi : inFrames X = f :: inFrames X') : DirTail Y X' X := by
  have hch := chan_pop (Y := Y) hi
  have hk3 := h.k3
  rw [hch] at hk3
  have hsub : ∀ g, g ∈ chan Y X' ++ Y.pendQ → g ∈ chan Y X ++ Y.pendQ := by
    intro g hg
    rw [hch]
    exact List.mem_cons_of_mem _ hg
  refine { k0 := ?_, k1 := ?_, k3 := hk3.2, k4 := ?_, k8 := ?_, k9 := h.k9, k10 := h.k10, sub := hsub }
  · intro id hid; exact h.k0 id (by rw [hch]; exact List.mem_cons_of_mem _ hid)
  · intro g hg hr; exact h.k1 g (hsub g hg) hr
  · intro id hid e he
    have := h.k4 id (by rw [hch]; exact List.mem_cons_of_mem _ hid) e he
    rw [this, hch]
    exact dataOf_cons_ne id f _ (fun d e' => hk3.1 id hid (by rw [e']; rfl))
  · intro g hg hr; rw [hn]; exact h.k8 g (hsub g hg) hr

theorem dir_tail_same {X X' Y : State} (h : DirInv Y X) (hn : X'.nextId = X.nextId)
    (hi : inFrames X' = inFrames X) : DirTail Y X' X := by
  have hch : chan Y X' = chan Y X := by unfold chan; rw [hi]
  refine { k0 := ?_, k1 := ?_, k3 := ?_, k4 := ?_, k8 := ?_, k9 := h.k9, k10 := h.k10, sub := ?_ }
  · intro id hid; rw [hch] at hid; exact h.k0 id hid
  · intro g hg hr; rw [hch] at hg; exact h.k1 g hg hr
  · rw [hch]; exact h.k3
  · intro id hid e he; rw [hch] at hid ⊢; exact h.k4 id hid e he
  · intro g hg hr; rw [hch] at hg; rw [hn]; exact h.k8 g hg hr
  · intro g hg; rw [hch] at hg; exact hg

/-- assemble `DirInv Y X'` from the tail part and the clauses that mention `X'`'s entries -/
theorem dir_of_tail {X X' Y : State} (t : DirTail Y X' X)
    (k2 : ∀ id e, entOf X' id = some e → id.role = .listener → id.num < Y.nextId)
    (k5 : ∀ i ex ey, entOf Y i = some ex → entOf X' i.mirror = some ey →
        (ey.ro = true → ex.acc = ey.rx ++ dataOf i (chan Y X')) ∧ ey.rx <+: ex.acc)
    (k6 : ∀ id, Frame.opn id ∈ chan X' Y →
        (∀ f, f ∈ chan Y X' ++ Y.pendQ → f.id ≠ id.mirror) ∧ (∀ e, entOf X' id = some e → e.rx = []))
    (k7 : ∀ id, Frame.opn id ∈ chan Y X' → entOf X' id.mirror = none) : DirInv Y X' :=
  { k0 := t.k0, k1 := t.k1, k2 := k2, k3 := t.k3, k4 := t.k4, k5 := k5, k6 := k6, k7 := k7, k8 := t.k8,
    k9 := t.k9, k10 := t.k10 }

end C24
