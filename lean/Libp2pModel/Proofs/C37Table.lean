import Libp2pModel.Proofs.C37Bucket
/-!
# C37 — table-level invariant and its preservation by every API call
-/
namespace C37

/-- Invariant of the routing table: every bucket satisfies its invariant (ghost stamps below
`2 * ops`), 256 buckets, 256-bit local key. -/
structure TInv (t : Table) : Prop where
  localLt : t.localKey < 2 ^ 256
  len : t.buckets.length = 256
  buckets : ∀ i, i < 256 → BInv t.localKey i (2 * t.ops) (t.bucket i)

/-- intermediate form inside one API call: stamps below `B` -/
structure TInvB (B : Nat) (t : Table) : Prop where
  localLt : t.localKey < 2 ^ 256
  len : t.buckets.length = 256
  buckets : ∀ i, i < 256 → BInv t.localKey i B (t.bucket i)

theorem TInv.toB {t : Table} (h : TInv t) : TInvB (2 * t.ops) t := ⟨h.localLt, h.len, h.buckets⟩

theorem TInvB.mono {B B' : Nat} {t : Table} (h : TInvB B t) (hB : B ≤ B') : TInvB B' t :=
  ⟨h.localLt, h.len, fun i hi => (h.buckets i hi).mono hB⟩

theorem bucket_setBucket (t : Table) (i j : Nat) (b : Bucket) (hi : i < t.buckets.length) :
    (t.setBucket i b).bucket j = if j = i then b else t.bucket j := by
  unfold Table.bucket Table.setBucket
  simp only [List.getD_eq_getElem?_getD, List.getElem?_set]
  by_cases h : i = j
  · subst h; simp [hi]
  · have : ¬ j = i := fun e => h e.symm
    simp [h, this]

theorem TInvB.setBucket {B : Nat} {t : Table} (h : TInvB B t) {i : Nat} (hi : i < 256) {b : Bucket}
    (hb : BInv t.localKey i B b) : TInvB B (t.setBucket i b) := by
  refine ⟨h.localLt, by simp [Table.setBucket, h.len], ?_⟩
  intro j hj
  have := bucket_setBucket t i j b (by rw [h.len]; exact hi)
  show BInv t.localKey j B ((t.setBucket i b).bucket j)
  rw [this]
  by_cases hji : j = i
  · subst hji; simpa using hb
  · simp only [hji, if_false]; exact h.buckets j hj

theorem bucketIndex_lt {l k i : Nat} (hl : l < 2 ^ 256) (hk : k < 2 ^ 256)
    (h : bucketIndex (l ^^^ k) = some i) : i < 256 := by
  have hd : l ^^^ k < 2 ^ 256 := Nat.xor_lt_two_pow hl hk
  unfold bucketIndex at h
  by_cases h0 : l ^^^ k = 0
  · simp [h0] at h
  · simp only [h0, if_false, Option.some.injEq] at h
    rw [← h]
    exact (Nat.log2_lt h0).2 hd

/-- `entry()` / `bucket()`: the bucket of the key with its pending node applied -/
theorem access_spec {t : Table} (h : TInv t) {key : Nat} (hk : key < 2 ^ 256) {i : Nat} {t1 : Table}
    (ha : t.access key = some (i, t1)) :
    i < 256 ∧ bucketIndex (t.localKey ^^^ key) = some i ∧ TInvB (2 * t.ops + 1) t1 ∧
    t1.localKey = t.localKey ∧ t1.ops = t.ops ∧ t1.now = t.now := by
  unfold Table.access at ha
  cases hbi : bucketIndex (t.localKey ^^^ key) with
  | none => simp [hbi] at ha
  | some j =>
    simp only [hbi, Option.some.injEq, Prod.mk.injEq] at ha
    obtain ⟨hji, ht1⟩ := ha
    subst hji
    have hj : j < 256 := bucketIndex_lt h.localLt hk hbi
    have hb := applyPending_inv (h.buckets j hj) t.now (Nat.le_refl _)
    have hset : TInvB (2 * t.ops + 1) (t.setBucket j ((t.bucket j).applyPending t.now (2 * t.ops)).1) :=
      (h.toB.mono (by omega)).setBucket hj hb
    refine ⟨hj, rfl, ?_, ?_, ?_, ?_⟩
    all_goals
      subst ht1
      cases ((t.bucket j).applyPending t.now (2 * t.ops)).2 with
      | none => first | exact hset | rfl
      | some a => first | exact ⟨hset.localLt, hset.len, hset.buckets⟩ | rfl

theorem entryKind_absent {b : Bucket} {key : Nat} (h : b.entryKind key = .absent) {l i B : Nat}
    (_hb : BInv l i B b) :
    key ∉ keysOf b.nodes ∧ ∀ p, b.pending = some p → p.node.key ≠ key := by
  unfold Bucket.entryKind at h
  cases hpos : b.position key with
  | some pos =>
    obtain ⟨n, hget, _, _⟩ := position_some hpos
    simp [hpos, hget] at h
  | none =>
    refine ⟨position_none hpos, ?_⟩
    intro p hp e
    simp only [hpos, Bucket.asPending, hp] at h
    simp [e] at h

theorem entryKind_present {b : Bucket} {key : Nat} {s : Status} {v : Nat}
    (h : b.entryKind key = .present s v) : ∃ pos, b.position key = some pos := by
  unfold Bucket.entryKind at h
  cases hpos : b.position key with
  | some pos => exact ⟨pos, rfl⟩
  | none =>
    simp only [hpos] at h
    cases hap : b.asPending key <;> simp [hap] at h

theorem entryKind_pending {b : Bucket} {key : Nat} {s : Status} {v : Nat}
    (h : b.entryKind key = .pending s v) : ∃ p, b.pending = some p ∧ p.node.key = key := by
  unfold Bucket.entryKind at h
  cases hpos : b.position key with
  | some pos =>
    obtain ⟨n, hget, _, _⟩ := position_some hpos
    simp [hpos, hget] at h
  | none =>
    simp only [hpos] at h
    unfold Bucket.asPending at h
    cases hp : b.pending with
    | none => simp [hp] at h
    | some p =>
      simp only [hp] at h
      by_cases hk : (p.node.key == key) = true
      · exact ⟨p, rfl, by simpa using hk⟩
      · simp [hk] at h

theorem TInvB.bump {t : Table} (h : TInvB (2 * t.ops + 2) t) : TInv t.bump :=
  ⟨h.localLt, h.len, fun i hi => by
    have := h.buckets i hi
    simp only [Table.bump, Table.bucket] at *
    have e : 2 * (t.ops + 1) = 2 * t.ops + 2 := by omega
    rw [e]; exact this⟩

theorem TInv.bump {t : Table} (h : TInv t) : TInv t.bump :=
  TInvB.bump (h.toB.mono (by omega))

/-- recording an applied pending node does not touch the buckets -/
def Table.record (t : Table) (ap : Option Applied) : Table :=
  match ap with
  | some a => { t with applied := t.applied ++ [a] }
  | none => t

theorem record_bucket (t : Table) (ap : Option Applied) (j : Nat) : (t.record ap).bucket j = t.bucket j := by
  cases ap <;> rfl
theorem record_ops (t : Table) (ap : Option Applied) : (t.record ap).ops = t.ops := by cases ap <;> rfl
theorem record_now (t : Table) (ap : Option Applied) : (t.record ap).now = t.now := by cases ap <;> rfl
theorem record_local (t : Table) (ap : Option Applied) : (t.record ap).localKey = t.localKey := by
  cases ap <;> rfl
theorem record_len (t : Table) (ap : Option Applied) : (t.record ap).buckets.length = t.buckets.length := by
  cases ap <;> rfl

theorem iterFrom_succ (t : Table) (i n : Nat) :
    t.iterFrom i (n + 1) =
      ((t.setBucket i ((t.bucket i).applyPending t.now (2 * t.ops)).1).record
        ((t.bucket i).applyPending t.now (2 * t.ops)).2).iterFrom (i + 1) n := by
  simp only [Table.iterFrom, Table.record]
  cases ((t.bucket i).applyPending t.now (2 * t.ops)).2 <;> rfl

/-- `table.iter()`: buckets below `i` have been processed (stamps `< 2*ops+1`), the others not yet -/
theorem iterFrom_inv : ∀ (n : Nat) (t : Table) (i : Nat), TInvB (2 * t.ops + 1) t →
    (∀ j, i ≤ j → j < 256 → BInv t.localKey j (2 * t.ops) (t.bucket j)) → i + n ≤ 256 →
    TInvB (2 * t.ops + 1) (t.iterFrom i n) ∧ (t.iterFrom i n).ops = t.ops
  | 0, t, _, h, _, _ => ⟨h, rfl⟩
  | n + 1, t, i, h, hrest, hin => by
    have hi : i < 256 := by omega
    have hb := applyPending_inv (hrest i (Nat.le_refl _) hi) t.now (Nat.le_refl _)
    rw [iterFrom_succ]
    have hset := h.setBucket hi hb
    have ih := iterFrom_inv n
      ((t.setBucket i ((t.bucket i).applyPending t.now (2 * t.ops)).1).record
        ((t.bucket i).applyPending t.now (2 * t.ops)).2) (i + 1)
      ⟨by rw [record_local]; exact hset.localLt, by rw [record_len]; exact hset.len,
        fun j hj => by rw [record_bucket, record_local, record_ops]; exact hset.buckets j hj⟩
      (by
        intro j hij hj
        rw [record_bucket, record_local, record_ops]
        have := bucket_setBucket t i j ((t.bucket i).applyPending t.now (2 * t.ops)).1 (by rw [h.len]; exact hi)
        show BInv t.localKey j (2 * t.ops) ((t.setBucket i _).bucket j)
        rw [this]
        have hne : ¬ j = i := by omega
        simp only [hne, if_false]
        exact hrest j (by omega) hj)
      (by omega)
    rw [record_ops] at ih
    exact ih

/-- keys are 256-bit values -/
def Op.Valid : Op → Prop
  | .insert key _ _ => key < 2 ^ 256
  | .update key _ => key < 2 ^ 256
  | .remove key => key < 2 ^ 256
  | .lookup key => key < 2 ^ 256
  | .bucketInfo key => key < 2 ^ 256
  | .iter => True
  | .advance _ => True

theorem setBucket_ops (t : Table) (i : Nat) (b : Bucket) : (t.setBucket i b).ops = t.ops := rfl
theorem setBucket_local (t : Table) (i : Nat) (b : Bucket) : (t.setBucket i b).localKey = t.localKey := rfl

/-- after `entry()`: replace bucket `i` by a bucket satisfying the invariant at the end-of-call bound -/
theorem finish {t t1 : Table} {i : Nat} (hi : i < 256) (h1 : TInvB (2 * t.ops + 1) t1)
    (hl : t1.localKey = t.localKey) (ho : t1.ops = t.ops) {b' : Bucket}
    (hb : BInv t.localKey i (2 * t.ops + 2) b') : TInv (t1.setBucket i b').bump := by
  apply TInvB.bump
  rw [setBucket_ops, ho]
  exact (h1.mono (by omega)).setBucket hi (by rw [hl]; exact hb)

theorem finish' {t t1 : Table} (h1 : TInvB (2 * t.ops + 1) t1) (ho : t1.ops = t.ops) : TInv t1.bump := by
  apply TInvB.bump
  rw [ho]
  exact h1.mono (by omega)

/-- **every API call preserves the table invariant** -/
theorem step_inv {t : Table} (h : TInv t) (op : Op) (hv : op.Valid) : TInv (t.step op).1 := by
  cases op with
  | insert key value st =>
    simp only [Op.Valid] at hv
    cases ha : t.access key with
    | none => simp only [Table.step, ha]; exact h.bump
    | some it1 =>
      obtain ⟨i, t1⟩ := it1
      obtain ⟨hi, hidx, h1, hl, ho, hn⟩ := access_spec h hv ha
      have hb : BInv t.localKey i (2 * t.ops + 1) (t1.bucket i) := by rw [← hl]; exact h1.buckets i hi
      simp only [Table.step, ha]
      cases hek : (t1.bucket i).entryKind key with
      | absent =>
        simp only
        obtain ⟨hk1, hk2⟩ := entryKind_absent hek hb
        exact finish hi h1 hl ho
          (insert_inv (s := 2 * t.ops + 1) hb ⟨key, value, st, 2 * t.ops + 1⟩ st t.now hk1 hk2 hidx rfl rfl
            (Nat.le_refl _))
      | isLocal => exact finish' h1 ho
      | present s v => exact finish' h1 ho
      | pending s v => exact finish' h1 ho
  | update key st =>
    simp only [Op.Valid] at hv
    cases ha : t.access key with
    | none => simp only [Table.step, ha]; exact h.bump
    | some it1 =>
      obtain ⟨i, t1⟩ := it1
      obtain ⟨hi, hidx, h1, hl, ho, hn⟩ := access_spec h hv ha
      have hb : BInv t.localKey i (2 * t.ops + 1) (t1.bucket i) := by rw [← hl]; exact h1.buckets i hi
      simp only [Table.step, ha]
      cases hek : (t1.bucket i).entryKind key with
      | present s v =>
        exact finish hi h1 hl ho (update_inv hb key st t.now (Nat.le_refl _))
      | pending s v =>
        simp only
        obtain ⟨p, hp, hpk⟩ := entryKind_pending hek
        refine finish hi h1 hl ho ?_
        unfold Bucket.updatePending
        simp only [hp]
        exact (binv_set_pending hb (some { p with status := st })
          (fun q hq => by cases hq; exact hb.pendingNotIn p hp)
          (fun q hq => by cases hq; exact hb.pendingIndex p hp)).mono (by omega)
      | isLocal => exact finish' h1 ho
      | absent => exact finish' h1 ho
  | remove key =>
    simp only [Op.Valid] at hv
    cases ha : t.access key with
    | none => simp only [Table.step, ha]; exact h.bump
    | some it1 =>
      obtain ⟨i, t1⟩ := it1
      obtain ⟨hi, hidx, h1, hl, ho, hn⟩ := access_spec h hv ha
      have hb : BInv t.localKey i (2 * t.ops + 1) (t1.bucket i) := by rw [← hl]; exact h1.buckets i hi
      simp only [Table.step, ha]
      cases hek : (t1.bucket i).entryKind key with
      | present s v =>
        simp only
        obtain ⟨pos, hpos⟩ := entryKind_present hek
        rcases remove_spec hb key with ⟨hnone, _, _⟩ | ⟨b', node, st0, pos', hrem, _, hr⟩
        · rw [hpos] at hnone; cases hnone
        · simp only [hrem]
          exact finish hi h1 hl ho (hr.inv.mono (by omega))
      | pending s v =>
        simp only
        obtain ⟨p, hp, hpk⟩ := entryKind_pending hek
        simp only [Bucket.removePending, hp]
        exact finish hi h1 hl ho ((binv_clear_pending hb).mono (by omega))
      | isLocal => exact finish' h1 ho
      | absent => exact finish' h1 ho
  | lookup key =>
    simp only [Op.Valid] at hv
    cases ha : t.access key with
    | none => simp only [Table.step, ha]; exact h.bump
    | some it1 =>
      obtain ⟨i, t1⟩ := it1
      obtain ⟨hi, hidx, h1, hl, ho, hn⟩ := access_spec h hv ha
      simp only [Table.step, ha]
      exact finish' h1 ho
  | bucketInfo key =>
    simp only [Op.Valid] at hv
    cases ha : t.access key with
    | none => simp only [Table.step, ha]; exact h.bump
    | some it1 =>
      obtain ⟨i, t1⟩ := it1
      obtain ⟨hi, hidx, h1, hl, ho, hn⟩ := access_spec h hv ha
      simp only [Table.step, ha]
      exact finish' h1 ho
  | iter =>
    simp only [Table.step]
    have := iterFrom_inv NUM_BUCKETS t 0 (h.toB.mono (by omega)) (fun j _ hj => h.buckets j hj)
      (by simp [NUM_BUCKETS])
    exact finish' this.1 this.2
  | advance n =>
    simp only [Table.step]
    exact TInv.bump (t := { t with now := t.now + n }) ⟨h.localLt, h.len, h.buckets⟩

theorem bucket_new (l s T i : Nat) (hi : i < 256) : (Table.new l s T).bucket i = Bucket.new s T := by
  unfold Table.bucket Table.new
  simp only [List.getD_eq_getElem?_getD, List.getElem?_replicate, NUM_BUCKETS, hi, if_true, Option.getD_some]

/-- the empty table satisfies the invariant -/
theorem inv_new (l s T : Nat) (hl : l < 2 ^ 256) (hs : 1 ≤ s) : TInv (Table.new l s T) := by
  refine ⟨hl, List.length_replicate .., ?_⟩
  intro i hi
  show BInv l i _ ((Table.new l s T).bucket i)
  rw [bucket_new l s T i hi]
  refine ⟨rfl, hs, Nat.zero_le _, ⟨[], [], ⟨rfl, by simp, by simp, rfl, List.Pairwise.nil, List.Pairwise.nil⟩⟩,
    by simp [Bucket.new], by simp [Bucket.new, keysOf], by simp [Bucket.new], by simp [Bucket.new],
    by simp [Bucket.new]⟩

/-- run an op sequence -/
def Table.run (t : Table) (ops : List Op) : Table := ops.foldl (fun t o => (t.step o).1) t

/-- the invariant holds after every sequence of valid API calls and clock advances -/
theorem inv_run (ops : List Op) : ∀ (t : Table), TInv t → (∀ o ∈ ops, o.Valid) → TInv (t.run ops) := by
  induction ops with
  | nil => intro t h _; exact h
  | cons o os ih =>
    intro t h hv
    exact ih _ (step_inv h o (hv o (by simp))) (fun x hx => hv x (by simp [hx]))

end C37
