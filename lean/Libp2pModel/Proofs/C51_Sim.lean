import Libp2pModel.Proofs.C51
/-!
# C51 — the refinement relation between the model (`St`) and the Spec's reference state (`Ref`),
and its preservation by every operation.
-/
namespace C51

/-- The model state is the reference map, stored as the code stores it: `registrations_for_peer`
and `registrations` are exactly the two projections of the reference map (nothing superseded or
unregistered is left behind), every current registration has its own pending timer in the future,
and the ids handed out along the latest cookie chain are still recorded under that cookie. -/
structure Sim (c : Cfg) (s : St) (r : Ref) : Prop where
  bp : s.byPeer = liveBP r.live
  regs : s.regs = liveRegs r.live
  now : r.now = s.now
  nid : r.nextId = s.nextId
  nck : r.nextCookie = s.nextCookie
  idlt : ∀ e ∈ r.live, e.2.id < s.nextId
  idnd : (r.live.map (·.2.id)).Nodup
  keynd : (r.live.map (·.1)).Nodup
  timer : ∀ e ∈ r.live, (e.2.deadline, e.2.id) ∈ s.timers ∧ s.now < e.2.deadline
  tlt : ∀ t ∈ s.timers, t.2 < s.nextId
  tnd : (s.timers.map (·.2)).Nodup
  chain : ∀ ck seen, r.chain = some (ck, seen) → 1 ≤ c.cookieCap →
    ∀ id ∈ seen, id < s.nextId ∧
      ((∃ k, (k, id) ∈ s.byPeer) → ∃ st, lookup ck s.cookies = some st ∧ id ∈ st)
  clen : s.cookies.length ≤ s.nextCookie
  dlt : ∀ e ∈ r.delivered, e.1.1 < s.nextCookie
  /-- as long as at most `max_cookies` cookies were issued nothing was evicted: the ids delivered along
  the chain of EVERY issued cookie that are still current are recorded under that cookie -/
  deliv : s.nextCookie ≤ c.cookieCap → ∀ ck seen, lookup ck r.delivered = some seen →
    ∀ id ∈ seen, id < s.nextId ∧
      ((∃ k, (k, id) ∈ s.byPeer) → ∃ st, lookup ck s.cookies = some st ∧ id ∈ st)

theorem sim_init (c : Cfg) : Sim c St.init Ref.init := by
  constructor <;> simp [St.init, Ref.init, liveBP, liveRegs, lookup]

/-- `Registrations::remove` on the two tables = deleting the key from the reference map -/
theorem remove_tables {s : St} {l : List (Key × Live)} (hbp : s.byPeer = liveBP l)
    (hregs : s.regs = liveRegs l) (hid : (l.map (·.2.id)).Nodup) (hkey : (l.map (·.1)).Nodup)
    (peer ns : Nat) :
    remove s peer ns =
      { s with byPeer := liveBP (l.filter fun e => !decide (e.1 = (peer, ns))),
               regs := liveRegs (l.filter fun e => !decide (e.1 = (peer, ns))) } := by
  unfold remove
  rw [hbp, lookup_liveBP]
  cases hl : lookup (peer, ns) l with
  | none =>
    have hfil : l.filter (fun e => !decide (e.1 = (peer, ns))) = l :=
      List.filter_eq_self.2 (fun e he => by simpa using lookup_none_not_mem hl e he)
    simp only [Option.map_none, hfil, ← hbp, ← hregs]
  | some v =>
    have hmem := lookup_some_mem hl
    simp only [Option.map_some]
    rw [hregs, liveBP_filter, liveRegs_filter]
    have hcongr : l.filter (fun e => !decide ((liveEntry e).1 = v.id)) = l.filter (fun e => !decide (e.1 = (peer, ns))) := by
      apply List.filter_congr
      intro e he
      have : (liveEntry e).1 = v.id ↔ e.1 = (peer, ns) := by
        constructor
        · intro h1
          have := eq_of_id_eq hid he hmem h1
          rw [this]
        · intro h1
          have := eq_of_key_eq hkey he hmem h1
          rw [this]; rfl
      simp [this]
    rw [hcongr]

/-- the three outcomes of `add` on the repaired code -/
theorem add_fixed (c : Cfg) (s : St) (peer ns : Nat) (ttlOpt : Option Nat) :
    add .fixed c s peer ns ttlOpt =
      if ttlOpt.getD DEFAULT_TTL > c.maxTtl ∨ ttlOpt.getD DEFAULT_TTL < c.minTtl then (s, .error .invalidTtl)
      else if (lookup (peer, ns) s.byPeer).isNone ∧ (countPeer s.byPeer peer ≥ c.perPeer ∨ s.byPeer.length ≥ c.total)
      then (s, .error .unavailable)
      else
        ({ (remove s peer ns) with
            byPeer := bimapInsert (remove s peer ns).byPeer (peer, ns) s.nextId,
            regs := mapInsert (remove s peer ns).regs s.nextId ⟨peer, ns, ttlOpt.getD DEFAULT_TTL⟩,
            timers := (remove s peer ns).timers ++ [((remove s peer ns).now + ttlOpt.getD DEFAULT_TTL, s.nextId)],
            nextId := s.nextId + 1 }, .ok ⟨peer, ns, ttlOpt.getD DEFAULT_TTL⟩) := by
  unfold add
  simp only [Variant.fixed, Bool.true_and, if_true]
  by_cases hv : ttlOpt.getD DEFAULT_TTL > c.maxTtl ∨ ttlOpt.getD DEFAULT_TTL < c.minTtl
  · simp only [hv, if_true]
  · simp only [hv, if_false]
    cases hl : lookup (peer, ns) s.byPeer <;>
      by_cases h1 : countPeer s.byPeer peer ≥ c.perPeer <;>
      by_cases h2 : s.byPeer.length ≥ c.total <;> simp [h1, h2]

theorem reg_sim (c : Cfg) (hmin : 1 ≤ c.minTtl) {s : St} {r : Ref} (h : Sim c s r)
    (peer ns : Nat) (ttlOpt : Option Nat) :
    Sim c (step c s (.reg peer ns ttlOpt)).1 (specStep c r (.reg peer ns ttlOpt) (step c s (.reg peer ns ttlOpt)).2).1 ∧
    (specStep c r (.reg peer ns ttlOpt) (step c s (.reg peer ns ttlOpt)).2).2 = "ok" := by
  have hlk : (lookup (peer, ns) s.byPeer).isNone = (lookup (peer, ns) r.live).isNone := by
    rw [h.bp, lookup_liveBP]; cases lookup (peer, ns) r.live <;> rfl
  have hcnt : countPeer s.byPeer peer = countLive r.live peer := by rw [h.bp, countPeer_liveBP]
  have hlen : s.byPeer.length = r.live.length := by rw [h.bp]; simp [liveBP]
  simp only [step, stepV, add_fixed]
  by_cases hv : ttlOpt.getD DEFAULT_TTL > c.maxTtl ∨ ttlOpt.getD DEFAULT_TTL < c.minTtl
  · simp only [hv, if_true, specStep]
    exact ⟨h, trivial⟩
  · simp only [hv, if_false]
    by_cases hrej : (lookup (peer, ns) s.byPeer).isNone ∧ (countPeer s.byPeer peer ≥ c.perPeer ∨ s.byPeer.length ≥ c.total)
    · simp only [hrej, and_self, if_true, specStep, hv, if_false]
      refine ⟨h, ?_⟩
      rw [hlk, hcnt, hlen] at hrej
      obtain ⟨h1, h2⟩ := hrej
      have : (lookup (peer, ns) r.live).isSome = false := by
        cases hh : lookup (peer, ns) r.live <;> simp [hh] at h1 ⊢
      simp only [this]
      rcases h2 with h2 | h2 <;> simp [h2]
    · simp only [hrej, if_false, specStep, hv]
      rw [remove_tables h.bp h.regs h.idnd h.keynd]
      dsimp only
      obtain ⟨hbp, hregs, hnow, hnid, hnck, hidlt, hidnd, hkeynd, htimer, htlt, htnd, hchain, hclen, hdlt, hdeliv⟩ := h
      generalize hT : ttlOpt.getD DEFAULT_TTL = ttl at *
      have httl : 1 ≤ ttl := by omega
      have hsub : ∀ e ∈ List.filter (fun e => !decide (e.fst = (peer, ns))) r.live, e ∈ r.live ∧ e.1 ≠ (peer, ns) := by
        intro e he
        have := List.mem_filter.1 he
        exact ⟨this.1, by simpa using this.2⟩
      generalize hL : List.filter (fun e => !decide (e.fst = (peer, ns))) r.live = L at *
      have hLid : (L.map (·.2.id)).Nodup := by rw [← hL]; exact nodup_map_filter _ _ hidnd
      have hLkey : (L.map (·.1)).Nodup := by rw [← hL]; exact nodup_map_filter _ _ hkeynd
      constructor
      · constructor
        · -- byPeer
          dsimp only
          unfold bimapInsert
          have : (liveBP L).filter (fun e => !decide (e.fst = (peer, ns)) && !decide (e.snd = s.nextId)) = liveBP L := by
            apply List.filter_eq_self.2
            intro e he
            obtain ⟨k, id⟩ := e
            obtain ⟨e', he', hk, hi⟩ := mem_liveBP.1 he
            have h1 := (hsub e' he').2
            have h2 := hidlt e' (hsub e' he').1
            simp only [Bool.and_eq_true, Bool.not_eq_true', decide_eq_false_iff_not]
            subst hk hi
            exact ⟨h1, by omega⟩
          rw [this, hnid]
          simp [liveBP]
        · -- regs
          dsimp only
          unfold mapInsert
          have : (liveRegs L).filter (fun e => !decide (e.fst = s.nextId)) = liveRegs L := by
            apply List.filter_eq_self.2
            intro e he
            obtain ⟨e', he', rfl⟩ := List.mem_map.1 he
            have h2 := hidlt e' (hsub e' he').1
            have h3 : (liveEntry e').1 ≠ s.nextId := by simp only [liveEntry]; omega
            simp [h3]
          rw [this, hnid]
          simp [liveRegs, liveEntry]
        · exact hnow
        · dsimp only; rw [hnid]
        · exact hnck
        · -- idlt
          intro e he
          dsimp only at he ⊢
          rcases List.mem_append.1 he with he | he
          · have := hidlt e (hsub e he).1; omega
          · simp only [List.mem_singleton] at he; subst he; dsimp only; omega
        · -- idnd
          dsimp only
          rw [List.map_append, List.nodup_append]
          refine ⟨hLid, by simp, ?_⟩
          intro a ha b hb
          simp only [List.map_cons, List.map_nil, List.mem_singleton] at hb
          obtain ⟨e', he', rfl⟩ := List.mem_map.1 ha
          have := hidlt e' (hsub e' he').1
          subst hb; omega
        · -- keynd
          dsimp only
          rw [List.map_append, List.nodup_append]
          refine ⟨hLkey, by simp, ?_⟩
          intro a ha b hb
          simp only [List.map_cons, List.map_nil, List.mem_singleton] at hb
          obtain ⟨e', he', rfl⟩ := List.mem_map.1 ha
          have := (hsub e' he').2
          subst hb; exact this
        · -- timer
          intro e he
          dsimp only at he ⊢
          rcases List.mem_append.1 he with he | he
          · have := htimer e (hsub e he).1
            exact ⟨List.mem_append_left _ this.1, this.2⟩
          · simp only [List.mem_singleton] at he; subst he; dsimp only
            refine ⟨List.mem_append_right _ (by simp [hnow, hnid]), by omega⟩
        · -- tlt
          intro t ht
          dsimp only at ht ⊢
          rcases List.mem_append.1 ht with ht | ht
          · have := htlt t ht; omega
          · simp only [List.mem_singleton] at ht; subst ht; dsimp only; omega
        · -- tnd
          dsimp only
          rw [List.map_append, List.nodup_append]
          refine ⟨htnd, by simp, ?_⟩
          intro a ha b hb
          simp only [List.map_cons, List.map_nil, List.mem_singleton] at hb
          obtain ⟨t, ht, rfl⟩ := List.mem_map.1 ha
          have := htlt t ht
          subst hb; omega
        · -- chain
          intro ck seen hck hcap id hid
          dsimp only at hck ⊢
          have := hchain ck seen hck hcap id hid
          refine ⟨by omega, ?_⟩
          rintro ⟨k, hk⟩
          apply this.2
          unfold bimapInsert at hk
          rcases List.mem_append.1 hk with hk | hk
          · have hk := (List.mem_filter.1 hk).1
            obtain ⟨e', he', hk1, hi⟩ := mem_liveBP.1 hk
            exact ⟨k, by rw [hbp]; exact mem_liveBP.2 ⟨e', (hsub e' he').1, hk1, hi⟩⟩
          · simp only [List.mem_singleton, Prod.mk.injEq] at hk
            omega
        · exact hclen
        · exact hdlt
        · -- delivered
          intro hcap ck seen hck id hid
          dsimp only at hck ⊢
          have := hdeliv hcap ck seen hck id hid
          refine ⟨by omega, ?_⟩
          rintro ⟨k, hk⟩
          apply this.2
          unfold bimapInsert at hk
          rcases List.mem_append.1 hk with hk | hk
          · have hk := (List.mem_filter.1 hk).1
            obtain ⟨e', he', hk1, hi⟩ := mem_liveBP.1 hk
            exact ⟨k, by rw [hbp]; exact mem_liveBP.2 ⟨e', (hsub e' he').1, hk1, hi⟩⟩
          · simp only [List.mem_singleton, Prod.mk.injEq] at hk
            omega
      · rw [hlk, hcnt, hlen] at hrej
        cases hh : (lookup (peer, ns) r.live).isNone
        · simp
        · simp only [hh, true_and, not_or, Nat.not_le] at hrej
          have h1 : ¬ (countLive r.live peer ≥ c.perPeer) := by omega
          have h2 : ¬ (r.live.length ≥ c.total) := by omega
          simp [h1, h2]

theorem unreg_sim (c : Cfg) {s : St} {r : Ref} (h : Sim c s r) (peer ns : Nat) :
    Sim c (step c s (.unreg peer ns)).1 (specStep c r (.unreg peer ns) (step c s (.unreg peer ns)).2).1 ∧
    (specStep c r (.unreg peer ns) (step c s (.unreg peer ns)).2).2 = "ok" := by
  simp only [step, stepV, specStep]
  rw [remove_tables h.bp h.regs h.idnd h.keynd]
  obtain ⟨hbp, hregs, hnow, hnid, hnck, hidlt, hidnd, hkeynd, htimer, htlt, htnd, hchain, hclen, hdlt, hdeliv⟩ := h
  have hsub : ∀ e ∈ List.filter (fun e => !decide (e.fst = (peer, ns))) r.live, e ∈ r.live :=
    fun e he => (List.mem_filter.1 he).1
  refine ⟨⟨rfl, rfl, hnow, hnid, hnck, fun e he => hidlt e (hsub e he), nodup_map_filter _ _ hidnd,
    nodup_map_filter _ _ hkeynd, fun e he => htimer e (hsub e he), htlt, htnd, ?_, hclen, hdlt, ?_⟩, trivial⟩
  · intro ck seen hck hcap id hid
    have := hchain ck seen hck hcap id hid
    refine ⟨this.1, ?_⟩
    rintro ⟨k, hk⟩
    apply this.2
    obtain ⟨e', he', hk1, hi⟩ := mem_liveBP.1 hk
    exact ⟨k, by rw [hbp]; exact mem_liveBP.2 ⟨e', hsub e' he', hk1, hi⟩⟩
  · intro hcap ck seen hck id hid
    have := hdeliv hcap ck seen hck id hid
    refine ⟨this.1, ?_⟩
    rintro ⟨k, hk⟩
    apply this.2
    obtain ⟨e', he', hk1, hi⟩ := mem_liveBP.1 hk
    exact ⟨k, by rw [hbp]; exact mem_liveBP.2 ⟨e', hsub e' he', hk1, hi⟩⟩

/-- a current registration's id is among the due ids exactly when its own deadline has passed -/
theorem due_iff {c : Cfg} {s : St} {r : Ref} (h : Sim c s r) (t : Nat) {e : Key × Live} (he : e ∈ r.live) :
    (dueIds s t).contains e.2.id = decide (e.2.deadline ≤ t) := by
  have ht := (h.timer e he).1
  by_cases hd : e.2.deadline ≤ t
  · simp only [hd, decide_true, List.contains_iff_mem, dueIds]
    exact List.mem_map.2 ⟨(e.2.deadline, e.2.id), List.mem_filter.2 ⟨ht, by simpa using hd⟩, rfl⟩
  · simp only [hd, decide_false]
    apply Bool.eq_false_iff.2
    intro hc
    simp only [List.contains_iff_mem, dueIds] at hc
    obtain ⟨t', ht', hid⟩ := List.mem_map.1 hc
    have ht'' := List.mem_filter.1 ht'
    -- two timers with the same id are the same timer
    have : t' = (e.2.deadline, e.2.id) := by
      have hnd := h.tnd
      clear ht' hc
      revert ht ht''
      generalize s.timers = ts at hnd
      intro ht ht''
      induction ts with
      | nil => simp at ht
      | cons a tl ih =>
        simp only [List.map, List.nodup_cons] at hnd
        rcases List.mem_cons.1 ht with h1 | h1 <;> rcases List.mem_cons.1 ht''.1 with h2 | h2
        · rw [h2, ← h1]
        · exact absurd (List.mem_map.2 ⟨t', h2, by rw [hid, ← h1]⟩) hnd.1
        · exact absurd (List.mem_map.2 ⟨_, h1, by rw [← h2, hid]⟩) hnd.1
        · exact ih hnd.2 h1 ⟨h2, ht''.2⟩
    rw [this] at ht''
    simp at ht''
    exact hd ht''.2

theorem adv_sim (c : Cfg) {s : St} {r : Ref} (h : Sim c s r) (d : Nat) :
    Sim c (step c s (.adv d)).1 (specStep c r (.adv d) (step c s (.adv d)).2).1 ∧
    (specStep c r (.adv d) (step c s (.adv d)).2).2 = "ok" := by
  simp only [step, stepV, advance, specStep]
  have hdue := fun e he => due_iff h (s.now + d) (e := e) he
  obtain ⟨hbp, hregs, hnow, hnid, hnck, hidlt, hidnd, hkeynd, htimer, htlt, htnd, hchain, hclen, hdlt, hdeliv⟩ := h
  have hkeep : List.filter (fun e => !(dueIds s (s.now + d)).contains e.2.id) r.live
      = List.filter (fun e => decide (s.now + d < e.2.deadline)) r.live := by
    apply List.filter_congr
    intro e he
    rw [hdue e he]
    by_cases hd : e.2.deadline ≤ s.now + d <;> simp [hd] <;> omega
  have hsub : ∀ e ∈ List.filter (fun e => decide (s.now + d < e.2.deadline)) r.live, e ∈ r.live ∧ s.now + d < e.2.deadline := by
    intro e he
    have := List.mem_filter.1 he
    exact ⟨this.1, by simpa using this.2⟩
  constructor
  · constructor
    · dsimp only
      rw [hbp, liveBP_filter, hkeep, hnow]
    · dsimp only
      rw [hregs, liveRegs_filter]
      have : List.filter (fun e => !(dueIds s (s.now + d)).contains (liveEntry e).1) r.live
          = List.filter (fun e => !(dueIds s (s.now + d)).contains e.2.id) r.live := rfl
      rw [this, hkeep, hnow]
    · dsimp only; rw [hnow]
    · exact hnid
    · exact hnck
    · intro e he
      dsimp only at he ⊢
      rw [hnow] at he
      exact hidlt e (hsub e he).1
    · dsimp only; exact nodup_map_filter _ _ hidnd
    · dsimp only; exact nodup_map_filter _ _ hkeynd
    · intro e he
      dsimp only at he ⊢
      rw [hnow] at he
      have := hsub e he
      exact ⟨List.mem_filter.2 ⟨(htimer e this.1).1, by simpa using this.2⟩, this.2⟩
    · intro t ht
      exact htlt t (List.mem_filter.1 ht).1
    · dsimp only; exact nodup_map_filter _ _ htnd
    · intro ck seen hck hcap id hid
      dsimp only at hck ⊢
      have := hchain ck seen hck hcap id hid
      refine ⟨this.1, ?_⟩
      rintro ⟨k, hk⟩
      have hk' := List.mem_filter.1 hk
      obtain ⟨st, hst, hidst⟩ := this.2 ⟨k, hk'.1⟩
      have hnotdue : (!(dueIds s (s.now + d)).contains id) = true := hk'.2
      split
      · exact ⟨st, hst, hidst⟩
      · have hmem : id ∈ st.filter (fun i => !(dueIds s (s.now + d)).contains i) :=
          List.mem_filter.2 ⟨hidst, hnotdue⟩
        refine ⟨_, lookup_filterMap_retain _ ck s.cookies st hst (List.ne_nil_of_mem hmem), hmem⟩
    · dsimp only
      split
      · exact hclen
      · exact Nat.le_trans (List.length_filterMap_le _ _) hclen
    · exact hdlt
    · intro hcap ck seen hck id hid
      dsimp only at hck ⊢
      have := hdeliv hcap ck seen hck id hid
      refine ⟨this.1, ?_⟩
      rintro ⟨k, hk⟩
      have hk' := List.mem_filter.1 hk
      obtain ⟨st, hst, hidst⟩ := this.2 ⟨k, hk'.1⟩
      have hnotdue : (!(dueIds s (s.now + d)).contains id) = true := hk'.2
      split
      · exact ⟨st, hst, hidst⟩
      · have hmem : id ∈ st.filter (fun i => !(dueIds s (s.now + d)).contains i) :=
          List.mem_filter.2 ⟨hidst, hnotdue⟩
        refine ⟨_, lookup_filterMap_retain _ ck s.cookies st hst (List.ne_nil_of_mem hmem), hmem⟩
  · have : List.filter (fun e => (dueIds s (s.now + d)).contains e.1) s.regs
        = List.map liveEntry (List.filter (fun e => decide (e.2.deadline ≤ r.now + d)) r.live) := by
      rw [hregs, liveRegs_filter, hnow]
      unfold liveRegs
      congr 1
      apply List.filter_congr
      intro e he
      exact hdue e he
    exact if_pos this

theorem mem_candidates {s : St} {q : Option Nat} {seen : List Nat} {id : Nat} :
    id ∈ candidates s q seen ↔ ∃ k, (k, id) ∈ s.byPeer ∧ id ∉ seen ∧ nsMatch q k.2 = true := by
  unfold candidates
  constructor
  · intro h
    obtain ⟨e, he, rfl⟩ := List.mem_map.1 h
    have := List.mem_filter.1 he
    refine ⟨e.1, this.1, ?_⟩
    simpa using this.2
  · rintro ⟨k, hk, hs, hn⟩
    exact List.mem_map.2 ⟨(k, id), List.mem_filter.2 ⟨hk, by simpa using ⟨hs, hn⟩⟩, rfl⟩

theorem validChoice_spec {cands : List Nat} {limit : Option Nat} {chosen : List Nat}
    (h : validChoice cands limit chosen = true) : (∀ id ∈ chosen, id ∈ cands) ∧ chosen.Nodup := by
  unfold validChoice at h
  simp only [Bool.and_eq_true, List.all_eq_true, List.contains_iff_mem, decide_eq_true_eq] at h
  exact ⟨h.1.1, h.1.2⟩

theorem lruGet_fst (cs : List (Cookie × List Nat)) (ck : Cookie) : (lruGet cs ck).1 = lookup ck cs := by
  unfold lruGet; cases lookup ck cs <;> rfl

theorem allSome_entries (regs : List (Nat × Reg)) :
    ∀ (chosen : List Nat), (∀ id ∈ chosen, ∃ v, lookup id regs = some v) →
      ∃ entries, allSome (chosen.map fun id => (lookup id regs).map fun r => (id, r)) = some entries ∧
        entries.map (·.1) = chosen ∧ ∀ x ∈ entries, lookup x.1 regs = some x.2
  | [], _ => ⟨[], rfl, rfl, by simp⟩
  | id :: t, h => by
    obtain ⟨v, hv⟩ := h id (by simp)
    obtain ⟨es, h1, h2, h3⟩ := allSome_entries regs t (fun i hi => h i (List.mem_cons_of_mem _ hi))
    refine ⟨(id, v) :: es, ?_, ?_, ?_⟩
    · simp [allSome, hv, h1]
    · simp [h2]
    · intro x hx
      rcases List.mem_cons.1 hx with rfl | hx
      · exact hv
      · exact h3 x hx

/-- `get` after the cookie has been looked up -/
def getCore (c : Cfg) (s : St) (q : Option Nat) (found : Option (List Nat)) (cookies1 : List (Cookie × List Nat))
    (limit : Option Nat) (chosen : List Nat) : St × Out :=
  if !validChoice (candidates s q (found.getD [])) limit chosen then (s, .discBadOracle)
  else
    match allSome (chosen.map (fun id => (lookup id s.regs).map (fun r => (id, r)))) with
    | some entries =>
      ({ s with cookies := lruInsert c.cookieCap cookies1 (s.nextCookie, q) (found.getD [] ++ chosen),
                nextCookie := s.nextCookie + 1 }, .discOk entries q)
    | none =>
      ({ s with cookies := lruInsert c.cookieCap cookies1 (s.nextCookie, q) (found.getD [] ++ chosen),
                nextCookie := s.nextCookie + 1 }, .discPanic)

theorem get_eq (c : Cfg) (s : St) (q : Option Nat) (cookie : Option Cookie) (limit : Option Nat) (chosen : List Nat) :
    get c s q cookie limit chosen =
      if cookieMismatch q cookie then (s, .discMismatch)
      else getCore c s q (cookie.bind fun ck => lookup ck s.cookies)
        (match cookie with
          | some ck => (lruGet s.cookies ck).2
          | none => s.cookies) limit chosen := by
  unfold get getCore
  cases cookie with
  | none => rfl
  | some ck =>
    simp only [Option.bind_some, ← lruGet_fst]
    rfl

theorem disc_sim (c : Cfg) {s : St} {r : Ref} (h : Sim c s r)
    (q : Option Nat) (cookie : Option Cookie) (limit : Option Nat) (chosen : List Nat) :
    Sim c (step c s (.disc q cookie limit chosen)).1
      (specStep c r (.disc q cookie limit chosen) (step c s (.disc q cookie limit chosen)).2).1 ∧
    ((step c s (.disc q cookie limit chosen)).2 ≠ .discBadOracle →
      (specStep c r (.disc q cookie limit chosen) (step c s (.disc q cookie limit chosen)).2).2 = "ok") := by
  simp only [step, stepV, get_eq]
  by_cases hm : cookieMismatch q cookie = true
  · simp only [hm, if_true, specStep]
    exact ⟨h, fun _ => trivial⟩
  · simp only [hm, Bool.false_eq_true, if_false]
    have hc1 : ∀ k, lookup k (match cookie with
        | some ck => (lruGet s.cookies ck).2
        | none => s.cookies) = lookup k s.cookies := by
      intro k; cases cookie with
      | none => rfl
      | some ck => exact lruGet_snd_lookup _ _ _
    have hc1len : (match cookie with
        | some ck => (lruGet s.cookies ck).2
        | none => s.cookies).length ≤ s.cookies.length := by
      cases cookie with
      | none => exact Nat.le_refl _
      | some ck => exact lruGet_snd_length _ _
    generalize (match cookie with
      | some ck => (lruGet s.cookies ck).2
      | none => s.cookies) = cookies1 at hc1 hc1len ⊢
    generalize hfound : (cookie.bind fun ck => lookup ck s.cookies) = found
    unfold getCore
    by_cases hvc : validChoice (candidates s q (found.getD [])) limit chosen = true
    · simp only [hvc, Bool.not_true, Bool.false_eq_true, if_false]
      obtain ⟨hall, hnd⟩ := validChoice_spec hvc
      obtain ⟨hbp, hregs, hnow, hnid, hnck, hidlt, hidnd, hkeynd, htimer, htlt, htnd, hchain, hclen, hdlt, hdeliv⟩ := h
      have hex : ∀ id ∈ chosen, ∃ e ∈ r.live, e.2.id = id ∧ nsMatch q e.1.2 = true ∧ id ∉ found.getD [] ∧
          ∃ k, (k, id) ∈ s.byPeer := by
        intro id hid
        obtain ⟨k, hk, hs, hn⟩ := mem_candidates.1 (hall id hid)
        have hk' := hk
        rw [hbp] at hk'
        obtain ⟨e, he, hk1, hi⟩ := mem_liveBP.1 hk'
        exact ⟨e, he, hi, by rw [hk1]; exact hn, hs, k, hk⟩
      have hlook : ∀ id ∈ chosen, ∃ v, lookup id s.regs = some v := by
        intro id hid
        obtain ⟨e, he, hi, _⟩ := hex id hid
        exact ⟨_, by rw [hregs, ← hi]; exact lookup_liveRegs hidnd he⟩
      obtain ⟨entries, hE, hmap, hEl⟩ := allSome_entries s.regs chosen hlook
      rw [hE]
      dsimp only
      simp only [specStep, hm, Bool.false_eq_true, if_false, ne_eq, not_true_eq_false]
      -- the ids recorded by the reference chain are recorded under the presented cookie
      generalize hprev : chainPrev r.chain cookie = prev
      have hprevP : 1 ≤ c.cookieCap → ∀ id ∈ prev, id < s.nextId ∧ ((∃ k, (k, id) ∈ s.byPeer) → id ∈ found.getD []) := by
        intro hcap id hid
        rw [← hprev] at hid
        unfold chainPrev at hid
        cases hch : r.chain with
        | none => simp [hch] at hid
        | some cs =>
          obtain ⟨ck, seen⟩ := cs
          cases cookie with
          | none => simp [hch] at hid
          | some ck' =>
            simp only [hch] at hid
            by_cases hck : ck = ck'
            · subst hck
              simp only [if_true] at hid
              have := hchain ck seen hch hcap id hid
              refine ⟨this.1, fun hk => ?_⟩
              obtain ⟨st, hst, hidst⟩ := this.2 hk
              rw [← hfound]
              simp only [Option.bind_some, hst, Option.getD_some]
              exact hidst
            · simp [hck] at hid
      -- … and so are the ids delivered along the chain of ANY issued cookie, while nothing was evicted
      generalize hprevA : deliveredPrev r.delivered cookie = prevAll
      have hprevQ : s.nextCookie ≤ c.cookieCap → ∀ id ∈ prevAll,
          id < s.nextId ∧ ((∃ k, (k, id) ∈ s.byPeer) → id ∈ found.getD []) := by
        intro hcap id hid
        rw [← hprevA] at hid
        unfold deliveredPrev at hid
        cases cookie with
        | none => simp at hid
        | some ck' =>
          simp only [Option.bind_some] at hid
          cases hlk : lookup ck' r.delivered with
          | none => simp [hlk] at hid
          | some seen =>
            simp only [hlk, Option.getD_some] at hid
            have := hdeliv hcap ck' seen hlk id hid
            refine ⟨this.1, fun hk => ?_⟩
            obtain ⟨st, hst, hidst⟩ := this.2 hk
            rw [← hfound]
            simp only [Option.bind_some, hst, Option.getD_some]
            exact hidst
      constructor
      · refine ⟨hbp, hregs, hnow, hnid, by dsimp only; rw [hnck], hidlt, hidnd, hkeynd, htimer, htlt, htnd, ?_, ?_, ?_, ?_⟩
        rotate_left
        · -- cache length
          dsimp only
          have := lruInsert_length c.cookieCap cookies1 (s.nextCookie, q) (found.getD [] ++ chosen)
          omega
        · -- issued cookies are older than the next one
          intro e he
          dsimp only at he ⊢
          rcases List.mem_append.1 he with he | he
          · have := hdlt e he; omega
          · simp only [List.mem_singleton] at he; subst he; dsimp only; omega
        · -- delivered sets
          intro hcap ck seen hck id hid
          dsimp only at hck hcap ⊢
          rcases lookup_append_single hck with hold | ⟨_, hkeq, hseen⟩
          · have hlt := hdlt _ (lookup_some_mem hold)
            have hne : ck ≠ (s.nextCookie, q) := by
              intro h; rw [h] at hlt; simp at hlt
            have := hdeliv (by omega) ck seen hold id hid
            refine ⟨this.1, fun hk => ?_⟩
            obtain ⟨st, hst, hidst⟩ := this.2 hk
            refine ⟨st, ?_, hidst⟩
            rw [lruInsert_noevict _ _ _ _ _ (by omega) hne, hc1, hst]
          · subst hkeq hseen
            rw [hnck, lruInsert_lookup _ (by omega)]
            rcases List.mem_append.1 hid with hid | hid
            · have := hprevQ (by omega) id hid
              exact ⟨this.1, fun hk => ⟨_, rfl, List.mem_append_left _ (this.2 hk)⟩⟩
            · rw [hmap] at hid
              obtain ⟨e, he, hi, _⟩ := hex id hid
              exact ⟨by rw [← hi]; exact hidlt e he, fun _ => ⟨_, rfl, List.mem_append_right _ hid⟩⟩
        intro ck seen hck hcap id hid
        dsimp only at hck ⊢
        simp only [Option.some.injEq, Prod.mk.injEq] at hck
        obtain ⟨rfl, rfl⟩ := hck
        rw [hnck, lruInsert_lookup _ hcap]
        rcases List.mem_append.1 hid with hid | hid
        · have := hprevP hcap id hid
          exact ⟨this.1, fun hk => ⟨_, rfl, List.mem_append_left _ (this.2 hk)⟩⟩
        · rw [hmap] at hid
          obtain ⟨e, he, hi, _⟩ := hex id hid
          exact ⟨by rw [← hi]; exact hidlt e he, fun _ => ⟨_, rfl, List.mem_append_right _ hid⟩⟩
      · intro _
        have hlive : entries.all (entryLive r q) = true := by
          rw [List.all_eq_true]
          intro x hx
          have hxl := hEl x hx
          have hxc : x.1 ∈ chosen := by rw [← hmap]; exact List.mem_map.2 ⟨x, hx, rfl⟩
          obtain ⟨e, he, hi, hn, _⟩ := hex x.1 hxc
          have h2 : lookup x.1 s.regs = some (liveEntry e).2 := by
            rw [hregs, ← hi]; exact lookup_liveRegs hidnd he
          rw [hxl] at h2
          have hx2 : x.2 = (liveEntry e).2 := Option.some.inj h2
          unfold entryLive
          simp only [Bool.and_eq_true, List.any_eq_true, decide_eq_true_eq]
          refine ⟨by rw [hx2]; exact hn, e, he, ?_⟩
          rw [hx2, hnow]
          exact ⟨⟨⟨rfl, hi⟩, rfl⟩, (htimer e he).2⟩
        have hndE : (entries.map (·.1)).Nodup := by rw [hmap]; exact hnd
        have hdisj : (decide (c.cookieCap ≥ 1) && (entries.map (·.1)).any (prev.contains ·)) = false := by
          by_cases hcap : 1 ≤ c.cookieCap
          · have : (entries.map (·.1)).any (prev.contains ·) = false := by
              apply Bool.eq_false_iff.2
              intro hany
              rw [List.any_eq_true] at hany
              obtain ⟨id, hid, hc⟩ := hany
              rw [hmap] at hid
              obtain ⟨e, he, hi, _, hns, hk⟩ := hex id hid
              exact hns ((hprevP hcap id (by simpa using hc)).2 hk)
            rw [this, Bool.and_false]
          · simp [hcap]
        have hdisj2 : (decide (r.nextCookie ≤ c.cookieCap) && (entries.map (·.1)).any (prevAll.contains ·)) = false := by
          by_cases hcap : s.nextCookie ≤ c.cookieCap
          · have : (entries.map (·.1)).any (prevAll.contains ·) = false := by
              apply Bool.eq_false_iff.2
              intro hany
              rw [List.any_eq_true] at hany
              obtain ⟨id, hid, hc⟩ := hany
              rw [hmap] at hid
              obtain ⟨e, he, hi, _, hns, hk⟩ := hex id hid
              exact hns ((hprevQ hcap id (by simpa using hc)).2 hk)
            rw [this, Bool.and_false]
          · rw [hnck]; simp [hcap]
        rw [if_neg (by simp [hlive]), if_neg (by simp [hndE]), if_neg (by rw [hdisj]; exact Bool.false_ne_true),
          if_neg (by rw [hdisj2]; exact Bool.false_ne_true)]
    · simp only [hvc, Bool.not_false, if_true, specStep]
      exact ⟨h, fun hne => absurd rfl hne⟩

end C51
