import Libp2pModel.Model.C25
namespace C25

theorem uviGo_ok_append (x : List Nat) : ∀ (b : List Nat) (i acc n : Nat) (r : List Nat),
    uviGo i acc b = .ok n r → uviGo i acc (b ++ x) = .ok n (r ++ x) := by
  intro b
  induction b with
  | nil => intro i acc n r h; simp [uviGo] at h
  | cons c cs ih =>
    intro i acc n r h
    simp only [List.cons_append, uviGo] at h ⊢
    split at h
    · simp at h
    · split at h
      · split at h
        · simp at h
        · rename_i h1 h2 h3
          simp only [UviRes.ok.injEq] at h
          simp [h2, h3, h.1, h.2, Nat.not_le.mp h1]
      · split at h
        · simp at h
        · rename_i h1 h2 h3
          simp only [h1, h2, h3, ↓reduceIte]
          exact ih _ _ _ _ h

theorem uviGo_err_append (x : List Nat) : ∀ (b : List Nat) (i acc : Nat) (e : UviErr),
    uviGo i acc b = .err e → uviGo i acc (b ++ x) = .err e := by
  intro b
  induction b with
  | nil => intro i acc e h; simp [uviGo] at h
  | cons c cs ih =>
    intro i acc e h
    simp only [List.cons_append, uviGo] at h ⊢
    split at h
    · simp at h
    · split at h
      · split at h
        · rename_i h1 h2 h3
          simp [h3, h, Nat.not_le.mp h1]
        · simp at h
      · split at h
        · rename_i h1 h2 h3
          simp [h2, h3, h]
        · rename_i h1 h2 h3
          simp only [h1, h2, h3, ↓reduceIte]
          exact ih _ _ _ h

/-- the shift-overflow panic of the varint loop is unreachable from `i ≤ 9` -/
theorem uviGo_no_panic : ∀ (b : List Nat) (i acc : Nat), i ≤ 9 → uviGo i acc b ≠ .panic := by
  intro b
  induction b with
  | nil => intro i acc _; simp [uviGo]
  | cons c cs ih =>
    intro i acc hi
    simp only [uviGo]
    split
    · omega
    · split
      · split <;> simp
      · split
        · simp
        · exact ih _ _ (by omega)

theorem uvi64_no_panic (b : List Nat) : uvi64 b ≠ .panic := uviGo_no_panic b 0 0 (by omega)

theorem uviGo_ok_length : ∀ (b : List Nat) (i acc n : Nat) (r : List Nat),
    uviGo i acc b = .ok n r → r.length < b.length := by
  intro b
  induction b with
  | nil => intro i acc n r h; simp [uviGo] at h
  | cons c cs ih =>
    intro i acc n r h
    simp only [uviGo] at h
    split at h
    · simp at h
    · split at h
      · split at h
        · simp at h
        · simp only [UviRes.ok.injEq] at h
          simp [← h.2]
      · split at h
        · simp at h
        · have := ih _ _ _ _ h
          simp; omega

/-- what was consumed is a prefix: `b = consumed ++ r` -/
theorem uviGo_ok_suffix : ∀ (b : List Nat) (i acc n : Nat) (r : List Nat),
    uviGo i acc b = .ok n r → ∃ p, b = p ++ r := by
  intro b
  induction b with
  | nil => intro i acc n r h; simp [uviGo] at h
  | cons c cs ih =>
    intro i acc n r h
    simp only [uviGo] at h
    split at h
    · simp at h
    · split at h
      · split at h
        · simp at h
        · simp only [UviRes.ok.injEq] at h
          exact ⟨[c], by simp [h.2]⟩
      · split at h
        · simp at h
        · obtain ⟨p, hp⟩ := ih _ _ _ _ h
          exact ⟨c :: p, by simp [hp]⟩

end C25
