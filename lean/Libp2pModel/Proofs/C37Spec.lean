import Libp2pModel.Proofs.C37Cap
/-!
# C37 — the executable structural Spec accepts every dump of a state satisfying the invariant
-/
namespace C37

theorem dump_nodes_of_split {b : Bucket} {D C : List Node} (hsp : Split b D C) (i : Nat) :
    (b.dump i).nodes = D.map (fun n => (n.key, false)) ++ C.map (fun n => (n.key, true)) := by
  unfold Bucket.dump
  simp only
  apply List.ext_getElem
  · simp [hsp.nodes]
  · intro k h1 h2
    simp only [List.getElem_zipWith, List.getElem_range]
    have hk : k < b.nodes.length := by simpa using h1
    have hst := status_of_split hsp k
    by_cases hlt : k < D.length
    · have : ¬ (D.length ≤ k ∧ C ≠ []) := fun ⟨h, _⟩ => by omega
      rw [if_neg this] at hst
      rw [List.getElem_append_left (by simpa using hlt)]
      simp only [List.getElem_map, hst]
      have : b.nodes[k] = D[k] := by
        simp only [hsp.nodes]; exact List.getElem_append_left hlt
      rw [this]; rfl
    · have hle : D.length ≤ k := by omega
      have hC : C ≠ [] := by
        intro e; rw [hsp.nodes, e] at hk; simp at hk; omega
      rw [if_pos ⟨hle, hC⟩] at hst
      rw [List.getElem_append_right (by simpa using hle)]
      simp only [List.getElem_map, hst, List.length_map]
      have : b.nodes[k] = C[k - D.length]'(by rw [hsp.nodes] at hk; simp at hk; omega) := by
        simp only [hsp.nodes]; exact List.getElem_append_right hle
      rw [this]; rfl


theorem statusOrdered_split : ∀ (D C : List Bool), (∀ x ∈ D, x = false) → (∀ x ∈ C, x = true) →
    statusOrdered (D ++ C) = true
  | [], C, _, hc => by
    induction C with
    | nil => rfl
    | cons c C ih =>
      have hct : c = true := hc c (by simp)
      subst hct
      simp only [List.nil_append, statusOrdered, if_true, Bool.and_eq_true, List.all_eq_true]
      exact ⟨fun x hx => by simpa using hc x (by simp [hx]), by simpa using ih (fun x hx => hc x (by simp [hx]))⟩
  | d :: D, C, hd, hc => by
    have hdf : d = false := hd d (by simp)
    subst hdf
    simp only [List.cons_append, statusOrdered, Bool.false_eq_true, if_false, Bool.true_and]
    exact statusOrdered_split D C (fun x hx => hd x (by simp [hx])) hc

theorem dump_keys {b : Bucket} {l i B : Nat} (h : BInv l i B b) :
    (b.dump i).nodes.map (·.1) = keysOf b.nodes := by
  obtain ⟨D, C, hsp⟩ := h.split
  rw [dump_nodes_of_split hsp, hsp.nodes]
  simp [keysOf, List.map_append, Function.comp_def]

/-- the Spec's per-bucket clauses hold for the dump of a bucket satisfying the invariant -/
theorem spec_bucket {l i B s : Nat} {b : Bucket} (h : BInv l i B b) (hcap : b.capacity = s) :
    specBucket l s (b.dump i) = true := by
  obtain ⟨D, C, hsp⟩ := h.split
  have hkeys := dump_keys h (i := i)
  have hnodes := dump_nodes_of_split hsp i
  simp only [specBucket, Bool.and_eq_true, decide_eq_true_eq, List.all_eq_true, beq_iff_eq]
  refine ⟨⟨⟨?_, ?_⟩, ?_⟩, ?_⟩
  · have : (b.dump i).nodes.length = b.nodes.length := by
      rw [hnodes, hsp.nodes]; simp
    rw [this, ← hcap]; exact h.len
  · intro x hx
    have hk : x.1 ∈ keysOf b.nodes := by rw [← hkeys]; exact List.mem_map.2 ⟨x, hx, rfl⟩
    obtain ⟨n, hn, hnk⟩ := List.mem_map.1 hk
    have := h.index n hn
    try simp only at hnk
    rw [hnk] at this
    show bucketIndex (l ^^^ x.1) = some (b.dump i).index
    exact this
  · show (match (b.dump i).pending with
      | some p => bucketIndex (l ^^^ p) == some (b.dump i).index && !((b.dump i).nodes.map (·.1)).contains p
      | none => true) = true
    rw [hkeys]
    show (match b.pending.map (·.node.key) with
      | some p => bucketIndex (l ^^^ p) == some i && !(keysOf b.nodes).contains p
      | none => true) = true
    cases hp : b.pending with
    | none => rfl
    | some p =>
      simp only [Option.map_some, Bool.and_eq_true, beq_iff_eq, Bool.not_eq_true', List.contains_eq_mem,
        decide_eq_false_iff_not]
      exact ⟨h.pendingIndex p hp, h.pendingNotIn p hp⟩
  · rw [hnodes, List.map_append]
    apply statusOrdered_split
    · intro x hx; simp only [List.map_map, List.mem_map, Function.comp] at hx; obtain ⟨_, _, rfl⟩ := hx; rfl
    · intro x hx; simp only [List.map_map, List.mem_map, Function.comp] at hx; obtain ⟨_, _, rfl⟩ := hx; rfl

theorem nodupB_iff : ∀ l : List Nat, nodupB l = true ↔ l.Nodup
  | [] => by simp [nodupB]
  | a :: l => by
    simp only [nodupB, Bool.and_eq_true, Bool.not_eq_true', List.nodup_cons, nodupB_iff l,
      List.contains_eq_mem, decide_eq_false_iff_not]

theorem dumpEntry_some {t : Table} {i : Nat} {bd : BucketDump}
    (h : (if (t.bucket i).nodes.length > 0 ∨ (t.bucket i).pending.isSome = true
      then some ((t.bucket i).dump i) else none) = some bd) : bd = (t.bucket i).dump i := by
  split at h
  · exact (Option.some.inj h).symm
  · cases h

theorem mem_dump {t : Table} {bd : BucketDump} (h : bd ∈ t.dump) :
    ∃ i, i < 256 ∧ bd = (t.bucket i).dump i := by
  unfold Table.dump at h
  obtain ⟨i, hi, hbd⟩ := List.mem_filterMap.1 h
  simp only [List.mem_range, NUM_BUCKETS] at hi
  exact ⟨i, hi, dumpEntry_some hbd⟩

/-- **the Spec accepts the model**: the structural Spec evaluated on the dump of any state that
satisfies the invariant (with uniform capacity `s`) is `true` -/
theorem spec_dump {t : Table} (h : TInv t) (s : Nat) (hcap : ∀ i, i < 256 → (t.bucket i).capacity = s) :
    specDump t.localKey s t.dump = true := by
  have hkeysOf : ∀ i, i < 256 → ((t.bucket i).dump i).nodes.map (·.1) = keysOf (t.bucket i).nodes :=
    fun i hi => dump_keys (h.buckets i hi)
  simp only [specDump, Bool.and_eq_true, List.all_eq_true, Bool.not_eq_true', nodupB_iff,
    List.contains_eq_mem, decide_eq_false_iff_not]
  refine ⟨⟨⟨?_, ?_⟩, ?_⟩, ?_⟩
  · intro bd hbd
    obtain ⟨i, hi, rfl⟩ := mem_dump hbd
    exact spec_bucket (h.buckets i hi) (hcap i hi)
  · -- all keys distinct
    unfold allKeys Table.dump
    rw [List.Nodup, List.pairwise_flatMap]
    constructor
    · intro bd hbd
      obtain ⟨i, hi, rfl⟩ := mem_dump hbd
      rw [hkeysOf i hi]; exact (h.buckets i hi).nodup
    · rw [List.pairwise_filterMap]
      have hr : (List.range NUM_BUCKETS).Pairwise (fun a b => a < b) := List.pairwise_lt_range
      rw [List.Pairwise.and_mem] at hr
      refine hr.imp ?_
      intro i j ⟨hi, hj, hij⟩ bi hbi bj hbj x hx y hy
      simp only [List.mem_range, NUM_BUCKETS] at hi hj
      have ebi : bi = (t.bucket i).dump i := dumpEntry_some hbi
      have ebj : bj = (t.bucket j).dump j := dumpEntry_some hbj
      subst ebi ebj
      rw [hkeysOf i hi] at hx
      rw [hkeysOf j hj] at hy
      intro e
      subst e
      obtain ⟨n, hn, hnk⟩ := List.mem_map.1 hx
      obtain ⟨m, hm, hmk⟩ := List.mem_map.1 hy
      have h1 := (h.buckets i hi).index n hn
      have h2 := (h.buckets j hj).index m hm
      try simp only at hnk hmk
      rw [hnk] at h1
      rw [hmk, h1] at h2
      have := Option.some.inj h2
      omega
  · -- the local key is not stored
    unfold allKeys
    intro hin
    obtain ⟨bd, hbd, hx⟩ := List.mem_flatMap.1 hin
    obtain ⟨i, hi, rfl⟩ := mem_dump hbd
    rw [hkeysOf i hi] at hx
    obtain ⟨n, hn, hnk⟩ := List.mem_map.1 hx
    have h1 := (h.buckets i hi).index n hn
    try simp only at hnk
    rw [hnk] at h1
    simp [bucketIndex] at h1
  · -- bucket indices distinct
    unfold Table.dump
    rw [List.Nodup, List.pairwise_map, List.pairwise_filterMap]
    have hr : (List.range NUM_BUCKETS).Pairwise (fun a b => a < b) := List.pairwise_lt_range
    refine hr.imp ?_
    intro i j hij bi hbi bj hbj
    have ebi : bi.index = i := by rw [dumpEntry_some hbi]; rfl
    have ebj : bj.index = j := by rw [dumpEntry_some hbj]; rfl
    omega

/-! ## the local key never changes -/

theorem access_local {t : Table} {key i : Nat} {t1 : Table} (ha : t.access key = some (i, t1)) :
    t1.localKey = t.localKey := by
  unfold Table.access at ha
  cases hbi : bucketIndex (t.localKey ^^^ key) with
  | none => simp [hbi] at ha
  | some k =>
    simp only [hbi, Option.some.injEq, Prod.mk.injEq] at ha
    obtain ⟨_, ht1⟩ := ha
    subst ht1
    cases ((t.bucket k).applyPending t.now (2 * t.ops)).2 <;> rfl

theorem iterFrom_local : ∀ (n : Nat) (t : Table) (i : Nat), (t.iterFrom i n).localKey = t.localKey
  | 0, _, _ => rfl
  | n + 1, t, i => by rw [iterFrom_succ, iterFrom_local n, record_local]; rfl

theorem bump_local (t : Table) : t.bump.localKey = t.localKey := rfl

theorem step_local (t : Table) (op : Op) : (t.step op).1.localKey = t.localKey := by
  cases op with
  | insert key value st =>
    cases ha : t.access key with
    | none => simp only [Table.step, ha]; rfl
    | some it1 =>
      obtain ⟨i, t1⟩ := it1
      simp only [Table.step, ha]
      cases (t1.bucket i).entryKind key <;> simp only <;> exact (access_local ha : t1.localKey = t.localKey)
  | update key st =>
    cases ha : t.access key with
    | none => simp only [Table.step, ha]; rfl
    | some it1 =>
      obtain ⟨i, t1⟩ := it1
      simp only [Table.step, ha]
      cases (t1.bucket i).entryKind key <;> simp only <;> exact (access_local ha : t1.localKey = t.localKey)
  | remove key =>
    cases ha : t.access key with
    | none => simp only [Table.step, ha]; rfl
    | some it1 =>
      obtain ⟨i, t1⟩ := it1
      simp only [Table.step, ha]
      cases (t1.bucket i).entryKind key <;> simp only
      · exact (access_local ha : t1.localKey = t.localKey)
      · exact (access_local ha : t1.localKey = t.localKey)
      · generalize (t1.bucket i).remove key = res
        obtain ⟨b', r⟩ := res
        cases r with
        | none => exact (access_local ha : t1.localKey = t.localKey)
        | some x => obtain ⟨node, s, p⟩ := x; exact (access_local ha : t1.localKey = t.localKey)
      · unfold Bucket.removePending
        cases (t1.bucket i).pending <;> exact (access_local ha : t1.localKey = t.localKey)
  | lookup key =>
    cases ha : t.access key with
    | none => simp only [Table.step, ha]; rfl
    | some it1 => obtain ⟨i, t1⟩ := it1; simp only [Table.step, ha]; exact (access_local ha : t1.localKey = t.localKey)
  | bucketInfo key =>
    cases ha : t.access key with
    | none => simp only [Table.step, ha]; rfl
    | some it1 => obtain ⟨i, t1⟩ := it1; simp only [Table.step, ha]; exact (access_local ha : t1.localKey = t.localKey)
  | iter =>
    simp only [Table.step, bump_local]
    exact iterFrom_local _ _ _
  | advance n => simp only [Table.step, bump_local]

theorem run_local (ops : List Op) : ∀ t : Table, (t.run ops).localKey = t.localKey := by
  induction ops with
  | nil => intro t; rfl
  | cons o os ih =>
    intro t
    show ((t.step o).1.run os).localKey = _
    rw [ih, step_local]

end C37
