import Libp2pModel.Proofs.C25Uvi
namespace C25

/-! one-step lemmas for `decode` under appended input -/

theorem fromHL_some_append (h len : Nat) (src x : List Nat) (st' : St) (r : List Nat) (f : Frame)
    (hd : fromHL h len src = (st', r, .some f)) : fromHL h len (src ++ x) = (st', r ++ x, .some f) := by
  unfold fromHL at hd ⊢
  split at hd
  · simp at hd
  · rename_i hlen
    have hlen' : ¬ (src ++ x).length < len := by simp; omega
    have ht : (src ++ x).take len = src.take len := by
      rw [List.take_append_of_le_length (by omega)]
    have hdr : (src ++ x).drop len = src.drop len ++ x := by
      rw [List.drop_append_of_le_length (by omega)]
    simp only [hlen', ↓reduceIte, ht, hdr]
    split at hd <;> simp_all

theorem fromHL_err_append (h len : Nat) (src x : List Nat) (st' : St) (r : List Nat) (e : DErr)
    (hd : fromHL h len src = (st', r, .err e)) : fromHL h len (src ++ x) = (st', r ++ x, .err e) := by
  unfold fromHL at hd ⊢
  split at hd
  · simp at hd
  · rename_i hlen
    have hlen' : ¬ (src ++ x).length < len := by simp; omega
    have ht : (src ++ x).take len = src.take len := by
      rw [List.take_append_of_le_length (by omega)]
    have hdr : (src ++ x).drop len = src.drop len ++ x := by
      rw [List.drop_append_of_le_length (by omega)]
    simp only [hlen', ↓reduceIte, ht, hdr]
    split at hd <;> simp_all

theorem fromH_some_append (h : Nat) (src x : List Nat) (st' : St) (r : List Nat) (f : Frame)
    (hd : fromH h src = (st', r, .some f)) : fromH h (src ++ x) = (st', r ++ x, .some f) := by
  unfold fromH at hd ⊢
  cases hu : uvi64 src with
  | need => simp [hu] at hd
  | err e => simp [hu] at hd
  | panic => simp [hu] at hd
  | ok len rest =>
    rw [hu] at hd
    have := uviGo_ok_append x src 0 0 len rest hu
    unfold uvi64
    rw [this]
    simp only at hd ⊢
    split at hd
    · simp at hd
    · rename_i hl; simp only [hl, ↓reduceIte]; exact fromHL_some_append _ _ _ _ _ _ _ hd

theorem fromH_err_append (h : Nat) (src x : List Nat) (st' : St) (r : List Nat) (e : DErr)
    (hd : fromH h src = (st', r, .err e)) : fromH h (src ++ x) = (st', r ++ x, .err e) := by
  unfold fromH at hd ⊢
  cases hu : uvi64 src with
  | need => simp [hu] at hd
  | err e' =>
    rw [hu] at hd
    have := uviGo_err_append x src 0 0 e' hu
    unfold uvi64; rw [this]
    simp only [Prod.mk.injEq, DRes.err.injEq] at hd ⊢
    obtain ⟨h1, h2, h3⟩ := hd
    -- varint errors leave `src` untouched
    subst h1 h2 h3
    simp
  | panic => exact absurd hu (uvi64_no_panic src)
  | ok len rest =>
    rw [hu] at hd
    have := uviGo_ok_append x src 0 0 len rest hu
    unfold uvi64
    rw [this]
    simp only at hd ⊢
    split at hd
    · simp_all
    · rename_i hl; simp only [hl, ↓reduceIte]; exact fromHL_err_append _ _ _ _ _ _ _ hd


theorem fromBegin_some_append (src x : List Nat) (st' : St) (r : List Nat) (f : Frame)
    (hd : fromBegin src = (st', r, .some f)) : fromBegin (src ++ x) = (st', r ++ x, .some f) := by
  unfold fromBegin at hd ⊢
  cases hu : uvi64 src with
  | need => simp [hu] at hd
  | err e => simp [hu] at hd
  | panic => simp [hu] at hd
  | ok h rest =>
    rw [hu] at hd
    have := uviGo_ok_append x src 0 0 h rest hu
    unfold uvi64
    rw [this]
    exact fromH_some_append _ _ _ _ _ _ hd

theorem fromBegin_err_append (src x : List Nat) (st' : St) (r : List Nat) (e : DErr)
    (hd : fromBegin src = (st', r, .err e)) : fromBegin (src ++ x) = (st', r ++ x, .err e) := by
  unfold fromBegin at hd ⊢
  cases hu : uvi64 src with
  | need => simp [hu] at hd
  | err e' =>
    rw [hu] at hd
    have := uviGo_err_append x src 0 0 e' hu
    unfold uvi64; rw [this]
    simp only [Prod.mk.injEq, DRes.err.injEq] at hd ⊢
    obtain ⟨h1, h2, h3⟩ := hd
    subst h1 h2 h3
    simp
  | panic => exact absurd hu (uvi64_no_panic src)
  | ok h rest =>
    rw [hu] at hd
    have := uviGo_ok_append x src 0 0 h rest hu
    unfold uvi64
    rw [this]
    exact fromH_err_append _ _ _ _ _ _ hd

/-- a produced frame is not affected by input that arrives later -/
theorem decode_some_append (st : St) (src x : List Nat) (st' : St) (r : List Nat) (f : Frame)
    (hd : decode st src = (st', r, .some f)) : decode st (src ++ x) = (st', r ++ x, .some f) := by
  cases st with
  | begin => exact fromBegin_some_append _ _ _ _ _ hd
  | hasHeader h => exact fromH_some_append _ _ _ _ _ _ hd
  | hasHeaderAndLen h len => exact fromHL_some_append _ _ _ _ _ _ _ hd
  | poisoned => simp [decode] at hd

/-- neither is an error -/
theorem decode_err_append (st : St) (src x : List Nat) (st' : St) (r : List Nat) (e : DErr)
    (hd : decode st src = (st', r, .err e)) : decode st (src ++ x) = (st', r ++ x, .err e) := by
  cases st with
  | begin => exact fromBegin_err_append _ _ _ _ _ hd
  | hasHeader h => exact fromH_err_append _ _ _ _ _ _ hd
  | hasHeaderAndLen h len => exact fromHL_err_append _ _ _ _ _ _ _ hd
  | poisoned => simp only [decode, Prod.mk.injEq] at hd ⊢; simp_all

/-! resumption: after `Ok(None)`, decoding the old input plus more = decoding from the saved state -/

theorem fromHL_none_resume (h len : Nat) (src x : List Nat) (st' : St) (r : List Nat) (k : Nat)
    (hd : fromHL h len src = (st', r, .none k)) : fromHL h len (src ++ x) = decode st' (r ++ x) := by
  unfold fromHL at hd
  split at hd
  · simp only [Prod.mk.injEq] at hd
    obtain ⟨h1, h2, _⟩ := hd
    subst h1 h2
    simp [decode]
  · split at hd <;> simp at hd

theorem fromH_none_resume (h : Nat) (src x : List Nat) (st' : St) (r : List Nat) (k : Nat)
    (hd : fromH h src = (st', r, .none k)) : fromH h (src ++ x) = decode st' (r ++ x) := by
  unfold fromH at hd
  cases hu : uvi64 src with
  | need =>
    rw [hu] at hd
    simp only [Prod.mk.injEq] at hd
    obtain ⟨h1, h2, _⟩ := hd
    subst h1 h2
    simp [decode]
  | err e => simp [hu] at hd
  | panic => simp [hu] at hd
  | ok len rest =>
    rw [hu] at hd
    have := uviGo_ok_append x src 0 0 len rest hu
    simp only at hd
    split at hd
    · simp at hd
    · rename_i hl
      conv => lhs; unfold fromH uvi64
      rw [this]
      simp only [hl, ↓reduceIte]
      exact fromHL_none_resume _ _ _ _ _ _ _ hd

theorem fromBegin_none_resume (src x : List Nat) (st' : St) (r : List Nat) (k : Nat)
    (hd : fromBegin src = (st', r, .none k)) : fromBegin (src ++ x) = decode st' (r ++ x) := by
  unfold fromBegin at hd
  cases hu : uvi64 src with
  | need =>
    rw [hu] at hd
    simp only [Prod.mk.injEq] at hd
    obtain ⟨h1, h2, _⟩ := hd
    subst h1 h2
    simp [decode]
  | err e => simp [hu] at hd
  | panic => simp [hu] at hd
  | ok h rest =>
    rw [hu] at hd
    have := uviGo_ok_append x src 0 0 h rest hu
    conv => lhs; unfold fromBegin uvi64
    rw [this]
    exact fromH_none_resume _ _ _ _ _ _ hd

theorem decode_none_resume (st : St) (src x : List Nat) (st' : St) (r : List Nat) (k : Nat)
    (hd : decode st src = (st', r, .none k)) : decode st (src ++ x) = decode st' (r ++ x) := by
  cases st with
  | begin => exact fromBegin_none_resume _ _ _ _ _ hd
  | hasHeader h => exact fromH_none_resume _ _ _ _ _ _ hd
  | hasHeaderAndLen h len => exact fromHL_none_resume _ _ _ _ _ _ _ hd
  | poisoned => simp [decode] at hd

/-! progress -/

theorem fromHL_some_state (h len : Nat) (src : List Nat) (st' : St) (r : List Nat) (f : Frame)
    (hd : fromHL h len src = (st', r, .some f)) : st' = .begin ∧ r.length ≤ src.length := by
  unfold fromHL at hd
  split at hd
  · simp at hd
  · split at hd
    · simp only [Prod.mk.injEq] at hd
      obtain ⟨h1, h2, _⟩ := hd
      subst h1 h2
      simp
    · simp at hd

theorem fromH_some_state (h : Nat) (src : List Nat) (st' : St) (r : List Nat) (f : Frame)
    (hd : fromH h src = (st', r, .some f)) : st' = .begin ∧ r.length < src.length := by
  unfold fromH at hd
  cases hu : uvi64 src with
  | need => simp [hu] at hd
  | err e => simp [hu] at hd
  | panic => simp [hu] at hd
  | ok len rest =>
    rw [hu] at hd
    have hl := uviGo_ok_length src 0 0 len rest hu
    simp only at hd
    split at hd
    · simp at hd
    · have := fromHL_some_state _ _ _ _ _ _ hd
      exact ⟨this.1, by omega⟩

theorem fromBegin_some_state (src : List Nat) (st' : St) (r : List Nat) (f : Frame)
    (hd : fromBegin src = (st', r, .some f)) : st' = .begin ∧ r.length + 2 ≤ src.length := by
  unfold fromBegin at hd
  cases hu : uvi64 src with
  | need => simp [hu] at hd
  | err e => simp [hu] at hd
  | panic => simp [hu] at hd
  | ok h rest =>
    rw [hu] at hd
    have hl := uviGo_ok_length src 0 0 h rest hu
    have := fromH_some_state _ _ _ _ _ hd
    exact ⟨this.1, by omega⟩

/-- every produced frame makes the loop measure drop: the `else` branch of `drain` is dead -/
theorem decode_some_measure (st : St) (src : List Nat) (st' : St) (r : List Nat) (f : Frame)
    (hd : decode st src = (st', r, .some f)) : measure st' r < measure st src := by
  cases st with
  | begin =>
    have := fromBegin_some_state _ _ _ _ hd
    simp [measure, this.1]; omega
  | hasHeader h =>
    have := fromH_some_state _ _ _ _ _ hd
    simp [measure, this.1]; omega
  | hasHeaderAndLen h len =>
    have := fromHL_some_state _ _ _ _ _ _ hd
    simp [measure, this.1]; omega
  | poisoned => simp [decode] at hd

/-- every error poisons the codec -/
theorem decode_err_state (st : St) (src : List Nat) (st' : St) (r : List Nat) (e : DErr)
    (hd : decode st src = (st', r, .err e)) : st' = .poisoned := by
  have hHL : ∀ h len src, fromHL h len src = (st', r, .err e) → st' = .poisoned := by
    intro h len src hd
    unfold fromHL at hd
    split at hd
    · simp at hd
    · split at hd <;> simp at hd; exact hd.1.symm
  have hH : ∀ h src, fromH h src = (st', r, .err e) → st' = .poisoned := by
    intro h src hd
    unfold fromH at hd
    split at hd
    · simp at hd
    · simp at hd; exact hd.1.symm
    · simp at hd; exact hd.1.symm
    · split at hd
      · simp at hd; exact hd.1.symm
      · exact hHL _ _ _ hd
  cases st with
  | begin =>
    simp only [decode] at hd
    unfold fromBegin at hd
    split at hd
    · simp at hd
    · simp at hd; exact hd.1.symm
    · simp at hd; exact hd.1.symm
    · exact hH _ _ hd
  | hasHeader h => exact hH _ _ hd
  | hasHeaderAndLen h len => exact hHL _ _ _ hd
  | poisoned => simp [decode] at hd; exact hd.1.symm

/-- `Ok(None)` is a fixed point: calling `decode` again without new input changes nothing -/
theorem decode_none_fix (st : St) (src : List Nat) (st' : St) (r : List Nat) (k : Nat)
    (hd : decode st src = (st', r, .none k)) : ∃ k', decode st' r = (st', r, .none k') := by
  have := decode_none_resume st src [] st' r k hd
  simp only [List.append_nil] at this
  exact ⟨k, by rw [← this, hd]⟩

end C25
