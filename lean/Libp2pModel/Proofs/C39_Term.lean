import Libp2pModel.Proofs.C39_Mon
/-!
# C39 — termination measure for `ClosestPeersIter` over a finite peer universe `{0,…,n-1}`
-/
namespace C39

/-- every known peer belongs to the universe -/
def Bounded (n : Nat) (s : Iter) : Prop := ∀ e ∈ s.closest, e.1 < n

/-- peers of the universe that have not been contacted yet (unknown ones included) -/
def mu (n : Nat) (s : Iter) : Nat := (n - s.closest.length) + countNC s.closest

def fin01 (s : Iter) : Nat := if s.state = .finished then 0 else 1

/-- the potential: every effective event strictly decreases it -/
def phi (n : Nat) (s : Iter) : Nat :=
  3 * mu n s + 2 * countW s.closest + countU s.closest + fin01 s

def opBounded (n : Nat) : Op → Prop
  | .success _ closer => ∀ q ∈ closer, q < n
  | _ => True

/-- 1 iff the call issued a request -/
def issuedBy : Op → Out → Nat
  | .next _, .waiting (some _) => 1
  | _, _ => 0

/-- 1 iff the call changed anything the lookup can observe: a request issued, a response or failure
accepted, or the iterator finishing by itself -/
def effective (s : Iter) : Op → Out → Nat
  | .next _, .waiting (some _) => 1
  | .next _, .finished => fin01 s
  | .success _ _, .bool true => 1
  | .failure _, .bool true => 1
  | _, _ => 0

theorem fin01_le (s : Iter) : fin01 s ≤ 1 := by unfold fin01; split <;> omega

theorem measure_next {n : Nat} {s : Iter} (h : Inv s) (hb : Bounded n s) (now : Nat) :
    Bounded n (next s now).1 ∧
    mu n (next s now).1 + issuedBy (.next now) (next s now).2 ≤ mu n s ∧
    phi n (next s now).1 + effective s (.next now) (next s now).2 ≤ phi n s := by
  by_cases hf : s.state = .finished
  · rw [next_finished hf]
    simp [issuedBy, effective, fin01, hf]; exact hb
  · obtain ⟨h1, h2, h3, _⟩ := next_fields hf now
    have hk := nextLoop_keys s.cfg now (atCapacity s) s.closest s.numWaiting (some 0)
    have hlen := nextLoop_length s.cfg now (atCapacity s) s.closest s.numWaiting (some 0)
    have hc := nextLoop_counts s.cfg now (atCapacity s) s.closest s.numWaiting (some 0)
    have hos := next_out_state h hf now
    have hf1 : fin01 s = 1 := by simp [fin01, hf]
    have hb' : Bounded n (next s now).1 := by
      intro e he
      rw [h1] at he
      have : e.1 ∈ keys s.closest := by rw [← hk]; exact List.mem_map.2 ⟨e, he, rfl⟩
      obtain ⟨e', he', hk'⟩ := List.mem_map.1 this
      rw [← hk']; exact hb e' he'
    -- the loop's `issue` flag is the output's
    have hiss : issue (nextLoop s.cfg now (atCapacity s) s.closest s.numWaiting (some 0)).2.2 =
        issuedBy (.next now) (next s now).2 := by
      cases hr : (nextLoop s.cfg now (atCapacity s) s.closest s.numWaiting (some 0)).2.2 with
      | ret o =>
        have : (next s now).2 = o := by simp [next, hf, hr]
        rw [this]
        rcases nextLoop_ret _ _ _ _ _ _ o hr with ⟨ho, _⟩ | ⟨p, ho, _⟩ <;> simp [ho, issue, issuedBy]
      | finish =>
        have : (next s now).2 = .finished := by simp [next, hf, hr]
        simp [this, issue, issuedBy]
      | panic =>
        have : (next s now).2 = .panic := by simp [next, hf, hr]
        simp [this, issue, issuedBy]
      | done =>
        have : (next s now).2 = .waiting none ∨ (next s now).2 = .finished := by
          simp only [next, hf, if_false, hr]; split <;> simp
        rcases this with h' | h' <;> simp [h', issue, issuedBy]
    rw [hiss] at hc
    refine ⟨hb', ?_, ?_⟩
    · unfold mu; rw [h1, hlen]; omega
    · unfold phi mu; rw [h1, hlen]
      rcases hos with ⟨ho, hst⟩ | ⟨ho, hst⟩
      · have hf0 : fin01 (next s now).1 = 0 := by simp [fin01, hst]
        rw [ho] at hc ⊢
        simp only [effective, issuedBy] at hc ⊢
        omega
      · have hf0 : fin01 (next s now).1 = 1 := by simp [fin01, hst, hf]
        have heff : effective s (.next now) (next s now).2 = issuedBy (.next now) (next s now).2 := by
          rcases next_out_kind h now with ⟨p, hp⟩ | hp | hp
          · rw [hp]; cases p <;> rfl
          · rw [hp]; rfl
          · exact absurd hp ho
        rw [heff]
        omega

theorem measure_success {n : Nat} {s : Iter} (h : Inv s) (hb : Bounded n s) (p : Nat) (closer : List Nat)
    (hcl : ∀ q ∈ closer, q < n) :
    Bounded n (onSuccess s p closer).1 ∧
    mu n (onSuccess s p closer).1 ≤ mu n s ∧
    phi n (onSuccess s p closer).1 + effective s (.success p closer) (onSuccess s p closer).2 ≤ phi n s := by
  rcases onSuccess_cases h p closer with heq | ⟨hfin, s0, nw, hf, hne, heq⟩
  · rw [heq]; simp [effective]; exact hb
  · have h' := (h.onSuccess p closer).1
    rw [heq] at h' ⊢
    obtain ⟨ho, _, _, h4⟩ := succeed_fields s p closer nw
    have hs := sorted_setSt h.sorted p .succeeded
    obtain ⟨a1, a2, a3, a4, a5, a6⟩ := addCloser_foldl
      (curRange (setSt s.closest p .succeeded) s.cfg.numResults p) closer
      (setSt s.closest p .succeeded)
      (decide ((setSt s.closest p .succeeded).length < s.cfg.numResults)) hs
    obtain ⟨c1, c2, c3⟩ := counts_setSt .succeeded hf
    have hls := length_setSt s.closest p .succeeded
    have hb' : Bounded n (succeed s p closer nw).1 := by
      intro e he
      have hfe := find_of_mem h'.sorted he
      rw [h4, a6 e.1, find_setSt] at hfe
      by_cases hq : e.1 = p
      · rw [hq]; exact hb _ (find_some_mem hf)
      · simp only [hq, if_false] at hfe
        cases hfq : find s.closest e.1 with
        | some st => exact hb (e.1, st) (find_some_mem hfq)
        | none =>
          rw [hfq] at hfe
          simp at hfe
          exact hcl _ hfe.1
    have hlen' : (succeed s p closer nw).1.closest.length ≤ n := sorted_length_le h'.sorted hb'
    have hfin' : fin01 (succeed s p closer nw).1 = 1 := by
      have : (succeed s p closer nw).1.state ≠ .finished := by
        simp only [succeed]; exact nextState_ne_finished _ hfin _
      simp [fin01, this]
    have hf1 : fin01 s = 1 := by simp [fin01, hfin]
    have hws : isWaiting PState.succeeded = false := rfl
    simp only [hws, Bool.false_eq_true, if_false, Nat.add_zero, reduceCtorEq, hne] at c1 c2 c3
    rw [h4] at hlen'
    refine ⟨hb', ?_, ?_⟩
    · unfold mu; rw [h4]; omega
    · unfold phi mu; rw [h4, ho]
      simp only [effective]
      rw [a2, a3]
      have hcases : isWaiting s0 = true ∨ s0 = .unresponsive := by
        rcases onSuccess_cases h p closer with heq' | _
        · rw [heq] at heq'
          have := congrArg Prod.snd heq'
          rw [ho] at this; simp at this
        · -- from the definition: only Waiting / Unresponsive peers are accepted
          unfold C39.onSuccess at heq
          simp only [hfin, if_false, hf] at heq
          cases s0 with
          | waiting to => exact Or.inl rfl
          | unresponsive => exact Or.inr rfl
          | notContacted => exact absurd rfl hne
          | failed =>
            have := congrArg Prod.snd heq; rw [ho] at this; simp at this
          | succeeded =>
            have := congrArg Prod.snd heq; rw [ho] at this; simp at this
      rcases hcases with hw | hu
      · simp only [hw, if_true] at c1
        omega
      · subst hu
        simp only [if_true] at c3
        omega

theorem measure_failure {n : Nat} {s : Iter} (h : Inv s) (hb : Bounded n s) (p : Nat) :
    Bounded n (onFailure s p).1 ∧
    mu n (onFailure s p).1 ≤ mu n s ∧
    phi n (onFailure s p).1 + effective s (.failure p) (onFailure s p).2 ≤ phi n s := by
  unfold C39.onFailure
  by_cases hfin : s.state = .finished
  · simp [hfin, effective]; exact hb
  · simp only [hfin, if_false]
    have hf1 : fin01 s = 1 := by simp [fin01, hfin]
    have hbs : ∀ nw, Bounded n { s with closest := setSt s.closest p .failed, numWaiting := nw } := by
      intro nw e he
      have : e.1 ∈ keys s.closest := by
        rw [← keys_setSt s.closest p .failed]; exact List.mem_map.2 ⟨e, he, rfl⟩
      obtain ⟨e', he', hk'⟩ := List.mem_map.1 this
      rw [← hk']; exact hb e' he'
    cases hf : find s.closest p with
    | none => simp [effective]; exact hb
    | some st =>
      obtain ⟨c1, c2, c3⟩ := counts_setSt .failed hf
      have hls := length_setSt s.closest p .failed
      have hwf : isWaiting PState.failed = false := rfl
      cases st with
      | waiting to =>
        have hpos := find_waiting_count hf
        have hne : s.numWaiting ≠ 0 := by rw [h.nw_eq]; omega
        simp only [hne, if_false]
        simp [isWaiting] at c1 c2 c3
        refine ⟨hbs _, ?_, ?_⟩
        · simp only [mu]; rw [hls]; omega
        · simp only [phi, mu, effective, fin01, hfin, if_false]; rw [hls]; omega
      | unresponsive =>
        simp [isWaiting] at c1 c2 c3
        refine ⟨hbs _, ?_, ?_⟩
        · simp only [mu]; rw [hls]; omega
        · simp only [phi, mu, effective, fin01, hfin, if_false]; rw [hls]; omega
      | notContacted => simp [effective]; exact hb
      | failed => simp [effective]; exact hb
      | succeeded => simp [effective]; exact hb

theorem measure_step {n : Nat} {s : Iter} (h : Inv s) (hb : Bounded n s) (op : Op) (hop : opBounded n op) :
    Bounded n (step s op).1 ∧
    mu n (step s op).1 + issuedBy op (step s op).2 ≤ mu n s ∧
    phi n (step s op).1 + effective s op (step s op).2 ≤ phi n s := by
  cases op with
  | next now => exact measure_next h hb now
  | success p closer =>
    obtain ⟨a, b, c⟩ := measure_success h hb p closer hop
    exact ⟨a, by simp only [step, issuedBy]; exact b, c⟩
  | failure p =>
    obtain ⟨a, b, c⟩ := measure_failure h hb p
    exact ⟨a, by simp only [step, issuedBy]; exact b, c⟩
  | finish =>
    refine ⟨hb, by simp [step, issuedBy, mu, finish], ?_⟩
    simp only [step, effective, phi, mu, finish, fin01]
    split <;> simp_all

/-- number of requests issued / effective events along a run -/
def issueCount : Iter → List Op → Nat
  | _, [] => 0
  | s, o :: os => issuedBy o (step s o).2 + issueCount (step s o).1 os

def effCount : Iter → List Op → Nat
  | _, [] => 0
  | s, o :: os => effective s o (step s o).2 + effCount (step s o).1 os

theorem measure_run {n : Nat} (ops : List Op) : ∀ (s : Iter), Inv s → Bounded n s →
    (∀ o ∈ ops, opBounded n o) →
    issueCount s ops + mu n (Machine.exec step s ops) ≤ mu n s ∧
    effCount s ops + phi n (Machine.exec step s ops) ≤ phi n s := by
  induction ops with
  | nil => intro s _ _ _; simp [issueCount, effCount, Machine.exec]
  | cons o os ih =>
    intro s h hb hops
    obtain ⟨b', m1, m2⟩ := measure_step h hb o (hops o List.mem_cons_self)
    obtain ⟨i1, i2⟩ := ih (step s o).1 (h.step o).1 b' (fun o' ho' => hops o' (List.mem_cons_of_mem _ ho'))
    simp only [issueCount, effCount, Machine.exec, List.foldl_cons] at i1 i2 ⊢
    omega

/-- progress: with nothing in flight, `next` either issues a request or finishes -/
theorem next_progress {s : Iter} (h : Inv s) (hf : s.state ≠ .finished) (hz : s.numWaiting = 0) (now : Nat) :
    (next s now).2 = .finished ∨ ∃ p, (next s now).2 = .waiting (some p) := by
  have hcap : atCapacity s = false := by
    have := h.cfg_ok.par_pos
    have := h.cfg_ok.nr_pos
    unfold atCapacity
    cases hs : s.state with
    | finished => exact absurd hs hf
    | iterating np => simp [hz]; omega
    | stalled => simp [hz]; omega
  have hn := nextLoop_nw s.cfg now (atCapacity s) s.closest s.numWaiting (some 0) 0 (by simpa using h.nw_eq)
  have hc := nextLoop_counts s.cfg now (atCapacity s) s.closest s.numWaiting (some 0)
  simp only [next, hf, if_false]
  split
  · rename_i o hr
    rcases nextLoop_ret _ _ _ _ _ _ o hr with ⟨_, hc'⟩ | ⟨p, ho, _⟩
    · rw [hcap] at hc'; simp at hc'
    · exact Or.inr ⟨p, ho⟩
  · exact Or.inl rfl
  · rename_i hr; exact absurd hr hn.1
  · rename_i hr
    rw [hr] at hc
    have hw : countW s.closest = 0 := by rw [← h.nw_eq]; exact hz
    simp only [issue] at hc
    have : (nextLoop s.cfg now (atCapacity s) s.closest s.numWaiting (some 0)).2.1 = 0 := by
      rw [hn.2]; omega
    simp [this]

theorem init_measure (cfg : Cfg) (k n : Nat) (known : List Nat) (hk : ∀ q ∈ known, q < n) :
    Bounded n (init cfg k known) ∧ mu n (init cfg k known) ≤ n ∧ phi n (init cfg k known) ≤ 3 * n + 1 := by
  have hfi := find_init cfg k known
  have hs : Sorted (init cfg k known).closest := (init_foldl (known.take k) [] sorted_nil rfl).1
  have hw : countW (init cfg k known).closest = 0 := (init_foldl (known.take k) [] sorted_nil rfl).2
  have hb : Bounded n (init cfg k known) := by
    intro e he
    have := find_of_mem hs he
    rw [hfi] at this
    split at this
    · rename_i hm; exact hk _ (List.mem_of_mem_take hm)
    · simp at this
  have hall : ∀ e ∈ (init cfg k known).closest, e.2 = .notContacted := by
    intro e he
    have := find_of_mem hs he
    rw [hfi] at this
    split at this <;> simp at this
    exact this.symm
  have hnc : countNC (init cfg k known).closest = (init cfg k known).closest.length := by
    unfold countNC
    rw [List.filter_eq_self.2]
    intro e he; simp [hall e he]
  have hu : countU (init cfg k known).closest = 0 := by
    unfold countU
    rw [List.length_eq_zero_iff, List.filter_eq_nil_iff]
    intro e he; simp [hall e he]
  have hlen := sorted_length_le hs hb
  refine ⟨hb, ?_, ?_⟩
  · unfold mu; omega
  · unfold phi mu; rw [hw, hu]; have := fin01_le (init cfg k known); omega

end C39
