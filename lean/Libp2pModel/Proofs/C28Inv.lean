import Libp2pModel.Model.C28Node
/-!
# C28 / C29 — the mesh invariant of the node model, by induction over op sequences

`MeshOK`: every mesh member is a connected gossipsub peer subscribed to the topic and not explicit.
`FanOK`: every fanout peer is a connected gossipsub peer subscribed to the topic (what `join` needs).
-/
namespace C28

/-! ## sets -/

theorem mem_ins {l : List Nat} {x y : Nat} : x ∈ ins l y ↔ x ∈ l ∨ x = y := by
  unfold ins
  split
  · rename_i h
    have hy : y ∈ l := by simpa using h
    constructor
    · intro hx; exact Or.inl hx
    · rintro (hx | rfl)
      · exact hx
      · exact hy
  · simp

theorem mem_insAll {xs : List Nat} : ∀ {l : List Nat} {x : Nat}, x ∈ insAll l xs ↔ x ∈ l ∨ x ∈ xs := by
  induction xs with
  | nil => intro l x; simp [insAll]
  | cons y ys ih =>
    intro l x
    have := @ih (ins l y) x
    simp only [insAll, List.foldl_cons] at this ⊢
    rw [this, mem_ins]
    simp only [List.mem_cons]
    constructor
    · rintro ((h | h) | h)
      · exact Or.inl h
      · exact Or.inr (Or.inl h)
      · exact Or.inr (Or.inr h)
    · rintro (h | h | h)
      · exact Or.inl (Or.inl h)
      · exact Or.inl (Or.inr h)
      · exact Or.inr h

theorem mem_del {l : List Nat} {x y : Nat} : x ∈ del l y ↔ x ∈ l ∧ x ≠ y := by
  simp [del, List.mem_filter]

theorem setF_same {α} (f : Nat → Option α) (k : Nat) (v : Option α) : setF f k v k = v := by simp [setF]
theorem setF_other {α} (f : Nat → Option α) (k k' : Nat) (v : Option α) (h : k' ≠ k) : setF f k v k' = f k' := by
  simp [setF, h]

theorem validChoice_sub {c pool : List Nat} {n : Nat} (h : validChoice c pool n = true) : ∀ p ∈ c, p ∈ pool := by
  simp only [validChoice, Bool.and_eq_true, List.all_eq_true] at h
  intro p hp
  simpa using h.1.1 p hp

theorem mem_poolOf {s : State} {t : Nat} {f : Nat → Peer → Bool} {p : Nat} (h : p ∈ poolOf s t f) :
    ∃ pd, s.peers p = some pd ∧ t ∈ pd.topics ∧ pd.gossip = true ∧ f p pd = true := by
  simp only [poolOf, List.mem_filter] at h
  obtain ⟨_, h⟩ := h
  cases hp : s.peers p with
  | none => simp [hp] at h
  | some pd =>
    simp only [hp, Bool.and_eq_true, List.contains_eq_mem, decide_eq_true_eq] at h
    exact ⟨pd, rfl, h.1.1, h.1.2, h.2⟩

/-! ## the invariant -/

def PeerOK (s : State) (t p : Nat) : Prop := ∃ pd, s.peers p = some pd ∧ pd.gossip = true ∧ t ∈ pd.topics

/-- mesh invariant, except possibly for peer `p` in the topics `U` (pending unsubscriptions) -/
def MeshOKx (s : State) (p : Nat) (U : List Nat) : Prop :=
  ∀ t m, s.mesh t = some m → ∀ q ∈ m, (q = p ∧ t ∈ U) ∨ (PeerOK s t q ∧ q ∉ s.explicit)

def FanOKx (s : State) (p : Nat) (U : List Nat) : Prop :=
  ∀ t f, s.fanout t = some f → ∀ q ∈ f, (q = p ∧ t ∈ U) ∨ PeerOK s t q

/-- **Inv28**: every mesh member is a connected gossipsub peer subscribed to the topic and not an
explicit peer -/
def MeshOK (s : State) : Prop :=
  ∀ t m, s.mesh t = some m → ∀ p ∈ m, PeerOK s t p ∧ p ∉ s.explicit

def FanOK (s : State) : Prop := ∀ t f, s.fanout t = some f → ∀ p ∈ f, PeerOK s t p

structure Inv (s : State) : Prop where
  mesh : MeshOK s
  fan : FanOK s

theorem meshOK_iff_x (s : State) (p : Nat) : MeshOK s ↔ MeshOKx s p [] := by
  constructor
  · intro h t m hm q hq; exact Or.inr (h t m hm q hq)
  · intro h t m hm q hq
    rcases h t m hm q hq with ⟨_, hU⟩ | h'
    · simp at hU
    · exact h'

theorem fanOK_iff_x (s : State) (p : Nat) : FanOK s ↔ FanOKx s p [] := by
  constructor
  · intro h t m hm q hq; exact Or.inr (h t m hm q hq)
  · intro h t m hm q hq
    rcases h t m hm q hq with ⟨_, hU⟩ | h'
    · simp at hU
    · exact h'

/-- `p` is a member of some topic mesh -/
def InMeshP (s : State) (p : Nat) : Prop := ∃ t m, s.mesh t = some m ∧ p ∈ m

theorem inMesh_iff {s : State} {t p : Nat} : inMesh s t p = true ↔ ∃ m, s.mesh t = some m ∧ p ∈ m := by
  unfold inMesh
  cases h : s.mesh t with
  | none => simp
  | some m => simp

/-! ## frame: states that differ only in belief / backoff / ticks -/

/-- same peers, explicit set, meshes and fanout -/
def SameCore (s s' : State) : Prop :=
  s'.peers = s.peers ∧ s'.explicit = s.explicit ∧ s'.mesh = s.mesh ∧ s'.fanout = s.fanout ∧ s'.cfg = s.cfg

theorem SameCore.refl (s : State) : SameCore s s := ⟨rfl, rfl, rfl, rfl, rfl⟩

theorem SameCore.trans {a b c : State} (h1 : SameCore a b) (h2 : SameCore b c) : SameCore a c := by
  obtain ⟨a1, a2, a3, a4, a5⟩ := h1
  obtain ⟨b1, b2, b3, b4, b5⟩ := h2
  exact ⟨b1.trans a1, b2.trans a2, b3.trans a3, b4.trans a4, b5.trans a5⟩

theorem sameCore_notify (s : State) (ns : List Notif) : SameCore s (notify s ns) := by
  simp only [SameCore, notify, and_self]
theorem sameCore_updateBackoff (s : State) (now t p secs : Nat) : SameCore s (updateBackoff s now t p secs) := by
  simp only [SameCore, updateBackoff, and_self]

theorem MeshOKx.core {s s' : State} {p : Nat} {U : List Nat} (h : MeshOKx s p U) (hc : SameCore s s') : MeshOKx s' p U := by
  obtain ⟨c1, c2, c3, _, _⟩ := hc
  intro t m hm q hq
  rw [c3] at hm
  rcases h t m hm q hq with h' | ⟨⟨pd, hpd, hg, ht⟩, hex⟩
  · exact Or.inl h'
  · exact Or.inr ⟨⟨pd, by rw [c1]; exact hpd, hg, ht⟩, by rw [c2]; exact hex⟩

theorem FanOKx.core {s s' : State} {p : Nat} {U : List Nat} (h : FanOKx s p U) (hc : SameCore s s') : FanOKx s' p U := by
  obtain ⟨c1, _, _, c4, _⟩ := hc
  intro t m hm q hq
  rw [c4] at hm
  rcases h t m hm q hq with h' | ⟨pd, hpd, hg, ht⟩
  · exact Or.inl h'
  · exact Or.inr ⟨pd, by rw [c1]; exact hpd, hg, ht⟩

theorem Inv.core {s s' : State} (h : Inv s) (hc : SameCore s s') : Inv s' :=
  ⟨(meshOK_iff_x s' 0).2 (((meshOK_iff_x s 0).1 h.mesh).core hc), (fanOK_iff_x s' 0).2 (((fanOK_iff_x s 0).1 h.fan).core hc)⟩

/-! ## removing a peer from one mesh -/

/-- the core effect of `remove_peer_from_mesh`: only `mesh t` loses `p` -/
theorem removePeerFromMesh_core (s : State) (now p t : Nat) (b : Option Nat) (al : Bool) :
    let s' := (removePeerFromMesh s now p t b al).1
    s'.peers = s.peers ∧ s'.explicit = s.explicit ∧ s'.fanout = s.fanout ∧ s'.cfg = s.cfg
      ∧ s'.mesh = setF s.mesh t ((s.mesh t).map (fun m => del m p)) := by
  simp only [removePeerFromMesh]
  by_cases hr : inMesh s t p = true
  · simp only [hr, ↓reduceIte, Bool.or_true]
    refine ⟨rfl, rfl, rfl, rfl, rfl⟩
  · have hr' : inMesh s t p = false := by simpa using hr
    simp only [hr', Bool.false_eq_true, ↓reduceIte, Bool.or_false]
    have hm : s.mesh = setF s.mesh t ((s.mesh t).map (fun m => del m p)) := by
      funext t'
      by_cases ht : t' = t
      · subst ht
        rw [setF_same]
        cases hmt : s.mesh t' with
        | none => rfl
        | some m =>
          simp only [Option.map_some, Option.some.injEq]
          have : p ∉ m := by
            intro hp
            have := inMesh_iff.2 ⟨m, hmt, hp⟩
            rw [hr'] at this; cases this
          simp only [del]
          rw [List.filter_eq_self.2]
          intro a ha
          simp only [bne_iff_ne, ne_eq]
          rintro rfl; exact this ha
      · rw [setF_other _ _ _ _ ht]
    split <;> exact ⟨rfl, rfl, rfl, rfl, hm⟩

/-- removing `p` from `mesh t` discharges the pending pair `(p, t)` -/
theorem MeshOKx_remove {s s' : State} {p t : Nat} {U : List Nat}
    (h : MeshOKx s p (t :: U))
    (hp : s'.peers = s.peers) (he : s'.explicit = s.explicit)
    (hm : s'.mesh = setF s.mesh t ((s.mesh t).map (fun m => del m p))) : MeshOKx s' p U := by
  intro t' m hm' q hq
  rw [hm] at hm'
  by_cases ht : t' = t
  · subst ht
    rw [setF_same] at hm'
    cases hmt : s.mesh t' with
    | none => simp [hmt] at hm'
    | some m0 =>
      simp only [hmt, Option.map_some, Option.some.injEq] at hm'
      subst hm'
      obtain ⟨hq0, hne⟩ := mem_del.1 hq
      rcases h t' m0 hmt q hq0 with ⟨hqp, _⟩ | ⟨⟨pd, hpd, hg, htt⟩, hex⟩
      · exact absurd hqp hne
      · exact Or.inr ⟨⟨pd, by rw [hp]; exact hpd, hg, htt⟩, by rw [he]; exact hex⟩
  · rw [setF_other _ _ _ _ ht] at hm'
    rcases h t' m hm' q hq with ⟨hqp, hU⟩ | ⟨⟨pd, hpd, hg, htt⟩, hex⟩
    · simp only [List.mem_cons] at hU
      rcases hU with hU | hU
      · exact absurd hU ht
      · exact Or.inl ⟨hqp, hU⟩
    · exact Or.inr ⟨⟨pd, by rw [hp]; exact hpd, hg, htt⟩, by rw [he]; exact hex⟩


/-! ## ops that only touch the peer table -/

theorem Inv_of_peerMono {s s' : State} (h : Inv s) (hm : s'.mesh = s.mesh) (hf : s'.fanout = s.fanout)
    (he : s'.explicit = s.explicit) (hp : ∀ t q, PeerOK s t q → PeerOK s' t q) : Inv s' := by
  constructor
  · intro t m hmt q hq
    rw [hm] at hmt
    obtain ⟨h1, h2⟩ := h.mesh t m hmt q hq
    exact ⟨hp t q h1, by rw [he]; exact h2⟩
  · intro t f hft q hq
    rw [hf] at hft
    exact hp t q (h.fan t f hft q hq)

theorem inv_connect (s : State) (p c : Nat) (ob : Bool) (h : Inv s) : Inv (connect s p c ob) := by
  refine Inv_of_peerMono h ?_ ?_ ?_ ?_ <;> first | rfl | skip
  intro t q ⟨pd, hpd, hg, ht⟩
  by_cases hq : q = p
  · subst hq
    refine ⟨{ pd with conns := pd.conns ++ [c] }, ?_, hg, ht⟩
    simp [connect, hpd, setF_same]
  · exact ⟨pd, by simp [connect, setF_other _ _ _ _ hq, hpd], hg, ht⟩

theorem inv_setKind (s : State) (p : Nat) (g : Bool) (h : Inv s) : Inv (setKind s p g) := by
  unfold setKind
  cases hp : s.peers p with
  | none => exact h
  | some pd =>
    simp only
    split
    · exact h
    · rename_i hgos
      refine Inv_of_peerMono h ?_ ?_ ?_ ?_ <;> first | rfl | skip
      intro t q ⟨pd', hpd', hg, ht⟩
      by_cases hq : q = p
      · subst hq
        rw [hp] at hpd'
        cases hpd'
        exact absurd hg hgos
      · exact ⟨pd', by simp [setF_other _ _ _ _ hq, hpd'], hg, ht⟩

theorem inv_setTopics_grow (s : State) (p : Nat) (f : List Nat → List Nat) (hf : ∀ l t, t ∈ l → t ∈ f l)
    (h : Inv s) : Inv (setTopics s p f) := by
  unfold setTopics
  cases hp : s.peers p with
  | none => exact h
  | some pd =>
    simp only
    refine Inv_of_peerMono h ?_ ?_ ?_ ?_ <;> first | rfl | skip
    intro t q ⟨pd', hpd', hg, ht⟩
    by_cases hq : q = p
    · subst hq
      rw [hp] at hpd'
      cases hpd'
      exact ⟨{ pd with topics := f pd.topics }, by simp [setF_same], hg, hf _ _ ht⟩
    · exact ⟨pd', by simp [setF_other _ _ _ _ hq, hpd'], hg, ht⟩

theorem inv_addExplicit (s : State) (p : Nat) (h : Inv s) (hp : ¬ InMeshP s p) : Inv (addExplicit s p) := by
  constructor
  · intro t m hmt q hq
    obtain ⟨h1, h2⟩ := h.mesh t m hmt q hq
    refine ⟨h1, ?_⟩
    simp only [addExplicit]
    intro hin
    rcases mem_ins.1 hin with h' | h'
    · exact h2 h'
    · subst h'; exact hp ⟨t, m, hmt, hq⟩
  · exact h.fan

theorem inv_disconnect (s : State) (p c : Nat) (h : Inv s) : Inv (disconnect s p c).1 := by
  unfold disconnect
  cases hp : s.peers p with
  | none => exact h
  | some pd =>
    simp only
    split
    · -- other connections remain
      apply Inv.core _ (sameCore_notify _ _)
      refine Inv_of_peerMono h ?_ ?_ ?_ ?_ <;> first | rfl | skip
      intro t q ⟨pd', hpd', hg, ht⟩
      by_cases hq : q = p
      · subst hq
        rw [hp] at hpd'
        cases hpd'
        exact ⟨{ pd with conns := eraseFirst pd.conns c }, by simp [setF_same], hg, ht⟩
      · exact ⟨pd', by simp [setF_other _ _ _ _ hq, hpd'], hg, ht⟩
    · -- last connection
      constructor
      · intro t m hmt q hq
        simp only at hmt
        have key : ∃ m0, s.mesh t = some m0 ∧ q ∈ m0 ∧ q ≠ p := by
          split at hmt
          · cases hm0 : s.mesh t with
            | none => simp [hm0] at hmt
            | some m0 =>
              simp only [hm0, Option.map_some, Option.some.injEq] at hmt
              subst hmt
              obtain ⟨a, b⟩ := mem_del.1 hq
              exact ⟨m0, rfl, a, b⟩
          · rename_i hnt
            refine ⟨m, hmt, hq, ?_⟩
            rintro rfl
            obtain ⟨⟨pd', hpd', _, ht⟩, _⟩ := h.mesh t m hmt q hq
            rw [hp] at hpd'; cases hpd'
            exact hnt (by simpa using ht)
        obtain ⟨m0, hm0, hq0, hne⟩ := key
        obtain ⟨⟨pd', hpd', hg, ht⟩, hex⟩ := h.mesh t m0 hm0 q hq0
        exact ⟨⟨pd', by simp [setF_other _ _ _ _ hne, hpd'], hg, ht⟩, hex⟩
      · intro t f hft q hq
        simp only at hft
        have key : ∃ f0, s.fanout t = some f0 ∧ q ∈ f0 ∧ q ≠ p := by
          split at hft
          · cases hf0 : s.fanout t with
            | none => simp [hf0] at hft
            | some f0 =>
              simp only [hf0, Option.map_some, Option.some.injEq] at hft
              subst hft
              obtain ⟨a, b⟩ := mem_del.1 hq
              exact ⟨f0, rfl, a, b⟩
          · rename_i hnt
            refine ⟨f, hft, hq, ?_⟩
            rintro rfl
            obtain ⟨pd', hpd', _, ht⟩ := h.fan t f hft q hq
            rw [hp] at hpd'; cases hpd'
            exact hnt (by simpa using ht)
        obtain ⟨f0, hf0, hq0, hne⟩ := key
        obtain ⟨pd', hpd', hg, ht⟩ := h.fan t f0 hf0 q hq0
        exact ⟨pd', by simp [setF_other _ _ _ _ hne, hpd'], hg, ht⟩

/-! ## PRUNE received, unsubscribe, publish -/

theorem inv_removePeerFromMesh (s : State) (now p t : Nat) (b : Option Nat) (al : Bool) (h : Inv s) :
    Inv (removePeerFromMesh s now p t b al).1 := by
  obtain ⟨c1, c2, c3, _, c5⟩ := removePeerFromMesh_core s now p t b al
  constructor
  · apply (meshOK_iff_x _ p).2
    apply MeshOKx_remove (s := s) (t := t) _ c1 c2 c5
    intro t' m hm q hq
    exact Or.inr (h.mesh t' m hm q hq)
  · intro t' f hf q hq
    rw [c3] at hf
    obtain ⟨pd, hpd, hg, ht⟩ := h.fan t' f hf q hq
    exact ⟨pd, by rw [c1]; exact hpd, hg, ht⟩

theorem inv_pruneLoop (now p : Nat) : ∀ (l : List (Nat × Option Nat)) (s : State) (ns : List Notif),
    Inv s → Inv (pruneLoop now p l s ns).1 := by
  intro l
  induction l with
  | nil => intro s ns h; exact h
  | cons e es ih =>
    intro s ns h
    obtain ⟨t, b⟩ := e
    simp only [pruneLoop]
    exact ih _ _ (inv_removePeerFromMesh s now p t b true h)

theorem inv_recvPrune (s : State) (now p : Nat) (l : List (Nat × Option Nat)) (h : Inv s) :
    Inv (recvPrune s now p l).1 := by
  simp only [recvPrune]
  exact inv_pruneLoop now p l s [] h

theorem sameCore_leaveLoop (now t secs : Nat) : ∀ (l : List Nat) (s : State) (ns : List Notif),
    SameCore s (leaveLoop now t secs l s ns).1 := by
  intro l
  induction l with
  | nil => intro s ns; exact SameCore.refl s
  | cons p ps ih =>
    intro s ns
    simp only [leaveLoop]
    exact ((sameCore_updateBackoff s now t p secs).trans (sameCore_notify _ _)).trans (ih _ _)

theorem inv_unsubscribe (s : State) (now t : Nat) (h : Inv s) : Inv (unsubscribe s now t).1 := by
  unfold unsubscribe
  cases hm : s.mesh t with
  | none => exact h
  | some m =>
    simp only
    apply Inv.core _ (sameCore_leaveLoop now t s.cfg.unsubBackoff m _ [])
    constructor
    · intro t' m' hm' q hq
      simp only at hm'
      by_cases ht : t' = t
      · subst ht; simp [setF_same] at hm'
      · rw [setF_other _ _ _ _ ht] at hm'
        exact h.mesh t' m' hm' q hq
    · exact h.fan

theorem fanEligible_ok {s : State} {t p : Nat} (h : fanEligible s t p = true) : PeerOK s t p := by
  unfold fanEligible at h
  cases hp : s.peers p with
  | none => simp [hp] at h
  | some pd =>
    simp only [hp, Bool.and_eq_true, List.contains_eq_mem, decide_eq_true_eq] at h
    exact ⟨pd, hp, h.2, h.1⟩

theorem validFan_ok {s : State} {t : Nat} {old : Option (List Nat)} {n : List Nat} {mc : Bool}
    (h : validFan s t old (some n) mc = true) (hold : ∀ f, old = some f → ∀ p ∈ f, PeerOK s t p) :
    ∀ p ∈ n, PeerOK s t p := by
  simp only [validFan, Bool.and_eq_true, List.all_eq_true, Bool.or_eq_true, List.contains_eq_mem,
    decide_eq_true_eq] at h
  intro p hp
  rcases h.2 p hp with h' | h'
  · cases old with
    | none => simp at h'
    | some f => exact hold f rfl p (by simpa using h')
  · exact fanEligible_ok h'

theorem inv_publish (s : State) (t : Nat) (new : Option (List Nat)) (h : Inv s) : Inv (publish s t new).1 := by
  unfold publish
  split
  · exact h
  · split
    · rename_i hv
      constructor
      · exact h.mesh
      · intro t' f hf q hq
        simp only at hf
        by_cases ht : t' = t
        · subst ht
          rw [setF_same] at hf
          subst hf
          exact validFan_ok hv (fun f0 hf0 => h.fan t' f0 hf0) q hq
        · rw [setF_other _ _ _ _ ht] at hf
          exact h.fan t' f hf q hq
    · exact h


/-! ## generic steps on the relaxed invariant -/

theorem MeshOKx_peerChange {s s' : State} {p : Nat} {U U' : List Nat} (h : MeshOKx s p U)
    (hm : s'.mesh = s.mesh) (he : s'.explicit = s.explicit)
    (hp : ∀ t q, PeerOK s t q → (q = p ∧ t ∈ U') ∨ PeerOK s' t q) (hU : ∀ t ∈ U, t ∈ U') : MeshOKx s' p U' := by
  intro t m hmt q hq
  rw [hm] at hmt
  rcases h t m hmt q hq with ⟨h1, h2⟩ | ⟨h1, h2⟩
  · exact Or.inl ⟨h1, hU t h2⟩
  · rcases hp t q h1 with h' | h'
    · exact Or.inl h'
    · exact Or.inr ⟨h', by rw [he]; exact h2⟩

theorem FanOKx_peerChange {s s' : State} {p : Nat} {U U' : List Nat} (h : FanOKx s p U)
    (hf : s'.fanout = s.fanout)
    (hp : ∀ t q, PeerOK s t q → (q = p ∧ t ∈ U') ∨ PeerOK s' t q) (hU : ∀ t ∈ U, t ∈ U') : FanOKx s' p U' := by
  intro t m hmt q hq
  rw [hf] at hmt
  rcases h t m hmt q hq with ⟨h1, h2⟩ | h1
  · exact Or.inl ⟨h1, hU t h2⟩
  · exact hp t q h1

/-- adding an eligible peer to one mesh -/
theorem MeshOKx_add {s : State} {p q t : Nat} {U : List Nat} {m : List Nat} (h : MeshOKx s p U)
    (hq : PeerOK s t q) (he : q ∉ s.explicit) (hm : s.mesh t = some m) :
    MeshOKx { s with mesh := setF s.mesh t (some (m ++ [q])) } p U := by
  intro t' m' hmt r hr
  simp only at hmt
  by_cases ht : t' = t
  · subst ht
    rw [setF_same] at hmt
    cases hmt
    rcases List.mem_append.1 hr with hr | hr
    · exact h t' m hm r hr
    · simp only [List.mem_singleton] at hr
      subst hr
      exact Or.inr ⟨hq, he⟩
  · rw [setF_other _ _ _ _ ht] at hmt
    exact h t' m' hmt r hr

theorem peerOK_setTopics {s : State} {p : Nat} {f : List Nat → List Nat} {t q : Nat} (h : PeerOK s t q)
    (hf : q = p → ∀ l, t ∈ l → t ∈ f l) : PeerOK (setTopics s p f) t q := by
  obtain ⟨pd, hpd, hg, ht⟩ := h
  unfold setTopics
  cases hp : s.peers p with
  | none => exact ⟨pd, hpd, hg, ht⟩
  | some pd0 =>
    simp only
    by_cases hq : q = p
    · subst hq
      rw [hp] at hpd
      cases hpd
      exact ⟨{ pd with topics := f pd.topics }, by simp [setF_same], hg, hf rfl _ ht⟩
    · exact ⟨pd, by simp [setF_other _ _ _ _ hq, hpd], hg, ht⟩

theorem setTopics_mesh (s : State) (p : Nat) (f : List Nat → List Nat) :
    (setTopics s p f).mesh = s.mesh ∧ (setTopics s p f).explicit = s.explicit ∧ (setTopics s p f).fanout = s.fanout := by
  unfold setTopics
  cases s.peers p <;> exact ⟨rfl, rfl, rfl⟩

/-! ## GRAFT received -/

theorem graftTopic_spec (s : State) (now : Nat) (bz : Bool) (p t : Nat) (U : List Nat)
    (h : MeshOKx s p U) (hp : PeerOK s t p) (he : p ∉ s.explicit) :
    let s' := (graftTopic s now bz p t).1
    MeshOKx s' p U ∧ s'.peers = s.peers ∧ s'.explicit = s.explicit ∧ s'.fanout = s.fanout := by
  unfold graftTopic
  cases hm : s.mesh t with
  | none => exact ⟨h, rfl, rfl, rfl⟩
  | some m =>
    simp only
    split
    · exact ⟨h, rfl, rfl, rfl⟩
    · split
      · exact ⟨h, rfl, rfl, rfl⟩
      · split
        · exact ⟨h, rfl, rfl, rfl⟩
        · split
          · exact ⟨h, rfl, rfl, rfl⟩
          · refine ⟨?_, rfl, rfl, rfl⟩
            exact (MeshOKx_add h hp he hm).core (sameCore_notify _ _)

theorem graftLoop_spec (now : Nat) (bz : Bool) (p : Nat) (U : List Nat) :
    ∀ (l : List Nat) (s : State) (pr : List Nat) (ns : List Notif),
      MeshOKx s p U → (∀ t ∈ l, PeerOK s t p) → p ∉ s.explicit →
      let s' := (graftLoop now bz p l s pr ns).1
      MeshOKx s' p U ∧ s'.peers = s.peers ∧ s'.explicit = s.explicit ∧ s'.fanout = s.fanout := by
  intro l
  induction l with
  | nil => intro s pr ns h _ _; exact ⟨h, rfl, rfl, rfl⟩
  | cons t ts ih =>
    intro s pr ns h hp he
    simp only [graftLoop]
    obtain ⟨h1, h2, h3, h4⟩ := graftTopic_spec s now bz p t U h (hp t (by simp)) he
    have hp' : ∀ t' ∈ ts, PeerOK (graftTopic s now bz p t).1 t' p := by
      intro t' ht'
      obtain ⟨pd, hpd, hg, htt⟩ := hp t' (by simp [ht'])
      exact ⟨pd, by rw [h2]; exact hpd, hg, htt⟩
    obtain ⟨i1, i2, i3, i4⟩ := ih _ (insAll pr (graftTopic s now bz p t).2.1) (ns ++ (graftTopic s now bz p t).2.2) h1 hp'
      (by rw [h3]; exact he)
    exact ⟨i1, i2.trans h2, i3.trans h3, i4.trans h4⟩

theorem sameCore_pruneAll (now p secs : Nat) : ∀ (l : List Nat) (s : State), SameCore s (pruneAll now p secs l s) := by
  intro l
  induction l with
  | nil => intro s; exact SameCore.refl s
  | cons t ts ih =>
    intro s
    simp only [pruneAll]
    exact (sameCore_updateBackoff s now t p secs).trans (ih _)

theorem inv_recvGraft (s : State) (now : Nat) (sc : Nat → Int) (p : Nat) (ts : List Nat) (h : Inv s) :
    Inv (recvGraftG fixed s now sc p ts).1 := by
  unfold recvGraftG
  cases hp : s.peers p with
  | none => exact h
  | some pd =>
    simp only [fixed, Bool.true_and]
    split
    · exact h
    · rename_i hg
      have hg' : pd.gossip = true := by simpa using hg
      have h1 : Inv (setTopics s p (fun cur => insAll cur ts)) :=
        inv_setTopics_grow s p _ (fun l t ht => mem_insAll.2 (Or.inl ht)) h
      split
      · exact h1
      · rename_i hex
        have hex' : p ∉ (setTopics s p (fun cur => insAll cur ts)).explicit := by simpa using hex
        have hpk : ∀ t ∈ ts, PeerOK (setTopics s p (fun cur => insAll cur ts)) t p := by
          intro t ht
          refine ⟨{ pd with topics := insAll pd.topics ts }, ?_, hg', mem_insAll.2 (Or.inr ht)⟩
          simp [setTopics, hp, setF_same]
        obtain ⟨g1, g2, g3, g4⟩ := graftLoop_spec now (decide (sc p < 0)) p [] ts _ [] []
          ((meshOK_iff_x _ p).1 h1.mesh) hpk hex'
        apply Inv.core _ (sameCore_pruneAll now p s.cfg.pruneBackoff _ _)
        constructor
        · exact (meshOK_iff_x _ p).2 g1
        · intro t f hf q hq
          rw [g4] at hf
          obtain ⟨pd', hpd', hgq, htq⟩ := h1.fan t f hf q hq
          exact ⟨pd', by rw [g2]; exact hpd', hgq, htq⟩

/-! ## subscriptions received -/

theorem subscribeArm_spec (s : State) (sc : Nat → Int) (p t : Nat) (U : List Nat)
    (hm : MeshOKx s p U) (hf : FanOKx s p U) :
    MeshOKx (subscribeArm s sc p t).1 p U ∧ FanOKx (subscribeArm s sc p t).1 p U := by
  have hs := setTopics_mesh s p (fun ts => ins ts t)
  have hm1 : MeshOKx (setTopics s p (fun ts => ins ts t)) p U :=
    MeshOKx_peerChange hm hs.1 hs.2.1
      (fun t' q hq => Or.inr (peerOK_setTopics hq (fun _ l hl => mem_ins.2 (Or.inl hl)))) (fun _ h => h)
  have hf1 : FanOKx (setTopics s p (fun ts => ins ts t)) p U :=
    FanOKx_peerChange hf hs.2.2
      (fun t' q hq => Or.inr (peerOK_setTopics hq (fun _ l hl => mem_ins.2 (Or.inl hl)))) (fun _ h => h)
  unfold subscribeArm
  simp only
  cases hp : (setTopics s p (fun ts => ins ts t)).peers p with
  | none => exact ⟨hm1, hf1⟩
  | some pd =>
    simp only
    split
    · rename_i hc
      simp only [Bool.and_eq_true, Bool.not_eq_eq_eq_not, Bool.not_true, List.contains_eq_mem,
        decide_eq_false_iff_not] at hc
      cases hmt : (setTopics s p (fun ts => ins ts t)).mesh t with
      | none => exact ⟨hm1, hf1⟩
      | some m =>
        simp only
        split
        · refine ⟨MeshOKx_add hm1 ⟨pd, hp, hc.1.1.2, ?_⟩ hc.1.1.1 hmt, hf1⟩
          -- `t` was just inserted into the peer's topics
          have : ∃ pd0, s.peers p = some pd0 := by
            cases h0 : s.peers p with
            | none => simp [setTopics, h0] at hp
            | some pd0 => exact ⟨pd0, rfl⟩
          obtain ⟨pd0, h0⟩ := this
          simp only [setTopics, h0, setF_same, Option.some.injEq] at hp
          subst hp
          exact mem_ins.2 (Or.inr rfl)
        · exact ⟨hm1, hf1⟩
    · exact ⟨hm1, hf1⟩

theorem subsLoop_spec (sc : Nat → Int) (p : Nat) :
    ∀ (l : List (Bool × Nat)) (s : State) (g u : List Nat), MeshOKx s p u → FanOKx s p u →
      MeshOKx (subsLoop sc p l s g u).1 p (subsLoop sc p l s g u).2.2
      ∧ FanOKx (subsLoop sc p l s g u).1 p (subsLoop sc p l s g u).2.2 := by
  intro l
  induction l with
  | nil => intro s g u hm hf; exact ⟨hm, hf⟩
  | cons e es ih =>
    intro s g u hm hf
    obtain ⟨a, t⟩ := e
    cases a with
    | true =>
      simp only [subsLoop]
      obtain ⟨h1, h2⟩ := subscribeArm_spec s sc p t u hm hf
      exact ih _ _ _ h1 h2
    | false =>
      simp only [subsLoop]
      have hs := setTopics_mesh s p (fun ts => del ts t)
      have key : ∀ t' q, PeerOK s t' q → (q = p ∧ t' ∈ u ++ [t]) ∨ PeerOK (setTopics s p (fun ts => del ts t)) t' q := by
        intro t' q hq
        by_cases hqt : q = p ∧ t' = t
        · exact Or.inl ⟨hqt.1, by simp [hqt.2]⟩
        · right
          apply peerOK_setTopics hq
          intro hqp l hl
          exact mem_del.2 ⟨hl, fun h => hqt ⟨hqp, h⟩⟩
      exact ih _ _ _ (MeshOKx_peerChange hm hs.1 hs.2.1 key (fun _ h => by simp [h]))
        (FanOKx_peerChange hf hs.2.2 key (fun _ h => by simp [h]))

theorem unsubLoop_spec (now p : Nat) :
    ∀ (l : List Nat) (s : State) (ns : List Notif), MeshOKx s p l → FanOKx s p l →
      MeshOKx (unsubLoop now p l s ns).1 p [] ∧ FanOKx (unsubLoop now p l s ns).1 p [] := by
  intro l
  induction l with
  | nil => intro s ns hm hf; exact ⟨hm, hf⟩
  | cons t ts ih =>
    intro s ns hm hf
    simp only [unsubLoop]
    -- fanout first
    let s1 : State := { s with fanout := setF s.fanout t ((s.fanout t).map (fun m => del m p)) }
    have hm1 : MeshOKx s1 p (t :: ts) := hm
    obtain ⟨c1, c2, c3, _, c5⟩ := removePeerFromMesh_core s1 now p t none false
    have hm2 := MeshOKx_remove hm1 c1 c2 c5
    have hf2 : FanOKx (removePeerFromMesh s1 now p t none false).1 p ts := by
      intro t' f hft q hq
      rw [c3] at hft
      simp only [s1] at hft
      by_cases ht : t' = t
      · subst ht
        rw [setF_same] at hft
        cases hf0 : s.fanout t' with
        | none => simp [hf0] at hft
        | some f0 =>
          simp only [hf0, Option.map_some, Option.some.injEq] at hft
          subst hft
          obtain ⟨hq0, hne⟩ := mem_del.1 hq
          rcases hf t' f0 hf0 q hq0 with ⟨hqp, _⟩ | ⟨pd, hpd, hg, htt⟩
          · exact absurd hqp hne
          · exact Or.inr ⟨pd, by rw [c1]; exact hpd, hg, htt⟩
      · rw [setF_other _ _ _ _ ht] at hft
        rcases hf t' f hft q hq with ⟨hqp, hU⟩ | ⟨pd, hpd, hg, htt⟩
        · simp only [List.mem_cons] at hU
          rcases hU with hU | hU
          · exact absurd hU ht
          · exact Or.inl ⟨hqp, hU⟩
        · exact Or.inr ⟨pd, by rw [c1]; exact hpd, hg, htt⟩
    exact ih _ _ hm2 hf2

theorem inv_recvSubs (s : State) (now : Nat) (sc : Nat → Int) (p : Nat) (subs : List (Bool × Nat)) (h : Inv s) :
    Inv (recvSubs s now sc p subs).1 := by
  unfold recvSubs
  cases hp : s.peers p with
  | none => exact h
  | some pd =>
    simp only
    obtain ⟨h1, h2⟩ := subsLoop_spec sc p (filterSubs [] subs) s [] [] ((meshOK_iff_x s p).1 h.mesh) ((fanOK_iff_x s p).1 h.fan)
    obtain ⟨h3, h4⟩ := unsubLoop_spec now p _ _ [] h1 h2
    apply Inv.core _ (sameCore_notify _ _)
    exact ⟨(meshOK_iff_x _ p).2 h3, (fanOK_iff_x _ p).2 h4⟩


/-! ## subscribe (`join`) -/

theorem inv_join_state (s : State) (t : Nat) (added : List Nat) (h : Inv s)
    (hadd : ∀ q ∈ added, PeerOK s t q ∧ q ∉ s.explicit) :
    Inv { s with fanout := setF s.fanout t none, mesh := setF s.mesh t (some added) } := by
  constructor
  · intro t' m hm q hq
    simp only at hm
    by_cases ht : t' = t
    · subst ht
      rw [setF_same] at hm
      cases hm
      exact hadd q hq
    · rw [setF_other _ _ _ _ ht] at hm
      exact h.mesh t' m hm q hq
  · intro t' f hf q hq
    simp only at hf
    by_cases ht : t' = t
    · subst ht
      simp [setF_same] at hf
    · rw [setF_other _ _ _ _ ht] at hf
      exact h.fan t' f hf q hq

theorem fromFan_ok (f : List Nat) (okf : Nat → Bool) (n : Nat) :
    ∀ q ∈ ((sortNat f).filter okf).take n, q ∈ f ∧ okf q = true := by
  intro q hq
  have := List.mem_filter.1 (List.mem_of_mem_take hq)
  exact ⟨List.mem_mergeSort.1 this.1, this.2⟩

theorem joinOk_notExplicit {s : State} {sc : Nat → Int} {t q : Nat} (h : joinOk s sc t q = true) : q ∉ s.explicit := by
  simp only [joinOk, Bool.and_eq_true, Bool.not_eq_eq_eq_not, Bool.not_true, List.contains_eq_mem,
    decide_eq_false_iff_not] at h
  exact h.1.1

theorem joinFromFan_ok (s : State) (sc : Nat → Int) (t : Nat) (h : Inv s) :
    ∀ q ∈ joinFromFan s sc t, PeerOK s t q ∧ q ∉ s.explicit := by
  intro q hq
  unfold joinFromFan at hq
  cases hf : s.fanout t with
  | none => simp [hf] at hq
  | some f =>
    simp only [hf] at hq
    obtain ⟨h1, h2⟩ := fromFan_ok f _ _ q hq
    exact ⟨h.fan t f hf q h1, joinOk_notExplicit h2⟩

theorem inv_subscribe (s : State) (sc : Nat → Int) (t : Nat) (final : List Nat) (h : Inv s) :
    Inv (subscribe s sc t final).1 := by
  unfold subscribe
  cases hm : s.mesh t with
  | some m => exact h
  | none =>
    simp only
    have hfan := joinFromFan_ok s sc t h
    split
    · split
      · rename_i hv
        apply Inv.core _ (sameCore_notify _ _)
        apply inv_join_state s t _ h
        intro q hq
        rcases List.mem_append.1 hq with hq | hq
        · exact hfan q hq
        · have hq' := validChoice_sub hv q hq
          obtain ⟨pd, hpd, ht, hg, hok⟩ := mem_poolOf hq'
          simp only [Bool.and_eq_true] at hok
          exact ⟨⟨pd, hpd, hg, ht⟩, joinOk_notExplicit hok.2⟩
      · exact h
    · apply Inv.core _ (sameCore_notify _ _)
      exact inv_join_state s t _ h hfan


/-! ## heartbeat -/

theorem stepOk_sub {c : Bool} {ch pool : List Nat} {n : Nat} (h : stepOk c ch pool n = true) : ∀ q ∈ ch, q ∈ pool := by
  unfold stepOk at h
  cases c with
  | true => simp only [↓reduceIte] at h; exact validChoice_sub h
  | false =>
    simp only [Bool.false_eq_true, ↓reduceIte, List.isEmpty_iff] at h
    subst h
    intro q hq; simp at hq

/-- the eligibility shared by all heartbeat pools -/
theorem hbOk_ok {s : State} {t q : Nat} {cur : List Nat} {f : Nat → Peer → Bool}
    (hf : ∀ p pd, f p pd = true → hbOk s t cur p = true) (h : q ∈ poolOf s t f) :
    (PeerOK s t q ∧ q ∉ s.explicit) ∧ backedOffSlack s t q = false ∧ q ∉ cur := by
  obtain ⟨pd, hpd, ht, hg, hfq⟩ := mem_poolOf h
  have := hf q pd hfq
  simp only [hbOk, Bool.and_eq_true, Bool.not_eq_eq_eq_not, Bool.not_true, List.contains_eq_mem,
    decide_eq_false_iff_not] at this
  exact ⟨⟨⟨pd, hpd, hg, ht⟩, this.1.2⟩, this.2, this.1.1⟩

theorem pool1_ok {s : State} {sc : Nat → Int} {t q : Nat} {cur : List Nat} (h : q ∈ pool1 s sc t cur) :
    (PeerOK s t q ∧ q ∉ s.explicit) ∧ backedOffSlack s t q = false ∧ q ∉ cur ∧ 0 ≤ sc q := by
  have h1 := hbOk_ok (cur := cur) (fun p pd hp => by simp only [Bool.and_eq_true] at hp; exact hp.1) h
  obtain ⟨pd, _, _, _, hfq⟩ := mem_poolOf h
  simp only [Bool.and_eq_true, decide_eq_true_eq] at hfq
  exact ⟨h1.1, h1.2.1, h1.2.2, hfq.2⟩

theorem pool2_ok {s : State} {sc : Nat → Int} {t q : Nat} {cur : List Nat} (h : q ∈ pool2 s sc t cur) :
    (PeerOK s t q ∧ q ∉ s.explicit) ∧ backedOffSlack s t q = false ∧ q ∉ cur ∧ 0 ≤ sc q := by
  have h1 := hbOk_ok (cur := cur) (fun p pd hp => by simp only [Bool.and_eq_true] at hp; exact hp.1.1) h
  obtain ⟨pd, _, _, _, hfq⟩ := mem_poolOf h
  simp only [Bool.and_eq_true, decide_eq_true_eq] at hfq
  exact ⟨h1.1, h1.2.1, h1.2.2, hfq.1.2⟩

theorem pool3_ok {s : State} {sc : Nat → Int} {t q : Nat} {cur : List Nat} (h : q ∈ pool3 s sc t cur) :
    (PeerOK s t q ∧ q ∉ s.explicit) ∧ backedOffSlack s t q = false ∧ q ∉ cur ∧ median2 sc cur < 2 * sc q := by
  have h1 := hbOk_ok (cur := cur) (fun p pd hp => by simp only [Bool.and_eq_true] at hp; exact hp.1) h
  obtain ⟨pd, _, _, _, hfq⟩ := mem_poolOf h
  simp only [Bool.and_eq_true, decide_eq_true_eq] at hfq
  exact ⟨h1.1, h1.2.1, h1.2.2, hfq.2⟩

/-- what `hbTry` accepted: the four step verdicts, with the intermediate meshes -/
theorem hbTry_some {s : State} {sc : Nat → Int} {t : Nat} {m removed : List Nat} {a : List Nat × List Nat × List Nat}
    {r : HbTopic} (h : hbTry s sc t m removed a = some r) :
    let m0 := m.filter (fun p => !(decide (sc p < 0)))
    let m1 := m0 ++ a.1
    let m2 := m1.filter (fun p => !removed.contains p)
    let m3 := m2 ++ a.2.1
    stepOk (decide (m0.length < s.cfg.meshLow)) a.1 (pool1 s sc t m0) (s.cfg.meshN - m0.length) = true
    ∧ stepOk (decide (m2.length ≥ s.cfg.meshLow) && decide (outboundCount s m2 < s.cfg.outMin)) a.2.1
        (pool2 s sc t m2) (s.cfg.outMin - outboundCount s m2) = true
    ∧ stepOk (oppCond s sc m3) a.2.2 (pool3 s sc t m3) s.cfg.oppPeers = true
    ∧ r.mesh = m3 ++ a.2.2 ∧ r.graft = a.1 ++ a.2.1 ++ a.2.2
    ∧ r.prune = m.filter (fun p => decide (sc p < 0)) ++ removed := by
  unfold hbTry at h
  simp only at h
  intro m0 m1 m2 m3
  split at h
  · rename_i hok
    simp only [Bool.and_eq_true] at hok
    simp only [Option.some.injEq] at h
    subst h
    exact ⟨hok.1.1.1, hok.1.2, hok.2, rfl, rfl, rfl⟩
  · cases h

/-- every member of the maintained mesh was a member before or is an eligible peer -/
theorem hbTry_mem {s : State} {sc : Nat → Int} {t : Nat} {m removed : List Nat} {a : List Nat × List Nat × List Nat}
    {r : HbTopic} (h : hbTry s sc t m removed a = some r) :
    ∀ q ∈ r.mesh, q ∈ m ∨ (PeerOK s t q ∧ q ∉ s.explicit) := by
  obtain ⟨h1, h2, h3, hm, _, _⟩ := hbTry_some h
  intro q hq
  rw [hm] at hq
  rcases List.mem_append.1 hq with hq | hq
  · rcases List.mem_append.1 hq with hq | hq
    · have hq1 := (List.mem_filter.1 hq).1
      rcases List.mem_append.1 hq1 with hq0 | hq0
      · exact Or.inl (List.mem_filter.1 hq0).1
      · exact Or.inr (pool1_ok (stepOk_sub h1 q hq0)).1
    · exact Or.inr (pool2_ok (stepOk_sub h2 q hq)).1
  · exact Or.inr (pool3_ok (stepOk_sub h3 q hq)).1

theorem hbTopic_mem {s : State} {sc : Nat → Int} {t : Nat} {m final : List Nat} {r : HbTopic}
    (h : hbTopic s sc t m final = some r) : ∀ q ∈ r.mesh, q ∈ m ∨ (PeerOK s t q ∧ q ∉ s.explicit) := by
  unfold hbTopic at h
  obtain ⟨a, _, ha⟩ := List.exists_of_findSome?_eq_some h
  exact hbTry_mem ha

theorem hbMeshLoop_ok (s : State) (sc : Nat → Int) (final : Nat → List Nat) (hs : MeshOK s) :
    ∀ (ts : List Nat) (mesh : Nat → Option (List Nat)) (g pr : List (Nat × Nat))
      (res : (Nat → Option (List Nat)) × List (Nat × Nat) × List (Nat × Nat)),
      (∀ t m, mesh t = some m → ∀ q ∈ m, PeerOK s t q ∧ q ∉ s.explicit) →
      hbMeshLoop s sc final ts mesh g pr = some res →
      ∀ t m, res.1 t = some m → ∀ q ∈ m, PeerOK s t q ∧ q ∉ s.explicit := by
  intro ts
  induction ts with
  | nil =>
    intro mesh g pr res hmesh h
    simp only [hbMeshLoop, Option.some.injEq] at h
    subst h
    exact hmesh
  | cons t ts ih =>
    intro mesh g pr res hmesh h
    simp only [hbMeshLoop] at h
    cases hm : s.mesh t with
    | none =>
      simp only [hm] at h
      exact ih mesh g pr res hmesh h
    | some m =>
      simp only [hm] at h
      cases hr : hbTopic s sc t m (final t) with
      | none => simp [hr] at h
      | some r =>
        simp only [hr] at h
        apply ih _ _ _ res _ h
        intro t' m' hm' q hq
        by_cases ht : t' = t
        · subst ht
          rw [setF_same] at hm'
          cases hm'
          rcases hbTopic_mem hr q hq with h' | h'
          · exact hs t' m hm q h'
          · exact h'
        · rw [setF_other _ _ _ _ ht] at hm'
          exact hmesh t' m' hm' q hq

theorem sameCore_sendGrafts (fx : Fixes) (tg : List (Nat × Nat)) : ∀ (l : List Nat) (s : State) (ns : List Notif),
    SameCore s (sendGrafts fx tg l s ns).1 := by
  intro l
  induction l with
  | nil => intro s ns; exact SameCore.refl s
  | cons p ps ih =>
    intro s ns
    simp only [sendGrafts]
    split
    · exact ih _ _
    · exact (sameCore_notify _ _).trans (ih _ _)

theorem sameCore_sendPrunes (tg : List (Nat × Nat)) : ∀ (l : List (Nat × Nat)) (s : State) (ns : List Notif),
    SameCore s (sendPrunes tg l s ns).1 := by
  intro l
  induction l with
  | nil => intro s ns; exact SameCore.refl s
  | cons e es ih =>
    intro s ns
    obtain ⟨p, t⟩ := e
    simp only [sendPrunes]
    split
    · exact (sameCore_notify _ _).trans (ih _ _)
    · exact ih _ _

theorem sameCore_pruneBackoffs (now secs : Nat) : ∀ (l : List (Nat × Nat)) (s : State),
    SameCore s (pruneBackoffs now secs l s) := by
  intro l
  induction l with
  | nil => intro s; exact SameCore.refl s
  | cons e es ih =>
    intro s
    obtain ⟨p, t⟩ := e
    simp only [pruneBackoffs]
    exact (sameCore_updateBackoff s now t p secs).trans (ih _)

theorem hbFanout_ok (s : State) (new : Nat → Option (List Nat)) (fan : Nat → Option (List Nat))
    (hs : FanOK s) (h : hbFanout s new = some fan) : ∀ t f, fan t = some f → ∀ q ∈ f, PeerOK s t q := by
  unfold hbFanout at h
  split at h
  · rename_i hall
    simp only [Option.some.injEq] at h
    subst h
    intro t f hf q hq
    simp only at hf
    split at hf
    · rename_i ht
      have hv := List.all_eq_true.1 hall t (by simpa using ht)
      rw [hf] at hv
      exact validFan_ok hv (fun f0 hf0 => hs t f0 hf0) q hq
    · exact hs t f hf q hq
  · cases h

theorem inv_heartbeat (fx : Fixes) (s : State) (now : Nat) (sc : Nat → Int) (final : Nat → List Nat)
    (fan : Nat → Option (List Nat)) (h : Inv s) : Inv (heartbeatG fx s now sc final fan).1 := by
  unfold heartbeatG
  simp only
  -- the state the loops read: only ticks / backoff differ from `s`
  have hs0 : Inv { s with ticks := s.ticks + 1, backoff := (C32.heartbeat s.backoff now).getD s.backoff } :=
    h.core ⟨rfl, rfl, rfl, rfl, rfl⟩
  split
  · rename_i mesh toGraft toPrune fanout hloop hfan
    apply Inv.core _ (sameCore_pruneBackoffs now s.cfg.pruneBackoff toPrune _)
    apply Inv.core _ (sameCore_sendPrunes toGraft toPrune _ _)
    apply Inv.core _ (sameCore_sendGrafts fx toGraft peerUniverse _ _)
    constructor
    · intro t m hm q hq
      exact hbMeshLoop_ok _ sc final hs0.mesh topicUniverse _ [] [] _ (fun t m hm q hq => hs0.mesh t m hm q hq) hloop t m hm q hq
    · intro t f hf q hq
      exact hbFanout_ok _ fan fanout hs0.fan hfan t f hf q hq
  · exact h

/-! ## every op -/

/-- the op's side condition: only a peer that is in no mesh is made explicit (DESIGN §8: making a
current mesh member explicit is outside the property's quantifier) -/
def okOp (s : State) (o : TOp) : Prop :=
  match o.op with
  | .explicit p => ¬ InMeshP s p
  | _ => True

theorem inv_step (s : State) (o : TOp) (h : Inv s) (hok : okOp s o) : Inv (step s o).1 := by
  unfold step stepG
  cases hop : o.op with
  | connect p c ob => exact inv_connect s p c ob h
  | kind p g => exact inv_setKind s p g h
  | disconnect p c => exact inv_disconnect s p c h
  | explicit p =>
    simp only [okOp, hop] at hok
    exact inv_addExplicit s p h hok
  | subs p l => exact inv_recvSubs s o.now o.sc p l h
  | graft p ts => exact inv_recvGraft s o.now o.sc p ts h
  | prune p l => exact inv_recvPrune s o.now p l h
  | subscribe t final => exact inv_subscribe s o.sc t final h
  | unsubscribe t => exact inv_unsubscribe s o.now t h
  | publish t fan => exact inv_publish s t fan h
  | heartbeat final fan => exact inv_heartbeat fixed s o.now o.sc final fan h
  | nop => exact h

theorem inv_init (c : Cfg) (hb slack : Nat) : Inv (init c hb slack) := by
  constructor
  · intro t m hm; simp [init] at hm
  · intro t f hf; simp [init] at hf

/-- run an op sequence, requiring the side condition at every step -/
def OkRun : State → List TOp → Prop
  | _, [] => True
  | s, o :: os => okOp s o ∧ OkRun (step s o).1 os

def exec (s : State) (ops : List TOp) : State := ops.foldl (fun s o => (step s o).1) s

theorem inv_exec : ∀ (ops : List TOp) (s : State), Inv s → OkRun s ops → Inv (exec s ops) := by
  intro ops
  induction ops with
  | nil => intro s h _; exact h
  | cons o os ih =>
    intro s h hok
    simp only [exec, List.foldl_cons]
    exact ih _ (inv_step s o h hok.1) hok.2

end C28
