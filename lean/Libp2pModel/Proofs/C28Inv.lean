import Libp2pModel.Model.C28Node
/-!
# C28 / C29 — the mesh invariant of the node model, by induction over op sequences

`MeshOK`: every mesh member is a connected gossipsub peer subscribed to the topic and not explicit.
`FanOK`: every fanout peer is a connected gossipsub peer subscribed to the topic (what `join` needs).
-/
namespace C28

/-! ## sets -/

theorem mem_ins {l : List Nat} {x y : Nat} : x ∈ ins l y ↔ x ∈ l ∨ x = y := by
  unfold ins
  split
  · rename_i h
    have hy : y ∈ l := by simpa using h
    constructor
    · intro hx; exact Or.inl hx
    · rintro (hx | rfl)
      · exact hx
      · exact hy
  · simp

theorem mem_insAll {xs : List Nat} : ∀ {l : List Nat} {x : Nat}, x ∈ insAll l xs ↔ x ∈ l ∨ x ∈ xs := by
  induction xs with
  | nil => intro l x; simp [insAll]
  | cons y ys ih =>
    intro l x
    have := @ih (ins l y) x
    simp only [insAll, List.foldl_cons] at this ⊢
    rw [this, mem_ins]
    simp only [List.mem_cons]
    constructor
    · rintro ((h | h) | h)
      · exact Or.inl h
      · exact Or.inr (Or.inl h)
      · exact Or.inr (Or.inr h)
    · rintro (h | h | h)
      · exact Or.inl (Or.inl h)
      · exact Or.inl (Or.inr h)
      · exact Or.inr h

theorem mem_del {l : List Nat} {x y : Nat} : x ∈ del l y ↔ x ∈ l ∧ x ≠ y := by
  simp [del, List.mem_filter]

theorem setF_same {α} (f : Nat → Option α) (k : Nat) (v : Option α) : setF f k v k = v := by simp [setF]
theorem setF_other {α} (f : Nat → Option α) (k k' : Nat) (v : Option α) (h : k' ≠ k) : setF f k v k' = f k' := by
  simp [setF, h]

theorem validChoice_sub {c pool : List Nat} {n : Nat} (h : validChoice c pool n = true) : ∀ p ∈ c, p ∈ pool := by
  simp only [validChoice, Bool.and_eq_true, List.all_eq_true] at h
  intro p hp
  simpa using h.1.1 p hp

theorem mem_poolOf {s : State} {t : Nat} {f : Nat → Peer → Bool} {p : Nat} (h : p ∈ poolOf s t f) :
    ∃ pd, s.peers p = some pd ∧ t ∈ pd.topics ∧ pd.gossip = true ∧ f p pd = true := by
  simp only [poolOf, List.mem_filter] at h
  obtain ⟨_, h⟩ := h
  cases hp : s.peers p with
  | none => simp [hp] at h
  | some pd =>
    simp only [hp, Bool.and_eq_true, List.contains_eq_mem, decide_eq_true_eq] at h
    exact ⟨pd, rfl, h.1.1, h.1.2, h.2⟩

/-! ## the invariant -/

def PeerOK (s : State) (t p : Nat) : Prop := ∃ pd, s.peers p = some pd ∧ pd.gossip = true ∧ t ∈ pd.topics

/-- mesh invariant, except possibly for peer `p` in the topics `U` (pending unsubscriptions) -/
def MeshOKx (s : State) (p : Nat) (U : List Nat) : Prop :=
  ∀ t m, s.mesh t = some m → ∀ q ∈ m, (q = p ∧ t ∈ U) ∨ (PeerOK s t q ∧ q ∉ s.explicit)

def FanOKx (s : State) (p : Nat) (U : List Nat) : Prop :=
  ∀ t f, s.fanout t = some f → ∀ q ∈ f, (q = p ∧ t ∈ U) ∨ PeerOK s t q

/-- **Inv28**: every mesh member is a connected gossipsub peer subscribed to the topic and not an
explicit peer -/
def MeshOK (s : State) : Prop :=
  ∀ t m, s.mesh t = some m → ∀ p ∈ m, PeerOK s t p ∧ p ∉ s.explicit

def FanOK (s : State) : Prop := ∀ t f, s.fanout t = some f → ∀ p ∈ f, PeerOK s t p

structure Inv (s : State) : Prop where
  mesh : MeshOK s
  fan : FanOK s

theorem meshOK_iff_x (s : State) (p : Nat) : MeshOK s ↔ MeshOKx s p [] := by
  constructor
  · intro h t m hm q hq; exact Or.inr (h t m hm q hq)
  · intro h t m hm q hq
    rcases h t m hm q hq with ⟨_, hU⟩ | h'
    · simp at hU
    · exact h'

theorem fanOK_iff_x (s : State) (p : Nat) : FanOK s ↔ FanOKx s p [] := by
  constructor
  · intro h t m hm q hq; exact Or.inr (h t m hm q hq)
  · intro h t m hm q hq
    rcases h t m hm q hq with ⟨_, hU⟩ | h'
    · simp at hU
    · exact h'

/-- `p` is a member of some topic mesh -/
def InMeshP (s : State) (p : Nat) : Prop := ∃ t m, s.mesh t = some m ∧ p ∈ m

theorem inMesh_iff {s : State} {t p : Nat} : inMesh s t p = true ↔ ∃ m, s.mesh t = some m ∧ p ∈ m := by
  unfold inMesh
  cases h : s.mesh t with
  | none => simp
  | some m => simp

/-! ## frame: states that differ only in belief / backoff / ticks -/

/-- same peers, explicit set, meshes and fanout -/
def SameCore (s s' : State) : Prop :=
  s'.peers = s.peers ∧ s'.explicit = s.explicit ∧ s'.mesh = s.mesh ∧ s'.fanout = s.fanout ∧ s'.cfg = s.cfg

theorem SameCore.refl (s : State) : SameCore s s := ⟨rfl, rfl, rfl, rfl, rfl⟩

theorem SameCore.trans {a b c : State} (h1 : SameCore a b) (h2 : SameCore b c) : SameCore a c := by
  obtain ⟨a1, a2, a3, a4, a5⟩ := h1
  obtain ⟨b1, b2, b3, b4, b5⟩ := h2
  exact ⟨b1.trans a1, b2.trans a2, b3.trans a3, b4.trans a4, b5.trans a5⟩

theorem sameCore_notify (s : State) (ns : List Notif) : SameCore s (notify s ns) := by
  simp only [SameCore, notify, and_self]
theorem sameCore_updateBackoff (s : State) (now t p secs : Nat) : SameCore s (updateBackoff s now t p secs) := by
  simp only [SameCore, updateBackoff, and_self]

theorem MeshOKx.core {s s' : State} {p : Nat} {U : List Nat} (h : MeshOKx s p U) (hc : SameCore s s') : MeshOKx s' p U := by
  obtain ⟨c1, c2, c3, _, _⟩ := hc
  intro t m hm q hq
  rw [c3] at hm
  rcases h t m hm q hq with h' | ⟨⟨pd, hpd, hg, ht⟩, hex⟩
  · exact Or.inl h'
  · exact Or.inr ⟨⟨pd, by rw [c1]; exact hpd, hg, ht⟩, by rw [c2]; exact hex⟩

theorem FanOKx.core {s s' : State} {p : Nat} {U : List Nat} (h : FanOKx s p U) (hc : SameCore s s') : FanOKx s' p U := by
  obtain ⟨c1, _, _, c4, _⟩ := hc
  intro t m hm q hq
  rw [c4] at hm
  rcases h t m hm q hq with h' | ⟨pd, hpd, hg, ht⟩
  · exact Or.inl h'
  · exact Or.inr ⟨pd, by rw [c1]; exact hpd, hg, ht⟩

theorem Inv.core {s s' : State} (h : Inv s) (hc : SameCore s s') : Inv s' :=
  ⟨(meshOK_iff_x s' 0).2 (((meshOK_iff_x s 0).1 h.mesh).core hc), (fanOK_iff_x s' 0).2 (((fanOK_iff_x s 0).1 h.fan).core hc)⟩

/-! ## removing a peer from one mesh -/

/-- the core effect of `remove_peer_from_mesh`: only `mesh t` loses `p` -/
theorem removePeerFromMesh_core (s : State) (now p t : Nat) (b : Option Nat) (al : Bool) :
    let s' := (removePeerFromMesh s now p t b al).1
    s'.peers = s.peers ∧ s'.explicit = s.explicit ∧ s'.fanout = s.fanout ∧ s'.cfg = s.cfg
      ∧ s'.mesh = setF s.mesh t ((s.mesh t).map (fun m => del m p)) := by
  simp only [removePeerFromMesh]
  by_cases hr : inMesh s t p = true
  · simp only [hr, ↓reduceIte, Bool.or_true]
    refine ⟨rfl, rfl, rfl, rfl, rfl⟩
  · have hr' : inMesh s t p = false := by simpa using hr
    simp only [hr', Bool.false_eq_true, ↓reduceIte, Bool.or_false]
    have hm : s.mesh = setF s.mesh t ((s.mesh t).map (fun m => del m p)) := by
      funext t'
      by_cases ht : t' = t
      · subst ht
        rw [setF_same]
        cases hmt : s.mesh t' with
        | none => rfl
        | some m =>
          simp only [Option.map_some, Option.some.injEq]
          have : p ∉ m := by
            intro hp
            have := inMesh_iff.2 ⟨m, hmt, hp⟩
            rw [hr'] at this; cases this
          simp only [del]
          rw [List.filter_eq_self.2]
          intro a ha
          simp only [bne_iff_ne, ne_eq]
          rintro rfl; exact this ha
      · rw [setF_other _ _ _ _ ht]
    split <;> exact ⟨rfl, rfl, rfl, rfl, hm⟩

/-- removing `p` from `mesh t` discharges the pending pair `(p, t)` -/
theorem MeshOKx_remove {s s' : State} {p t : Nat} {U : List Nat}
    (h : MeshOKx s p (t :: U))
    (hp : s'.peers = s.peers) (he : s'.explicit = s.explicit)
    (hm : s'.mesh = setF s.mesh t ((s.mesh t).map (fun m => del m p))) : MeshOKx s' p U := by
  intro t' m hm' q hq
  rw [hm] at hm'
  by_cases ht : t' = t
  · subst ht
    rw [setF_same] at hm'
    cases hmt : s.mesh t' with
    | none => simp [hmt] at hm'
    | some m0 =>
      simp only [hmt, Option.map_some, Option.some.injEq] at hm'
      subst hm'
      obtain ⟨hq0, hne⟩ := mem_del.1 hq
      rcases h t' m0 hmt q hq0 with ⟨hqp, _⟩ | ⟨⟨pd, hpd, hg, htt⟩, hex⟩
      · exact absurd hqp hne
      · exact Or.inr ⟨⟨pd, by rw [hp]; exact hpd, hg, htt⟩, by rw [he]; exact hex⟩
  · rw [setF_other _ _ _ _ ht] at hm'
    rcases h t' m hm' q hq with ⟨hqp, hU⟩ | ⟨⟨pd, hpd, hg, htt⟩, hex⟩
    · simp only [List.mem_cons] at hU
      rcases hU with hU | hU
      · exact absurd hU ht
      · exact Or.inl ⟨hqp, hU⟩
    · exact Or.inr ⟨⟨pd, by rw [hp]; exact hpd, hg, htt⟩, by rw [he]; exact hex⟩

end C28
