import Libp2pModel.Model.C22
/-!
# C22 — helper lemmas: bit masks as division, every predicate of the code as a prefix test
`a / 2^k = c`, the run-length form of the registries.  All arithmetic (`omega`), no enumeration.
-/
namespace C22

/-! ## masks -/

/-- masking with `(2^k - 1) * 2^j` keeps bits `j .. j+k` -/
theorem and_hi_mask (s j k : Nat) (h : s < 2 ^ (j + k)) :
    s &&& ((2 ^ k - 1) * 2 ^ j) = (s / 2 ^ j) * 2 ^ j := by
  have h1 : (s &&& ((2 ^ k - 1) * 2 ^ j)) % 2 ^ j = 0 := by
    rw [Nat.and_mod_two_pow]; simp
  have h2 : (s &&& ((2 ^ k - 1) * 2 ^ j)) / 2 ^ j = s / 2 ^ j := by
    rw [Nat.and_div_two_pow, Nat.mul_div_cancel _ (Nat.two_pow_pos j), Nat.and_two_pow_sub_one_eq_mod]
    apply Nat.mod_eq_of_lt
    rw [Nat.div_lt_iff_lt_mul (Nat.two_pow_pos j), ← Nat.pow_add, Nat.add_comm]; exact h
  have := Nat.div_add_mod (s &&& ((2 ^ k - 1) * 2 ^ j)) (2 ^ j)
  rw [h1, h2] at this
  rw [← this]; simp [Nat.mul_comm]

theorem mask240 (o : Nat) (h : o < 256) : (o &&& 240 = 240) ↔ o / 16 = 15 := by
  have e := and_hi_mask o 4 4 (by simpa using h)
  simp at e; rw [e]; omega
theorem maskfe (o : Nat) (h : o < 256) : (o &&& 0xfe = 18) ↔ o / 2 = 9 := by
  have e := and_hi_mask o 1 7 (by simpa using h)
  simp at e; rw [e]; omega
theorem maskc0 (o : Nat) (h : o < 256) : (o &&& 0b11000000 = 0b01000000) ↔ o / 64 = 1 := by
  have e := and_hi_mask o 6 2 (by simpa using h)
  simp at e; rw [e]; omega
theorem maskffc0 (s : Nat) (h : s < 65536) : (s &&& 0xffc0 = 0xfe80) ↔ s / 64 = 1018 := by
  have e := and_hi_mask s 6 10 (by simpa using h)
  simp at e; rw [e]; omega
theorem maskfe00 (s : Nat) (h : s < 65536) : (s &&& 0xfe00 = 0xfc00) ↔ s / 512 = 126 := by
  have e := and_hi_mask s 9 7 (by simpa using h)
  simp at e; rw [e]; omega

theorem oct_lt (a i : Nat) : oct a i < 256 := by unfold oct; omega
theorem seg_lt (a i : Nat) : seg a i < 65536 := by unfold seg; omega

/-! ## IPv4: each predicate of the code is a prefix test -/
section V4
variable (a : Nat) (h : a < 2 ^ 32)
include h

theorem V4.thisNet_iff : oct a 0 = 0 ↔ a / 2 ^ 24 = 0 := by
  simp [oct]; omega
theorem V4.private_iff : V4.isPrivate a = true ↔
    a / 2 ^ 24 = 10 ∨ a / 2 ^ 20 = 172 * 16 + 1 ∨ a / 2 ^ 16 = 192 * 256 + 168 := by
  unfold V4.isPrivate oct; simp; omega
theorem V4.shared_iff : V4.isShared a = true ↔ a / 2 ^ 22 = 100 * 4 + 1 := by
  have m := maskc0 (oct a 1) (oct_lt _ _)
  simp only [V4.isShared, Bool.and_eq_true, beq_iff_eq, m]
  simp [oct]; omega
theorem V4.loopback_iff : V4.isLoopback a = true ↔ a / 2 ^ 24 = 127 := by
  simp [V4.isLoopback, oct]; omega
theorem V4.linkLocal_iff : V4.isLinkLocal a = true ↔ a / 2 ^ 16 = 169 * 256 + 254 := by
  simp [V4.isLinkLocal, oct]; omega
theorem V4.ietf_iff : (oct a 0 == 192 && oct a 1 == 0 && oct a 2 == 0) = true ↔ a / 2 ^ 8 = 192 * 65536 := by
  simp [oct]; omega
theorem V4.documentation_iff : V4.isDocumentation a = true ↔
    a / 2 ^ 8 = 192 * 65536 + 2 ∨ a / 2 ^ 8 = (198 * 256 + 51) * 256 + 100 ∨ a / 2 ^ 8 = (203 * 256 + 0) * 256 + 113 := by
  simp [V4.isDocumentation, oct]; omega
theorem V4.benchmarking_iff : V4.isBenchmarking a = true ↔ a / 2 ^ 17 = 198 * 128 + 9 := by
  have m := maskfe (oct a 1) (oct_lt _ _)
  simp only [V4.isBenchmarking, Bool.and_eq_true, beq_iff_eq, m]
  simp [oct]; omega
theorem V4.reserved_or_broadcast_iff : (V4.isReserved a || V4.isBroadcast a) = true ↔
    a / 2 ^ 28 = 15 ∨ a = 0xFFFFFFFF := by
  have m := mask240 (oct a 0) (oct_lt _ _)
  simp only [V4.isReserved, V4.isBroadcast, Bool.or_eq_true, Bool.and_eq_true, beq_iff_eq, m]
  simp [oct]; omega

/-- `is_global a = false` as the disjunction of the code's prefix tests, in code order -/
theorem V4.rows : V4.isGlobal a = false ↔
    (a / 16777216 = 0 ∨ a / 16777216 = 10 ∨ a / 1048576 = 2753 ∨ a / 65536 = 49320 ∨ a / 4194304 = 401 ∨
     a / 16777216 = 127 ∨ a / 65536 = 43518 ∨ a / 256 = 12582912 ∨ a / 256 = 12582914 ∨
     a / 256 = 12989284 ∨ a / 256 = 13303921 ∨ a / 131072 = 25353 ∨ a / 268435456 = 15 ∨ a = 4294967295) := by
  have e : V4.isGlobal a = !(((((((((oct a 0 == 0) || V4.isPrivate a) || V4.isShared a) || V4.isLoopback a) || V4.isLinkLocal a)
      || (oct a 0 == 192 && oct a 1 == 0 && oct a 2 == 0)) || V4.isDocumentation a) || V4.isBenchmarking a)
      || (V4.isReserved a || V4.isBroadcast a)) := by
    simp [V4.isGlobal, Bool.or_assoc]
  rw [e]
  simp only [Bool.not_eq_false', Bool.or_eq_true, beq_iff_eq, V4.thisNet_iff a h, V4.private_iff a h, V4.shared_iff a h,
    V4.loopback_iff a h, V4.linkLocal_iff a h, V4.ietf_iff a h, V4.documentation_iff a h, V4.benchmarking_iff a h,
    V4.reserved_or_broadcast_iff a h]
  simp only [Nat.reducePow, Nat.reduceMul, Nat.reduceAdd, or_assoc]
end V4

/-- the registry's tier-A rows, evaluated: the same disjunction -/
theorem registry4_rows (a : Nat) : registryNonGlobal4 a = true ↔
    (a / 16777216 = 0 ∨ a / 16777216 = 10 ∨ a / 1048576 = 2753 ∨ a / 65536 = 49320 ∨ a / 4194304 = 401 ∨
     a / 16777216 = 127 ∨ a / 65536 = 43518 ∨ a / 256 = 12582912 ∨ a / 256 = 12582914 ∨
     a / 256 = 12989284 ∨ a / 256 = 13303921 ∨ a / 131072 = 25353 ∨ a / 268435456 = 15 ∨ a = 4294967295) := by
  simp only [registryNonGlobal4, inAny, nonGlobal4, Prefix.contains, List.any_cons, List.any_nil, ip4,
    Bool.or_eq_true, beq_iff_eq, Bool.or_false]
  simp only [Nat.reducePow, Nat.reduceMul, Nat.reduceSub, Nat.reduceAdd, Nat.reduceDiv, Nat.div_one]

/-! ## IPv6 -/
section V6
variable (a : Nat) (h : a < 2 ^ 128)
include h

theorem V6.mapped_iff : (seg a 0 == 0 && seg a 1 == 0 && seg a 2 == 0 && seg a 3 == 0 && seg a 4 == 0 && seg a 5 == 0xffff) = true
    ↔ a / 2 ^ 32 = 0xffff := by
  unfold seg; simp; omega
theorem V6.xlat_iff : (seg a 0 == 0x64 && seg a 1 == 0xff9b && seg a 2 == 1) = true ↔ a / 2 ^ 80 = 0x0064ff9b0001 := by
  unfold seg; simp; omega
theorem V6.discard_iff : (seg a 0 == 0x100 && seg a 1 == 0 && seg a 2 == 0 && seg a 3 == 0) = true ↔ a / 2 ^ 64 = 0x0100000000000000 := by
  unfold seg; simp; omega
theorem V6.ietf_iff : (seg a 0 == 0x2001 && seg a 1 < 0x200) = true ↔ a / 2 ^ 105 = 0x100080 := by
  unfold seg; simp; omega
theorem V6.carved_iff : V6.carvedOut a = true ↔
    a = 0x20010001000000000000000000000001 ∨ a = 0x20010001000000000000000000000002 ∨
    a / 2 ^ 96 = 0x20010003 ∨ a / 2 ^ 80 = 0x200100040112 ∨ a / 2 ^ 100 = 0x2001002 := by
  unfold V6.carvedOut seg; simp; omega
theorem V6.documentation_iff : V6.isDocumentation a = true ↔ a / 2 ^ 96 = 0x20010db8 := by
  unfold V6.isDocumentation seg; simp; omega
theorem V6.uniqueLocal_iff : V6.isUniqueLocal a = true ↔ a / 2 ^ 121 = 126 := by
  have m := maskfe00 (seg a 0) (seg_lt _ _)
  simp only [V6.isUniqueLocal, beq_iff_eq, m]
  unfold seg; simp; omega
theorem V6.linkLocal_iff : V6.isUnicastLinkLocal a = true ↔ a / 2 ^ 118 = 1018 := by
  have m := maskffc0 (seg a 0) (seg_lt _ _)
  simp only [V6.isUnicastLinkLocal, beq_iff_eq, m]
  unfold seg; simp; omega

/-- `is_global a = false` as the code's prefix tests, in code order -/
theorem V6.rows : V6.isGlobal a = false ↔
    (a = 0 ∨ a = 1 ∨ a / 4294967296 = 65535 ∨ a / 1208925819614629174706176 = 433785077761 ∨
     a / 18446744073709551616 = 72057594037927936 ∨
     (a / 40564819207303340847894502572032 = 1048704 ∧ ¬ V6.carvedOut a = true) ∨
     a / 79228162514264337593543950336 = 536939960 ∨
     a / 2658455991569831745807614120560689152 = 126 ∨ a / 332306998946228968225951765070086144 = 1018) := by
  simp only [V6.isGlobal, Bool.not_eq_false', Bool.or_eq_true, Bool.and_eq_true (_ && _) (!_), Bool.not_eq_true',
    V6.mapped_iff a h, V6.xlat_iff a h, V6.discard_iff a h, V6.ietf_iff a h, V6.documentation_iff a h,
    V6.uniqueLocal_iff a h, V6.linkLocal_iff a h, V6.isUnspecified, V6.isLoopback, beq_iff_eq]
  simp only [Nat.reducePow, ← Bool.not_eq_true, or_assoc]

theorem V6.carved_rows : V6.carvedOut a = true ↔
    (a = 42540488241204005274814694018844196865 ∨ a = 42540488241204005274814694018844196866 ∨
     a / 79228162514264337593543950336 = 536936451 ∨ a / 1208925819614629174706176 = 35188667318546 ∨
     a / 1267650600228229401496703205376 = 33558530) := by
  have := V6.carved_iff a h
  simp only [Nat.reducePow] at this
  exact this
end V6

theorem registry6_rows (a : Nat) : registryNonGlobal6 a = true ↔
    (a = 0 ∨ a = 1 ∨ a / 4294967296 = 65535 ∨ a / 1208925819614629174706176 = 433785077761 ∨
     a / 18446744073709551616 = 72057594037927936 ∨ a / 40564819207303340847894502572032 = 1048704 ∨
     a / 79228162514264337593543950336 = 536939960 ∨
     a / 2658455991569831745807614120560689152 = 126 ∨ a / 332306998946228968225951765070086144 = 1018) ∧
    ¬ (a = 42540488241204005274814694018844196865 ∨ a = 42540488241204005274814694018844196866 ∨
     a / 79228162514264337593543950336 = 536936451 ∨ a / 1208925819614629174706176 = 35188667318546 ∨
     a / 1267650600228229401496703205376 = 33558530) := by
  simp only [registryNonGlobal6, inAny, nonGlobal6, carveOut6, Prefix.contains, List.any_cons, List.any_nil, ip6,
    Bool.or_eq_true, beq_iff_eq, Bool.or_false, Bool.and_eq_true, Bool.not_eq_true', ← Bool.not_eq_true]
  simp only [Nat.reducePow, Nat.reduceMul, Nat.reduceSub, Nat.reduceAdd, Nat.reduceDiv, Nat.div_one]

/-! ## intervals -/

theorem inIntervals_clip (l : List (Nat × Nat)) (lo hi a : Nat) (h1 : lo ≤ a) (h2 : a ≤ hi) :
    inIntervals (clip l lo hi) a = inIntervals l a := by
  induction l with
  | nil => rfl
  | cons p t ih =>
    obtain ⟨x, y⟩ := p
    simp only [clip, inIntervals]
    split
    · rename_i hc
      simp only [Bool.or_eq_true, decide_eq_true_eq] at hc
      have : (decide (x ≤ a) && decide (a ≤ y)) = false := by
        simp only [Bool.and_eq_false_iff, decide_eq_false_iff_not]; omega
      simp [this, ih]
    · rename_i hc
      simp only [Bool.or_eq_true, decide_eq_true_eq, not_or] at hc
      have e1 : decide (max x lo ≤ a) = decide (x ≤ a) := by
        apply decide_eq_decide.2; omega
      have e2 : decide (a ≤ min y hi) = decide (a ≤ y) := by
        apply decide_eq_decide.2; omega
      simp only [inIntervals, e1, e2, ih]

theorem clip_within (l : List (Nat × Nat)) (lo hi : Nat) : within lo hi (clip l lo hi) = true := by
  induction l with
  | nil => rfl
  | cons p t ih =>
    obtain ⟨x, y⟩ := p
    simp only [clip]
    split
    · exact ih
    · simp only [within, ih, Bool.and_true, Bool.and_eq_true, decide_eq_true_eq]; omega


/-- close a goal `A₁ ∨ … ∨ Aₙ` by finding the disjunct `omega` proves -/
syntax "pick_disj" : tactic
macro_rules
  | `(tactic| pick_disj) => `(tactic| first | (apply Or.inl; omega) | (apply Or.inr; pick_disj) | omega)

theorem intervals4_rows (a : Nat) : inIntervals intervals4 a = true ↔
    (a / 16777216 = 0 ∨ a / 16777216 = 10 ∨ a / 1048576 = 2753 ∨ a / 65536 = 49320 ∨ a / 4194304 = 401 ∨
     a / 16777216 = 127 ∨ a / 65536 = 43518 ∨ a / 256 = 12582912 ∨ a / 256 = 12582914 ∨
     a / 256 = 12989284 ∨ a / 256 = 13303921 ∨ a / 131072 = 25353 ∨ a / 268435456 = 15 ∨ a = 4294967295) := by
  simp only [intervals4, inIntervals, ip4, Bool.or_eq_true, Bool.and_eq_true, decide_eq_true_eq, Bool.or_false]
  simp only [Nat.reduceMul, Nat.reduceAdd]
  constructor
  · rintro (h|h|h|h|h|h|h|h|h|h|h|h|h) <;> pick_disj
  · rintro (h|h|h|h|h|h|h|h|h|h|h|h|h|h) <;> pick_disj
theorem intervals6_rows (a : Nat) : inIntervals intervals6 a = true ↔
    (a = 0 ∨ a = 1 ∨ a / 4294967296 = 65535 ∨ a / 1208925819614629174706176 = 433785077761 ∨
     a / 18446744073709551616 = 72057594037927936 ∨ a / 40564819207303340847894502572032 = 1048704 ∨
     a / 79228162514264337593543950336 = 536939960 ∨
     a / 2658455991569831745807614120560689152 = 126 ∨ a / 332306998946228968225951765070086144 = 1018) ∧
    ¬ (a = 42540488241204005274814694018844196865 ∨ a = 42540488241204005274814694018844196866 ∨
     a / 79228162514264337593543950336 = 536936451 ∨ a / 1208925819614629174706176 = 35188667318546 ∨
     a / 1267650600228229401496703205376 = 33558530) := by
  simp only [intervals6, inIntervals, ip6, Bool.or_eq_true, Bool.and_eq_true, decide_eq_true_eq, Bool.or_false]
  simp only [Nat.reduceMul, Nat.reduceAdd]
  constructor
  · rintro (h|h|h|h|h|h|h|h|h|h|h|h) <;> refine ⟨by pick_disj, by omega⟩
  · rintro ⟨(h|h|h|h|h|h|h|h|h), hc⟩
    · pick_disj
    · pick_disj
    · pick_disj
    · pick_disj
    · pick_disj
    · simp only [not_or] at hc
      obtain ⟨c1, c2, c3, c4, c5⟩ := hc
      by_cases q1 : a ≤ 42540488241204005274814694018844196864
      · pick_disj
      by_cases q2 : a < 42540488479188492818607706799475195904
      · pick_disj
      by_cases q3 : a < 42540488558416655332872044393019146240
      · omega
      by_cases q4 : a < 42540488558747869068002021001108357120
      · pick_disj
      by_cases q5 : a < 42540488558749077993821635630283063296
      · omega
      by_cases q6 : a < 42540490697577043223746819816658370560
      · pick_disj
      by_cases q7 : a < 42540491965227643451976221313361575936
      · omega
      · pick_disj
    · pick_disj
    · pick_disj
    · pick_disj
end C22
