import Libp2pModel.Proofs.C17Read
/-! C17 helper lemmas: the reader on an UNTAMPERED wire delivered in arbitrary chunks. -/
namespace C17

/-- hypotheses on the honest transcript: ideal AEAD, frame sizes as produced by the writer
(`C17.write_accounting`), fewer than `u64::MAX` frames. -/
structure Honest (A : Aead) (sent : List Bytes) : Prop where
  ideal : AeadIdeal A sent
  sizes : ∀ p ∈ sent, 0 < p.length ∧ p.length ≤ MAX_FRAME_LEN
  count : sent.length ≤ NONCE_MAX

/-- honest-world invariant: `rem` = the part of the honest wire the socket has not delivered yet -/
structure HInv (A : Aead) (sent : List Bytes) (r : Reader) (rem : Bytes) : Prop where
  rinv : RInv sent r
  no_eof : r.eof = false
  wire : r.inbuf ++ rem = wireOf A r.nonce (sent.drop r.nonce)

theorem drop_cons_facts (sent : List Bytes) (n : Nat) (p : Bytes) (ps : List Bytes)
    (h : sent.drop n = p :: ps) : sent[n]? = some p ∧ sent.drop (n + 1) = ps ∧ n < sent.length := by
  have h1 : sent[n]? = some p := by
    have := List.getElem?_drop (xs := sent) (i := n) (j := 0)
    rw [h] at this
    simpa using this.symm
  refine ⟨h1, ?_, ?_⟩
  · rw [← List.drop_drop, h]; rfl
  · rcases Nat.lt_or_ge n sent.length with hlt | hge
    · exact hlt
    · rw [List.getElem?_eq_none hge] at h1; simp at h1

theorem pollNext_honest (A : Aead) (sent : List Bytes) (hH : Honest A sent) (r : Reader)
    (rem : Bytes) (h : HInv A sent r rem) :
    (pollNext A r = (r, .pending) ∧ decodeLengthPrefixed r.inbuf = none) ∨
    (∃ p rest, sent[r.nonce]? = some p ∧ 0 < p.length ∧ 2 ≤ r.inbuf.length ∧
      pollNext A r = ({ r with inbuf := rest, nonce := r.nonce + 1 }, .frame p) ∧
      rest ++ rem = wireOf A (r.nonce + 1) (sent.drop (r.nonce + 1))) := by
  have hw := h.wire
  cases hdrop : sent.drop r.nonce with
  | nil =>
    rw [hdrop] at hw
    simp only [wireOf, List.append_eq_nil_iff] at hw
    left
    unfold pollNext
    simp [hw.1, decodeLengthPrefixed, h.no_eof]
  | cons p ps =>
    obtain ⟨hp, hps, hlt⟩ := drop_cons_facts sent r.nonce p ps hdrop
    rw [hdrop] at hw
    simp only [wireOf] at hw
    have hmem : p ∈ sent := List.mem_of_getElem? hp
    obtain ⟨hppos, hpmax⟩ := hH.sizes p hmem
    have hov := hH.ideal.overhead _ _ hp
    have hc16 : (A.enc r.nonce p).length < 65536 := by
      have := max_frame_tag_le; have := snow_max_lt; omega
    have hel := encode_length (A.enc r.nonce p)
    by_cases hge : (encodeLengthPrefixed (A.enc r.nonce p)).length ≤ r.inbuf.length
    · right
      have : ∃ rest, r.inbuf = encodeLengthPrefixed (A.enc r.nonce p) ++ rest ∧
          rest ++ rem = wireOf A (r.nonce + 1) ps := by
        rcases List.append_eq_append_iff.1 hw with ⟨a', h1, h2⟩ | ⟨c', h1, h2⟩
        · have hl := congrArg List.length h1
          simp only [List.length_append] at hl
          have : a' = [] := by
            cases a' with
            | nil => rfl
            | cons x t => simp only [List.length_cons] at hl; omega
          subst this
          refine ⟨[], by simpa using h1.symm, by simpa using h2⟩
        · exact ⟨c', h1, h2.symm⟩
      obtain ⟨rest, hin, hrest⟩ := this
      refine ⟨p, rest, hp, hppos, by omega, ?_, by rw [hps]; exact hrest⟩
      unfold pollNext
      rw [hin, decode_encode _ _ hc16]
      have hsr : snowRead A r.nonce (A.enc r.nonce p) = some p := by
        unfold snowRead
        have h1 : ¬ (A.enc r.nonce p).length > SNOW_MAXMSGLEN := by
          have := max_frame_tag_le; omega
        have h2 : ¬ (A.enc r.nonce p).length < TAGLEN := by omega
        have h3 : ¬ r.nonce = NONCE_MAX := by have := hH.count; omega
        simp only [h1, h2, h3, ↓reduceIte]
        exact hH.ideal.correct _ _ hp
      simp only [hsr]
    · left
      have hpre : r.inbuf <+: encodeLengthPrefixed (A.enc r.nonce p) := by
        rcases List.append_eq_append_iff.1 hw with ⟨a', h1, _⟩ | ⟨c', h1, _⟩
        · exact ⟨a', h1.symm⟩
        · have hl := congrArg List.length h1
          simp only [List.length_append] at hl
          omega
      have hnone := decode_strict_prefix _ hc16 r.inbuf hpre (by omega)
      refine ⟨?_, hnone⟩
      unfold pollNext
      simp [hnone, h.no_eof]

/-- one `poll_read` on an untampered wire -/
theorem pollRead_honest (A : Aead) (sent : List Bytes) (hH : Honest A sent) (r : Reader)
    (rem : Bytes) (n : Nat) (h : HInv A sent r rem) :
    HInv A sent (pollRead A r n).1 rem ∧
    (((pollRead A r n).2 = .pending ∧ (pollRead A r n).1.recvBuf = [] ∧
        decodeLengthPrefixed (pollRead A r n).1.inbuf = none ∧
        (pollRead A r n).1.delivered = r.delivered) ∨
     (∃ data, (pollRead A r n).2 = .ok data ∧ (0 < n → data ≠ []) ∧
        (pollRead A r n).1.delivered = r.delivered ++ data)) := by
  unfold pollRead
  by_cases hpos : 0 < r.recvBuf.length
  · have hoff : r.recvOff ≤ r.recvBuf.length := by
      rcases h.rinv.recv_ok with h0 | h1
      · simp [h0] at hpos
      · omega
    rw [loop_copy A _ r n hpos hoff]
    obtain ⟨hinv, data, hout, hdel, hne, hno, hin, heof⟩ := copyStep_inv sent r n h.rinv hpos
    refine ⟨⟨hinv, by rw [heof]; exact h.no_eof, by rw [hin, hno]; exact h.wire⟩, Or.inr ⟨data, hout, hne, hdel⟩⟩
  · have hempty : r.recvBuf = [] := by
      cases hb : r.recvBuf with
      | nil => rfl
      | cons a t => simp [hb] at hpos
    rw [loop_next A _ r n hempty]
    rcases pollNext_honest A sent hH r rem h with ⟨hpn, hnone⟩ | ⟨p, rest, hp, hppos, hlen2, hpn, hrest⟩
    · rw [hpn]
      exact ⟨h, Or.inl ⟨rfl, hempty, hnone, rfl⟩⟩
    · rw [hpn]
      simp only
      obtain ⟨hframe, _⟩ := pollNext_inv A sent hH.ideal r h.rinv hempty
      obtain ⟨hi, _, _⟩ := hframe _ _ hpn
      have hfuel : r.inbuf.length = (r.inbuf.length - 1) + 1 := by omega
      rw [hfuel]
      have hpos' : 0 < ({ r with inbuf := rest, nonce := r.nonce + 1, recvBuf := p, recvOff := 0 } : Reader).recvBuf.length := hppos
      rw [loop_copy A _ _ n hpos' (by simp)]
      obtain ⟨hinv, data, hout, hdel, hne, hno, hin, heof⟩ := copyStep_inv sent _ n hi hpos'
      refine ⟨⟨hinv, by rw [heof]; exact h.no_eof, by rw [hin, hno]; exact hrest⟩,
        Or.inr ⟨data, hout, hne, hdel⟩⟩

/-- when the whole honest wire has been delivered and `poll_read` reports `Pending`, every
written byte has been returned. -/
theorem pending_complete (A : Aead) (sent : List Bytes) (hH : Honest A sent) (r : Reader)
    (h : HInv A sent r []) (hbuf : r.recvBuf = [])
    (hnone : decodeLengthPrefixed r.inbuf = none) :
    r.nonce = sent.length ∧ r.delivered = sent.flatten := by
  have hw := h.wire
  rw [List.append_nil] at hw
  cases hdrop : sent.drop r.nonce with
  | nil =>
    have hge : sent.length ≤ r.nonce := List.drop_eq_nil_iff.1 hdrop
    have hle := h.rinv.nonce_le
    have hacct := h.rinv.acct
    rw [hbuf, List.drop_nil, List.append_nil, List.take_of_length_le hge] at hacct
    exact ⟨by omega, hacct⟩
  | cons p ps =>
    exfalso
    obtain ⟨hp, _, _⟩ := drop_cons_facts sent r.nonce p ps hdrop
    rw [hdrop] at hw
    simp only [wireOf] at hw
    have hmem : p ∈ sent := List.mem_of_getElem? hp
    obtain ⟨_, hpmax⟩ := hH.sizes p hmem
    have hov := hH.ideal.overhead _ _ hp
    have hc16 : (A.enc r.nonce p).length < 65536 := by
      have := max_frame_tag_le; have := snow_max_lt; omega
    rw [hw, decode_encode _ _ hc16] at hnone
    simp at hnone

end C17
