import Libp2pModel.Model.C17
/-! C17 helper lemmas: constants, the u16 length-prefix codec (`Good`, round trip, prefixes). -/
namespace C17

theorem max_frame_pos : 0 < MAX_FRAME_LEN := by decide
theorem max_frame_tag_le : MAX_FRAME_LEN + TAGLEN ≤ SNOW_MAXMSGLEN := by decide
theorem tag_le_extra : TAGLEN ≤ EXTRA_ENCRYPT_SPACE := by decide
theorem snow_max_lt : SNOW_MAXMSGLEN < 65536 := by decide
theorem u16_bits : 2 ^ U16_BITS = 65536 := by decide

/-- `decode_length_prefixed` is a `Good` one-frame decoder (progress + stability). -/
theorem lp_good : Framed.Good decodeLengthPrefixed where
  progress := by
    intro b f r h
    unfold decodeLengthPrefixed at h
    match b, h with
    | hi :: lo :: rest, h =>
      simp only at h
      split at h
      · simp only [Option.some.injEq, Prod.mk.injEq] at h
        obtain ⟨_, rfl⟩ := h
        simp only [List.length_drop, List.length_cons]
        omega
      · simp at h
  stable := by
    intro b f r x h
    unfold decodeLengthPrefixed at h ⊢
    match b, h with
    | hi :: lo :: rest, h =>
      simp only at h
      split at h
      · rename_i hlen
        simp only [Option.some.injEq, Prod.mk.injEq] at h
        obtain ⟨rfl, rfl⟩ := h
        simp only [List.cons_append, List.length_append]
        have : rest.length + x.length ≥ hi * 256 + lo := by omega
        simp only [this, ↓reduceIte, Option.some.injEq, Prod.mk.injEq]
        constructor
        · exact List.take_append_of_le_length hlen
        · exact List.drop_append_of_le_length hlen
      · simp at h

/-- round trip: a frame of fewer than 65536 bytes followed by anything decodes to itself. -/
theorem decode_encode (c rest : Bytes) (hc : c.length < 65536) :
    decodeLengthPrefixed (encodeLengthPrefixed c ++ rest) = some (c, rest) := by
  unfold decodeLengthPrefixed encodeLengthPrefixed
  simp only [List.cons_append]
  have hlen : c.length / 256 % 256 * 256 + c.length % 256 = c.length := by omega
  simp only [hlen, List.length_append]
  have : c.length + rest.length ≥ c.length := by omega
  simp only [this, ↓reduceIte, Option.some.injEq, Prod.mk.injEq]
  constructor
  · simp
  · simp

theorem encode_length (c : Bytes) : (encodeLengthPrefixed c).length = c.length + 2 := by
  simp [encodeLengthPrefixed]

/-- a strict prefix of one encoded frame holds no complete frame. -/
theorem decode_strict_prefix (c : Bytes) (hc : c.length < 65536) (b : Bytes)
    (hp : b <+: encodeLengthPrefixed c) (hlt : b.length < c.length + 2) :
    decodeLengthPrefixed b = none := by
  obtain ⟨t, ht⟩ := hp
  unfold decodeLengthPrefixed
  match b, ht, hlt with
  | [], _, _ => rfl
  | [_], _, _ => rfl
  | hi :: lo :: rest, ht, hlt =>
    simp only [encodeLengthPrefixed, List.cons_append, List.cons.injEq] at ht
    obtain ⟨rfl, rfl, hr⟩ := ht
    have hlen : c.length / 256 % 256 * 256 + c.length % 256 = c.length := by omega
    simp only [hlen]
    simp only [List.length_cons] at hlt
    have : ¬ rest.length ≥ c.length := by omega
    simp [this]

end C17
