import Libp2pModel.Model.C26
namespace C26
open C25 (Sid Role Frame)

/-! per-substream and global invariants of the endpoint -/

def SubOk (c : Cfg) (blocking : Option Sid) (x : Sub) : Prop :=
  (x.buf.length ≤ c.maxBuf ∨
    (x.buf.length = c.maxBuf + 1 ∧ (if c.block then blocking = some x.id else x.st = .reset)))
  ∧ x.rx = x.dl ++ x.buf
  ∧ (∃ tail : List (Option (List Nat)), (tail = [] ∨ tail = [none]) ∧ x.sent = x.acc.map some ++ tail ∧
      (tail = [none] → x.st ≠ .opn ∧ x.st ≠ .recvClosed))

def Inv (s : State) : Prop :=
  s.subs.length ≤ s.cfg.maxSubs ∧
  s.pendQ.length ≤ s.cfg.maxSubs + EXTRA_PENDING_FRAMES ∧
  ∀ x ∈ s.subs, SubOk s.cfg s.blocking x

theorem mem_removeSub {l : List Sub} {id : Sid} {y : Sub} (h : y ∈ removeSub l id) : y ∈ l ∧ y.id ≠ id := by
  simp only [removeSub, List.mem_filter, Bool.not_eq_eq_eq_not, Bool.not_true, beq_eq_false_iff_ne] at h
  exact ⟨h.1, h.2⟩

theorem mem_insertSub {l : List Sub} {x y : Sub} (h : y ∈ insertSub l x) : y = x ∨ (y ∈ l ∧ y.id ≠ x.id) := by
  simp only [insertSub, List.mem_cons] at h
  rcases h with h | h
  · exact .inl h
  · exact .inr (mem_removeSub h)

theorem len_removeSub_le (l : List Sub) (id : Sid) : (removeSub l id).length ≤ l.length :=
  List.length_filter_le _ _

theorem getSub_mem {l : List Sub} {id : Sid} {x : Sub} (h : getSub l id = some x) : x ∈ l ∧ x.id = id := by
  unfold getSub at h
  have h1 := List.mem_of_find?_eq_some h
  have h2 := List.find?_some h
  exact ⟨h1, by simpa using h2⟩

theorem len_removeSub_lt_of_mem : ∀ (l : List Sub) (id : Sid) (x : Sub), x ∈ l → x.id = id →
    (removeSub l id).length < l.length := by
  intro l
  induction l with
  | nil => intro id x hm; simp at hm
  | cons a as ih =>
    intro id x hm hid
    unfold removeSub
    simp only [List.filter_cons]
    by_cases ha : a.id = id
    · simp [ha]
      have := List.length_filter_le (fun s : Sub => !(s.id == id)) as
      omega
    · have hne : (a.id == id) = false := by simpa using ha
      simp only [hne, Bool.not_false, ↓reduceIte, List.length_cons]
      have hm' : x ∈ as := by
        rcases List.mem_cons.1 hm with h1 | h1
        · subst h1; exact absurd hid ha
        · exact h1
      have := ih id x hm' hid
      unfold removeSub at this
      omega

theorem len_removeSub_lt {l : List Sub} {id : Sid} {x : Sub} (h : getSub l id = some x) :
    (removeSub l id).length < l.length := by
  obtain ⟨hm, hid⟩ := getSub_mem h
  exact len_removeSub_lt_of_mem l id x hm hid

theorem len_insert_present {l : List Sub} {x x0 : Sub} (h : getSub l x.id = some x0) :
    (insertSub l x).length ≤ l.length := by
  have := len_removeSub_lt h
  simp [insertSub]; omega

theorem len_insert_le (l : List Sub) (x : Sub) : (insertSub l x).length ≤ l.length + 1 := by
  have := len_removeSub_le l x.id
  simp [insertSub]; omega

/-- replacing an existing entry -/
theorem Inv_put_present {s : State} {x x0 : Sub} (hi : Inv s) (h : s.get x.id = some x0)
    (hx : SubOk s.cfg s.blocking x) : Inv (s.put x) := by
  obtain ⟨h1, h2, h3⟩ := hi
  refine ⟨?_, h2, ?_⟩
  · have := len_insert_present h
    simp only [State.put]; omega
  · intro y hy
    simp only [State.put] at hy ⊢
    rcases mem_insertSub hy with rfl | ⟨hm, _⟩
    · exact hx
    · exact h3 y hm

/-- inserting a new entry when there is room -/
theorem Inv_put_new {s : State} {x : Sub} (hi : Inv s) (hroom : s.subs.length < s.cfg.maxSubs)
    (hx : SubOk s.cfg s.blocking x) : Inv (s.put x) := by
  obtain ⟨h1, h2, h3⟩ := hi
  refine ⟨?_, h2, ?_⟩
  · have := len_insert_le s.subs x
    simp only [State.put]; omega
  · intro y hy
    simp only [State.put] at hy ⊢
    rcases mem_insertSub hy with rfl | ⟨hm, _⟩
    · exact hx
    · exact h3 y hm

theorem Inv_del {s : State} (hi : Inv s) (id : Sid) : Inv (s.del id) := by
  obtain ⟨h1, h2, h3⟩ := hi
  refine ⟨?_, h2, ?_⟩
  · have := len_removeSub_le s.subs id
    simp only [State.del]; omega
  · intro y hy
    exact h3 y (mem_removeSub hy).1

theorem Inv_onError (s : State) (k : EK) : Inv (onError s k) := by
  simp [Inv, onError]

/-- changes outside `cfg, subs, pendQ, blocking` are irrelevant -/
theorem Inv_congr {s s' : State} (hi : Inv s) (hc : s'.cfg = s.cfg) (hs : s'.subs = s.subs)
    (hp : s'.pendQ = s.pendQ) (hb : s'.blocking = s.blocking) : Inv s' := by
  unfold Inv; rw [hc, hs, hp, hb]; exact hi

theorem Inv_get {s : State} (hi : Inv s) {id : Sid} {x : Sub} (h : s.get id = some x) :
    SubOk s.cfg s.blocking x ∧ x.id = id := by
  obtain ⟨hm, hid⟩ := getSub_mem h
  exact ⟨hi.2.2 x hm, hid⟩

end C26
