import Libp2pModel.Common.Mss
/-!
# C15 helper lemmas: `unsigned_varint::decode` inverts LEB128 encoding below 2^64
-/
namespace C15
open Mss

theorem or_shift (acc k i : Nat) (h1 : acc < 2 ^ (i * 7)) (h2 : k * 2 ^ (i * 7) < 2 ^ 64) :
    acc ||| ((k <<< (i * 7)) % 2 ^ 64) = acc + k * 2 ^ (i * 7) := by
  rw [Nat.shiftLeft_eq, Nat.mod_eq_of_lt h2, Nat.or_comm, ← Nat.shiftLeft_eq,
    ← Nat.shiftLeft_add_eq_or_of_lt h1, Nat.shiftLeft_eq, Nat.add_comm]

theorem uviAux_encode (m : Nat) : ∀ (i acc : Nat) (rest : Bytes),
    acc < 2 ^ (i * 7) → m * 2 ^ (i * 7) < 2 ^ 64 → (i > 0 → m > 0) →
    uviAux 9 64 i acc (Varint.encode m ++ rest) = .ok (acc + m * 2 ^ (i * 7)) rest := by
  fun_induction Varint.encode m with
  | case1 n h =>
    intro i acc rest h1 h2 h3
    simp only [List.cons_append, List.nil_append, uviAux, h, ↓reduceIte]
    have hm : n % 128 = n := Nat.mod_eq_of_lt h
    rw [hm, or_shift acc n i h1 h2]
    have : ¬ (n = 0 ∧ i > 0) := by
      intro ⟨a, b⟩; have := h3 b; omega
    simp [this]
  | case2 n h ih =>
    intro i acc rest h1 h2 h3
    have hb : ¬ (n % 128 + 128 < 128) := by omega
    have hmod : (n % 128 + 128) % 128 = n % 128 := by omega
    have hpos : 0 < 2 ^ (i * 7) := Nat.two_pow_pos _
    -- i ≤ 8
    have hi : i ≠ 9 := by
      intro h9; subst h9
      have : 128 * 2 ^ (9 * 7) ≤ n * 2 ^ (9 * 7) := Nat.mul_le_mul_right _ (by omega)
      have e : (128 : Nat) * 2 ^ (9 * 7) = 2 ^ 70 := by decide
      have : (2:Nat) ^ 64 < 2 ^ 70 := by decide
      omega
    have hk : (n % 128) * 2 ^ (i * 7) < 2 ^ 64 := by
      have : (n % 128) * 2 ^ (i * 7) ≤ n * 2 ^ (i * 7) := Nat.mul_le_mul_right _ (Nat.mod_le _ _)
      omega
    simp only [List.cons_append, uviAux, hb, ↓reduceIte, hi, hmod]
    rw [or_shift acc (n % 128) i h1 hk]
    have hpow : 2 ^ ((i + 1) * 7) = 2 ^ (i * 7) * 128 := by
      rw [Nat.add_mul, Nat.pow_add]
    have h1' : acc + n % 128 * 2 ^ (i * 7) < 2 ^ ((i + 1) * 7) := by
      rw [hpow]
      have : n % 128 * 2 ^ (i * 7) ≤ 127 * 2 ^ (i * 7) := Nat.mul_le_mul_right _ (by omega)
      omega
    have h2' : n / 128 * 2 ^ ((i + 1) * 7) < 2 ^ 64 := by
      rw [hpow]
      have : n / 128 * (2 ^ (i * 7) * 128) = (n / 128 * 128) * 2 ^ (i * 7) := by
        rw [Nat.mul_comm (2 ^ (i*7)) 128, Nat.mul_assoc]
      rw [this]
      have : (n / 128 * 128) * 2 ^ (i * 7) ≤ n * 2 ^ (i * 7) :=
        Nat.mul_le_mul_right _ (Nat.div_mul_le_self n 128)
      omega
    rw [ih (i + 1) _ rest h1' h2' (by intro _; omega)]
    congr 1
    rw [hpow]
    have : n / 128 * (2 ^ (i * 7) * 128) = (n / 128 * 128) * 2 ^ (i * 7) := by
      rw [Nat.mul_comm (2 ^ (i*7)) 128, Nat.mul_assoc]
    rw [this, Nat.add_assoc, ← Nat.add_mul]
    congr 2
    omega

theorem uviU64_encode (m : Nat) (rest : Bytes) (h : m < 2 ^ 64) :
    uviU64 (Varint.encode m ++ rest) = .ok m rest := by
  have := uviAux_encode m 0 0 rest (by simp) (by simpa using h) (by intro h; omega)
  simpa [uviU64] using this

end C15
