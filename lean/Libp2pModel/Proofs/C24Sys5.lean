import Libp2pModel.Proofs.C24Sys4
/-! preservation, part 4: the emitting events, and the summary `Full X Y → Micro X X' → Full X' Y` -/
namespace C24
open C26
open C25 (Sid Role Frame)

theorem opn_mem_snoc {l : List Frame} {g : Frame} (hg : ∀ id, g ≠ .opn id) {id : Sid}
    (h : Frame.opn id ∈ l ++ [g]) : Frame.opn id ∈ l := by
  rcases List.mem_append.1 h with h1 | h1
  · exact h1
  · simp only [List.mem_singleton] at h1; exact absurd h1.symm (hg id)

theorem full_pendOut {X X' Y : State} (h : Full X Y) (g : Frame) (hn : X'.nextId = X.nextId)
    (hi : inFrames X' = inFrames X) (hp : X.pendQ = g :: X'.pendQ) (he : X'.emitted = X.emitted ++ [g])
    (hent : ∀ id, entOf X' id = entOf X id) : Full X' Y := by
  have hgm : g ∈ X.pendQ := by rw [hp]; exact List.mem_cons_self
  obtain ⟨rid, hgr⟩ := h.xy.k9 g hgm
  have hg : ∀ id, g ≠ .opn id := by intro id e; rw [hgr] at e; cases e
  have hgall : g ∈ chan X Y ++ X.pendQ := List.mem_append.2 (.inr hgm)
  constructor
  · refine dir_emit_nonopen h g hg hn hi he (by intro f hf; rw [hp]; exact List.mem_cons_of_mem _ hf)
      (h.xy.k1 g hgall) (h.xy.k8 g hgall) (fun id hid => (h.xy.k6 id hid).1 g hgall) ?_
    intro j ex' hx
    rw [hent] at hx
    exact ⟨ex', hx, by rw [hgr]; simp [dataOf]⟩
  · refine dir_receiver_keep h.yx (by rw [hn]; exact Nat.le_refl _) hi ?_ ?_
    · intro id hid
      unfold chan at hid ⊢
      rw [he, ← List.append_assoc] at hid
      exact opn_mem_snoc hg hid
    · intro j e' hj; rw [hent] at hj; exact ⟨e', hj, rfl, rfl⟩

theorem full_emitData {X X' Y : State} (h : Full X Y) (i : Sid) (d : List Nat) (e : Ent)
    (hn : X'.nextId = X.nextId) (hi : inFrames X' = inFrames X) (hp : X'.pendQ = X.pendQ)
    (he : X'.emitted = X.emitted ++ [.data i d]) (h0 : entOf X i = some e)
    (h1 : entOf X' i = some { e with acc := e.acc ++ [d] })
    (h2 : ∀ j, j ≠ i → entOf X' j = entOf X j) : Full X' Y := by
  have hg : ∀ id, Frame.data i d ≠ .opn id := by intro id e'; cases e'
  constructor
  · refine dir_emit_nonopen h (.data i d) hg hn hi he (by intro f hf; rw [hp] at hf; exact hf)
      (fun hr => h.xy.k10 i e h0 hr) (fun hr => h.yx.k2 i e h0 hr) ?_ ?_
    · intro id hid e'
      have := h.yx.k7 id hid
      simp only [Frame.id] at e'
      rw [← e', h0] at this; cases this
    · intro j ex' hx
      by_cases hji : j = i
      · subst hji
        rw [h1] at hx
        simp only [Option.some.injEq] at hx; subst hx
        exact ⟨e, h0, by simp [dataOf]⟩
      · rw [h2 j hji] at hx
        have : ¬ (i = j) := fun e' => hji e'.symm
        exact ⟨ex', hx, by simp [dataOf, this]⟩
  · refine dir_receiver_keep h.yx (by rw [hn]; exact Nat.le_refl _) hi ?_ ?_
    · intro id hid
      unfold chan at hid ⊢
      rw [he, ← List.append_assoc] at hid
      exact opn_mem_snoc hg hid
    · intro j e' hj
      by_cases hji : j = i
      · subst hji
        rw [h1] at hj
        simp only [Option.some.injEq] at hj; subst hj
        exact ⟨e, h0, rfl, rfl⟩
      · rw [h2 j hji] at hj; exact ⟨e', hj, rfl, rfl⟩

theorem full_emitClose {X X' Y : State} (h : Full X Y) (i : Sid) (hn : X'.nextId = X.nextId)
    (hi : inFrames X' = inFrames X) (hp : X'.pendQ = X.pendQ) (he : X'.emitted = X.emitted ++ [.close i])
    (h0 : (entOf X i).isSome = true) (hent : ∀ id, entOf X' id = entOf X id) : Full X' Y := by
  have hg : ∀ id, Frame.close i ≠ .opn id := by intro id e'; cases e'
  obtain ⟨e, h0'⟩ := Option.isSome_iff_exists.1 h0
  constructor
  · refine dir_emit_nonopen h (.close i) hg hn hi he (by intro f hf; rw [hp] at hf; exact hf)
      (fun hr => h.xy.k10 i e h0' hr) (fun hr => h.yx.k2 i e h0' hr) ?_ ?_
    · intro id hid e'
      have := h.yx.k7 id hid
      simp only [Frame.id] at e'
      rw [← e', h0'] at this; cases this
    · intro j ex' hx
      rw [hent] at hx
      exact ⟨ex', hx, by simp [dataOf]⟩
  · refine dir_receiver_keep h.yx (by rw [hn]; exact Nat.le_refl _) hi ?_ ?_
    · intro id hid
      unfold chan at hid ⊢
      rw [he, ← List.append_assoc] at hid
      exact opn_mem_snoc hg hid
    · intro j e' hj; rw [hent] at hj; exact ⟨e', hj, rfl, rfl⟩

theorem full_emitOpen {X X' Y : State} (h : Full X Y) (hn : X'.nextId = X.nextId + 1)
    (hi : inFrames X' = inFrames X) (hp : X'.pendQ = X.pendQ)
    (he : X'.emitted = X.emitted ++ [.opn ⟨X.nextId, .dialer⟩])
    (h1 : entOf X' ⟨X.nextId, .dialer⟩ = some ⟨true, [], []⟩)
    (h2 : ∀ j, j ≠ ⟨X.nextId, .dialer⟩ → entOf X' j = entOf X j) : Full X' Y := by
  let i0 : Sid := ⟨X.nextId, .dialer⟩
  have hch : chan X' Y = chan X Y ++ [.opn i0] := by unfold chan; rw [he, List.append_assoc]
  have hch2 : chan Y X' = chan Y X := by unfold chan; rw [hi]
  -- nothing with id `i0` is on the way, `Y` has no entry for it
  have hfresh : ∀ f, f ∈ chan X Y ++ X.pendQ → f.id ≠ i0 := by
    intro f hf e'
    have := h.xy.k1 f hf (by rw [e'])
    rw [e'] at this; exact Nat.lt_irrefl _ this
  have hYnone : entOf Y i0.mirror = none := by
    cases hx : entOf Y i0.mirror with
    | none => rfl
    | some e =>
      have := h.xy.k2 _ e hx rfl
      exact absurd this (Nat.lt_irrefl _)
  have hall : ∀ f, f ∈ chan X' Y ++ X'.pendQ → f ∈ chan X Y ++ X.pendQ ∨ f = .opn i0 := by
    intro f hf
    rw [hch, hp] at hf
    rcases List.mem_append.1 hf with h3 | h3
    · rcases List.mem_append.1 h3 with h4 | h4
      · exact .inl (List.mem_append.2 (.inl h4))
      · exact .inr (by simpa using h4)
    · exact .inl (List.mem_append.2 (.inr h3))
  have hopn : ∀ id, Frame.opn id ∈ chan X' Y → Frame.opn id ∈ chan X Y ∨ id = i0 := by
    intro id hid
    rw [hch] at hid
    rcases List.mem_append.1 hid with h3 | h3
    · exact .inl h3
    · simp only [List.mem_singleton, Frame.opn.injEq] at h3; exact .inr h3
  have hold_ne : ∀ id, Frame.opn id ∈ chan X Y → id ≠ i0 :=
    fun id hid => hfresh (.opn id) (List.mem_append.2 (.inl hid))
  constructor
  · refine { k0 := ?_, k1 := ?_, k2 := ?_, k3 := ?_, k4 := ?_, k5 := ?_, k6 := ?_, k7 := ?_, k8 := ?_, k9 := ?_, k10 := ?_ }
    · intro id hid
      rcases hopn id hid with h3 | h3
      · exact h.xy.k0 id h3
      · rw [h3]
    · intro f hf hr
      rw [hn]
      rcases hall f hf with h3 | h3
      · exact Nat.lt_succ_of_lt (h.xy.k1 f h3 hr)
      · subst h3; exact Nat.lt_succ_self _
    · intro id e he' hr; rw [hn]; exact Nat.lt_succ_of_lt (h.xy.k2 id e he' hr)
    · rw [hch]
      refine OrdOK_snoc _ _ h.xy.k3 ?_
      intro id e' f hf
      simp only [Frame.opn.injEq] at e'
      rw [← e']
      exact hfresh f (List.mem_append.2 (.inl hf))
    · intro id hid e he'
      rw [hch, dataOf_append]
      have hd : dataOf id [Frame.opn i0] = [] := rfl
      rw [hd, List.append_nil]
      rcases hopn id hid with h3 | h3
      · rw [h2 id (hold_ne id h3)] at he'
        exact h.xy.k4 id h3 e he'
      · subst h3
        rw [h1] at he'
        simp only [Option.some.injEq] at he'; subst he'
        exact (dataOf_nil_of i0 _ (fun f hf => hfresh f (List.mem_append.2 (.inl hf)))).symm
    · intro i ex ey hx hy
      rw [hch, dataOf_append]
      have hd : dataOf i [Frame.opn i0] = [] := rfl
      rw [hd, List.append_nil]
      by_cases hir : i = i0
      · subst hir; rw [hYnone] at hy; cases hy
      · rw [h2 i hir] at hx; exact h.xy.k5 i ex ey hx hy
    · intro id hid
      rw [hch2] at hid
      have := h.xy.k6 id hid
      refine ⟨fun f hf => ?_, this.2⟩
      rcases hall f hf with h3 | h3
      · exact this.1 f h3
      · subst h3
        simp only [Frame.id]
        intro e'
        have hr := mirror_role_dialer (h.yx.k0 id hid)
        rw [← e'] at hr; cases hr
    · intro id hid
      rcases hopn id hid with h3 | h3
      · exact h.xy.k7 id h3
      · rw [h3]; exact hYnone
    · intro f hf hr
      rcases hall f hf with h3 | h3
      · exact h.xy.k8 f h3 hr
      · subst h3; simp only [Frame.id] at hr; cases hr
    · intro f hf; rw [hp] at hf; exact h.xy.k9 f hf
    · intro id e he' hr
      rw [hn]
      by_cases hir : id = i0
      · rw [hir]; exact Nat.lt_succ_self _
      · rw [h2 id hir] at he'; exact Nat.lt_succ_of_lt (h.xy.k10 id e he' hr)
  · refine { k0 := ?_, k1 := ?_, k2 := ?_, k3 := ?_, k4 := ?_, k5 := ?_, k6 := ?_, k7 := ?_, k8 := ?_, k9 := h.yx.k9, k10 := h.yx.k10 }
    · intro id hid; rw [hch2] at hid; exact h.yx.k0 id hid
    · intro f hf hr; rw [hch2] at hf; exact h.yx.k1 f hf hr
    · intro id e he' hr
      have hir : id ≠ i0 := by intro e'; rw [e'] at hr; cases hr
      rw [h2 id hir] at he'; exact h.yx.k2 id e he' hr
    · rw [hch2]; exact h.yx.k3
    · intro id hid e he'; rw [hch2] at hid ⊢; exact h.yx.k4 id hid e he'
    · intro i ex ey hx hy
      rw [hch2]
      by_cases hir : i.mirror = i0
      · -- then `Y` would hold the responder-side entry of a substream `X` has not opened yet
        exfalso
        have hi' : i = i0.mirror := by rw [← hir, mirror_mirror]
        have := h.xy.k2 i ex hx (by rw [hi']; rfl)
        rw [hi'] at this
        exact Nat.lt_irrefl _ this
      · rw [h2 _ hir] at hy; exact h.yx.k5 i ex ey hx hy
    · intro id hid
      rw [hch2]
      rcases hopn id hid with h3 | h3
      · have := h.yx.k6 id h3
        refine ⟨this.1, fun e he' => ?_⟩
        rw [h2 id (hold_ne id h3)] at he'; exact this.2 e he'
      · subst h3
        refine ⟨fun f hf e' => ?_, fun e he' => ?_⟩
        · have := h.yx.k8 f hf (by rw [e']; rfl)
          rw [e'] at this
          exact Nat.lt_irrefl _ this
        · rw [h1] at he'
          simp only [Option.some.injEq] at he'; subst he'; rfl
    · intro id hid
      rw [hch2] at hid
      have hr := mirror_role_dialer (h.yx.k0 id hid)
      have hir : id.mirror ≠ i0 := by intro e'; rw [e'] at hr; cases hr
      rw [h2 _ hir]; exact h.yx.k7 id hid
    · intro f hf hr
      rw [hch2] at hf; rw [hn]
      exact Nat.lt_succ_of_lt (h.yx.k8 f hf hr)

/-- **Every atomic event of one endpoint preserves the two-directional invariant.** -/
theorem full_micro {X X' Y : State} (h : Full X Y) (m : Micro X X') : Full X' Y := by
  cases m with
  | silent hc hn hi hp he hent => exact full_silent h hn hi hp he hent
  | fail hc hn hi hp he hent => exact full_fail h hn hi hp he hent
  | pendOut f hc hn hi hp he hent => exact full_pendOut h f hn hi hp he hent
  | openAccept rid hc hn hi hp he h0 h1 h2 => exact full_openAccept h rid hn hi hp he h0 h1 h2
  | openRefuse rid hc hn hi hp he h0 hent => exact full_openRefuse h rid hn hi hp he hent
  | dataAccept rid d e hc hn hi hp he h0 hro h1 h2 => exact full_dataAccept h rid d e hn hi hp he h0 hro h1 h2
  | dataDrop rid d hc hn hi hp he h0 hent => exact full_dataDrop h rid d hn hi hp he h0 hent
  | closeReset f rid hf hc hn hi hp he h1 h2 => exact full_closeReset h f rid hf hn hi hp he h1 h2
  | emitOpen hc hn hi hp he h1 h2 => exact full_emitOpen h hn hi hp he h1 h2
  | emitData id d e hc hn hi hp he h0 h1 h2 => exact full_emitData h id d e hn hi hp he h0 h1 h2
  | emitClose id hc hn hi hp he h0 hent => exact full_emitClose h id hn hi hp he h0 hent

theorem full_steps {X X' Y : State} (h : Full X Y) (m : Steps X X') : Full X' Y := by
  induction m with
  | refl => exact h
  | cons hm _ ih => exact ih (full_micro h hm)

end C24
