import Libp2pModel.Proofs.C39_DTerm
/-!
# C39 — disjoint iterator: `Finished` means every path is finished; progress when nothing is in flight
-/
namespace C39.Disjoint
open C39 (Out Cfg Inv)

theorem next_finished_state {it : C39.Iter} (h : Inv it) (now : Nat) (hout : (C39.next it now).2 = .finished) :
    (C39.next it now).1.state = .finished := by
  by_cases hf : it.state = .finished
  · rw [C39.next_finished hf]; exact hf
  · rcases C39.next_out_state h hf now with ⟨_, h2⟩ | ⟨h1, _⟩
    · exact h2
    · exact absurd hout h1

/-- the inner loop leaves the accumulator at `None` only by finding the path finished -/
theorem innerLoop_brk_none (now : Nat) (ct : List (Nat × Nat × Resp)) :
    ∀ (fuel : Nat) (it : C39.Iter) (acc : Acc), Inv it →
      (innerLoop now ct fuel it acc).2 = .brk .none →
      acc = .none ∧ (innerLoop now ct fuel it acc).1.state = .finished := by
  intro fuel
  induction fuel with
  | zero => intro it acc _ hb; simp [innerLoop] at hb
  | succ fuel ih =>
    intro it acc h hb
    have h' := h.next now
    simp only [innerLoop] at hb ⊢
    rcases C39.next_out_kind h now with ⟨p, hout⟩ | hout | hout
    · cases p with
      | none =>
        rw [hout] at hb; simp only at hb
        cases acc <;> simp at hb
      | some p =>
        rw [hout] at hb ⊢
        simp only at hb ⊢
        cases hc : cfind ct p with
        | none => rw [hc] at hb; simp at hb
        | some v =>
          obtain ⟨by_, resp⟩ := v
          rw [hc] at hb
          cases resp with
          | waiting => exact ih _ acc h' hb
          | succeeded =>
            have hs := h'.onSuccess p []
            simp only [hs.2, if_false] at hb ⊢
            exact ih _ acc hs.1 hb
          | failed =>
            have hs := h'.onFailure p
            simp only [hs.2, if_false] at hb ⊢
            exact ih _ acc hs.1 hb
    · rw [hout] at hb; simp only at hb
      cases acc <;> simp at hb
    · rw [hout] at hb ⊢
      simp only at hb ⊢
      simp only [InnerRes.brk.injEq] at hb
      exact ⟨hb, next_finished_state h now hout⟩

theorem mod_succ_add (pos k len : Nat) : ((pos + 1) % len + k) % len = (pos + (k + 1)) % len := by
  rw [Nat.add_mod, Nat.mod_mod, ← Nat.add_mod]
  congr 1; omega

/-- if the outer loop ends with `Finished`, it started with `state = None` and every path it
looked at is finished afterwards -/
theorem outer_out_finished {cfg : Cfg} (now : Nat) : ∀ (rounds : Nat) (d : DIter) (acc : Acc), DInv cfg d →
    (outer now rounds d acc).2 = .finished →
    acc = .none ∧ ∀ k, k < rounds → ∃ it', (outer now rounds d acc).1.iters[(d.pos + k) % d.iters.length]? = some it' ∧
      it'.state = .finished := by
  intro rounds
  induction rounds with
  | zero =>
    intro d acc _ hout
    simp only [outer] at hout
    refine ⟨by cases acc <;> simp at hout <;> rfl, fun k hk => by omega⟩
  | succ r ih =>
    intro d acc h hout
    simp only [outer] at hout ⊢
    have hpos := h.pos
    have hget : d.iters[d.pos]? = some d.iters[d.pos] := List.getElem?_eq_getElem hpos
    rw [hget] at hout ⊢
    simp only at hout ⊢
    have hit := h.paths d.iters[d.pos] (List.getElem_mem hpos)
    have hfuel : C39.countNC d.iters[d.pos].closest < d.iters[d.pos].closest.length + 2 := by
      have := countNC_le_length d.iters[d.pos].closest; omega
    obtain ⟨a, b, c⟩ := innerLoop_ok now d.contacted (d.iters[d.pos].closest.length + 2) d.iters[d.pos] acc
      hit.1 hfuel
    have hd2 : DInv cfg (⟨d.iters.set d.pos
        (innerLoop now d.contacted (d.iters[d.pos].closest.length + 2) d.iters[d.pos] acc).1,
        (d.pos + 1) % d.iters.length, d.contacted⟩ : DIter) := by
      refine ⟨?_, ?_, ?_⟩
      · intro it hmem
        rcases mem_set hmem with rfl | hm
        · exact ⟨a, b.trans hit.2⟩
        · exact h.paths it hm
      · simp only [List.length_set]
        exact Nat.mod_lt _ (by omega)
      · simp only [List.length_set]; exact h.by_ok
    cases hres : (innerLoop now d.contacted (d.iters[d.pos].closest.length + 2) d.iters[d.pos] acc).2 with
    | brk acc' =>
      rw [hres] at hout
      simp only at hout ⊢
      obtain ⟨hacc', hall⟩ := ih _ acc' hd2 hout
      subst hacc'
      obtain ⟨hacc, hfin⟩ := innerLoop_brk_none now d.contacted _ _ acc hit.1 hres
      refine ⟨hacc, fun k hk => ?_⟩
      simp only [List.length_set] at hall
      cases k with
      | zero =>
        -- the path visited in this round: finished, and untouched by the remaining rounds
        have hm : (⟨d.iters.set d.pos
            (innerLoop now d.contacted (d.iters[d.pos].closest.length + 2) d.iters[d.pos] acc).1,
            (d.pos + 1) % d.iters.length, d.contacted⟩ : DIter).iters[d.pos]? =
            some (innerLoop now d.contacted (d.iters[d.pos].closest.length + 2) d.iters[d.pos] acc).1 := by
          simp [List.getElem?_set, hpos]
        obtain ⟨it', h1, h2⟩ := outer_rel (cfg := cfg) FinRel FinRel.refl FinRel.trans now
          (fun ct fuel it acc hinv hlt => innerLoop_finrel now ct fuel it acc hinv hlt)
          r _ .none hd2 d.pos _ hm
        have hz0 : (d.pos + 0) % d.iters.length = d.pos := by rw [Nat.add_zero, Nat.mod_eq_of_lt hpos]
        rw [hz0]
        exact ⟨it', h1, by rw [h2.1 hfin]; exact hfin⟩
      | succ k =>
        obtain ⟨it', h1, h2⟩ := hall k (by omega)
        rw [mod_succ_add] at h1
        exact ⟨it', h1, h2⟩
    | ret p => rw [hres] at hout; simp at hout
    | panic => rw [hres] at hout; simp at hout

/-- **When `next` answers `Finished`, every path is finished** (so `is_finished()` holds). -/
theorem next_finished_all {cfg : Cfg} {d : DIter} (h : DInv cfg d) (now : Nat)
    (hout : (next d now).2 = .finished) : isFinished (next d now).1 = true := by
  obtain ⟨_, hall⟩ := outer_out_finished (cfg := cfg) now d.iters.length d .none h hout
  have hlen : (next d now).1.iters.length = d.iters.length := length_step d (.next now)
  simp only [isFinished, List.all_eq_true, C39.isFinished, decide_eq_true_eq]
  intro it hmem
  obtain ⟨i, hi⟩ := getElem?_of_mem hmem
  have hlt : i < d.iters.length := by rw [← hlen]; exact (List.getElem?_eq_some_iff.1 hi).1
  have hpos := h.pos
  obtain ⟨it', h1, h2⟩ := hall ((i + d.iters.length - d.pos) % d.iters.length) (Nat.mod_lt _ (by omega))
  have hidx : (d.pos + (i + d.iters.length - d.pos) % d.iters.length) % d.iters.length = i := by
    rw [Nat.add_mod, Nat.mod_mod, ← Nat.add_mod]
    have : d.pos + (i + d.iters.length - d.pos) = i + d.iters.length := by omega
    rw [this, Nat.add_mod_right, Nat.mod_eq_of_lt hlt]
  rw [hidx] at h1
  have : (next d now).1.iters[i]? = some it' := h1
  rw [hi] at this; cases this
  exact h2

/-! ## progress -/

/-- every contacted peer has been answered (or has failed) -/
def Resolved (ct : List (Nat × Nat × Resp)) : Prop := ∀ q v, cfind ct q = some v → v.2 ≠ .waiting

theorem innerLoop_progress (now : Nat) (ct : List (Nat × Nat × Resp)) (hres : Resolved ct) :
    ∀ (fuel : Nat) (it : C39.Iter) (acc : Acc), Inv it → (it.state = .finished ∨ it.numWaiting = 0) →
      C39.countNC it.closest < fuel →
      (∃ p, (innerLoop now ct fuel it acc).2 = .ret p) ∨
      ((innerLoop now ct fuel it acc).2 = .brk acc ∧ (innerLoop now ct fuel it acc).1.state = .finished) := by
  intro fuel
  induction fuel with
  | zero => intro it acc _ _ hlt; omega
  | succ fuel ih =>
    intro it acc h hz hlt
    by_cases hf : it.state = .finished
    · right; rw [innerLoop_finished now ct fuel it acc hf]; exact ⟨rfl, hf⟩
    · have hz : it.numWaiting = 0 := by
        rcases hz with hz | hz
        · exact absurd hz hf
        · exact hz
      have h' := h.next now
      simp only [innerLoop]
      rcases C39.next_progress h hf hz now with hout | ⟨p, hout⟩
      · right
        rw [hout]
        exact ⟨rfl, next_finished_state h now hout⟩
      · rw [hout]
        simp only
        have hnc := C39.next_issue_countNC h now p hout
        have hst : (C39.next it now).1.state = it.state := by
          rcases C39.next_out_state h hf now with ⟨h1, _⟩ | ⟨_, h2⟩
          · rw [hout] at h1; simp at h1
          · exact h2
        have hf' : (C39.next it now).1.state ≠ .finished := by rw [hst]; exact hf
        -- the issued peer is the only `Waiting` one
        have hres' := (C39.next_out_res hf now p).2 hout
        have hmem := (C39.nextLoop_issue_mem _ _ _ _ _ _ p hres').2
        have hfind : C39.find (C39.next it now).1.closest p =
            some (.waiting (now + it.cfg.peerTimeout)) := by
          rw [(C39.next_fields hf now).1]
          exact C39.find_of_mem (by have := h'.sorted; rwa [(C39.next_fields hf now).1] at this) hmem
        have hone : (C39.next it now).1.numWaiting = 1 := by
          have hc := (C39.nextLoop_counts it.cfg now (C39.atCapacity it) it.closest it.numWaiting (some 0)).2.1
          rw [hres'] at hc
          have hw0 : C39.countW it.closest = 0 := by rw [← h.nw_eq]; exact hz
          have hpos := C39.find_waiting_count hfind
          have := h'.nw_eq
          rw [(C39.next_fields hf now).1] at this hpos
          simp only [C39.issue] at hc
          omega
        cases hc : cfind ct p with
        | none => exact Or.inl ⟨p, rfl⟩
        | some v =>
          obtain ⟨by_, resp⟩ := v
          cases resp with
          | waiting => exact absurd rfl (hres p _ hc)
          | succeeded =>
            have hs := h'.onSuccess p []
            simp only [hs.2, if_false]
            have hnw : (C39.onSuccess (C39.next it now).1 p []).1.numWaiting = 0 := by
              simp only [C39.onSuccess, hf', if_false, hfind, hone]
              simp [C39.succeed]
            exact ih _ acc hs.1 (Or.inr hnw) (by rw [C39.onSuccess_nil_countNC h' p]; omega)
          | failed =>
            have hs := h'.onFailure p
            simp only [hs.2, if_false]
            have hnw : (C39.onFailure (C39.next it now).1 p).1.numWaiting = 0 := by
              simp [C39.onFailure, hf', hfind, hone]
            exact ih _ acc hs.1 (Or.inr hnw) (by rw [C39.onFailure_countNC h' p]; omega)

theorem outer_progress {cfg : Cfg} (now : Nat) : ∀ (rounds : Nat) (d : DIter), DInv cfg d →
    (∀ it ∈ d.iters, it.state = .finished ∨ it.numWaiting = 0) → Resolved d.contacted →
    (outer now rounds d .none).2 = .finished ∨ ∃ p, (outer now rounds d .none).2 = .waiting (some p) := by
  intro rounds
  induction rounds with
  | zero => intro d _ _ _; left; rfl
  | succ r ih =>
    intro d h hz hres
    simp only [outer]
    have hpos := h.pos
    have hget : d.iters[d.pos]? = some d.iters[d.pos] := List.getElem?_eq_getElem hpos
    rw [hget]
    simp only
    have hit := h.paths d.iters[d.pos] (List.getElem_mem hpos)
    have hfuel : C39.countNC d.iters[d.pos].closest < d.iters[d.pos].closest.length + 2 := by
      have := countNC_le_length d.iters[d.pos].closest; omega
    obtain ⟨a, b, c⟩ := innerLoop_ok now d.contacted (d.iters[d.pos].closest.length + 2) d.iters[d.pos] .none
      hit.1 hfuel
    rcases innerLoop_progress now d.contacted hres _ d.iters[d.pos] .none hit.1
      (hz _ (List.getElem_mem hpos)) hfuel with ⟨p, hp⟩ | ⟨hb, hfin⟩
    · rw [hp]; exact Or.inr ⟨p, rfl⟩
    · rw [hb]
      simp only
      apply ih
      · refine ⟨?_, ?_, ?_⟩
        · intro it hmem
          rcases mem_set hmem with rfl | hm
          · exact ⟨a, b.trans hit.2⟩
          · exact h.paths it hm
        · simp only [List.length_set]
          exact Nat.mod_lt _ (by omega)
        · simp only [List.length_set]; exact h.by_ok
      · intro it hmem
        rcases mem_set hmem with rfl | hm
        · exact Or.inl hfin
        · exact hz it hm
      · exact hres

/-- **Progress**: when every contacted peer has been answered or has failed and no unfinished path
is waiting for anything, `next` hands out a new peer or finishes. -/
theorem next_progress_d {cfg : Cfg} {d : DIter} (h : DInv cfg d) (now : Nat)
    (hz : ∀ it ∈ d.iters, it.state = .finished ∨ it.numWaiting = 0) (hres : Resolved d.contacted) :
    (next d now).2 = .finished ∨ ∃ p, (next d now).2 = .waiting (some p) :=
  outer_progress now d.iters.length d h hz hres

end C39.Disjoint
