import Libp2pModel.Model.C19_Key
/-!
# C19 — proofs about the key-file model
-/
namespace C19

/-! ## the repaired loop never panics; the repair changes nothing else -/

theorem hexLoop_fixed_ne_panic (s : Bytes) : ∀ n i, hexLoop false s i n ≠ .panic := by
  intro n
  induction n with
  | zero => intro i; simp [hexLoop]
  | succ n ih =>
    intro i
    have h := ih (i + 1)
    unfold hexLoop
    cases hs : sliceIdx s (i * 2) (i * 2 + 2) with
    | none =>
      simp only [Bool.false_eq_true, ↓reduceIte]
      cases hf : fromStrRadix16 REPL with
      | error e => simp
      | ok v =>
        simp only
        cases hb : hexLoop false s (i + 1) n with
        | panic => exact absurd hb h
        | err e => simp
        | ok r => simp
    | some pair =>
      simp only
      cases hf : fromStrRadix16 pair with
      | error e => simp
      | ok v =>
        simp only
        cases hb : hexLoop false s (i + 1) n with
        | panic => exact absurd hb h
        | err e => simp
        | ok r => simp

theorem hexLoop_conservative (s : Bytes) :
    ∀ n i, hexLoop true s i n ≠ .panic → hexLoop true s i n = hexLoop false s i n := by
  intro n
  induction n with
  | zero => intro i _; simp [hexLoop]
  | succ n ih =>
    intro i
    have h := ih (i + 1)
    unfold hexLoop
    cases hs : sliceIdx s (i * 2) (i * 2 + 2) with
    | none => simp
    | some pair =>
      simp only
      cases hf : fromStrRadix16 pair with
      | error e => simp
      | ok v =>
        simp only
        cases hb : hexLoop true s (i + 1) n with
        | panic => simp
        | err e => rw [← h (by simp [hb])]; simp [hb]
        | ok r => rw [← h (by simp [hb])]; simp [hb]

theorem parseHexKey_fixed_ne_panic (s : Bytes) : parseHexKey false s ≠ .panic := by
  unfold parseHexKey
  split
  · cases h : hexLoop false s 0 KEY_SIZE with
    | panic => exact absurd h (hexLoop_fixed_ne_panic s _ _)
    | ok r => simp
    | err e => simp
  · simp

theorem parseKey_fixed_ne_panic (s : Bytes) : parseKey false s ≠ .panic := by
  unfold parseKey
  split
  · split
    · simp
    · split
      · simp
      · exact parseHexKey_fixed_ne_panic _
  · simp

theorem parseHexKey_conservative (s : Bytes) (h : parseHexKey true s ≠ .panic) :
    parseHexKey true s = parseHexKey false s := by
  unfold parseHexKey at *
  split
  · rename_i hl
    simp only [hl, ↓reduceIte] at h
    have : hexLoop true s 0 KEY_SIZE ≠ .panic := by
      intro hp; rw [hp] at h; exact h rfl
    rw [hexLoop_conservative s _ _ this]
  · rfl

theorem parseKey_conservative (s : Bytes) (h : parseKey true s ≠ .panic) :
    parseKey true s = parseKey false s := by
  unfold parseKey at *
  split
  · rename_i kt enc key hl
    simp only [hl] at h
    split
    · rfl
    · split
      · rfl
      · rename_i h1 h2
        simp only [h1, h2, ↓reduceIte] at h
        exact parseHexKey_conservative _ h
  · rfl

/-! ## round trip -/

theorem hexOf_length (k : Bytes) : (hexOf k).length = 2 * k.length := by
  induction k with
  | nil => rfl
  | cons b r ih => simp [hexOf, ih]; omega

theorem hexOf_append (a b : Bytes) : hexOf (a ++ b) = hexOf a ++ hexOf b := by
  induction a with
  | nil => rfl
  | cons x r ih => simp [hexOf, ih]

/-- hex digit characters are `0-9a-f` -/
theorem hexDig_range (d : Nat) (h : d < 16) : 48 ≤ hexDig d ∧ hexDig d ≤ 102 := by
  unfold hexDig; split <;> omega

theorem hexOf_range (k : Bytes) (hk : ∀ b ∈ k, b < 256) : ∀ c ∈ hexOf k, 48 ≤ c ∧ c ≤ 102 := by
  induction k with
  | nil => intro c hc; simp [hexOf] at hc
  | cons b r ih =>
    intro c hc
    have hb : b < 256 := hk b (by simp)
    simp only [hexOf, List.mem_cons] at hc
    rcases hc with rfl | rfl | hc
    · exact hexDig_range _ (by omega)
    · exact hexDig_range _ (by omega)
    · exact ih (fun x hx => hk x (by simp [hx])) c hc

theorem linesAux_line (h : Bytes) (hn : ∀ b ∈ h, b ≠ 10) (rest cur : Bytes) :
    linesAux (h ++ 10 :: rest) cur = stripCR (cur ++ h) :: linesAux rest [] := by
  induction h generalizing cur with
  | nil => simp [linesAux]
  | cons b r ih =>
    have hb : b ≠ 10 := hn b (by simp)
    simp only [List.cons_append, linesAux, hb, ↓reduceIte]
    rw [ih (fun x hx => hn x (by simp [hx]))]
    simp

theorem stripCR_id (l : Bytes) (h : ∀ b ∈ l, b ≠ 13) : stripCR l = l := by
  unfold stripCR
  split
  · rename_i hl
    exact absurd rfl (h 13 (List.mem_of_getLast? hl))
  · rfl

theorem trimRev_head (f : Nat) (b : Nat) (rest : Bytes) (hb : b < 128) (hw : isAsciiWs b = false) :
    trimRev f (b :: rest) = b :: rest := by
  cases f with
  | zero => rfl
  | succ f => simp [trimRev, wsLen, hb, hw]

theorem trimEnd_id (l : Bytes) (h : ∀ b ∈ l, 48 ≤ b ∧ b ≤ 102) : trimEnd l = l := by
  unfold trimEnd
  cases hr : l.reverse with
  | nil =>
    have : l = [] := by simpa using hr
    subst this; rfl
  | cons b rest =>
    have hb : b ∈ l := by
      have : b ∈ l.reverse := by rw [hr]; simp
      simpa using this
    have ⟨h1, h2⟩ := h b hb
    rw [trimRev_head _ b rest (by omega) (by simp [isAsciiWs]; omega)]
    rw [← hr]; simp

theorem isBoundary_ascii (s : Bytes) (h : ∀ b ∈ s, b < 128) (i : Nat) (hi : i ≤ s.length) :
    isBoundary s i = true := by
  unfold isBoundary
  by_cases h0 : i = 0
  · simp [h0]
  · by_cases hl : i = s.length
    · simp [hl]
    · have hlt : i < s.length := by omega
      have : s[i]? = some s[i] := List.getElem?_eq_getElem hlt
      rw [this]
      have := h s[i] (List.getElem_mem hlt)
      simp [this]

theorem toDigit16_hexDig : ∀ d : Fin 16, toDigit16 (hexDig d.val) = some d.val ∧ hexDig d.val ≠ 43 := by
  decide +kernel

theorem fromStrRadix16_hex (hi lo : Fin 16) :
    fromStrRadix16 [hexDig hi.val, hexDig lo.val] = .ok (hi.val * 16 + lo.val) := by
  have ⟨h1, h1'⟩ := toDigit16_hexDig hi
  have ⟨h2, _⟩ := toDigit16_hexDig lo
  have hhi := hi.isLt
  have hlo := lo.isLt
  unfold fromStrRadix16
  split
  · simp_all
  · simp_all
  · simp_all
  · rename_i heq; simp only [List.cons.injEq] at heq; omega
  · simp only [digitsLoop, h1, h2, Nat.zero_mul, Nat.zero_add]
    have a : ¬ (hi.val > 255) := by omega
    have b : ¬ (hi.val * 16 + lo.val > 255) := by omega
    simp [a, b]

theorem hexLoop_hexOf (buggy : Bool) : ∀ (rest pre : Bytes), (∀ b ∈ pre ++ rest, b < 256) →
    hexLoop buggy (hexOf (pre ++ rest)) pre.length rest.length = .ok rest := by
  intro rest
  induction rest with
  | nil => intro pre _; simp [hexLoop]
  | cons b r ih =>
    intro pre hk
    have hb : b < 256 := hk b (by simp)
    have hrange := hexOf_range _ hk
    have hascii : ∀ c ∈ hexOf (pre ++ b :: r), c < 128 := fun c hc => by have := hrange c hc; omega
    have hlen : (hexOf (pre ++ b :: r)).length = 2 * (pre.length + (r.length + 1)) := by
      rw [hexOf_length]; simp
    have hslice : sliceIdx (hexOf (pre ++ b :: r)) (pre.length * 2) (pre.length * 2 + 2)
        = some [hexDig (b / 16), hexDig (b % 16)] := by
      unfold sliceIdx
      rw [isBoundary_ascii _ hascii _ (by omega), isBoundary_ascii _ hascii _ (by omega)]
      simp only [Nat.le_add_right, and_self, ↓reduceIte, Option.some.injEq]
      rw [hexOf_append]
      have : pre.length * 2 = (hexOf pre).length := by rw [hexOf_length]; omega
      rw [this, List.drop_left]
      simp [hexOf]
    have hv := fromStrRadix16_hex ⟨b / 16, by omega⟩ ⟨b % 16, by omega⟩
    simp only at hv
    have ih' := ih (pre ++ [b]) (by simpa using hk)
    simp only [List.append_assoc, List.singleton_append, List.length_append, List.length_cons,
      List.length_nil, Nat.zero_add] at ih'
    simp only [List.length_cons, hexLoop, hslice, hv, ih']
    congr 2
    omega

theorem parseHexKey_hexOf (buggy : Bool) (k : Bytes) (hl : k.length = 32) (hk : ∀ b ∈ k, b < 256) :
    parseHexKey buggy (hexOf k) = .ok k := by
  unfold parseHexKey
  have := hexLoop_hexOf buggy k [] (by simpa using hk)
  simp only [List.nil_append, List.length_nil, hl] at this
  simp [hexOf_length, hl, KEY_SIZE, this]

theorem lines_format (k : Bytes) (hk : ∀ b ∈ k, b < 256) :
    lines (format k) = [KEYTYPE, ENCODING, hexOf k] := by
  have hr := hexOf_range k hk
  unfold lines format
  simp only [List.append_assoc, List.singleton_append]
  rw [linesAux_line KEYTYPE (by decide), linesAux_line ENCODING (by decide),
    linesAux_line (hexOf k) (fun b hb => by have := hr b hb; omega)]
  simp only [List.nil_append, linesAux, List.isEmpty_nil, ↓reduceIte]
  rw [stripCR_id (hexOf k) (fun b hb => by have := hr b hb; omega)]
  have h1 : stripCR KEYTYPE = KEYTYPE := by decide
  have h2 : stripCR ENCODING = ENCODING := by decide
  rw [h1, h2]

theorem parseKey_format (buggy : Bool) (k : Bytes) (hl : k.length = 32) (hk : ∀ b ∈ k, b < 256) :
    parseKey buggy (format k) = .ok k := by
  unfold parseKey
  rw [lines_format k hk]
  simp only [List.take_succ_cons, List.take_zero, ne_eq, not_true_eq_false, ↓reduceIte]
  rw [trimEnd_id _ (hexOf_range k hk)]
  exact parseHexKey_hexOf buggy k hl hk

/-- the old loop was safe on pure-ASCII strings of sufficient length -/
theorem hexLoop_buggy_ascii (s : Bytes) (h : ∀ b ∈ s, b < 128) :
    ∀ n i, i * 2 + n * 2 ≤ s.length → hexLoop true s i n ≠ .panic := by
  intro n
  induction n with
  | zero => intro i _; simp [hexLoop]
  | succ n ih =>
    intro i hi
    have hn := ih (i + 1) (by omega)
    unfold hexLoop
    have hs : sliceIdx s (i * 2) (i * 2 + 2) = some ((s.drop (i * 2)).take 2) := by
      unfold sliceIdx
      rw [isBoundary_ascii s h _ (by omega), isBoundary_ascii s h _ (by omega)]
      simp
    rw [hs]
    simp only
    cases hf : fromStrRadix16 ((s.drop (i * 2)).take 2) with
    | error e => simp
    | ok v =>
      simp only
      cases hb : hexLoop true s (i + 1) n with
      | panic => exact absurd hb hn
      | err e => simp
      | ok r => simp

theorem parseHexKey_buggy_ascii (s : Bytes) (h : ∀ b ∈ s, b < 128) : parseHexKey true s ≠ .panic := by
  unfold parseHexKey
  split
  · rename_i hl
    cases hb : hexLoop true s 0 KEY_SIZE with
    | panic => exact absurd hb (hexLoop_buggy_ascii s h _ _ (by simp [KEY_SIZE] at hl ⊢; omega))
    | ok r => simp
    | err e => simp
  · simp

end C19
