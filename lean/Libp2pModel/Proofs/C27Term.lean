import Libp2pModel.Proofs.C27Inv
/-!
# C27 — termination measure and the Spec-accepts-model link
-/
namespace C27

/-! ## termination measure -/

/-- potential of the nodes that have not seen the message yet -/
def pot (f : Node → Nat) (seen : List Node) : List Node → Nat
  | [] => 0
  | a :: l => (if a ∈ seen then 0 else f a) + pot f seen l

theorem pot_mono (f : Node → Nat) (seen : List Node) (v : Node) (l : List Node) :
    pot f (v :: seen) l ≤ pot f seen l := by
  induction l with
  | nil => simp [pot]
  | cons a l ih =>
    simp only [pot]
    by_cases h1 : a ∈ seen
    · have h2 : a ∈ v :: seen := List.mem_cons_of_mem _ h1
      simp only [h1, h2, if_true]; omega
    · by_cases h2 : a ∈ v :: seen
      · simp only [h1, h2, if_true, if_false]; omega
      · simp only [h1, h2, if_false]; omega

theorem pot_drop (f : Node → Nat) (seen : List Node) (v : Node) (l : List Node)
    (hv : v ∈ l) (hn : v ∉ seen) : pot f (v :: seen) l + f v ≤ pot f seen l := by
  induction l with
  | nil => cases hv
  | cons a l ih =>
    simp only [pot]
    by_cases hav : a = v
    · subst hav
      have h2 : a ∈ a :: seen := List.mem_cons_self
      have := pot_mono f seen a l
      simp only [hn, h2, if_true, if_false]; omega
    · have hv' : v ∈ l := by
        rcases List.mem_cons.1 hv with h | h
        · exact absurd h.symm hav
        · exact h
      have := ih hv'
      by_cases h1 : a ∈ seen
      · have h2 : a ∈ v :: seen := List.mem_cons_of_mem _ h1
        simp only [h1, h2, if_true]; omega
      · have h2 : a ∉ v :: seen := by
          intro h; rcases List.mem_cons.1 h with h | h
          · exact hav h
          · exact h1 h
        simp only [h1, h2, if_false]; omega

/-- the network is closed: the publisher's recipients and every forwarding target are nodes -/
def WF (cfg : Cfg) : Prop :=
  (∀ b ∈ cfg.recips, b ∈ cfg.nodes) ∧ ∀ a, ∀ b ∈ cfg.fwd a, b ∈ cfg.nodes

/-- potential of the messages awaiting a verdict -/
def heldPot (f : Node → Nat) : HeldT → Nat
  | [] => 0
  | h :: l => f h.1 + heldPot f l

theorem heldPot_noteDup (f : Node → Nat) (held : HeldT) (v u : Node) :
    heldPot f (noteDup held v u) = heldPot f held := by
  induction held with
  | nil => rfl
  | cons h l ih =>
    simp only [noteDup, List.map_cons, heldPot] at ih ⊢
    rw [ih]
    split <;> rfl

theorem heldPot_filter_le (f : Node → Nat) (held : HeldT) (v : Node) :
    heldPot f (held.filter fun h => h.1 != v) ≤ heldPot f held := by
  induction held with
  | nil => simp [heldPot]
  | cons h l ih =>
    simp only [List.filter_cons]
    split <;> simp only [heldPot] <;> omega

theorem heldPot_drop (f : Node → Nat) (held : HeldT) (v : Node) (x : Node × List Node)
    (hm : (v, x) ∈ held) :
    heldPot f (held.filter fun h => h.1 != v) + f v ≤ heldPot f held := by
  induction held with
  | nil => cases hm
  | cons h l ih =>
    simp only [List.filter_cons]
    by_cases hk : h.1 = v
    · have hb : (h.1 != v) = false := by simpa using hk
      have := heldPot_filter_le f l v
      simp only [hb, Bool.false_eq_true, if_false, heldPot]
      rw [hk]
      omega
    · have hb : (h.1 != v) = true := by simpa using hk
      have hm' : (v, x) ∈ l := by
        rcases List.mem_cons.1 hm with e | hm
        · exact absurd (by rw [← e]) hk
        · exact hm
      have := ih hm'
      simp only [hb, heldPot, if_true]
      omega

/-- copies in flight + (forwarding degree + 1) of every node that has not seen the message or
holds it for validation -/
def mu (cfg : Cfg) (s : State) : Nat :=
  s.flight.length + pot (fun a => (cfg.fwd a).length + 1) s.seen cfg.nodes
    + heldPot (fun a => (cfg.fwd a).length + 1) s.held

theorem Inv.flight_node {cfg : Cfg} {s : State} (h : Inv cfg s) (hw : WF cfg) {a b : Node}
    (hab : (a, b) ∈ s.flight) : b ∈ cfg.nodes := by
  rcases h.sent_src a b (h.flight_sent _ hab) with ⟨_, hb⟩ | ⟨u, _, hb⟩
  · exact hw.1 b hb
  · exact hw.2 a b (mem_recipients.1 hb).1

/-- an output that consumed a copy in flight or a pending verdict -/
def Out.effective : Out → Bool
  | .noflight => false
  | .noheld => false
  | _ => true

/-- every effective step strictly decreases the measure -/
theorem mu_decreases {cfg : Cfg} {s : State} (hw : WF cfg) (hi : Inv cfg s) (op : Op)
    (he : (step cfg s op).2.effective = true) : mu cfg (step cfg s op).1 < mu cfg s := by
  cases op with
  | recv u v =>
    simp only [step] at he ⊢
    rcases recv_cases cfg s u v with ⟨_, e⟩ | ⟨hf, _, e⟩ | ⟨hf, _, _, e⟩ | ⟨hf, _, hns, _, e⟩ |
      ⟨hf, _, hns, e⟩
    · rw [e] at he; simp [Out.effective] at he
    · rw [e]; simp only [mu]
      have := List.length_erase_of_mem hf
      have := List.length_pos_of_mem hf
      omega
    · rw [e]; simp only [mu, heldPot_noteDup]
      have := List.length_erase_of_mem hf
      have := List.length_pos_of_mem hf
      omega
    · rw [e]; simp only [mu, heldPot]
      have h1 := List.length_erase_of_mem hf
      have h2 := List.length_pos_of_mem hf
      have h4 : pot (fun a => (cfg.fwd a).length + 1) (v :: s.seen) cfg.nodes
          + ((cfg.fwd v).length + 1) ≤ pot (fun a => (cfg.fwd a).length + 1) s.seen cfg.nodes :=
        pot_drop (fun a => (cfg.fwd a).length + 1) s.seen v cfg.nodes (hi.flight_node hw hf) hns
      omega
    · rw [e]; simp only [mu, List.length_append, List.length_map]
      have h1 := List.length_erase_of_mem hf
      have h2 := List.length_pos_of_mem hf
      have h3 := recipients_length_le cfg v u
      have h4 : pot (fun a => (cfg.fwd a).length + 1) (v :: s.seen) cfg.nodes
          + ((cfg.fwd v).length + 1) ≤ pot (fun a => (cfg.fwd a).length + 1) s.seen cfg.nodes :=
        pot_drop (fun a => (cfg.fwd a).length + 1) s.seen v cfg.nodes (hi.flight_node hw hf) hns
      omega
  | verdict v a =>
    simp only [step] at he ⊢
    rcases verdict_cases cfg s v a with ⟨_, e⟩ | ⟨u, orig, hl, _, e⟩ | ⟨u, orig, hl, _, e⟩
    · rw [e] at he; simp [Out.effective] at he
    · rw [e]; simp only [mu, List.length_append, List.length_map]
      have h3 := recipientsV_length_le cfg v u orig
      have h4 : heldPot (fun a => (cfg.fwd a).length + 1) (s.held.filter fun h => h.1 != v)
          + ((cfg.fwd v).length + 1) ≤ heldPot (fun a => (cfg.fwd a).length + 1) s.held :=
        heldPot_drop (fun a => (cfg.fwd a).length + 1) s.held v (u, orig) (lookup_mem hl)
      omega
    · rw [e]; simp only [mu]
      have h4 : heldPot (fun a => (cfg.fwd a).length + 1) (s.held.filter fun h => h.1 != v)
          + ((cfg.fwd v).length + 1) ≤ heldPot (fun a => (cfg.fwd a).length + 1) s.held :=
        heldPot_drop (fun a => (cfg.fwd a).length + 1) s.held v (u, orig) (lookup_mem hl)
      omega

/-- number of effective steps in an output list -/
def effCount : List Out → Nat
  | [] => 0
  | o :: os => (if o.effective then 1 else 0) + effCount os

theorem step_ineffective {cfg : Cfg} {s : State} (op : Op)
    (he : (step cfg s op).2.effective = false) : (step cfg s op).1 = s := by
  cases op with
  | recv u v =>
    simp only [step] at he ⊢
    rcases recv_cases cfg s u v with ⟨_, e⟩ | ⟨_, _, e⟩ | ⟨_, _, _, e⟩ | ⟨_, _, _, _, e⟩ |
      ⟨_, _, _, e⟩
    · rw [e]
    all_goals (rw [e] at he; simp [Out.effective] at he)
  | verdict v a =>
    simp only [step] at he ⊢
    rcases verdict_cases cfg s v a with ⟨_, e⟩ | ⟨u, orig, _, _, e⟩ | ⟨u, orig, _, _, e⟩
    · rw [e]
    all_goals (rw [e] at he; simp [Out.effective] at he)

theorem eff_bound {cfg : Cfg} (hw : WF cfg) (sched : List Op) :
    ∀ s, Inv cfg s →
      effCount (Machine.run (step cfg) s sched).2 + mu cfg (Machine.exec (step cfg) s sched)
        ≤ mu cfg s := by
  induction sched with
  | nil => intro s _; simp [Machine.run, Machine.exec, effCount]
  | cons l rest ih =>
    intro s hi
    have hi' := inv_step l hi
    have := ih _ hi'
    simp only [Machine.run, Machine.exec, List.foldl, effCount] at this ⊢
    cases he : (step cfg s l).2.effective with
    | false =>
      have hs := step_ineffective l he
      rw [hs] at this
      simp only [Bool.false_eq_true, if_false]
      rw [hs]
      omega
    | true =>
      have := mu_decreases hw hi l he
      simp only [if_true]
      omega

/-- from every reachable state some schedule of at most `mu` steps (deliver what is in flight,
accept what is held) reaches quiescence -/
theorem quiescence_reachable {cfg : Cfg} (hw : WF cfg) :
    ∀ (n : Nat) (s : State), Inv cfg s → mu cfg s ≤ n →
      ∃ sched, sched.length ≤ n ∧ (Machine.exec (step cfg) s sched).flight = [] ∧
        (Machine.exec (step cfg) s sched).held = [] ∧
        (Machine.exec (step cfg) s sched).dropped = s.dropped := by
  intro n
  induction n with
  | zero =>
    intro s _ hm
    refine ⟨[], Nat.le_refl _, ?_, ?_, rfl⟩
    · simp only [Machine.exec, List.foldl]
      have : s.flight.length = 0 := by simp only [mu] at hm; omega
      exact List.eq_nil_of_length_eq_zero this
    · simp only [Machine.exec, List.foldl]
      cases hh : s.held with
      | nil => rfl
      | cons h l =>
        simp only [mu, hh, heldPot] at hm
        omega
  | succ n ih =>
    intro s hi hm
    cases hfl : s.flight with
    | nil =>
      cases hh : s.held with
      | nil => exact ⟨[], Nat.zero_le _, by simp [Machine.exec, hfl], by simp [Machine.exec, hh], rfl⟩
      | cons h rest =>
        obtain ⟨v, u, orig⟩ := h
        have hl : s.held.lookup v = some (u, orig) := by simp [hh, List.lookup]
        have hstep : (step cfg s (.verdict v .accept)).2.effective = true ∧
            (step cfg s (.verdict v .accept)).1.dropped = s.dropped := by
          simp only [step]
          rcases verdict_cases cfg s v .accept with ⟨hn, _⟩ | ⟨u', o', _, _, e⟩ | ⟨_, _, _, hna, _⟩
          · rw [hl] at hn; cases hn
          · rw [e]; exact ⟨rfl, rfl⟩
          · exact absurd rfl hna
        have hd := mu_decreases hw hi (.verdict v .accept) hstep.1
        obtain ⟨sched, hlen, hq, hq2, hq3⟩ := ih _ (inv_step (.verdict v .accept) hi) (by omega)
        exact ⟨.verdict v .accept :: sched, by simp only [List.length_cons]; omega,
          by simpa [Machine.exec, List.foldl] using hq,
          by simpa [Machine.exec, List.foldl] using hq2,
          by simpa [Machine.exec, List.foldl, hstep.2] using hq3⟩
    | cons l rest =>
      obtain ⟨u, v⟩ := l
      have hmem : (u, v) ∈ s.flight := by rw [hfl]; exact List.mem_cons_self
      have hstep : (step cfg s (.recv u v)).2.effective = true ∧
          (step cfg s (.recv u v)).1.dropped = s.dropped := by
        simp only [step]
        rcases recv_cases cfg s u v with ⟨hn, _⟩ | ⟨_, _, e⟩ | ⟨_, _, _, e⟩ | ⟨_, _, _, _, e⟩ |
          ⟨_, _, _, e⟩
        · exact absurd hmem hn
        all_goals (rw [e]; exact ⟨rfl, rfl⟩)
      have hd := mu_decreases hw hi (.recv u v) hstep.1
      obtain ⟨sched, hlen, hq, hq2, hq3⟩ := ih _ (inv_step (.recv u v) hi) (by omega)
      exact ⟨.recv u v :: sched, by simp only [List.length_cons]; omega,
        by simpa [Machine.exec, List.foldl] using hq,
        by simpa [Machine.exec, List.foldl] using hq2,
        by simpa [Machine.exec, List.foldl, hstep.2] using hq3⟩

/-! ## the executable Spec accepts the model -/

theorem nodupB_iff (l : List Node) : nodupB l = true ↔ l.Nodup := by
  induction l with
  | nil => simp [nodupB]
  | cons a l ih => simp [nodupB, ih, List.nodup_cons]

theorem echoes_false {rc : List (Node × Node)} {v : Node} {r : List Node}
    (h : ∀ w ∈ r, (v, w) ∉ rc) : echoes rc v r = false := by
  unfold echoes
  rw [List.any_eq_false]
  intro w hw
  simpa using h w hw

theorem toSource_false {cfg : Cfg} {r : List Node}
    (h : ∀ x, cfg.source = some x → x ∉ r) : toSource cfg r = false := by
  unfold toSource
  cases hs : cfg.source with
  | none => rfl
  | some x => simpa using h x hs

/-- the monitor state that corresponds to a model state -/
def monOf (s : State) : Mon := { got := s.delivered.map Prod.fst, rc := rcvdOf s.hist }

theorem specStep_model {cfg : Cfg} {s : State} (hn : NoSelf cfg) (hi : Inv cfg s)
    (he : Echo cfg s) (op : Op) :
    specStep cfg (monOf s) op (step cfg s op).2 = none ∧
    monOf (step cfg s op).1 = monAfter (monOf s) op (step cfg s op).2 := by
  cases op with
  | recv u v =>
    simp only [step, specStep]
    rcases recv_cases cfg s u v with ⟨_, e⟩ | ⟨_, _, e⟩ | ⟨_, _, _, e⟩ | ⟨hf, hcond, hns, _, e⟩ |
      ⟨hf, hcond, hns, e⟩
    · rw [e]; simp [specRecv, monAfter]
    · rw [e]; simp [specRecv, monAfter, monOf, rcvdOf_append, rcvdOf]
    · rw [e]; simp [specRecv, monAfter, monOf, rcvdOf_append, rcvdOf]
    · rw [e]
      have hvp : v ≠ cfg.pub := fun hv => hns (hv ▸ hi.pub_seen)
      have hvd : v ∉ s.delivered.map Prod.fst := fun hv => hns (hi.del_seen v hv)
      have hgot : (monOf s).got.contains v = false := by simpa [monOf] using hvd
      have hpub : (v == cfg.pub) = false := by simpa using hvp
      refine ⟨?_, by simp [monAfter, monOf, rcvdOf_append, rcvdOf]⟩
      simp only [specRecv]
      rw [if_neg (by rw [hgot]; simp), if_neg (by rw [hpub]; simp)]
    · rw [e]
      have hvp : v ≠ cfg.pub := fun hv => hns (hv ▸ hi.pub_seen)
      have hvd : v ∉ s.delivered.map Prod.fst := fun hv => hns (hi.del_seen v hv)
      have huv : u ≠ v := hi.flight_ne hn hf
      have hsv : cfg.source ≠ some v := fun hs => hcond ⟨hs, huv⟩
      have hec : echoes (rcvdOf s.hist ++ [(v, u)]) v (recipients cfg v u) = false := by
        apply echoes_false
        intro w hw hm
        rcases List.mem_append.1 hm with hm | hm
        · exact hsv (he.unseen_rc v w hm hns)
        · simp only [List.mem_singleton] at hm
          exact (mem_recipients.1 hw).2.1 (Prod.mk.inj hm).2
      have hts : toSource cfg (recipients cfg v u) = false :=
        toSource_false fun x hx h => (mem_recipients.1 h).2.2 hx.symm
      have hgot : (monOf s).got.contains v = false := by simpa [monOf] using hvd
      have hpub : (v == cfg.pub) = false := by simpa using hvp
      have hec' : echoes ((monOf s).rc ++ [(v, u)]) v (recipients cfg v u) = false := hec
      refine ⟨?_, by simp [monAfter, monOf, rcvdOf_append, rcvdOf, rcvdOf_sends]⟩
      simp only [specRecv]
      rw [if_neg (by rw [hgot]; simp), if_neg (by rw [hpub]; simp),
        if_neg (by rw [hec']; simp), if_neg (by rw [hts]; simp)]
  | verdict v a =>
    simp only [step, specStep]
    rcases verdict_cases cfg s v a with ⟨_, e⟩ | ⟨u, orig, hl, _, e⟩ | ⟨u, orig, _, _, e⟩
    · rw [e]; simp [specVerdict, monAfter]
    · rw [e]
      have hm := lookup_mem hl
      have hec : echoes (rcvdOf s.hist) v (recipientsV cfg v u orig) = false := by
        apply echoes_false
        intro w hw hrc
        have hx := mem_recipientsV.1 hw
        rcases he.held_rc v u orig hm w hrc with h1 | h1
        · exact hx.2.1 h1
        · exact hx.2.2.2 h1
      have hts : toSource cfg (recipientsV cfg v u orig) = false :=
        toSource_false fun x hx h => (mem_recipientsV.1 h).2.2.1 hx.symm
      refine ⟨?_, by simp [monAfter, monOf, rcvdOf_append, rcvdOf_sends]⟩
      have hec' : echoes (monOf s).rc v (recipientsV cfg v u orig) = false := hec
      simp only [specVerdict]
      rw [if_neg (by rw [hec']; simp), if_neg (by rw [hts]; simp)]
    · rw [e]; simp [specVerdict, monAfter, monOf]

theorem echo_step {cfg : Cfg} {s : State} (hn : NoSelf cfg) (op : Op) (hi : Inv cfg s)
    (he : Echo cfg s) : Echo cfg (step cfg s op).1 := by
  cases op with
  | recv u v => exact echo_recv hn (u, v) hi he
  | verdict v a => exact echo_verdict v a he

theorem monitor_model {cfg : Cfg} (hn : NoSelf cfg) (sched : List Op) :
    ∀ s, Inv cfg s → Echo cfg s → monitor cfg (trace cfg s sched) (monOf s) = none := by
  induction sched with
  | nil => intro s _ _; simp [trace, monitor]
  | cons op rest ih =>
    intro s hi he
    obtain ⟨h1, h2⟩ := specStep_model hn hi he op
    simp only [trace, monitor, h1]
    rw [← h2]
    exact ih _ (inv_step op hi) (echo_step hn op hi he)

end C27
