import Libp2pModel.Proofs.C27Inv
/-!
# C27 — termination measure and the Spec-accepts-model link
-/
namespace C27

/-! ## termination measure -/

/-- potential of the nodes that have not seen the message yet -/
def pot (f : Node → Nat) (seen : List Node) : List Node → Nat
  | [] => 0
  | a :: l => (if a ∈ seen then 0 else f a) + pot f seen l

theorem pot_mono (f : Node → Nat) (seen : List Node) (v : Node) (l : List Node) :
    pot f (v :: seen) l ≤ pot f seen l := by
  induction l with
  | nil => simp [pot]
  | cons a l ih =>
    simp only [pot]
    by_cases h1 : a ∈ seen
    · have h2 : a ∈ v :: seen := List.mem_cons_of_mem _ h1
      simp only [h1, h2, if_true]; omega
    · by_cases h2 : a ∈ v :: seen
      · simp only [h1, h2, if_true, if_false]; omega
      · simp only [h1, h2, if_false]; omega

theorem pot_drop (f : Node → Nat) (seen : List Node) (v : Node) (l : List Node)
    (hv : v ∈ l) (hn : v ∉ seen) : pot f (v :: seen) l + f v ≤ pot f seen l := by
  induction l with
  | nil => cases hv
  | cons a l ih =>
    simp only [pot]
    by_cases hav : a = v
    · subst hav
      have h2 : a ∈ a :: seen := List.mem_cons_self
      have := pot_mono f seen a l
      simp only [hn, h2, if_true, if_false]; omega
    · have hv' : v ∈ l := by
        rcases List.mem_cons.1 hv with h | h
        · exact absurd h.symm hav
        · exact h
      have := ih hv'
      by_cases h1 : a ∈ seen
      · have h2 : a ∈ v :: seen := List.mem_cons_of_mem _ h1
        simp only [h1, h2, if_true]; omega
      · have h2 : a ∉ v :: seen := by
          intro h; rcases List.mem_cons.1 h with h | h
          · exact hav h
          · exact h1 h
        simp only [h1, h2, if_false]; omega

/-- the network is closed: the publisher's recipients and every forwarding target are nodes -/
def WF (cfg : Cfg) : Prop :=
  (∀ b ∈ cfg.recips, b ∈ cfg.nodes) ∧ ∀ a, ∀ b ∈ cfg.fwd a, b ∈ cfg.nodes

/-- copies in flight + (forwarding degree + 1) of every node that has not seen the message -/
def mu (cfg : Cfg) (s : State) : Nat :=
  s.flight.length + pot (fun a => (cfg.fwd a).length + 1) s.seen cfg.nodes

theorem Inv.flight_node {cfg : Cfg} {s : State} (h : Inv cfg s) (hw : WF cfg) {a b : Node}
    (hab : (a, b) ∈ s.flight) : b ∈ cfg.nodes := by
  rcases h.sent_src a b (h.flight_sent _ hab) with ⟨_, hb⟩ | ⟨u, _, hb⟩
  · exact hw.1 b hb
  · exact hw.2 a b (mem_recipients.1 hb).1

/-- every effective reception strictly decreases the measure -/
theorem mu_decreases {cfg : Cfg} {s : State} (hw : WF cfg) (hi : Inv cfg s) (l : Node × Node)
    (he : (recv cfg s l).2 ≠ .noflight) : mu cfg (recv cfg s l).1 < mu cfg s := by
  obtain ⟨u, v⟩ := l
  rcases recv_cases cfg s u v with ⟨_, e⟩ | ⟨hf, _, e⟩ | ⟨hf, _, _, e⟩ | ⟨hf, _, hns, e⟩
  · rw [e] at he; exact absurd rfl he
  · rw [e]; simp only [mu]
    have := List.length_erase_of_mem hf
    have := List.length_pos_of_mem hf
    omega
  · rw [e]; simp only [mu]
    have := List.length_erase_of_mem hf
    have := List.length_pos_of_mem hf
    omega
  · rw [e]; simp only [mu, List.length_append, List.length_map]
    have h1 := List.length_erase_of_mem hf
    have h2 := List.length_pos_of_mem hf
    have h3 := recipients_length_le cfg v u
    have h4 : pot (fun a => (cfg.fwd a).length + 1) (v :: s.seen) cfg.nodes
        + ((cfg.fwd v).length + 1) ≤ pot (fun a => (cfg.fwd a).length + 1) s.seen cfg.nodes :=
      pot_drop (fun a => (cfg.fwd a).length + 1) s.seen v cfg.nodes (hi.flight_node hw hf) hns
    omega

/-- number of effective receptions in an output list -/
def effCount : List Out → Nat
  | [] => 0
  | o :: os => (if o = .noflight then 0 else 1) + effCount os

theorem eff_bound {cfg : Cfg} (hw : WF cfg) (sched : List (Node × Node)) :
    ∀ s, Inv cfg s →
      effCount (Machine.run (recv cfg) s sched).2 + mu cfg (Machine.exec (recv cfg) s sched)
        ≤ mu cfg s := by
  induction sched with
  | nil => intro s _; simp [Machine.run, Machine.exec, effCount]
  | cons l rest ih =>
    intro s hi
    have hi' := inv_recv l hi
    have := ih _ hi'
    simp only [Machine.run, Machine.exec, List.foldl, effCount] at this ⊢
    by_cases he : (recv cfg s l).2 = .noflight
    · have hs : (recv cfg s l).1 = s := by
        obtain ⟨u, v⟩ := l
        rcases recv_cases cfg s u v with ⟨_, e⟩ | ⟨_, _, e⟩ | ⟨_, _, _, e⟩ | ⟨_, _, _, e⟩
        · rw [e]
        all_goals (rw [e] at he; cases he)
      rw [hs] at this
      simp only [he, if_true]
      rw [hs]
      omega
    · have := mu_decreases hw hi l he
      simp only [he, if_false]
      omega

/-- from every reachable state some schedule of at most `mu` receptions reaches quiescence -/
theorem quiescence_reachable {cfg : Cfg} (hw : WF cfg) :
    ∀ (n : Nat) (s : State), Inv cfg s → mu cfg s ≤ n →
      ∃ sched, sched.length ≤ n ∧ (Machine.exec (recv cfg) s sched).flight = [] := by
  intro n
  induction n with
  | zero =>
    intro s _ hm
    refine ⟨[], Nat.le_refl _, ?_⟩
    simp only [Machine.exec, List.foldl]
    have : s.flight.length = 0 := by simp only [mu] at hm; omega
    exact List.eq_nil_of_length_eq_zero this
  | succ n ih =>
    intro s hi hm
    cases hfl : s.flight with
    | nil => exact ⟨[], Nat.zero_le _, by simp [Machine.exec, hfl]⟩
    | cons l rest =>
      have hmem : l ∈ s.flight := by rw [hfl]; exact List.mem_cons_self
      have he : (recv cfg s l).2 ≠ .noflight := by
        obtain ⟨u, v⟩ := l
        rcases recv_cases cfg s u v with ⟨hn, _⟩ | ⟨_, _, e⟩ | ⟨_, _, _, e⟩ | ⟨_, _, _, e⟩
        · exact absurd hmem hn
        all_goals (rw [e]; intro h; cases h)
      have hd := mu_decreases hw hi l he
      obtain ⟨sched, hlen, hq⟩ := ih _ (inv_recv l hi) (by omega)
      exact ⟨l :: sched, by simp only [List.length_cons]; omega, by
        simpa [Machine.exec, List.foldl] using hq⟩

/-! ## the executable Spec accepts the model -/

theorem nodupB_iff (l : List Node) : nodupB l = true ↔ l.Nodup := by
  induction l with
  | nil => simp [nodupB]
  | cons a l ih => simp [nodupB, ih, List.nodup_cons]

theorem specRecv_model {cfg : Cfg} {s : State} (hi : Inv cfg s) (l : Node × Node) :
    specRecv cfg (s.delivered.map Prod.fst) l.1 l.2 (recv cfg s l).2 = none ∧
    ((recv cfg s l).1.delivered.map Prod.fst
      = gotAfter (s.delivered.map Prod.fst) l.2 (recv cfg s l).2) := by
  obtain ⟨u, v⟩ := l
  rcases recv_cases cfg s u v with ⟨_, e⟩ | ⟨_, _, e⟩ | ⟨_, _, _, e⟩ | ⟨hf, _, hns, e⟩
  · rw [e]; simp [specRecv, gotAfter]
  · rw [e]; simp [specRecv, gotAfter]
  · rw [e]; simp [specRecv, gotAfter]
  · rw [e]
    have hvp : v ≠ cfg.pub := fun hv => hns (hv ▸ hi.pub_seen)
    have hvd : v ∉ s.delivered.map Prod.fst := fun hv => hns (hi.del_seen v hv)
    have hu : u ∉ recipients cfg v u := fun h => (mem_recipients.1 h).2.1 rfl
    have hsx : ∀ x, cfg.source = some x → x ∉ recipients cfg v u :=
      fun x hx h => (mem_recipients.1 h).2.2 hx.symm
    refine ⟨?_, by simp [gotAfter]⟩
    simp only [specRecv]
    rw [if_neg (by simpa using hvd), if_neg (by simpa using hvp), if_neg (by simpa using hu)]
    cases hsrc : cfg.source with
    | none => simp
    | some x => simpa using hsx x hsrc

theorem monitor_model {cfg : Cfg} (sched : List (Node × Node)) :
    ∀ s, Inv cfg s → monitor cfg (trace cfg s sched) (s.delivered.map Prod.fst) = none := by
  induction sched with
  | nil => intro s _; simp [trace, monitor]
  | cons l rest ih =>
    intro s hi
    obtain ⟨h1, h2⟩ := specRecv_model hi l
    simp only [trace, monitor, h1]
    rw [← h2]
    exact ih _ (inv_recv l hi)

end C27
