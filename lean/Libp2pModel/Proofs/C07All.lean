import Libp2pModel.Proofs.C07Time
/-!
# C07 — the five invariants together, through `poll_next_event` and every operation
-/
namespace C07

structure Inv2 (s : State) : Prop where
  inv : Inv s
  uniq : Unique s
  ids : Ids s
  strong : Strong s
  time : Time s

/-- a change that touches none of the fields the invariants read (the pending-connection list may
change as long as its ids do not) -/
theorem Inv2.frame {s s' : State} (h : Inv2 s) (h1 : s'.fixed = s.fixed) (h2 : s'.conns = s.conns)
    (h3 : s'.gone = s.gone) (h4 : s'.behQ = s.behQ) (h5 : s'.pending = s.pending) (h6 : s'.nextEv = s.nextEv)
    (h7 : s'.dropped = s.dropped) (h8 : s'.pendQ = s.pendQ)
    (h9 : s'.dialing.map (·.id) = s.dialing.map (·.id))
    (h10 : s'.nextConn = s.nextConn) (h11 : s'.clock = s.clock) : Inv2 s' := by
  refine ⟨?_, ?_, ?_, ?_, ?_⟩
  · exact h.inv.same h1 h5 h4 h6 h7 (by rw [h2, h3]; exact h.inv.conns)
  · refine h.uniq.of_cnt h6 ?_
    intro n; simp only [State.cnt, State.U, h2, h3, h4, h5, h7]
  · exact h.ids.congr (by simp only [State.allIds, h2, h3, h8, h9]) h10
  · exact h.strong.of_mono (Mono.of_conns h2 h3) h5 h7
  · exact h.time.frame h2 h3 h5 h11

/-- `Pool::add_outgoing` / `add_incoming`: a new pending connection with the next id -/
theorem Inv2.alloc {s : State} (h : Inv2 s) (p : Nat) (inb res : Bool) : Inv2 (s.alloc p inb res) :=
  ⟨h.inv.same rfl rfl rfl rfl rfl h.inv.conns, h.uniq.of_cnt rfl (fun _ => rfl), h.ids.alloc p inb res,
   h.strong.of_mono (Mono.of_conns rfl rfl) rfl rfl, h.time.frame rfl rfl rfl rfl⟩

theorem advanceLocal_dropped {s : State} (hi : Inv s) : (advanceLocal s).dropped = s.dropped := by
  obtain ⟨_, h2⟩ := runAll_spec s.conns (fun k hk => hi.conns k (List.mem_append_left _ hk))
  rcases hr : runAll s.conns with ⟨cs, lg, dr⟩
  rw [hr] at h2
  simp only at h2
  subst h2
  simp only [C07.advanceLocal, hr, dropAll]

theorem Inv2.updConn {s : State} (h : Inv2 s) (c : Nat) (f : Conn → Conn)
    (hci : ∀ k, CI s.U s.nextEv k → CI s.U s.nextEv (f k)) (htok : ∀ k, (f k).tok = k.tok)
    (hid : ∀ k, (f k).id = k.id) (hl : ∀ k, (f k).isLive = true → k.isLive = true)
    (hest : ∀ k, (f k).estAt = k.estAt) (hseq : ∀ k, (f k).seq = k.seq) :
    Inv2 { s with conns := upd s.conns c f } :=
  ⟨h.inv.updConn c f (fun k _ hk => hci k hk), h.uniq.updSame c f htok, h.ids.updConn c f hid,
   h.strong.of_mono (Mono.updConn s c f hid hl) rfl rfl,
   h.time.updSame c f hid hest (fun k => by
     have := htok k; unfold Conn.tok at this; exact hseq k)⟩

theorem Inv2.startCloseAt {s : State} (h : Inv2 s) (c : Nat) :
    Inv2 { s with conns := upd s.conns c (Conn.startClose s.buf) } :=
  h.updConn c _ (fun _ hk => hk.startClose _) (tok_startClose _) (startClose_id _)
    (fun k hk => by rw [startClose_dead] at hk; cases hk) (startClose_estAt _)
    (fun k => (startClose_fields _ k).1)

theorem Inv2.disconnect {s : State} (h : Inv2 s) (p : Nat) : Inv2 (disconnect s p) :=
  ⟨h.inv.disconnect p, h.uniq.disconnect p, h.ids.disconnect p,
   h.strong.of_mono (Mono.disconnect s p) rfl rfl, h.time.disconnect p⟩

theorem deliverPending_ids (s : State) (p : Pending) :
    cids (deliverPending s p).1.conns = cids s.conns ∧ (deliverPending s p).1.gone = s.gone ∧
    (deliverPending s p).1.pendQ = s.pendQ ∧ (deliverPending s p).1.dialing = s.dialing ∧
    (deliverPending s p).1.nextConn = s.nextConn := by
  unfold C07.deliverPending
  split
  · split <;> simp [State.dropNote, cids_upd _ _ (push_id _ _)]
  · simp only
    split
    · simp [cids_upd _ _ (push_id _ _)]
    · split <;> simp [State.dropNote]

theorem Inv2.deliverPending {s : State} {p : Pending} (h : Inv2 s) (hp : s.pending = some p) :
    Inv2 (deliverPending { s with pending := none } p).1 := by
  refine ⟨h.inv.deliverPending hp, h.uniq.deliverPending hp, ?_, h.strong.deliverPending h.inv hp,
    h.time.deliverPending h.inv hp⟩
  obtain ⟨a, b, c, d, e⟩ := deliverPending_ids { s with pending := none } p
  exact h.ids.congr (by simp only [State.allIds, a, b, c, d]) e

theorem Inv2.handleBeh {s : State} {cmd : BCmd} {rest : List BCmd} (h : Inv2 s) (hp : s.pending = none)
    (hq : s.behQ = cmd :: rest) : Inv2 (handleBeh { s with behQ := rest } cmd) := by
  refine ⟨h.inv.handleBeh hp hq, h.uniq.handleBeh hp hq, ?_, h.strong.handleBeh hp, h.time.handleBeh hp⟩
  cases cmd with
  | one c n => exact h.ids.congr rfl rfl
  | any p n ch => exact h.ids.congr rfl rfl
  | closeOne c =>
    have h1 : Ids { s with behQ := rest } := h.ids.congr rfl rfl
    exact h1.updConn c _ (startClose_id _)
  | closeAll p =>
    have h1 : Ids { s with behQ := rest } := h.ids.congr rfl rfl
    exact h1.disconnect p
  | gen => exact h.ids.congr rfl rfl

theorem Inv2.advanceLocal {s : State} (h : Inv2 s) : Inv2 (advanceLocal s) :=
  ⟨h.inv.advanceLocal, h.uniq.advanceLocal h.inv, h.ids.advanceLocal,
   h.strong.of_mono (Mono.advanceLocal s) (advanceLocal_fields s).2.2.2.2.2 (advanceLocal_dropped h.inv),
   h.time.advanceLocal h.inv⟩

theorem Inv2.reportClosed {s : State} (h : Inv2 s) (c : Nat) (bad : Bool) : Inv2 (reportClosed s c bad).1 :=
  ⟨h.inv.reportClosed c bad, h.uniq.reportClosed c bad, h.ids.reportClosed c bad,
   h.strong.of_mono (Mono.reportClosed h.ids c bad) rfl rfl, h.time.reportClosed c bad⟩

theorem reportPending_same (s : State) (m : PendMsg) (bad : Bool) :
    (reportPending s m bad).1.pending = s.pending ∧ (reportPending s m bad).1.dropped = s.dropped := by
  unfold C07.reportPending; split <;> exact ⟨rfl, rfl⟩

theorem Inv2.reportPending {s : State} (h : Inv2 s) (m : PendMsg) (hm : m ∈ s.pendQ) (bad : Bool) :
    Inv2 (reportPending s m bad).1 :=
  ⟨h.inv.reportPending m bad, h.uniq.reportPending m bad, h.ids.reportPending m hm bad,
   h.strong.of_mono (Mono.reportPending h.ids m hm bad) (reportPending_same s m bad).1
     (reportPending_same s m bad).2,
   h.time.reportPending m bad (by
     -- a connection that is only now reported cannot be among the captured (= established) ids
     intro p ids0 hp ht hmem
     have h1 : m.id ∈ s.estIds := h.strong.cap p ids0 hp ht m.id hmem
     have h2 : 0 < s.estIds.count m.id := List.count_pos_iff.2 h1
     have h3 : 0 < (s.pendQ.map (·.id)).count m.id := List.count_pos_iff.2 (List.mem_map.2 ⟨m, hm, rfl⟩)
     have h4 := h.ids.uniq m.id
     simp only [State.allIds, State.estIds, List.count_append] at h2 h4
     omega)⟩

theorem Inv2.poolPoll {s : State} (h : Inv2 s) (pick : Option Nat) : Inv2 (poolPoll s pick).1 := by
  unfold C07.poolPoll
  split
  · exact h.reportClosed _ _
  · split
    · rename_i m0 r hq
      refine h.reportPending _ ?_ _
      rw [hq]; exact pickMsg_mem m0 r pick
    · exact h.advanceLocal

theorem Inv2.transportPoll {s : State} (h : Inv2 s) : Inv2 (transportPoll s).1 := by
  unfold C07.transportPoll
  split
  · have h0 : Inv2 { s with incomingQ := s.incomingQ - 1 } := h.frame rfl rfl rfl rfl rfl rfl rfl rfl rfl rfl rfl
    exact h0.alloc 0 true false
  · exact h

theorem Inv2.poolPart {s : State} (h : Inv2 s) (pick : Option Nat) : Inv2 (poolPart s pick).1 := by
  unfold C07.poolPart
  have := h.poolPoll pick
  split
  · simp_all
  · rename_i s' heq
    rw [heq] at this
    exact Inv2.transportPoll this

theorem Inv2.pollLoop (fuel : Nat) : ∀ {s : State}, Inv2 s → ∀ pick, Inv2 (pollLoop fuel s pick).1 := by
  induction fuel with
  | zero => intro s h pick; exact h
  | succ n ih =>
    intro s h pick
    unfold C07.pollLoop
    split
    · exact h.frame rfl rfl rfl rfl rfl rfl rfl rfl rfl rfl rfl
    · split
      · rename_i p hp
        have hd := h.deliverPending hp
        split
        · rename_i s1 heq
          rw [heq] at hd
          exact Inv2.poolPart hd pick
        · rename_i s1 heq
          rw [heq] at hd
          exact ih hd pick
      · rename_i hp
        split
        · rename_i cmd rest hq
          exact ih (h.handleBeh hp hq) pick
        · exact h.poolPart pick

theorem pushCmds_clock (cmds : List ECmd) : ∀ s : State, (pushCmds s cmds).clock = s.clock := by
  induction cmds with
  | nil => intro s; rfl
  | cons c r ih => intro s; cases c <;> (rw [pushCmds, ih])

theorem Inv2.pushCmds {s : State} (h : Inv2 s) (cmds : List ECmd) : Inv2 (pushCmds s cmds) := by
  obtain ⟨a, b, c, d, e, f, g⟩ := pushCmds_fields cmds s
  exact ⟨h.inv.pushCmds cmds, h.uniq.pushCmds cmds,
    h.ids.congr (by simp only [State.allIds, a, b, c, d]) e,
    h.strong.of_mono (Mono.of_conns a b) f g, h.time.frame a b f (pushCmds_clock cmds s)⟩

theorem resolve_ids (l : List Dial) (c p : Nat) :
    (l.map (fun d => if d.id == c && !d.resolved then
        { d with resolved := true, peer := if d.inbound then p else d.peer } else d)).map (·.id)
      = l.map (·.id) := by
  apply dial_ids
  intro d; split <;> rfl

theorem Inv2.step {s : State} (h : Inv2 s) (op : Op) : Inv2 (step s op).1 := by
  cases op with
  | connect p => exact h.alloc p false true
  | dial p =>
    simp only [C07.step]
    split
    · exact h.alloc p false true
    · exact (h.alloc p false false).frame rfl rfl rfl rfl rfl rfl rfl rfl rfl rfl rfl
  | resolve c p => exact h.frame rfl rfl rfl rfl rfl rfl rfl rfl (resolve_ids _ c p) rfl rfl
  | incoming => exact h.frame rfl rfl rfl rfl rfl rfl rfl rfl rfl rfl rfl
  | close c => exact h.startCloseAt c
  | disconnect p => exact h.disconnect p
  | rclose c =>
    exact h.updConn c _ (fun k hk => ⟨hk.tgt, hk.sorted, hk.below, hk.open_, hk.nac⟩) (fun _ => rfl)
      (fun _ => rfl) (fun _ hk => hk) (fun _ => rfl) (fun _ => rfl)
  | emit cmds => exact h.pushCmds cmds
  | poll pick =>
    have h0 : Inv2 { s with bad := false } := h.frame rfl rfl rfl rfl rfl rfl rfl rfl rfl rfl rfl
    have := Inv2.pollLoop (pollFuel s) h0 pick
    simp only [C07.step]
    exact this

theorem Inv2.init (n : Nat) : Inv2 (State.init n) :=
  ⟨Inv.init n, Unique.init n,
   ⟨by intro id; simp [State.allIds, State.init, cids], by intro id hid; simp [State.allIds, State.init, cids] at hid⟩,
   ⟨by intro p ids0 hp; simp [State.init] at hp, by intro p ids0 cur hp; simp [State.init] at hp,
    by intro d hd; simp [State.init] at hd⟩, Time.init n⟩

end C07
