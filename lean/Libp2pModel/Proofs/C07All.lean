import Libp2pModel.Proofs.C07Strong
/-!
# C07 — the four invariants together, through `poll_next_event` and every operation
-/
namespace C07

structure Inv2 (s : State) : Prop where
  inv : Inv s
  uniq : Unique s
  ids : Ids s
  strong : Strong s

/-- a change that touches none of the fields the invariants read -/
theorem Inv2.frame {s s' : State} (h : Inv2 s) (h1 : s'.fixed = s.fixed) (h2 : s'.conns = s.conns)
    (h3 : s'.gone = s.gone) (h4 : s'.behQ = s.behQ) (h5 : s'.pending = s.pending) (h6 : s'.nextEv = s.nextEv)
    (h7 : s'.dropped = s.dropped) (h8 : s'.pendQ = s.pendQ) (h9 : s'.dialing = s.dialing)
    (h10 : s'.nextConn = s.nextConn) : Inv2 s' := by
  refine ⟨?_, ?_, ?_, ?_⟩
  · exact h.inv.same h1 h5 h4 h6 h7 (by rw [h2, h3]; exact h.inv.conns)
  · refine h.uniq.of_cnt h6 ?_
    intro n; simp only [State.cnt, State.U, h2, h3, h4, h5, h7]
  · exact h.ids.congr (by simp only [State.allIds, h2, h3, h8, h9]) h10
  · exact h.strong.of_mono (Mono.of_conns h2 h3) h5 h7

theorem advanceLocal_dropped {s : State} (hi : Inv s) : (advanceLocal s).dropped = s.dropped := by
  obtain ⟨_, h2⟩ := runAll_spec s.conns (fun k hk => hi.conns k (List.mem_append_left _ hk))
  rcases hr : runAll s.conns with ⟨cs, lg, dr⟩
  rw [hr] at h2
  simp only at h2
  subst h2
  simp only [C07.advanceLocal, hr, dropAll]

theorem Inv2.updConn {s : State} (h : Inv2 s) (c : Nat) (f : Conn → Conn)
    (hci : ∀ k, CI s.U s.nextEv k → CI s.U s.nextEv (f k)) (htok : ∀ k, (f k).tok = k.tok)
    (hid : ∀ k, (f k).id = k.id) (hl : ∀ k, (f k).isLive = true → k.isLive = true) :
    Inv2 { s with conns := upd s.conns c f } :=
  ⟨h.inv.updConn c f (fun k _ hk => hci k hk), h.uniq.updSame c f htok, h.ids.updConn c f hid,
   h.strong.of_mono (Mono.updConn s c f hid hl) rfl rfl⟩

theorem Inv2.startCloseAt {s : State} (h : Inv2 s) (c : Nat) :
    Inv2 { s with conns := upd s.conns c (Conn.startClose s.buf) } :=
  h.updConn c _ (fun _ hk => hk.startClose _) (tok_startClose _) (startClose_id _)
    (fun k hk => by rw [startClose_dead] at hk; cases hk)

theorem Inv2.disconnect {s : State} (h : Inv2 s) (p : Nat) : Inv2 (disconnect s p) :=
  ⟨h.inv.disconnect p, h.uniq.disconnect p, h.ids.disconnect p,
   h.strong.of_mono (Mono.disconnect s p) rfl rfl⟩

theorem deliverPending_ids (s : State) (p : Pending) :
    cids (deliverPending s p).1.conns = cids s.conns ∧ (deliverPending s p).1.gone = s.gone ∧
    (deliverPending s p).1.pendQ = s.pendQ ∧ (deliverPending s p).1.dialing = s.dialing ∧
    (deliverPending s p).1.nextConn = s.nextConn := by
  unfold C07.deliverPending
  split
  · split <;> simp [State.dropNote, cids_upd _ _ (push_id _ _)]
  · simp only
    split
    · simp [cids_upd _ _ (push_id _ _)]
    · split <;> simp [State.dropNote]

theorem Inv2.deliverPending {s : State} {p : Pending} (h : Inv2 s) (hp : s.pending = some p) :
    Inv2 (deliverPending { s with pending := none } p).1 := by
  refine ⟨h.inv.deliverPending hp, h.uniq.deliverPending hp, ?_, h.strong.deliverPending h.inv hp⟩
  obtain ⟨a, b, c, d, e⟩ := deliverPending_ids { s with pending := none } p
  exact h.ids.congr (by simp only [State.allIds, a, b, c, d]) e

theorem Inv2.handleBeh {s : State} {cmd : BCmd} {rest : List BCmd} (h : Inv2 s) (hp : s.pending = none)
    (hq : s.behQ = cmd :: rest) : Inv2 (handleBeh { s with behQ := rest } cmd) := by
  refine ⟨h.inv.handleBeh hp hq, h.uniq.handleBeh hp hq, ?_, h.strong.handleBeh hp⟩
  cases cmd with
  | one c n => exact h.ids.congr rfl rfl
  | any p n ch => exact h.ids.congr rfl rfl
  | closeOne c =>
    have h1 : Ids { s with behQ := rest } := h.ids.congr rfl rfl
    exact h1.updConn c _ (startClose_id _)
  | closeAll p =>
    have h1 : Ids { s with behQ := rest } := h.ids.congr rfl rfl
    exact h1.disconnect p
  | gen => exact h.ids.congr rfl rfl

theorem Inv2.advanceLocal {s : State} (h : Inv2 s) : Inv2 (advanceLocal s) :=
  ⟨h.inv.advanceLocal, h.uniq.advanceLocal h.inv, h.ids.advanceLocal,
   h.strong.of_mono (Mono.advanceLocal s) (advanceLocal_fields s).2.2.2.2.2 (advanceLocal_dropped h.inv)⟩

theorem Inv2.reportClosed {s : State} (h : Inv2 s) (c : Nat) (bad : Bool) : Inv2 (reportClosed s c bad).1 :=
  ⟨h.inv.reportClosed c bad, h.uniq.reportClosed c bad, h.ids.reportClosed c bad,
   h.strong.of_mono (Mono.reportClosed h.ids c bad) rfl rfl⟩

theorem reportPending_same (s : State) (m : PendMsg) (bad : Bool) :
    (reportPending s m bad).1.pending = s.pending ∧ (reportPending s m bad).1.dropped = s.dropped := by
  unfold C07.reportPending; split <;> exact ⟨rfl, rfl⟩

theorem Inv2.reportPending {s : State} (h : Inv2 s) (m : PendMsg) (hm : m ∈ s.pendQ) (bad : Bool) :
    Inv2 (reportPending s m bad).1 :=
  ⟨h.inv.reportPending m bad, h.uniq.reportPending m bad, h.ids.reportPending m hm bad,
   h.strong.of_mono (Mono.reportPending h.ids m hm bad) (reportPending_same s m bad).1
     (reportPending_same s m bad).2⟩

theorem Inv2.poolPoll {s : State} (h : Inv2 s) (pick : Option Nat) : Inv2 (poolPoll s pick).1 := by
  unfold C07.poolPoll
  split
  · exact h.reportClosed _ _
  · split
    · rename_i m0 r hq
      refine h.reportPending _ ?_ _
      rw [hq]; exact pickMsg_mem m0 r pick
    · exact h.advanceLocal

theorem Inv2.poolPart {s : State} (h : Inv2 s) (pick : Option Nat) : Inv2 (poolPart s pick).1 := by
  unfold C07.poolPart
  have := h.poolPoll pick
  split <;> simp_all

theorem Inv2.pollLoop (fuel : Nat) : ∀ {s : State}, Inv2 s → ∀ pick, Inv2 (pollLoop fuel s pick).1 := by
  induction fuel with
  | zero => intro s h pick; exact h
  | succ n ih =>
    intro s h pick
    unfold C07.pollLoop
    split
    · exact h.frame rfl rfl rfl rfl rfl rfl rfl rfl rfl rfl
    · split
      · rename_i p hp
        have hd := h.deliverPending hp
        split
        · rename_i s1 heq
          rw [heq] at hd
          exact Inv2.poolPart hd pick
        · rename_i s1 heq
          rw [heq] at hd
          exact ih hd pick
      · rename_i hp
        split
        · rename_i cmd rest hq
          exact ih (h.handleBeh hp hq) pick
        · exact h.poolPart pick

theorem Inv2.pushCmds {s : State} (h : Inv2 s) (cmds : List ECmd) : Inv2 (pushCmds s cmds) := by
  obtain ⟨a, b, c, d, e, f, g⟩ := pushCmds_fields cmds s
  exact ⟨h.inv.pushCmds cmds, h.uniq.pushCmds cmds,
    h.ids.congr (by simp only [State.allIds, a, b, c, d]) e,
    h.strong.of_mono (Mono.of_conns a b) f g⟩

theorem Inv2.step {s : State} (h : Inv2 s) (op : Op) : Inv2 (step s op).1 := by
  cases op with
  | connect p =>
    exact ⟨h.inv.step (.connect p), h.uniq.of_cnt rfl (fun n => rfl), h.ids.connect p,
      h.strong.of_mono (Mono.of_conns rfl rfl) rfl rfl⟩
  | close c => exact h.startCloseAt c
  | disconnect p => exact h.disconnect p
  | rclose c =>
    exact h.updConn c _ (fun k hk => ⟨hk.tgt, hk.sorted, hk.below, hk.open_, hk.nac⟩) (fun _ => rfl)
      (fun _ => rfl) (fun _ hk => hk)
  | emit cmds => exact h.pushCmds cmds
  | poll pick =>
    have h0 : Inv2 { s with bad := false } := h.frame rfl rfl rfl rfl rfl rfl rfl rfl rfl rfl
    have := Inv2.pollLoop (pollFuel s) h0 pick
    simp only [C07.step]
    exact this

theorem Inv2.init (n : Nat) : Inv2 (State.init n) :=
  ⟨Inv.init n, Unique.init n,
   ⟨by intro id; simp [State.allIds, State.init, cids], by intro id hid; simp [State.allIds, State.init, cids] at hid⟩,
   ⟨by intro p ids0 hp; simp [State.init] at hp, by intro p ids0 cur hp; simp [State.init] at hp,
    by intro d hd; simp [State.init] at hd⟩⟩

end C07
