import Libp2pModel.Model.C52
/-!
# C52: lemmas about the list-backed sets and the per-peer association list
-/
namespace C52

theorem setInsert_fresh (l : List Nat) (c : Nat) (h : c ∉ l) : setInsert l c = l ++ [c] := by
  unfold setInsert
  have : l.contains c = false := by
    cases hc : l.contains c with
    | false => rfl
    | true => exact absurd (List.contains_iff_mem.1 hc) h
  rw [this]; rfl

theorem setRemove_absent (l : List Nat) (c : Nat) (h : c ∉ l) : setRemove l c = l := by
  unfold setRemove
  apply List.filter_eq_self.2
  intro a ha
  have : a ≠ c := fun e => h (e ▸ ha)
  simpa [bne_iff_ne] using this

theorem setRemove_append_self (l : List Nat) (c : Nat) (h : c ∉ l) : setRemove (l ++ [c]) c = l := by
  unfold setRemove
  rw [List.filter_append]
  have := setRemove_absent l c h
  unfold setRemove at this
  rw [this]; simp

theorem setRemove_idem (l : List Nat) (c : Nat) : setRemove (setRemove l c) c = setRemove l c := by
  unfold setRemove
  rw [List.filter_filter]; simp

theorem mem_setRemove (l : List Nat) (c x : Nat) : x ∈ setRemove l c ↔ x ∈ l ∧ x ≠ c := by
  simp [setRemove]

theorem setRemove_length_le (l : List Nat) (c : Nat) : (setRemove l c).length ≤ l.length :=
  List.length_filter_le _ _

theorem setRemove_filter (l : List Nat) (c : Nat) (q : Nat → Bool) :
    (setRemove l c).filter q = setRemove (l.filter q) c := by
  unfold setRemove
  rw [List.filter_filter, List.filter_filter]
  apply List.filter_congr
  intro x _
  exact Bool.and_comm _ _

/-- `remove` on the image of a table = the image of the table filtered by id -/
theorem setRemove_map {α : Type} (l : List α) (f : α → Nat) (c : Nat) :
    setRemove (l.map f) c = (l.filter (fun x => f x != c)).map f := by
  unfold setRemove
  induction l with
  | nil => rfl
  | cons a t ih =>
    simp only [List.map_cons, List.filter_cons]
    by_cases h : (f a != c) = true
    · simp [h, ih]
    · simp [h, ih]

theorem filter_length_mono {α : Type} (l : List α) (p q : α → Bool) (h : ∀ x, p x = true → q x = true) :
    (l.filter p).length ≤ (l.filter q).length := by
  induction l with
  | nil => simp
  | cons a t ih =>
    simp only [List.filter_cons]
    by_cases hp : p a = true
    · simp [hp, h a hp]; exact ih
    · by_cases hq : q a = true
      · simp [hp, hq]; omega
      · simp [hp, hq]; exact ih

/-! ### the per-peer map -/

def ppFind (m : PP) (p : Nat) : Option (List Nat) := (m.find? (·.1 == p)).map (·.2)

theorem ppGet_eq (m : PP) (p : Nat) : ppGet m p = (ppFind m p).getD [] := by
  unfold ppGet ppFind
  cases m.find? (·.1 == p) <;> rfl

theorem ppFind_cons (a : Nat × List Nat) (t : PP) (q : Nat) :
    ppFind (a :: t) q = if a.1 = q then some a.2 else ppFind t q := by
  unfold ppFind
  rw [List.find?_cons]
  by_cases h : a.1 = q
  · simp [h]
  · have : (a.1 == q) = false := by simpa using h
    simp [this, h]

theorem ppFind_map (m : PP) (p q : Nat) (f : List Nat → List Nat) :
    ppFind (m.map (fun x => if x.1 == p then (x.1, f x.2) else x)) q =
      if q = p then (ppFind m p).map f else ppFind m q := by
  induction m with
  | nil => simp [ppFind]
  | cons a t ih =>
    rw [List.map_cons, ppFind_cons, ih]
    by_cases hap : a.1 = p
    · by_cases hq : q = p
      · subst hq; simp [hap, ppFind_cons]
      · have hpq : ¬ p = q := fun e => hq e.symm
        simp [hap, hq, ppFind_cons, hpq]
    · have hap' : (a.1 == p) = false := by simpa using hap
      by_cases hq : q = p
      · subst hq; simp [hap, hap', ppFind_cons]
      · simp [hap', hq, ppFind_cons]

theorem ppFind_any (m : PP) (p : Nat) : m.any (·.1 == p) = true → ∃ v, ppFind m p = some v := by
  induction m with
  | nil => simp
  | cons a t ih =>
    intro h
    rw [ppFind_cons]
    by_cases hap : a.1 = p
    · exact ⟨a.2, by simp [hap]⟩
    · have hap' : (a.1 == p) = false := by simpa using hap
      simp only [List.any_cons, hap', Bool.false_or] at h
      simp only [hap, ↓reduceIte]
      exact ih h

theorem ppFind_not_any (m : PP) (p : Nat) : ¬ m.any (·.1 == p) = true → ppFind m p = none := by
  induction m with
  | nil => intro _; rfl
  | cons a t ih =>
    intro h
    rw [ppFind_cons]
    simp only [List.any_cons, Bool.or_eq_true, not_or] at h
    have hap : ¬ a.1 = p := by simpa using h.1
    simp only [hap, ↓reduceIte]
    exact ih h.2

theorem ppFind_append (m : PP) (x : Nat × List Nat) (q : Nat) :
    ppFind (m ++ [x]) q = match ppFind m q with | some v => some v | none => if x.1 = q then some x.2 else none := by
  induction m with
  | nil => simp [ppFind]
  | cons a t ih =>
    rw [List.cons_append, ppFind_cons, ppFind_cons, ih]
    by_cases h : a.1 = q <;> simp [h]

theorem ppGet_ppUpd (m : PP) (p q : Nat) (f : List Nat → List Nat) :
    ppGet (ppUpd m p f) q = if q = p then f (ppGet m p) else ppGet m q := by
  rw [ppGet_eq, ppGet_eq, ppGet_eq]
  unfold ppUpd
  by_cases hany : m.any (·.1 == p) = true
  · obtain ⟨v, hv⟩ := ppFind_any m p hany
    simp only [hany, ↓reduceIte, ppFind_map]
    by_cases hq : q = p
    · simp [hq, hv]
    · simp [hq]
  · have hn := ppFind_not_any m p hany
    simp only [hany, Bool.false_eq_true, ↓reduceIte, ppFind_append]
    by_cases hq : q = p
    · subst hq; simp [hn]
    · have : ¬ p = q := fun e => hq e.symm
      cases hf : ppFind m q <;> simp [hq, this]

end C52
