import Libp2pModel.Proofs.C26Sink
namespace C26
open C25 (Sid Role Frame)

theorem Inv_readTail {s : State} (hi : Inv s) :
    Inv (readTail s).1 ∧ (readTail s).1.cfg = s.cfg ∧ (readTail s).1.blocking = s.blocking ∧
    (∀ f, (readTail s).2 = .ready (.ok f) → s.blocking = none) := by
  unfold readTail
  split
  · exact ⟨hi, rfl, rfl, by simp⟩
  · rename_i hnb
    have hbn : s.blocking = none := by simpa using hnb
    split
    · exact ⟨hi, rfl, rfl, by simp⟩
    · exact ⟨Inv_congr hi rfl rfl rfl rfl, rfl, rfl, fun _ _ => hbn⟩
    · exact ⟨Inv_onError _ _, by simp [onError], by simp [onError], by simp⟩
    · exact ⟨Inv_onError _ _, by simp [onError], by simp [onError], by simp⟩

theorem Inv_readFlush {s : State} (hi : Inv s) (sid : Option Sid) :
    Inv (readFlush s sid).1 ∧ (readFlush s sid).1.cfg = s.cfg ∧ (readFlush s sid).1.blocking = s.blocking ∧
    (∀ r, (readFlush s sid).2 = some r → ∀ f, r ≠ .ready (.ok f)) := by
  unfold readFlush
  split
  · split
    · have hf := Inv_pollFlush hi
      rcases hpf : pollFlush s with ⟨s2, r2⟩
      rw [hpf] at hf
      simp only at hf
      cases r2 with
      | pending => exact ⟨hf.1, hf.2.1, hf.2.2, by intro r hr f; simp at hr; subst hr; simp⟩
      | ready e =>
        cases e with
        | error k => exact ⟨hf.1, hf.2.1, hf.2.2, by intro r hr f; simp at hr; subst hr; simp⟩
        | ok u => exact ⟨Inv_congr hf.1 rfl rfl rfl rfl, hf.2.1, hf.2.2, by simp⟩
    · exact ⟨hi, rfl, rfl, by simp⟩
  · exact ⟨hi, rfl, rfl, by simp⟩

/-- `poll_read_frame`: invariant kept, `cfg`/`blocking` untouched, and a frame is only ever handed
out while no substream blocks -/
theorem Inv_readFrame {s : State} (hi : Inv s) (sid : Option Sid) :
    Inv (readFrame s sid).1 ∧ (readFrame s sid).1.cfg = s.cfg ∧ (readFrame s sid).1.blocking = s.blocking ∧
    (∀ f, (readFrame s sid).2 = .ready (.ok f) → s.blocking = none) := by
  unfold readFrame
  have h := Inv_sendPending hi
  rcases hsp : sendPending s with ⟨s1, r⟩
  rw [hsp] at h
  simp only at h
  obtain ⟨h1, h2, h3⟩ := h
  have rest : 
      let res : State × R Frame := match readFlush s1 sid with
        | (s, some r) => (s, r)
        | (s, none) => readTail s
      Inv res.1 ∧ res.1.cfg = s.cfg ∧ res.1.blocking = s.blocking ∧
      (∀ f, res.2 = .ready (.ok f) → s.blocking = none) := by
    have hf := Inv_readFlush h1 sid
    rcases hrf : readFlush s1 sid with ⟨s2, o⟩
    rw [hrf] at hf
    simp only at hf
    cases o with
    | some r =>
      exact ⟨hf.1, by rw [hf.2.1, h2], by rw [hf.2.2.1, h3], fun f hr => absurd hr (hf.2.2.2 r rfl f)⟩
    | none =>
      have ht := Inv_readTail hf.1
      exact ⟨ht.1, by rw [ht.2.1, hf.2.1, h2], by rw [ht.2.2.1, hf.2.2.1, h3],
        fun f hr => by have := ht.2.2.2 f hr; rw [hf.2.2.1, h3] at this; exact this⟩
  cases r with
  | ready e =>
    cases e with
    | error k => exact ⟨h1, h2, h3, by simp⟩
    | ok u => exact rest
  | pending => exact rest

end C26
