import Libp2pModel.Model.C58
/-!
# C58 — `on_swarm_event`, the four `handle_*` chains, `poll`: closed forms for every field list
-/
namespace C58

/-! ### on_swarm_event -/

theorem onSwarmFrom_eq (ev : String) (fs : List Probe) (i : Nat) :
    onSwarmFrom ev i fs = (List.range' i fs.length).map fun j => Entry.swarm j ev := by
  induction fs generalizing i with
  | nil => rfl
  | cons f fs ih => simp [onSwarmFrom, ih, List.range'_succ]

/-! ### early-exit chains -/

/-- the calls a chain makes, as a function of the fields' answers alone -/
def logFrom (pt : Point) (c : Nat) : Nat → List Bool → List Entry
  | _, [] => []
  | i, true :: _ => [.decide pt i c true]
  | i, false :: ds => .decide pt i c false :: logFrom pt c (i + 1) ds

/-- the accumulator when nobody denies -/
def foldIdx {α : Type} (step : α → Nat → Probe → α) : Nat → α → List Probe → α
  | _, acc, [] => acc
  | i, acc, f :: fs => foldIdx step (i + 1) (step acc i f) fs

def denies (pt : Point) (fs : List Probe) : List Bool := fs.map fun f => pt.deny f.script

theorem chain_log {α : Type} (pt : Point) (c : Nat) (step : α → Nat → Probe → α)
    (fs : List Probe) (i : Nat) (acc : α) :
    (chain pt c step i acc fs).1 = logFrom pt c i (denies pt fs) := by
  induction fs generalizing i acc with
  | nil => rfl
  | cons f fs ih =>
    simp only [chain, denies, List.map_cons]
    cases h : pt.deny f.script
    · simp [logFrom]; exact ih _ _
    · simp [logFrom]

theorem chain_ret {α : Type} (pt : Point) (c : Nat) (step : α → Nat → Probe → α)
    (fs : List Probe) (i : Nat) (acc : α) :
    (chain pt c step i acc fs).2 =
      if (denies pt fs).any id then none else some (foldIdx step i acc fs) := by
  induction fs generalizing i acc with
  | nil => rfl
  | cons f fs ih =>
    have ih' := ih (i + 1) (step acc i f)
    simp only [denies] at ih'
    simp only [chain, denies, List.map_cons, List.any_cons, foldIdx]
    cases h : pt.deny f.script
    · simp only [Bool.false_eq_true, ↓reduceIte, id_eq, Bool.false_or]; exact ih'
    · simp

theorem firstDeny_cons_false (ds : List Bool) : firstDeny (false :: ds) = (firstDeny ds).map (· + 1) := by
  simp [firstDeny, List.findIdx?_cons]

theorem firstDeny_cons_true (ds : List Bool) : firstDeny (true :: ds) = some 0 := by
  simp [firstDeny, List.findIdx?_cons]

theorem firstDeny_isSome (ds : List Bool) : (firstDeny ds).isSome = ds.any id := by
  induction ds with
  | nil => rfl
  | cons d ds ih =>
    cases d
    · rw [firstDeny_cons_false]; simp [← ih]
    · rw [firstDeny_cons_true]; simp

/-- closed form of the call log: fields `i … i+k-1` before the first denier `k` answer ok, the
denier is asked, nobody after it; without a denier everybody is asked -/
theorem logFrom_eq (pt : Point) (c : Nat) (ds : List Bool) (i : Nat) :
    logFrom pt c i ds =
      match firstDeny ds with
      | some k => (List.range' i k).map (fun j => Entry.decide pt j c false) ++ [.decide pt (i + k) c true]
      | none => (List.range' i ds.length).map fun j => Entry.decide pt j c false := by
  induction ds generalizing i with
  | nil => simp [logFrom, firstDeny]
  | cons d ds ih =>
    cases d
    · rw [firstDeny_cons_false, logFrom, ih (i + 1)]
      cases h : firstDeny ds with
      | none => simp [List.range'_succ]
      | some k =>
        simp only [Option.map_some, List.range'_succ, List.map_cons, List.cons_append]
        have : i + 1 + k = i + (k + 1) := by omega
        rw [this]
    · rw [firstDeny_cons_true]; simp [logFrom]

theorem logFrom_zero (pt : Point) (c : Nat) (ds : List Bool) :
    logFrom pt c 0 ds = expectLog pt c ds.length ds := by
  rw [logFrom_eq, expectLog]
  cases firstDeny ds <;> simp [List.range_eq_range']

theorem foldIdx_addrs (fs : List Probe) (i : Nat) (acc : List String) :
    foldIdx (fun acc _ f => acc ++ f.script.addrs) i acc fs = acc ++ (fs.map (·.script.addrs)).flatten := by
  induction fs generalizing i acc with
  | nil => simp [foldIdx]
  | cons f fs ih => simp [foldIdx, ih, List.append_assoc]

/-! ### poll -/

theorem pollFrom_spec (user : Bool) (len : Nat) (fs : List Probe) (i : Nat) :
    match firstPop (fs.map (·.queue)) with
    | none => pollFrom user len i fs = none
    | some (j, cmd, qs) =>
      ∃ fs', pollFrom user len i fs = some (mapCmd user len (i + j) cmd, fs') ∧
        fs'.map (·.queue) = qs ∧ fs'.map (·.script) = fs.map (·.script) := by
  induction fs generalizing i with
  | nil => simp [firstPop, pollFrom]
  | cons f fs ih =>
    cases hq : f.queue with
    | cons cmd q =>
      simp only [List.map_cons, hq, firstPop]
      exact ⟨{ f with queue := q } :: fs, by simp [pollFrom, hq], by simp, by simp⟩
    | nil =>
      simp only [List.map_cons, hq, firstPop]
      have := ih (i + 1)
      cases hp : firstPop (fs.map (·.queue)) with
      | none =>
        rw [hp] at this
        simp only at this ⊢
        simp [pollFrom, hq, this]
      | some r =>
        obtain ⟨j, cmd, qs⟩ := r
        rw [hp] at this
        obtain ⟨fs', h1, h2, h3⟩ := this
        simp only
        refine ⟨f :: fs', ?_, by simp [h2, hq], by simp [h3]⟩
        simp only [pollFrom, hq, h1]
        have : i + 1 + j = i + (j + 1) := by omega
        rw [this]

/-- what `firstPop` means: the least index with a non-empty queue, its head, only that head removed -/
theorem firstPop_some {α : Type} (qs : List (List α)) (i : Nat) (v : α) (qs' : List (List α))
    (h : firstPop qs = some (i, v, qs')) :
    (∀ j, j < i → qs[j]? = some []) ∧ (∃ q, qs[i]? = some (v :: q) ∧ qs' = qs.set i q) := by
  induction qs generalizing i qs' with
  | nil => simp [firstPop] at h
  | cons q qs ih =>
    cases q with
    | cons w q =>
      simp only [firstPop, Option.some.injEq, Prod.mk.injEq] at h
      obtain ⟨rfl, rfl, rfl⟩ := h
      exact ⟨by intro j hj; omega, q, by simp, by simp⟩
    | nil =>
      simp only [firstPop] at h
      cases hp : firstPop qs with
      | none => simp [hp] at h
      | some r =>
        obtain ⟨i0, v0, q0⟩ := r
        simp only [hp, Option.some.injEq, Prod.mk.injEq] at h
        obtain ⟨rfl, rfl, rfl⟩ := h
        obtain ⟨h1, q, h2, h3⟩ := ih i0 q0 hp
        refine ⟨?_, q, by simpa using h2, by simp [h3]⟩
        intro j hj
        cases j with
        | zero => simp
        | succ j => simpa using h1 j (by omega)

theorem firstPop_none {α : Type} (qs : List (List α)) (h : firstPop qs = none) : ∀ q ∈ qs, q = [] := by
  induction qs with
  | nil => simp
  | cons q qs ih =>
    cases q with
    | cons w q => simp [firstPop] at h
    | nil =>
      simp only [firstPop] at h
      cases hp : firstPop qs with
      | none => simpa using ih hp
      | some r => obtain ⟨a, b, c⟩ := r; simp [hp] at h

end C58
