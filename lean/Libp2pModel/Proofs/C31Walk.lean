import Libp2pModel.Proofs.C31Lemmas
/-!
# C31 — helper lemmas: the field walk, the inner parse, one decode step on a frame / a partial frame
-/
namespace C31

theorem consume_len' (tag : Nat) (payload rest : List Nat) (h : payload.length < 2 ^ 64) :
    consumeMessage .len tag (Varint.encode payload.length ++ (payload ++ rest)) = some rest := by
  rw [← List.append_assoc]; exact consume_len tag payload rest h

theorem encField_append (f : Field) (tl : List Nat) :
    encField f ++ tl =
      Varint.encode (f.tag * 8 + 2) ++ (Varint.encode f.payload.length ++ (f.payload ++ tl)) := by
  unfold encField; simp [List.append_assoc]

theorem encField_append_length (f : Field) (tl : List Nat) :
    (encField f ++ tl).length - tl.length = (encField f).length := by simp

/-- one iteration of the `validate_rpc_limits` loop on a well-formed length-delimited field -/
theorem walk_field (L : Limits) (f : Field) (tl : List Nat) (k pc cs : Nat) (hwf : f.wf) :
    walk L (k + 1) (encField f ++ tl) pc cs =
      if f.tag = 2 then
        (if pc + 1 > L.maxPublish then .err .tooManyPublish
         else match walk L k tl (pc + 1) cs with
           | .err e => .err e
           | .ok fs => .ok (tokOf f :: fs))
      else if f.tag = 1 ∨ f.tag = 3 then
        (if cs + (encField f).length > L.maxControl then .err .controlTooLarge
         else match walk L k tl pc (cs + (encField f).length) with
           | .err e => .err e
           | .ok fs => .ok (tokOf f :: fs))
      else match walk L k tl pc cs with
        | .err e => .err e
        | .ok fs => .ok (tokOf f :: fs) := by
  obtain ⟨h1, h2, h3⟩ := hwf
  have hne : (encField f ++ tl).isEmpty = false := by
    have := encField_ne_nil f
    cases h : encField f with
    | nil => exact absurd h this
    | cons a l => simp
  have hlen : ¬ ((encField f ++ tl).length < tl.length) := by simp
  rw [walk]
  simp only [hne, Bool.false_eq_true, ↓reduceIte]
  rw [encField_append, decodeKey_len _ _ h1 h2]
  simp only
  rw [consume_len' _ _ _ (by omega)]
  simp only
  rw [← encField_append]
  simp only [hlen, ↓reduceIte, encField_append_length, tokOf]
  rfl

/-- one iteration of the prost top-level merge loop on a well-formed length-delimited field -/
theorem parse_field (f : Field) (tl : List Nat) (k : Nat) (hwf : f.wf) :
    parse (k + 1) (encField f ++ tl) =
      match parse k tl with
      | .err e => .err e
      | .ok fs => .ok (tokOf f :: fs) := by
  obtain ⟨h1, h2, h3⟩ := hwf
  have hne : (encField f ++ tl).isEmpty = false := by
    have := encField_ne_nil f
    cases h : encField f with
    | nil => exact absurd h this
    | cons a l => simp
  rw [parse]
  simp only [hne, Bool.false_eq_true, ↓reduceIte]
  rw [encField_append, decodeKey_len _ _ h1 h2]
  simp only [ne_eq, not_true_eq_false, and_false, ↓reduceIte]
  rw [consume_len' _ _ _ (by omega)]
  simp only
  rw [← encField_append]
  simp only [encField_append_length, tokOf]
  rfl

theorem encRpc_cons (f : Field) (r : List Field) : encRpc (f :: r) = encField f ++ encRpc r := by
  simp [encRpc]

theorem publishCount_cons (f : Field) (r : List Field) :
    publishCount (f :: r) = (if f.tag = 2 then 1 else 0) + publishCount r := by
  unfold publishCount
  by_cases h : f.tag = 2 <;> simp [h] <;> omega

theorem controlBytes_cons (f : Field) (r : List Field) :
    controlBytes (f :: r) = (if f.tag = 1 ∨ f.tag = 3 then (encField f).length else 0) + controlBytes r := by
  unfold controlBytes
  by_cases h : f.tag = 1 ∨ f.tag = 3 <;> simp [h]

/-- the limit walk accepts an RPC within the publish and control limits -/
theorem walk_enc (L : Limits) (r : List Field) : ∀ (fuel pc cs : Nat), (∀ f ∈ r, f.wf) →
    (encRpc r).length ≤ fuel → pc + publishCount r ≤ L.maxPublish → cs + controlBytes r ≤ L.maxControl →
    walk L fuel (encRpc r) pc cs = .ok (r.map tokOf) := by
  induction r with
  | nil =>
    intro fuel pc cs _ _ _ _
    cases fuel <;> simp [encRpc, walk]
  | cons f r ih =>
    intro fuel pc cs hwf hfuel hp hc
    rw [encRpc_cons] at hfuel ⊢
    have hfl : 0 < (encField f).length := by
      have := encField_ne_nil f
      cases h : encField f with
      | nil => exact absurd h this
      | cons a l => simp
    have hfuel' : (encField f).length + (encRpc r).length ≤ fuel := by
      rw [List.length_append] at hfuel; exact hfuel
    cases fuel with
    | zero => omega
    | succ k =>
      rw [walk_field L f _ k pc cs (hwf f (by simp))]
      rw [publishCount_cons] at hp
      rw [controlBytes_cons] at hc
      have hwf' : ∀ g ∈ r, g.wf := fun g hg => hwf g (by simp [hg])
      have hk : (encRpc r).length ≤ k := by omega
      by_cases h2 : f.tag = 2
      · simp only [h2, ↓reduceIte] at hp ⊢
        have h13 : ¬ ((2 : Nat) = 1 ∨ (2 : Nat) = 3) := by omega
        rw [if_neg (by omega)]
        rw [ih k (pc + 1) cs hwf' hk (by omega) (by simpa [h2, h13] using hc)]
        simp
      · simp only [h2, ↓reduceIte] at hp ⊢
        by_cases h13 : f.tag = 1 ∨ f.tag = 3
        · simp only [h13, ↓reduceIte] at hc ⊢
          rw [if_neg (by omega)]
          rw [ih k pc (cs + (encField f).length) hwf' hk (by omega) (by omega)]
          simp
        · simp only [h13, ↓reduceIte] at hc ⊢
          rw [ih k pc cs hwf' hk (by omega) (by omega)]
          simp

/-- the limit walk rejects an RPC that exceeds the publish or the control limit
(`pc ≤ maxPublish`, `cs ≤ maxControl` are the loop's invariants; initially both are 0) -/
theorem walk_enc_reject (L : Limits) (r : List Field) : ∀ (fuel pc cs : Nat), (∀ f ∈ r, f.wf) →
    (encRpc r).length ≤ fuel → pc ≤ L.maxPublish → cs ≤ L.maxControl →
    (L.maxPublish < pc + publishCount r ∨ L.maxControl < cs + controlBytes r) →
    walk L fuel (encRpc r) pc cs = .err .tooManyPublish ∨ walk L fuel (encRpc r) pc cs = .err .controlTooLarge := by
  induction r with
  | nil =>
    intro fuel pc cs _ _ hp hc h
    simp [publishCount, controlBytes] at h
    omega
  | cons f r ih =>
    intro fuel pc cs hwf hfuel hp hc h
    rw [encRpc_cons] at hfuel ⊢
    have hfl : 0 < (encField f).length := by
      have := encField_ne_nil f
      cases h : encField f with
      | nil => exact absurd h this
      | cons a l => simp
    have hfuel' : (encField f).length + (encRpc r).length ≤ fuel := by
      rw [List.length_append] at hfuel; exact hfuel
    cases fuel with
    | zero => omega
    | succ k =>
      rw [walk_field L f _ k pc cs (hwf f (by simp))]
      rw [publishCount_cons, controlBytes_cons] at h
      have hwf' : ∀ g ∈ r, g.wf := fun g hg => hwf g (by simp [hg])
      have hk : (encRpc r).length ≤ k := by omega
      by_cases h2 : f.tag = 2
      · simp only [h2, ↓reduceIte] at h ⊢
        have e13 : (if (2 : Nat) = 1 ∨ (2 : Nat) = 3 then (encField f).length else 0) = 0 := by simp
        rw [e13] at h
        split
        · exact Or.inl rfl
        · rcases ih k (pc + 1) cs hwf' hk (by omega) hc (by omega) with h' | h' <;> rw [h'] <;> simp
      · simp only [h2, ↓reduceIte] at h ⊢
        by_cases h13 : f.tag = 1 ∨ f.tag = 3
        · simp only [h13, ↓reduceIte] at h ⊢
          split
          · exact Or.inr rfl
          · rcases ih k pc (cs + (encField f).length) hwf' hk hp (by omega) (by omega) with h' | h' <;>
              rw [h'] <;> simp
        · simp only [h13, ↓reduceIte] at h ⊢
          rcases ih k pc cs hwf' hk hp hc (by omega) with h' | h' <;> rw [h'] <;> simp

theorem parse_enc (r : List Field) : ∀ (fuel : Nat), (∀ f ∈ r, f.wf) → (encRpc r).length ≤ fuel →
    parse fuel (encRpc r) = .ok (r.map tokOf) := by
  induction r with
  | nil => intro fuel _ _; cases fuel <;> simp [encRpc, parse]
  | cons f r ih =>
    intro fuel hwf hfuel
    rw [encRpc_cons] at hfuel ⊢
    have hfl : 0 < (encField f).length := by
      have := encField_ne_nil f
      cases h : encField f with
      | nil => exact absurd h this
      | cons a l => simp
    have hfuel' : (encField f).length + (encRpc r).length ≤ fuel := by
      rw [List.length_append] at hfuel; exact hfuel
    cases fuel with
    | zero => omega
    | succ k =>
      rw [parse_field f _ k (hwf f (by simp))]
      rw [ih k (fun g hg => hwf g (by simp [hg])) (by omega)]
      simp

end C31
