import Libp2pModel.Proofs.C39_DOuter
/-!
# C39 — disjoint iterator: a path that finishes by itself is closed; a finished iterator is inert
-/
namespace C39

/-- the finished-closed clause for one (finished) path -/
def Closed (it : Iter) : Prop :=
  ∀ q st, find it.closest q = some st →
    ((result it).length < it.cfg.numResults ∨ ∃ f, (result it).getLast? = some f ∧ q < f) →
    st ≠ .notContacted ∧ isWaiting st = false

theorem next_closed {s : Iter} (h : Inv s) (hf : s.state ≠ .finished) (now : Nat)
    (hfin : (next s now).1.state = .finished) : Closed (next s now).1 := by
  have hout : (next s now).2 = .finished := by
    rcases next_out_state h hf now with ⟨h1, _⟩ | ⟨_, h2⟩
    · exact h1
    · rw [h2] at hfin; exact absurd hfin hf
  intro q st hq hrel
  rw [next_cfg] at hrel
  exact finished_closed h hf now hout q st hq hrel

theorem onSuccess_state {s : Iter} (hf : s.state ≠ .finished) (p : Nat) (closer : List Nat) :
    (onSuccess s p closer).1.state ≠ .finished := by
  simp only [onSuccess, hf, if_false]
  split
  · exact hf
  · split
    · exact hf
    · simp only [succeed]; exact nextState_ne_finished _ hf _
  · simp only [succeed]; exact nextState_ne_finished _ hf _
  · exact hf

theorem onFailure_state {s : Iter} (hf : s.state ≠ .finished) (p : Nat) :
    (onFailure s p).1.state ≠ .finished := by
  simp only [onFailure, hf, if_false]
  (repeat' split) <;> exact hf

theorem onSuccess_finished {s : Iter} (hf : s.state = .finished) (p : Nat) (closer : List Nat) :
    onSuccess s p closer = (s, .bool false) := by simp [onSuccess, hf]

theorem onFailure_finished {s : Iter} (hf : s.state = .finished) (p : Nat) :
    onFailure s p = (s, .bool false) := by simp [onFailure, hf]

theorem finish_finished {s : Iter} (hf : s.state = .finished) : finish s = s := by
  cases s; simp only [finish] at *; simp_all

end C39

namespace C39.Disjoint
open C39 (Out Cfg Inv Closed)

/-- a finished path is not touched by the inner loop -/
theorem innerLoop_finished (now : Nat) (ct : List (Nat × Nat × Resp)) (fuel : Nat) (it : C39.Iter) (acc : Acc)
    (hf : it.state = .finished) : innerLoop now ct (fuel + 1) it acc = (it, .brk acc) := by
  simp only [innerLoop, C39.next_finished hf]

/-- a path that goes from unfinished to finished inside the inner loop is closed -/
theorem innerLoop_closed (now : Nat) (ct : List (Nat × Nat × Resp)) :
    ∀ (fuel : Nat) (it : C39.Iter) (acc : Acc), Inv it → it.state ≠ .finished →
      (innerLoop now ct fuel it acc).1.state = .finished → Closed (innerLoop now ct fuel it acc).1 := by
  intro fuel
  induction fuel with
  | zero => intro it acc _ hf hfin; simp only [innerLoop] at hfin; exact absurd hfin hf
  | succ fuel ih =>
    intro it acc h hf hfin
    have h' := h.next now
    have hos := C39.next_out_state h hf now
    simp only [innerLoop] at hfin ⊢
    rcases C39.next_out_kind h now with ⟨p, hout⟩ | hout | hout
    · have hst : (C39.next it now).1.state = it.state := by
        rcases hos with ⟨h1, _⟩ | ⟨_, h2⟩
        · rw [hout] at h1; simp at h1
        · exact h2
      have hf' : (C39.next it now).1.state ≠ .finished := by rw [hst]; exact hf
      cases p with
      | none => rw [hout] at hfin; simp only at hfin; exact absurd hfin hf'
      | some p =>
        rw [hout] at hfin ⊢
        simp only at hfin ⊢
        cases hc : cfind ct p with
        | none => rw [hc] at hfin; simp only at hfin; exact absurd hfin hf'
        | some v =>
          obtain ⟨by_, resp⟩ := v
          rw [hc] at hfin
          cases resp with
          | waiting => exact ih _ acc h' hf' hfin
          | succeeded =>
            have hs := h'.onSuccess p []
            simp only [hs.2, if_false] at hfin ⊢
            exact ih _ acc hs.1 (C39.onSuccess_state hf' p []) hfin
          | failed =>
            have hs := h'.onFailure p
            simp only [hs.2, if_false] at hfin ⊢
            exact ih _ acc hs.1 (C39.onFailure_state hf' p) hfin
    · have hst : (C39.next it now).1.state = it.state := by
        rcases hos with ⟨h1, _⟩ | ⟨_, h2⟩
        · rw [hout] at h1; simp at h1
        · exact h2
      rw [hout] at hfin; simp only at hfin
      rw [hst] at hfin; exact absurd hfin hf
    · rw [hout] at hfin ⊢
      simp only at hfin ⊢
      exact C39.next_closed h hf now hfin

/-- relation "finished paths stay as they are; a path that becomes finished is closed" -/
def FinRel (a b : C39.Iter) : Prop :=
  (a.state = .finished → b = a) ∧ (a.state ≠ .finished → b.state = .finished → Closed b)

theorem FinRel.refl (x : C39.Iter) : FinRel x x := ⟨fun _ => rfl, fun h1 h2 => absurd h2 h1⟩

theorem FinRel.trans (a b c : C39.Iter) (h1 : FinRel a b) (h2 : FinRel b c) : FinRel a c := by
  refine ⟨fun ha => ?_, fun ha hc => ?_⟩
  · have hb := h1.1 ha
    rw [hb] at h2
    exact h2.1 ha
  · by_cases hb : b.state = .finished
    · have := h2.1 hb
      rw [this]; exact h1.2 ha hb
    · exact h2.2 hb hc

theorem innerLoop_finrel (now : Nat) (ct : List (Nat × Nat × Resp)) (fuel : Nat) (it : C39.Iter) (acc : Acc)
    (h : Inv it) (hlt : C39.countNC it.closest < fuel) : FinRel it (innerLoop now ct fuel it acc).1 := by
  refine ⟨fun hf => ?_, fun hf hfin => innerLoop_closed now ct fuel it acc h hf hfin⟩
  cases fuel with
  | zero => omega
  | succ fuel => rw [innerLoop_finished now ct fuel it acc hf]

/-- **Paths that finish by themselves are closed; finished paths are never touched again**:
for the path at any index, across one call of `next` -/
theorem next_paths {cfg : Cfg} {d : DIter} (h : DInv cfg d) (now : Nat) (i : Nat) (it : C39.Iter)
    (hi : d.iters[i]? = some it) :
    ∃ it', (next d now).1.iters[i]? = some it' ∧ FinRel it it' :=
  outer_rel FinRel FinRel.refl FinRel.trans now
    (fun ct fuel it acc hinv hlt => innerLoop_finrel now ct fuel it acc hinv hlt)
    d.iters.length d .none h i it hi

theorem mapOthers_id (f : C39.Iter → C39.Iter) (skip : Nat) :
    ∀ (l : List C39.Iter) (j : Nat), (∀ x ∈ l, f x = x) → mapOthers f skip j l = l := by
  intro l
  induction l with
  | nil => intro j _; rfl
  | cons a t ih =>
    intro j h
    simp only [mapOthers]
    rw [ih (j + 1) (fun x hx => h x (List.mem_cons_of_mem _ hx)), h a List.mem_cons_self]
    simp

/-- the outer loop over finished paths changes nothing but the round-robin position -/
theorem outer_finished (now : Nat) : ∀ (rounds : Nat) (d : DIter) (acc : Acc),
    (∀ it ∈ d.iters, it.state = .finished) → d.pos < d.iters.length →
    outer now rounds d acc = ({ d with pos := (d.pos + rounds) % d.iters.length },
      match acc with
      | .none => .finished
      | .waitingNone => .waiting none
      | .atCap => .atCapacity) := by
  intro rounds
  induction rounds with
  | zero =>
    intro d acc _ hpos
    simp only [outer, Nat.add_zero, Nat.mod_eq_of_lt hpos]
    rfl
  | succ r ih =>
    intro d acc hall hpos
    simp only [outer]
    have hget : d.iters[d.pos]? = some d.iters[d.pos] := List.getElem?_eq_getElem hpos
    rw [hget]
    simp only
    have hf := hall d.iters[d.pos] (List.getElem_mem hpos)
    rw [innerLoop_finished now d.contacted _ _ acc hf]
    simp only
    rw [set_of_getElem? d.iters d.pos _ hget]
    have := ih ⟨d.iters, (d.pos + 1) % d.iters.length, d.contacted⟩ acc hall (Nat.mod_lt _ (by omega))
    simp only at this
    rw [this]
    congr 2
    rw [Nat.mod_add_mod]
    congr 1
    omega

/-- **A finished disjoint iterator is inert**: `next` keeps returning `Finished`, late
`on_success`/`on_failure` return `false`, and no call changes the state. -/
theorem finished_inert {cfg : Cfg} {d : DIter} (h : DInv cfg d) (hfin : isFinished d = true) (op : Op) :
    (step d op).1 = d ∧
    (step d op).2 = (match op with
      | .next _ => .finished
      | .success _ _ => .bool false
      | .failure _ => .bool false
      | .finishPaths _ => .bool true
      | .finish => .unit) := by
  have hall : ∀ it ∈ d.iters, it.state = .finished := by
    simp only [isFinished, List.all_eq_true, C39.isFinished, decide_eq_true_eq] at hfin
    exact hfin
  cases op with
  | next now =>
    simp only [step, next]
    rw [outer_finished now d.iters.length d .none hall h.pos]
    have : (d.pos + d.iters.length) % d.iters.length = d.pos := by
      rw [Nat.add_mod_right]; exact Nat.mod_eq_of_lt h.pos
    simp [this]
  | success p closer =>
    simp only [step, onSuccess]
    cases hc : cfind d.contacted p with
    | none => simp
    | some v =>
      obtain ⟨by_, resp⟩ := v
      simp only
      have hby : by_ < d.iters.length := h.by_ok _ (cfind_mem hc)
      have hget : d.iters[by_]? = some d.iters[by_] := List.getElem?_eq_getElem hby
      rw [hget]
      simp only
      have hf := hall d.iters[by_] (List.getElem_mem hby)
      rw [C39.onSuccess_finished hf]
      simp only [reduceCtorEq, if_false, decide_false, Bool.false_eq_true]
      rw [set_of_getElem? d.iters by_ _ hget,
        mapOthers_id _ by_ d.iters 0 (fun x hx => by rw [C39.onSuccess_finished (hall x hx)])]
      exact ⟨rfl, rfl⟩
  | failure p =>
    simp only [step, onFailure]
    cases hc : cfind d.contacted p with
    | none => simp
    | some v =>
      obtain ⟨by_, resp⟩ := v
      simp only
      have hby : by_ < d.iters.length := h.by_ok _ (cfind_mem hc)
      have hget : d.iters[by_]? = some d.iters[by_] := List.getElem?_eq_getElem hby
      rw [hget]
      simp only
      have hf := hall d.iters[by_] (List.getElem_mem hby)
      rw [C39.onFailure_finished hf]
      simp only [reduceCtorEq, if_false, decide_false, Bool.false_eq_true]
      rw [set_of_getElem? d.iters by_ _ hget,
        mapOthers_id _ by_ d.iters 0 (fun x hx => by rw [C39.onFailure_finished (hall x hx)])]
      exact ⟨rfl, rfl⟩
  | finishPaths ps =>
    simp only [step, finishPaths]
    have hfold : ∀ (ps : List Nat), (ps.foldl (fun (d : DIter) p =>
        match cfind d.contacted p with
        | some (by_, _) =>
          match d.iters[by_]? with
          | some it => { d with iters := d.iters.set by_ (C39.finish it) }
          | none => d
        | none => d) d) = d := by
      intro ps
      induction ps with
      | nil => rfl
      | cons q t ih =>
        simp only [List.foldl_cons]
        have : (match cfind d.contacted q with
            | some (by_, _) =>
              match d.iters[by_]? with
              | some it => { d with iters := d.iters.set by_ (C39.finish it) }
              | none => d
            | none => d) = d := by
          split
          · split
            · rename_i it hg
              rw [C39.finish_finished (hall it (List.mem_of_getElem? hg)), set_of_getElem? _ _ _ hg]
            · rfl
          · rfl
        rw [this]; exact ih
    refine ⟨hfold ps, ?_⟩
    exact (congrArg (fun x => Out.bool (isFinished x)) (hfold ps)).trans (by rw [hfin])
  | finish =>
    simp only [step, finish]
    refine ⟨?_, by first | rfl | trivial⟩
    have : d.iters.map C39.finish = d.iters := by
      rw [List.map_congr_left (fun x hx => C39.finish_finished (hall x hx))]; simp
    rw [this]

end C39.Disjoint
