import Libp2pModel.Proofs.C37MonD
/-!
# C37 — monitor proof, part E: every API call is accepted and preserves the relation
-/
namespace C37

theorem bump_applied (t : Table) : t.bump.applied = t.applied := rfl
theorem bump_now (t : Table) : t.bump.now = t.now := rfl
theorem bump_ops (t : Table) : t.bump.ops = t.ops + 1 := rfl
theorem setBucket_applied (t : Table) (i : Nat) (b : Bucket) : (t.setBucket i b).applied = t.applied := rfl
theorem setBucket_now (t : Table) (i : Nat) (b : Bucket) : (t.setBucket i b).now = t.now := rfl

theorem replaced_bump_self (t1 : Table) (i : Nat) : Replaced t1 t1.bump i (t1.bucket i) :=
  ⟨fun j => by rw [bump_bucket]; split <;> simp_all⟩

theorem replaced_set (t1 : Table) (i : Nat) (b2 : Bucket) (hi : i < t1.buckets.length) :
    Replaced t1 (t1.setBucket i b2).bump i b2 :=
  ⟨fun j => by rw [bump_bucket, bucket_setBucket t1 i j b2 hi]⟩

theorem pendOK_refl (b : Bucket) : PendOK b b := fun p hp => ⟨p, hp, rfl, rfl⟩

theorem pendOK_of_eq {b1 b2 : Bucket} (h : b2.pending = none ∨ b2.pending = b1.pending) : PendOK b1 b2 := by
  intro p hp
  rcases h with h | h
  · rw [h] at hp; cases hp
  · rw [h] at hp; exact ⟨p, hp, rfl, rfl⟩

/-- an `Inserted` result means there was room -/
theorem inserted_room {l i B : Nat} {b : Bucket} (h : BInv l i B b) (node : Node) (st : Status) (now : Nat)
    (hr : (b.insert node st now).2 = .inserted) : b.nodes.length < b.capacity := by
  apply Classical.byContradiction
  intro hn
  have hfull : b.capacity ≤ b.nodes.length := by omega
  unfold Bucket.insert at hr
  cases st with
  | disconnected => simp only [hfull, if_true] at hr; cases hr
  | connected =>
    simp only [hfull, if_true] at hr
    split at hr
    · cases hr
    · split at hr <;> cases hr

/-- the common prefix of every keyed call: `entry()`/`bucket()` apply the pending entry of the key's
bucket -/
theorem keyed_prefix {m : Mon} {t : Table} (hR : MonR m t) (h : TInv t) {key : Nat} (hk : key < 2 ^ 256)
    {i : Nat} (hidx : bucketIndex (t.localKey ^^^ key) = some i) :
    i < 256 ∧ t.access key = some (i, applyList t [i]) ∧
    (((applyList t [i]).applied.map obsAp).findSome? (pendingRule m) = none) ∧
    Phase m t (applyList t [i]) (((applyList t [i]).applied.map obsAp).foldl (applyAp m.prev m.step) m.assigned) := by
  have hi : i < 256 := bucketIndex_lt h.localLt hk hidx
  obtain ⟨aps, h1, h2, h3, _, _⟩ := apply_phase hR h [i] t m.assigned (by simp) (by simpa using hi)
    (fun _ _ => rfl) (Phase.init hR h)
  rw [hR.applied, List.nil_append] at h1
  rw [h1]
  exact ⟨hi, access_eq_applyList hidx, h2, h3⟩

/-- closing a keyed call, given the value `E` of the monitor's op effect -/
theorem close_keyed {m : Mon} {t : Table} (hR : MonR m t) (h : TInv t) (op : Op) (hv : op.Valid)
    {t1 ts : Table} {r : OpResult} (hstep : t.step op = (ts, r)) (happ : ts.applied = t1.applied)
    (hrule : (t1.applied.map obsAp).findSome? (pendingRule m) = none)
    (hops : ts.ops = t.ops + 1) (hnow : ts.now = t.now)
    (E : List (Nat × Bool × Nat) × List (Nat × Nat) × Nat)
    (hE : opEffect m ((t1.applied.map obsAp).foldl (applyAp m.prev m.step) m.assigned)
      ⟨mopOf op, mresOf op r, t1.applied.map obsAp, ts.mdump⟩ = E)
    (hEnow : E.2.2 = m.now) (hasg : AsgT E.1 ts) (hcre : CreT E.2.1 m.timeout ts) :
    (monStep m (t.observe op).2).2 = none ∧ MonR (monStep m (t.observe op).2).1 (t.observe op).1 := by
  have h1 : (t.step op).1 = ts := by rw [hstep]
  have hobs : (t.observe op).2 = ⟨mopOf op, mresOf op r, t1.applied.map obsAp, ts.mdump⟩ := by
    simp only [Table.observe, hstep, Table.drain, happ]
    rfl
  apply close_step hR h op hv
  · rw [h1]; exact hops
  · rw [h1, happ]; exact hrule
  · rw [h1, happ, hobs, hE]
    exact ⟨hasg, hcre, by rw [hEnow, hR.now, hnow]⟩

/-- **every API call**: the monitor accepts the model's observation and the relation is preserved -/
theorem step_accepts {m : Mon} {t : Table} (hR : MonR m t) (h : TInv t) (op : Op) (hv : op.Valid) :
    (monStep m (t.observe op).2).2 = none ∧ MonR (monStep m (t.observe op).2).1 (t.observe op).1 := by
  -- the case "the key is the local key" (no bucket is touched), shared by all keyed calls
  have hlocal : ∀ (key : Nat), bucketIndex (t.localKey ^^^ key) = none → t.access key = none := by
    intro key hb; simp [Table.access, hb]
  cases op with
  | advance n =>
    apply close_step hR h _ hv
    · rfl
    · show ((t.applied).map obsAp).findSome? (pendingRule m) = none
      rw [hR.applied]; rfl
    · show AsgT (opEffect m ((t.applied.map obsAp).foldl (applyAp m.prev m.step) m.assigned) _).1 _ ∧ _
      rw [hR.applied]
      refine ⟨hR.asg, hR.cre, ?_⟩
      show m.now + n = t.now + n
      rw [hR.now]
  | iter =>
    have hL : (List.range' 0 NUM_BUCKETS).Nodup := List.nodup_range'
    obtain ⟨aps, h1, h2, h3, _, _⟩ := apply_phase hR h (List.range' 0 NUM_BUCKETS) t m.assigned hL
      (fun i hi => by simp [NUM_BUCKETS] at hi; omega) (fun _ _ => rfl) (Phase.init hR h)
    rw [hR.applied, List.nil_append] at h1
    have hst : (t.step .iter).1 = (applyList t (List.range' 0 NUM_BUCKETS)).bump := by
      simp only [Table.step, iterFrom_eq_applyList]
    apply close_step hR h _ hv
    · rw [hst, bump_ops, h3.ops]
    · rw [hst, bump_applied, h1]; exact h2
    · rw [hst]
      simp only [bump_applied, h1]
      refine ⟨fun i hi => by rw [bump_bucket]; exact h3.asg i hi, ?_, ?_⟩
      · intro i hi p hp
        rw [bump_bucket] at hp
        exact creT_of_phase hR h3 i hi p hp
      · show m.now = _
        rw [bump_now, h3.now, hR.now]
  | lookup key =>
    have hk : key < 2 ^ 256 := hv
    cases hidx : bucketIndex (t.localKey ^^^ key) with
    | none =>
      have hst : (t.step (.lookup key)).1 = t.bump := by simp only [Table.step, hlocal key hidx]
      apply close_step hR h _ hv
      · rw [hst]; rfl
      · rw [hst, bump_applied, hR.applied]; rfl
      · rw [hst]; simp only [bump_applied, hR.applied]
        exact ⟨hR.asg, hR.cre, hR.now⟩
    | some i =>
      obtain ⟨hi, hacc, hrule, hP⟩ := keyed_prefix hR h hk hidx
      have hst : (t.step (.lookup key)).1 = (applyList t [i]).bump := by simp only [Table.step, hacc]
      apply close_step hR h _ hv
      · rw [hst, bump_ops, hP.ops]
      · rw [hst, bump_applied]; exact hrule
      · rw [hst]; simp only [bump_applied]
        refine ⟨fun j hj => by rw [bump_bucket]; exact hP.asg j hj, ?_, ?_⟩
        · intro j hj p hp
          rw [bump_bucket] at hp
          exact creT_of_phase hR hP j hj p hp
        · show m.now = _
          rw [bump_now, hP.now, hR.now]
  | bucketInfo key =>
    have hk : key < 2 ^ 256 := hv
    cases hidx : bucketIndex (t.localKey ^^^ key) with
    | none =>
      have hst : (t.step (.bucketInfo key)).1 = t.bump := by simp only [Table.step, hlocal key hidx]
      apply close_step hR h _ hv
      · rw [hst]; rfl
      · rw [hst, bump_applied, hR.applied]; rfl
      · rw [hst]; simp only [bump_applied, hR.applied]
        exact ⟨hR.asg, hR.cre, hR.now⟩
    | some i =>
      obtain ⟨hi, hacc, hrule, hP⟩ := keyed_prefix hR h hk hidx
      have hst : (t.step (.bucketInfo key)).1 = (applyList t [i]).bump := by simp only [Table.step, hacc]
      apply close_step hR h _ hv
      · rw [hst, bump_ops, hP.ops]
      · rw [hst, bump_applied]; exact hrule
      · rw [hst]; simp only [bump_applied]
        refine ⟨fun j hj => by rw [bump_bucket]; exact hP.asg j hj, ?_, ?_⟩
        · intro j hj p hp
          rw [bump_bucket] at hp
          exact creT_of_phase hR hP j hj p hp
        · show m.now = _
          rw [bump_now, hP.now, hR.now]
  | insert key value st =>
    have hk : key < 2 ^ 256 := hv
    cases hidx : bucketIndex (t.localKey ^^^ key) with
    | none =>
      have hst : t.step (.insert key value st) = (t.bump, .isLocal) := by
        simp only [Table.step, hlocal key hidx]
      exact close_keyed hR h _ hv (t1 := t) hst rfl (by rw [hR.applied]; rfl) rfl rfl _ rfl rfl
        (by rw [hR.applied]; exact hR.asg) hR.cre
    | some i =>
      obtain ⟨hi, hacc, hrule, hP⟩ := keyed_prefix hR h hk hidx
      have hb1 := hP.inv i hi
      have hcre1 := creT_of_phase hR hP
      have hilen : i < (applyList t [i]).buckets.length := by rw [hP.len]; exact hi
      cases hek : ((applyList t [i]).bucket i).entryKind key with
      | absent =>
        obtain ⟨hk1, hk2⟩ := entryKind_absent hek hb1
        have hst : t.step (.insert key value st) =
            (((applyList t [i]).setBucket i (((applyList t [i]).bucket i).insert
                ⟨key, value, st, 2 * t.ops + 1⟩ st t.now).1).bump,
              .insert (((applyList t [i]).bucket i).insert ⟨key, value, st, 2 * t.ops + 1⟩ st t.now).2) := by
          simp only [Table.step, hacc, hek]
        have hrep := replaced_set (applyList t [i]) i (((applyList t [i]).bucket i).insert
                ⟨key, value, st, 2 * t.ops + 1⟩ st t.now).1 hilen
        cases hr : (((applyList t [i]).bucket i).insert ⟨key, value, st, 2 * t.ops + 1⟩ st t.now).2 with
        | inserted =>
          have hroom := inserted_room hb1 _ st t.now hr
          obtain ⟨hperm, hpd⟩ := insert_frame hb1 ⟨key, value, st, 2 * t.ops + 1⟩ st t.now hroom
          obtain ⟨e1, e2⟩ := effect_set (c := (st == .connected)) (stamp := 2 * m.step + 1) (cr := m.created)
            (T := m.timeout) hi hidx hP.inv hP.asg hcre1 hrep
            (by
              intro n hn
              rcases List.mem_cons.1 (hperm.mem_iff.1 hn) with rfl | hn'
              · exact Or.inl ⟨rfl, rfl, by rw [hR.step]⟩
              · refine Or.inr ⟨hn', ?_⟩
                intro e
                exact hk1 (e ▸ List.mem_map.2 ⟨n, hn', rfl⟩))
            (pendOK_of_eq (Or.inr hpd))
          rw [hr] at hst
          exact close_keyed hR h _ hv hst rfl hrule (by rw [bump_ops, setBucket_ops, hP.ops])
            (by rw [bump_now, setBucket_now, hP.now]) _ rfl rfl e1 e2
        | pending d =>
          obtain ⟨hstc, _, _, _, _, hpn, hns⟩ := pending_created hb1 ⟨key, value, st, 2 * t.ops + 1⟩ st t.now d hr
          obtain ⟨e1, e2⟩ := effect_created (now := m.now) (cr := m.created) (T := m.timeout)
            (asg := (((applyList t [i]).applied.map obsAp).foldl (applyAp m.prev m.step) m.assigned))
            hi hidx hP.inv hP.asg hcre1 hrep hns
            (by
              intro p hp
              rw [hpn] at hp
              cases hp
              exact ⟨rfl, by rw [hP.tmo i hi, hR.now]⟩)
          rw [hr] at hst
          exact close_keyed hR h _ hv hst rfl hrule (by rw [bump_ops, setBucket_ops, hP.ops])
            (by rw [bump_now, setBucket_now, hP.now]) _ rfl rfl e1 e2
        | full =>
          have heq := insert_full_eq hb1 ⟨key, value, st, 2 * t.ops + 1⟩ st t.now hr
          obtain ⟨e1, e2⟩ := effect_none (cr := m.created) (T := m.timeout) hi hP.asg hcre1 hrep
            (by intro n hn; rw [heq] at hn; exact hn) (by rw [heq]; exact pendOK_refl _)
          rw [hr] at hst
          exact close_keyed hR h _ hv hst rfl hrule (by rw [bump_ops, setBucket_ops, hP.ops])
            (by rw [bump_now, setBucket_now, hP.now]) _ rfl rfl e1 e2
      | isLocal =>
        have hst : t.step (.insert key value st) = ((applyList t [i]).bump, .entry .isLocal) := by
          simp only [Table.step, hacc, hek]
        obtain ⟨e1, e2⟩ := effect_none (cr := m.created) (T := m.timeout) hi hP.asg hcre1
          (replaced_bump_self _ i) (fun n hn => hn) (pendOK_refl _)
        exact close_keyed hR h _ hv hst rfl hrule (by rw [bump_ops, hP.ops]) (by rw [bump_now, hP.now])
          _ rfl rfl e1 e2
      | present s v =>
        have hst : t.step (.insert key value st) = ((applyList t [i]).bump, .entry (.present s v)) := by
          simp only [Table.step, hacc, hek]
        obtain ⟨e1, e2⟩ := effect_none (cr := m.created) (T := m.timeout) hi hP.asg hcre1
          (replaced_bump_self _ i) (fun n hn => hn) (pendOK_refl _)
        exact close_keyed hR h _ hv hst rfl hrule (by rw [bump_ops, hP.ops]) (by rw [bump_now, hP.now])
          _ rfl rfl e1 e2
      | pending s v =>
        have hst : t.step (.insert key value st) = ((applyList t [i]).bump, .entry (.pending s v)) := by
          simp only [Table.step, hacc, hek]
        obtain ⟨e1, e2⟩ := effect_none (cr := m.created) (T := m.timeout) hi hP.asg hcre1
          (replaced_bump_self _ i) (fun n hn => hn) (pendOK_refl _)
        exact close_keyed hR h _ hv hst rfl hrule (by rw [bump_ops, hP.ops]) (by rw [bump_now, hP.now])
          _ rfl rfl e1 e2
  | update key st =>
    have hk : key < 2 ^ 256 := hv
    cases hidx : bucketIndex (t.localKey ^^^ key) with
    | none =>
      have hst : t.step (.update key st) = (t.bump, .isLocal) := by
        simp only [Table.step, hlocal key hidx]
      exact close_keyed hR h _ hv (t1 := t) hst rfl (by rw [hR.applied]; rfl) rfl rfl _ rfl rfl
        (by rw [hR.applied]; exact hR.asg) hR.cre
    | some i =>
      obtain ⟨hi, hacc, hrule, hP⟩ := keyed_prefix hR h hk hidx
      have hb1 := hP.inv i hi
      have hcre1 := creT_of_phase hR hP
      have hilen : i < (applyList t [i]).buckets.length := by rw [hP.len]; exact hi
      cases hek : ((applyList t [i]).bucket i).entryKind key with
      | present s v =>
        obtain ⟨pos, hpos⟩ := entryKind_present hek
        have hst : t.step (.update key st) =
            (((applyList t [i]).setBucket i (((applyList t [i]).bucket i).update key st t.now
              (2 * t.ops + 1))).bump, .entry (.present s v)) := by
          simp only [Table.step, hacc, hek]
        obtain ⟨hfn, hfp⟩ := update_frame hb1 key st t.now (2 * t.ops + 1) hpos
        obtain ⟨e1, e2⟩ := effect_set (c := (st == .connected)) (stamp := 2 * m.step + 1) (cr := m.created)
          (T := m.timeout) hi hidx hP.inv hP.asg hcre1 (replaced_set _ i _ hilen)
          (by
            intro n hn
            rcases hfn n hn with ⟨h1, h2, h3⟩ | h2
            · exact Or.inl ⟨h1, by rw [h2], by rw [h3, hR.step]⟩
            · exact Or.inr h2)
          (pendOK_of_eq hfp)
        exact close_keyed hR h _ hv hst rfl hrule (by rw [bump_ops, setBucket_ops, hP.ops])
          (by rw [bump_now, setBucket_now, hP.now]) _ rfl rfl e1 e2
      | pending s v =>
        obtain ⟨p, hp, hpk⟩ := entryKind_pending hek
        have hst : t.step (.update key st) =
            (((applyList t [i]).setBucket i (((applyList t [i]).bucket i).updatePending st)).bump,
              .entry (.pending s v)) := by
          simp only [Table.step, hacc, hek]
        have hup : ((applyList t [i]).bucket i).updatePending st =
            { ((applyList t [i]).bucket i) with pending := some { p with status := st } } := by
          unfold Bucket.updatePending; rw [hp]
        obtain ⟨e1, e2⟩ := effect_none (cr := m.created) (T := m.timeout)
          (b2 := ((applyList t [i]).bucket i).updatePending st) hi hP.asg hcre1
          (replaced_set _ i _ hilen)
          (by intro n hn; rw [hup] at hn; exact hn)
          (by
            intro q hq
            rw [hup] at hq
            simp only [Option.some.injEq] at hq
            subst hq
            exact ⟨p, hp, rfl, rfl⟩)
        exact close_keyed hR h _ hv hst rfl hrule (by rw [bump_ops, setBucket_ops, hP.ops])
          (by rw [bump_now, setBucket_now, hP.now]) _ rfl rfl e1 e2
      | isLocal =>
        have hst : t.step (.update key st) = ((applyList t [i]).bump, .entry .isLocal) := by
          simp only [Table.step, hacc, hek]
        obtain ⟨e1, e2⟩ := effect_none (cr := m.created) (T := m.timeout) hi hP.asg hcre1
          (replaced_bump_self _ i) (fun n hn => hn) (pendOK_refl _)
        exact close_keyed hR h _ hv hst rfl hrule (by rw [bump_ops, hP.ops]) (by rw [bump_now, hP.now])
          _ rfl rfl e1 e2
      | absent =>
        have hst : t.step (.update key st) = ((applyList t [i]).bump, .entry .absent) := by
          simp only [Table.step, hacc, hek]
        obtain ⟨e1, e2⟩ := effect_none (cr := m.created) (T := m.timeout) hi hP.asg hcre1
          (replaced_bump_self _ i) (fun n hn => hn) (pendOK_refl _)
        exact close_keyed hR h _ hv hst rfl hrule (by rw [bump_ops, hP.ops]) (by rw [bump_now, hP.now])
          _ rfl rfl e1 e2
  | remove key =>
    have hk : key < 2 ^ 256 := hv
    cases hidx : bucketIndex (t.localKey ^^^ key) with
    | none =>
      have hst : t.step (.remove key) = (t.bump, .isLocal) := by
        simp only [Table.step, hlocal key hidx]
      exact close_keyed hR h _ hv (t1 := t) hst rfl (by rw [hR.applied]; rfl) rfl rfl _ rfl rfl
        (by rw [hR.applied]; exact hR.asg) hR.cre
    | some i =>
      obtain ⟨hi, hacc, hrule, hP⟩ := keyed_prefix hR h hk hidx
      have hb1 := hP.inv i hi
      have hcre1 := creT_of_phase hR hP
      have hilen : i < (applyList t [i]).buckets.length := by rw [hP.len]; exact hi
      cases hek : ((applyList t [i]).bucket i).entryKind key with
      | present s v =>
        obtain ⟨pos, hpos⟩ := entryKind_present hek
        rcases remove_spec hb1 key with ⟨hnone, _, _⟩ | ⟨b', node, st0, pos', hrem, _, hr⟩
        · rw [hpos] at hnone; cases hnone
        · have hst : t.step (.remove key) =
              (((applyList t [i]).setBucket i b').bump, .removed node.value st0 false) := by
            simp only [Table.step, hacc, hek, hrem]
          obtain ⟨e1, e2⟩ := effect_erase (cr := m.created) (T := m.timeout) hi hidx hP.inv hP.asg hcre1
            (replaced_set _ i _ hilen) (remove_frame hr) (pendOK_of_eq (Or.inr hr.pending))
          exact close_keyed hR h _ hv hst rfl hrule (by rw [bump_ops, setBucket_ops, hP.ops])
            (by rw [bump_now, setBucket_now, hP.now]) _ rfl rfl e1 e2
      | pending s v =>
        obtain ⟨p, hp, hpk⟩ := entryKind_pending hek
        have hst : t.step (.remove key) =
            (((applyList t [i]).setBucket i { ((applyList t [i]).bucket i) with pending := none }).bump,
              .removed p.node.value p.status true) := by
          simp only [Table.step, hacc, hek, Bucket.removePending, hp]
        obtain ⟨e1, e2⟩ := effect_none (cr := m.created) (T := m.timeout)
          (b2 := { ((applyList t [i]).bucket i) with pending := none }) hi hP.asg hcre1
          (replaced_set _ i _ hilen) (fun n hn => hn) (fun q hq => by simp at hq)
        exact close_keyed hR h _ hv hst rfl hrule (by rw [bump_ops, setBucket_ops, hP.ops])
          (by rw [bump_now, setBucket_now, hP.now]) _ rfl rfl e1 e2
      | isLocal =>
        have hst : t.step (.remove key) = ((applyList t [i]).bump, .entry .isLocal) := by
          simp only [Table.step, hacc, hek]
        obtain ⟨e1, e2⟩ := effect_none (cr := m.created) (T := m.timeout) hi hP.asg hcre1
          (replaced_bump_self _ i) (fun n hn => hn) (pendOK_refl _)
        exact close_keyed hR h _ hv hst rfl hrule (by rw [bump_ops, hP.ops]) (by rw [bump_now, hP.now])
          _ rfl rfl e1 e2
      | absent =>
        have hst : t.step (.remove key) = ((applyList t [i]).bump, .entry .absent) := by
          simp only [Table.step, hacc, hek]
        obtain ⟨e1, e2⟩ := effect_none (cr := m.created) (T := m.timeout) hi hP.asg hcre1
          (replaced_bump_self _ i) (fun n hn => hn) (pendOK_refl _)
        exact close_keyed hR h _ hv hst rfl hrule (by rw [bump_ops, hP.ops]) (by rw [bump_now, hP.now])
          _ rfl rfl e1 e2

end C37
