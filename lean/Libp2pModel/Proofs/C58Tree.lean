import Libp2pModel.Proofs.C58Nest
import Libp2pModel.Proofs.C58Chain
/-!
# C58 — the derived handler: left-nested `ConnectionHandlerSelect` tree vs. a flat list of queues
-/
namespace C58

/-- the tree `select(select(acc, h_i), h_{i+1}) …` over leaves with queues `qs` -/
def treeFrom (c : Nat) : Nat → HTree → List (List Nat) → HTree
  | _, acc, [] => acc
  | i, acc, q :: qs => treeFrom c (i + 1) (.sel acc (.leaf i c q)) qs

/-- the derived handler of a struct with `qs.length` probe fields -/
def tree (c : Nat) : List (List Nat) → Option HTree
  | [] => none
  | q :: qs => some (treeFrom c 1 (.leaf 0 c q) qs)

/-- leaf queues, in order -/
def HTree.queues : HTree → List (List Nat)
  | .leaf _ _ out => [out]
  | .sel l r => l.queues ++ r.queues

theorem treeFrom_queues (c : Nat) (qs : List (List Nat)) (i : Nat) (acc : HTree) :
    (treeFrom c i acc qs).queues = acc.queues ++ qs := by
  induction qs generalizing i acc with
  | nil => simp [treeFrom]
  | cons q qs ih => simp [treeFrom, ih, HTree.queues]

theorem tree_queues (c : Nat) (qs : List (List Nat)) (h : HTree) (ht : tree c qs = some h) : h.queues = qs := by
  cases qs with
  | nil => simp [tree] at ht
  | cons q qs =>
    simp only [tree, Option.some.injEq] at ht
    subst ht
    simp [treeFrom_queues, HTree.queues]

/-- what `est` builds when nobody denies -/
theorem foldIdx_selStep (c : Nat) (fs : List Probe) (i : Nat) (acc : HTree) :
    foldIdx (selStep c) i (some acc) fs = some (treeFrom c i acc (List.replicate fs.length [])) := by
  induction fs generalizing i acc with
  | nil => rfl
  | cons f fs ih => simp [foldIdx, selStep, ih, List.replicate_succ, treeFrom]

theorem foldIdx_selStep_zero (c : Nat) (fs : List Probe) :
    foldIdx (selStep c) 0 none fs = tree c (List.replicate fs.length []) := by
  cases fs with
  | nil => rfl
  | cons f fs => simp [foldIdx, selStep, foldIdx_selStep, List.replicate_succ, tree]

/-! ### on_behaviour_event -/

theorem treeFrom_recv_acc (c : Nat) (qs : List (List Nat)) (i : Nat) (acc : HTree) (e : Nest) :
    (treeFrom c i acc qs).recv (Nest.lefts qs.length e) =
      match acc.recv e with
      | some (a, en) => some (treeFrom c i a qs, en)
      | none => none := by
  induction qs generalizing i acc e with
  | nil => simp only [treeFrom, List.length_nil, Nest.lefts]; cases acc.recv e <;> rfl
  | cons q qs ih =>
    simp only [treeFrom, List.length_cons]
    rw [Nest.lefts_succ', ih]
    simp only [HTree.recv]
    cases acc.recv e with
    | none => rfl
    | some r => rfl

theorem treeFrom_recv_leaf (c : Nat) (qs : List (List Nat)) (i : Nat) (acc : HTree) (j v : Nat)
    (hj : j < qs.length) :
    (treeFrom c i acc qs).recv (Nest.lefts (qs.length - 1 - j) (.right (.leaf v))) =
      some (treeFrom c i acc (pushAt qs j v), .hrecv (i + j) c v) := by
  induction qs generalizing i acc j with
  | nil => simp at hj
  | cons q qs ih =>
    cases j with
    | zero =>
      simp only [treeFrom, List.length_cons, pushAt]
      have : qs.length + 1 - 1 - 0 = qs.length := by omega
      rw [this, treeFrom_recv_acc]
      simp [HTree.recv]
    | succ j =>
      simp only [treeFrom, List.length_cons, pushAt]
      have h1 : qs.length + 1 - 1 - (j + 1) = qs.length - 1 - j := by omega
      have h2 : i + (j + 1) = i + 1 + j := by omega
      rw [h1, h2]
      exact ih (i + 1) _ j (by simpa using hj)

theorem pushAt_length {α : Type} (qs : List (List α)) (i : Nat) (v : α) : (pushAt qs i v).length = qs.length := by
  induction qs generalizing i with
  | nil => rfl
  | cons q qs ih => cases i <;> simp [pushAt, ih]

/-- **NotifyHandler reaches its component**: the event the derived `poll` wraps for field `i`
is delivered by the derived handler to component `i` (and to nobody else: one log entry). -/
theorem tree_recv_wrap (c : Nat) (qs : List (List Nat)) (h : HTree) (ht : tree c qs = some h)
    (i v : Nat) (hi : i < qs.length) :
    ∃ h', h.recv (wrap qs.length i (.leaf v)) = some (h', .hrecv i c v) ∧ tree c (pushAt qs i v) = some h' := by
  cases qs with
  | nil => simp at hi
  | cons q qs =>
    simp only [tree, Option.some.injEq] at ht
    subst ht
    cases i with
    | zero =>
      refine ⟨treeFrom c 1 (.leaf 0 c (q ++ [v])) qs, ?_, by simp [pushAt, tree]⟩
      have : wrap (q :: qs).length 0 (.leaf v) = Nest.lefts qs.length (.leaf v) := by simp [wrap]
      rw [this, treeFrom_recv_acc]
      simp [HTree.recv]
    | succ j =>
      have hj : j < qs.length := by simpa using hi
      refine ⟨treeFrom c 1 (.leaf 0 c q) (pushAt qs j v), ?_, by simp [pushAt, tree]⟩
      have : wrap (q :: qs).length (j + 1) (.leaf v) = Nest.lefts (qs.length - 1 - j) (.right (.leaf v)) := by
        have : qs.length - (j + 1) = qs.length - 1 - j := by omega
        simp [wrap, this]
      rw [this, treeFrom_recv_leaf c qs 1 _ j v hj]
      have : 1 + j = j + 1 := by omega
      rw [this]

/-! ### poll -/

theorem treeFrom_poll (c : Nat) (qs : List (List Nat)) (i : Nat) (acc : HTree) :
    (treeFrom c i acc qs).poll =
      match acc.poll with
      | some (a, e) => some (treeFrom c i a qs, Nest.lefts qs.length e)
      | none =>
        match firstPop qs with
        | some (j, v, qs') => some (treeFrom c i acc qs', Nest.lefts (qs.length - 1 - j) (.right (.leaf v)))
        | none => none := by
  induction qs generalizing i acc with
  | nil => simp only [treeFrom, List.length_nil, Nest.lefts, firstPop]; cases acc.poll <;> rfl
  | cons q qs ih =>
    simp only [treeFrom, List.length_cons]
    rw [ih]
    simp only [HTree.poll]
    cases hacc : acc.poll with
    | some r =>
      obtain ⟨a, e⟩ := r
      simp only [treeFrom]
      rw [Nest.lefts_succ']
    | none =>
      cases q with
      | cons v q =>
        simp only [HTree.poll, firstPop, treeFrom]
        have : qs.length + 1 - 1 - 0 = qs.length := by omega
        rw [this]
      | nil =>
        simp only [HTree.poll, firstPop]
        cases hp : firstPop qs with
        | none => rfl
        | some r =>
          obtain ⟨j, v, qs'⟩ := r
          simp only [treeFrom]
          have : qs.length + 1 - 1 - (j + 1) = qs.length - 1 - j := by omega
          rw [this]

theorem firstPop_length {α : Type} (qs : List (List α)) (i : Nat) (v : α) (qs' : List (List α))
    (h : firstPop qs = some (i, v, qs')) : qs'.length = qs.length ∧ i < qs.length := by
  obtain ⟨_, q, h2, h3⟩ := firstPop_some qs i v qs' h
  have : i < qs.length := by
    rcases Nat.lt_or_ge i qs.length with hlt | hge
    · exact hlt
    · rw [List.getElem?_eq_none hge] at h2; simp at h2
  exact ⟨by simp [h3], this⟩

/-- **The select tree wraps a component's event exactly as the macro's arm expects it**: the
derived handler returns the first ready component's event (component order), wrapped as
`wrap n i`, and only that component's queue changes. -/
theorem tree_poll (c : Nat) (qs : List (List Nat)) (h : HTree) (ht : tree c qs = some h) :
    match firstPop qs with
    | none => h.poll = none
    | some (i, v, qs') => ∃ h', h.poll = some (h', wrap qs.length i (.leaf v)) ∧ tree c qs' = some h' := by
  cases qs with
  | nil => simp [tree] at ht
  | cons q qs =>
    simp only [tree, Option.some.injEq] at ht
    subst ht
    rw [treeFrom_poll]
    cases q with
    | cons v q =>
      simp only [firstPop, HTree.poll]
      exact ⟨_, rfl, by simp [tree]⟩
    | nil =>
      simp only [firstPop, HTree.poll]
      cases hp : firstPop qs with
      | none => simp
      | some r =>
        obtain ⟨j, v, qs'⟩ := r
        simp only
        refine ⟨treeFrom c 1 (.leaf 0 c []) qs', ?_, by simp [tree]⟩
        have : qs.length - (j + 1) = qs.length - 1 - j := by omega
        simp [wrap, this]

end C58
