import Libp2pModel.Proofs.C52Inv
/-!
# C52: every Swarm transition, run with the limits behaviour's verdict and fed back into it,
preserves the invariant `J`
-/
namespace C52
open Swarm

theorem setRemove_setInsert_fresh (l : List Nat) (c : Nat) (h : c ∉ l) : setRemove (setInsert l c) c = l := by
  rw [setInsert_fresh l c h]; exact setRemove_append_self l c h

/-! ## incoming -/

theorem incoming_J (s : State) (g : GL) (t : Bool) (pd : Bool) (ctx : Option Nat) (h : J s g t) :
    J (incoming s (pd || (handlePendingIn g.lim 0).2)).1
      (feedAll ctx g (incoming s (pd || (handlePendingIn g.lim 0).2)).2) t := by
  have hf := J_fresh h
  by_cases hlim : checkLimit g.lim.limits.maxPI g.lim.pendIn.length = true
  · have hd : (pd || (handlePendingIn g.lim 0).2) = true := by simp [handlePendingIn, hlim]
    rw [hd]
    simp only [incoming, ↓reduceIte, inFailEvents, feedAll_cons, feedAll_nil, feed, handlePendingIn, hlim]
    refine J_bump (J_piRemove h s.nextId) (Nat.le_succ _) rfl ?_ rfl
    exact (filter_absent s.pendIn (·.id) s.nextId hf.2.2.2.2.1).symm
  · have hlim' : checkLimit g.lim.limits.maxPI g.lim.pendIn.length = false := by simpa using hlim
    cases pd with
    | true =>
      simp only [Bool.true_or, incoming, ↓reduceIte, inFailEvents, feedAll_cons, feedAll_nil, feed,
        handlePendingIn, hlim', Bool.false_eq_true, setRemove_setInsert_fresh _ _ hf.1]
      exact J_bump h (Nat.le_succ _) rfl rfl rfl
    | false =>
      simp only [Bool.false_or, handlePendingIn, hlim', Bool.false_eq_true, incoming, ↓reduceIte,
        feedAll_cons, feedAll_nil, feed, setInsert_fresh _ _ hf.1]
      exact J_congr (J_piAdd h s.nextIncoming (fun _ => hlim')) rfl rfl rfl rfl

/-! ## failIn -/

theorem failIn_J (s : State) (g : GL) (t : Bool) (k : Nat) (ctx : Option Nat) (h : J s g t) :
    J (failIn s k).1 (feedAll ctx g (failIn s k).2) t := by
  unfold failIn
  cases hf : s.pendIn.find? (·.k == k) with
  | none => exact h
  | some pc =>
    simp only [removePendIn, inFailEvents, feedAll_cons, feedAll_nil, feed]
    exact J_congr (J_piRemove h pc.id) rfl rfl rfl rfl

/-! ## establishing: what `onEstablished` does to the sets when the id is new -/

theorem mem_find {α : Type} {l : List α} {q : α → Bool} {a : α} (h : l.find? q = some a) : a ∈ l :=
  List.mem_of_find?_eq_some h

theorem checkPeerId_none_ne_wrong (p l : Nat) : checkPeerId none p l ≠ .wrongPeerId := by
  unfold checkPeerId
  by_cases h : l = p <;> simp [h]

theorem not_mem_filter_ne {α : Type} (l : List α) (f : α → Nat) (c : Nat) :
    c ∉ (l.filter (fun x => f x != c)).map f := by
  intro hm
  obtain ⟨a, ha, rfl⟩ := List.mem_map.1 hm
  have := (List.mem_filter.1 ha).2
  simp at this

/-- the authenticated peer's connection `c` (just taken out of a pending table) gets established:
the `bEstablished` event, fed to a behaviour whose checks passed (or whose peer is bypassed) -/
theorem established_J {s : State} {g : GL} {t : Bool} (h : J s g t) (c p : Nat) (out md : Bool) (mk : Nat)
    (hlt : c < s.nextId) (hpo : c ∉ poIds s) (hpi : c ∉ piIds s) (hne : c ∉ eIds s)
    (hl : t = false → g.lim.isBypassed p = false → estChecks g.lim out p = false) :
    J { s with est := s.est ++ [{ id := c, peer := p, out, muxDial := md, muxK := mk }] }
      { g with lim := onEstablished g.lim c p out,
               exEst := if g.lim.isBypassed p then c :: g.exEst else g.exEst } t := by
  have hx := h.2.1
  have hei : c ∉ g.lim.estIn := by
    rw [hx.ei]; intro hm; exact hne (mem_filter_ids _ _ _ _ hm)
  have heo : c ∉ g.lim.estOut := by
    rw [hx.eo]; intro hm; exact hne (mem_filter_ids _ _ _ _ hm)
  have hpp : c ∉ ppGet g.lim.perPeer p := by
    rw [hx.pp]; intro hm; exact hne (mem_filter_ids _ _ _ _ hm)
  have := J_est h c p out md mk hlt hpo hpi hne (g.lim.isBypassed p) hl
    (ppUpd g.lim.perPeer p (setInsert · c))
    (by intro q; rw [ppGet_ppUpd]; by_cases hq : q = p
        · simp only [hq, ↓reduceIte]; exact setInsert_fresh _ _ hpp
        · simp only [hq, ↓reduceIte])
  unfold onEstablished
  rw [setInsert_fresh _ _ hei, setInsert_fresh _ _ heo]
  exact this

theorem handleEstIn_fst (b : Lim) (c p : Nat) :
    (handleEstIn b c p).1 = { b with pendIn := setRemove b.pendIn c } := by
  unfold handleEstIn; simp only [Lim.isBypassed]
  by_cases hb : b.bypass.contains p = true
  · simp only [hb, ↓reduceIte]
  · simp only [hb, Bool.false_eq_true, ↓reduceIte] <;> rfl

theorem handleEstOut_fst (b : Lim) (c p : Nat) :
    (handleEstOut b c p).1 = { b with pendOut := setRemove b.pendOut c } := by
  unfold handleEstOut; simp only [Lim.isBypassed]
  by_cases hb : b.bypass.contains p = true
  · simp only [hb, ↓reduceIte]
  · simp only [hb, Bool.false_eq_true, ↓reduceIte] <;> rfl

theorem handleEstIn_snd (b : Lim) (c p : Nat) :
    (handleEstIn b c p).2 = (if b.isBypassed p then false else estChecks b false p) := by
  unfold handleEstIn; simp only [Lim.isBypassed]
  by_cases hb : b.bypass.contains p = true
  · simp only [hb, ↓reduceIte]
  · simp only [hb, Bool.false_eq_true, ↓reduceIte] <;> rfl

theorem handleEstOut_snd (b : Lim) (c p : Nat) :
    (handleEstOut b c p).2 = (if b.isBypassed p then false else estChecks b true p) := by
  unfold handleEstOut; simp only [Lim.isBypassed]
  by_cases hb : b.bypass.contains p = true
  · simp only [hb, ↓reduceIte]
  · simp only [hb, Bool.false_eq_true, ↓reduceIte] <;> rfl

/-! ## resolveIn -/

theorem resolveIn_J (s : State) (g : GL) (t : Bool) (k p : Nat) (pd : Bool) (h : J s g t) :
    J (resolveIn s k p (pd || (handleEstIn g.lim 0 p).2)).1
      (feedAll (some p) g (resolveIn s k p (pd || (handleEstIn g.lim 0 p).2)).2) t := by
  unfold resolveIn
  cases hf : s.pendIn.find? (·.k == k) with
  | none => exact h
  | some pc =>
    have hmem : pc.id ∈ piIds s := List.mem_map_of_mem (mem_find hf)
    have h1 := J_piRemove h pc.id
    simp only [removePendIn]
    cases hc : checkPeerId none p s.localPeer with
    | wrongPeerId => exact absurd hc (checkPeerId_none_ne_wrong _ _)
    | localPeerId =>
      simp only [inFailEvents, List.cons_append, List.nil_append, feedAll_cons, feedAll_nil, feed]
      exact J_congr h1 rfl rfl rfl rfl
    | ok =>
      cases hd : (pd || (handleEstIn g.lim 0 p).2) with
      | true =>
        simp only [↓reduceIte, inFailEvents, List.cons_append, List.nil_append, feedAll_cons, feedAll_nil, feed,
          handleEstIn_fst, Option.getD_some, setRemove_idem]
        exact J_congr h1 rfl rfl rfl rfl
      | false =>
        have hd2 : (handleEstIn g.lim 0 p).2 = false := by
          cases pd <;> simp_all
        simp only [Bool.false_eq_true, ↓reduceIte, establish, feedAll_cons, feedAll_nil, feed, Option.getD_some,
          handleEstIn_fst]
        have w := h.1
        refine J_congr (established_J h1 pc.id p false false k ?_ ?_ ?_ ?_ ?_) rfl rfl rfl rfl
        · exact w.fpi _ hmem
        · intro hm; exact w.dpi _ hm hmem
        · exact not_mem_filter_ne _ _ _
        · exact w.die _ hmem
        · intro _ hb
          have hb' : g.lim.isBypassed p = false := hb
          rw [handleEstIn_snd, hb'] at hd2
          exact hd2

/-! ## failDial -/

theorem failDial_J (s : State) (g : GL) (t : Bool) (k : Nat) (ctx : Option Nat) (h : J s g t) :
    J (failDial s k).1 (feedAll ctx g (failDial s k).2) t := by
  unfold failDial
  cases hf : findPendOut s.pendOut k with
  | none => exact h
  | some pc =>
    simp only
    split
    · simp only [removePendOut, outFailEvents, feedAll_cons, feedAll_nil, feed]
      exact J_congr (J_poRemove h pc.id (s.cPO - 1)) rfl rfl rfl rfl
    · simp only [feedAll_nil]
      refine J_congr (J_poUpdate h (fun q => if q.id = pc.id then
        { q with inflight := pc.inflight.filter (·.1 != k),
                 errors := pc.errors ++ [(((pc.inflight.find? (·.1 == k)).map (·.2)).getD [], false)] } else q) ?_) rfl rfl rfl rfl
      intro q; split <;> rfl

/-! ## resolveDial -/

theorem findPendOut_mem {l : List PendingOut} {k : Nat} {pc : PendingOut} (h : findPendOut l k = some pc) : pc ∈ l :=
  List.mem_of_find?_eq_some h

theorem resolveDial_J (s : State) (g : GL) (t : Bool) (k p : Nat) (pd : Bool) (h : J s g t) :
    J (resolveDial s k p (pd || (handleEstOut g.lim 0 p).2)).1
      (feedAll (some p) g (resolveDial s k p (pd || (handleEstOut g.lim 0 p).2)).2) t := by
  unfold resolveDial
  cases hf : findPendOut s.pendOut k with
  | none => exact h
  | some pc =>
    have hmem : pc.id ∈ poIds s := List.mem_map_of_mem (findPendOut_mem hf)
    have h1 := J_poRemove h pc.id (s.cPO - 1)
    simp only [removePendOut]
    cases hc : checkPeerId pc.peer p s.localPeer with
    | wrongPeerId =>
      simp only [outFailEvents, List.cons_append, List.nil_append, feedAll_cons, feedAll_nil, feed]
      exact J_congr h1 rfl rfl rfl rfl
    | localPeerId =>
      simp only [outFailEvents, List.cons_append, List.nil_append, feedAll_cons, feedAll_nil, feed]
      exact J_congr h1 rfl rfl rfl rfl
    | ok =>
      cases hd : (pd || (handleEstOut g.lim 0 p).2) with
      | true =>
        simp only [↓reduceIte, outFailEvents, List.cons_append, List.nil_append, feedAll_cons, feedAll_nil, feed,
          handleEstOut_fst, Option.getD_some, setRemove_idem]
        exact J_congr h1 rfl rfl rfl rfl
      | false =>
        have hd2 : (handleEstOut g.lim 0 p).2 = false := by
          cases pd <;> simp_all
        simp only [Bool.false_eq_true, ↓reduceIte, establish, feedAll_cons, feedAll_nil, feed, Option.getD_some,
          handleEstOut_fst]
        have w := h.1
        refine J_congr (established_J h1 pc.id p true true k ?_ ?_ ?_ ?_ ?_) rfl rfl rfl rfl
        · exact w.fpo _ hmem
        · exact not_mem_filter_ne _ _ _
        · exact w.dpi _ hmem
        · exact w.dpe _ hmem
        · intro _ hb
          have hb' : g.lim.isBypassed p = false := hb
          rw [handleEstOut_snd, hb'] at hd2
          exact hd2

/-! ## closing -/

theorem closeConn_J (s : State) (g : GL) (t : Bool) (c : Nat) (gr : Bool) (ctx : Option Nat) (h : J s g t) :
    J (closeConn s c gr).1 (feedAll ctx g (closeConn s c gr).2) t := by
  unfold closeConn
  cases hf : s.est.find? (·.id == c) with
  | none => exact h
  | some e =>
    have hid : e.id = c := by simpa using List.find?_some hf
    have h1 := J_close h c e (mem_find hf) hid (if e.out then s.cEI else s.cEI - 1) (if e.out then s.cEO - 1 else s.cEO)
    cases gr <;>
    · simp only [Bool.false_eq_true, ↓reduceIte, List.nil_append, List.cons_append, feedAll_cons, feedAll_nil, feed]
      exact J_congr h1 rfl rfl rfl rfl

theorem closeMany_J (cs : List Nat) (ctx : Option Nat) : ∀ (s : State) (g : GL) (t : Bool), J s g t →
    J (closeMany s cs).1 (feedAll ctx g (closeMany s cs).2) t := by
  induction cs with
  | nil => intro s g t h; exact h
  | cons c cs ih =>
    intro s g t h
    simp only [closeMany, feedAll_append]
    exact ih _ _ _ (closeConn_J s g t c true ctx h)

theorem abortOne_J (s : State) (g : GL) (t : Bool) (c : Nat) (ctx : Option Nat) (h : J s g t) :
    J (abortOne s c).1 (feedAll ctx g (abortOne s c).2) t := by
  unfold abortOne
  cases hf : s.pendOut.find? (·.id == c) with
  | none => exact h
  | some pc =>
    simp only [removePendOut, outFailEvents, feedAll_cons, feedAll_nil, feed]
    exact J_congr (J_poRemove h c (s.cPO - 1)) rfl rfl rfl rfl

theorem abortMany_J (cs : List Nat) (ctx : Option Nat) : ∀ (s : State) (g : GL) (t : Bool), J s g t →
    J (abortMany s cs).1 (feedAll ctx g (abortMany s cs).2) t := by
  induction cs with
  | nil => intro s g t h; exact h
  | cons c cs ih =>
    intro s g t h
    simp only [abortMany, feedAll_append]
    exact ih _ _ _ (abortOne_J s g t c ctx h)

theorem disconnect_J (s : State) (g : GL) (t : Bool) (p : Nat) (o a : List Nat) (ctx : Option Nat)
    (r : State × List Ev) (hd : disconnect s p o a = some r) (h : J s g t) :
    J r.1 (feedAll ctx g r.2) t := by
  rw [disconnect_eq s p o a r hd]
  simp only [feedAll_append]
  exact abortMany_J a ctx _ _ _ (closeMany_J o ctx s g t h)

/-! ## dial -/

theorem planDials_neutral (s : State) (peer : Option Nat) (refuse : List Maddr) (ctx : Option Nat) :
    ∀ (l : List Maddr) (nd : Nat) (g : GL), feedAll ctx g (planDials s peer refuse l nd).events = g := by
  intro l
  induction l with
  | nil => intro nd g; rfl
  | cons a rest ih =>
    intro nd g
    unfold planDials
    split
    · exact ih nd g
    · split
      · simp only [feedAll_cons, feed]; exact ih (nd + 1) g
      · simp only [feedAll_cons, feed]; exact ih (nd + 1) g

theorem feed_sOutgoingError (ctx : Option Nat) (g : GL) (c : Nat) (p : Option Nat) (e : DialErr) :
    feed ctx g (.sOutgoingError c p e) = g := rfl

theorem feed_pendingOut (g : GL) (id : Nat) (peer : Option Nat) (fl : Bool) (hfresh : id ∉ g.lim.pendOut) :
    feed peer g (.bPendingOut id fl) =
      if bypassedOpt g.lim peer then { g with exDial := id :: g.exDial }
      else if checkLimit g.lim.limits.maxPO g.lim.pendOut.length then g
      else { g with lim := { g.lim with pendOut := g.lim.pendOut ++ [id] } } := by
  simp only [feed, handlePendingOut]
  by_cases hb : bypassedOpt g.lim peer = true
  · simp only [hb, ↓reduceIte]
  · simp only [hb, Bool.false_eq_true, ↓reduceIte]
    by_cases hl : checkLimit g.lim.limits.maxPO g.lim.pendOut.length = true
    · simp only [hl, ↓reduceIte]
    · simp only [hl, Bool.false_eq_true, ↓reduceIte, setInsert_fresh _ _ hfresh]

/-- a dial that got as far as `handle_pending_outbound_connection` and then failed synchronously -/
theorem pendOut_rejected {s s' : State} {g : GL} {t : Bool} (h : J s g t) (peer : Option Nat) (fl : Bool)
    (hn : s'.nextId = s.nextId + 1) (hpo : s'.pendOut = s.pendOut) (hpi : s'.pendIn = s.pendIn)
    (he : s'.est = s.est) (pp : Option Nat) (e : DialErr) :
    J s' (feed peer (feed peer g (.bPendingOut s.nextId fl)) (.bDialFailure s.nextId pp e)) t := by
  have hf := J_fresh h
  have habs : s.pendOut.filter (fun x => x.id != s.nextId) = s.pendOut := filter_absent _ _ _ hf.2.2.2.1
  rw [feed_pendingOut g s.nextId peer fl hf.2.1]
  by_cases hb : bypassedOpt g.lim peer = true
  · simp only [hb, ↓reduceIte, feed]
    have h1 := J_poRemove (J_poAdd h peer [] [] true (fun _ hx => by cases hx)) s.nextId s.cPO
    simp only [↓reduceIte] at h1
    refine J_congr h1 hn ?_ hpi he
    simp only [hpo, List.filter_append, habs, List.filter_cons, bne_self_eq_false, Bool.false_eq_true, ↓reduceIte,
      List.filter_nil, List.append_nil]
  · simp only [hb, Bool.false_eq_true, ↓reduceIte]
    by_cases hl : checkLimit g.lim.limits.maxPO g.lim.pendOut.length = true
    · simp only [hl, ↓reduceIte, feed]
      exact J_bump (J_poRemove h s.nextId s.cPO) (by simp [hn]) (by simp [hpo, habs]) hpi he
    · simp only [hl, Bool.false_eq_true, ↓reduceIte, feed, setRemove_append_self _ _ hf.2.1]
      exact J_bump h (by simp [hn]) hpo hpi he

theorem dial_J (s : State) (g : GL) (t : Bool) (v : Bool) (c : Cond) (p0 : Option Nat) (addrs : List Maddr)
    (ext : Bool) (beh : List Maddr) (pd : Bool) (refuse : List Maddr) (h : J s g t) :
    J (dial s v c p0 addrs ext beh (pd || (handlePendingOut g.lim 0 ((dialPeer s p0 addrs).getD none)).2) refuse).1
      (feedAll ((dialPeer s p0 addrs).getD none) g
        (dial s v c p0 addrs ext beh (pd || (handlePendingOut g.lim 0 ((dialPeer s p0 addrs).getD none)).2) refuse).2.2) t := by
  have hf := J_fresh h
  unfold dial
  cases hp : dialPeer s p0 addrs with
  | none => exact h
  | some peer =>
    simp only [Option.getD_some]
    split
    · -- DialPeerConditionFalse: only the failure report
      simp only [dialRejected, feedAll_cons, feedAll_nil, feed]
      refine J_bump (J_poRemove h s.nextId s.cPO) (Nat.le_succ _) ?_ rfl rfl
      exact (filter_absent _ _ _ hf.2.2.2.1).symm
    · split
      · simp only [dialRejected, feedAll_cons, feedAll_nil]
        refine pendOut_rejected h peer true ?_ ?_ ?_ ?_ _ _ <;> rfl
      · rename_i hdeny
        split
        · simp only [dialRejected, feedAll_cons, feedAll_nil]
          refine pendOut_rejected h peer false ?_ ?_ ?_ ?_ _ _ <;> rfl
        · -- accepted
          unfold dialAccepted
          simp only
          split
          · dsimp only
            simp only [feedAll_cons, feedAll_append, outFailEvents, feedAll_nil]
            rw [planDials_neutral]
            have : feedAll peer (feed peer g (.bPendingOut s.nextId false)) (if v = true then [Ev.sDialing s.nextId peer] else []) =
                feed peer g (.bPendingOut s.nextId false) := by
              cases v <;> rfl
            rw [this]
            rw [feed_sOutgoingError]
            refine pendOut_rejected h peer false ?_ ?_ ?_ ?_ _ _ <;> rfl
          · dsimp only
            simp only [feedAll_cons, feedAll_append]
            rw [planDials_neutral]
            have : feedAll peer (feed peer g (.bPendingOut s.nextId false)) (if v = true then [Ev.sDialing s.nextId peer] else []) =
                feed peer g (.bPendingOut s.nextId false) := by
              cases v <;> rfl
            rw [this, feed_pendingOut g s.nextId peer false hf.2.1]
            have hd2 : (handlePendingOut g.lim 0 peer).2 = false := by
              cases pd <;> simp_all
            have hchk : bypassedOpt g.lim peer = false → checkLimit g.lim.limits.maxPO g.lim.pendOut.length = false := by
              intro hb
              cases hl : checkLimit g.lim.limits.maxPO g.lim.pendOut.length with
              | false => rfl
              | true => simp [handlePendingOut, hb, hl] at hd2
            have h1 := J_poAdd h peer
              (planDials s peer refuse (selectAddrs (peer.map (peerBytes s)) s.listened (dialRequested addrs beh ext)) s.nextDial).inflight
              (planDials s peer refuse (selectAddrs (peer.map (peerBytes s)) s.listened (dialRequested addrs beh ext)) s.nextDial).errors
              (bypassedOpt g.lim peer) (fun _ hb => hchk hb)
            by_cases hb : bypassedOpt g.lim peer = true
            · simp only [hb, ↓reduceIte] at h1 ⊢
              exact J_congr h1 rfl rfl rfl rfl
            · have hb' : bypassedOpt g.lim peer = false := by simpa using hb
              simp only [hb', Bool.false_eq_true, ↓reduceIte, hchk hb'] at h1 ⊢
              exact J_congr h1 rfl rfl rfl rfl

theorem newAddr_J (s : State) (g : GL) (t : Bool) (a : Maddr) (ctx : Option Nat) (h : J s g t) :
    J (newAddr s a).1 (feedAll ctx g (newAddr s a).2) t := J_congr h rfl rfl rfl rfl

theorem expireAddr_J (s : State) (g : GL) (t : Bool) (a : Maddr) (ctx : Option Nat) (h : J s g t) :
    J (expireAddr s a).1 (feedAll ctx g (expireAddr s a).2) t := J_congr h rfl rfl rfl rfl

end C52
