import Libp2pModel.Proofs.C15Msg
/-!
# C15 helper lemmas: totality and soundness of `Message::decode` on arbitrary bytes
-/
namespace C15
open Mss

/-- a decoded varint consumed at least one byte -/
theorem uviAux_rest_lt (mb bits : Nat) : ∀ (buf : Bytes) (i n v : Nat) (rest : Bytes),
    uviAux mb bits i n buf = .ok v rest → rest.length < buf.length := by
  intro buf
  induction buf with
  | nil => intro i n v rest h; simp [uviAux] at h
  | cons b bs ih =>
    intro i n v rest h
    simp only [uviAux] at h
    split at h
    · split at h
      · simp at h
      · simp at h; obtain ⟨_, rfl⟩ := h; simp
    · split at h
      · simp at h
      · have := ih _ _ _ _ h; simp; omega

theorem protoLineTest_no_error (msg : Bytes) (w : String) : protoLineTest msg ≠ .error w := by
  unfold protoLineTest
  split
  · rename_i h47
    split
    · split
      · rename_i h0
        have : msg = [] := by cases msg <;> simp_all
        subst this; simp at h47
      · simp
    · simp
  · simp

theorem decodeLs_no_panic : ∀ (fuel cnt : Nat) (acc : List Bytes) (rem : Bytes) (w : String),
    rem.length < fuel → decodeLs fuel cnt acc rem ≠ .panic w := by
  intro fuel
  induction fuel with
  | zero => intro cnt acc rem w h; omega
  | succ f ih =>
    intro cnt acc rem w hf
    rw [decodeLs]
    split
    · simp
    · split
      · simp
      · split
        · simp
        · simp
        · simp
        · rename_i len tail hu
          have hlt := uviAux_rest_lt 9 64 rem 0 0 len tail hu
          split
          · simp
          · split
            · simp
            · rename_i h0 hgt
              have hidx : len - 1 < tail.length := by omega
              split
              · rename_i hnone
                rw [List.getElem?_eq_none_iff] at hnone
                omega
              · split
                · simp
                · split
                  · simp
                  · apply ih
                    simp; omega

/-- `Message::decode` never panics. -/
theorem decodeMsg_no_panic (bs : Bytes) (w : String) : decodeMsg bs ≠ .panic w := by
  unfold decodeMsg
  split
  · simp
  · split
    · simp
    · split
      · simp
      · split
        · rename_i w' h; exact absurd h (protoLineTest_no_error bs w')
        · split <;> simp
        · exact decodeLs_no_panic _ _ _ _ _ (by omega)

def goodName (q : Bytes) : Prop := nameOk q = true ∧ utf8Valid q = true

theorem decodeLs_sound : ∀ (fuel cnt : Nat) (acc : List Bytes) (rem : Bytes) (m : Msg),
    decodeLs fuel cnt acc rem = .ok m → acc.length = cnt → cnt ≤ MAX_PROTOCOLS →
    (∀ q ∈ acc, goodName q) →
    ∃ qs, m = .protos qs ∧ (∀ q ∈ qs, goodName q) ∧ qs.length ≤ MAX_PROTOCOLS := by
  intro fuel
  induction fuel with
  | zero => intro cnt acc rem m h; simp [decodeLs] at h
  | succ f ih =>
    intro cnt acc rem m h hlen hle hall
    rw [decodeLs] at h
    split at h
    · simp at h; exact ⟨acc, h.symm, hall, by omega⟩
    · split at h
      · simp at h
      · rename_i hne
        split at h
        · simp at h
        · simp at h
        · simp at h
        · split at h
          · simp at h
          · split at h
            · simp at h
            · split at h
              · simp at h
              · split at h
                · simp at h
                · split at h
                  · simp at h
                  · rename_i p hp
                    obtain ⟨rfl, hn, hu⟩ := protocolTryFrom_eq_ok _ _ hp
                    refine ih _ _ _ _ h (by simp [hlen]) (by omega) ?_
                    intro q hq
                    simp at hq
                    rcases hq with hq | rfl
                    · exact hall q hq
                    · exact ⟨hn, hu⟩

theorem protoLineTest_true (msg : Bytes) (h : protoLineTest msg = .ok true) :
    (msg.take (msg.length - 1)).contains 10 = false := by
  unfold protoLineTest at h
  split at h
  · split at h
    · split at h
      · simp at h
      · simp at h; simpa using h
    · simp at h
  · simp at h

/-- **Soundness of `decode`**: whatever it accepts is well-formed — every name starts with `/`
and is UTF-8, a proposed name has no line feed, a listing has at most `MAX_PROTOCOLS` names. -/
theorem decodeMsg_sound (bs : Bytes) (m : Msg) (h : decodeMsg bs = .ok m) : wf m = true := by
  unfold decodeMsg at h
  split at h
  · simp at h; subst h; rfl
  · split at h
    · simp at h; subst h; rfl
    · split at h
      · simp at h; subst h; rfl
      · split at h
        · simp at h
        · rename_i hline
          split at h
          · simp at h
          · rename_i p hp
            simp at h; subst h
            obtain ⟨rfl, hn, hu⟩ := protocolTryFrom_eq_ok _ _ hp
            have := protoLineTest_true bs hline
            simp at this
            simp [wf, hn, hu, this]
        · obtain ⟨qs, rfl, hall, hlen⟩ := decodeLs_sound _ _ _ _ _ h rfl (by decide) (by simp)
          simp only [wf, Bool.and_eq_true, List.all_eq_true, decide_eq_true_eq]
          exact ⟨fun q hq => hall q hq, hlen⟩

end C15
