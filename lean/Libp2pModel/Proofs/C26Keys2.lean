import Libp2pModel.Proofs.C26Keys
namespace C26
open C25 (Sid Role Frame)

theorem KK_nextStreamLoop : ∀ (fuel : Nat) (s : State) (k : Nat), KK s (nextStreamLoop fuel s k).1 := by
  intro fuel
  induction fuel with
  | zero => intro s k; exact KK_refl _
  | succ fuel ih =>
    intro s k
    simp only [nextStreamLoop]
    split
    · exact KK_refl _
    · have hr := KK_readFrame s none
      rcases hrf : readFrame s none with ⟨s1, r⟩
      rw [hrf] at hr
      cases r with
      | pending => exact hr
      | ready e =>
        cases e with
        | error k' => exact hr
        | ok f =>
          cases f with
          | opn rid =>
            simp only
            have ho := KK_onOpen s1 rid
            rcases hoo : onOpen s1 rid with ⟨s2, r2⟩
            rw [hoo] at ho
            cases r2 with
            | error e => exact KK_trans hr ho
            | ok o =>
              cases o with
              | some id => exact KK_trans hr ho
              | none => exact KK_trans hr (KK_trans ho (ih s2 k))
          | data rid d =>
            simp only
            have hb := KK_buffer s1 rid.mirror d
            rcases hbb : buffer s1 rid.mirror d with ⟨s2, r2⟩
            rw [hbb] at hb
            cases r2 with
            | error e => exact KK_trans hr hb
            | ok u => exact KK_trans hr (KK_trans hb (ih s2 (k + 1)))
          | close rid => exact KK_trans hr (KK_trans (KK_onClose s1 rid.mirror) (ih _ k))
          | reset rid => exact KK_trans hr (KK_trans (KK_onReset s1 rid.mirror) (ih _ k))

theorem KK_readStreamLoop : ∀ (fuel : Nat) (s : State) (id : Sid) (k : Nat),
    KK s (readStreamLoop fuel s id k).1 := by
  intro fuel
  induction fuel with
  | zero => intro s id k; exact KK_refl _
  | succ fuel ih =>
    intro s id k
    simp only [readStreamLoop]
    split
    · exact KK_refl _
    · split
      · exact KK_refl _
      · have hr := KK_readFrame s (some id)
        rcases hrf : readFrame s (some id) with ⟨s1, r⟩
        rw [hrf] at hr
        cases r with
        | pending => exact hr
        | ready e =>
          cases e with
          | error k' => exact hr
          | ok f =>
            cases f with
            | data rid d =>
              simp only
              split
              · split
                · exact KK_trans hr (KK_put _ _)
                · exact hr
              · have hb := KK_buffer s1 rid.mirror d
                rcases hbb : buffer s1 rid.mirror d with ⟨s2, r2⟩
                rw [hbb] at hb
                cases r2 with
                | error e => exact KK_trans hr hb
                | ok u => exact KK_trans hr (KK_trans hb (ih s2 id (k + 1)))
            | opn rid =>
              simp only
              have ho := KK_onOpen s1 rid
              rcases hoo : onOpen s1 rid with ⟨s2, r2⟩
              rw [hoo] at ho
              cases r2 with
              | error e => exact KK_trans hr ho
              | ok o =>
                cases o with
                | some nid =>
                  exact KK_trans hr (KK_trans ho (KK_trans (KK_of_eq (s' := { s2 with openQ := s2.openQ ++ [nid] }) rfl rfl) (ih _ id k)))
                | none => exact KK_trans hr (KK_trans ho (ih s2 id k))
            | close rid =>
              simp only
              split
              · exact KK_trans hr (KK_onClose s1 rid.mirror)
              · exact KK_trans hr (KK_trans (KK_onClose s1 rid.mirror) (ih _ id k))
            | reset rid =>
              simp only
              split
              · exact KK_trans hr (KK_onReset s1 rid.mirror)
              · exact KK_trans hr (KK_trans (KK_onReset s1 rid.mirror) (ih _ id k))

theorem KK_pollNextStream (s : State) : KK s (pollNextStream s).1 := by
  unfold pollNextStream
  split
  · exact KK_refl _
  · split
    · exact KK_of_eq rfl rfl
    · exact KK_nextStreamLoop _ _ _

theorem KK_pollOpenStream (s : State) : KK s (pollOpenStream s).1 := by
  unfold pollOpenStream
  split
  · exact KK_refl _
  · split
    · exact KK_refl _
    · have h := KK_sinkReady s
      rcases hsr : sinkReady s with ⟨s1, b⟩
      rw [hsr] at h
      cases b with
      | false => exact h
      | true =>
        simp only
        split
        · exact h
        · refine KK_trans h ?_
          intro hst
          refine ⟨hst, fun id hid => ?_⟩
          show ((State.put _ _).get id).isSome = true
          rw [get_put]; split
          · rfl
          · exact hid

theorem KK_readFromBuf {s s' : State} {id : Sid} {d : List Nat} (h : readFromBuf s id = some (s', d)) :
    KK s s' := by
  unfold readFromBuf at h
  cases hx : s.get id with
  | none => rw [hx] at h; simp at h
  | some x =>
    rw [hx] at h
    simp only at h
    cases hb : x.buf with
    | nil => rw [hb] at h; simp at h
    | cons d0 rest =>
      rw [hb] at h
      simp only [Option.some.injEq, Prod.mk.injEq] at h
      rw [← h.1]
      split
      · exact KK_trans (KK_of_eq (s' := { s with blocking := none }) rfl rfl) (KK_put _ _)
      · exact KK_put _ _

theorem KK_pollReadStream (s : State) (id : Sid) : KK s (pollReadStream s id).1 := by
  unfold pollReadStream
  split
  · exact KK_refl _
  · split
    · rename_i s' d h; exact KK_readFromBuf h
    · exact KK_readStreamLoop _ _ _ _

theorem KK_substreamRead : ∀ (fuel : Nat) (s : State) (h : Handle) (n : Nat),
    KK s (substreamRead fuel s h n).1 := by
  intro fuel
  induction fuel with
  | zero => intro s h n; exact KK_refl _
  | succ fuel ih =>
    intro s h n
    simp only [substreamRead]
    split
    · exact KK_refl _
    · have hr := KK_pollReadStream s h.id
      rcases hp : pollReadStream s h.id with ⟨s1, r⟩
      rw [hp] at hr
      cases r with
      | pending => exact hr
      | ready e =>
        cases e with
        | error k => exact hr
        | ok o =>
          cases o with
          | none => exact hr
          | some d => exact KK_trans hr (ih s1 _ n)

theorem KK_writeOpen (s : State) (x : Sub) (id : Sid) (data : List Nat) : KK s (writeOpen s x id data).1 := by
  unfold writeOpen
  simp only
  have h := KK_sendFrame s (.data id (data.take (min data.length s.cfg.split)))
  rcases hsf : sendFrame s (.data id (data.take (min data.length s.cfg.split))) with ⟨s1, r⟩
  rw [hsf] at h
  cases r with
  | pending => exact h
  | ready e =>
    cases e with
    | error k => exact h
    | ok u => exact KK_trans h (KK_put _ _)

theorem KK_pollWriteStream (s : State) (id : Sid) (data : List Nat) : KK s (pollWriteStream s id data).1 := by
  unfold pollWriteStream
  split
  · exact KK_refl _
  · split
    · exact KK_refl _
    · split <;> first | exact KK_refl _ | exact KK_writeOpen _ _ _ _

theorem KK_pollFlushStream (s : State) : KK s (pollFlushStream s).1 := by
  unfold pollFlushStream
  split
  · exact KK_refl _
  · exact KK_pollFlush s

/-- the entry is taken out, the frame sent, the entry put back -/
theorem KK_closeOpen (s : State) (x : Sub) (id : Sid) (hx : s.get id = some x) : KK s (closeOpen s x id).1 := by
  have hid : x.id = id := (getSub_mem hx).2
  unfold closeOpen
  have h := KK_sendFrame (s.del id) (.close id)
  rcases hsf : sendFrame (s.del id) (.close id) with ⟨s1, r⟩
  rw [hsf] at h
  -- after re-inserting an entry with id `id`, every key of `s` is there again
  have back : ∀ y : Sub, y.id = id → KK s (s1.put y) := by
    intro y hy hst
    obtain ⟨h1, h2⟩ := h hst
    refine ⟨h1, fun j hj => ?_⟩
    rw [get_put]
    by_cases hj' : y.id = j
    · simp [hj']
    · simp only [hj', ↓reduceIte]
      apply h2
      rw [get_del_ne]
      · exact hj
      · intro e; exact hj' (by rw [hy, e])
  cases r with
  | pending => exact back x hid
  | ready e =>
    cases e with
    | error k =>
      intro hst
      -- sendFrame failed: status is not open
      exfalso
      unfold sendFrame at hsf
      rcases hsr : sinkReady (s.del id) with ⟨s2, b⟩
      rw [hsr] at hsf
      cases b with
      | false => simp at hsf
      | true =>
        simp only at hsf
        split at hsf
        · simp only [Prod.mk.injEq] at hsf
          rw [← hsf.1] at hst; simp [onError] at hst
        · simp at hsf
    | ok u => exact back _ hid

theorem KK_pollCloseStream (s : State) (id : Sid) : KK s (pollCloseStream s id).1 := by
  unfold pollCloseStream
  split
  · exact KK_refl _
  · split
    · exact KK_refl _
    · rename_i x hx
      split <;> first | exact KK_refl _ | exact KK_closeOpen _ _ _ hx

theorem KK_substreamClose (s : State) (id : Sid) : KK s (substreamClose s id).1 := by
  unfold substreamClose
  have h := KK_pollCloseStream s id
  rcases hp : pollCloseStream s id with ⟨s1, r⟩
  rw [hp] at h
  cases r with
  | pending => exact h
  | ready e =>
    cases e with
    | error k => exact h
    | ok u => exact KK_trans h (KK_pollFlushStream s1)

theorem KK_pollClose (s : State) : KK s (pollClose s).1 := by
  unfold pollClose
  split
  · exact KK_refl _
  · exact KK_refl _
  · split
    · exact KK_refl _
    · intro h; simp at h

/-- `drop_stream(id)` removes at most the entry `id` -/
theorem dropStream_keys (s : State) (id : Sid) :
    (dropStream s id).1.status = .opn → s.status = .opn ∧
      ∀ j, j ≠ id → (s.get j).isSome = true → ((dropStream s id).1.get j).isSome = true := by
  unfold dropStream
  split
  · rename_i h; intro hst; rw [h] at hst; cases hst
  · rename_i k h; intro hst; rw [h] at hst; cases hst
  · rename_i hopen
    split
    · intro _; exact ⟨hopen, fun j _ h => h⟩
    · rename_i x hx
      have hdel : ∀ j, j ≠ id → (s.get j).isSome = true → ((s.del id).get j).isSome = true := by
        intro j hj h; rw [get_del_ne _ _ _ hj]; exact h
      by_cases h0 : (s.del id).cfg.maxSubs = 0
      · simp only [h0, ↓reduceIte]
        intro _; exact ⟨hopen, hdel⟩
      · simp only [h0, ↓reduceIte]
        have hc := KK_checkMaxPending (s.del id)
        rcases hcm : checkMaxPending (s.del id) with ⟨s1, r⟩
        rw [hcm] at hc
        have fin : ∀ (s2 : State), KK s1 s2 → s2.status = .opn → s.status = .opn ∧
            ∀ j, j ≠ id → (s.get j).isSome = true → (s2.get j).isSome = true := by
          intro s2 hk hst
          obtain ⟨h1, h2⟩ := (KK_trans hc hk) hst
          exact ⟨hopen, fun j hj h => h2 j (hdel j hj h)⟩
        cases hst : x.st <;> simp only
        · cases r with
          | error k => exact fin s1 (KK_refl _)
          | ok u => exact fin _ (KK_of_eq rfl rfl)
        · intro _; exact ⟨hopen, hdel⟩
        · cases r with
          | error k => exact fin s1 (KK_refl _)
          | ok u => exact fin _ (KK_of_eq rfl rfl)
        · intro _; exact ⟨hopen, hdel⟩
        · intro _; exact ⟨hopen, hdel⟩

end C26

namespace C26
open C25 (Sid Role Frame)

/-- **Table entries persist.**  Whatever the operation (frames from the remote included), if the
connection is still healthy afterwards then it was healthy before and every substream that was in
the table is still in the table — except the one substream a `drop` names.  (This is what the
pre-fix `on_reset` violated: a remote `Reset` made the entry of a live substream vanish.) -/
theorem step_keeps_entries (m : MState) (op : Op) :
    (step m op).1.s.status = .opn → m.s.status = .opn ∧
      ∀ j, (∀ id, op = .drop id → j ≠ id) → (m.s.get j).isSome = true → ((step m op).1.s.get j).isSome = true := by
  have lift : ∀ {s' : State}, KK m.s s' → s'.status = .opn → m.s.status = .opn ∧
      ∀ j, (∀ id, op = .drop id → j ≠ id) → (m.s.get j).isSome = true → (s'.get j).isSome = true :=
    fun hk hst => ⟨(hk hst).1, fun j _ h => (hk hst).2 j h⟩
  cases op with
  | wire items => exact lift (KK_of_eq rfl rfl)
  | wblock b => exact lift (KK_of_eq rfl rfl)
  | inbound =>
    simp only [step]
    have := KK_pollNextStream m.s
    rcases hp : pollNextStream m.s with ⟨s1, r⟩
    rw [hp] at this
    cases r with
    | pending => exact lift this
    | ready e => cases e <;> exact lift this
  | outbound =>
    simp only [step]
    have := KK_pollOpenStream m.s
    rcases hp : pollOpenStream m.s with ⟨s1, r⟩
    rw [hp] at this
    cases r with
    | pending => exact lift this
    | ready e => cases e <;> exact lift this
  | read id n => simp only [step]; exact lift (KK_substreamRead _ _ _ _)
  | write id d => simp only [step]; exact lift (KK_pollWriteStream _ _ _)
  | flush id => simp only [step]; exact lift (KK_pollFlushStream _)
  | close id => simp only [step]; exact lift (KK_substreamClose _ _)
  | drop id =>
    simp only [step]
    intro hst
    obtain ⟨h1, h2⟩ := dropStream_keys m.s id hst
    exact ⟨h1, fun j hj h => h2 j (hj id rfl) h⟩
  | closeConn => simp only [step]; exact lift (KK_pollClose _)

end C26
