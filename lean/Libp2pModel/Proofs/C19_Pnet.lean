import Libp2pModel.Model.C19_Pnet
/-!
# C19 — proofs about the pnet `CryptWriter` / `PnetOutput` model
-/
namespace C19

variable (ks : Nat → Nat)

/-! ## keystream xor -/

theorem xorKs_length : ∀ (a : Bytes) (p : Nat), (xorKs ks p a).length = a.length := by
  intro a; induction a with
  | nil => intro p; rfl
  | cons b r ih => intro p; simp [xorKs, ih]

theorem xorKs_append : ∀ (a b : Bytes) (p : Nat),
    xorKs ks p (a ++ b) = xorKs ks p a ++ xorKs ks (p + a.length) b := by
  intro a; induction a with
  | nil => intro b p; simp [xorKs]
  | cons x r ih =>
    intro b p
    simp only [List.cons_append, xorKs, ih, List.length_cons]
    congr 3; omega

/-- deciphering with the same keystream position recovers the plaintext -/
theorem xorKs_invol : ∀ (a : Bytes) (p : Nat), xorKs ks p (xorKs ks p a) = a := by
  intro a; induction a with
  | nil => intro p; rfl
  | cons x r ih =>
    intro p
    simp only [xorKs, ih]
    rw [Nat.xor_assoc, Nat.xor_self, Nat.xor_zero]

theorem xorKs_take : ∀ (a : Bytes) (p k : Nat), (xorKs ks p a).take k = xorKs ks p (a.take k) := by
  intro a; induction a with
  | nil => intro p k; simp [xorKs]
  | cons x r ih =>
    intro p k
    cases k with
    | zero => simp [xorKs]
    | succ k => simp [xorKs, ih]

theorem xorKs_drop : ∀ (a : Bytes) (p k : Nat), (xorKs ks p a).drop k = xorKs ks (p + k) (a.drop k) := by
  intro a; induction a with
  | nil => intro p k; simp [xorKs]
  | cons x r ih =>
    intro p k
    cases k with
    | zero => simp [xorKs]
    | succ k =>
      simp only [xorKs, List.drop_succ_cons, ih]
      congr 1; omega

/-! ## `poll_flush_buf` -/

theorem flushLoop_spec (buf : Bytes) : ∀ (script : List Resp) (w : Nat), w ≤ buf.length →
    w ≤ (flushLoop buf w script).2.1 ∧ (flushLoop buf w script).2.1 ≤ buf.length ∧
    ((flushLoop buf w script).1 = .ready → (flushLoop buf w script).2.1 = buf.length) ∧
    (flushLoop buf w script).2.2.length ≤ script.length := by
  intro script
  induction script with
  | nil =>
    intro w hw
    unfold flushLoop
    split <;> simp <;> omega
  | cons r s ih =>
    intro w hw
    unfold flushLoop
    split
    · rename_i hlt
      cases r with
      | acc k =>
        simp only
        split
        · rename_i hn
          have ⟨a, b, c, d⟩ := ih (w + min k (buf.length - w)) (by omega)
          exact ⟨by omega, b, c, by simp only [List.length_cons]; omega⟩
        · simp; omega
      | err => simp; omega
      | intr =>
        simp only
        have ⟨a, b, c, d⟩ := ih w hw
        exact ⟨a, b, c, by simp only [List.length_cons]; omega⟩
      | pending => simp; omega
    · simp; omega

/-- flushing moves a prefix of `buf` to the wire, in order, and changes nothing else;
`Ready(Ok)` means the buffer is empty -/
theorem flushBuf_spec (st : CW) (script : List Resp) :
    (flushBuf st script).1.wire ++ (flushBuf st script).1.buf = st.wire ++ st.buf ∧
    (flushBuf st script).1.pos = st.pos ∧ (flushBuf st script).1.plain = st.plain ∧
    ((flushBuf st script).2.1 = .ready → (flushBuf st script).1.buf = []) ∧
    st.wire.length ≤ (flushBuf st script).1.wire.length := by
  have ⟨_, h2, h3, _⟩ := flushLoop_spec st.buf script 0 (by omega)
  unfold flushBuf
  simp only [List.append_assoc, List.take_append_drop, true_and, List.length_append]
  refine ⟨?_, by omega⟩
  intro hr
  have := h3 hr
  rw [this]; simp

/-! ## the writer invariant -/

/-- what reached the inner writer, followed by what is still buffered, is exactly the
keystream-xor of every byte that went through the cipher; the cipher stands at their count -/
def CW.Inv (st : CW) : Prop :=
  st.wire ++ st.buf = xorKs ks 0 st.plain ∧ st.pos = st.plain.length

theorem CW.init_inv : CW.Inv ks CW.init := by simp [CW.Inv, CW.init, xorKs]

theorem flushBuf_inv (st : CW) (script : List Resp) (h : st.Inv ks) : (flushBuf st script).1.Inv ks := by
  have ⟨h1, h2, h3, _, _⟩ := flushBuf_spec st script
  unfold CW.Inv at *
  rw [h1, h2, h3]; exact h

/-- `poll_write`: the invariant is kept; `Ok(n)` means the whole buffer was taken and enciphered
at the current keystream position; `Pending` means nothing was taken. -/
theorem pollWrite_spec (st : CW) (data : Bytes) (script : List Resp) (h : st.Inv ks) :
    (pollWrite ks st data script).1.Inv ks ∧
    (∀ n, (pollWrite ks st data script).2.1 = .ok n →
        n = data.length ∧ (pollWrite ks st data script).1.plain = st.plain ++ data) ∧
    ((pollWrite ks st data script).2.1 = .pending →
        (pollWrite ks st data script).1.plain = st.plain) ∧
    ((pollWrite ks st data script).1.plain = st.plain ∨
        (pollWrite ks st data script).1.plain = st.plain ++ data) ∧
    st.wire.length ≤ (pollWrite ks st data script).1.wire.length := by
  have hf1 := flushBuf_spec st script
  have hi1 := flushBuf_inv ks st script h
  unfold pollWrite
  cases hr : (flushBuf st script).2.1 with
  | pending => simp [hr, hi1, hf1.2.2.1, hf1.2.2.2.2]
  | errWriteZero => simp [hr, hi1, hf1.2.2.1, hf1.2.2.2.2]
  | errInner => simp [hr, hi1, hf1.2.2.1, hf1.2.2.2.2]
  | ready =>
    have hb : (flushBuf st script).1.buf = [] := hf1.2.2.2.1 hr
    simp only [hr, hb, List.nil_append, List.take_length, List.drop_length, List.append_nil]
    -- the state after enciphering `data`
    generalize hst2 : ({ (flushBuf st script).1 with
        buf := xorKs ks (flushBuf st script).1.pos data,
        pos := (flushBuf st script).1.pos + data.length,
        plain := (flushBuf st script).1.plain ++ data } : CW) = st2
    have hinv2 : st2.Inv ks := by
      subst hst2
      unfold CW.Inv at *
      simp only
      rw [xorKs_append, ← hi1.1, hb, List.append_nil, hi1.2, Nat.zero_add, List.length_append]
      exact ⟨rfl, rfl⟩
    have hp2 : st2.plain = st.plain ++ data := by subst hst2; simp [hf1.2.2.1]
    have hw2 : st.wire.length ≤ st2.wire.length := by subst hst2; exact hf1.2.2.2.2
    have hf2 := flushBuf_spec st2 (flushBuf st script).2.2
    have hi2 := flushBuf_inv ks st2 (flushBuf st script).2.2 hinv2
    have hw3 : st.wire.length ≤ (flushBuf st2 (flushBuf st script).2.2).1.wire.length :=
      Nat.le_trans hw2 hf2.2.2.2.2
    cases hr3 : (flushBuf st2 (flushBuf st script).2.2).2.1 <;>
      simp [hi2, hf2.2.2.1, hp2, hw3]

/-- `poll_flush` / `poll_close`: the invariant is kept, nothing new is enciphered, and `Ok` means
everything accepted so far has reached the inner writer -/
theorem pollFlush_spec (st : CW) (script : List Resp) (h : st.Inv ks) :
    (pollFlush st script).1.Inv ks ∧ (pollFlush st script).1.plain = st.plain ∧
    (∀ n, (pollFlush st script).2.1 = .ok n → (pollFlush st script).1.buf = [] ∧
      (pollFlush st script).1.wire = xorKs ks 0 st.plain) := by
  have hf := flushBuf_spec st script
  have hi := flushBuf_inv ks st script h
  unfold pollFlush
  refine ⟨hi, hf.2.2.1, ?_⟩
  intro n hn
  have hr : (flushBuf st script).2.1 = .ready := by
    cases hc : (flushBuf st script).2.1 <;> simp [hc, FlushRes.toW] at hn ⊢
  have hb := hf.2.2.2.1 hr
  refine ⟨hb, ?_⟩
  have := hi.1
  rw [hb, List.append_nil, hf.2.2.1] at this
  exact this

/-! ## writer + reader -/

/-- the connection invariant: the writer invariant, the reader has consumed a prefix of the wire,
and has handed exactly the corresponding plaintext prefix to the application -/
def PnetSt.Inv (s : PnetSt) : Prop :=
  s.cw.Inv ks ∧ s.rpos ≤ s.cw.wire.length ∧ s.delivered = s.cw.plain.take s.rpos

theorem PnetSt.init_inv : PnetSt.Inv ks PnetSt.init := by
  refine ⟨CW.init_inv ks, ?_, ?_⟩ <;> simp [PnetSt.init, CW.init]

theorem wire_eq (st : CW) (h : st.Inv ks) : st.wire = xorKs ks 0 (st.plain.take st.wire.length) := by
  have h1 := congrArg (List.take st.wire.length) h.1
  rw [List.take_left, xorKs_take] at h1
  exact h1

theorem wire_le_plain (st : CW) (h : st.Inv ks) : st.wire.length ≤ st.plain.length := by
  have h1 := congrArg List.length h.1
  rw [List.length_append, xorKs_length] at h1
  omega

/-- `PnetOutput::poll_read` returns the next plaintext bytes -/
theorem pnetRead_spec (st : CW) (h : st.Inv ks) (rpos n m : Nat) (hr : rpos ≤ st.wire.length) :
    (pnetRead ks st.wire rpos n m).1 ≤ st.wire.length ∧ rpos ≤ (pnetRead ks st.wire rpos n m).1 ∧
    st.plain.take rpos ++ ((pnetRead ks st.wire rpos n m).2).getD [] =
      st.plain.take (pnetRead ks st.wire rpos n m).1 := by
  unfold pnetRead
  simp only [List.length_drop]
  split
  · simp [hr]
  · rename_i hne
    generalize hsz : min (min n m) (st.wire.length - rpos) = size
    have hsize : rpos + size ≤ st.wire.length := by omega
    refine ⟨hsize, by omega, ?_⟩
    simp only [Option.getD_some]
    have hw := wire_eq ks st h
    have hwl := wire_le_plain ks st h
    rw [hw, xorKs_drop, xorKs_take, Nat.zero_add, xorKs_invol]
    rw [List.take_add]
    congr 1
    rw [List.drop_take, List.take_take]
    congr 1
    omega

theorem pnetStep_inv (s : PnetSt) (op : POp) (h : s.Inv ks) : (pnetStep ks s op).1.Inv ks := by
  obtain ⟨hcw, hr, hd⟩ := h
  cases op with
  | write data script =>
    have hs := pollWrite_spec ks s.cw data script hcw
    have hf1 := flushBuf_spec s.cw script
    simp only [pnetStep, PnetSt.Inv]
    refine ⟨hs.1, ?_, ?_⟩
    · have := hs.2.2.2.2; omega
    · rcases hs.2.2.2.1 with hp | hp
      · rw [hp]; exact hd
      · rw [hp, List.take_append_of_le_length (by have := wire_le_plain ks s.cw hcw; omega)]; exact hd
  | flush script =>
    have hs := pollFlush_spec ks s.cw script hcw
    have hf1 := flushBuf_spec s.cw script
    simp only [pnetStep, PnetSt.Inv]
    refine ⟨hs.1, ?_, ?_⟩
    · have : s.cw.wire.length ≤ (pollFlush s.cw script).1.wire.length := hf1.2.2.2.2
      omega
    · rw [hs.2.1]; exact hd
  | read n m =>
    have hs := pnetRead_spec ks s.cw hcw s.rpos n m hr
    simp only [pnetStep, PnetSt.Inv]
    refine ⟨hcw, hs.1, ?_⟩
    rw [hd]; exact hs.2.2

/-- run a whole op sequence -/
def pnetRun (s : PnetSt) (ops : List POp) : PnetSt := ops.foldl (fun s o => (pnetStep ks s o).1) s

theorem pnetRun_inv : ∀ (ops : List POp) (s : PnetSt), s.Inv ks → (pnetRun ks s ops).Inv ks := by
  intro ops
  induction ops with
  | nil => intro s h; exact h
  | cons o os ih => intro s h; exact ih _ (pnetStep_inv ks s o h)

/-! ## the Spec monitor accepts the model -/

theorem flushBuf_wire (st : CW) (script : List Resp) :
    ∃ d, (flushBuf st script).1.wire = st.wire ++ d := by
  unfold flushBuf; exact ⟨_, rfl⟩

theorem pollWrite_wire (st : CW) (data : Bytes) (script : List Resp) :
    ∃ d, (pollWrite ks st data script).1.wire = st.wire ++ d := by
  obtain ⟨d1, h1⟩ := flushBuf_wire st script
  unfold pollWrite
  cases hr : (flushBuf st script).2.1 with
  | pending => exact ⟨d1, by simp only [hr]; exact h1⟩
  | errWriteZero => exact ⟨d1, by simp only [hr]; exact h1⟩
  | errInner => exact ⟨d1, by simp only [hr]; exact h1⟩
  | ready =>
    simp only [hr]
    generalize hst2 : ({ (flushBuf st script).1 with
        buf := xorKs ks (flushBuf st script).1.pos
            (((flushBuf st script).1.buf ++ data).take data.length) ++
          ((flushBuf st script).1.buf ++ data).drop data.length,
        pos := (flushBuf st script).1.pos + data.length,
        plain := (flushBuf st script).1.plain ++
          ((flushBuf st script).1.buf ++ data).take data.length } : CW) = st2
    have hw2 : st2.wire = st.wire ++ d1 := by subst hst2; exact h1
    obtain ⟨d2, h2⟩ := flushBuf_wire st2 (flushBuf st script).2.2
    refine ⟨d1 ++ d2, ?_⟩
    cases hr3 : (flushBuf st2 (flushBuf st script).2.2).2.1 <;>
      simp only [h2, hw2, List.append_assoc]

theorem pollFlush_wire (st : CW) (script : List Resp) :
    ∃ d, (pollFlush st script).1.wire = st.wire ++ d := by
  unfold pollFlush; exact flushBuf_wire st script

theorem isPrefix_of_append (a b c : Bytes) (h : a ++ b = c) : isPrefix a c = true := by
  unfold isPrefix; subst h; simp

theorem isPrefix_take (l : Bytes) (k : Nat) : isPrefix (l.take k) l = true := by
  unfold isPrefix
  simp only [List.length_take, beq_iff_eq]
  rw [Nat.min_def]
  split
  · rfl
  · rw [List.take_of_length_le (by omega), List.take_of_length_le (by omega)]

/-- the model state and the monitor state agree while the stream is alive -/
def Agree (s : PnetSt) (m : PnetMon) : Prop :=
  s.Inv ks ∧ (m.dead = false → m.accepted = s.cw.plain ∧ m.wire = s.cw.wire ∧ m.delivered = s.delivered)

theorem pnetJudge_model (s : PnetSt) (m : PnetMon) (op : POp) (h : Agree ks s m) :
    (pnetJudge ks m op (pnetStep ks s op).2).2 = "ok" ∧
    Agree ks (pnetStep ks s op).1 (pnetJudge ks m op (pnetStep ks s op).2).1 := by
  have hinv' := pnetStep_inv ks s op h.1
  unfold pnetJudge
  cases hd : m.dead with
  | true => simp only [↓reduceIte]; exact ⟨by simp, hinv', by simp [hd]⟩
  | false =>
    obtain ⟨hacc, hwire, hdel⟩ := h.2 hd
    simp only [Bool.false_eq_true, ↓reduceIte]
    cases op with
    | write data script =>
      have hs := pollWrite_spec ks s.cw data script h.1.1
      obtain ⟨d, hd'⟩ := pollWrite_wire ks s.cw data script
      have hdelta : (pollWrite ks s.cw data script).1.wire.drop s.cw.wire.length = d := by
        rw [hd', List.drop_left]
      simp only [pnetStep, hdelta]
      cases hr : (pollWrite ks s.cw data script).2.1 with
      | ok n =>
        obtain ⟨hn, hp⟩ := hs.2.1 n hr
        have hpre : isPrefix (m.wire ++ d) (xorKs ks 0 (m.accepted ++ data.take n)) = true := by
          rw [hwire, ← hd', hacc, hn, List.take_length, ← hp]
          exact isPrefix_of_append _ _ _ hs.1.1
        simp only [hn, ne_eq, not_true_eq_false, ↓reduceIte, List.take_length] at hpre ⊢
        simp only [hpre, Bool.not_true, Bool.false_eq_true, ↓reduceIte, true_and]
        refine ⟨hinv', fun _ => ⟨?_, ?_, hdel⟩⟩
        · simp [hacc, hp]
        · simp [hwire, hd']
      | pending =>
        have hp := hs.2.2.1 hr
        have hpre : isPrefix (m.wire ++ d) (xorKs ks 0 m.accepted) = true := by
          rw [hwire, ← hd', hacc, ← hp]
          exact isPrefix_of_append _ _ _ hs.1.1
        simp only [hpre, Bool.not_true, Bool.false_eq_true, ↓reduceIte, true_and]
        refine ⟨hinv', fun _ => ⟨?_, ?_, hdel⟩⟩
        · simp [hacc, hp]
        · simp [hwire, hd']
      | errWriteZero => exact ⟨rfl, hinv', by simp⟩
      | errInner => exact ⟨rfl, hinv', by simp⟩
    | flush script =>
      have hs := pollFlush_spec ks s.cw script h.1.1
      obtain ⟨d, hd'⟩ := pollFlush_wire s.cw script
      have hdelta : (pollFlush s.cw script).1.wire.drop s.cw.wire.length = d := by
        rw [hd', List.drop_left]
      simp only [pnetStep, hdelta]
      have hpre : isPrefix (m.wire ++ d) (xorKs ks 0 m.accepted) = true := by
        rw [hwire, ← hd', hacc, ← hs.2.1]
        exact isPrefix_of_append _ _ _ hs.1.1
      cases hr : (pollFlush s.cw script).2.1 with
      | ok n =>
        obtain ⟨hb, hw⟩ := hs.2.2 n hr
        have hlen : (m.wire ++ d).length = m.accepted.length := by
          rw [hwire, ← hd', hw, xorKs_length, hacc]
        simp only [hpre, Bool.not_true, Bool.false_eq_true, ↓reduceIte, hlen, ne_eq,
          not_true_eq_false, true_and]
        refine ⟨hinv', fun _ => ⟨?_, ?_, hdel⟩⟩
        · simp [hacc, hs.2.1]
        · simp [hwire, hd']
      | pending =>
        simp only [hpre, Bool.not_true, Bool.false_eq_true, ↓reduceIte, true_and]
        refine ⟨hinv', fun _ => ⟨?_, ?_, hdel⟩⟩
        · simp [hacc, hs.2.1]
        · simp [hwire, hd']
      | errWriteZero => exact ⟨rfl, hinv', by simp⟩
      | errInner => exact ⟨rfl, hinv', by simp⟩
    | read n k =>
      have hs := pnetRead_spec ks s.cw h.1.1 s.rpos n k h.1.2.1
      simp only [pnetStep]
      have hdel' : m.delivered ++ (pnetRead ks s.cw.wire s.rpos n k).2.getD [] =
          s.cw.plain.take (pnetRead ks s.cw.wire s.rpos n k).1 := by
        rw [hdel, h.1.2.2]; exact hs.2.2
      have hpre : isPrefix (m.delivered ++ (pnetRead ks s.cw.wire s.rpos n k).2.getD []) m.accepted = true := by
        rw [hdel', hacc]; exact isPrefix_take _ _
      have hlen : ¬ ((m.delivered ++ (pnetRead ks s.cw.wire s.rpos n k).2.getD []).length > m.wire.length) := by
        rw [hdel', hwire, List.length_take]
        have := hs.1
        omega
      simp only [hpre, Bool.not_true, Bool.false_eq_true, ↓reduceIte, hlen, true_and]
      refine ⟨hinv', fun _ => ⟨hacc, hwire, ?_⟩⟩
      simp [hdel]

/-- verdicts of the monitor along a model run -/
def monRun : PnetSt → PnetMon → List POp → List String
  | _, _, [] => []
  | s, m, op :: ops =>
    (pnetJudge ks m op (pnetStep ks s op).2).2 ::
      monRun (pnetStep ks s op).1 (pnetJudge ks m op (pnetStep ks s op).2).1 ops

theorem monRun_ok : ∀ (ops : List POp) (s : PnetSt) (m : PnetMon), Agree ks s m →
    ∀ v ∈ monRun ks s m ops, v = "ok" := by
  intro ops
  induction ops with
  | nil => intro s m _ v hv; simp [monRun] at hv
  | cons op ops ih =>
    intro s m h v hv
    have ⟨h1, h2⟩ := pnetJudge_model ks s m op h
    simp only [monRun, List.mem_cons] at hv
    rcases hv with rfl | hv
    · exact h1
    · exact ih _ _ h2 v hv

end C19
