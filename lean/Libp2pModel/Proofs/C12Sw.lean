import Libp2pModel.Model.C12
/-! # C12 — proofs for the Swarm-level bookkeeping -/
namespace C12

theorem listenCheck_append (m : LMap) (xs ys : List SwEv) :
    Spec.listenCheck m (xs ++ ys) = (Spec.listenCheck m xs && Spec.listenCheck (xs.foldl Spec.listen m) ys) := by
  induction xs generalizing m with
  | nil => simp [Spec.listenCheck]
  | cons e es ih => simp [Spec.listenCheck, ih, Bool.and_assoc]

theorem foldl_confirmed_expired (lid : Nat) (addrs l : List Maddr) :
    (addrs.map (Ev.expiredListenAddr lid)).foldl Spec.confirmed l = l := by
  induction addrs generalizing l with
  | nil => rfl
  | cons a as ih => simp only [List.map_cons, List.foldl_cons, Spec.confirmed]; exact ih l

/-- one step: folding the `SwarmEvent`s it emits over the old map gives the new map, and a
`ListenerClosed` carries exactly the listener's remaining addresses -/
theorem swStep_listen (s : Sw) (op : SwOp) :
    (swStep s op).2.2.foldl Spec.listen s.listened = (swStep s op).1.listened ∧
    Spec.listenCheck s.listened (swStep s op).2.2 = true := by
  cases op <;> simp [swStep, Spec.listen, Spec.listenCheck, Spec.closedOk]
  case bCand a => split <;> simp [Spec.listen, Spec.listenCheck, Spec.closedOk]

theorem swStep_confirmed (s : Sw) (op : SwOp) :
    (swStep s op).2.1.foldl Spec.confirmed s.confirmed = (swStep s op).1.confirmed := by
  cases op <;> simp [swStep, Spec.confirmed, foldl_confirmed_expired]
  case bCand a => split <;> simp [Spec.confirmed]

theorem swRun_listen (ops : List SwOp) : ∀ s : Sw,
    (swRun s ops).2.2.foldl Spec.listen s.listened = (swRun s ops).1.listened ∧
    Spec.listenCheck s.listened (swRun s ops).2.2 = true := by
  induction ops with
  | nil => intro s; simp [swRun, Spec.listenCheck]
  | cons o os ih =>
    intro s
    have h1 := swStep_listen s o
    have h2 := ih (swStep s o).1
    simp only [swRun, List.foldl_append, listenCheck_append, h1.1, h1.2, h2.1, h2.2, and_self, Bool.and_self]

theorem swRun_confirmed (ops : List SwOp) : ∀ s : Sw,
    (swRun s ops).2.1.foldl Spec.confirmed s.confirmed = (swRun s ops).1.confirmed := by
  induction ops with
  | nil => intro s; simp [swRun]
  | cons o os ih =>
    intro s
    simp only [swRun, List.foldl_append, swStep_confirmed s o, ih (swStep s o).1]

/-! ### "each address announced exactly once": keys and per-listener lists stay duplicate-free -/

structure SwInv (s : Sw) : Prop where
  keys : (s.listened.map (·.1)).Nodup
  vals : ∀ e ∈ s.listened, e.2.Nodup
  conf : s.confirmed.Nodup

theorem lget_mem (m : LMap) (lid : Nat) (v : List Maddr) (h : lget lid m = some v) : (lid, v) ∈ m := by
  induction m with
  | nil => simp [lget] at h
  | cons e t ih =>
    obtain ⟨k, w⟩ := e
    simp only [lget] at h
    by_cases hk : k = lid
    · simp only [hk, ↓reduceIte, Option.some.injEq] at h; simp [hk, h]
    · simp only [hk, ↓reduceIte] at h; exact List.mem_cons_of_mem _ (ih h)

theorem lset_inv (m : LMap) (lid : Nat) (v : List Maddr)
    (hk : (m.map (·.1)).Nodup) (hv : ∀ e ∈ m, e.2.Nodup) (hn : v.Nodup) :
    ((lset lid v m).map (·.1)).Nodup ∧ ∀ e ∈ lset lid v m, e.2.Nodup := by
  constructor
  · simp only [lset, List.map_cons, List.nodup_cons]
    constructor
    · simp [List.mem_map, List.mem_filter]
    · exact hk.sublist (List.Sublist.map _ List.filter_sublist)
  · intro e he
    simp only [lset, List.mem_cons, List.mem_filter] at he
    rcases he with he | he
    · subst he; exact hn
    · exact hv e he.1

theorem nodup_snoc_of_not_mem {α : Type} (l : List α) (a : α) (h : l.Nodup) (hn : a ∉ l) : (l ++ [a]).Nodup := by
  rw [List.nodup_append]
  refine ⟨h, by simp, ?_⟩
  intro x hx y hy
  simp at hy; subst hy; rintro rfl; exact hn hx

theorem swStep_inv (s : Sw) (hi : SwInv s) (op : SwOp) : SwInv (swStep s op).1 := by
  have hval : ∀ lid, ((lget lid s.listened).getD []).Nodup := by
    intro lid
    cases h : lget lid s.listened with
    | none => simp
    | some v => exact hi.vals _ (lget_mem _ _ _ h)
  cases op
  case newAddr lid a =>
    simp only [swStep]
    have hn : (if ((lget lid s.listened).getD []).contains a then (lget lid s.listened).getD []
        else (lget lid s.listened).getD [] ++ [a]).Nodup := by
      by_cases hc : ((lget lid s.listened).getD []).contains a
      · rw [if_pos hc]; exact hval lid
      · rw [if_neg hc]; exact nodup_snoc_of_not_mem _ _ (hval lid) (by simpa using hc)
    have := lset_inv s.listened lid _ hi.keys hi.vals hn
    exact ⟨this.1, this.2, hi.conf⟩
  case addrExpired lid a =>
    simp only [swStep]
    cases h : lget lid s.listened with
    | none => exact hi
    | some v =>
      have hv : (v.filter (· != a)).Nodup := (hi.vals _ (lget_mem _ _ _ h)).sublist List.filter_sublist
      have := lset_inv s.listened lid _ hi.keys hi.vals hv
      exact ⟨this.1, this.2, hi.conf⟩
  case closed lid =>
    simp only [swStep, lremove]
    refine ⟨?_, ?_, hi.conf⟩
    · exact hi.keys.sublist (List.Sublist.map _ List.filter_sublist)
    · intro e he; exact hi.vals e (List.mem_filter.1 he).1
  case lerr lid => exact hi
  case addExt a =>
    simp only [swStep]
    refine ⟨hi.keys, hi.vals, ?_⟩
    by_cases hc : s.confirmed.contains a
    · simp only [hc, ↓reduceIte]; exact hi.conf
    · simp only [hc]; exact nodup_snoc_of_not_mem _ _ hi.conf (by simpa using hc)
  case rmExt a => exact ⟨hi.keys, hi.vals, hi.conf.sublist List.filter_sublist⟩
  case bConf a =>
    simp only [swStep]
    refine ⟨hi.keys, hi.vals, ?_⟩
    by_cases hc : s.confirmed.contains a
    · simp only [hc, ↓reduceIte]; exact hi.conf
    · simp only [hc]; exact nodup_snoc_of_not_mem _ _ hi.conf (by simpa using hc)
  case bExp a => exact ⟨hi.keys, hi.vals, hi.conf.sublist List.filter_sublist⟩
  case bCand a => simp only [swStep]; split <;> exact hi
  case bPeer p a => exact hi
  case addPeer p a => exact hi

theorem swRun_inv (ops : List SwOp) : ∀ s, SwInv s → SwInv (swRun s ops).1 := by
  induction ops with
  | nil => intro s h; exact h
  | cons o os ih => intro s h; exact ih _ (swStep_inv s h o)

end C12
