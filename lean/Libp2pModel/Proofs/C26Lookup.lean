import Libp2pModel.Proofs.C26Api2
namespace C26
open C25 (Sid Role Frame)

/-! ### lookups after updates -/

theorem getSub_removeSub_ne (l : List Sub) (j id : Sid) (h : id ≠ j) :
    getSub (removeSub l j) id = getSub l id := by
  induction l with
  | nil => rfl
  | cons a as ih =>
    by_cases ha : a.id = j
    · have h1 : (a.id == id) = false := by
        simp only [beq_eq_false_iff_ne, ne_eq]; intro h2; exact h (by rw [← h2, ha])
      have e1 : removeSub (a :: as) j = removeSub as j := by
        simp [removeSub, ha]
      have e2 : getSub (a :: as) id = getSub as id := by
        simp [getSub, h1]
      rw [e1, e2, ih]
    · have h1 : (a.id == j) = false := by simpa using ha
      have e1 : removeSub (a :: as) j = a :: removeSub as j := by
        simp [removeSub, h1]
      rw [e1]
      by_cases hb : a.id = id
      · simp [getSub, hb]
      · have h2 : (a.id == id) = false := by simpa using hb
        have e2 : getSub (a :: as) id = getSub as id := by
          simp [getSub, h2]
        have e3 : getSub (a :: removeSub as j) id = getSub (removeSub as j) id := by
          simp [getSub, h2]
        rw [e2, e3, ih]

theorem get_put (s : State) (y : Sub) (id : Sid) :
    (s.put y).get id = if y.id = id then some y else s.get id := by
  unfold State.get State.put insertSub
  simp only
  by_cases h : y.id = id
  · simp [getSub, h]
  · have h1 : (y.id == id) = false := by simpa using h
    simp only [getSub, List.find?_cons, h1, h, ↓reduceIte]
    exact getSub_removeSub_ne s.subs y.id id (fun e => h e.symm)

theorem get_del_ne (s : State) (j id : Sid) (h : id ≠ j) : (s.del j).get id = s.get id :=
  getSub_removeSub_ne s.subs j id h

/-- the substream `id` (if present) has an empty receive buffer -/
def EmptyBuf (s : State) (id : Sid) : Prop := ∀ x, s.get id = some x → x.buf = []

theorem EmptyBuf_of_subs {s s' : State} {id : Sid} (h : EmptyBuf s id) (hs : s'.subs = s.subs ∨ s'.subs = []) :
    EmptyBuf s' id := by
  intro x hx
  rcases hs with hs | hs
  · apply h x; unfold State.get at hx ⊢; rw [← hs]; exact hx
  · unfold State.get at hx; rw [hs] at hx; simp [getSub] at hx

theorem EmptyBuf_put {s : State} {id : Sid} {y : Sub} (h : EmptyBuf s id) (hy : y.id = id → y.buf = []) :
    EmptyBuf (s.put y) id := by
  intro x hx
  rw [get_put] at hx
  split at hx
  · rename_i he; simp only [Option.some.injEq] at hx; subst hx; exact hy he
  · exact h x hx

/-! ### which functions keep the substream table (or clear it) -/

theorem sendFrame_subs (s : State) (f : Frame) : (sendFrame s f).1.subs = s.subs ∨ (sendFrame s f).1.subs = [] := by
  unfold sendFrame
  have hc := sinkReady_core s
  rcases hsr : sinkReady s with ⟨s1, b⟩
  rw [hsr] at hc
  simp only at hc
  cases b with
  | false => exact .inl hc.2.1
  | true =>
    simp only
    split
    · right; simp [onError]
    · left; exact hc.2.1

theorem sendPendingGo_subs : ∀ (l : List Frame) (s : State),
    (sendPendingGo s l).1.subs = s.subs ∨ (sendPendingGo s l).1.subs = [] := by
  intro l
  induction l with
  | nil => intro s; left; rfl
  | cons f rest ih =>
    intro s
    simp only [sendPendingGo]
    have h := sendFrame_subs { s with pendQ := rest } f
    rcases hsf : sendFrame { s with pendQ := rest } f with ⟨s', r⟩
    rw [hsf] at h
    simp only at h
    cases r with
    | pending => exact h
    | ready e =>
      cases e with
      | error k => exact h
      | ok u =>
        rcases ih s' with h2 | h2
        · rcases h with h | h
          · left; rw [h2, h]
          · right; rw [h2, h]
        · right; exact h2

theorem pollFlush_subs (s : State) : (pollFlush s).1.subs = s.subs ∨ (pollFlush s).1.subs = [] := by
  unfold pollFlush
  split
  · left; rfl
  · left; rfl
  · have h := sendPendingGo_subs s.pendQ s
    unfold sendPending
    rcases hsp : sendPendingGo s s.pendQ with ⟨s1, r⟩
    rw [hsp] at h
    simp only at h
    cases r with
    | pending => exact h
    | ready e =>
      cases e with
      | error k => exact h
      | ok u =>
        simp only
        split
        · exact h
        · exact h

theorem readFrame_subs (s : State) (sid : Option Sid) :
    (readFrame s sid).1.subs = s.subs ∨ (readFrame s sid).1.subs = [] := by
  unfold readFrame
  have h := sendPendingGo_subs s.pendQ s
  unfold sendPending
  rcases hsp : sendPendingGo s s.pendQ with ⟨s1, r⟩
  rw [hsp] at h
  simp only at h
  have trans : ∀ {a b : State}, (b.subs = a.subs ∨ b.subs = []) → (a.subs = s.subs ∨ a.subs = []) →
      (b.subs = s.subs ∨ b.subs = []) := by
    intro a b h1 h2
    rcases h1 with h1 | h1
    · rcases h2 with h2 | h2
      · left; rw [h1, h2]
      · right; rw [h1, h2]
    · right; exact h1
  have hflush : (readFlush s1 sid).1.subs = s1.subs ∨ (readFlush s1 sid).1.subs = [] := by
    unfold readFlush
    split
    · split
      · have hp := pollFlush_subs s1
        rcases hpf : pollFlush s1 with ⟨s2, r2⟩
        rw [hpf] at hp
        cases r2 with
        | pending => exact hp
        | ready e => cases e with
          | error k => exact hp
          | ok u => exact hp
      · left; rfl
    · left; rfl
  have htail : ∀ s2 : State, (readTail s2).1.subs = s2.subs ∨ (readTail s2).1.subs = [] := by
    intro s2
    unfold readTail
    split
    · left; rfl
    · split
      · left; rfl
      · left; rfl
      · right; simp [onError]
      · right; simp [onError]
  have rest : (match readFlush s1 sid with
      | (s, some r) => (s, r)
      | (s, none) => readTail s : State × R Frame).1.subs = s.subs ∨
      (match readFlush s1 sid with
      | (s, some r) => (s, r)
      | (s, none) => readTail s : State × R Frame).1.subs = [] := by
    rcases hrf : readFlush s1 sid with ⟨s2, o⟩
    rw [hrf] at hflush
    simp only at hflush
    cases o with
    | some r => exact trans hflush h
    | none => exact trans (htail s2) (trans hflush h)
  cases r with
  | pending => exact rest
  | ready e =>
    cases e with
    | error k => exact h
    | ok u => exact rest

end C26
