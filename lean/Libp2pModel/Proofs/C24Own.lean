import Libp2pModel.Proofs.C24Inq
namespace C26
open C25 (Sid Role Frame)

theorem checkMaxPending_inq (s : State) : (checkMaxPending s).1.inq = s.inq := by
  unfold checkMaxPending; split <;> simp [onError]

theorem onOpen_inq (s : State) (rid : Sid) : (onOpen s rid).1.inq = s.inq := by
  unfold onOpen
  simp only
  split
  · simp [onError]
  · split
    · have := checkMaxPending_inq s
      rcases hcm : checkMaxPending s with ⟨s1, r⟩
      rw [hcm] at this
      cases r <;> exact this
    · rfl

theorem onReset_inq (s : State) (id : Sid) : (onReset s id).inq = s.inq := by
  unfold onReset
  split
  · rfl
  · split <;> rfl

theorem onClose_inq (s : State) (id : Sid) : (onClose s id).inq = s.inq := by
  unfold onClose
  split
  · rfl
  · split <;> rfl

theorem buffer_inq (s : State) (id : Sid) (d : List Nat) : (buffer s id d).1.inq = s.inq := by
  unfold buffer
  split
  · rfl
  · split
    · rfl
    · split
      · rfl
      · simp only
        split
        · split
          · rfl
          · by_cases hge : s.pendQ.length ≥ s.cfg.maxSubs + EXTRA_PENDING_FRAMES
            · simp only [checkMaxPending, put_pendQ, put_cfg, hge, ↓reduceIte]; rfl
            · simp only [checkMaxPending, put_pendQ, put_cfg, hge, ↓reduceIte]; rfl
        · rfl

/-- **Reads never return another substream's data (loop part)**: a payload that `poll_read_stream`
returns without going through the buffer is the payload of a Data frame *addressed to this
substream* that was waiting in the inbound queue. -/
theorem readStreamLoop_own : ∀ (fuel : Nat) (s : State) (id : Sid) (k : Nat) (d : List Nat),
    (readStreamLoop fuel s id k).2 = .ready (.ok (some d)) →
    ∃ rid : Sid, rid.mirror = id ∧ InItem.frame (.data rid d) ∈ s.inq := by
  intro fuel
  induction fuel with
  | zero => intro s id k d h; simp [readStreamLoop] at h
  | succ fuel ih =>
    intro s id k d h
    simp only [readStreamLoop] at h
    split at h
    · simp at h
    · split at h
      · simp at h
      · have hq := readFrame_inq s (some id)
        rcases hrf : readFrame s (some id) with ⟨s1, r⟩
        rw [hrf] at h hq
        simp only at hq
        cases r with
        | pending => simp at h
        | ready e =>
          cases e with
          | error k' => simp at h
          | ok f =>
            have hhead := hq.1 f rfl
            have lift : ∀ {s2 : State}, s2.inq = s1.inq →
                (∃ rid : Sid, rid.mirror = id ∧ InItem.frame (.data rid d) ∈ s2.inq) →
                ∃ rid : Sid, rid.mirror = id ∧ InItem.frame (.data rid d) ∈ s.inq := by
              intro s2 he ⟨rid, h1, h2⟩
              exact ⟨rid, h1, by rw [hhead, ← he]; exact List.mem_cons_of_mem _ h2⟩
            cases f with
            | data rid d' =>
              simp only at h
              split at h
              · rename_i hm
                simp only [P.ready.injEq, Except.ok.injEq, Option.some.injEq] at h
                subst h
                exact ⟨rid, hm, by rw [hhead]; exact List.mem_cons_self⟩
              · have hbi := buffer_inq s1 rid.mirror d'
                rcases hbb : buffer s1 rid.mirror d' with ⟨s2, r2⟩
                rw [hbb] at h hbi
                cases r2 with
                | error e => simp at h
                | ok u => exact lift hbi (ih s2 id (k + 1) d h)
            | opn rid =>
              simp only at h
              have hoi := onOpen_inq s1 rid
              rcases hoo : onOpen s1 rid with ⟨s2, r2⟩
              rw [hoo] at h hoi
              cases r2 with
              | error e => simp at h
              | ok o =>
                cases o with
                | some nid => exact lift (s2 := { s2 with openQ := s2.openQ ++ [nid] }) hoi (ih _ id k d h)
                | none => exact lift hoi (ih s2 id k d h)
            | close rid =>
              simp only at h
              split at h
              · simp at h
              · exact lift (onClose_inq s1 rid.mirror) (ih _ id k d h)
            | reset rid =>
              simp only at h
              split at h
              · simp at h
              · exact lift (onReset_inq s1 rid.mirror) (ih _ id k d h)

/-- **Reads return only the substream's own data, in order**: whatever `poll_read_stream(id)`
returns is either the oldest frame of `id`'s own buffer, or — the buffer being empty — the payload
of a Data frame addressed to `id` in the inbound queue. -/
theorem pollReadStream_own (s : State) (id : Sid) (d : List Nat)
    (h : (pollReadStream s id).2 = .ready (.ok (some d))) :
    (∃ x rest, s.get id = some x ∧ x.buf = d :: rest) ∨
    (EmptyBuf s id ∧ ∃ rid : Sid, rid.mirror = id ∧ InItem.frame (.data rid d) ∈ s.inq) := by
  unfold pollReadStream at h
  split at h
  · simp at h
  · split at h
    · rename_i s' d' hb
      simp only [P.ready.injEq, Except.ok.injEq, Option.some.injEq] at h
      subst h
      left
      unfold readFromBuf at hb
      cases hx : s.get id with
      | none => rw [hx] at hb; simp at hb
      | some x =>
        rw [hx] at hb
        simp only at hb
        cases hbuf : x.buf with
        | nil => rw [hbuf] at hb; simp at hb
        | cons d0 rest =>
          rw [hbuf] at hb
          simp only [Option.some.injEq, Prod.mk.injEq] at hb
          exact ⟨x, rest, rfl, by rw [hbuf, hb.2]⟩
    · rename_i hb
      right
      exact ⟨readFromBuf_none hb, readStreamLoop_own _ s id 0 d h⟩

/-- a Data frame for another substream leaves this substream's entry alone (or fails the connection) -/
theorem buffer_no_crosstalk (s : State) (j id : Sid) (hj : j ≠ id) (d : List Nat) :
    (buffer s j d).1.get id = s.get id ∨ (buffer s j d).1.subs = [] := by
  unfold buffer
  split
  · left; rfl
  · rename_i x hx
    have hid := (getSub_mem hx).2
    have hne : ¬ (x.id = id) := by rw [hid]; exact hj
    split
    · left; rfl
    · split
      · left; rfl
      · simp only
        split
        · split
          · left
            show (s.put _).get id = _
            rw [get_put]; simp [hne]
          · by_cases hge : s.pendQ.length ≥ s.cfg.maxSubs + EXTRA_PENDING_FRAMES
            · simp only [checkMaxPending, put_pendQ, put_cfg, hge, ↓reduceIte]
              right; simp [onError]
            · simp only [checkMaxPending, put_pendQ, put_cfg, hge, ↓reduceIte]
              left
              show ((s.put _).put _).get id = _
              rw [get_put, get_put]; simp [hne]
        · left
          rw [get_put]; simp [hne]

end C26
