import Libp2pModel.Proofs.C07Strong
/-!
# C07 — an `Any` event only reaches connections that were established when it was emitted

Ghost clock: `State.clock` counts `spawn_connection`s; a connection remembers the clock value at its
establishment (`Conn.estAt`), an event the clock value at its emission (`Note.emitAt`).  Connection
ids are allocated when a dial is built / an inbound connection accepted, so id order says nothing
about establishment order; the invariant below never uses it.

`Time s`: every connection was established strictly before "now"; every `Any` event a handler has
received or has queued was emitted strictly after that connection was established; and the
connections named by the captured list of the pending `Any` event were established before its emission.
-/
namespace C07

structure Time (s : State) : Prop where
  clk : ∀ k ∈ s.conns ++ s.gone, k.estAt < s.clock
  seqT : ∀ k ∈ s.conns ++ s.gone, ∀ e ∈ k.seq, ∀ ids, e.tgt = .any ids → k.estAt < e.emitAt
  pendT : ∀ p ids0, s.pending = some p → p.e.tgt = .any ids0 →
    ∀ id ∈ ids0, ∀ k ∈ s.conns, k.id = id → k.estAt < p.e.emitAt

theorem startClose_estAt (buf : Nat) (k : Conn) : (k.startClose buf).estAt = k.estAt := by
  unfold Conn.startClose; split <;> rfl

theorem unparkOne_estAt (k : Conn) : k.unparkOne.estAt = k.estAt := by
  unfold Conn.unparkOne; split <;> rfl

theorem runCmds_estAt (q : List Cmd) : ∀ k : Conn, (runCmds k q).1.estAt = k.estAt := by
  induction q with
  | nil => intro k; simp [runCmds]
  | cons c rest ih =>
    intro k
    cases c with
    | close => simp [runCmds]
    | notify e => rw [runCmds_notify, ih]; exact unparkOne_estAt k

theorem runTask_estAt (k : Conn) : k.runTask.1.estAt = k.estAt := by
  unfold Conn.runTask
  by_cases hd : k.done = true
  · simp [hd]
  · simp only [hd, Bool.false_eq_true, ↓reduceIte]
    split
    · exact runCmds_estAt _ _
    · split
      · exact runCmds_estAt _ _
      · exact runCmds_estAt _ _

/-- the connection list is replaced by one whose members all come from old members with the same
id, establishment time and received-or-queued events -/
theorem Time.conns_like {s s' : State} (h : Time s) (hp : s'.pending = s.pending) (hc : s'.clock = s.clock)
    (hk : ∀ k' ∈ s'.conns, ∃ k ∈ s.conns, k'.id = k.id ∧ k'.estAt = k.estAt ∧ k'.seq = k.seq)
    (hg : ∀ k' ∈ s'.gone, k' ∈ s.conns ++ s.gone) : Time s' := by
  have hall : ∀ k' ∈ s'.conns ++ s'.gone, ∃ k ∈ s.conns ++ s.gone, k'.estAt = k.estAt ∧ k'.seq = k.seq := by
    intro k' hk'
    rcases List.mem_append.1 hk' with hk' | hk'
    · obtain ⟨k, hk1, _, h2, h3⟩ := hk k' hk'
      exact ⟨k, List.mem_append_left _ hk1, h2, h3⟩
    · exact ⟨k', hg k' hk', rfl, rfl⟩
  refine ⟨?_, ?_, ?_⟩
  · intro k' hk'
    obtain ⟨k, hk1, h2, _⟩ := hall k' hk'
    rw [h2, hc]; exact h.clk k hk1
  · intro k' hk' e he ids ht
    obtain ⟨k, hk1, h2, h3⟩ := hall k' hk'
    rw [h2]; rw [h3] at he; exact h.seqT k hk1 e he ids ht
  · intro p ids0 hp' ht id hid k' hk' hkid
    rw [hp] at hp'
    obtain ⟨k, hk1, h1, h2, _⟩ := hk k' hk'
    rw [h2]; exact h.pendT p ids0 hp' ht id hid k hk1 (by rw [← h1]; exact hkid)

theorem Time.frame {s s' : State} (h : Time s) (hc : s'.conns = s.conns) (hg : s'.gone = s.gone)
    (hp : s'.pending = s.pending) (hk : s'.clock = s.clock) : Time s' :=
  h.conns_like hp hk (fun k' hk' => ⟨k', by rw [← hc]; exact hk', rfl, rfl, rfl⟩)
    (fun k' hk' => List.mem_append_right _ (by rw [← hg]; exact hk'))

theorem Time.updSame {s : State} (h : Time s) (c : Nat) (f : Conn → Conn) (hid : ∀ k, (f k).id = k.id)
    (hest : ∀ k, (f k).estAt = k.estAt) (hseq : ∀ k, (f k).seq = k.seq) :
    Time { s with conns := upd s.conns c f } := by
  refine h.conns_like rfl rfl ?_ (fun k' hk' => List.mem_append_right _ hk')
  intro k' hk'
  rcases mem_upd hk' with hk' | ⟨k0, hk0, rfl⟩
  · exact ⟨k', hk', rfl, rfl, rfl⟩
  · exact ⟨k0, (findConn_mem hk0).1, hid k0, hest k0, hseq k0⟩

theorem Time.disconnect {s : State} (h : Time s) (p : Nat) : Time (disconnect s p) := by
  refine h.conns_like rfl rfl ?_ (fun k' hk' => List.mem_append_right _ hk')
  intro k' hk'
  have hk'' : k' ∈ s.conns.map (fun k => if k.peer == p then k.startClose s.buf else k) := hk'
  obtain ⟨k, hk, rfl⟩ := List.mem_map.1 hk''
  refine ⟨k, hk, ?_⟩
  split
  · exact ⟨startClose_id _ _, startClose_estAt _ _, (startClose_fields _ _).1⟩
  · exact ⟨rfl, rfl, rfl⟩

theorem Time.noPending {s s' : State} (h : Time s) (hc : s'.conns = s.conns) (hg : s'.gone = s.gone)
    (hp : s'.pending = none) (hk : s'.clock = s.clock) : Time s' :=
  ⟨by rw [hc, hg, hk]; exact h.clk, by rw [hc, hg]; exact h.seqT,
   fun p _ hp' => (by rw [hp] at hp'; cases hp')⟩

/-- the pending event is queued for the connection `get_established(c)` returns -/
theorem Time.sendHead {s : State} {p : Pending} (h : Time s) (hp : s.pending = some p) (c : Nat) (bad : Bool)
    (ht : okTgt p.e.tgt c) :
    Time { s with pending := none, conns := upd s.conns c (Conn.push s.buf p.e), bad := bad } := by
  have hmem : ∀ k' ∈ upd s.conns c (Conn.push s.buf p.e),
      (k' ∈ s.conns) ∨ ∃ k0 ∈ s.conns, k0.id = c ∧ k' = k0.push s.buf p.e := by
    intro k' hk'
    rcases mem_upd hk' with hk' | ⟨k0, hk0, rfl⟩
    · exact Or.inl hk'
    · exact Or.inr ⟨k0, (findConn_mem hk0).1, (findConn_mem hk0).2, rfl⟩
  refine ⟨?_, ?_, fun q _ hq => (by simp at hq)⟩
  · intro k' hk'
    rcases List.mem_append.1 hk' with hk' | hk'
    · rcases hmem k' hk' with hk' | ⟨k0, hk0, _, rfl⟩
      · exact h.clk k' (List.mem_append_left _ hk')
      · show (k0.push s.buf p.e).estAt < s.clock
        exact h.clk k0 (List.mem_append_left _ hk0)
    · exact h.clk k' (List.mem_append_right _ hk')
  · intro k' hk' e he ids hte
    rcases List.mem_append.1 hk' with hk' | hk'
    · rcases hmem k' hk' with hk' | ⟨k0, hk0, hid, rfl⟩
      · exact h.seqT k' (List.mem_append_left _ hk') e he ids hte
      · rw [(push_fields s.buf p.e k0).1] at he
        show k0.estAt < e.emitAt
        rcases List.mem_append.1 he with he | he
        · exact h.seqT k0 (List.mem_append_left _ hk0) e he ids hte
        · simp only [List.mem_singleton] at he
          subst he
          rw [hte] at ht
          exact h.pendT p ids hp hte c ht k0 hk0 hid
    · exact h.seqT k' (List.mem_append_right _ hk') e he ids hte

theorem Time.restorePending {s : State} {p : Pending} (h : Time s) (hp : s.pending = some p) (p' : Pending)
    (he : p'.e = p.e) : Time { s with pending := some p' } := by
  refine ⟨h.clk, h.seqT, ?_⟩
  intro q ids0 hq ht
  simp only [Option.some.injEq] at hq
  subst hq
  rw [he] at ht ⊢
  exact h.pendT p ids0 hp ht

theorem Time.deliverPending {s : State} {p : Pending} (hi : Inv s) (h : Time s) (hp : s.pending = some p) :
    Time (deliverPending { s with pending := none } p).1 := by
  have hpo := hi.pend p hp
  have hdrop : ∀ cur, Time (({ s with pending := none } : State).dropNote p.e cur) :=
    fun cur => h.noPending rfl rfl rfl rfl
  unfold C07.deliverPending
  cases hcur : p.cur with
  | one c =>
    simp only [pendOK, hcur] at hpo
    simp only
    cases hst : ({ s with pending := none } : State).status c with
    | none => exact hdrop _
    | some r =>
      cases r with
      | ok =>
        have := h.sendHead hp c s.bad (by rw [hpo]; rfl)
        simpa using this
      | pending => exact h.restorePending hp p rfl
      | err => exact hdrop _
  | any ids =>
    simp only [pendOK, hcur] at hpo
    obtain ⟨ids0, htgt, hsub⟩ := hpo
    simp only
    split
    · rename_i r0 rest hready
      have hr0 : r0 ∈ ids.filter (fun id => ({ s with pending := none } : State).status id == some .ok) := by
        rw [hready]; simp
      have hc : ∀ ch : Option Nat,
          (match ch with
            | some c => if (ids.filter (fun id => ({ s with pending := none } : State).status id == some .ok)).contains c then c else r0
            | none => r0) ∈ ids.filter (fun id => ({ s with pending := none } : State).status id == some .ok) := by
        intro ch
        cases ch with
        | none => exact hr0
        | some c =>
          simp only
          split
          · rename_i hcc; simpa using hcc
          · exact hr0
      refine h.sendHead hp _ _ ?_
      rw [htgt]
      exact hsub _ (List.mem_filter.1 (hc p.ch)).1
    · split
      · exact hdrop _
      · exact h.restorePending hp _ rfl

theorem Time.handleBeh {s : State} {cmd : BCmd} {rest : List BCmd} (h : Time s) (hp : s.pending = none) :
    Time (handleBeh { s with behQ := rest } cmd) := by
  cases cmd with
  | one c n =>
    refine ⟨h.clk, h.seqT, ?_⟩
    intro q ids0 hq ht
    simp only [C07.handleBeh, Option.some.injEq] at hq; subst hq; cases ht
  | any p n ch =>
    refine ⟨h.clk, h.seqT, ?_⟩
    intro q ids0 hq ht id _ k hk _
    simp only [C07.handleBeh, Option.some.injEq] at hq; subst hq
    exact h.clk k (List.mem_append_left _ hk)
  | closeOne c =>
    have h1 : Time { s with behQ := rest } := h.frame rfl rfl rfl rfl
    exact h1.updSame c _ (startClose_id _) (startClose_estAt _) (fun k => (startClose_fields _ k).1)
  | closeAll p =>
    have h1 : Time { s with behQ := rest } := h.frame rfl rfl rfl rfl
    exact h1.disconnect p
  | gen => exact h.frame rfl rfl rfl rfl

theorem dropAll_clock (l : List Note) : ∀ s : State, (dropAll s l).clock = s.clock := by
  induction l with
  | nil => intro s; rfl
  | cons e r ih => intro s; rw [dropAll, ih]; rfl

theorem advanceLocal_clock (s : State) : (advanceLocal s).clock = s.clock := by
  unfold C07.advanceLocal
  rcases hr : runAll s.conns with ⟨cs, lg, dr⟩
  simp only
  rw [dropAll_clock]

theorem Time.advanceLocal {s : State} (hi : Inv s) (h : Time s) : Time (advanceLocal s) := by
  obtain ⟨a, b, _, _, _, f⟩ := advanceLocal_fields s
  refine h.conns_like f (advanceLocal_clock s) ?_ (fun k' hk' => List.mem_append_right _ (by rw [← b]; exact hk'))
  intro k' hk'
  rw [a, runAll_fst] at hk'
  obtain ⟨k, hk, rfl⟩ := List.mem_map.1 hk'
  have hci := hi.conns k (List.mem_append_left _ hk)
  exact ⟨k, hk, (runTask_spec k).1, runTask_estAt k, ((runTask_spec k).2.2 hci.nac).2.1⟩

theorem Time.reportClosed {s : State} (h : Time s) (c : Nat) (bad : Bool) : Time (reportClosed s c bad).1 := by
  refine h.conns_like rfl rfl (fun k' hk' => ⟨k', mem_eraseConn hk', rfl, rfl, rfl⟩) ?_
  intro k' hk'
  rcases List.mem_append.1 hk' with hk' | hk'
  · exact List.mem_append_right _ hk'
  · simp only [Option.mem_toList] at hk'
    exact List.mem_append_left _ (findConn_mem hk').1

theorem Time.reportPending {s : State} (h : Time s) (m : PendMsg) (bad : Bool)
    (hfresh : ∀ p ids0, s.pending = some p → p.e.tgt = .any ids0 → m.id ∉ ids0) :
    Time (reportPending s m bad).1 := by
  unfold C07.reportPending
  split
  · refine ⟨?_, ?_, ?_⟩
    · intro k hk
      show k.estAt < s.clock + 1
      rcases List.mem_append.1 hk with hk | hk
      · rcases List.mem_append.1 hk with hk | hk
        · have := h.clk k (List.mem_append_left _ hk); omega
        · simp only [List.mem_singleton] at hk; subst hk; exact Nat.lt_succ_self _
      · have := h.clk k (List.mem_append_right _ hk); omega
    · intro k hk e he ids ht
      rcases List.mem_append.1 hk with hk | hk
      · rcases List.mem_append.1 hk with hk | hk
        · exact h.seqT k (List.mem_append_left _ hk) e he ids ht
        · simp only [List.mem_singleton] at hk; subst hk
          simp [Conn.seq, Cmd.notes] at he
      · exact h.seqT k (List.mem_append_right _ hk) e he ids ht
    · intro p ids0 hp ht id hid k hk hkid
      rcases List.mem_append.1 hk with hk | hk
      · exact h.pendT p ids0 hp ht id hid k hk hkid
      · simp only [List.mem_singleton] at hk; subst hk
        have hm : m.id = id := hkid
        rw [← hm] at hid
        exact absurd hid (hfresh p ids0 hp ht)
  · exact h.frame rfl rfl rfl rfl

theorem Time.init (n : Nat) : Time (State.init n) :=
  ⟨by intro k hk; simp [State.init] at hk, by intro k hk; simp [State.init] at hk,
   by intro p ids0 hp; simp [State.init] at hp⟩

end C07
