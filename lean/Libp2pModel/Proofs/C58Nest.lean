import Libp2pModel.Model.C58
/-!
# C58 — the `Either` nesting: patterns, wrapping, index arithmetic
-/
namespace C58

theorem Nest.lefts_succ' (k : Nat) (e : Nest) : Nest.lefts (k + 1) e = Nest.lefts k (.left e) := by
  induction k with
  | zero => rfl
  | succ k ih => simp only [Nest.lefts] at ih ⊢; rw [ih]

theorem Nest.lefts_add (a b : Nat) (e : Nest) : Nest.lefts (a + b) e = Nest.lefts a (Nest.lefts b e) := by
  induction a with
  | zero => simp [Nest.lefts]
  | succ a ih => rw [Nat.succ_add]; simp only [Nest.lefts, ih]

theorem Pat.lefts_add (a b : Nat) (p : Pat) : Pat.lefts (a + b) p = Pat.lefts a (Pat.lefts b p) := by
  induction a with
  | zero => simp [Pat.lefts]
  | succ a ih => rw [Nat.succ_add]; simp only [Pat.lefts, ih]

/-- equal numbers of `Left`s cancel -/
theorem matches_lefts (k : Nat) (p : Pat) (e : Nest) :
    (Pat.lefts k p).matches (Nest.lefts k e) = p.matches e := by
  induction k with
  | zero => rfl
  | succ k ih => simp only [Pat.lefts, Nest.lefts, Pat.matches, ih]

theorem matches_self (n i : Nat) (p : Nest) : (pattern n i).matches (wrap n i p) = some p := by
  unfold pattern wrap
  rw [matches_lefts]
  by_cases h : i = 0 <;> simp [h, Pat.matches]

/-- the arms are pairwise disjoint on well-typed events: an event wrapped for component `i`
matches no other component's arm -/
theorem matches_other (n i j : Nat) (p : Nest) (hi : i < n) (hj : j < n) (hne : j ≠ i) :
    (pattern n j).matches (wrap n i p) = none := by
  unfold pattern wrap
  rcases Nat.lt_or_gt_of_ne hne with hlt | hgt
  · -- j < i : the pattern has more `Left`s; below the event's `Left`s sits a `Right`
    have hi0 : i ≠ 0 := by omega
    obtain ⟨d, hd⟩ : ∃ d, n - 1 - j = (n - 1 - i) + (d + 1) := ⟨i - j - 1, by omega⟩
    rw [hd, Pat.lefts_add, matches_lefts]
    simp [hi0, Pat.lefts, Pat.matches]
  · -- j > i : the event has more `Left`s; the pattern's `Right` meets a `Left`
    have hj0 : j ≠ 0 := by omega
    obtain ⟨d, hd⟩ : ∃ d, n - 1 - i = (n - 1 - j) + (d + 1) := ⟨j - i - 1, by omega⟩
    rw [hd, Nest.lefts_add, matches_lefts]
    simp [hj0, Nest.lefts, Pat.matches]

theorem findSome_range'_unique {β : Type} (f : Nat → Option β) (i : Nat) (b : β)
    (hf : f i = some b) :
    ∀ (k a : Nat), a ≤ i → i < a + k → (∀ j, a ≤ j → j < a + k → j ≠ i → f j = none) →
      (List.range' a k).findSome? f = some b := by
  intro k
  induction k with
  | zero => intro a h1 h2; omega
  | succ k ih =>
    intro a h1 h2 ho
    rw [List.range'_succ, List.findSome?_cons]
    by_cases hai : a = i
    · subst hai; rw [hf]
    · rw [ho a (Nat.le_refl _) (by omega) hai]
      exact ih (a + 1) (by omega) (by omega) (fun j h3 h4 h5 => ho j (by omega) (by omega) h5)

/-- **Routing of handler events**: an event wrapped for component `i` of `n` is dispatched to
field `i`, with its payload unchanged. -/
theorem dispatch_wrap (n i : Nat) (p : Nest) (hi : i < n) : dispatch n (wrap n i p) = some (i, p) := by
  unfold dispatch
  rw [List.range_eq_range']
  apply findSome_range'_unique _ i (i, p)
  · simp [matches_self]
  · omega
  · omega
  · intro j _ hj hne
    simp at hj
    simp [matches_other n i j p hi hj hne]

/-! ### the closed-form index arithmetic of the Spec -/

theorem spine_lefts_leaf (k v : Nat) : (Nest.lefts k (.leaf v)).spine = (k, .leaf v) := by
  induction k with
  | zero => rfl
  | succ k ih => simp [Nest.lefts, Nest.spine, ih]

theorem spine_lefts_right (k : Nat) (e : Nest) : (Nest.lefts k (.right e)).spine = (k, .right e) := by
  induction k with
  | zero => rfl
  | succ k ih => simp [Nest.lefts, Nest.spine, ih]

theorem decode_wrap (n i v : Nat) (hi : i < n) : decode n (wrap n i (.leaf v)) = some (i, v) := by
  unfold decode wrap
  by_cases h : i = 0
  · subst h
    simp only [ne_eq, not_true_eq_false, ↓reduceIte, spine_lefts_leaf]
    have : n - 1 + 1 = n := by omega
    simp [this]
  · simp only [ne_eq, h, not_false_eq_true, ↓reduceIte, spine_lefts_right]
    have h1 : n - 1 - i + 1 < n := by omega
    have h2 : n - 1 - (n - 1 - i) = i := by omega
    simp [h1, h2]

theorem eq_lefts_spine (e : Nest) : e = Nest.lefts e.spine.1 e.spine.2 := by
  induction e with
  | leaf v => rfl
  | right e _ => rfl
  | left e ih =>
    simp only [Nest.spine, Nest.lefts]
    exact congrArg Nest.left ih

/-- conversely, whatever `decode` accepts IS the wrapping of that component's event: `decode`
and `wrap` are inverse, so the Spec's addressing of components is the macro's -/
theorem decode_eq_some (n : Nat) (e : Nest) (i v : Nat) (h : decode n e = some (i, v)) :
    i < n ∧ e = wrap n i (.leaf v) := by
  unfold decode at h
  have he := eq_lefts_spine e
  generalize e.spine = sp at h he
  obtain ⟨k, r⟩ := sp
  cases r with
  | leaf w =>
    simp only at h he
    by_cases hk : k + 1 = n
    · simp [hk] at h
      obtain ⟨rfl, rfl⟩ := h
      refine ⟨by omega, ?_⟩
      have : n - 1 - 0 = k := by omega
      simp [wrap, this, he]
    · simp [hk] at h
  | left r => simp at h
  | right r =>
    cases r with
    | leaf w =>
      simp only at h he
      by_cases hk : k + 1 < n
      · simp [hk] at h
        obtain ⟨rfl, rfl⟩ := h
        refine ⟨by omega, ?_⟩
        have h0 : n - 1 - k ≠ 0 := by omega
        have : n - 1 - (n - 1 - k) = k := by omega
        simp [wrap, this, h0, he]
      · simp [hk] at h
    | left r => simp at h
    | right r => simp at h

end C58
