import Libp2pModel.Proofs.C29BeliefBase
/-!
# C29 — belief invariant, part 2: the invariant and the ops that send no mesh notifications
(`connect`, `PeerKind`, `add_explicit_peer`, `publish`) plus `on_connection_closed`.
-/
namespace C29
open C28

/-- the joint invariant: mesh invariant (C28) + connection lists + first-connection beliefs -/
structure BInv (s : State) : Prop where
  inv : Inv s
  tail : TailInv s
  hb : HB s

theorem headOf_ne_none_of_connected {s : State} {p : Nat} {pd : Peer} (ht : TailInv s) (hp : s.peers p = some pd) :
    headOf s p ≠ none := by
  have hc : connsOf s p = some pd.conns := by simp [connsOf, hp]
  have hne := (ht p pd.conns hc).1
  cases hcc : pd.conns with
  | nil => exact absurd hcc hne
  | cons c rest =>
    rw [headOf_some_iff.2 ⟨pd, rest, hp, hcc⟩]; simp

theorem headB_eq_of_head {s : State} {p c : Nat} (h : headOf s p = some c) : headB s p = s.belief p c := by
  unfold headB; rw [h]

/-- a state change that touches neither connection lists, beliefs nor mesh memberships -/
theorem binv_frame {s s' : State} (h : BInv s) (hinv : Inv s') (hc : ∀ q, connsOf s' q = connsOf s q)
    (hb : s'.belief = s.belief) (hm : ∀ t q, inMesh s' t q = inMesh s t q) : BInv s' := by
  refine ⟨hinv, h.tail.rel ⟨hc, fun p c _ => by rw [hb]⟩, fun q => ?_⟩
  exact HBp_frame (h.hb q) (hc q) (fun c => by rw [hb]) (fun t => hm t q)

theorem binv_setKind (s : State) (p : Nat) (g : Bool) (h : BInv s) : BInv (setKind s p g) := by
  refine binv_frame h (inv_setKind s p g h.inv) (fun q => ?_) ?_ (fun t q => ?_)
  · unfold setKind connsOf
    cases hp : s.peers p with
    | none => rfl
    | some pd =>
      simp only
      split
      · rfl
      · by_cases hq : q = p
        · subst hq; simp [setF_same, hp]
        · simp [setF_other _ _ _ _ hq]
  · unfold setKind
    cases s.peers p with
    | none => rfl
    | some pd => simp only; split <;> rfl
  · unfold setKind
    cases s.peers p with
    | none => rfl
    | some pd => simp only; split <;> rfl

theorem binv_addExplicit (s : State) (p : Nat) (h : BInv s) (hp : ¬ InMeshP s p) : BInv (addExplicit s p) :=
  binv_frame h (inv_addExplicit s p h.inv hp) (fun _ => rfl) rfl (fun _ _ => rfl)

theorem binv_publish (s : State) (t : Nat) (new : Option (List Nat)) (h : BInv s) : BInv (publish s t new).1 := by
  have hpub : (publish s t new).1 = s ∨ (publish s t new).1 = { s with fanout := setF s.fanout t new } := by
    unfold publish
    split
    · exact Or.inl rfl
    · split
      · exact Or.inr rfl
      · exact Or.inl rfl
  have hi := inv_publish s t new h.inv
  rcases hpub with h1 | h1
  · rw [h1]; exact h
  · rw [h1] at hi ⊢
    exact binv_frame h hi (fun _ => rfl) rfl (fun _ _ => rfl)

/-! ## connection established -/

theorem binv_connect (s : State) (p c : Nat) (ob : Bool) (h : BInv s)
    (hfresh : ∀ pd, s.peers p = some pd → c ∉ pd.conns) : BInv (connect s p c ob) := by
  have hinv := inv_connect s p c ob h.inv
  have hmesh : ∀ t q, inMesh (connect s p c ob) t q = inMesh s t q := fun _ _ => rfl
  have hbel : ∀ q x, (connect s p c ob).belief q x = if q = p ∧ x = c then false else s.belief q x := fun _ _ => rfl
  have hconO : ∀ q, q ≠ p → connsOf (connect s p c ob) q = connsOf s q := by
    intro q hq
    simp [connsOf, connect, setF_other _ _ _ _ hq]
  have hconP : connsOf (connect s p c ob) p = some ((connsOf s p).getD [] ++ [c]) := by
    unfold connsOf connect
    cases hp : s.peers p with
    | none => simp [setF_same]
    | some pd => simp [setF_same]
  refine ⟨hinv, ?_, ?_⟩
  · -- connection lists
    intro q l hl
    by_cases hq : q = p
    · subst hq
      rw [hconP] at hl
      cases hl
      cases hp : s.peers q with
      | none =>
        simp only [connsOf, hp, Option.map_none, Option.getD_none, List.nil_append]
        refine ⟨by simp, by simp, by simp⟩
      | some pd =>
        have hc0 : connsOf s q = some pd.conns := by simp [connsOf, hp]
        obtain ⟨hne, hnd, htl⟩ := h.tail q pd.conns hc0
        simp only [hc0, Option.getD_some]
        refine ⟨by simp, ?_, ?_⟩
        · rw [List.nodup_append]
          refine ⟨hnd, by simp, ?_⟩
          intro a ha b hb
          simp only [List.mem_singleton] at hb
          subst hb
          rintro rfl
          exact hfresh pd hp ha
        · intro c' hc'
          rw [hbel]
          split
          · rfl
          · cases hcc : pd.conns with
            | nil => exact absurd hcc hne
            | cons x xs =>
              rw [hcc] at hc' htl
              simp only [List.cons_append, List.tail_cons, List.mem_append, List.mem_singleton] at hc'
              rcases hc' with hc' | hc'
              · exact htl c' (by simpa using hc')
              · rename_i hne'; exact absurd ⟨rfl, hc'⟩ hne'
    · rw [hconO q hq] at hl
      obtain ⟨hne, hnd, htl⟩ := h.tail q l hl
      refine ⟨hne, hnd, fun c' hc' => ?_⟩
      rw [hbel]
      simp [hq, htl c' hc']
  · -- first-connection beliefs
    intro q
    by_cases hq : q = p
    · subst hq
      unfold HBp
      have hInM : InM (connect s q c ob) q ↔ InM s q := Iff.rfl
      rw [hInM]
      cases hp : s.peers q with
      | none =>
        -- a new peer: nothing believed, and it is in no mesh
        have hno : ¬ InM s q := by
          rintro ⟨t, hin⟩
          obtain ⟨pd, hpd, _⟩ := topics_of_inMesh h.inv.mesh hin
          rw [hp] at hpd; cases hpd
        have hhead : headOf (connect s q c ob) q = some c := by
          rw [headOf, hconP]; simp [connsOf, hp]
        simp only [headB, hhead, hbel, and_self, ↓reduceIte, Bool.false_eq_true, false_iff]
        exact hno
      | some pd =>
        have hc0 : connsOf s q = some pd.conns := by simp [connsOf, hp]
        obtain ⟨hne, _, _⟩ := h.tail q pd.conns hc0
        cases hcc : pd.conns with
        | nil => exact absurd hcc hne
        | cons x xs =>
          have hx : x ≠ c := by
            rintro rfl
            exact hfresh pd hp (by simp [hcc])
          have hhead : headOf (connect s q c ob) q = some x := by
            rw [headOf, hconP]; simp [hc0, hcc]
          have hhead0 : headOf s q = some x := by simp [headOf, hc0, hcc]
          have := h.hb q
          unfold HBp headB at this
          rw [hhead0] at this
          simp only [headB, hhead, hbel, hx, and_false, ↓reduceIte]
          exact this
    · exact HBp_frame (h.hb q) (hconO q hq) (fun x => by rw [hbel]; simp [hq]) (fun t => hmesh t q)

/-! ## connection closed -/

theorem tail_erase_sub (l : List Nat) (c : Nat) : ∀ x ∈ (l.erase c).tail, x ∈ l.tail := by
  intro x hx
  cases l with
  | nil => simp at hx
  | cons y ys =>
    by_cases hyc : y = c
    · subst hyc
      simp only [List.erase_cons_head] at hx
      simpa using List.mem_of_mem_tail hx
    · rw [List.erase_cons_tail (by simpa using hyc)] at hx
      simp only [List.tail_cons] at hx ⊢
      exact List.mem_of_mem_erase hx

theorem head_erase (l : List Nat) (c x : Nat) (xs : List Nat) (h : l.erase c = x :: xs) :
    l.head? = some x ∨ x ∈ l.tail := by
  cases l with
  | nil => simp at h
  | cons y ys =>
    by_cases hyc : y = c
    · subst hyc
      simp only [List.erase_cons_head] at h
      right; simp [h]
    · rw [List.erase_cons_tail (by simpa using hyc)] at h
      left; simp [(List.cons.inj h).1]

theorem disconnect_eq (s : State) (p c : Nat) (pd : Peer) (hp : s.peers p = some pd) :
    (disconnect s p c).1 =
      if eraseFirst pd.conns c ≠ [] then
        notify { s with peers := setF s.peers p (some { pd with conns := eraseFirst pd.conns c }) }
          (if (pd.topics.any fun t => inMesh s t p) = true then [(p, (eraseFirst pd.conns c).headD 0, true)] else [])
      else
        { s with
          mesh := fun t => if pd.topics.contains t then (s.mesh t).map (fun m => del m p) else s.mesh t
          fanout := fun t => if pd.topics.contains t then (s.fanout t).map (fun m => del m p) else s.fanout t
          peers := setF s.peers p none } := by
  unfold disconnect
  simp only [hp]
  split <;> rfl

theorem binv_disconnect (s : State) (p c : Nat) (h : BInv s) : BInv (disconnect s p c).1 := by
  have hinv := inv_disconnect s p c h.inv
  cases hp : s.peers p with
  | none => simp only [disconnect, hp]; exact h
  | some pd =>
    rw [disconnect_eq s p c pd hp] at hinv ⊢
    have hc0 : connsOf s p = some pd.conns := by simp [connsOf, hp]
    obtain ⟨hne, hnd, htl⟩ := h.tail p pd.conns hc0
    by_cases hrest : eraseFirst pd.conns c ≠ []
    · -- other connections remain; the (possibly new) first one is told when the peer is in a mesh
      rw [if_pos hrest] at hinv ⊢
      -- the state before the notification
      let s1 : State := { s with peers := setF s.peers p (some { pd with conns := eraseFirst pd.conns c }) }
      have hcon1P : connsOf s1 p = some (eraseFirst pd.conns c) := by simp [s1, connsOf, setF_same]
      have hcon1O : ∀ q, q ≠ p → connsOf s1 q = connsOf s q := by
        intro q hq; simp [s1, connsOf, setF_other _ _ _ _ hq]
      have hnd1 : (eraseFirst pd.conns c).Nodup := hnd.erase c
      have hsub1 : ∀ x ∈ eraseFirst pd.conns c, x ∈ pd.conns := fun x hx => List.mem_of_mem_erase hx
      -- the in-mesh test of the code is membership in some mesh
      have hany : (pd.topics.any (fun t => inMesh s t p)) = true ↔ InM s p := by
        simp only [List.any_eq_true]
        constructor
        · rintro ⟨t, _, ht⟩; exact ⟨t, ht⟩
        · rintro ⟨t, ht⟩
          obtain ⟨pd', hpd', htt⟩ := topics_of_inMesh h.inv.mesh ht
          rw [hp] at hpd'; cases hpd'
          exact ⟨t, htt, ht⟩
      obtain ⟨x, xs, hr⟩ : ∃ x xs, eraseFirst pd.conns c = x :: xs := by
        cases hr : eraseFirst pd.conns c with
        | nil => exact absurd hr hrest
        | cons x xs => exact ⟨x, xs, rfl⟩
      have hhead1 : headOf s1 p = some x := by simp [headOf, hcon1P, hr]
      -- belief of `x` before: right if `x` was already first, `false` otherwise
      have hbx : s.belief p x = true → InM s p := by
        intro hb
        rcases head_erase pd.conns c x xs hr with hh0 | hh0
        · have hhead0 : headOf s p = some x := by simp [headOf, hc0, hh0]
          have := (h.hb p)
          unfold HBp headB at this
          rw [hhead0] at this
          exact this.1 hb
        · rw [htl x hh0] at hb; cases hb
      refine ⟨hinv, ?_, ?_⟩
      · -- connection lists
        intro q l hl
        by_cases hq : q = p
        · subst hq
          have : connsOf (notify s1 (if (pd.topics.any fun t => inMesh s t q) = true then [(q, (eraseFirst pd.conns c).headD 0, true)] else [])) q
              = some (eraseFirst pd.conns c) := hcon1P
          rw [this] at hl
          cases hl
          refine ⟨hrest, hnd1, fun c' hc' => ?_⟩
          have hc'x : c' ≠ x := by
            rw [hr] at hc' hnd1
            simp only [List.tail_cons] at hc'
            rintro rfl
            exact (List.nodup_cons.1 hnd1).1 hc'
          have hc'old : s.belief q c' = false := htl c' (tail_erase_sub pd.conns c c' hc')
          show applyNotifs s.belief _ q c' = false
          rw [applyNotifs_nomatch]
          · exact hc'old
          · intro n hn
            split at hn
            · simp only [List.mem_singleton] at hn
              subst hn
              simp only [hr, List.headD_cons]
              rintro ⟨_, h2⟩; exact hc'x h2
            · simp at hn
        · have hcq : connsOf (notify s1 (if (pd.topics.any fun t => inMesh s t p) = true then [(p, (eraseFirst pd.conns c).headD 0, true)] else [])) q
              = connsOf s q := hcon1O q hq
          rw [hcq] at hl
          obtain ⟨a, b, d⟩ := h.tail q l hl
          refine ⟨a, b, fun c' hc' => ?_⟩
          show applyNotifs s.belief _ q c' = false
          rw [applyNotifs_nomatch]
          · exact d c' hc'
          · intro n hn
            split at hn
            · simp only [List.mem_singleton] at hn
              subst hn
              rintro ⟨h1, _⟩; exact hq h1
            · simp at hn
      · -- first-connection beliefs
        intro q
        by_cases hq : q = p
        · subst hq
          unfold HBp
          have hInM : InM (notify s1 (if (pd.topics.any fun t => inMesh s t q) = true then [(q, (eraseFirst pd.conns c).headD 0, true)] else [])) q ↔ InM s q := Iff.rfl
          rw [hInM]
          have key : ∀ ns, headB (notify s1 ns) q = applyNotifs s.belief ns q x :=
            fun ns => headB_eq_of_head (s := notify s1 ns) hhead1
          change (headB (notify s1 _) q = true ↔ InM s q)
          rw [key]
          show applyNotifs s.belief _ q x = true ↔ InM s q
          by_cases hin : InM s q
          · have := hany.2 hin
            simp only [this, ↓reduceIte, hr, List.headD_cons]
            rw [applyNotifs_const true _ _ q x (by simp)]
            simp [hin]
          · have hf : ¬ (pd.topics.any fun t => inMesh s t q) = true := fun hh' => hin (hany.1 hh')
            simp only [hf, ↓reduceIte]
            show s.belief q x = true ↔ InM s q
            exact ⟨hbx, fun h' => absurd h' hin⟩
        · refine HBp_frame (h.hb q) (hcon1O q hq) (fun x' => ?_) (fun _ => rfl)
          show applyNotifs s.belief _ q x' = s.belief q x'
          apply applyNotifs_nomatch
          intro n hn
          split at hn
          · simp only [List.mem_singleton] at hn
            subst hn
            rintro ⟨h1, _⟩; exact hq h1
          · simp at hn
    · -- the last connection: the peer leaves the table and every mesh
      have hrest' : eraseFirst pd.conns c = [] := by simpa using hrest
      rw [if_neg hrest] at hinv ⊢
      have hmeshO : ∀ q, q ≠ p → ∀ t,
          inMesh { s with
            mesh := fun t => if pd.topics.contains t then (s.mesh t).map (fun m => del m p) else s.mesh t
            fanout := fun t => if pd.topics.contains t then (s.fanout t).map (fun m => del m p) else s.fanout t
            peers := setF s.peers p none } t q = inMesh s t q := by
        intro q hq t
        unfold inMesh
        simp only
        by_cases hct : pd.topics.contains t = true
        · rw [if_pos hct]
          cases s.mesh t with
          | none => rfl
          | some m =>
            simp only [Option.map_some]
            apply Bool.eq_iff_iff.2
            simp [mem_del, hq]
        · rw [if_neg hct]
      refine ⟨hinv, ?_, ?_⟩
      · intro q l hl
        by_cases hq : q = p
        · subst hq; simp [connsOf, setF_same] at hl
        · have : connsOf s q = some l := by
            simpa [connsOf, setF_other _ _ _ _ hq] using hl
          exact h.tail q l this
      · intro q
        by_cases hq : q = p
        · subst hq
          unfold HBp
          have hh : headOf { s with
              mesh := fun t => if pd.topics.contains t then (s.mesh t).map (fun m => del m q) else s.mesh t
              fanout := fun t => if pd.topics.contains t then (s.fanout t).map (fun m => del m q) else s.fanout t
              peers := setF s.peers q none } q = none := by
            simp [headOf, connsOf, setF_same]
          simp only [headB, hh, Bool.false_eq_true, false_iff]
          rintro ⟨t, hin⟩
          obtain ⟨pd', hpd', _⟩ := topics_of_inMesh hinv.mesh hin
          simp [setF_same] at hpd'
        · exact HBp_frame (h.hb q) (by simp [connsOf, setF_other _ _ _ _ hq]) (fun _ => rfl) (hmeshO q hq)

end C29
