import Libp2pModel.Model.C27
/-!
# C27 — invariants of the propagation model (helper lemmas for `Props/C27.lean`)
-/
namespace C27

/-! ## small list facts -/

theorem mem_uniq {a : Node} {l : List Node} : a ∈ uniq l ↔ a ∈ l := by
  induction l with
  | nil => simp [uniq]
  | cons b l ih =>
    simp only [uniq]
    split
    · rename_i h
      simp only [ih, List.mem_cons]
      constructor
      · intro h'; exact Or.inr h'
      · intro h'; rcases h' with rfl | h'
        · exact h
        · exact h'
    · simp [ih]

theorem uniq_length_le (l : List Node) : (uniq l).length ≤ l.length := by
  induction l with
  | nil => simp [uniq]
  | cons b l ih =>
    simp only [uniq]
    split <;> simp <;> omega

theorem mem_recipients {cfg : Cfg} {v u p : Node} :
    p ∈ recipients cfg v u ↔ p ∈ cfg.fwd v ∧ p ≠ u ∧ some p ≠ cfg.source := by
  simp [recipients, mem_uniq, keep]

theorem recipients_length_le (cfg : Cfg) (v u : Node) :
    (recipients cfg v u).length ≤ (cfg.fwd v).length := by
  unfold recipients
  exact Nat.le_trans (uniq_length_le _) (List.length_filter_le _ _)

/-! ## case analysis of one reception -/

theorem recv_cases (cfg : Cfg) (s : State) (u v : Node) :
    ((u, v) ∉ s.flight ∧ recv cfg s (u, v) = (s, .noflight)) ∨
    ((u, v) ∈ s.flight ∧ (cfg.source = some v ∧ u ≠ v) ∧
      recv cfg s (u, v) = ({ s with flight := s.flight.erase (u, v) }, .selfOrigin)) ∨
    ((u, v) ∈ s.flight ∧ ¬ (cfg.source = some v ∧ u ≠ v) ∧ v ∈ s.seen ∧
      recv cfg s (u, v) = ({ s with flight := s.flight.erase (u, v) }, .dup)) ∨
    ((u, v) ∈ s.flight ∧ ¬ (cfg.source = some v ∧ u ≠ v) ∧ v ∉ s.seen ∧
      recv cfg s (u, v) =
        ({ seen := v :: s.seen
           flight := s.flight.erase (u, v) ++ (recipients cfg v u).map fun p => (v, p)
           delivered := (v, u) :: s.delivered
           sent := s.sent ++ (recipients cfg v u).map fun p => (v, p) },
         .first (recipients cfg v u))) := by
  by_cases hf : (u, v) ∈ s.flight
  · by_cases hs : cfg.source = some v ∧ u ≠ v
    · right; left
      refine ⟨hf, hs, ?_⟩
      simp only [recv, hf, if_true]
      rw [if_pos hs]
    · by_cases hseen : v ∈ s.seen
      · right; right; left
        refine ⟨hf, hs, hseen, ?_⟩
        simp only [recv, hf, if_true]
        rw [if_neg hs, if_pos hseen]
      · right; right; right
        refine ⟨hf, hs, hseen, ?_⟩
        simp only [recv, hf, if_true]
        rw [if_neg hs, if_neg hseen]
  · left
    refine ⟨hf, ?_⟩
    simp only [recv, hf, if_false]

/-! ## the bookkeeping invariant -/

structure Inv (cfg : Cfg) (s : State) : Prop where
  pub_seen : cfg.pub ∈ s.seen
  seen_del : ∀ a ∈ s.seen, a = cfg.pub ∨ a ∈ s.delivered.map Prod.fst
  del_seen : ∀ a ∈ s.delivered.map Prod.fst, a ∈ s.seen
  pub_not_del : cfg.pub ∉ s.delivered.map Prod.fst
  del_nodup : (s.delivered.map Prod.fst).Nodup
  sent_src : ∀ a b, (a, b) ∈ s.sent →
    (a = cfg.pub ∧ b ∈ cfg.recips) ∨ (∃ u, (a, u) ∈ s.delivered ∧ b ∈ recipients cfg a u)
  flight_sent : ∀ l ∈ s.flight, l ∈ s.sent

theorem inv_publish (cfg : Cfg) : Inv cfg (publish cfg) where
  pub_seen := by simp [publish]
  seen_del := by intro a h; simp [publish] at h; exact Or.inl h
  del_seen := by intro a h; simp [publish] at h
  pub_not_del := by simp [publish]
  del_nodup := by simp [publish]
  sent_src := by
    intro a b h
    simp only [publish, List.mem_map, Prod.mk.injEq] at h
    obtain ⟨p, hp, rfl, rfl⟩ := h
    exact Or.inl ⟨rfl, hp⟩
  flight_sent := by intro l h; exact h

theorem inv_erase {cfg : Cfg} {s : State} (l : Node × Node) (h : Inv cfg s) :
    Inv cfg { s with flight := s.flight.erase l } :=
  { h with flight_sent := fun x hx => h.flight_sent x (List.mem_of_mem_erase hx) }

theorem inv_recv {cfg : Cfg} {s : State} (l : Node × Node) (h : Inv cfg s) :
    Inv cfg (recv cfg s l).1 := by
  obtain ⟨u, v⟩ := l
  rcases recv_cases cfg s u v with ⟨_, e⟩ | ⟨_, _, e⟩ | ⟨_, _, _, e⟩ | ⟨hf, _, hns, e⟩
  · rw [e]; exact h
  · rw [e]; exact inv_erase _ h
  · rw [e]; exact inv_erase _ h
  · rw [e]
    have hvp : v ≠ cfg.pub := fun hv => hns (hv ▸ h.pub_seen)
    have hvd : v ∉ s.delivered.map Prod.fst := fun hv => hns (h.del_seen v hv)
    refine
      { pub_seen := List.mem_cons_of_mem _ h.pub_seen
        seen_del := ?_, del_seen := ?_, pub_not_del := ?_, del_nodup := ?_
        sent_src := ?_, flight_sent := ?_ }
    · intro a ha
      rcases List.mem_cons.1 ha with rfl | ha
      · exact Or.inr (by simp)
      · rcases h.seen_del a ha with h1 | h1
        · exact Or.inl h1
        · exact Or.inr (by simp only [List.map_cons, List.mem_cons]; exact Or.inr h1)
    · intro a ha
      simp only [List.map_cons, List.mem_cons] at ha
      rcases ha with rfl | ha
      · exact List.mem_cons_self
      · exact List.mem_cons_of_mem _ (h.del_seen a ha)
    · simp only [List.map_cons, List.mem_cons, not_or]
      exact ⟨fun hp => hvp hp.symm, h.pub_not_del⟩
    · simp only [List.map_cons]
      exact List.nodup_cons.2 ⟨hvd, h.del_nodup⟩
    · intro a b hab
      rcases List.mem_append.1 hab with hab | hab
      · rcases h.sent_src a b hab with h1 | ⟨w, hw, hb⟩
        · exact Or.inl h1
        · exact Or.inr ⟨w, List.mem_cons_of_mem _ hw, hb⟩
      · simp only [List.mem_map, Prod.mk.injEq] at hab
        obtain ⟨p, hp, rfl, rfl⟩ := hab
        exact Or.inr ⟨u, List.mem_cons_self, hp⟩
    · intro x hx
      rcases List.mem_append.1 hx with hx | hx
      · exact List.mem_append_left _ (h.flight_sent x (List.mem_of_mem_erase hx))
      · exact List.mem_append_right _ hx

theorem inv_run (cfg : Cfg) (sched : List (Node × Node)) : Inv cfg (run cfg sched) :=
  Machine.invariant_of_step (recv cfg) (Inv cfg) (fun _ l h => inv_recv l h) sched _
    (inv_publish cfg)

/-- the sender of every copy in flight has the id in its duplicate cache -/
theorem Inv.flight_seen {cfg : Cfg} {s : State} (h : Inv cfg s) {a b : Node}
    (hab : (a, b) ∈ s.flight) : a ∈ s.seen := by
  rcases h.sent_src a b (h.flight_sent _ hab) with ⟨rfl, _⟩ | ⟨u, hu, _⟩
  · exact h.pub_seen
  · exact h.del_seen a (List.mem_map.2 ⟨(a, u), hu, rfl⟩)

/-- a node delivers from one propagation source only -/
theorem Inv.del_unique {cfg : Cfg} {s : State} (h : Inv cfg s) {a u u' : Node}
    (h1 : (a, u) ∈ s.delivered) (h2 : (a, u') ∈ s.delivered) : u = u' := by
  have hn := h.del_nodup
  generalize s.delivered = d at h1 h2 hn
  induction d with
  | nil => cases h1
  | cons x d ih =>
    simp only [List.map_cons, List.nodup_cons] at hn
    rcases List.mem_cons.1 h1 with e1 | h1 <;> rcases List.mem_cons.1 h2 with e2 | h2
    · rw [← e1] at e2; exact (Prod.mk.inj e2).2.symm ▸ rfl
    · exact absurd (List.mem_map.2 ⟨(a, u'), h2, by rw [← e1]⟩) hn.1
    · exact absurd (List.mem_map.2 ⟨(a, u), h1, by rw [← e2]⟩) hn.1
    · exact ih h1 h2 hn.2

/-! ## the closure invariant (at-least-once) -/

/-- "`b` has the message or a copy is on its way to `b`" -/
def Covered (s : State) (b : Node) : Prop := b ∈ s.seen ∨ ∃ x, (x, b) ∈ s.flight

structure Clo (cfg : Cfg) (s : State) : Prop where
  pubc : ∀ b ∈ cfg.recips, Covered s b
  fwdc : ∀ a ∈ s.seen, a ≠ cfg.pub → ∀ b ∈ cfg.fwd a, Covered s b

theorem clo_publish (cfg : Cfg) : Clo cfg (publish cfg) where
  pubc := by
    intro b hb
    exact Or.inr ⟨cfg.pub, by simp only [publish]; exact List.mem_map.2 ⟨b, hb, rfl⟩⟩
  fwdc := by
    intro a ha hne
    simp [publish] at ha
    exact absurd ha hne

theorem covered_step {s s' : State} {u v b : Node}
    (hs : ∀ a ∈ s.seen, a ∈ s'.seen) (hv : v ∈ s'.seen)
    (hf : ∀ l ∈ s.flight.erase (u, v), l ∈ s'.flight)
    (h : Covered s b) : Covered s' b := by
  rcases h with h | ⟨x, hx⟩
  · exact Or.inl (hs b h)
  · by_cases hb : b = v
    · exact Or.inl (hb ▸ hv)
    · refine Or.inr ⟨x, hf _ ?_⟩
      have hne : (x, b) ≠ (u, v) := fun e => hb (Prod.mk.inj e).2
      exact (List.mem_erase_of_ne hne).2 hx

theorem clo_recv {cfg : Cfg} {s : State} (hsrc : sourceOk cfg = true) (l : Node × Node)
    (hi : Inv cfg s) (h : Clo cfg s) : Clo cfg (recv cfg s l).1 := by
  obtain ⟨u, v⟩ := l
  have hsrc' : cfg.source = none ∨ cfg.source = some cfg.pub := by
    simpa [sourceOk] using hsrc
  rcases recv_cases cfg s u v with ⟨_, e⟩ | ⟨hf, ⟨hso, _⟩, e⟩ | ⟨hf, _, hseen, e⟩ | ⟨hf, _, hns, e⟩
  · rw [e]; exact h
  · -- self-origin rejection: only the publisher can take this branch
    rw [e]
    have hv : v ∈ s.seen := by
      rcases hsrc' with h0 | h0
      · rw [h0] at hso; cases hso
      · rw [h0] at hso; cases hso; exact hi.pub_seen
    exact
      { pubc := fun b hb => covered_step (s := s) (u := u) (v := v) (fun _ ha => ha) hv (fun _ hl => hl) (h.pubc b hb)
        fwdc := fun a ha hne b hb =>
          covered_step (s := s) (u := u) (v := v) (fun _ ha => ha) hv (fun _ hl => hl) (h.fwdc a ha hne b hb) }
  · rw [e]
    exact
      { pubc := fun b hb => covered_step (s := s) (u := u) (v := v) (fun _ ha => ha) hseen (fun _ hl => hl) (h.pubc b hb)
        fwdc := fun a ha hne b hb =>
          covered_step (s := s) (u := u) (v := v) (fun _ ha => ha) hseen (fun _ hl => hl) (h.fwdc a ha hne b hb) }
  · rw [e]
    have step : ∀ b, Covered s b → Covered
        { seen := v :: s.seen
          flight := s.flight.erase (u, v) ++ (recipients cfg v u).map fun p => (v, p)
          delivered := (v, u) :: s.delivered
          sent := s.sent ++ (recipients cfg v u).map fun p => (v, p) } b :=
      fun b hb => covered_step (s := s) (u := u) (v := v) (fun _ ha => List.mem_cons_of_mem _ ha)
        List.mem_cons_self (fun _ hl => List.mem_append_left _ hl) hb
    refine { pubc := fun b hb => step b (h.pubc b hb), fwdc := ?_ }
    intro a ha hne b hb
    rcases List.mem_cons.1 ha with rfl | ha
    · -- the newly informed node: every forwarding target is the propagation source (which has
      -- the message), the source (= the publisher), or receives a copy now
      by_cases hbu : b = u
      · exact Or.inl (List.mem_cons_of_mem _ (hbu ▸ hi.flight_seen hf))
      · by_cases hbs : some b = cfg.source
        · rcases hsrc' with h0 | h0
          · rw [h0] at hbs; cases hbs
          · rw [h0] at hbs; cases hbs
            exact Or.inl (List.mem_cons_of_mem _ hi.pub_seen)
        · refine Or.inr ⟨a, List.mem_append_right _ (List.mem_map.2 ⟨b, ?_, rfl⟩)⟩
          exact mem_recipients.2 ⟨hb, hbu, hbs⟩
    · exact step b (h.fwdc a ha hne b hb)

/-! ## reachability -/

/-- `b` is an immediate successor of `a` in the forwarding graph -/
def Edge (cfg : Cfg) (a b : Node) : Prop := b ∈ edges cfg a

/-- reachable from the publisher in the directed graph "u forwards to v" -/
inductive Reach (cfg : Cfg) : Node → Prop
  | pub : Reach cfg cfg.pub
  | step {a b : Node} : Reach cfg a → Edge cfg a b → Reach cfg b

theorem reach_seen_of_quiescent {cfg : Cfg} {s : State} (hc : Clo cfg s) (hi : Inv cfg s)
    (hq : s.flight = []) {v : Node} (hr : Reach cfg v) : v ∈ s.seen := by
  induction hr with
  | pub => exact hi.pub_seen
  | @step a b _ he ih =>
    have hcov : Covered s b := by
      unfold Edge edges at he
      by_cases hap : a = cfg.pub
      · rw [if_pos hap] at he; exact hc.pubc b he
      · rw [if_neg hap] at he; exact hc.fwdc a ih hap b he
    rcases hcov with h | ⟨x, hx⟩
    · exact h
    · rw [hq] at hx; cases hx

/-- soundness of the executable closure -/
theorem closure_sound (cfg : Cfg) (n : Nat) (acc : List Node)
    (hacc : ∀ a ∈ acc, Reach cfg a) : ∀ a ∈ closure cfg n acc, Reach cfg a := by
  induction n generalizing acc with
  | zero => simpa [closure] using hacc
  | succ n ih =>
    simp only [closure]
    apply ih
    intro a ha
    rw [mem_uniq] at ha
    unfold expand at ha
    rcases List.mem_append.1 ha with ha | ha
    · exact hacc a ha
    · have ha' := (List.mem_filter.1 ha).1
      obtain ⟨x, hx, hax⟩ := List.mem_flatMap.1 ha'
      exact Reach.step (hacc x hx) hax

theorem reachSet_sound (cfg : Cfg) : ∀ a ∈ reachSet cfg, Reach cfg a := by
  apply closure_sound
  intro a ha
  simp at ha
  subst ha
  exact Reach.pub

theorem premise_reach {cfg : Cfg} (hp : premise cfg = true) : ∀ v ∈ cfg.nodes, Reach cfg v := by
  intro v hv
  simp only [premise, List.all_eq_true] at hp
  have := hp v hv
  exact reachSet_sound cfg v (by simpa using this)

end C27
