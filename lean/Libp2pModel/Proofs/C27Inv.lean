import Libp2pModel.Model.C27
/-!
# C27 — invariants of the propagation model (helper lemmas for `Props/C27.lean`)
-/
namespace C27

/-! ## small list facts -/

theorem mem_uniq {a : Node} {l : List Node} : a ∈ uniq l ↔ a ∈ l := by
  induction l with
  | nil => simp [uniq]
  | cons b l ih =>
    simp only [uniq]
    split
    · rename_i h
      simp only [ih, List.mem_cons]
      constructor
      · intro h'; exact Or.inr h'
      · intro h'; rcases h' with rfl | h'
        · exact h
        · exact h'
    · simp [ih]

theorem uniq_length_le (l : List Node) : (uniq l).length ≤ l.length := by
  induction l with
  | nil => simp [uniq]
  | cons b l ih =>
    simp only [uniq]
    split <;> simp <;> omega

theorem mem_recipients {cfg : Cfg} {v u p : Node} :
    p ∈ recipients cfg v u ↔ p ∈ cfg.fwd v ∧ p ≠ u ∧ some p ≠ cfg.source := by
  simp [recipients, mem_uniq, keep]

theorem mem_recipientsV {cfg : Cfg} {v u p : Node} {orig : List Node} :
    p ∈ recipientsV cfg v u orig ↔
      p ∈ cfg.fwd v ∧ p ≠ u ∧ some p ≠ cfg.source ∧ p ∉ orig := by
  simp [recipientsV, mem_uniq, keep, and_assoc]

theorem recipientsV_sub {cfg : Cfg} {v u p : Node} {orig : List Node}
    (h : p ∈ recipientsV cfg v u orig) : p ∈ recipients cfg v u := by
  have := mem_recipientsV.1 h
  exact mem_recipients.2 ⟨this.1, this.2.1, this.2.2.1⟩

theorem recipients_length_le (cfg : Cfg) (v u : Node) :
    (recipients cfg v u).length ≤ (cfg.fwd v).length := by
  unfold recipients
  exact Nat.le_trans (uniq_length_le _) (List.length_filter_le _ _)

theorem recipientsV_length_le (cfg : Cfg) (v u : Node) (orig : List Node) :
    (recipientsV cfg v u orig).length ≤ (cfg.fwd v).length := by
  unfold recipientsV
  exact Nat.le_trans (uniq_length_le _) (List.length_filter_le _ _)

abbrev HeldT := List (Node × (Node × List Node))

theorem lookup_mem {v : Node} {x : Node × List Node} {l : HeldT}
    (h : l.lookup v = some x) : (v, x) ∈ l := by
  induction l with
  | nil => simp [List.lookup] at h
  | cons e l ih =>
    obtain ⟨k, b⟩ := e
    by_cases hk : v = k
    · subst hk
      simp [List.lookup] at h
      subst h
      exact List.mem_cons_self
    · have : (v == k) = false := by simpa using hk
      simp only [List.lookup, this] at h
      exact List.mem_cons_of_mem _ (ih h)

theorem lookup_none {v : Node} {l : HeldT} (h : l.lookup v = none) :
    ∀ x, (v, x) ∉ l := by
  induction l with
  | nil => intro x hx; cases hx
  | cons e l ih =>
    obtain ⟨k, b⟩ := e
    by_cases hk : v = k
    · subst hk; simp [List.lookup] at h
    · have : (v == k) = false := by simpa using hk
      simp only [List.lookup, this] at h
      intro x hx
      rcases List.mem_cons.1 hx with e | hx
      · exact hk (Prod.mk.inj e).1
      · exact ih h x hx

theorem mem_noteDup {held : HeldT} {v u : Node} {a : Node} {x : Node × List Node}
    (h : (a, x) ∈ noteDup held v u) :
    (a ≠ v ∧ (a, x) ∈ held) ∨ (a = v ∧ ∃ O, x = (x.1, u :: O) ∧ (a, (x.1, O)) ∈ held) := by
  unfold noteDup at h
  obtain ⟨e, he, hx⟩ := List.mem_map.1 h
  obtain ⟨k, u0, O⟩ := e
  by_cases hk : k = v
  · simp only [hk, if_true] at hx
    obtain ⟨rfl, rfl⟩ := Prod.mk.inj hx
    exact Or.inr ⟨rfl, O, rfl, hk ▸ he⟩
  · simp only [hk, if_false] at hx
    obtain ⟨rfl, rfl⟩ := Prod.mk.inj hx
    exact Or.inl ⟨hk, he⟩

theorem noteDup_key {held : HeldT} {v u a : Node} {x : Node × List Node}
    (h : (a, x) ∈ held) : ∃ x', (a, x') ∈ noteDup held v u := by
  unfold noteDup
  by_cases hk : a = v
  · exact ⟨(x.1, u :: x.2), List.mem_map.2 ⟨(a, x), h, by simp [hk]⟩⟩
  · exact ⟨x, List.mem_map.2 ⟨(a, x), h, by simp [hk]⟩⟩

theorem mem_dropKey {held : HeldT} {v a : Node} {x : Node × List Node} :
    (a, x) ∈ held.filter (fun h => h.1 != v) ↔ (a, x) ∈ held ∧ a ≠ v := by
  simp [List.mem_filter]

/-! ## case analysis of one step -/

theorem recv_cases (cfg : Cfg) (s : State) (u v : Node) :
    ((u, v) ∉ s.flight ∧ recv cfg s (u, v) = (s, .noflight)) ∨
    ((u, v) ∈ s.flight ∧ (cfg.source = some v ∧ u ≠ v) ∧
      recv cfg s (u, v) =
        ({ s with flight := s.flight.erase (u, v), hist := s.hist ++ [Ev.recvd v u] },
          .selfOrigin)) ∨
    ((u, v) ∈ s.flight ∧ ¬ (cfg.source = some v ∧ u ≠ v) ∧ v ∈ s.seen ∧
      recv cfg s (u, v) =
        ({ s with flight := s.flight.erase (u, v), held := noteDup s.held v u,
                  hist := s.hist ++ [Ev.recvd v u] }, .dup)) ∨
    ((u, v) ∈ s.flight ∧ ¬ (cfg.source = some v ∧ u ≠ v) ∧ v ∉ s.seen ∧
      cfg.validate v = true ∧
      recv cfg s (u, v) =
        ({ s with seen := v :: s.seen, flight := s.flight.erase (u, v),
                  delivered := (v, u) :: s.delivered, held := (v, (u, [])) :: s.held,
                  hist := s.hist ++ [Ev.recvd v u] }, .hold)) ∨
    ((u, v) ∈ s.flight ∧ ¬ (cfg.source = some v ∧ u ≠ v) ∧ v ∉ s.seen ∧
      recv cfg s (u, v) =
        ({ s with seen := v :: s.seen
                  flight := s.flight.erase (u, v) ++ (recipients cfg v u).map fun p => (v, p)
                  delivered := (v, u) :: s.delivered
                  sent := s.sent ++ (recipients cfg v u).map fun p => (v, p)
                  hist := s.hist ++ [Ev.recvd v u] ++
                    (recipients cfg v u).map fun p => Ev.sent v p },
         .first (recipients cfg v u))) := by
  by_cases hf : (u, v) ∈ s.flight
  · by_cases hs : cfg.source = some v ∧ u ≠ v
    · right; left
      refine ⟨hf, hs, ?_⟩
      simp only [recv, hf, if_true]
      rw [if_pos hs]
    · by_cases hseen : v ∈ s.seen
      · right; right; left
        refine ⟨hf, hs, hseen, ?_⟩
        simp only [recv, hf, if_true]
        rw [if_neg hs, if_pos hseen]
      · by_cases hval : cfg.validate v = true
        · right; right; right; left
          refine ⟨hf, hs, hseen, hval, ?_⟩
          simp only [recv, hf, if_true]
          rw [if_neg hs, if_neg hseen, if_pos hval]
        · right; right; right; right
          refine ⟨hf, hs, hseen, ?_⟩
          simp only [recv, hf, if_true]
          rw [if_neg hs, if_neg hseen, if_neg hval]
  · left
    refine ⟨hf, ?_⟩
    simp only [recv, hf, if_false]

theorem verdict_cases (cfg : Cfg) (s : State) (v : Node) (a : Verdict) :
    (s.held.lookup v = none ∧ verdict cfg s v a = (s, .noheld)) ∨
    (∃ u orig, s.held.lookup v = some (u, orig) ∧ a = .accept ∧
      verdict cfg s v a =
        ({ s with held := s.held.filter fun h => h.1 != v
                  flight := s.flight ++ (recipientsV cfg v u orig).map fun p => (v, p)
                  sent := s.sent ++ (recipientsV cfg v u orig).map fun p => (v, p)
                  hist := s.hist ++ (recipientsV cfg v u orig).map fun p => Ev.sent v p },
          .forwarded (recipientsV cfg v u orig))) ∨
    (∃ u orig, s.held.lookup v = some (u, orig) ∧ a ≠ .accept ∧
      verdict cfg s v a =
        ({ s with held := s.held.filter fun h => h.1 != v, dropped := v :: s.dropped },
          .dropped)) := by
  cases hl : s.held.lookup v with
  | none => left; exact ⟨rfl, by simp only [verdict, hl]⟩
  | some x =>
    obtain ⟨u, orig⟩ := x
    by_cases ha : a = .accept
    · right; left
      refine ⟨u, orig, rfl, ha, ?_⟩
      simp only [verdict, hl]
      rw [if_pos ha]
    · right; right
      refine ⟨u, orig, rfl, ha, ?_⟩
      simp only [verdict, hl]
      rw [if_neg ha]

/-! ## the bookkeeping invariant -/

structure Inv (cfg : Cfg) (s : State) : Prop where
  pub_seen : cfg.pub ∈ s.seen
  seen_del : ∀ a ∈ s.seen, a = cfg.pub ∨ a ∈ s.delivered.map Prod.fst
  del_seen : ∀ a ∈ s.delivered.map Prod.fst, a ∈ s.seen
  pub_not_del : cfg.pub ∉ s.delivered.map Prod.fst
  del_nodup : (s.delivered.map Prod.fst).Nodup
  sent_src : ∀ a b, (a, b) ∈ s.sent →
    (a = cfg.pub ∧ b ∈ cfg.recips) ∨ (∃ u, (a, u) ∈ s.delivered ∧ b ∈ recipients cfg a u)
  flight_sent : ∀ l ∈ s.flight, l ∈ s.sent
  held_del : ∀ v u O, (v, (u, O)) ∈ s.held → (v, u) ∈ s.delivered
  held_seen : ∀ v u O, (v, (u, O)) ∈ s.held → u ∈ s.seen ∧ ∀ w ∈ O, w ∈ s.seen

theorem inv_publish (cfg : Cfg) : Inv cfg (publish cfg) where
  pub_seen := by simp [publish]
  seen_del := by intro a h; simp [publish] at h; exact Or.inl h
  del_seen := by intro a h; simp [publish] at h
  pub_not_del := by simp [publish]
  del_nodup := by simp [publish]
  sent_src := by
    intro a b h
    simp only [publish, List.mem_map, Prod.mk.injEq] at h
    obtain ⟨p, hp, rfl, rfl⟩ := h
    exact Or.inl ⟨rfl, hp⟩
  flight_sent := by intro l h; exact h
  held_del := by intro v u O h; simp [publish] at h
  held_seen := by intro v u O h; simp [publish] at h

/-- the sender of every copy in flight has the id in its duplicate cache -/
theorem Inv.flight_seen {cfg : Cfg} {s : State} (h : Inv cfg s) {a b : Node}
    (hab : (a, b) ∈ s.flight) : a ∈ s.seen := by
  rcases h.sent_src a b (h.flight_sent _ hab) with ⟨rfl, _⟩ | ⟨u, hu, _⟩
  · exact h.pub_seen
  · exact h.del_seen a (List.mem_map.2 ⟨(a, u), hu, rfl⟩)

theorem Inv.held_node {cfg : Cfg} {s : State} (h : Inv cfg s) {v u : Node} {O : List Node}
    (hv : (v, (u, O)) ∈ s.held) : v ∈ s.seen ∧ v ≠ cfg.pub := by
  have hd := h.held_del v u O hv
  have hm : v ∈ s.delivered.map Prod.fst := List.mem_map.2 ⟨(v, u), hd, rfl⟩
  exact ⟨h.del_seen v hm, fun e => h.pub_not_del (e ▸ hm)⟩

theorem inv_recv {cfg : Cfg} {s : State} (l : Node × Node) (h : Inv cfg s) :
    Inv cfg (recv cfg s l).1 := by
  obtain ⟨u, v⟩ := l
  rcases recv_cases cfg s u v with ⟨_, e⟩ | ⟨_, _, e⟩ | ⟨hf, _, _, e⟩ | ⟨hf, _, hns, _, e⟩ |
    ⟨hf, _, hns, e⟩
  · rw [e]; exact h
  · rw [e]
    exact { h with flight_sent := fun x hx => h.flight_sent x (List.mem_of_mem_erase hx) }
  · rw [e]
    have hu : u ∈ s.seen := h.flight_seen hf
    refine { h with flight_sent := fun x hx => h.flight_sent x (List.mem_of_mem_erase hx)
                    held_del := ?_, held_seen := ?_ }
    · intro a u0 O hm
      rcases mem_noteDup hm with ⟨_, hm'⟩ | ⟨_, O', hx, hm'⟩
      · exact h.held_del a u0 O hm'
      · exact h.held_del a u0 O' hm'
    · intro a u0 O hm
      rcases mem_noteDup hm with ⟨_, hm'⟩ | ⟨_, O', hx, hm'⟩
      · exact h.held_seen a u0 O hm'
      · have := h.held_seen a u0 O' hm'
        have hO : O = u :: O' := (Prod.mk.inj hx).2
        refine ⟨this.1, ?_⟩
        intro w hw
        rw [hO] at hw
        rcases List.mem_cons.1 hw with rfl | hw
        · exact hu
        · exact this.2 w hw
  · -- hold
    rw [e]
    have hvp : v ≠ cfg.pub := fun hv => hns (hv ▸ h.pub_seen)
    have hvd : v ∉ s.delivered.map Prod.fst := fun hv => hns (h.del_seen v hv)
    have hu : u ∈ s.seen := h.flight_seen hf
    refine
      { pub_seen := List.mem_cons_of_mem _ h.pub_seen
        seen_del := ?_, del_seen := ?_, pub_not_del := ?_, del_nodup := ?_
        sent_src := ?_, flight_sent := ?_, held_del := ?_, held_seen := ?_ }
    · intro a ha
      rcases List.mem_cons.1 ha with rfl | ha
      · exact Or.inr (by simp)
      · rcases h.seen_del a ha with h1 | h1
        · exact Or.inl h1
        · exact Or.inr (by simp only [List.map_cons, List.mem_cons]; exact Or.inr h1)
    · intro a ha
      simp only [List.map_cons, List.mem_cons] at ha
      rcases ha with rfl | ha
      · exact List.mem_cons_self
      · exact List.mem_cons_of_mem _ (h.del_seen a ha)
    · simp only [List.map_cons, List.mem_cons, not_or]
      exact ⟨fun hp => hvp hp.symm, h.pub_not_del⟩
    · simp only [List.map_cons]
      exact List.nodup_cons.2 ⟨hvd, h.del_nodup⟩
    · intro a b hab
      rcases h.sent_src a b hab with h1 | ⟨w, hw, hb⟩
      · exact Or.inl h1
      · exact Or.inr ⟨w, List.mem_cons_of_mem _ hw, hb⟩
    · intro x hx
      exact h.flight_sent x (List.mem_of_mem_erase hx)
    · intro a u0 O hm
      rcases List.mem_cons.1 hm with e' | hm
      · obtain ⟨rfl, e2⟩ := Prod.mk.inj e'
        obtain ⟨rfl, _⟩ := Prod.mk.inj e2
        exact List.mem_cons_self
      · exact List.mem_cons_of_mem _ (h.held_del a u0 O hm)
    · intro a u0 O hm
      rcases List.mem_cons.1 hm with e' | hm
      · obtain ⟨rfl, e2⟩ := Prod.mk.inj e'
        obtain ⟨rfl, rfl⟩ := Prod.mk.inj e2
        exact ⟨List.mem_cons_of_mem _ hu, fun w hw => by cases hw⟩
      · have := h.held_seen a u0 O hm
        exact ⟨List.mem_cons_of_mem _ this.1, fun w hw => List.mem_cons_of_mem _ (this.2 w hw)⟩
  · rw [e]
    have hvp : v ≠ cfg.pub := fun hv => hns (hv ▸ h.pub_seen)
    have hvd : v ∉ s.delivered.map Prod.fst := fun hv => hns (h.del_seen v hv)
    refine
      { pub_seen := List.mem_cons_of_mem _ h.pub_seen
        seen_del := ?_, del_seen := ?_, pub_not_del := ?_, del_nodup := ?_
        sent_src := ?_, flight_sent := ?_, held_del := ?_, held_seen := ?_ }
    · intro a ha
      rcases List.mem_cons.1 ha with rfl | ha
      · exact Or.inr (by simp)
      · rcases h.seen_del a ha with h1 | h1
        · exact Or.inl h1
        · exact Or.inr (by simp only [List.map_cons, List.mem_cons]; exact Or.inr h1)
    · intro a ha
      simp only [List.map_cons, List.mem_cons] at ha
      rcases ha with rfl | ha
      · exact List.mem_cons_self
      · exact List.mem_cons_of_mem _ (h.del_seen a ha)
    · simp only [List.map_cons, List.mem_cons, not_or]
      exact ⟨fun hp => hvp hp.symm, h.pub_not_del⟩
    · simp only [List.map_cons]
      exact List.nodup_cons.2 ⟨hvd, h.del_nodup⟩
    · intro a b hab
      rcases List.mem_append.1 hab with hab | hab
      · rcases h.sent_src a b hab with h1 | ⟨w, hw, hb⟩
        · exact Or.inl h1
        · exact Or.inr ⟨w, List.mem_cons_of_mem _ hw, hb⟩
      · simp only [List.mem_map, Prod.mk.injEq] at hab
        obtain ⟨p, hp, rfl, rfl⟩ := hab
        exact Or.inr ⟨u, List.mem_cons_self, hp⟩
    · intro x hx
      rcases List.mem_append.1 hx with hx | hx
      · exact List.mem_append_left _ (h.flight_sent x (List.mem_of_mem_erase hx))
      · exact List.mem_append_right _ hx
    · intro a u0 O hm
      exact List.mem_cons_of_mem _ (h.held_del a u0 O hm)
    · intro a u0 O hm
      have := h.held_seen a u0 O hm
      exact ⟨List.mem_cons_of_mem _ this.1, fun w hw => List.mem_cons_of_mem _ (this.2 w hw)⟩

theorem inv_verdict {cfg : Cfg} {s : State} (v : Node) (a : Verdict) (h : Inv cfg s) :
    Inv cfg (verdict cfg s v a).1 := by
  rcases verdict_cases cfg s v a with ⟨_, e⟩ | ⟨u, orig, hl, _, e⟩ | ⟨u, orig, _, _, e⟩
  · rw [e]; exact h
  · rw [e]
    have hm := lookup_mem hl
    refine { h with sent_src := ?_, flight_sent := ?_, held_del := ?_, held_seen := ?_ }
    · intro a' b hab
      rcases List.mem_append.1 hab with hab | hab
      · exact h.sent_src a' b hab
      · simp only [List.mem_map, Prod.mk.injEq] at hab
        obtain ⟨p, hp, rfl, rfl⟩ := hab
        exact Or.inr ⟨u, h.held_del _ _ _ hm, recipientsV_sub hp⟩
    · intro x hx
      rcases List.mem_append.1 hx with hx | hx
      · exact List.mem_append_left _ (h.flight_sent x hx)
      · exact List.mem_append_right _ hx
    · intro a' u0 O hm'
      exact h.held_del a' u0 O (mem_dropKey.1 hm').1
    · intro a' u0 O hm'
      exact h.held_seen a' u0 O (mem_dropKey.1 hm').1
  · rw [e]
    refine { h with held_del := ?_, held_seen := ?_ }
    · intro a' u0 O hm'
      exact h.held_del a' u0 O (mem_dropKey.1 hm').1
    · intro a' u0 O hm'
      exact h.held_seen a' u0 O (mem_dropKey.1 hm').1

theorem inv_step {cfg : Cfg} {s : State} (op : Op) (h : Inv cfg s) :
    Inv cfg (step cfg s op).1 := by
  cases op with
  | recv u v => exact inv_recv (u, v) h
  | verdict v a => exact inv_verdict v a h

theorem inv_run (cfg : Cfg) (sched : List Op) : Inv cfg (run cfg sched) :=
  Machine.invariant_of_step (step cfg) (Inv cfg) (fun _ op h => inv_step op h) sched _
    (inv_publish cfg)

/-- a node delivers from one propagation source only -/
theorem Inv.del_unique {cfg : Cfg} {s : State} (h : Inv cfg s) {a u u' : Node}
    (h1 : (a, u) ∈ s.delivered) (h2 : (a, u') ∈ s.delivered) : u = u' := by
  have hn := h.del_nodup
  generalize s.delivered = d at h1 h2 hn
  induction d with
  | nil => cases h1
  | cons x d ih =>
    simp only [List.map_cons, List.nodup_cons] at hn
    rcases List.mem_cons.1 h1 with e1 | h1 <;> rcases List.mem_cons.1 h2 with e2 | h2
    · rw [← e1] at e2; exact (Prod.mk.inj e2).2.symm ▸ rfl
    · exact absurd (List.mem_map.2 ⟨(a, u'), h2, by rw [← e1]⟩) hn.1
    · exact absurd (List.mem_map.2 ⟨(a, u), h1, by rw [← e2]⟩) hn.1
    · exact ih h1 h2 hn.2

/-! ## the temporal no-echo invariant -/

/-- a node is not its own peer -/
def NoSelf (cfg : Cfg) : Prop := (∀ v, v ∉ cfg.fwd v) ∧ cfg.pub ∉ cfg.recips

theorem Inv.flight_ne {cfg : Cfg} {s : State} (h : Inv cfg s) (hn : NoSelf cfg) {a b : Node}
    (hab : (a, b) ∈ s.flight) : a ≠ b := by
  rcases h.sent_src a b (h.flight_sent _ hab) with ⟨rfl, hb⟩ | ⟨u, _, hb⟩
  · intro e; exact hn.2 (e ▸ hb)
  · intro e; exact hn.1 a (e ▸ (mem_recipients.1 hb).1)

theorem rcvdOf_append (a b : List Ev) : rcvdOf (a ++ b) = rcvdOf a ++ rcvdOf b := by
  induction a with
  | nil => rfl
  | cons e a ih => cases e <;> simp [rcvdOf, ih]

theorem rcvdOf_sends (v : Node) (l : List Node) : rcvdOf (l.map fun p => Ev.sent v p) = [] := by
  induction l with
  | nil => rfl
  | cons a l ih => simp [rcvdOf, ih]

theorem noEcho_append (l es : List Ev) : ∀ r,
    noEcho r (l ++ es) ↔ noEcho r l ∧ noEcho ((rcvdOf l).reverse ++ r) es := by
  induction l with
  | nil => intro r; simp [noEcho, rcvdOf]
  | cons e l ih =>
    intro r
    cases e with
    | recvd v u =>
      simp only [List.cons_append, noEcho, rcvdOf, List.reverse_cons, List.append_assoc]
      exact ih _
    | sent v w =>
      simp only [List.cons_append, noEcho, rcvdOf, and_assoc]
      rw [ih r]

theorem noEcho_sends (v : Node) (l : List Node) (r : List (Node × Node)) :
    noEcho r (l.map fun p => Ev.sent v p) ↔ ∀ w ∈ l, (v, w) ∉ r := by
  induction l with
  | nil => simp [noEcho]
  | cons a l ih => simp [noEcho, ih]

theorem noEcho_snoc_recvd {r : List (Node × Node)} {l : List Ev} (v u : Node)
    (h : noEcho r l) : noEcho r (l ++ [Ev.recvd v u]) := by
  rw [noEcho_append]; exact ⟨h, by simp [noEcho]⟩

theorem noEcho_snoc_sends {l : List Ev} (v : Node) (ws : List Node)
    (h : noEcho [] l) (hw : ∀ w ∈ ws, (v, w) ∉ rcvdOf l) :
    noEcho [] (l ++ ws.map fun p => Ev.sent v p) := by
  rw [noEcho_append]
  refine ⟨h, (noEcho_sends v ws _).2 ?_⟩
  intro w hw' hm
  simp only [List.append_nil, List.mem_reverse] at hm
  exact hw w hw' hm

structure Echo (cfg : Cfg) (s : State) : Prop where
  ne : noEcho [] s.hist
  unseen_rc : ∀ v u, (v, u) ∈ rcvdOf s.hist → v ∉ s.seen → cfg.source = some v
  held_rc : ∀ v u O, (v, (u, O)) ∈ s.held → ∀ w, (v, w) ∈ rcvdOf s.hist → w = u ∨ w ∈ O
  seen_src : ∀ v ∈ s.seen, v ≠ cfg.pub → cfg.source ≠ some v

theorem echo_publish (cfg : Cfg) : Echo cfg (publish cfg) where
  ne := by
    simp only [publish]
    exact (noEcho_sends _ _ _).2 (fun _ _ h => by cases h)
  unseen_rc := by intro v u h; simp [publish, rcvdOf_sends] at h
  held_rc := by intro v u O h; simp [publish] at h
  seen_src := by intro v hv hne; simp [publish] at hv; exact absurd hv hne

theorem echo_recv {cfg : Cfg} {s : State} (hn : NoSelf cfg) (l : Node × Node)
    (hi : Inv cfg s) (h : Echo cfg s) : Echo cfg (recv cfg s l).1 := by
  obtain ⟨u, v⟩ := l
  rcases recv_cases cfg s u v with ⟨_, e⟩ | ⟨hf, ⟨hso, _⟩, e⟩ | ⟨hf, _, hseen, e⟩ |
    ⟨hf, hcond, hns, _, e⟩ | ⟨hf, hcond, hns, e⟩
  · rw [e]; exact h
  · -- self-origin rejection
    rw [e]
    refine { ne := noEcho_snoc_recvd v u h.ne, unseen_rc := ?_, held_rc := ?_,
             seen_src := h.seen_src }
    · intro a b hab ha
      simp only [rcvdOf_append, rcvdOf, List.mem_append, List.mem_singleton] at hab
      rcases hab with hab | hab
      · exact h.unseen_rc a b hab ha
      · obtain ⟨rfl, rfl⟩ := Prod.mk.inj hab; exact hso
    · intro a u0 O hm w hw
      simp only [rcvdOf_append, rcvdOf, List.mem_append, List.mem_singleton] at hw
      rcases hw with hw | hw
      · exact h.held_rc a u0 O hm w hw
      · obtain ⟨rfl, rfl⟩ := Prod.mk.inj hw
        have := hi.held_node hm
        exact absurd hso (h.seen_src a this.1 this.2)
  · -- duplicate
    rw [e]
    refine { ne := noEcho_snoc_recvd v u h.ne, unseen_rc := ?_, held_rc := ?_,
             seen_src := h.seen_src }
    · intro a b hab ha
      simp only [rcvdOf_append, rcvdOf, List.mem_append, List.mem_singleton] at hab
      rcases hab with hab | hab
      · exact h.unseen_rc a b hab ha
      · obtain ⟨rfl, rfl⟩ := Prod.mk.inj hab; exact absurd hseen ha
    · intro a u0 O hm w hw
      simp only [rcvdOf_append, rcvdOf, List.mem_append, List.mem_singleton] at hw
      rcases mem_noteDup hm with ⟨hav, hm'⟩ | ⟨hav, O', hx, hm'⟩
      · rcases hw with hw | hw
        · exact h.held_rc a u0 O hm' w hw
        · exact absurd (Prod.mk.inj hw).1 hav
      · have hO : O = u :: O' := (Prod.mk.inj hx).2
        rcases hw with hw | hw
        · rcases h.held_rc a u0 O' hm' w hw with h1 | h1
          · exact Or.inl h1
          · exact Or.inr (hO ▸ List.mem_cons_of_mem _ h1)
        · have : w = u := (Prod.mk.inj hw).2
          exact Or.inr (hO ▸ this ▸ List.mem_cons_self)
  · -- hold
    rw [e]
    have huv : u ≠ v := hi.flight_ne hn hf
    have hsv : cfg.source ≠ some v := fun hs => hcond ⟨hs, huv⟩
    refine { ne := noEcho_snoc_recvd v u h.ne, unseen_rc := ?_, held_rc := ?_, seen_src := ?_ }
    · intro a b hab ha
      simp only [rcvdOf_append, rcvdOf, List.mem_append, List.mem_singleton] at hab
      rcases hab with hab | hab
      · exact h.unseen_rc a b hab (fun hh => ha (List.mem_cons_of_mem _ hh))
      · obtain ⟨rfl, rfl⟩ := Prod.mk.inj hab; exact absurd List.mem_cons_self ha
    · intro a u0 O hm w hw
      simp only [rcvdOf_append, rcvdOf, List.mem_append, List.mem_singleton] at hw
      rcases List.mem_cons.1 hm with e' | hm
      · obtain ⟨rfl, e2⟩ := Prod.mk.inj e'
        obtain ⟨rfl, rfl⟩ := Prod.mk.inj e2
        rcases hw with hw | hw
        · exact absurd (h.unseen_rc a w hw hns) hsv
        · exact Or.inl (Prod.mk.inj hw).2
      · rcases hw with hw | hw
        · exact h.held_rc a u0 O hm w hw
        · have hav : a = v := (Prod.mk.inj hw).1
          exact absurd (hav ▸ (hi.held_node hm).1) hns
    · intro a ha hne
      rcases List.mem_cons.1 ha with rfl | ha
      · exact hsv
      · exact h.seen_src a ha hne
  · -- first receipt, forwarded at once
    rw [e]
    have huv : u ≠ v := hi.flight_ne hn hf
    have hsv : cfg.source ≠ some v := fun hs => hcond ⟨hs, huv⟩
    refine { ne := ?_, unseen_rc := ?_, held_rc := ?_, seen_src := ?_ }
    · apply noEcho_snoc_sends v _ (noEcho_snoc_recvd v u h.ne)
      intro w hw hm
      simp only [rcvdOf_append, rcvdOf, List.mem_append, List.mem_singleton] at hm
      rcases hm with hm | hm
      · exact hsv (h.unseen_rc v w hm hns)
      · exact (mem_recipients.1 hw).2.1 (Prod.mk.inj hm).2
    · intro a b hab ha
      simp only [rcvdOf_append, rcvdOf, rcvdOf_sends, List.append_nil, List.mem_append,
        List.mem_singleton] at hab
      rcases hab with hab | hab
      · exact h.unseen_rc a b hab (fun hh => ha (List.mem_cons_of_mem _ hh))
      · obtain ⟨rfl, rfl⟩ := Prod.mk.inj hab; exact absurd List.mem_cons_self ha
    · intro a u0 O hm w hw
      simp only [rcvdOf_append, rcvdOf, rcvdOf_sends, List.append_nil, List.mem_append,
        List.mem_singleton] at hw
      rcases hw with hw | hw
      · exact h.held_rc a u0 O hm w hw
      · have hav : a = v := (Prod.mk.inj hw).1
        exact absurd (hav ▸ (hi.held_node hm).1) hns
    · intro a ha hne
      rcases List.mem_cons.1 ha with rfl | ha
      · exact hsv
      · exact h.seen_src a ha hne

theorem echo_verdict {cfg : Cfg} {s : State} (v : Node) (a : Verdict)
    (h : Echo cfg s) : Echo cfg (verdict cfg s v a).1 := by
  rcases verdict_cases cfg s v a with ⟨_, e⟩ | ⟨u, orig, hl, _, e⟩ | ⟨u, orig, _, _, e⟩
  · rw [e]; exact h
  · rw [e]
    have hm := lookup_mem hl
    refine { ne := ?_, unseen_rc := ?_, held_rc := ?_, seen_src := h.seen_src }
    · apply noEcho_snoc_sends v _ h.ne
      intro w hw hrc
      have hx := mem_recipientsV.1 hw
      rcases h.held_rc v u orig hm w hrc with h1 | h1
      · exact hx.2.1 h1
      · exact hx.2.2.2 h1
    · intro a' b hab ha
      simp only [rcvdOf_append, rcvdOf_sends, List.append_nil] at hab
      exact h.unseen_rc a' b hab ha
    · intro a' u0 O hm' w hw
      simp only [rcvdOf_append, rcvdOf_sends, List.append_nil] at hw
      exact h.held_rc a' u0 O (mem_dropKey.1 hm').1 w hw
  · rw [e]
    exact { h with held_rc := (fun a' u0 O hm' w hw =>
      h.held_rc a' u0 O (mem_dropKey.1 hm').1 w hw) }

/-! ## the closure invariant (at-least-once) -/

/-- "`b` has the message or a copy is on its way to `b`" -/
def Covered (s : State) (b : Node) : Prop := b ∈ s.seen ∨ ∃ x, (x, b) ∈ s.flight

/-- `a` is done with the message: it is not awaiting a verdict and was not dropped -/
def Done (s : State) (a : Node) : Prop := (∀ x, (a, x) ∉ s.held) ∧ a ∉ s.dropped

structure Clo (cfg : Cfg) (s : State) : Prop where
  pubc : ∀ b ∈ cfg.recips, Covered s b
  fwdc : ∀ a ∈ s.seen, a ≠ cfg.pub → Done s a → ∀ b ∈ cfg.fwd a, Covered s b

theorem clo_publish (cfg : Cfg) : Clo cfg (publish cfg) where
  pubc := by
    intro b hb
    exact Or.inr ⟨cfg.pub, by simp only [publish]; exact List.mem_map.2 ⟨b, hb, rfl⟩⟩
  fwdc := by
    intro a ha hne
    simp [publish] at ha
    exact absurd ha hne

theorem covered_step {s s' : State} {u v b : Node}
    (hs : ∀ a ∈ s.seen, a ∈ s'.seen) (hv : v ∈ s'.seen)
    (hf : ∀ l ∈ s.flight.erase (u, v), l ∈ s'.flight)
    (h : Covered s b) : Covered s' b := by
  rcases h with h | ⟨x, hx⟩
  · exact Or.inl (hs b h)
  · by_cases hb : b = v
    · exact Or.inl (hb ▸ hv)
    · refine Or.inr ⟨x, hf _ ?_⟩
      have hne : (x, b) ≠ (u, v) := fun e => hb (Prod.mk.inj e).2
      exact (List.mem_erase_of_ne hne).2 hx

theorem covered_mono {s s' : State} {b : Node}
    (hs : ∀ a ∈ s.seen, a ∈ s'.seen) (hf : ∀ l ∈ s.flight, l ∈ s'.flight)
    (h : Covered s b) : Covered s' b := by
  rcases h with h | ⟨x, hx⟩
  · exact Or.inl (hs b h)
  · exact Or.inr ⟨x, hf _ hx⟩

theorem clo_recv {cfg : Cfg} {s : State} (hsrc : sourceOk cfg = true) (l : Node × Node)
    (hi : Inv cfg s) (h : Clo cfg s) : Clo cfg (recv cfg s l).1 := by
  obtain ⟨u, v⟩ := l
  have hsrc' : cfg.source = none ∨ cfg.source = some cfg.pub := by
    simpa [sourceOk] using hsrc
  rcases recv_cases cfg s u v with ⟨_, e⟩ | ⟨hf, ⟨hso, _⟩, e⟩ | ⟨hf, _, hseen, e⟩ |
    ⟨hf, _, hns, _, e⟩ | ⟨hf, _, hns, e⟩
  · rw [e]; exact h
  · -- self-origin rejection: only the publisher can take this branch
    rw [e]
    have hv : v ∈ s.seen := by
      rcases hsrc' with h0 | h0
      · rw [h0] at hso; cases hso
      · rw [h0] at hso; cases hso; exact hi.pub_seen
    exact
      { pubc := fun b hb =>
          covered_step (s := s) (u := u) (v := v) (fun _ ha => ha) hv (fun _ hl => hl) (h.pubc b hb)
        fwdc := fun a ha hne hd b hb =>
          covered_step (s := s) (u := u) (v := v) (fun _ ha => ha) hv (fun _ hl => hl)
            (h.fwdc a ha hne hd b hb) }
  · -- duplicate (the set of held nodes is unchanged)
    rw [e]
    refine
      { pubc := fun b hb =>
          covered_step (s := s) (u := u) (v := v) (fun _ ha => ha) hseen (fun _ hl => hl)
            (h.pubc b hb)
        fwdc := fun a ha hne hd b hb =>
          covered_step (s := s) (u := u) (v := v) (fun _ ha => ha) hseen (fun _ hl => hl)
            (h.fwdc a ha hne ⟨?_, hd.2⟩ b hb) }
    intro x hx
    obtain ⟨x', hx'⟩ := noteDup_key (v := v) (u := u) hx
    exact hd.1 x' hx'
  · -- hold: the new node is not `Done`
    rw [e]
    refine
      { pubc := fun b hb =>
          covered_step (s := s) (u := u) (v := v) (fun _ ha => List.mem_cons_of_mem _ ha)
            List.mem_cons_self (fun _ hl => hl) (h.pubc b hb)
        fwdc := ?_ }
    intro a ha hne hd b hb
    rcases List.mem_cons.1 ha with rfl | ha
    · exact absurd List.mem_cons_self (hd.1 (u, []))
    · exact covered_step (s := s) (u := u) (v := v) (fun _ ha => List.mem_cons_of_mem _ ha)
        List.mem_cons_self (fun _ hl => hl)
        (h.fwdc a ha hne ⟨fun x hx => hd.1 x (List.mem_cons_of_mem _ hx), hd.2⟩ b hb)
  · rw [e]
    have step : ∀ b, Covered s b → Covered
        { s with seen := v :: s.seen
                 flight := s.flight.erase (u, v) ++ (recipients cfg v u).map fun p => (v, p)
                 delivered := (v, u) :: s.delivered
                 sent := s.sent ++ (recipients cfg v u).map fun p => (v, p)
                 hist := s.hist ++ [Ev.recvd v u] ++
                   (recipients cfg v u).map fun p => Ev.sent v p } b :=
      fun b hb => covered_step (s := s) (u := u) (v := v) (fun _ ha => List.mem_cons_of_mem _ ha)
        List.mem_cons_self (fun _ hl => List.mem_append_left _ hl) hb
    refine { pubc := fun b hb => step b (h.pubc b hb), fwdc := ?_ }
    intro a ha hne hd b hb
    rcases List.mem_cons.1 ha with rfl | ha
    · by_cases hbu : b = u
      · exact Or.inl (List.mem_cons_of_mem _ (hbu ▸ hi.flight_seen hf))
      · by_cases hbs : some b = cfg.source
        · rcases hsrc' with h0 | h0
          · rw [h0] at hbs; cases hbs
          · rw [h0] at hbs; cases hbs
            exact Or.inl (List.mem_cons_of_mem _ hi.pub_seen)
        · refine Or.inr ⟨a, List.mem_append_right _ (List.mem_map.2 ⟨b, ?_, rfl⟩)⟩
          exact mem_recipients.2 ⟨hb, hbu, hbs⟩
    · exact step b (h.fwdc a ha hne hd b hb)

theorem clo_verdict {cfg : Cfg} {s : State} (hsrc : sourceOk cfg = true) (v : Node)
    (a : Verdict) (hi : Inv cfg s) (h : Clo cfg s) : Clo cfg (verdict cfg s v a).1 := by
  have hsrc' : cfg.source = none ∨ cfg.source = some cfg.pub := by
    simpa [sourceOk] using hsrc
  rcases verdict_cases cfg s v a with ⟨_, e⟩ | ⟨u, orig, hl, _, e⟩ | ⟨u, orig, _, _, e⟩
  · rw [e]; exact h
  · rw [e]
    have hm := lookup_mem hl
    have mono : ∀ b, Covered s b → Covered
        { s with held := s.held.filter fun h => h.1 != v
                 flight := s.flight ++ (recipientsV cfg v u orig).map fun p => (v, p)
                 sent := s.sent ++ (recipientsV cfg v u orig).map fun p => (v, p)
                 hist := s.hist ++ (recipientsV cfg v u orig).map fun p => Ev.sent v p } b :=
      fun b hb => covered_mono (s := s) (fun _ ha => ha) (fun _ hl => List.mem_append_left _ hl) hb
    refine { pubc := fun b hb => mono b (h.pubc b hb), fwdc := ?_ }
    intro a' ha hne hd b hb
    by_cases hav : a' = v
    · subst hav
      have hs := hi.held_seen a' u orig hm
      by_cases hbu : b = u
      · exact Or.inl (hbu ▸ hs.1)
      · by_cases hbo : b ∈ orig
        · exact Or.inl (hs.2 b hbo)
        · by_cases hbs : some b = cfg.source
          · rcases hsrc' with h0 | h0
            · rw [h0] at hbs; cases hbs
            · rw [h0] at hbs; cases hbs
              exact Or.inl hi.pub_seen
          · refine Or.inr ⟨a', List.mem_append_right _ (List.mem_map.2 ⟨b, ?_, rfl⟩)⟩
            exact mem_recipientsV.2 ⟨hb, hbu, hbs, hbo⟩
    · refine mono b (h.fwdc a' ha hne ⟨fun x hx => hd.1 x (mem_dropKey.2 ⟨hx, hav⟩), hd.2⟩ b hb)
  · rw [e]
    refine { pubc := fun b hb => covered_mono (s := s) (fun _ ha => ha) (fun _ hl => hl) (h.pubc b hb)
             fwdc := ?_ }
    intro a' ha hne hd b hb
    have hav : a' ≠ v := fun e' => hd.2 (e' ▸ List.mem_cons_self)
    exact covered_mono (s := s) (fun _ ha => ha) (fun _ hl => hl)
      (h.fwdc a' ha hne ⟨fun x hx => hd.1 x (mem_dropKey.2 ⟨hx, hav⟩),
        fun hdr => hd.2 (List.mem_cons_of_mem _ hdr)⟩ b hb)

/-! ## reachability -/

/-- `b` is an immediate successor of `a` in the forwarding graph -/
def Edge (cfg : Cfg) (a b : Node) : Prop := b ∈ edges cfg a

/-- reachable from the publisher in the directed graph "u forwards to v" -/
inductive Reach (cfg : Cfg) : Node → Prop
  | pub : Reach cfg cfg.pub
  | step {a b : Node} : Reach cfg a → Edge cfg a b → Reach cfg b

theorem reach_seen_of_quiescent {cfg : Cfg} {s : State} (hc : Clo cfg s) (hi : Inv cfg s)
    (hq : s.flight = []) (hh : s.held = []) (hd : s.dropped = []) {v : Node}
    (hr : Reach cfg v) : v ∈ s.seen := by
  induction hr with
  | pub => exact hi.pub_seen
  | @step a b _ he ih =>
    have hcov : Covered s b := by
      unfold Edge edges at he
      by_cases hap : a = cfg.pub
      · rw [if_pos hap] at he; exact hc.pubc b he
      · rw [if_neg hap] at he
        have hdone : Done s a := by
          refine ⟨?_, ?_⟩
          · intro x hx; rw [hh] at hx; cases hx
          · intro hx; rw [hd] at hx; cases hx
        exact hc.fwdc a ih hap hdone b he
    rcases hcov with h | ⟨x, hx⟩
    · exact h
    · rw [hq] at hx; cases hx

/-- soundness of the executable closure -/
theorem closure_sound (cfg : Cfg) (n : Nat) (acc : List Node)
    (hacc : ∀ a ∈ acc, Reach cfg a) : ∀ a ∈ closure cfg n acc, Reach cfg a := by
  induction n generalizing acc with
  | zero => simpa [closure] using hacc
  | succ n ih =>
    simp only [closure]
    apply ih
    intro a ha
    rw [mem_uniq] at ha
    unfold expand at ha
    rcases List.mem_append.1 ha with ha | ha
    · exact hacc a ha
    · have ha' := (List.mem_filter.1 ha).1
      obtain ⟨x, hx, hax⟩ := List.mem_flatMap.1 ha'
      exact Reach.step (hacc x hx) hax

theorem reachSet_sound (cfg : Cfg) : ∀ a ∈ reachSet cfg, Reach cfg a := by
  apply closure_sound
  intro a ha
  simp at ha
  subst ha
  exact Reach.pub

theorem premise_reach {cfg : Cfg} (hp : premise cfg = true) : ∀ v ∈ cfg.nodes, Reach cfg v := by
  intro v hv
  simp only [premise, List.all_eq_true] at hp
  have := hp v hv
  exact reachSet_sound cfg v (by simpa using this)

end C27
