import Libp2pModel.Model.C41
/-!
# C41 — helper lemmas: association lists, the provider-list loops, the hash set
-/
namespace C41

/-! ## association lists -/

theorem aget_aset {β : Type} (l : List (Nat × β)) (k : Nat) (v : β) (k' : Nat) :
    aget (aset l k v) k' = if k = k' then some v else aget l k' := by
  induction l with
  | nil => simp [aset, aget]
  | cons e t ih => grind [aset, aget]

theorem aget_none_of_not_mem {β : Type} (l : List (Nat × β)) (k : Nat) (h : k ∉ l.map (·.1)) :
    aget l k = none := by
  induction l with
  | nil => rfl
  | cons e t ih =>
    obtain ⟨k0, v0⟩ := e
    simp only [List.map_cons, List.mem_cons, not_or] at h
    simp [aget, Ne.symm h.1, ih h.2]

theorem aget_some_mem {β : Type} (l : List (Nat × β)) (k : Nat) (v : β) (h : aget l k = some v) :
    (k, v) ∈ l := by
  induction l with
  | nil => simp [aget] at h
  | cons e t ih =>
    obtain ⟨k0, v0⟩ := e
    by_cases h0 : k0 = k
    · subst h0; simp [aget] at h; simp [h]
    · simp [aget, h0] at h; exact List.mem_cons_of_mem _ (ih h)

theorem mem_keys_of_aget {β : Type} (l : List (Nat × β)) (k : Nat) (v : β) (h : aget l k = some v) :
    k ∈ l.map (·.1) :=
  List.mem_map.2 ⟨(k, v), aget_some_mem l k v h, rfl⟩

theorem aget_of_mem {β : Type} (l : List (Nat × β)) (k : Nat) (v : β)
    (hn : (l.map (·.1)).Nodup) (h : (k, v) ∈ l) : aget l k = some v := by
  induction l with
  | nil => simp at h
  | cons e t ih =>
    obtain ⟨k0, v0⟩ := e
    simp only [List.map_cons, List.nodup_cons] at hn
    rcases List.mem_cons.1 h with heq | hm
    · cases heq; simp [aget]
    · have : k0 ≠ k := by
        intro hk; subst hk
        exact hn.1 (List.mem_map.2 ⟨(k0, v), hm, rfl⟩)
      simp [aget, this, ih hn.2 hm]

theorem aget_adel {β : Type} (l : List (Nat × β)) (k k' : Nat) :
    aget (adel l k) k' = if k = k' then none else aget l k' := by
  induction l with
  | nil => simp [adel, aget]
  | cons e t ih =>
    obtain ⟨k0, v0⟩ := e
    unfold adel at ih ⊢
    by_cases h : k0 = k
    · subst h
      simp only [List.filter_cons, ne_eq, not_true_eq_false, decide_false, Bool.false_eq_true,
        if_false, ih, aget]
      split <;> simp_all
    · simp only [List.filter_cons, ne_eq, h, not_false_eq_true, decide_true, if_true, aget, ih]
      by_cases h2 : k0 = k'
      · subst h2; simp [Ne.symm h]
      · simp [h2]

theorem keys_filter_sublist {β : Type} (l : List (Nat × β)) (f : Nat × β → Bool) :
    ((l.filter f).map (·.1)).Sublist (l.map (·.1)) :=
  (List.filter_sublist).map _

theorem aget_filter {β : Type} (l : List (Nat × β)) (f : Nat → β → Bool) (k : Nat)
    (hn : (l.map (·.1)).Nodup) :
    aget (l.filter (fun e => f e.1 e.2)) k = (aget l k).filter (f k) := by
  induction l with
  | nil => simp [aget]
  | cons e t ih =>
    obtain ⟨k0, v0⟩ := e
    simp only [List.map_cons, List.nodup_cons] at hn
    by_cases h0 : k0 = k
    · subst h0
      by_cases hf : f k0 v0 = true
      · simp [List.filter_cons, hf, aget, Option.filter]
      · have hnm : k0 ∉ (t.filter (fun e => f e.1 e.2)).map (·.1) :=
          fun hm => hn.1 ((keys_filter_sublist t _).subset hm)
        simp [List.filter_cons, hf, aget, Option.filter, aget_none_of_not_mem _ _ hnm]
    · by_cases hf : f k0 v0 = true
      · simp [List.filter_cons, hf, aget, h0, ih hn.2]
      · simp [List.filter_cons, hf, aget, h0, ih hn.2]

theorem keys_aset {β : Type} (l : List (Nat × β)) (k : Nat) (v : β) :
    (aset l k v).map (·.1) = if k ∈ l.map (·.1) then l.map (·.1) else l.map (·.1) ++ [k] := by
  induction l with
  | nil => simp [aset]
  | cons e t ih =>
    obtain ⟨k0, v0⟩ := e
    by_cases h : k0 = k
    · subst h; simp [aset]
    · simp only [aset, if_neg h, List.map_cons, ih, List.mem_cons, Ne.symm h, false_or]
      split <;> simp

theorem nodup_keys_aset {β : Type} (l : List (Nat × β)) (k : Nat) (v : β)
    (hn : (l.map (·.1)).Nodup) : ((aset l k v).map (·.1)).Nodup := by
  rw [keys_aset]
  split
  · exact hn
  · rename_i h
    rw [List.nodup_append]
    refine ⟨hn, by simp, ?_⟩
    intro a ha b hb
    simp at hb; subst hb
    intro hab; subst hab; exact h ha

theorem length_aset {β : Type} (l : List (Nat × β)) (k : Nat) (v : β) :
    (aset l k v).length = if (aget l k).isSome then l.length else l.length + 1 := by
  induction l with
  | nil => simp [aset, aget]
  | cons e t ih =>
    obtain ⟨k0, v0⟩ := e
    by_cases h : k0 = k
    · subst h; simp [aset, aget]
    · simp only [aset, if_neg h, List.length_cons, ih, aget]
      split <;> simp

theorem mem_aset {β : Type} (l : List (Nat × β)) (k : Nat) (v : β) (e : Nat × β)
    (hn : (l.map (·.1)).Nodup) (h : e ∈ aset l k v) : e = (k, v) ∨ (e ∈ l ∧ e.1 ≠ k) := by
  induction l with
  | nil => simp [aset] at h; exact Or.inl h
  | cons e0 t ih => grind [aset]

/-! ## the provider-list loops -/

theorem replaceProv_of_not_mem (l : List PRec) (r : PRec) (h : ∀ x ∈ l, x.provider ≠ r.provider) :
    replaceProv l r = l := by
  induction l with
  | nil => rfl
  | cons a t ih =>
    have h1 : a.provider ≠ r.provider := h a List.mem_cons_self
    have h2 := ih (fun x hx => h x (List.mem_cons_of_mem _ hx))
    unfold replaceProv at h2 ⊢
    simp [h1, h2]

theorem length_replaceProv (l : List PRec) (r : PRec) : (replaceProv l r).length = l.length := by
  simp [replaceProv]

theorem providers_replaceProv (l : List PRec) (r : PRec) :
    (replaceProv l r).map (·.provider) = l.map (·.provider) := by
  induction l with
  | nil => rfl
  | cons a t ih =>
    unfold replaceProv at ih ⊢
    simp only [List.map_cons, ih]
    split <;> simp_all

theorem mem_replaceProv (l : List PRec) (r x : PRec) :
    x ∈ replaceProv l r ↔
      (x = r ∧ ∃ y ∈ l, y.provider = r.provider) ∨ (x ∈ l ∧ x.provider ≠ r.provider) := by
  induction l with
  | nil => simp [replaceProv]
  | cons a t ih =>
    unfold replaceProv at ih ⊢
    simp only [List.map_cons, List.mem_cons, ih]
    by_cases h : a.provider = r.provider <;> grind

theorem updFirst_none (l : List PRec) (r : PRec) :
    updFirst l r = none ↔ ∀ x ∈ l, x.provider ≠ r.provider := by
  induction l with
  | nil => simp [updFirst]
  | cons a t ih => grind [updFirst]

theorem updFirst_some (l : List PRec) (r old : PRec) (l' : List PRec)
    (hn : (l.map (·.provider)).Nodup) (h : updFirst l r = some (old, l')) :
    old ∈ l ∧ old.provider = r.provider ∧ l' = replaceProv l r := by
  induction l generalizing l' with
  | nil => simp [updFirst] at h
  | cons a t ih =>
    simp only [List.map_cons, List.nodup_cons] at hn
    by_cases ha : a.provider = r.provider
    · simp only [updFirst, if_pos ha, Option.some.injEq, Prod.mk.injEq] at h
      obtain ⟨rfl, rfl⟩ := h
      refine ⟨List.mem_cons_self, ha, ?_⟩
      have : replaceProv t r = t := replaceProv_of_not_mem t r (by
        intro x hx hxe
        exact hn.1 (List.mem_map.2 ⟨x, hx, by rw [hxe, ha]⟩))
      unfold replaceProv at this ⊢
      simp [ha, this]
    · simp only [updFirst, if_neg ha] at h
      cases hu : updFirst t r with
      | none => simp [hu] at h
      | some pr =>
        obtain ⟨o, t'⟩ := pr
        simp only [hu, Option.some.injEq, Prod.mk.injEq] at h
        obtain ⟨rfl, rfl⟩ := h
        obtain ⟨h1, h2, h3⟩ := ih t' hn.2 hu
        refine ⟨List.mem_cons_of_mem _ h1, h2, ?_⟩
        unfold replaceProv at h3 ⊢
        simp [ha, h3]

theorem rmFirst_none (l : List PRec) (p : Nat) :
    rmFirst l p = none ↔ ∀ x ∈ l, x.provider ≠ p := by
  induction l with
  | nil => simp [rmFirst]
  | cons a t ih => grind [rmFirst]

theorem rmFirst_some (l : List PRec) (p : Nat) (old : PRec) (l' : List PRec)
    (hn : (l.map (·.provider)).Nodup) (h : rmFirst l p = some (old, l')) :
    old ∈ l ∧ old.provider = p ∧ l' = l.filter (fun x => x.provider ≠ p) := by
  induction l generalizing l' with
  | nil => simp [rmFirst] at h
  | cons a t ih =>
    simp only [List.map_cons, List.nodup_cons] at hn
    by_cases ha : a.provider = p
    · simp only [rmFirst, if_pos ha, Option.some.injEq, Prod.mk.injEq] at h
      obtain ⟨rfl, rfl⟩ := h
      refine ⟨List.mem_cons_self, ha, ?_⟩
      have : t.filter (fun x => x.provider ≠ p) = t := List.filter_eq_self.2 (by
        intro x hx
        have : x.provider ≠ p := fun hxe => hn.1 (List.mem_map.2 ⟨x, hx, by rw [hxe, ha]⟩)
        simpa using this)
      simp [ha]
      simpa using this.symm
    · simp only [rmFirst, if_neg ha] at h
      cases hu : rmFirst t p with
      | none => simp [hu] at h
      | some pr =>
        obtain ⟨o, t'⟩ := pr
        simp only [hu, Option.some.injEq, Prod.mk.injEq] at h
        obtain ⟨rfl, rfl⟩ := h
        obtain ⟨h1, h2, h3⟩ := ih t' hn.2 hu
        refine ⟨List.mem_cons_of_mem _ h1, h2, ?_⟩
        simp [ha]
        simpa using h3

/-! ## the hash set -/

theorem mem_hsRemove (s : List PRec) (p x : PRec) :
    x ∈ hsRemove s p ↔ x ∈ s ∧ ¬ (x.key = p.key ∧ x.provider = p.provider) := by
  simp [hsRemove, peq]
  grind

theorem mem_hsInsert (s : List PRec) (p x : PRec) :
    x ∈ hsInsert s p ↔
      x ∈ s ∨ (x = p ∧ ∀ y ∈ s, ¬ (y.key = p.key ∧ y.provider = p.provider)) := by
  unfold hsInsert
  split
  · rename_i h
    simp only [List.any_eq_true, peq, Bool.and_eq_true, beq_iff_eq] at h
    constructor
    · exact Or.inl
    · rintro (h1 | ⟨_, h2⟩)
      · exact h1
      · obtain ⟨y, hy, hk⟩ := h
        exact absurd hk (h2 y hy)
  · rename_i h
    simp only [List.any_eq_true, peq, Bool.and_eq_true, beq_iff_eq, not_exists, not_and] at h
    simp only [List.mem_cons]
    constructor
    · rintro (h1 | h1)
      · exact Or.inr ⟨h1, fun y hy hk => h y hy hk.1 hk.2⟩
      · exact Or.inl h1
    · rintro (h1 | ⟨h1, _⟩)
      · exact Or.inr h1
      · exact Or.inl h1

end C41
