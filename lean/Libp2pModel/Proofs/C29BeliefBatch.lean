import Libp2pModel.Proofs.C29BeliefSubs
/-!
# C29 — belief invariant, part 5: `join` and `leave`
The mesh of one topic changes for several peers at once, then one notification call per peer is
evaluated on the final meshes.
-/
namespace C29
open C28

/-- a batch of first-connection notifications -/
theorem rel_of_batch {s s' : State} {ns : List Notif} (hp : s'.peers = s.peers)
    (hb : s'.belief = applyNotifs s.belief ns) (hh : ∀ n ∈ ns, headOf s n.1 = some n.2.1) : Rel s s' := by
  refine ⟨fun p => by simp [connsOf, hp], fun p c hpc => ?_⟩
  rw [hb]
  apply applyNotifs_nomatch
  rintro n hn ⟨h1, h2⟩
  apply hpc
  rw [h1, h2]
  exact hh n hn

theorem headOf_of_peers {s s' : State} (hp : s'.peers = s.peers) (q : Nat) : headOf s' q = headOf s q := by
  simp [headOf, connsOf, hp]

theorem headB_of_fields {s s' : State} (hp : s'.peers = s.peers) (hb : s'.belief = s.belief) (q : Nat) :
    headB s' q = headB s q := by
  unfold headB
  rw [headOf_of_peers hp, hb]

/-! ## `leave` -/

theorem leaveLoop_desc (now t secs : Nat) : ∀ (l : List Nat) (s : State) (ns : List Notif),
    (leaveLoop now t secs l s ns).1.peers = s.peers ∧ (leaveLoop now t secs l s ns).1.mesh = s.mesh
    ∧ (leaveLoop now t secs l s ns).1.belief = applyNotifs s.belief (l.flatMap (fun p => peerRemoved s p t)) := by
  intro l
  induction l with
  | nil => intro s ns; exact ⟨rfl, rfl, rfl⟩
  | cons p ps ih =>
    intro s ns
    simp only [leaveLoop]
    obtain ⟨i1, i2, i3⟩ := ih (notify (updateBackoff s now t p secs) (peerRemoved (updateBackoff s now t p secs) p t))
      (ns ++ peerRemoved (updateBackoff s now t p secs) p t)
    refine ⟨i1, i2, ?_⟩
    rw [i3]
    have e1 : peerRemoved (updateBackoff s now t p secs) p t = peerRemoved s p t := peerRemoved_core rfl rfl p t
    have e2 : (fun q => peerRemoved (notify (updateBackoff s now t p secs) (peerRemoved (updateBackoff s now t p secs) p t)) q t)
        = (fun q => peerRemoved s q t) := funext (fun q => peerRemoved_core rfl rfl q t)
    rw [e2, e1, List.flatMap_cons, applyNotifs_append]
    rfl

theorem binv_unsubscribe (s : State) (now t : Nat) (h : BInv s) : BInv (unsubscribe s now t).1 := by
  have hinv := inv_unsubscribe s now t h.inv
  unfold unsubscribe at hinv ⊢
  cases hm : s.mesh t with
  | none => exact h
  | some m =>
    simp only [hm] at hinv ⊢
    obtain ⟨d1, d2, d3⟩ := leaveLoop_desc now t s.cfg.unsubBackoff m { s with mesh := setF s.mesh t none } []
    generalize (leaveLoop now t s.cfg.unsubBackoff m { s with mesh := setF s.mesh t none } []) = r at *
    obtain ⟨s', ns⟩ := r
    simp only at d1 d2 d3 hinv ⊢
    -- the calls: all `LeftMesh`, all to first connections
    have hv : ∀ n ∈ m.flatMap (fun p => peerRemoved { s with mesh := setF s.mesh t none } p t), n.2.2 = false := by
      intro n hn
      obtain ⟨q, _, hq⟩ := List.mem_flatMap.1 hn
      exact (peerRemoved_heads _ q t n hq).2.2
    have hh : ∀ n ∈ m.flatMap (fun p => peerRemoved { s with mesh := setF s.mesh t none } p t),
        headOf { s with mesh := setF s.mesh t none } n.1 = some n.2.1 := by
      intro n hn
      obtain ⟨q, _, hq⟩ := List.mem_flatMap.1 hn
      have := peerRemoved_heads _ q t n hq
      rw [this.1]; exact this.2.1
    have hrel : Rel s s' :=
      (Rel.refl s).trans (rel_of_batch (s := { s with mesh := setF s.mesh t none }) d1 d3 hh)
    have hin' : ∀ t' q, inMesh s' t' q = inMesh { s with mesh := setF s.mesh t none } t' q := by
      intro t' q; unfold inMesh; rw [d2]
    have hin1 : ∀ t' q, inMesh { s with mesh := setF s.mesh t none } t' q = true ↔ (t' ≠ t ∧ inMesh s t' q = true) := by
      intro t' q
      rw [inMesh_setF]
      by_cases htt : t' = t
      · simp [htt]
      · simp [htt]
    refine ⟨hinv, h.tail.rel hrel, fun q => ?_⟩
    unfold HBp
    rw [headB_batch { s with mesh := setF s.mesh t none } s' _ false d1 d3 hv hh q]
    have hInM : InM s' q ↔ ∃ t', t' ≠ t ∧ inMesh s t' q = true := by
      constructor
      · rintro ⟨t', ht'⟩; rw [hin'] at ht'; exact ⟨t', (hin1 t' q).1 ht'⟩
      · rintro ⟨t', ht'⟩; exact ⟨t', by rw [hin']; exact (hin1 t' q).2 ht'⟩
    rw [hInM]
    have hbq : headB { s with mesh := setF s.mesh t none } q = headB s q := rfl
    split
    · -- a `LeftMesh` was sent to `q`: it is in no other mesh
      rename_i hany
      simp only [List.any_eq_true, beq_iff_eq] at hany
      obtain ⟨n, hn, hnq⟩ := hany
      obtain ⟨q', _, hq'⟩ := List.mem_flatMap.1 hn
      have hq'q : q' = q := by rw [← (peerRemoved_heads _ q' t n hq').1]; exact hnq
      subst hq'q
      simp only [Bool.false_eq_true, false_iff]
      rintro ⟨t', htt, hin⟩
      rcases peerRemoved_spec { s with mesh := setF s.mesh t none } q' t with ⟨h0, _⟩ | ⟨c, _, _, hnone⟩
      · rw [h0] at hq'; simp at hq'
      · obtain ⟨pd, hpd, htop⟩ := topics_of_inMesh h.inv.mesh hin
        have := hnone pd hpd t' htop htt
        rw [(hin1 t' q').2 ⟨htt, hin⟩] at this; cases this
    · rename_i hany
      rw [hbq]
      constructor
      · intro hb
        obtain ⟨t', hin⟩ := (h.hb q).1 hb
        by_cases htt : t' = t
        · subst htt
          -- `q` was in the mesh that is left; no `LeftMesh` means another mesh holds it
          have hqm : q ∈ m := by
            obtain ⟨m', hm', hq⟩ := inMesh_iff.1 hin
            rw [hm] at hm'; cases hm'; exact hq
          rcases peerRemoved_spec { s with mesh := setF s.mesh t' none } q t' with
            ⟨_, hn | ⟨pd, t'', _, _, hne, hin''⟩⟩ | ⟨c, _, h1, _⟩
          · have hn' : headOf s q = none := hn
            simp [headB, hn'] at hb
          · exact ⟨t'', hne, ((hin1 t'' q).1 hin'').2⟩
          · exfalso; apply hany
            simp only [List.any_eq_true, beq_iff_eq]
            exact ⟨(q, c, false), List.mem_flatMap.2 ⟨q, hqm, by rw [h1]; simp⟩, rfl⟩
        · exact ⟨t', htt, hin⟩
      · rintro ⟨t', _, hin⟩
        exact (h.hb q).2 ⟨t', hin⟩

/-! ## `join` -/

theorem addedCalls_eq (s : State) (t : Nat) : ∀ l : List Nat, addedCalls s t l = l.flatMap (fun p => peerAdded s p [t]) := by
  intro l
  induction l with
  | nil => rfl
  | cons p ps ih => simp only [addedCalls, List.flatMap_cons, ih]

/-- the state `join` builds, then the batch of `peer_added_to_mesh(p, [t])` calls -/
theorem binv_join (s : State) (t : Nat) (added : List Nat) (h : BInv s) (hnone : s.mesh t = none)
    (hinv : Inv (notify { s with fanout := setF s.fanout t none, mesh := setF s.mesh t (some added) }
      (addedCalls { s with fanout := setF s.fanout t none, mesh := setF s.mesh t (some added) } t added))) :
    BInv (notify { s with fanout := setF s.fanout t none, mesh := setF s.mesh t (some added) }
      (addedCalls { s with fanout := setF s.fanout t none, mesh := setF s.mesh t (some added) } t added)) := by
  -- the state with the new mesh, before the notifications
  generalize hs2 : ({ s with fanout := setF s.fanout t none, mesh := setF s.mesh t (some added) } : State) = s2 at *
  have hp2 : s2.peers = s.peers := by rw [← hs2]
  have hb2 : s2.belief = s.belief := by rw [← hs2]
  have hin2 : ∀ t' q, inMesh s2 t' q = true ↔ (t' = t ∧ q ∈ added) ∨ (t' ≠ t ∧ inMesh s t' q = true) := by
    intro t' q
    rw [← hs2]
    show inMesh { s with fanout := setF s.fanout t none, mesh := setF s.mesh t (some added) } t' q = true ↔ _
    have : inMesh { s with fanout := setF s.fanout t none, mesh := setF s.mesh t (some added) } t' q
        = inMesh { s with mesh := setF s.mesh t (some added) } t' q := rfl
    rw [this, inMesh_setF]
    by_cases htt : t' = t
    · simp [htt]
    · simp [htt]
  have hnot : ∀ q, inMesh s t q = false := by
    intro q; simp [inMesh, hnone]
  rw [addedCalls_eq] at hinv ⊢
  have hv : ∀ n ∈ added.flatMap (fun p => peerAdded s2 p [t]), n.2.2 = true := by
    intro n hn
    obtain ⟨q, _, hq⟩ := List.mem_flatMap.1 hn
    exact (peerAdded_heads _ q [t] n hq).2.2
  have hh : ∀ n ∈ added.flatMap (fun p => peerAdded s2 p [t]), headOf s2 n.1 = some n.2.1 := by
    intro n hn
    obtain ⟨q, _, hq⟩ := List.mem_flatMap.1 hn
    have := peerAdded_heads _ q [t] n hq
    rw [this.1]; exact this.2.1
  have hrel0 : Rel s s2 := ⟨fun p => by simp [connsOf, hp2], fun p c _ => by rw [hb2]⟩
  have hrel : Rel s (notify s2 (added.flatMap (fun p => peerAdded s2 p [t]))) :=
    hrel0.trans (rel_notify_heads s2 _ hh)
  have htail2 : TailInv s2 := h.tail.rel hrel0
  refine ⟨hinv, h.tail.rel hrel, fun q => ?_⟩
  unfold HBp
  rw [inM_notify, headB_batch s2 (notify s2 _) _ true rfl rfl hv hh q, headB_of_fields hp2 hb2 q]
  split
  · rename_i hany
    simp only [List.any_eq_true, beq_iff_eq] at hany
    obtain ⟨n, hn, hnq⟩ := hany
    obtain ⟨q', hq'mem, hq'⟩ := List.mem_flatMap.1 hn
    have hq'q : q' = q := by rw [← (peerAdded_heads _ q' [t] n hq').1]; exact hnq
    subst hq'q
    simp only [true_iff]
    exact ⟨t, (hin2 t q').2 (Or.inl ⟨rfl, hq'mem⟩)⟩
  · rename_i hany
    constructor
    · intro hb
      obtain ⟨t', hin⟩ := (h.hb q).1 hb
      have htt : t' ≠ t := by
        rintro rfl; rw [hnot] at hin; cases hin
      exact ⟨t', (hin2 t' q).2 (Or.inr ⟨htt, hin⟩)⟩
    · rintro ⟨t', hin⟩
      rcases (hin2 t' q).1 hin with ⟨rfl, hqa⟩ | ⟨_, hin'⟩
      · -- `q` joined the new mesh and got no `JoinedMesh`: it is in another mesh already
        have hm2 : MeshOK s2 := hinv.mesh
        have hhead : headOf s2 q ≠ none := headOf_of_inM hm2 htail2 ⟨t', hin⟩
        rcases peerAdded_spec s2 q [t'] with ⟨_, hn | ⟨pd, t'', _, _, hne, hin''⟩⟩ | ⟨c, _, h1, _⟩
        · exact absurd hn hhead
        · have hne' : t'' ≠ t' := by simpa using hne
          rcases (hin2 t'' q).1 hin'' with ⟨h1, _⟩ | ⟨_, h2⟩
          · exact absurd h1 hne'
          · exact (h.hb q).2 ⟨t'', h2⟩
        · exfalso; apply hany
          simp only [List.any_eq_true, beq_iff_eq]
          exact ⟨(q, c, true), List.mem_flatMap.2 ⟨q, hqa, by rw [h1]; simp⟩, rfl⟩
      · exact (h.hb q).2 ⟨t', hin'⟩

theorem binv_subscribe (s : State) (sc : Nat → Int) (t : Nat) (final : List Nat) (h : BInv s) :
    BInv (subscribe s sc t final).1 := by
  have hinv := inv_subscribe s sc t final h.inv
  unfold subscribe at hinv ⊢
  cases hm : s.mesh t with
  | some m => exact h
  | none =>
    simp only [hm] at hinv ⊢
    split
    · rename_i hlt
      rw [if_pos hlt] at hinv
      split
      · rename_i hv
        rw [if_pos hv] at hinv
        exact binv_join s t _ h hm hinv
      · exact h
    · rename_i hlt
      rw [if_neg hlt] at hinv
      exact binv_join s t _ h hm hinv

end C29
