import Libp2pModel.Model.C37
/-!
# C37 — bucket-level invariant and its preservation by every `KBucket` operation
-/
namespace C37

/-- strictly increasing ghost stamps = least-recently-updated first -/
def Sorted (l : List Node) : Prop := l.Pairwise (fun a b => a.stamp < b.stamp)

def keysOf (l : List Node) : List Nat := l.map (·.key)

/-- The bucket is `D ++ C`: the disconnected nodes, then the connected ones, each in
least-recently-updated order; `first_connected_pos` is `Some(|D|)` iff `C` is non-empty. -/
structure Split (b : Bucket) (D C : List Node) : Prop where
  nodes : b.nodes = D ++ C
  dis : ∀ n ∈ D, n.gst = .disconnected
  con : ∀ n ∈ C, n.gst = .connected
  fc : b.firstConn = if C = [] then none else some D.length
  sortedD : Sorted D
  sortedC : Sorted C

/-- Invariant of bucket number `i` of a table with local key `l`; all ghost stamps are `< B`. -/
structure BInv (l i B : Nat) (b : Bucket) : Prop where
  notPoisoned : b.poisoned = false
  capPos : 1 ≤ b.capacity
  len : b.nodes.length ≤ b.capacity
  split : ∃ D C, Split b D C
  stamps : ∀ n ∈ b.nodes, n.stamp < B
  nodup : (keysOf b.nodes).Nodup
  pendingNotIn : ∀ p, b.pending = some p → p.node.key ∉ keysOf b.nodes
  index : ∀ n ∈ b.nodes, bucketIndex (l ^^^ n.key) = some i
  pendingIndex : ∀ p, b.pending = some p → bucketIndex (l ^^^ p.node.key) = some i

/-! ## list facts -/

theorem insertIdx_append_length {α} (D C : List α) (x : α) :
    (D ++ C).insertIdx D.length x = D ++ x :: C := by
  induction D with
  | nil => simp
  | cons d D ih => simp [List.insertIdx_succ_cons, ih]

theorem sorted_append_singleton {D : List Node} {n : Node} (h : Sorted D)
    (hn : ∀ a ∈ D, a.stamp < n.stamp) : Sorted (D ++ [n]) := by
  unfold Sorted at *
  rw [List.pairwise_append]
  refine ⟨h, by simp, ?_⟩
  intro a ha b hb
  simp only [List.mem_singleton] at hb
  subst hb
  exact hn a ha

theorem sorted_eraseIdx {D : List Node} (h : Sorted D) (i : Nat) : Sorted (D.eraseIdx i) :=
  List.Pairwise.sublist (List.eraseIdx_sublist D i) h

theorem sorted_tail {a : Node} {D : List Node} (h : Sorted (a :: D)) : Sorted D :=
  (List.pairwise_cons.1 h).2

/-- with duplicate-free keys, erasing the position of a key removes the key -/
theorem key_not_mem_eraseIdx : ∀ (l : List Node) (pos : Nat) (x : Node),
    (keysOf l).Nodup → l[pos]? = some x → x.key ∉ keysOf (l.eraseIdx pos)
  | [], _, _, _, h => by simp at h
  | a :: l, 0, x, hnd, h => by
    simp only [List.getElem?_cons_zero, Option.some.injEq] at h
    subst h
    simp only [keysOf, List.map_cons, List.nodup_cons] at hnd
    simpa [keysOf] using hnd.1
  | a :: l, pos + 1, x, hnd, h => by
    simp only [List.getElem?_cons_succ] at h
    simp only [keysOf, List.map_cons, List.nodup_cons] at hnd
    have ih := key_not_mem_eraseIdx l pos x hnd.2 h
    simp only [List.eraseIdx_cons_succ, keysOf, List.map_cons, List.mem_cons, not_or]
    refine ⟨?_, ih⟩
    intro e
    apply hnd.1
    rw [← e]
    exact List.mem_map.2 ⟨x, List.mem_of_getElem? h, rfl⟩

theorem keysOf_eraseIdx_nodup {l : List Node} (h : (keysOf l).Nodup) (i : Nat) :
    (keysOf (l.eraseIdx i)).Nodup := by
  unfold keysOf at *
  exact List.Pairwise.sublist ((List.eraseIdx_sublist l i).map _) h

theorem mem_keysOf_eraseIdx {l : List Node} {i k : Nat} (h : k ∈ keysOf (l.eraseIdx i)) : k ∈ keysOf l := by
  unfold keysOf at *
  obtain ⟨n, hn, rfl⟩ := List.mem_map.1 h
  exact List.mem_map.2 ⟨n, List.mem_of_mem_eraseIdx hn, rfl⟩

/-! ## `status` under the split -/

theorem status_of_split {b : Bucket} {D C : List Node} (h : Split b D C) (pos : Nat) :
    b.status pos = if D.length ≤ pos ∧ C ≠ [] then .connected else .disconnected := by
  unfold Bucket.status
  rw [h.fc]
  by_cases hC : C = []
  · simp [hC]
  · simp [hC]

theorem firstConn_lt {b : Bucket} {D C : List Node} (h : Split b D C) (p : Nat)
    (hp : b.firstConn = some p) : p = D.length ∧ C ≠ [] ∧ p < b.nodes.length := by
  rw [h.fc] at hp
  by_cases hC : C = []
  · simp [hC] at hp
  · simp only [hC, if_false, Option.some.injEq] at hp
    refine ⟨hp.symm, hC, ?_⟩
    rw [h.nodes, List.length_append, ← hp]
    have : 0 < C.length := List.length_pos_iff.2 hC
    omega

theorem BInv.mono {l i B B' : Nat} {b : Bucket} (h : BInv l i B b) (hB : B ≤ B') : BInv l i B' b :=
  { h with stamps := fun n hn => Nat.lt_of_lt_of_le (h.stamps n hn) hB }

theorem Split.congr {b b' : Bucket} {D C : List Node} (h : Split b D C) (hn : b'.nodes = b.nodes)
    (hf : b'.firstConn = b.firstConn) : Split b' D C :=
  ⟨hn.trans h.nodes, h.dis, h.con, hf.trans h.fc, h.sortedD, h.sortedC⟩

/-- changing only the pending slot -/
theorem binv_set_pending {l i B : Nat} {b : Bucket} (h : BInv l i B b) (pn : Option PendingNode)
    (hk : ∀ p, pn = some p → p.node.key ∉ keysOf b.nodes)
    (hidx : ∀ p, pn = some p → bucketIndex (l ^^^ p.node.key) = some i) :
    BInv l i B { b with pending := pn } := by
  obtain ⟨D, C, hsp⟩ := h.split
  exact ⟨h.notPoisoned, h.capPos, h.len, ⟨D, C, hsp.congr rfl rfl⟩, h.stamps, h.nodup, hk, h.index, hidx⟩

theorem binv_clear_pending {l i B : Nat} {b : Bucket} (h : BInv l i B b) :
    BInv l i B { b with pending := none } :=
  binv_set_pending h none (fun _ hp => by cases hp) (fun _ hp => by cases hp)

theorem keysOf_append (a b : List Node) : keysOf (a ++ b) = keysOf a ++ keysOf b := by
  simp [keysOf]

/-! ## `insert` -/

/-- a node was added to the bucket (not full before): the invariant in terms of the new split -/
theorem binv_added {l i B s : Nat} {b : Bucket} (h : BInv l i B b) (node : Node)
    (hkey : node.key ∉ keysOf b.nodes) (hpk : ∀ p, b.pending = some p → p.node.key ≠ node.key)
    (hidx : bucketIndex (l ^^^ node.key) = some i) (hs : node.stamp = s) (hB : B ≤ s)
    (hroom : b.nodes.length < b.capacity)
    (nodes' : List Node) (fc' : Option Nat) (D' C' : List Node)
    (hn : nodes' = D' ++ C') (hlen : nodes'.length = b.nodes.length + 1)
    (hmem : ∀ n, n ∈ nodes' ↔ n = node ∨ n ∈ b.nodes) (hnd : (keysOf nodes').Nodup)
    (hd : ∀ n ∈ D', n.gst = .disconnected) (hc : ∀ n ∈ C', n.gst = .connected)
    (hfc : fc' = (if C' = [] then none else some D'.length)) (hsd : Sorted D') (hsc : Sorted C') :
    BInv l i (s + 1) { b with nodes := nodes', firstConn := fc' } := by
  refine ⟨h.notPoisoned, h.capPos, by simp only; omega, ⟨D', C', ⟨hn, hd, hc, hfc, hsd, hsc⟩⟩,
    ?_, hnd, ?_, ?_, h.pendingIndex⟩
  · intro n hn'
    rcases (hmem n).1 hn' with rfl | hn''
    · omega
    · have := h.stamps n hn''; omega
  · intro p hp hin
    obtain ⟨n, hn', hk⟩ := List.mem_map.1 hin
    rcases (hmem n).1 hn' with rfl | hn''
    · exact hpk p hp hk.symm
    · exact h.pendingNotIn p hp (List.mem_map.2 ⟨n, hn'', hk⟩)
  · intro n hn'
    rcases (hmem n).1 hn' with rfl | hn''
    · exact hidx
    · exact h.index n hn''

theorem nodup_keys_append_singleton {ns : List Node} {node : Node} (h : (keysOf ns).Nodup)
    (hk : node.key ∉ keysOf ns) : (keysOf (ns ++ [node])).Nodup := by
  rw [keysOf_append, List.nodup_append]
  refine ⟨h, by simp [keysOf], ?_⟩
  intro a ha b hb
  simp only [keysOf, List.map_cons, List.map_nil, List.mem_singleton] at hb
  subst hb
  intro e; subst e; exact hk ha

theorem insert_inv {l i B s : Nat} {b : Bucket} (h : BInv l i B b) (node : Node) (st : Status) (now : Nat)
    (hkey : node.key ∉ keysOf b.nodes) (hpk : ∀ p, b.pending = some p → p.node.key ≠ node.key)
    (hidx : bucketIndex (l ^^^ node.key) = some i) (hgst : node.gst = st) (hs : node.stamp = s)
    (hB : B ≤ s) : BInv l i (s + 1) (b.insert node st now).1 := by
  have hmono : BInv l i (s + 1) b := h.mono (by omega)
  obtain ⟨D, C, hsp⟩ := h.split
  have hstD : ∀ a ∈ D, a.stamp < node.stamp := fun a ha => by
    have := h.stamps a (by rw [hsp.nodes]; exact List.mem_append_left _ ha); omega
  have hstC : ∀ a ∈ C, a.stamp < node.stamp := fun a ha => by
    have := h.stamps a (by rw [hsp.nodes]; exact List.mem_append_right _ ha); omega
  unfold Bucket.insert
  cases st with
  | connected =>
    simp only
    by_cases hfull : b.capacity ≤ b.nodes.length
    · simp only [hfull, if_true]
      by_cases hc : b.firstConn = some 0 ∨ b.pending.isSome = true
      · simp only [hc, if_true]; exact hmono
      · simp only [hc, if_false]
        have hb' : BInv l i (s + 1)
            { b with pending := some ⟨node, .connected, now + b.timeout⟩ } := by
          apply binv_set_pending hmono
          · intro p hp
            simp only [Option.some.injEq] at hp
            subst hp
            exact hkey
          · intro p hp
            simp only [Option.some.injEq] at hp
            subst hp
            exact hidx
        split
        · rename_i hnil
          have := h.capPos
          rw [hnil] at hfull
          simp at hfull
          omega
        · exact hb'
    · simp only [hfull, if_false]
      have hroom : b.nodes.length < b.capacity := by omega
      apply binv_added h node hkey hpk hidx hs hB hroom _ _ D (C ++ [node])
      · rw [hsp.nodes, List.append_assoc]
      · simp
      · intro n; simp only [List.mem_append, List.mem_singleton]; exact ⟨fun h => h.symm, fun h => h.symm⟩
      · exact nodup_keys_append_singleton h.nodup hkey
      · exact hsp.dis
      · intro n hn
        rcases List.mem_append.1 hn with hn | hn
        · exact hsp.con n hn
        · simp only [List.mem_singleton] at hn; subst hn; exact hgst
      · have hne : C ++ [node] ≠ [] := by simp
        simp only [hne, if_false]
        cases hfc : b.firstConn with
        | some p => simp only; rw [(firstConn_lt hsp p hfc).1]
        | none =>
          simp only
          have hC : C = [] := by
            have := hsp.fc; rw [hfc] at this
            by_cases hC : C = []
            · exact hC
            · simp [hC] at this
          rw [hsp.nodes, hC, List.append_nil]
      · exact hsp.sortedD
      · exact sorted_append_singleton hsp.sortedC hstC
  | disconnected =>
    simp only
    by_cases hfull : b.capacity ≤ b.nodes.length
    · simp only [hfull, if_true]; exact hmono
    · simp only [hfull, if_false]
      have hroom : b.nodes.length < b.capacity := by omega
      cases hfc : b.firstConn with
      | some p =>
        obtain ⟨hp, hC, hplt⟩ := firstConn_lt hsp p hfc
        have hple : p ≤ b.nodes.length := by omega
        simp only [hple, if_true]
        have hins : b.nodes.insertIdx p node = (D ++ [node]) ++ C := by
          rw [hsp.nodes, hp, insertIdx_append_length]; simp
        apply binv_added h node hkey hpk hidx hs hB hroom _ _ (D ++ [node]) C
        · exact hins
        · rw [List.length_insertIdx_of_le_length hple]
        · intro n
          rw [List.mem_insertIdx hple]
        · rw [hins, keysOf_append, keysOf_append]
          have := nodup_keys_append_singleton h.nodup hkey
          rw [hsp.nodes, keysOf_append, keysOf_append] at this
          -- permute: D ++ C ++ [node]  ↝  D ++ [node] ++ C
          refine (List.Perm.nodup_iff ?_).1 this
          rw [List.append_assoc, List.append_assoc]
          exact List.Perm.append_left _ List.perm_append_comm
        · intro n hn
          rcases List.mem_append.1 hn with hn | hn
          · exact hsp.dis n hn
          · simp only [List.mem_singleton] at hn; subst hn; exact hgst
        · exact hsp.con
        · simp [hC, hp]
        · exact sorted_append_singleton hsp.sortedD hstD
        · exact hsp.sortedC
      | none =>
        simp only
        have hC : C = [] := by
          have := hsp.fc; rw [hfc] at this
          by_cases hC : C = []
          · exact hC
          · simp [hC] at this
        have hfc' : b = { b with firstConn := none } := by rw [← hfc]
        rw [hfc']
        apply binv_added h node hkey hpk hidx hs hB hroom _ _ (D ++ [node]) []
        · simp only; rw [hsp.nodes, hC]; simp
        · simp
        · intro n; simp only [List.mem_append, List.mem_singleton]; exact ⟨fun h => h.symm, fun h => h.symm⟩
        · exact nodup_keys_append_singleton h.nodup hkey
        · intro n hn
          rcases List.mem_append.1 hn with hn | hn
          · exact hsp.dis n hn
          · simp only [List.mem_singleton] at hn; subst hn; exact hgst
        · intro n hn; cases hn
        · simp
        · exact sorted_append_singleton hsp.sortedD hstD
        · exact List.Pairwise.nil

/-! ## `remove` -/

theorem position_none {b : Bucket} {key : Nat} (h : b.position key = none) : key ∉ keysOf b.nodes := by
  unfold Bucket.position at h
  rw [List.findIdx?_eq_none_iff] at h
  intro hin
  obtain ⟨n, hn, hk⟩ := List.mem_map.1 hin
  have := h n hn
  simp [hk] at this

theorem position_some {b : Bucket} {key pos : Nat} (h : b.position key = some pos) :
    ∃ n, b.nodes[pos]? = some n ∧ n.key = key ∧ pos < b.nodes.length := by
  unfold Bucket.position at h
  rw [List.findIdx?_eq_some_iff_getElem] at h
  obtain ⟨hlt, hk, _⟩ := h
  exact ⟨b.nodes[pos], List.getElem?_eq_getElem hlt, by simpa using hk, hlt⟩

/-- what `remove` returns and leaves behind -/
structure Removed (l i B : Nat) (b b' : Bucket) (key : Nat) (node : Node) (st : Status) (pos : Nat) : Prop where
  inv : BInv l i B b'
  key_eq : node.key = key
  gone : key ∉ keysOf b'.nodes
  len : b'.nodes.length + 1 = b.nodes.length
  pending : b'.pending = b.pending
  cap : b'.capacity = b.capacity
  timeout : b'.timeout = b.timeout
  was : b.nodes[pos]? = some node
  status : st = b.status pos
  sub : ∀ n ∈ b'.nodes, n ∈ b.nodes
  gst : node.gst = st

theorem remove_spec {l i B : Nat} {b : Bucket} (h : BInv l i B b) (key : Nat) :
    (b.position key = none ∧ b.remove key = (b, none) ∧ key ∉ keysOf b.nodes) ∨
    (∃ b' node st pos, b.remove key = (b', some (node, st, pos)) ∧ b.position key = some pos ∧
      Removed l i B b b' key node st pos) := by
  obtain ⟨D, C, hsp⟩ := h.split
  cases hpos : b.position key with
  | none =>
    left
    exact ⟨rfl, by simp [Bucket.remove, hpos], position_none hpos⟩
  | some pos =>
    right
    obtain ⟨node, hget, hk, hlt⟩ := position_some hpos
    have hmem : node ∈ b.nodes := List.mem_of_getElem? hget
    have hgone : key ∉ keysOf (b.nodes.eraseIdx pos) := hk ▸ key_not_mem_eraseIdx b.nodes pos node h.nodup hget
    have hlen' : (b.nodes.eraseIdx pos).length + 1 = b.nodes.length := by
      rw [List.length_eraseIdx_of_lt hlt]; omega
    have hcommon : ∀ (fc' : Option Nat) (D' C' : List Node), b.nodes.eraseIdx pos = D' ++ C' →
        (∀ n ∈ D', n ∈ D) → (∀ n ∈ C', n ∈ C) → Sorted D' → Sorted C' →
        fc' = (if C' = [] then none else some D'.length) →
        BInv l i B { b with nodes := b.nodes.eraseIdx pos, firstConn := fc' } := by
      intro fc' D' C' hn hd hc hsd hsc hfc
      refine ⟨h.notPoisoned, h.capPos, ?_, ⟨D', C', ⟨hn, fun n hn => hsp.dis n (hd n hn),
        fun n hn => hsp.con n (hc n hn), hfc, hsd, hsc⟩⟩, ?_, keysOf_eraseIdx_nodup h.nodup pos, ?_, ?_,
        h.pendingIndex⟩
      · have := h.len; simp only; omega
      · intro n hn; exact h.stamps n (List.mem_of_mem_eraseIdx hn)
      · intro p hp hin; exact h.pendingNotIn p hp (mem_keysOf_eraseIdx hin)
      · intro n hn; exact h.index n (List.mem_of_mem_eraseIdx hn)
    have hstatus := status_of_split hsp pos
    have hlenDC : b.nodes.length = D.length + C.length := by rw [hsp.nodes, List.length_append]
    by_cases hconn : D.length ≤ pos ∧ C ≠ []
    · -- connected node
      rw [if_pos hconn] at hstatus
      have hfcb : b.firstConn = some D.length := by rw [hsp.fc]; simp [hconn.2]
      have her : b.nodes.eraseIdx pos = D ++ C.eraseIdx (pos - D.length) := by
        rw [hsp.nodes, List.eraseIdx_append_of_length_le hconn.1]
      have hposC : pos - D.length < C.length := by omega
      have hlenC' : (C.eraseIdx (pos - D.length)).length = C.length - 1 := by
        rw [List.length_eraseIdx_of_lt hposC]
      have hnodeC : node ∈ C := by
        rw [hsp.nodes, List.getElem?_append_right hconn.1] at hget
        exact List.mem_of_getElem? hget
      simp only [Bucket.remove, hpos, hget, hstatus]
      refine ⟨_, _, _, _, rfl, rfl, ?_⟩
      · refine ⟨?_, hk, hgone, hlen', rfl, rfl, rfl, hget, hstatus.symm,
          fun n hn => List.mem_of_mem_eraseIdx hn, hsp.con node hnodeC⟩
        apply hcommon _ D (C.eraseIdx (pos - D.length)) her (fun n hn => hn)
          (fun n hn => List.mem_of_mem_eraseIdx hn) hsp.sortedD (sorted_eraseIdx hsp.sortedC _)
        rw [hfcb]
        by_cases hC1 : C.length = 1
        · have hnil : C.eraseIdx (pos - D.length) = [] := List.eq_nil_of_length_eq_zero (by omega)
          have hpd : pos = D.length := by omega
          rw [hnil]
          simp only [if_true]
          rw [if_pos]
          refine ⟨by rw [hpd], ?_⟩
          omega
        · have hne : C.eraseIdx (pos - D.length) ≠ [] := by
            intro e
            have := congrArg List.length e
            simp only [List.length_nil] at this
            omega
          simp only [hne, if_false]
          rw [if_neg]
          intro ⟨h1, h2⟩
          simp only [Option.some.injEq] at h1
          omega
    · -- disconnected node
      rw [if_neg hconn] at hstatus
      have hposD : pos < D.length := by
        by_cases hC : C = []
        · rw [hC] at hlenDC; simp at hlenDC; omega
        · have : ¬ D.length ≤ pos := fun hle => hconn ⟨hle, hC⟩
          omega
      have her : b.nodes.eraseIdx pos = D.eraseIdx pos ++ C := by
        rw [hsp.nodes, List.eraseIdx_append_of_lt_length hposD]
      have hnodeD : node ∈ D := by
        rw [hsp.nodes, List.getElem?_append_left hposD] at hget
        exact List.mem_of_getElem? hget
      have hlenD' : (D.eraseIdx pos).length = D.length - 1 := List.length_eraseIdx_of_lt hposD
      cases hfc : b.firstConn with
      | some p =>
        obtain ⟨hp, hC, _⟩ := firstConn_lt hsp p hfc
        have hp0 : p ≠ 0 := by omega
        simp only [Bucket.remove, hpos, hget, hstatus, hfc, hp0, if_false]
        refine ⟨_, _, _, _, rfl, rfl, ?_⟩
        · refine ⟨?_, hk, hgone, hlen', rfl, rfl, rfl, hget, hstatus.symm,
            fun n hn => List.mem_of_mem_eraseIdx hn, hsp.dis node hnodeD⟩
          apply hcommon _ (D.eraseIdx pos) C her (fun n hn => List.mem_of_mem_eraseIdx hn)
            (fun n hn => hn) (sorted_eraseIdx hsp.sortedD _) hsp.sortedC
          simp only [hC, if_false, hlenD', hp]
      | none =>
        have hC : C = [] := by
          have := hsp.fc; rw [hfc] at this
          by_cases hC : C = []
          · exact hC
          · simp [hC] at this
        simp only [Bucket.remove, hpos, hget, hstatus, hfc]
        refine ⟨_, _, _, _, rfl, rfl, ?_⟩
        · refine ⟨?_, hk, hgone, hlen', rfl, rfl, rfl, hget, hstatus.symm,
            fun n hn => List.mem_of_mem_eraseIdx hn, hsp.dis node hnodeD⟩
          have := hcommon none (D.eraseIdx pos) C her (fun n hn => List.mem_of_mem_eraseIdx hn)
            (fun n hn => hn) (sorted_eraseIdx hsp.sortedD _) hsp.sortedC (by simp [hC])
          first | exact this | (rw [← hfc] at this; exact this)

/-! ## `update` -/

theorem insert_result_inserted {l i B : Nat} {b : Bucket} (h : BInv l i B b) (node : Node) (st : Status)
    (now : Nat) (hroom : b.nodes.length < b.capacity) : (b.insert node st now).2 = .inserted := by
  obtain ⟨D, C, hsp⟩ := h.split
  have hnf : ¬ b.capacity ≤ b.nodes.length := by omega
  unfold Bucket.insert
  cases st with
  | connected => simp only [hnf, if_false]
  | disconnected =>
    simp only [hnf, if_false]
    cases hfc : b.firstConn with
    | some p =>
      have := (firstConn_lt hsp p hfc).2.2
      have hple : p ≤ b.nodes.length := by omega
      simp only [hple, if_true]
    | none => simp only

theorem update_inv {l i B tick : Nat} {b : Bucket} (h : BInv l i B b) (key : Nat) (st : Status) (now : Nat)
    (hB : B ≤ tick) : BInv l i (tick + 1) (b.update key st now tick) := by
  rcases remove_spec h key with ⟨_, hrem, _⟩ | ⟨b1, node, st0, pos, hrem, _, hr⟩
  · simp only [Bucket.update, hrem]
    exact h.mono (by omega)
  · simp only [Bucket.update, hrem]
    have hb2 : BInv l i B (if pos = 0 ∧ st = .connected then { b1 with pending := none } else b1) := by
      split
      · exact binv_clear_pending hr.inv
      · exact hr.inv
    have hnodes2 : (if pos = 0 ∧ st = .connected then { b1 with pending := none } else b1).nodes = b1.nodes := by
      split <;> rfl
    have hcap2 : (if pos = 0 ∧ st = .connected then { b1 with pending := none } else b1).capacity = b1.capacity := by
      split <;> rfl
    have hnodeIn : node ∈ b.nodes := List.mem_of_getElem? hr.was
    have hroom : (if pos = 0 ∧ st = .connected then { b1 with pending := none } else b1).nodes.length <
        (if pos = 0 ∧ st = .connected then { b1 with pending := none } else b1).capacity := by
      rw [hnodes2, hcap2, hr.cap]
      have := h.len
      have := hr.len
      omega
    have hins := insert_result_inserted hb2 { node with gst := st, stamp := tick } st now hroom
    have hinv := insert_inv (s := tick) hb2 { node with gst := st, stamp := tick } st now
      (by rw [hnodes2]; simp only; rw [hr.key_eq]; exact hr.gone)
      (by
        intro p hp
        have hp' : b.pending = some p := by
          rw [← hr.pending]
          revert hp
          split
          · intro hp; cases hp
          · exact fun hp => hp
        intro e
        apply h.pendingNotIn p hp'
        rw [e]
        exact List.mem_map.2 ⟨node, hnodeIn, rfl⟩)
      (h.index node hnodeIn) rfl rfl hB
    revert hins hinv
    generalize (if pos = 0 ∧ st = .connected then { b1 with pending := none } else b1).insert
      { node with gst := st, stamp := tick } st now = res
    intro hins hinv
    obtain ⟨b3, r⟩ := res
    simp only at hins
    subst hins
    exact hinv

/-! ## `apply_pending` -/

/-- the node that `apply_pending` inserts for the pending node `pn` -/
def appliedNode (pn : PendingNode) (tick : Nat) : Node := { pn.node with gst := pn.status, stamp := tick }

/-- full bucket whose head is disconnected: the head `ev` is replaced by the pending node;
`nodes'` is the new node list, given with its split -/
theorem binv_replaced {l i B tick : Nat} {b : Bucket} (h : BInv l i B b) (hB : B ≤ tick)
    {pn : PendingNode} (hp : b.pending = some pn) {ev : Node} {rest : List Node} (hnodes : b.nodes = ev :: rest)
    (nodes' : List Node) (fc' : Option Nat) (D' C' : List Node)
    (hn : nodes' = D' ++ C') (hperm : nodes'.Perm (appliedNode pn tick :: rest))
    (hd : ∀ n ∈ D', n.gst = .disconnected) (hc : ∀ n ∈ C', n.gst = .connected)
    (hfc : fc' = (if C' = [] then none else some D'.length)) (hsd : Sorted D') (hsc : Sorted C') :
    BInv l i (tick + 1) { b with nodes := nodes', firstConn := fc', pending := none } := by
  have hrest : ∀ n ∈ rest, n ∈ b.nodes := fun n hn => by rw [hnodes]; exact List.mem_cons_of_mem _ hn
  refine ⟨h.notPoisoned, h.capPos, ?_, ⟨D', C', ⟨hn, hd, hc, hfc, hsd, hsc⟩⟩, ?_, ?_, ?_, ?_, ?_⟩
  · have := h.len
    have := hperm.length_eq
    rw [hnodes] at *
    simp only [List.length_cons] at *
    omega
  · intro n hn'
    rcases List.mem_cons.1 (hperm.mem_iff.1 hn') with rfl | hr
    · simp [appliedNode]
    · have := h.stamps n (hrest n hr); omega
  · have hk : (keysOf nodes').Perm (keysOf (appliedNode pn tick :: rest)) := hperm.map _
    rw [hk.nodup_iff]
    simp only [keysOf, List.map_cons, List.nodup_cons]
    constructor
    · intro hin
      apply h.pendingNotIn pn hp
      rw [hnodes]
      simp only [keysOf, List.map_cons]
      exact List.mem_cons_of_mem _ hin
    · have := h.nodup
      rw [hnodes] at this
      simp only [keysOf, List.map_cons, List.nodup_cons] at this
      exact this.2
  · intro p hp'; cases hp'
  · intro n hn'
    rcases List.mem_cons.1 (hperm.mem_iff.1 hn') with rfl | hr
    · exact h.pendingIndex pn hp
    · exact h.index n (hrest n hr)
  · intro p hp'; cases hp'

/-- the complete case analysis of `apply_pending` -/
inductive ApplyCase (l i B : Nat) (b : Bucket) (now tick : Nat) : Bucket × Option Applied → Prop
  /-- no pending node, or not yet due: nothing changes -/
  | kept : (b.pending = none ∨ ∃ pn, b.pending = some pn ∧ now < pn.replace) →
      ApplyCase l i B b now tick (b, none)
  /-- due, bucket full, least-recently-updated node connected: the pending node is dropped -/
  | dropped (pn : PendingNode) : b.pending = some pn → pn.replace ≤ now → b.capacity ≤ b.nodes.length →
      b.status 0 = .connected → ApplyCase l i B b now tick ({ b with pending := none }, none)
  /-- due, bucket full, head disconnected: the head — the least-recently-disconnected node — is evicted -/
  | evicted (pn : PendingNode) (ev : Node) (rest : List Node) (b' : Bucket) :
      b.pending = some pn → pn.replace ≤ now → b.capacity ≤ b.nodes.length →
      b.status 0 = .disconnected → b.nodes = ev :: rest → ev.gst = .disconnected →
      (∀ n ∈ b.nodes, n.gst = .disconnected → ev.stamp ≤ n.stamp) →
      BInv l i (tick + 1) b' → b'.pending = none → b'.nodes.Perm (appliedNode pn tick :: rest) →
      b'.capacity = b.capacity →
      ApplyCase l i B b now tick (b', some ⟨appliedNode pn tick, some ev⟩)
  /-- due and there is room: plain insertion -/
  | room (pn : PendingNode) (b' : Bucket) :
      b.pending = some pn → pn.replace ≤ now → b.nodes.length < b.capacity →
      BInv l i (tick + 1) b' → b'.pending = none → b'.nodes.Perm (appliedNode pn tick :: b.nodes) →
      b'.capacity = b.capacity →
      ApplyCase l i B b now tick (b', some ⟨appliedNode pn tick, none⟩)

theorem applyPending_spec {l i B tick : Nat} {b : Bucket} (h : BInv l i B b) (now : Nat) (hB : B ≤ tick) :
    ApplyCase l i B b now tick (b.applyPending now tick) := by
  obtain ⟨D, C, hsp⟩ := h.split
  cases hp : b.pending with
  | none =>
    have : b.applyPending now tick = (b, none) := by simp only [Bucket.applyPending, hp]
    rw [this]; exact .kept (Or.inl hp)
  | some pn =>
    by_cases hdue : pn.replace ≤ now
    · by_cases hfull : b.capacity ≤ b.nodes.length
      · by_cases hst : b.status 0 = .connected
        · have hst' : ({ b with pending := none } : Bucket).status 0 = .connected := hst
          have : b.applyPending now tick = ({ b with pending := none }, none) := by
            simp only [Bucket.applyPending, hp, hdue, hfull, if_true, hst']
          rw [this]; exact .dropped pn hp hdue hfull hst
        · have hst0 : b.status 0 = .disconnected := by
            cases hs : b.status 0 with
            | connected => exact absurd hs hst
            | disconnected => rfl
          have hst' : ¬ ({ b with pending := none } : Bucket).status 0 = .connected := hst
          -- the bucket is non-empty and its head is disconnected: D = ev :: D'
          have hne : b.nodes ≠ [] := by
            intro e
            have := h.capPos
            rw [e] at hfull
            simp at hfull
            omega
          have hsplit0 := status_of_split hsp 0
          rw [hst0] at hsplit0
          have hD : D ≠ [] := by
            intro e
            subst e
            by_cases hC : C = []
            · subst hC; exact hne (by rw [hsp.nodes]; rfl)
            · simp [hC] at hsplit0
          obtain ⟨ev, D', rfl⟩ := List.exists_cons_of_ne_nil hD
          have hnodes : b.nodes = ev :: (D' ++ C) := by rw [hsp.nodes]; rfl
          have hevd : ev.gst = .disconnected := hsp.dis ev (by simp)
          have hevmin : ∀ n ∈ b.nodes, n.gst = .disconnected → ev.stamp ≤ n.stamp := by
            intro n hn hg
            rw [hsp.nodes] at hn
            rcases List.mem_append.1 hn with hn | hn
            · rcases List.mem_cons.1 hn with rfl | hn
              · exact Nat.le_refl _
              · exact Nat.le_of_lt ((List.pairwise_cons.1 hsp.sortedD).1 n hn)
            · rw [hsp.con n hn] at hg; cases hg
          have hsD' : Sorted D' := sorted_tail hsp.sortedD
          have hstD' : ∀ a ∈ D', a.stamp < (appliedNode pn tick).stamp := fun a ha => by
            have := h.stamps a (by rw [hsp.nodes]; simp [ha])
            simp only [appliedNode]; omega
          have hstC : ∀ a ∈ C, a.stamp < (appliedNode pn tick).stamp := fun a ha => by
            have := h.stamps a (by rw [hsp.nodes]; simp [ha])
            simp only [appliedNode]; omega
          have hfc0 : ¬ b.firstConn = some 0 := by
            intro e
            have := (firstConn_lt hsp 0 e).1
            simp at this
          cases hps : pn.status with
          | connected =>
            have hgst : (appliedNode pn tick).gst = .connected := by simp [appliedNode, hps]
            have hres : b.applyPending now tick =
                ({ b with nodes := (D' ++ C) ++ [appliedNode pn tick],
                          firstConn := (match b.firstConn with
                            | none => some (D' ++ C).length
                            | some p => if 1 ≤ p then some (p - 1) else none),
                          pending := none }, some ⟨appliedNode pn tick, some ev⟩) := by
              simp only [Bucket.applyPending, hp, hdue, hfull, if_true, hst', if_false, hfc0, hps, appliedNode]
              simp only [hnodes]
              all_goals rfl
            rw [hres]
            refine .evicted pn ev (D' ++ C) _ hp hdue hfull hst0 hnodes hevd hevmin ?_ rfl ?_ rfl
            · apply binv_replaced h hB hp hnodes _ _ D' (C ++ [appliedNode pn tick])
              · rw [List.append_assoc]
              · exact List.perm_append_singleton _ _
              · exact fun n hn => hsp.dis n (List.mem_cons_of_mem _ hn)
              · intro n hn
                rcases List.mem_append.1 hn with hn | hn
                · exact hsp.con n hn
                · simp only [List.mem_singleton] at hn; subst hn; exact hgst
              · have hne' : C ++ [appliedNode pn tick] ≠ [] := by simp
                simp only [hne', if_false]
                cases hfc : b.firstConn with
                | none =>
                  have hC : C = [] := by
                    have := hsp.fc; rw [hfc] at this
                    by_cases hC : C = []
                    · exact hC
                    · simp [hC] at this
                  simp [hC]
                | some p =>
                  have := (firstConn_lt hsp p hfc).1
                  simp only [List.length_cons] at this
                  have hp1 : 1 ≤ p := by omega
                  simp only [hp1, if_true]
                  congr 1; omega
              · exact hsD'
              · exact sorted_append_singleton hsp.sortedC hstC
            · exact List.perm_append_singleton _ _
          | disconnected =>
            have hgst : (appliedNode pn tick).gst = .disconnected := by simp [appliedNode, hps]
            cases hfc : b.firstConn with
            | some p =>
              obtain ⟨hpD, hC, _⟩ := firstConn_lt hsp p hfc
              simp only [List.length_cons] at hpD
              have hp0 : ¬ p = 0 := by omega
              have hple : p - 1 ≤ (D' ++ C).length := by simp; omega
              have hres : b.applyPending now tick =
                  ({ b with nodes := (D' ++ C).insertIdx (p - 1) (appliedNode pn tick), pending := none },
                    some ⟨appliedNode pn tick, some ev⟩) := by
                simp only [Bucket.applyPending, hp, hdue, hfull, if_true, hst', if_false, hfc0, hps, appliedNode]
                simp only [hfc, hp0, if_false, hnodes, hple, if_true]
                all_goals rfl
              rw [hres]
              have hins : (D' ++ C).insertIdx (p - 1) (appliedNode pn tick) =
                  (D' ++ [appliedNode pn tick]) ++ C := by
                have : p - 1 = D'.length := by omega
                rw [this, insertIdx_append_length]; simp
              have hperm : ((D' ++ C).insertIdx (p - 1) (appliedNode pn tick)).Perm
                  (appliedNode pn tick :: (D' ++ C)) := by
                rw [hins, List.append_assoc]
                exact List.perm_middle
              refine .evicted pn ev (D' ++ C) _ hp hdue hfull hst0 hnodes hevd hevmin ?_ rfl hperm rfl
              have := binv_replaced h hB hp hnodes _ (some p) (D' ++ [appliedNode pn tick]) C hins hperm
                (by
                  intro n hn
                  rcases List.mem_append.1 hn with hn | hn
                  · exact hsp.dis n (List.mem_cons_of_mem _ hn)
                  · simp only [List.mem_singleton] at hn; subst hn; exact hgst)
                hsp.con (by simp [hC]; omega) (sorted_append_singleton hsD' hstD') hsp.sortedC
              rw [← hfc] at this
              exact this
            | none =>
              have hC : C = [] := by
                have := hsp.fc; rw [hfc] at this
                by_cases hC : C = []
                · exact hC
                · simp [hC] at this
              have hres : b.applyPending now tick =
                  ({ b with nodes := (D' ++ C) ++ [appliedNode pn tick], pending := none },
                    some ⟨appliedNode pn tick, some ev⟩) := by
                simp only [Bucket.applyPending, hp, hdue, hfull, if_true, hst', if_false, hfc0, hps, appliedNode]
                simp only [hfc, hnodes]
                all_goals rfl
              rw [hres]
              refine .evicted pn ev (D' ++ C) _ hp hdue hfull hst0 hnodes hevd hevmin ?_ rfl
                (List.perm_append_singleton _ _) rfl
              have := binv_replaced h hB hp hnodes ((D' ++ C) ++ [appliedNode pn tick]) none
                (D' ++ [appliedNode pn tick]) [] (by simp [hC]) (List.perm_append_singleton _ _)
                (by
                  intro n hn
                  rcases List.mem_append.1 hn with hn | hn
                  · exact hsp.dis n (List.mem_cons_of_mem _ hn)
                  · simp only [List.mem_singleton] at hn; subst hn; exact hgst)
                (by intro n hn; cases hn) (by simp) (sorted_append_singleton hsD' hstD') List.Pairwise.nil
              rw [← hfc] at this
              exact this
      · -- room in the bucket
        have hroom : b.nodes.length < b.capacity := by omega
        have hb0 : BInv l i B { b with pending := none } := binv_clear_pending h
        have hins := insert_result_inserted hb0 (appliedNode pn tick) pn.status now hroom
        have hinv := insert_inv (s := tick) hb0 (appliedNode pn tick) pn.status now
          (h.pendingNotIn pn hp) (by intro p hp'; cases hp') (h.pendingIndex pn hp) rfl rfl hB
        have hres : b.applyPending now tick =
            (match ({ b with pending := none } : Bucket).insert (appliedNode pn tick) pn.status now with
             | (b1, .inserted) => (b1, some ⟨appliedNode pn tick, none⟩)
             | (b1, _) => (b1.poison, none)) := by
          simp only [Bucket.applyPending, hp, hdue, hfull, if_true, if_false, appliedNode]
          all_goals rfl
        rw [hres]
        have hpend : (({ b with pending := none } : Bucket).insert (appliedNode pn tick) pn.status now).1.pending = none := by
          have hnf : ¬ b.capacity ≤ b.nodes.length := hfull
          unfold Bucket.insert
          cases pn.status with
          | connected => simp only [hnf, if_false]
          | disconnected =>
            simp only [hnf, if_false]
            cases hfc : b.firstConn with
            | some p =>
              have := (firstConn_lt hsp p hfc).2.2
              have hple : p ≤ b.nodes.length := by omega
              simp only [hple, if_true]
            | none => simp only
        have hpermI : (({ b with pending := none } : Bucket).insert (appliedNode pn tick) pn.status now).1.nodes.Perm
            (appliedNode pn tick :: b.nodes) := by
          have hnf : ¬ b.capacity ≤ b.nodes.length := hfull
          unfold Bucket.insert
          cases pn.status with
          | connected => simp only [hnf, if_false]; exact List.perm_append_singleton _ _
          | disconnected =>
            simp only [hnf, if_false]
            cases hfc : b.firstConn with
            | some p =>
              obtain ⟨hpD, _, hlt⟩ := firstConn_lt hsp p hfc
              have hple : p ≤ b.nodes.length := by omega
              simp only [hple, if_true]
              rw [hsp.nodes, hpD, insertIdx_append_length]
              exact List.perm_middle
            | none => simp only; exact List.perm_append_singleton _ _
        have hcapI : (({ b with pending := none } : Bucket).insert (appliedNode pn tick) pn.status now).1.capacity = b.capacity := by
          have hnf : ¬ b.capacity ≤ b.nodes.length := hfull
          unfold Bucket.insert
          cases pn.status with
          | connected => simp only [hnf, if_false]
          | disconnected =>
            simp only [hnf, if_false]
            cases hfc : b.firstConn with
            | some p =>
              have := (firstConn_lt hsp p hfc).2.2
              have hple : p ≤ b.nodes.length := by omega
              simp only [hple, if_true]
            | none => simp only
        revert hins hinv hpend hpermI hcapI
        generalize ({ b with pending := none } : Bucket).insert (appliedNode pn tick) pn.status now = res
        intro hins hinv hpend hpermI hcapI
        obtain ⟨b1, r⟩ := res
        simp only at hins hinv hpend hpermI hcapI
        subst hins
        exact .room pn b1 hp hdue hroom hinv hpend hpermI hcapI
    · have hlt : now < pn.replace := by omega
      have : b.applyPending now tick = (b, none) := by
        simp only [Bucket.applyPending, hp, hdue, if_false]
      rw [this]; exact .kept (Or.inr ⟨pn, hp, hlt⟩)

theorem applyPending_inv {l i B tick : Nat} {b : Bucket} (h : BInv l i B b) (now : Nat) (hB : B ≤ tick) :
    BInv l i (tick + 1) (b.applyPending now tick).1 := by
  have := applyPending_spec h now hB
  generalize b.applyPending now tick = res at this
  cases this with
  | kept _ => exact h.mono (by omega)
  | dropped pn _ _ _ _ => exact (binv_clear_pending h).mono (by omega)
  | evicted pn ev rest b' _ _ _ _ _ _ _ hinv _ _ _ => exact hinv
  | room pn b' _ _ _ hinv _ _ _ => exact hinv

end C37
