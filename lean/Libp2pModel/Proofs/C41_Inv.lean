import Libp2pModel.Proofs.C41
/-!
# C41 — the invariant of `MemoryStore` and its preservation by every operation
-/
namespace C41

structure Inv (s : Store) : Prop where
  rkeys : (s.records.map (·.1)).Nodup
  rkey_eq : ∀ e ∈ s.records, e.2.key = e.1
  rlen : s.records.length ≤ s.cfg.maxRecords
  rval : ∀ e ∈ s.records, e.2.value.length < s.cfg.maxValueBytes
  pkeys : (s.providers.map (·.1)).Nodup
  pkey_eq : ∀ e ∈ s.providers, ∀ p ∈ e.2, p.key = e.1
  pdistinct : ∀ e ∈ s.providers, (e.2.map (·.provider)).Nodup
  plen : ∀ e ∈ s.providers, e.2.length ≤ s.cfg.maxProvidersPerKey
  pnum : s.providers.length ≤ s.cfg.maxProvidedKeys
  pnonempty : 0 < s.cfg.maxProvidersPerKey → ∀ e ∈ s.providers, e.2 ≠ []
  provided_exact : ∀ r, r ∈ s.provided ↔ (r.provider = s.loc ∧ r ∈ providersOf s r.key)
  provided_nodup : (s.provided.map (·.key)).Nodup

theorem Inv.empty (loc : Nat) (cfg : Config) : Inv (Store.empty loc cfg) := by
  constructor <;> simp [Store.empty, providersOf, aget]

/-- facts about the list stored under a key -/
theorem Inv.entry {s : Store} (h : Inv s) {k : Nat} {l : List PRec} (hl : aget s.providers k = some l) :
    (∀ p ∈ l, p.key = k) ∧ (l.map (·.provider)).Nodup ∧ l.length ≤ s.cfg.maxProvidersPerKey := by
  have hm := aget_some_mem _ _ _ hl
  exact ⟨h.pkey_eq _ hm, h.pdistinct _ hm, h.plen _ hm⟩

theorem Inv.put {s : Store} (h : Inv s) (r : Record) : Inv (put s r).1 := by
  unfold C41.put
  split
  · exact h
  · rename_i hv
    have key : Inv { s with records := aset s.records r.key r } ↔
        (aset s.records r.key r).length ≤ s.cfg.maxRecords := by
      constructor
      · intro h'; exact h'.rlen
      · intro hl
        refine { h with rkeys := nodup_keys_aset _ _ _ h.rkeys, rkey_eq := ?_, rlen := hl, rval := ?_ }
        · intro e he
          rcases mem_aset _ _ _ _ h.rkeys he with rfl | ⟨h1, _⟩
          · rfl
          · exact h.rkey_eq e h1
        · intro e he
          rcases mem_aset _ _ _ _ h.rkeys he with rfl | ⟨h1, _⟩
          · simpa using hv
          · exact h.rval e h1
    cases hg : aget s.records r.key with
    | some old =>
      simp only
      exact key.2 (by rw [length_aset, hg]; simpa using h.rlen)
    | none =>
      simp only
      split
      · exact h
      · rename_i hn
        exact key.2 (by rw [length_aset, hg]; simp; omega)

theorem Inv.filter {s : Store} (h : Inv s) (f : Nat × Record → Bool) :
    Inv { s with records := s.records.filter f } :=
  { h with
    rkeys := h.rkeys.sublist (keys_filter_sublist _ _)
    rkey_eq := fun e he => h.rkey_eq e (List.mem_filter.1 he).1
    rlen := Nat.le_trans (List.length_filter_le _ _) h.rlen
    rval := fun e he => h.rval e (List.mem_filter.1 he).1 }

theorem Inv.remove {s : Store} (h : Inv s) (k : Nat) : Inv (remove s k) := h.filter _

theorem Inv.retain {s : Store} (h : Inv s) (f : Nat → Record → Bool) : Inv (retain s f) := h.filter _

/-! ## provider operations -/

theorem providersOf_aset (s : Store) (k : Nat) (L' P' : List PRec) (k' : Nat) :
    providersOf { s with providers := aset s.providers k L', provided := P' } k' =
      if k = k' then L' else providersOf s k' := by
  simp only [providersOf, aget_aset]
  split <;> rfl

theorem providersOf_adel (s : Store) (k : Nat) (P' : List PRec) (k' : Nat) :
    providersOf { s with providers := adel s.providers k, provided := P' } k' =
      if k = k' then [] else providersOf s k' := by
  simp only [providersOf, aget_adel]
  split <;> rfl

theorem Inv.set_entry {s : Store} (h : Inv s) (k : Nat) (L' P' : List PRec)
    (hkey : ∀ p ∈ L', p.key = k) (hnd : (L'.map (·.provider)).Nodup)
    (hlen : L'.length ≤ s.cfg.maxProvidersPerKey)
    (hne : 0 < s.cfg.maxProvidersPerKey → L' ≠ [])
    (hnum : (aget s.providers k).isSome ∨ s.providers.length < s.cfg.maxProvidedKeys)
    (hex : ∀ r, r ∈ P' ↔ (r.provider = s.loc ∧ r ∈ (if k = r.key then L' else providersOf s r.key)))
    (hpn : (P'.map (·.key)).Nodup) :
    Inv { s with providers := aset s.providers k L', provided := P' } := by
  have hm := fun e he => mem_aset s.providers k L' e h.pkeys he
  refine { h with
    pkeys := nodup_keys_aset _ _ _ h.pkeys
    pkey_eq := ?_
    pdistinct := ?_
    plen := ?_
    pnum := ?_
    pnonempty := ?_
    provided_exact := ?_
    provided_nodup := hpn }
  · intro e he
    rcases hm e he with rfl | ⟨h1, _⟩
    · exact hkey
    · exact h.pkey_eq e h1
  · intro e he
    rcases hm e he with rfl | ⟨h1, _⟩
    · exact hnd
    · exact h.pdistinct e h1
  · intro e he
    rcases hm e he with rfl | ⟨h1, _⟩
    · exact hlen
    · exact h.plen e h1
  · show (aset s.providers k L').length ≤ s.cfg.maxProvidedKeys
    rw [length_aset]
    have := h.pnum
    rcases hnum with h1 | h1
    · simp [h1]; exact this
    · split <;> omega
  · intro hp e he
    rcases hm e he with rfl | ⟨h1, _⟩
    · exact hne hp
    · exact h.pnonempty hp e h1
  · intro r
    rw [providersOf_aset]
    exact hex r

theorem Inv.del_entry {s : Store} (h : Inv s) (k : Nat) (P' : List PRec)
    (hex : ∀ r, r ∈ P' ↔ (r.provider = s.loc ∧ r ∈ (if k = r.key then [] else providersOf s r.key)))
    (hpn : (P'.map (·.key)).Nodup) :
    Inv { s with providers := adel s.providers k, provided := P' } := by
  have hm : ∀ e, e ∈ adel s.providers k → e ∈ s.providers := fun e he => (List.mem_filter.1 he).1
  refine { h with
    pkeys := h.pkeys.sublist (keys_filter_sublist _ _)
    pkey_eq := fun e he => h.pkey_eq e (hm e he)
    pdistinct := fun e he => h.pdistinct e (hm e he)
    plen := fun e he => h.plen e (hm e he)
    pnum := Nat.le_trans (List.length_filter_le _ _) h.pnum
    pnonempty := fun hp e he => h.pnonempty hp e (hm e he)
    provided_exact := ?_
    provided_nodup := hpn }
  intro r
  rw [providersOf_adel]
  exact hex r

/-- all elements of `provided` belong to the local node, so `peq` on them is equality of keys -/
theorem Inv.provided_loc {s : Store} (h : Inv s) {x : PRec} (hx : x ∈ s.provided) : x.provider = s.loc :=
  ((h.provided_exact x).1 hx).1

theorem nodup_keys_hsRemove (P : List PRec) (p : PRec) (h : (P.map (·.key)).Nodup) :
    ((hsRemove P p).map (·.key)).Nodup :=
  h.sublist ((List.filter_sublist).map _)

theorem nodup_keys_hsInsert (P : List PRec) (p : PRec) (h : (P.map (·.key)).Nodup)
    (hloc : ∀ x ∈ P, x.provider = p.provider) : ((hsInsert P p).map (·.key)).Nodup := by
  unfold hsInsert
  split
  · exact h
  · rename_i hn
    simp only [List.any_eq_true, peq, Bool.and_eq_true, beq_iff_eq, not_exists, not_and] at hn
    simp only [List.map_cons, List.nodup_cons]
    refine ⟨?_, h⟩
    intro hm
    obtain ⟨y, hy, hk⟩ := List.mem_map.1 hm
    exact hn y hy hk (hloc y hy)

theorem Inv.addProviderTo {s : Store} (h : Inv s) (r : PRec) (l : List PRec)
    (hl : aget s.providers r.key = some l ∨
      (aget s.providers r.key = none ∧ l = [] ∧ s.cfg.maxProvidedKeys ≠ s.providers.length)) :
    Inv (addProviderTo s r l).1 := by
  have hpo : providersOf s r.key = l := by
    rcases hl with h1 | ⟨h1, h2, _⟩
    · simp [providersOf, h1]
    · simp [providersOf, h1, h2]
  have hfacts : (∀ p ∈ l, p.key = r.key) ∧ (l.map (·.provider)).Nodup ∧
      l.length ≤ s.cfg.maxProvidersPerKey := by
    rcases hl with h1 | ⟨_, h2, _⟩
    · exact h.entry h1
    · subst h2; simp
  obtain ⟨hkey, hnd, hlen⟩ := hfacts
  have hnum : l ≠ [] ∨ True → ((aget s.providers r.key).isSome ∨ s.providers.length < s.cfg.maxProvidedKeys) := by
    intro _
    rcases hl with h1 | ⟨_, _, h3⟩
    · simp [h1]
    · right; have := h.pnum; omega
  have hnum := hnum (Or.inr trivial)
  unfold C41.addProviderTo
  cases hu : updFirst l r with
  | some pr =>
    obtain ⟨old, l'⟩ := pr
    obtain ⟨hold, hop, rfl⟩ := updFirst_some l r old _ hnd hu
    have hok : old.key = r.key := hkey old hold
    simp only
    apply h.set_entry
    · intro p hp
      rcases (mem_replaceProv l r p).1 hp with ⟨rfl, _⟩ | ⟨h1, _⟩
      · rfl
      · exact hkey p h1
    · rw [providers_replaceProv]; exact hnd
    · rw [length_replaceProv]; exact hlen
    · intro _ hem
      have : (replaceProv l r).length = l.length := length_replaceProv l r
      rw [hem] at this
      cases l with
      | nil => simp at hold
      | cons a t => simp at this
    · exact hnum
    · intro x
      have e1 := h.provided_exact x
      have e2 := mem_replaceProv l r x
      have e3 := h.provided_exact old
      split
      · rename_i hloc
        rw [mem_hsInsert, mem_hsRemove]
        have hall : ∀ y ∈ hsRemove s.provided old, ¬ (y.key = r.key ∧ y.provider = r.provider) := by
          intro y hy
          rw [mem_hsRemove, hok, hop] at hy
          exact hy.2
        grind
      · rename_i hloc
        grind
    · split
      · rename_i hloc
        apply nodup_keys_hsInsert _ _ (nodup_keys_hsRemove _ _ h.provided_nodup)
        intro x hx
        rw [mem_hsRemove] at hx
        rw [h.provided_loc hx.1, hloc]
      · exact h.provided_nodup
  | none =>
    have hnone := (updFirst_none l r).1 hu
    simp only
    split
    · rename_i hfull
      apply h.set_entry _ _ _ hkey hnd hlen _ hnum _ h.provided_nodup
      · intro hp hem
        rw [hem] at hfull
        simp at hfull
        omega
      · intro x
        have e1 := h.provided_exact x
        grind
    · rename_i hfull
      apply h.set_entry
      · intro p hp
        rcases List.mem_append.1 hp with h1 | h1
        · exact hkey p h1
        · simp at h1; subst h1; rfl
      · rw [List.map_append, List.nodup_append]
        refine ⟨hnd, by simp, ?_⟩
        intro a ha b hb
        simp at hb; subst hb
        obtain ⟨y, hy, rfl⟩ := List.mem_map.1 ha
        exact hnone y hy
      · simp; omega
      · intro _; simp
      · exact hnum
      · intro x
        have e1 := h.provided_exact x
        split
        · rename_i hloc
          rw [mem_hsInsert]
          have hall : ∀ y ∈ s.provided, ¬ (y.key = r.key ∧ y.provider = r.provider) := by
            intro y hy ⟨hk, hp⟩
            have := (h.provided_exact y).1 hy
            rw [hk, hpo] at this
            exact hnone y this.2 hp
          grind
        · rename_i hloc
          grind
      · split
        · rename_i hloc
          apply nodup_keys_hsInsert _ _ h.provided_nodup
          intro x hx
          rw [h.provided_loc hx, hloc]
        · exact h.provided_nodup

theorem Inv.addProvider {s : Store} (h : Inv s) (r : PRec) : Inv (addProvider s r).1 := by
  unfold C41.addProvider
  cases hg : aget s.providers r.key with
  | some l => exact h.addProviderTo r l (Or.inl hg)
  | none =>
    simp only
    split
    · exact h
    · rename_i hne
      exact h.addProviderTo r [] (Or.inr ⟨hg, rfl, hne⟩)

theorem Inv.removeProvider {s : Store} (h : Inv s) (k p : Nat) : Inv (removeProvider s k p) := by
  unfold C41.removeProvider
  cases hg : aget s.providers k with
  | none => exact h
  | some l =>
    obtain ⟨hkey, hnd, hlen⟩ := h.entry hg
    have hpo : providersOf s k = l := by simp [providersOf, hg]
    simp only
    cases hu : rmFirst l p with
    | some pr =>
      obtain ⟨old, l'⟩ := pr
      obtain ⟨hold, hop, rfl⟩ := rmFirst_some l p old _ hnd hu
      have hok : old.key = k := hkey old hold
      simp only
      have hex : ∀ x, x ∈ (if old.provider = s.loc then hsRemove s.provided old else s.provided) ↔
          (x.provider = s.loc ∧
            x ∈ (if k = x.key then l.filter (fun x => x.provider ≠ p) else providersOf s x.key)) := by
        intro x
        have e1 := h.provided_exact x
        split
        · rw [mem_hsRemove]
          by_cases hx : k = x.key
          · simp only [hx, if_true, List.mem_filter]; grind
          · grind
        · by_cases hx : k = x.key
          · simp only [hx, if_true, List.mem_filter]; grind
          · grind
      have hpn : ((if old.provider = s.loc then hsRemove s.provided old else s.provided).map (·.key)).Nodup := by
        split
        · exact nodup_keys_hsRemove _ _ h.provided_nodup
        · exact h.provided_nodup
      split
      · rename_i hem
        apply h.del_entry _ _ _ hpn
        intro x
        rw [hex x]
        simp only [List.isEmpty_iff] at hem
        rw [hem]
      · rename_i hem
        apply h.set_entry _ _ _ _ _ _ _ _ hex hpn
        · intro q hq; exact hkey q (List.mem_filter.1 hq).1
        · exact hnd.sublist ((List.filter_sublist).map _)
        · exact Nat.le_trans (List.length_filter_le _ _) hlen
        · intro _ hnil; exact hem (by rw [hnil]; rfl)
        · simp [hg]
    | none =>
      have hnone := (rmFirst_none l p).1 hu
      simp only
      split
      · rename_i hem
        simp only [List.isEmpty_iff] at hem
        apply h.del_entry _ s.provided _ h.provided_nodup
        intro x
        have e1 := h.provided_exact x
        grind
      · rename_i hem
        apply h.set_entry _ l s.provided hkey hnd hlen _ _ _ h.provided_nodup
        · intro _ hnil; simp [hnil] at hem
        · simp [hg]
        · intro x
          have e1 := h.provided_exact x
          grind

theorem Inv.step {s : Store} (h : Inv s) (op : Op) : Inv (step s op).1 := by
  cases op with
  | get k => exact h
  | put r => exact h.put r
  | remove k => exact h.remove k
  | retain f => exact h.retain f
  | addProvider r => exact h.addProvider r
  | removeProvider k p => exact h.removeProvider k p

end C41
