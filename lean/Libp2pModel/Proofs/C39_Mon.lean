import Libp2pModel.Proofs.C39_Closed
/-!
# C39 — the trace monitor (executable Spec) accepts every step of the model
-/
namespace C39

/-- link between the monitor's history summary and the iterator's state -/
structure R (m : Mon) (s : Iter) : Prop where
  cfg : m.cfg = s.cfg
  learned : ∀ q, q ∈ m.learned ↔ (find s.closest q).isSome
  issued : ∀ q, q ∈ m.issued ↔ ∃ st, find s.closest q = some st ∧ st ≠ .notContacted
  nodup : m.issued.Nodup
  accepted : ∀ q, find s.closest q = some .succeeded → q ∈ m.accepted
  fin : m.fin = isFinished s

/-- link for the derived progress state: the monitor's sorted list of learned peers has the
iterator's keys, its derived state is the iterator's (while unfinished), and it remembers
`num_waiting` -/
structure R2 (m : Mon) (s : Iter) : Prop where
  keys : keys m.shadow = keys s.closest
  st : s.state ≠ .finished → m.st = s.state
  nw : m.nw = s.numWaiting

theorem shadowStep_fields (m : Mon) (op : Op) (out : Out) :
    (shadowStep m op out).cfg = m.cfg ∧ (shadowStep m op out).learned = m.learned ∧
    (shadowStep m op out).issued = m.issued ∧ (shadowStep m op out).accepted = m.accepted ∧
    (shadowStep m op out).fin = m.fin := by
  unfold shadowStep; split <;> simp

theorem R.congr {m m' : Mon} {s : Iter} (h : R m s) (e1 : m'.cfg = m.cfg) (e2 : m'.learned = m.learned)
    (e3 : m'.issued = m.issued) (e4 : m'.accepted = m.accepted) (e5 : m'.fin = m.fin) : R m' s :=
  ⟨e1 ▸ h.cfg, by rw [e2]; exact h.learned, by rw [e3]; exact h.issued, by rw [e3]; exact h.nodup,
    by rw [e4]; exact h.accepted, by rw [e5]; exact h.fin⟩

theorem cap_eq_capOf (s : Iter) : cap s = capOf s.cfg s.state := by
  unfold cap capOf; cases s.state <;> rfl

theorem ins_of_find {cl : List (Nat × PState)} (hs : Sorted cl) {p : Nat} {st : PState}
    (h : find cl p = some st) : ins cl p = cl := by
  induction cl with
  | nil => simp [find] at h
  | cons e t ih =>
    obtain ⟨r, s0⟩ := e
    have hs' := sorted_cons.1 hs
    by_cases h1 : p < r
    · exfalso
      have : find ((r, s0) :: t) p = none := find_none_of_lt (by
        intro e he
        rcases List.mem_cons.1 he with rfl | he
        · exact h1
        · have := hs'.1 e he; omega)
      rw [this] at h; simp at h
    · by_cases h2 : p = r
      · simp [ins, h1, h2]
      · have h3 : ¬ r = p := fun hh => h2 hh.symm
        simp only [find, h3, if_false] at h
        simp [ins, h1, h2, ih hs'.2 h]

theorem foldl_ins_eq (l : List Nat) : ∀ (cl : List (Nat × PState)) (b : Bool), Sorted cl →
    l.foldl ins cl = (l.foldl (addCloser 0) (cl, b)).1 := by
  induction l with
  | nil => intro cl b _; rfl
  | cons c t ih =>
    intro cl b hs
    simp only [List.foldl_cons]
    cases hc : find cl c with
    | some st =>
      have : addCloser 0 (cl, b) c = (cl, b) := by simp [addCloser, hc]
      rw [this, ins_of_find hs hc]
      exact ih cl b hs
    | none =>
      have : addCloser 0 (cl, b) c = (ins cl c, decide (c < 0) || b) := by simp [addCloser, hc]
      rw [this]
      exact ih _ _ (sorted_ins hs c)

theorem find_init (cfg : Cfg) (k : Nat) (known : List Nat) (q : Nat) :
    find (init cfg k known).closest q = if q ∈ known.take k then some .notContacted else none := by
  simp only [C39.init]
  rw [foldl_ins_eq _ [] false sorted_nil]
  have := (addCloser_foldl 0 (known.take k) [] false sorted_nil).2.2.2.2.2 q
  rw [this]
  simp [find]

theorem R.init (cfg : Cfg) (k n : Nat) (known : List Nat) : R (monInit cfg k n known) (init cfg k known) := by
  refine ⟨rfl, ?_, ?_, ?_, ?_, rfl⟩
  · intro q
    rw [find_init]
    simp only [monInit]
    split <;> simp_all
  · intro q
    rw [find_init]
    simp only [monInit]
    split <;> simp
  · simp [monInit]
  · intro q hq
    rw [find_init] at hq
    split at hq <;> simp at hq

/-! ## the clauses checked after every call -/

theorem monCommon_ok {m : Mon} {s : Iter} (h : Inv s) (hr : R m s) : monCommon m (observe s) = none := by
  have hres := result_props h.sorted
  have c1 : ¬ (observe s).nw ≠ (observe s).waiting.length := by
    simp [observe, length_waitingList, h.nw_eq]
  have c2 : ¬ (observe s).nw > max m.cfg.numResults m.cfg.parallelism := by
    rw [hr.cfg]; have := h.nw_le; simp only [observe]; omega
  have c3 : ((observe s).waiting.all (fun p => m.issued.contains p)) = true := by
    simp only [observe, List.all_eq_true, List.contains_iff_mem]
    intro p hp
    obtain ⟨st, hf, hw⟩ := (mem_waitingList h.sorted p).1 hp
    exact (hr.issued p).2 ⟨st, hf, by intro hc; subst hc; simp [isWaiting] at hw⟩
  have c4 : (sortedAsc (observe s).result && decide ((observe s).result.length ≤ m.cfg.numResults)
      && (observe s).result.all (fun p => m.accepted.contains p)) = true := by
    simp only [observe, Bool.and_eq_true, decide_eq_true_eq, List.all_eq_true, List.contains_iff_mem]
    refine ⟨⟨(sortedAsc_iff _).2 hres.1, decide_eq_true (by rw [hr.cfg]; exact hres.2.1)⟩, ?_⟩
    intro p hp
    exact hr.accepted p (hres.2.2 p hp)
  have c5 : ¬ (observe s).fin ≠ m.fin := by simp [observe, hr.fin]
  simp only [monCommon, c1, c2, c3, c4, c5, if_false, Bool.not_true, Bool.false_eq_true]

theorem monStep_of_core {m m' : Mon} {op : Op} {out : Out} {s' : Iter}
    (hc : monCore m op out (observe s') = (m', none)) (h' : Inv s') (hr' : R m' s') :
    (monStep m op out (observe s')).2 = none ∧ R (monStep m op out (observe s')).1 s' := by
  simp only [monStep, hc, monCommon_ok h' hr']
  obtain ⟨e1, e2, e3, e4, e5⟩ := shadowStep_fields m' op out
  exact ⟨trivial, hr'.congr e1 e2 e3 e4 e5⟩

/-! ## `next` -/

theorem next_out_state {s : Iter} (h : Inv s) (hf : s.state ≠ .finished) (now : Nat) :
    ((next s now).2 = .finished ∧ (next s now).1.state = .finished) ∨
    ((next s now).2 ≠ .finished ∧ (next s now).1.state = s.state) := by
  simp only [next, hf, if_false]
  split
  · rename_i o hr
    right
    rcases nextLoop_ret _ _ _ _ _ _ o hr with ⟨ho, _⟩ | ⟨p, ho, _⟩ <;> simp [ho]
  · left; simp
  · right; simp
  · split
    · right; simp
    · left; simp

theorem next_out_res {s : Iter} (hf : s.state ≠ .finished) (now : Nat) (q : Nat) :
    (nextLoop s.cfg now (atCapacity s) s.closest s.numWaiting (some 0)).2.2 = .ret (.waiting (some q)) ↔
    (next s now).2 = .waiting (some q) := by
  simp only [next, hf, if_false]
  split
  · rename_i o hr; simp [hr]
  · rename_i hr; simp [hr]
  · rename_i hr; simp [hr]
  · rename_i hr; split <;> simp [hr]

theorem next_waiting_none_pos {s : Iter} (hf : s.state ≠ .finished) (now : Nat)
    (h : (next s now).2 = .waiting none) : (next s now).1.numWaiting ≠ 0 := by
  simp only [next, hf, if_false] at h ⊢
  split at h
  · rename_i o hr
    rcases nextLoop_ret _ _ _ _ _ _ o hr with ⟨ho, _⟩ | ⟨p, ho, _⟩ <;> simp [ho] at h
  · simp at h
  · simp at h
  · split at h
    · rename_i hp; simp only [hp, if_true]; omega
    · simp at h

/-- preservation of the link through `next`, given which peers were issued -/
theorem R.next {m : Mon} {s : Iter} (h : Inv s) (hr : R m s) (hf : s.state ≠ .finished) (now : Nat)
    (issuedNew : List Nat)
    (hiss : ∀ q, q ∈ issuedNew ↔ (next s now).2 = .waiting (some q))
    (hnd : issuedNew.Nodup) (fin' : Bool) (hfin : fin' = isFinished (next s now).1) :
    R { m with issued := issuedNew ++ m.issued, fin := fin' } (next s now).1 := by
  obtain ⟨h1, h2, h3, _⟩ := next_fields hf now
  have hk := nextLoop_keys s.cfg now (atCapacity s) s.closest s.numWaiting (some 0)
  have hrel := nextLoop_rel s.cfg now (atCapacity s) s.closest s.numWaiting (some 0)
  refine ⟨by rw [h3]; exact hr.cfg, ?_, ?_, ?_, ?_, hfin⟩
  · intro q
    show q ∈ m.learned ↔ _
    rw [hr.learned q, find_isSome_iff, find_isSome_iff, h1, hk]
  · intro q
    show q ∈ issuedNew ++ m.issued ↔ _
    rw [List.mem_append, hiss q, hr.issued q, h1]
    constructor
    · rintro (hq | ⟨st, hst, hne⟩)
      · have hres := (next_out_res hf now q).2 hq
        have := (nextLoop_issue_mem _ _ _ _ _ _ q hres).2
        have hs' : Sorted (nextLoop s.cfg now (atCapacity s) s.closest s.numWaiting (some 0)).1 := by
          unfold Sorted; rw [hk]; exact h.sorted
        exact ⟨_, find_of_mem hs' this, by simp⟩
      · obtain ⟨st', hst', hrel'⟩ := all2_find_bwd hrel q st hst
        refine ⟨st', hst', ?_⟩
        rcases hrel' with rfl | ⟨to, _, _, rfl⟩ | ⟨hnc, _, _⟩
        · exact hne
        · simp
        · exact absurd hnc hne
    · rintro ⟨st', hst', hne'⟩
      obtain ⟨st, hst, hrel'⟩ := all2_find_fwd hrel q st' hst'
      rcases hrel' with rfl | ⟨to, hw, _, _⟩ | ⟨_, _, hres⟩
      · exact Or.inr ⟨st', hst, hne'⟩
      · exact Or.inr ⟨st, hst, by rw [hw]; simp⟩
      · exact Or.inl ((next_out_res hf now q).1 hres)
  · show (issuedNew ++ m.issued).Nodup
    rw [List.nodup_append]
    refine ⟨hnd, hr.nodup, ?_⟩
    intro a ha b hb hab
    subst hab
    have hres := (next_out_res hf now a).2 ((hiss a).1 ha)
    have hmem := (nextLoop_issue_mem _ _ _ _ _ _ a hres).1
    obtain ⟨st, hst, hne⟩ := (hr.issued a).1 hb
    rw [find_of_mem h.sorted hmem] at hst
    simp at hst; exact hne hst.symm
  · intro q hq
    show q ∈ m.accepted
    rw [h1] at hq
    obtain ⟨st, hst, hrel'⟩ := all2_find_fwd hrel q _ hq
    rcases hrel' with hh | ⟨to, _, _, hh⟩ | ⟨_, hh, _⟩
    · exact hr.accepted q (hh ▸ hst)
    · simp at hh
    · simp at hh

theorem next_out_kind {s : Iter} (h : Inv s) (now : Nat) :
    (∃ p, (next s now).2 = .waiting p) ∨ (next s now).2 = .atCapacity ∨ (next s now).2 = .finished := by
  by_cases hf : s.state = .finished
  · rw [next_finished hf]; simp
  · have hn := nextLoop_nw s.cfg now (atCapacity s) s.closest s.numWaiting (some 0) 0 (by simpa using h.nw_eq)
    simp only [next, hf, if_false]
    split
    · rename_i o hr
      rcases nextLoop_ret _ _ _ _ _ _ o hr with ⟨ho, _⟩ | ⟨p, ho, _⟩ <;> simp [ho]
    · simp
    · rename_i hr; exact absurd hr hn.1
    · split <;> simp

theorem or_not_intro {A B : Bool} (h : A = true → B = true) : (!A || B) = true := by
  cases A <;> simp_all

theorem isFinished_false {s : Iter} (hf : s.state ≠ .finished) : isFinished s = false := by
  simp [isFinished, hf]

theorem mon_next {m : Mon} {s : Iter} (h : Inv s) (hr : R m s) (hr2 : R2 m s) (now : Nat) :
    (monStep m (.next now) (next s now).2 (observe (next s now).1)).2 = none ∧
    R (monStep m (.next now) (next s now).2 (observe (next s now).1)).1 (next s now).1 := by
  have h' : Inv (next s now).1 := h.next now
  by_cases hf : s.state = .finished
  · have hm : m.fin = true := by rw [hr.fin]; simp [isFinished, hf]
    rw [next_finished hf] at h' ⊢
    apply monStep_of_core (m' := { m with fin := true }) _ h'
    · exact ⟨hr.cfg, hr.learned, hr.issued, hr.nodup, hr.accepted, by simp [isFinished, hf]⟩
    · simp [monCore, hm]
  · have hm : m.fin = false := by rw [hr.fin]; exact isFinished_false hf
    have hos := next_out_state h hf now
    rcases next_out_kind h now with ⟨p, hout⟩ | hout | hout
    · -- Waiting(..)
      have hst : (next s now).1.state = s.state := by
        rcases hos with ⟨h1, _⟩ | ⟨_, h2⟩
        · rw [hout] at h1; simp at h1
        · exact h2
      have hfin' : m.fin = isFinished (next s now).1 := by
        rw [hm, isFinished_false (by rw [hst]; exact hf)]
      cases p with
      | none =>
        have hR := R.next h hr hf now [] (by intro q; simp [hout]) List.nodup_nil m.fin hfin'
        rw [hout]
        apply monStep_of_core (m' := m) _ h' (by simpa using hR)
        have := next_waiting_none_pos hf now hout
        simp [monCore, hm, observe, this]
      | some p =>
        have hR := R.next h hr hf now [p] (by intro q; simp [hout]; exact eq_comm) (by simp) m.fin hfin'
        have hres := (next_out_res hf now p).2 hout
        have hmem := nextLoop_issue_mem _ _ _ _ _ _ p hres
        have hnot : p ∉ m.issued := by
          intro hp
          obtain ⟨st, hst', hne⟩ := (hr.issued p).1 hp
          rw [find_of_mem h.sorted hmem.1] at hst'
          simp at hst'; exact hne hst'.symm
        have hlearned : p ∈ m.learned := by
          rw [hr.learned p, find_of_mem h.sorted hmem.1]; rfl
        have hwait : p ∈ waitingList (next s now).1 := by
          rw [mem_waitingList h'.sorted]
          obtain ⟨h1, _⟩ := next_fields hf now
          refine ⟨PState.waiting (now + s.cfg.peerTimeout), ?_, rfl⟩
          rw [h1]; exact find_of_mem (by have := h'.sorted; rwa [h1] at this) hmem.2
        have hcap : m.nw < capOf m.cfg m.st := by
          have hcf : atCapacity s = false := by
            rcases nextLoop_ret _ _ _ _ _ _ _ hres with ⟨ho, _⟩ | ⟨_, _, hcap⟩
            · simp at ho
            · exact hcap
          have := atCapacity_false hf hcf
          rw [cap_eq_capOf] at this
          rw [hr2.nw, hr.cfg, hr2.st hf]; exact this
        rw [hout]
        apply monStep_of_core (m' := { m with issued := p :: m.issued }) _ h' (by simpa using hR)
        simp [monCore, hm, hnot, hlearned, observe, hwait, hcap]
    · -- WaitingAtCapacity
      have hst : (next s now).1.state = s.state := by
        rcases hos with ⟨h1, _⟩ | ⟨_, h2⟩
        · rw [hout] at h1; simp at h1
        · exact h2
      have hfin' : m.fin = isFinished (next s now).1 := by
        rw [hm, isFinished_false (by rw [hst]; exact hf)]
      have hR := R.next h hr hf now [] (by intro q; simp [hout]) List.nodup_nil m.fin hfin'
      rw [hout]
      apply monStep_of_core (m' := m) _ h' (by simpa using hR)
      simp [monCore, hm]
    · -- Finished, by itself
      have hst : (next s now).1.state = .finished := by
        rcases hos with ⟨_, h2⟩ | ⟨h1, _⟩
        · exact h2
        · exact absurd hout h1
      have hR := R.next h hr hf now [] (by intro q; simp [hout]) List.nodup_nil true
        (by simp [isFinished, hst])
      have hclosed : closedOk m (observe (next s now).1) = true := by
        simp only [closedOk, List.all_eq_true]
        intro q hq
        -- q is known to the iterator, before and after
        have hq' : (find (next s now).1.closest q).isSome := by
          have := (hR.learned q).1 (by simpa using hq)
          exact this
        obtain ⟨st', hst'⟩ := Option.isSome_iff_exists.1 hq'
        apply or_not_intro
        intro hrelv
        · have hrel : (result (next s now).1).length < s.cfg.numResults ∨
              ∃ f, (result (next s now).1).getLast? = some f ∧ q < f := by
            simp only [observe, hr.cfg] at hrelv
            by_cases hlt : (result (next s now).1).length < s.cfg.numResults
            · exact Or.inl hlt
            · simp only [hlt, if_false] at hrelv
              cases hg : (result (next s now).1).getLast? with
              | none =>
                have : result (next s now).1 = [] := List.getLast?_eq_none_iff.1 hg
                rw [this] at hlt
                exact absurd h.cfg_ok.nr_pos (by simpa using hlt)
              | some f =>
                rw [hg] at hrelv
                exact Or.inr ⟨f, rfl, by simpa using hrelv⟩
          obtain ⟨hnc, hnw⟩ := finished_closed h hf now hout q st' hst' hrel
          have hiss : q ∈ m.issued := by
            have := (hR.issued q).2 ⟨st', hst', hnc⟩
            simpa using this
          have hnotw : q ∉ waitingList (next s now).1 := by
            intro hw
            obtain ⟨st2, hst2, hw2⟩ := (mem_waitingList h'.sorted q).1 hw
            rw [hst'] at hst2
            simp at hst2; subst hst2
            rw [hnw] at hw2; simp at hw2
          simp [hiss, observe, hnotw]
      rw [hout]
      apply monStep_of_core (m' := { m with fin := true }) _ h' (by simpa using hR)
      simp [monCore, hm, hclosed]

/-! ## `on_success` / `on_failure` / `finish` -/

theorem nextState_ne_finished (cfg : Cfg) {st : IState} (h : st ≠ .finished) (b : Bool) :
    nextState cfg st b ≠ .finished := by
  cases st with
  | iterating np => simp only [nextState]; (repeat' split) <;> simp
  | stalled => simp only [nextState]; (repeat' split) <;> simp
  | finished => exact absurd rfl h

theorem onSuccess_cases {s : Iter} (h : Inv s) (p : Nat) (closer : List Nat) :
    onSuccess s p closer = (s, .bool false) ∨
    (s.state ≠ .finished ∧ ∃ s0 nw, find s.closest p = some s0 ∧ s0 ≠ .notContacted ∧
      onSuccess s p closer = succeed s p closer nw) := by
  unfold C39.onSuccess
  by_cases hfin : s.state = .finished
  · simp [hfin]
  · simp only [hfin, if_false]
    cases hf : find s.closest p with
    | none => simp
    | some st =>
      cases st with
      | waiting to =>
        have hpos := find_waiting_count hf
        have hne : s.numWaiting ≠ 0 := by rw [h.nw_eq]; omega
        simp only [hne, if_false]
        exact Or.inr ⟨hfin, _, _, rfl, by simp, rfl⟩
      | unresponsive => exact Or.inr ⟨hfin, _, _, rfl, by simp, rfl⟩
      | notContacted => simp
      | failed => simp
      | succeeded => simp

theorem R.succeed {m : Mon} {s : Iter} (h : Inv s) (hr : R m s) (hfin : s.state ≠ .finished)
    {p : Nat} {s0 : PState} (hf : find s.closest p = some s0) (hne : s0 ≠ .notContacted)
    (closer : List Nat) (nw : Nat) :
    R { m with accepted := p :: m.accepted, learned := m.learned ++ closer } (C39.succeed s p closer nw).1 := by
  obtain ⟨_, h2, _, h4⟩ := succeed_fields s p closer nw
  have hs := sorted_setSt h.sorted p .succeeded
  have hfind := (addCloser_foldl
    (curRange (setSt s.closest p .succeeded) s.cfg.numResults p) closer
    (setSt s.closest p .succeeded)
    (decide ((setSt s.closest p .succeeded).length < s.cfg.numResults)) hs).2.2.2.2.2
  have hfs : ∀ q, find (setSt s.closest p .succeeded) q = if q = p then some .succeeded else find s.closest q := by
    intro q; rw [find_setSt]; split
    · simp [hf]
    · rfl
  have hfin' : isFinished (C39.succeed s p closer nw).1 = false := by
    simp only [C39.succeed, isFinished]
    exact decide_eq_false (nextState_ne_finished _ hfin _)
  have hm : m.fin = false := by rw [hr.fin]; exact isFinished_false hfin
  refine ⟨by rw [h2]; exact hr.cfg, ?_, ?_, hr.nodup, ?_, by rw [hfin']; exact hm⟩
  · intro q
    show q ∈ m.learned ++ closer ↔ _
    rw [h4, hfind q, hfs q, List.mem_append, hr.learned q]
    by_cases hq : q = p
    · subst hq; simp [hf]
    · simp only [hq, if_false]
      cases hfq : find s.closest q <;> simp
  · intro q
    show q ∈ m.issued ↔ _
    rw [h4, hfind q, hfs q, hr.issued q]
    by_cases hq : q = p
    · subst hq; simp [hf, hne]
    · simp only [hq, if_false]
      cases hfq : find s.closest q with
      | some st => simp
      | none => simp <;> (intro _ hh; split at hh <;> simp_all)
  · intro q hq
    show q ∈ p :: m.accepted
    rw [h4, hfind q, hfs q] at hq
    by_cases hqp : q = p
    · subst hqp; exact List.mem_cons_self
    · simp only [hqp, if_false] at hq
      refine List.mem_cons_of_mem _ (hr.accepted q ?_)
      cases hfq : find s.closest q with
      | some st => simpa [hfq] using hq
      | none => rw [hfq] at hq; simp at hq <;> (split at hq <;> simp at hq)

theorem mon_success {m : Mon} {s : Iter} (h : Inv s) (hr : R m s) (p : Nat) (closer : List Nat) :
    (monStep m (.success p closer) (onSuccess s p closer).2 (observe (onSuccess s p closer).1)).2 = none ∧
    R (monStep m (.success p closer) (onSuccess s p closer).2 (observe (onSuccess s p closer).1)).1
      (onSuccess s p closer).1 := by
  have h' := (h.onSuccess p closer).1
  rcases onSuccess_cases h p closer with heq | ⟨hfin, s0, nw, hf, hne, heq⟩
  · rw [heq] at h' ⊢
    exact monStep_of_core (m' := m) (by simp [monCore]) h' hr
  · rw [heq] at h' ⊢
    have hm : m.fin = false := by rw [hr.fin]; exact isFinished_false hfin
    have hiss : p ∈ m.issued := (hr.issued p).2 ⟨s0, hf, hne⟩
    apply monStep_of_core
      (m' := { m with accepted := p :: m.accepted, learned := m.learned ++ closer }) _ h'
      (R.succeed h hr hfin hf hne closer nw)
    rw [(succeed_fields s p closer nw).1]
    simp [monCore, hm, hiss]

theorem onFailure_cases {s : Iter} (h : Inv s) (p : Nat) :
    onFailure s p = (s, .bool false) ∨
    (s.state ≠ .finished ∧ ∃ s0 nw, find s.closest p = some s0 ∧ s0 ≠ .notContacted ∧
      onFailure s p = ({ s with closest := setSt s.closest p .failed, numWaiting := nw }, .bool true)) := by
  unfold C39.onFailure
  by_cases hfin : s.state = .finished
  · simp [hfin]
  · simp only [hfin, if_false]
    cases hf : find s.closest p with
    | none => simp
    | some st =>
      cases st with
      | waiting to =>
        have hpos := find_waiting_count hf
        have hne : s.numWaiting ≠ 0 := by rw [h.nw_eq]; omega
        simp only [hne, if_false]
        exact Or.inr ⟨hfin, _, _, rfl, by simp, rfl⟩
      | unresponsive => exact Or.inr ⟨hfin, _, s.numWaiting, rfl, by simp, rfl⟩
      | notContacted => simp
      | failed => simp
      | succeeded => simp

theorem mon_failure {m : Mon} {s : Iter} (h : Inv s) (hr : R m s) (p : Nat) :
    (monStep m (.failure p) (onFailure s p).2 (observe (onFailure s p).1)).2 = none ∧
    R (monStep m (.failure p) (onFailure s p).2 (observe (onFailure s p).1)).1 (onFailure s p).1 := by
  have h' := (h.onFailure p).1
  rcases onFailure_cases h p with heq | ⟨hfin, s0, nw, hf, hne, heq⟩
  · rw [heq] at h' ⊢
    exact monStep_of_core (m' := m) (by simp [monCore]) h' hr
  · rw [heq] at h' ⊢
    have hm : m.fin = false := by rw [hr.fin]; exact isFinished_false hfin
    have hiss : p ∈ m.issued := (hr.issued p).2 ⟨s0, hf, hne⟩
    have hfs : ∀ q, find (setSt s.closest p .failed) q = if q = p then some .failed else find s.closest q := by
      intro q; rw [find_setSt]; split
      · simp [hf]
      · rfl
    apply monStep_of_core (m' := m) _ h'
    · refine ⟨hr.cfg, ?_, ?_, hr.nodup, ?_, ?_⟩
      · intro q
        show q ∈ m.learned ↔ (find (setSt s.closest p .failed) q).isSome
        rw [hfs q, hr.learned q]
        by_cases hq : q = p
        · subst hq; simp [hf]
        · simp [hq]
      · intro q
        show q ∈ m.issued ↔ ∃ st, find (setSt s.closest p .failed) q = some st ∧ st ≠ .notContacted
        rw [hfs q, hr.issued q]
        by_cases hq : q = p
        · subst hq; simp [hf, hne]
        · simp [hq]
      · intro q hq
        change find (setSt s.closest p .failed) q = some .succeeded at hq
        rw [hfs q] at hq
        by_cases hqp : q = p
        · simp [hqp] at hq
        · simp only [hqp, if_false] at hq; exact hr.accepted q hq
      · rw [hm]; exact (isFinished_false hfin).symm
    · simp [monCore, hm, hiss]

/-- **Spec ⊇ model**: the monitor accepts every step of the model and stays linked to it -/
theorem mon_step_ok {m : Mon} {s : Iter} (h : Inv s) (hr : R m s) (hr2 : R2 m s) (op : Op) :
    (monStep m op (step s op).2 (observe (step s op).1)).2 = none ∧
    R (monStep m op (step s op).2 (observe (step s op).1)).1 (step s op).1 := by
  cases op with
  | next now => exact mon_next h hr hr2 now
  | success p closer => exact mon_success h hr p closer
  | failure p => exact mon_failure h hr p
  | finish =>
    have h' : Inv (finish s) := ⟨h.cfg_ok, h.sorted, h.nw_eq, h.nw_le⟩
    simp only [step]
    apply monStep_of_core (m' := { m with fin := true }) _ h'
    · exact ⟨hr.cfg, hr.learned, hr.issued, hr.nodup, hr.accepted, by simp [isFinished, finish]⟩
    · simp [monCore]

end C39
