import Libp2pModel.Proofs.C29BeliefSimple
/-!
# C29 — belief invariant, part 3: the ops centred on one peer
(`handle_prune`, `handle_graft`, `handle_received_subscriptions`): the mesh changes one membership at a
time and each change is followed by its notification call.
-/
namespace C29
open C28

/-! ## `remove_peer_from_mesh` -/

/-- the shape of the result -/
theorem rpm_eq (s : State) (now p t : Nat) (b : Option Nat) (al : Bool) :
    (inMesh s t p = true ∧ ∃ secs, (removePeerFromMesh s now p t b al).1 =
        updateBackoff (notify { s with mesh := setF s.mesh t ((s.mesh t).map (fun m => del m p)) }
          (peerRemoved { s with mesh := setF s.mesh t ((s.mesh t).map (fun m => del m p)) } p t)) now t p secs)
    ∨ (inMesh s t p = false ∧ ((removePeerFromMesh s now p t b al).1 = s ∨
        ∃ secs, (removePeerFromMesh s now p t b al).1 = updateBackoff s now t p secs)) := by
  simp only [removePeerFromMesh]
  by_cases hr : inMesh s t p = true
  · left
    simp only [hr, ↓reduceIte, Bool.or_true, true_and]
    exact ⟨_, rfl⟩
  · right
    have hr' : inMesh s t p = false := by simpa using hr
    simp only [hr', Bool.false_eq_true, ↓reduceIte, Bool.or_false, true_and]
    split
    · exact Or.inr ⟨_, rfl⟩
    · exact Or.inl rfl

theorem inMesh_del_self (s : State) (t p : Nat) :
    inMesh { s with mesh := setF s.mesh t ((s.mesh t).map (fun m => del m p)) } t p = false := by
  rw [inMesh_setF]
  simp only [if_true]
  cases s.mesh t with
  | none => rfl
  | some m => simp [mem_del]

theorem inMesh_del_sub (s : State) (t p t' q : Nat)
    (h : inMesh { s with mesh := setF s.mesh t ((s.mesh t).map (fun m => del m p)) } t' q = true) :
    inMesh s t' q = true := by
  rw [inMesh_setF] at h
  split at h
  · rename_i ht; subst ht
    unfold inMesh
    cases hm : s.mesh t' with
    | none => simp [hm] at h
    | some m =>
      simp only [hm, Option.map_some, List.contains_eq_mem, decide_eq_true_eq] at h ⊢
      exact (mem_del.1 h).1
  · exact h

theorem relP_rpm (s : State) (now p t : Nat) (b : Option Nat) (al : Bool) :
    RelP p s (removePeerFromMesh s now p t b al).1 := by
  rcases rpm_eq s now p t b al with ⟨_, secs, h⟩ | ⟨_, h | ⟨secs, h⟩⟩
  · rw [h]
    exact ((relP_meshDel s p t).trans (relP_notify_removed _ p t)).trans (relP_updateBackoff p _ now t p secs)
  · rw [h]; exact RelP.refl p s
  · rw [h]; exact relP_updateBackoff p s now t p secs

theorem HBp_updateBackoff {s : State} {q : Nat} (h : HBp s q) (now t p secs : Nat) :
    HBp (updateBackoff s now t p secs) q :=
  HBp_frame h rfl (fun _ => rfl) (fun _ => rfl)

/-- the removed peer's own handler stays right -/
theorem HBp_rpm (s : State) (now p t : Nat) (b : Option Nat) (al : Bool) (hm : MeshOK s) (h : HBp s p) :
    HBp (removePeerFromMesh s now p t b al).1 p := by
  rcases rpm_eq s now p t b al with ⟨_, secs, he⟩ | ⟨_, he | ⟨secs, he⟩⟩
  · rw [he]
    apply HBp_updateBackoff
    apply HBp_removed
    · intro t' hin
      have := topics_of_inMesh (s := s) hm (inMesh_del_sub s t p t' p hin)
      exact this
    · exact inMesh_del_self s t p
    · rintro ⟨t', hin⟩
      exact h.2 ⟨t', inMesh_del_sub s t p t' p hin⟩
  · rw [he]; exact h
  · rw [he]; exact HBp_updateBackoff h now t p secs

/-! ## PRUNE received -/

theorem pruneLoop_spec (now p : Nat) : ∀ (l : List (Nat × Option Nat)) (s : State) (ns : List Notif),
    Inv s → HBp s p → RelP p s (pruneLoop now p l s ns).1 ∧ HBp (pruneLoop now p l s ns).1 p := by
  intro l
  induction l with
  | nil => intro s ns _ h; exact ⟨RelP.refl p s, h⟩
  | cons e es ih =>
    intro s ns hinv h
    obtain ⟨t, b⟩ := e
    simp only [pruneLoop]
    obtain ⟨r1, r2⟩ := ih _ (ns ++ (removePeerFromMesh s now p t b true).2)
      (inv_removePeerFromMesh s now p t b true hinv) (HBp_rpm s now p t b true hinv.mesh h)
    exact ⟨(relP_rpm s now p t b true).trans r1, r2⟩

/-- assemble the invariant of an op centred on `p` -/
theorem binv_of_relP {s s' : State} {p : Nat} (h : BInv s) (hinv : Inv s') (hr : RelP p s s') (hp : HBp s' p) :
    BInv s' := by
  refine ⟨hinv, h.tail.rel hr.1, fun q => ?_⟩
  by_cases hq : q = p
  · subst hq; exact hp
  · exact HBp_relP (h.hb q) hr hq

theorem binv_recvPrune (s : State) (now p : Nat) (l : List (Nat × Option Nat)) (h : BInv s) :
    BInv (recvPrune s now p l).1 := by
  have hinv := inv_recvPrune s now p l h.inv
  simp only [recvPrune] at hinv ⊢
  obtain ⟨r1, r2⟩ := pruneLoop_spec now p l s [] h.inv (h.hb p)
  exact binv_of_relP h hinv r1 r2

/-! ## GRAFT received -/

theorem graftTopic_eq (s : State) (now : Nat) (bz : Bool) (p t : Nat) :
    (graftTopic s now bz p t).1 = s
    ∨ ∃ m, s.mesh t = some m ∧ m.contains p = false ∧ (graftTopic s now bz p t).1 =
        notify { s with mesh := setF s.mesh t (some (m ++ [p])) }
          (peerAdded { s with mesh := setF s.mesh t (some (m ++ [p])) } p [t]) := by
  unfold graftTopic
  cases hm : s.mesh t with
  | none => exact Or.inl rfl
  | some m =>
    simp only
    split
    · exact Or.inl rfl
    · rename_i hc
      split
      · exact Or.inl rfl
      · split
        · exact Or.inl rfl
        · split
          · exact Or.inl rfl
          · exact Or.inr ⟨m, rfl, by simpa using hc, rfl⟩

theorem relP_graftTopic (s : State) (now : Nat) (bz : Bool) (p t : Nat) : RelP p s (graftTopic s now bz p t).1 := by
  rcases graftTopic_eq s now bz p t with h | ⟨m, hm, _, h⟩
  · rw [h]; exact RelP.refl p s
  · rw [h]; exact (relP_meshAdd s p t m hm).trans (relP_notify_added _ p [t])

theorem HBp_graftTopic (s : State) (now : Nat) (bz : Bool) (p t : Nat) (hhead : headOf s p ≠ none) (h : HBp s p) :
    HBp (graftTopic s now bz p t).1 p := by
  rcases graftTopic_eq s now bz p t with he | ⟨m, hm, hnc, he⟩
  · rw [he]; exact h
  · rw [he]
    have hin : inMesh { s with mesh := setF s.mesh t (some (m ++ [p])) } t p = true := by
      rw [inMesh_setF]; simp
    unfold HBp
    rw [inM_notify]
    refine ⟨fun _ => ⟨t, hin⟩, fun _ => ?_⟩
    refine headB_added _ p [t] ?_ ?_
    · exact hhead
    intro pd t' _ _ hnt hin'
    have htt : t' ≠ t := by simpa using hnt
    rw [inMesh_setF, if_neg htt] at hin'
    exact h.2 ⟨t', hin'⟩

theorem graftLoop_belief (now : Nat) (bz : Bool) (p : Nat) : ∀ (l : List Nat) (s : State) (pr : List Nat) (ns : List Notif),
    headOf s p ≠ none → HBp s p →
    RelP p s (graftLoop now bz p l s pr ns).1 ∧ HBp (graftLoop now bz p l s pr ns).1 p := by
  intro l
  induction l with
  | nil => intro s pr ns _ h; exact ⟨RelP.refl p s, h⟩
  | cons t ts ih =>
    intro s pr ns hhead h
    simp only [graftLoop]
    have r0 := relP_graftTopic s now bz p t
    have hhead' : headOf (graftTopic s now bz p t).1 p ≠ none := by
      rw [headOf_congr (r0.1.1 p)]; exact hhead
    obtain ⟨r1, r2⟩ := ih _ (insAll pr (graftTopic s now bz p t).2.1) (ns ++ (graftTopic s now bz p t).2.2)
      hhead' (HBp_graftTopic s now bz p t hhead h)
    exact ⟨r0.trans r1, r2⟩

theorem relP_pruneAll (p' now p secs : Nat) : ∀ (l : List Nat) (s : State), RelP p' s (pruneAll now p secs l s) := by
  intro l
  induction l with
  | nil => intro s; exact RelP.refl p' s
  | cons t ts ih =>
    intro s
    simp only [pruneAll]
    exact (relP_updateBackoff p' s now t p secs).trans (ih _)

theorem HBp_pruneAll {q : Nat} (now p secs : Nat) : ∀ (l : List Nat) (s : State), HBp s q → HBp (pruneAll now p secs l s) q := by
  intro l
  induction l with
  | nil => intro s h; exact h
  | cons t ts ih =>
    intro s h
    simp only [pruneAll]
    exact ih _ (HBp_updateBackoff h now t p secs)

theorem HBp_setTopics {s : State} {q : Nat} (h : HBp s q) (p : Nat) (f : List Nat → List Nat) :
    HBp (setTopics s p f) q :=
  HBp_frame h (connsOf_setTopics s p f q) (fun c => by rw [setTopics_belief]) (fun t => inMesh_setTopics s p f t q)

theorem binv_recvGraft (s : State) (now : Nat) (sc : Nat → Int) (p : Nat) (ts : List Nat) (h : BInv s) :
    BInv (recvGraftG fixed s now sc p ts).1 := by
  have hinv := inv_recvGraft s now sc p ts h.inv
  unfold recvGraftG at hinv ⊢
  cases hp : s.peers p with
  | none => exact h
  | some pd =>
    simp only [hp, fixed, Bool.true_and] at hinv ⊢
    split
    · exact h
    · rename_i hg
      rw [if_neg hg] at hinv
      have r0 := relP_setTopics p s p (fun cur => insAll cur ts)
      have h0 : HBp (setTopics s p (fun cur => insAll cur ts)) p := HBp_setTopics (h.hb p) p _
      split
      · rename_i hex
        rw [if_pos hex] at hinv
        exact binv_of_relP h hinv r0 h0
      · rename_i hex
        rw [if_neg hex] at hinv
        have hhead : headOf (setTopics s p (fun cur => insAll cur ts)) p ≠ none := by
          rw [headOf_congr (r0.1.1 p)]
          exact headOf_ne_none_of_connected h.tail hp
        obtain ⟨r1, r2⟩ := graftLoop_belief now (decide (sc p < 0)) p ts _ [] [] hhead h0
        exact binv_of_relP h hinv ((r0.trans r1).trans (relP_pruneAll p now p s.cfg.pruneBackoff _ _))
          (HBp_pruneAll now p s.cfg.pruneBackoff _ _ r2)

end C29
