import Libp2pModel.Proofs.C33Time
/-!
# C33 — `MessageCache`: the joint invariant between the cache and the window monitor
-/
namespace C33

/-- slot `j` of the history (`[]` out of range) -/
abbrev hslot (h : List (List (Nat × Nat))) (j : Nat) : List (Nat × Nat) := h.getD j []

theorem dropEntries_msgs (l : List (Nat × Nat)) (st : (Nat → Option Msg) × (Nat → Nat → Nat)) (id : Nat) :
    (dropEntries l st).1 id = if id ∈ l.map Prod.fst then none else st.1 id := by
  induction l generalizing st with
  | nil => simp [dropEntries]
  | cons e es ih =>
    simp only [dropEntries, List.map_cons, List.mem_cons]
    rw [ih]
    by_cases h1 : id ∈ es.map Prod.fst
    · simp [h1]
    · by_cases h2 : id = e.1
      · simp [h2, setOpt]
      · simp [h1, h2, setOpt]

theorem dropEntries_iwant (l : List (Nat × Nat)) (st : (Nat → Option Msg) × (Nat → Nat → Nat)) (id p : Nat) :
    (dropEntries l st).2 id p = if id ∈ l.map Prod.fst then 0 else st.2 id p := by
  induction l generalizing st with
  | nil => simp [dropEntries]
  | cons e es ih =>
    simp only [dropEntries, List.map_cons, List.mem_cons]
    rw [ih]
    by_cases h1 : id ∈ es.map Prod.fst
    · simp [h1]
    · by_cases h2 : id = e.1
      · simp [h2, clearCounts]
      · simp [h1, h2, clearCounts]

/-- the relation between the cache and the monitor (`Rec.age` = shifts since the put that stored
the message, `Rec.reqs` = successful IWANT requests per peer since that put) -/
structure J (c : MC) (m : MMon) : Prop where
  gossip : m.gossip = c.gossip
  len : m.len = c.history.length
  /-- a stored message has a record; its own history entry sits in the slot numbered by its age -/
  stored : ∀ id msg, c.msgs id = some msg → ∃ r, m.recs id = some r ∧ r.validated = msg.validated ∧
    r.age < c.history.length ∧ (id, msg.topic) ∈ hslot c.history r.age ∧ ∀ p, c.iwant id p = r.reqs p
  absent : ∀ id, c.msgs id = none → ∀ p, c.iwant id p = 0
  /-- any history entry naming a stored message is at least as old as the message -/
  stale : ∀ j id t, (id, t) ∈ hslot c.history j → ∀ r, m.recs id = some r → c.msgs id ≠ none → r.age ≤ j

theorem J_new (g h : Nat) : J (mcNew g h) (mmonNew g h) := by
  constructor
  · rfl
  · simp [mcNew, mmonNew]
  · intro id msg hm; simp [mcNew] at hm
  · intro id _ p; rfl
  · intro j id t hmem r hr; simp [mmonNew] at hr

theorem J_put (c : MC) (m : MMon) (id t : Nat) (h : J c m) :
    J (put c id t).1 (mmonStep m (.put id t) (.bool (put c id t).2)) := by
  unfold put
  cases hh : c.history with
  | nil =>
    simp only [mmonStep]
    have : m.len = 0 := by rw [h.len, hh]; rfl
    simp only [this, ↓reduceIte]
    exact h
  | cons h0 hs =>
    cases hm : c.msgs id with
    | some msg0 =>
      simp only [mmonStep]
      exact h
    | none =>
      simp only [mmonStep]
      have hlen : m.len ≠ 0 := by rw [h.len, hh]; simp
      simp only [hlen, ↓reduceIte]
      constructor
      · exact h.gossip
      · simp only [List.length_cons]; rw [h.len, hh]; rfl
      · intro id' msg hmsg
        simp only at hmsg ⊢
        by_cases hid : id' = id
        · subst hid
          rw [setOpt_same] at hmsg
          simp only [Option.some.injEq] at hmsg
          subst hmsg
          refine ⟨_, setOpt_same _ _ _, rfl, by simp, ?_, ?_⟩
          · simp [hslot]
          · intro p; exact h.absent id' hm p
        · rw [setOpt_other _ _ _ _ hid] at hmsg
          obtain ⟨r, h1, h2, h3, h4, h5⟩ := h.stored id' msg hmsg
          refine ⟨r, by rw [setOpt_other _ _ _ _ hid]; exact h1, h2, ?_, ?_, h5⟩
          · rw [hh] at h3; simpa using h3
          · rw [hh] at h4
            cases hr : r.age with
            | zero =>
              rw [hr] at h4
              simp only [hslot, List.getD_cons_zero] at h4 ⊢
              exact List.mem_append_left _ h4
            | succ n =>
              rw [hr] at h4
              simpa [hslot] using h4
      · intro id' hmsg p
        simp only at hmsg ⊢
        by_cases hid : id' = id
        · subst hid; rw [setOpt_same] at hmsg; cases hmsg
        · rw [setOpt_other _ _ _ _ hid] at hmsg
          exact h.absent id' hmsg p
      · intro j id' t' hmem r hr hne
        simp only at hmem hr hne
        by_cases hid : id' = id
        · subst hid
          rw [setOpt_same] at hr
          simp only [Option.some.injEq] at hr
          subst hr
          simp
        · rw [setOpt_other _ _ _ _ hid] at hr hne
          apply h.stale j id' t' _ r hr hne
          rw [hh]
          cases j with
          | zero =>
            simp only [hslot, List.getD_cons_zero, List.mem_append, List.mem_cons, Prod.mk.injEq,
              List.not_mem_nil, or_false] at hmem ⊢
            rcases hmem with hmem | ⟨rfl, _⟩
            · exact hmem
            · exact absurd rfl hid
          | succ n => simpa [hslot] using hmem

theorem J_observe (c : MC) (m : MMon) (id p : Nat) (h : J c m) :
    J (observeDuplicate c id p) (mmonStep m (.observe id p) .unit) := by
  simp only [mmonStep]
  unfold observeDuplicate
  cases hm : c.msgs id with
  | none => exact h
  | some msg0 =>
    by_cases hv : msg0.validated = true
    · simp only [hv, ↓reduceIte]; exact h
    · simp only [hv, Bool.false_eq_true, ↓reduceIte]
      constructor
      · exact h.gossip
      · exact h.len
      · intro id' msg hmsg
        simp only at hmsg ⊢
        by_cases hid : id' = id
        · subst hid
          rw [setOpt_same] at hmsg
          simp only [Option.some.injEq] at hmsg
          subst hmsg
          obtain ⟨r, h1, h2, h3, h4, h5⟩ := h.stored id' msg0 hm
          exact ⟨r, h1, by rw [h2]; simpa using hv, h3, h4, h5⟩
        · rw [setOpt_other _ _ _ _ hid] at hmsg
          exact h.stored id' msg hmsg
      · intro id' hmsg p'
        simp only at hmsg ⊢
        by_cases hid : id' = id
        · subst hid; rw [setOpt_same] at hmsg; cases hmsg
        · rw [setOpt_other _ _ _ _ hid] at hmsg
          exact h.absent id' hmsg p'
      · intro j id' t' hmem r hr hne
        simp only at hmem hne
        apply h.stale j id' t' hmem r hr
        by_cases hid : id' = id
        · subst hid; rw [hm]; simp
        · rw [setOpt_other _ _ _ _ hid] at hne; exact hne

theorem J_iwant (c : MC) (m : MMon) (id p : Nat) (h : J c m) :
    J (getWithIwant c id p).1 (mmonStep m (.iwant id p) (.iwant (getWithIwant c id p).2)) := by
  unfold getWithIwant
  cases hm : c.msgs id with
  | none => simp only [mmonStep]; exact h
  | some msg0 =>
    by_cases hv : msg0.validated = true
    · simp only [hv, Bool.not_true, Bool.false_eq_true, ↓reduceIte, mmonStep]
      obtain ⟨r0, g1, g2, g3, g4, g5⟩ := h.stored id msg0 hm
      simp only [g1]
      constructor
      · exact h.gossip
      · exact h.len
      · intro id' msg hmsg
        simp only at hmsg ⊢
        by_cases hid : id' = id
        · subst hid
          rw [hm] at hmsg
          simp only [Option.some.injEq] at hmsg
          subst hmsg
          refine ⟨_, setOpt_same _ _ _, g2, g3, g4, ?_⟩
          intro p'
          by_cases hp : p' = p
          · subst hp; simp [g5]
          · simp [hp, g5]
        · obtain ⟨r, h1, h2, h3, h4, h5⟩ := h.stored id' msg hmsg
          refine ⟨r, by rw [setOpt_other _ _ _ _ hid]; exact h1, h2, h3, h4, ?_⟩
          intro p'
          simp [hid, h5]
      · intro id' hmsg p'
        simp only at hmsg ⊢
        have hid : id' ≠ id := by rintro rfl; rw [hm] at hmsg; cases hmsg
        simp [hid, h.absent id' hmsg p']
      · intro j id' t' hmem r hr hne
        simp only at hmem hr hne
        by_cases hid : id' = id
        · subst hid
          rw [setOpt_same] at hr
          simp only [Option.some.injEq] at hr
          subst hr
          exact h.stale j id' t' hmem r0 g1 hne
        · rw [setOpt_other _ _ _ _ hid] at hr
          exact h.stale j id' t' hmem r hr hne
    · simp only [hv, Bool.not_false, ↓reduceIte, mmonStep]
      have : msg0.validated = false := by simpa using hv
      try simp only [this, Bool.not_false, ↓reduceIte]
      exact h

theorem J_validate (c : MC) (m : MMon) (id : Nat) (h : J c m) :
    J (validate c id).1 (mmonStep m (.validate id) (.msg (validate c id).2)) := by
  unfold validate
  cases hm : c.msgs id with
  | none =>
    simp only [mmonStep]
    constructor
    · exact h.gossip
    · exact h.len
    · intro id' msg hmsg
      have hid : id' ≠ id := by rintro rfl; rw [hm] at hmsg; cases hmsg
      obtain ⟨r, h1, rest⟩ := h.stored id' msg hmsg
      exact ⟨r, by simp only; rw [setOpt_other _ _ _ _ hid]; exact h1, rest⟩
    · exact h.absent
    · intro j id' t' hmem r hr hne
      simp only at hr
      have hid : id' ≠ id := by rintro rfl; exact hne hm
      rw [setOpt_other _ _ _ _ hid] at hr
      exact h.stale j id' t' hmem r hr hne
  | some msg0 =>
    simp only [mmonStep]
    obtain ⟨r0, g1, g2, g3, g4, g5⟩ := h.stored id msg0 hm
    simp only [g1]
    constructor
    · exact h.gossip
    · exact h.len
    · intro id' msg hmsg
      simp only at hmsg ⊢
      by_cases hid : id' = id
      · subst hid
        rw [setOpt_same] at hmsg
        simp only [Option.some.injEq] at hmsg
        subst hmsg
        exact ⟨_, setOpt_same _ _ _, rfl, g3, g4, g5⟩
      · rw [setOpt_other _ _ _ _ hid] at hmsg
        obtain ⟨r, h1, rest⟩ := h.stored id' msg hmsg
        exact ⟨r, by rw [setOpt_other _ _ _ _ hid]; exact h1, rest⟩
    · intro id' hmsg p'
      simp only at hmsg ⊢
      by_cases hid : id' = id
      · subst hid; rw [setOpt_same] at hmsg; cases hmsg
      · rw [setOpt_other _ _ _ _ hid] at hmsg
        exact h.absent id' hmsg p'
    · intro j id' t' hmem r hr hne
      simp only at hmem hr hne
      by_cases hid : id' = id
      · subst hid
        rw [setOpt_same] at hr
        simp only [Option.some.injEq] at hr
        subst hr
        exact h.stale j id' t' hmem r0 g1 (by rw [hm]; simp)
      · rw [setOpt_other _ _ _ _ hid] at hr hne
        exact h.stale j id' t' hmem r hr hne

theorem J_remove (c : MC) (m : MMon) (id : Nat) (h : J c m) :
    J (remove c id).1 (mmonStep m (.remove id) (.msg (remove c id).2)) := by
  unfold remove
  simp only [mmonStep]
  constructor
  · exact h.gossip
  · exact h.len
  · intro id' msg hmsg
    simp only at hmsg ⊢
    by_cases hid : id' = id
    · subst hid; rw [setOpt_same] at hmsg; cases hmsg
    · rw [setOpt_other _ _ _ _ hid] at hmsg
      obtain ⟨r, h1, h2, h3, h4, h5⟩ := h.stored id' msg hmsg
      refine ⟨r, by rw [setOpt_other _ _ _ _ hid]; exact h1, h2, h3, h4, ?_⟩
      intro p; simp [clearCounts, hid, h5]
  · intro id' hmsg p
    simp only at hmsg ⊢
    by_cases hid : id' = id
    · simp [clearCounts, hid]
    · rw [setOpt_other _ _ _ _ hid] at hmsg
      simp [clearCounts, hid, h.absent id' hmsg p]
  · intro j id' t' hmem r hr hne
    simp only at hmem hr hne
    by_cases hid : id' = id
    · subst hid; rw [setOpt_same] at hne; exact absurd rfl hne
    · rw [setOpt_other _ _ _ _ hid] at hr hne
      exact h.stale j id' t' hmem r hr hne

theorem hslot_shifted (hist : List (List (Nat × Nat))) (j : Nat) :
    hslot ([] :: hist.dropLast) (j + 1) = if j + 1 < hist.length then hslot hist j else [] := by
  simp only [hslot, List.getD_eq_getElem?_getD, List.getElem?_cons_succ, List.getElem?_dropLast]
  by_cases hlt : j + 1 < hist.length
  · have : j < hist.length - 1 := by omega
    simp [hlt, this]
  · have : ¬ j < hist.length - 1 := by omega
    simp [hlt, this]

theorem J_shift (c : MC) (m : MMon) (h : J c m) : J (shift c) (mmonStep m .shift .unit) := by
  unfold shift
  simp only [mmonStep]
  cases hl : c.history.getLast? with
  | none =>
    have hnil : c.history = [] := List.getLast?_eq_none_iff.1 hl
    have hno : ∀ id, c.msgs id = none := by
      intro id
      cases hm : c.msgs id with
      | none => rfl
      | some msg =>
        obtain ⟨r, _, _, h3, _⟩ := h.stored id msg hm
        rw [hnil] at h3; simp at h3
    simp only
    constructor
    · exact h.gossip
    · exact h.len
    · intro id msg hm; rw [hno id] at hm; cases hm
    · exact h.absent
    · intro j id t hmem; rw [hnil] at hmem; simp [hslot] at hmem
  | some last =>
    simp only
    have hne : c.history ≠ [] := by
      intro hnil; rw [hnil] at hl; simp at hl
    have hlen : 0 < c.history.length := List.length_pos_iff.2 hne
    -- the last slot is slot `length - 1`
    have hlast : hslot c.history (c.history.length - 1) = last := by
      have := List.getLast?_eq_getElem? (l := c.history)
      rw [this] at hl
      simp [hslot, List.getD_eq_getElem?_getD, hl]
    constructor
    · exact h.gossip
    · simp only [List.length_cons, List.length_dropLast]; rw [h.len]; omega
    · intro id msg hmsg
      simp only at hmsg ⊢
      rw [dropEntries_msgs] at hmsg
      split at hmsg
      · cases hmsg
      · rename_i hnin
        simp only at hmsg
        obtain ⟨r, h1, h2, h3, h4, h5⟩ := h.stored id msg hmsg
        have hage : r.age ≠ c.history.length - 1 := by
          intro heq
          rw [heq, hlast] at h4
          exact hnin (List.mem_map.2 ⟨(id, msg.topic), h4, rfl⟩)
        have hlt : r.age + 1 < c.history.length := by omega
        refine ⟨{ r with age := r.age + 1 }, ?_, h2, ?_, ?_, ?_⟩
        · simp only [h1]
          rw [h.len, if_pos hlt]
        · simp only [List.length_cons, List.length_dropLast]; omega
        · simp only
          rw [hslot_shifted, if_pos hlt]; exact h4
        · intro p
          rw [dropEntries_iwant, if_neg hnin]
          exact h5 p
    · intro id hmsg p
      simp only at hmsg ⊢
      rw [dropEntries_msgs] at hmsg
      rw [dropEntries_iwant]
      split
      · rfl
      · rename_i hnin
        rw [if_neg hnin] at hmsg
        exact h.absent id hmsg p
    · intro j id t hmem r hr hne'
      simp only at hmem hr hne'
      cases j with
      | zero => simp [hslot] at hmem
      | succ n =>
        rw [hslot_shifted] at hmem
        split at hmem
        · cases hr0 : m.recs id with
          | none => rw [hr0] at hr; cases hr
          | some r0 =>
            rw [hr0] at hr
            simp only at hr
            split at hr
            · simp only [Option.some.injEq] at hr
              subst hr
              simp only
              have hmne : c.msgs id ≠ none := by
                intro hnone
                apply hne'
                rw [dropEntries_msgs]
                split
                · rfl
                · exact hnone
              have := h.stale n id t hmem r0 hr0 hmne
              omega
            · cases hr
        · simp at hmem

theorem J_step (c : MC) (m : MMon) (op : MOp) (h : J c m) :
    J (mstep c op).1 (mmonStep m op (mstep c op).2) := by
  cases op with
  | put id t => exact J_put c m id t h
  | observe id p => exact J_observe c m id p h
  | iwant id p => exact J_iwant c m id p h
  | validate id => exact J_validate c m id h
  | gossip t =>
    simp only [mstep]
    cases getGossipIds c t <;> simp only [mmonStep] <;> exact h
  | shift => exact J_shift c m h
  | remove id => exact J_remove c m id h

end C33
