import Libp2pModel.Proofs.C39_DFin
/-!
# C39 — disjoint iterator: termination measure (sum of the per-path potentials)
-/
namespace C39.Disjoint
open C39 (Out Cfg Inv Bounded phi)

theorem sum_le_of_forall (l : List Nat) (b : Nat) (h : ∀ x ∈ l, x ≤ b) : l.sum ≤ l.length * b := by
  induction l with
  | nil => simp
  | cons a t ih =>
    have h1 := h a List.mem_cons_self
    have h2 := ih (fun x hx => h x (List.mem_cons_of_mem _ hx))
    simp only [List.sum_cons, List.length_cons, Nat.succ_mul]
    omega

theorem length_step (d : DIter) (op : Op) : (step d op).1.iters.length = d.iters.length := by
  cases op with
  | next now =>
    simp only [step, next]
    have : ∀ (r : Nat) (d : DIter) (acc : Acc), (outer now r d acc).1.iters.length = d.iters.length := by
      intro r
      induction r with
      | zero => intro d acc; rfl
      | succ r ih =>
        intro d acc
        simp only [outer]
        split
        · rfl
        · split
          · rw [ih]; simp
          · simp
          · simp
    exact this _ d .none
  | success p closer =>
    simp only [step, onSuccess]
    (repeat' split) <;> simp [length_mapOthers]
  | failure p =>
    simp only [step, onFailure]
    (repeat' split) <;> simp [length_mapOthers]
  | finishPaths ps =>
    simp only [step, finishPaths]
    have : ∀ (ps : List Nat) (d : DIter), (ps.foldl (fun (d : DIter) p =>
        match cfind d.contacted p with
        | some (by_, _) =>
          match d.iters[by_]? with
          | some it => { d with iters := d.iters.set by_ (C39.finish it) }
          | none => d
        | none => d) d).iters.length = d.iters.length := by
      intro ps
      induction ps with
      | nil => intro d; rfl
      | cons q t ih =>
        intro d
        simp only [List.foldl_cons]
        rw [ih]
        (repeat' split) <;> simp
    exact this ps d
  | finish => simp [step, finish]


/-! ## sums of pointwise comparable lists -/

theorem sum_pointwise : ∀ (l l' : List Nat), l.length = l'.length →
    (∀ (i : Nat) (a b : Nat), l[i]? = some a → l'[i]? = some b → b ≤ a) → l'.sum ≤ l.sum := by
  intro l
  induction l with
  | nil => intro l' hl _; cases l' with
    | nil => simp
    | cons _ _ => simp at hl
  | cons a t ih =>
    intro l' hl h
    cases l' with
    | nil => simp at hl
    | cons b t' =>
      have h0 := h 0 a b (by simp) (by simp)
      have := ih t' (by simpa using hl) (fun i x y hx hy => h (i + 1) x y (by simpa using hx) (by simpa using hy))
      simp only [List.sum_cons]; omega

theorem sum_pointwise_strict : ∀ (l l' : List Nat), l.length = l'.length →
    (∀ (i : Nat) (a b : Nat), l[i]? = some a → l'[i]? = some b → b ≤ a) →
    (∃ (i : Nat) (a b : Nat), l[i]? = some a ∧ l'[i]? = some b ∧ b + 1 ≤ a) → l'.sum + 1 ≤ l.sum := by
  intro l
  induction l with
  | nil => intro l' _ _ ⟨i, a, b, h1, _⟩; simp at h1
  | cons a t ih =>
    intro l' hl h ⟨i, x, y, h1, h2, h3⟩
    cases l' with
    | nil => simp at hl
    | cons b t' =>
      have h0 := h 0 a b (by simp) (by simp)
      have hrest : ∀ (i : Nat) (x y : Nat), t[i]? = some x → t'[i]? = some y → y ≤ x :=
        fun i x y hx hy => h (i + 1) x y (by simpa using hx) (by simpa using hy)
      cases i with
      | zero =>
        simp at h1 h2; subst h1; subst h2
        have := sum_pointwise t t' (by simpa using hl) hrest
        simp only [List.sum_cons]; omega
      | succ i =>
        have := ih t' (by simpa using hl) hrest ⟨i, x, y, by simpa using h1, by simpa using h2, h3⟩
        simp only [List.sum_cons]; omega

/-! ## the potential -/

def BoundedD (n : Nat) (d : DIter) : Prop := ∀ it ∈ d.iters, Bounded n it

/-- sum of the per-path potentials `C39.phi` -/
def Phi (n : Nat) (d : DIter) : Nat := (d.iters.map (phi n)).sum

/-- what any sequence of per-path calls does to the path's potential -/
def MRel (n : Nat) (a b : C39.Iter) : Prop :=
  Bounded n a → (Bounded n b ∧ phi n b ≤ phi n a)

/-- … when the path hands out peer `p` -/
def MStrict (n : Nat) (p : Nat) (a b : C39.Iter) : Prop :=
  Bounded n a → (Bounded n b ∧ phi n b + 1 ≤ phi n a ∧ p < n)

theorem MRel.refl (n : Nat) (x : C39.Iter) : MRel n x x := fun h => ⟨h, Nat.le_refl _⟩

theorem MRel.trans (n : Nat) (a b c : C39.Iter) (h1 : MRel n a b) (h2 : MRel n b c) : MRel n a c := by
  intro ha
  obtain ⟨hb, l1⟩ := h1 ha
  obtain ⟨hc, l2⟩ := h2 hb
  exact ⟨hc, Nat.le_trans l2 l1⟩

theorem MStrict.comp (n p : Nat) (a b c : C39.Iter) (h1 : MRel n a b) (h2 : MStrict n p b c) :
    MStrict n p a c := by
  intro ha
  obtain ⟨hb, l1⟩ := h1 ha
  obtain ⟨hc, l2, l3⟩ := h2 hb
  exact ⟨hc, by omega, l3⟩

theorem innerLoop_measure (n now : Nat) (ct : List (Nat × Nat × Resp)) :
    ∀ (fuel : Nat) (it : C39.Iter) (acc : Acc), Inv it →
      MRel n it (innerLoop now ct fuel it acc).1 ∧
      ∀ p, (innerLoop now ct fuel it acc).2 = .ret p → MStrict n p it (innerLoop now ct fuel it acc).1 := by
  intro fuel
  induction fuel with
  | zero =>
    intro it acc _
    simp only [innerLoop]
    exact ⟨MRel.refl n it, fun p hp => by simp at hp⟩
  | succ fuel ih =>
    intro it acc h
    have h' := h.next now
    simp only [innerLoop]
    -- the first `next` on the path
    have hm : ∀ hb : Bounded n it, Bounded n (C39.next it now).1 ∧
        phi n (C39.next it now).1 + C39.effective it (.next now) (C39.next it now).2 ≤ phi n it :=
      fun hb => ⟨(C39.measure_next h hb now).1, (C39.measure_next h hb now).2.2⟩
    rcases C39.next_out_kind h now with ⟨p, hout⟩ | hout | hout
    · cases p with
      | none =>
        rw [hout]
        simp only
        refine ⟨fun hb => ⟨(hm hb).1, by have := (hm hb).2; omega⟩, fun p hp => by simp at hp⟩
      | some p =>
        rw [hout]
        simp only
        have hm1 : ∀ hb : Bounded n it, Bounded n (C39.next it now).1 ∧
            phi n (C39.next it now).1 + 1 ≤ phi n it := by
          intro hb
          have := (hm hb).2
          rw [hout] at this
          exact ⟨(hm hb).1, by simpa [C39.effective] using this⟩
        have hpn : ∀ hb : Bounded n it, p < n := by
          intro hb
          have hf : it.state ≠ .finished := by
            intro hf; rw [C39.next_finished hf] at hout; simp at hout
          have hres := (C39.next_out_res hf now p).2 hout
          have hmem := (C39.nextLoop_issue_mem _ _ _ _ _ _ p hres).1
          exact hb _ hmem
        cases hc : cfind ct p with
        | none =>
          simp only
          exact ⟨fun hb => ⟨(hm1 hb).1, by have := (hm1 hb).2; omega⟩,
            fun q hq => by
              simp at hq; subst hq
              exact fun hb => ⟨(hm1 hb).1, (hm1 hb).2, hpn hb⟩⟩
        | some v =>
          obtain ⟨by_, resp⟩ := v
          cases resp with
          | waiting =>
            simp only
            obtain ⟨i1, i2⟩ := ih (C39.next it now).1 acc h'
            refine ⟨fun hb => ?_, fun q hq => fun hb => ?_⟩
            · obtain ⟨b1, l1⟩ := i1 (hm1 hb).1
              exact ⟨b1, by have := (hm1 hb).2; omega⟩
            · obtain ⟨b1, l1, l2⟩ := i2 q hq (hm1 hb).1
              exact ⟨b1, by have := (hm1 hb).2; omega, l2⟩
          | succeeded =>
            have hs := h'.onSuccess p []
            simp only [hs.2, if_false]
            have hms : ∀ hb : Bounded n (C39.next it now).1,
                Bounded n (C39.onSuccess (C39.next it now).1 p []).1 ∧
                phi n (C39.onSuccess (C39.next it now).1 p []).1 ≤ phi n (C39.next it now).1 := by
              intro hb
              have := C39.measure_success h' hb p [] (by simp)
              exact ⟨this.1, by have := this.2.2; omega⟩
            obtain ⟨i1, i2⟩ := ih (C39.onSuccess (C39.next it now).1 p []).1 acc hs.1
            refine ⟨fun hb => ?_, fun q hq => fun hb => ?_⟩
            · obtain ⟨b0, l0⟩ := hms (hm1 hb).1
              obtain ⟨b1, l1⟩ := i1 b0
              exact ⟨b1, by have := (hm1 hb).2; omega⟩
            · obtain ⟨b0, l0⟩ := hms (hm1 hb).1
              obtain ⟨b1, l1, l2⟩ := i2 q hq b0
              exact ⟨b1, by have := (hm1 hb).2; omega, l2⟩
          | failed =>
            have hs := h'.onFailure p
            simp only [hs.2, if_false]
            have hms : ∀ hb : Bounded n (C39.next it now).1,
                Bounded n (C39.onFailure (C39.next it now).1 p).1 ∧
                phi n (C39.onFailure (C39.next it now).1 p).1 ≤ phi n (C39.next it now).1 := by
              intro hb
              have := C39.measure_failure h' hb p
              exact ⟨this.1, by have := this.2.2; omega⟩
            obtain ⟨i1, i2⟩ := ih (C39.onFailure (C39.next it now).1 p).1 acc hs.1
            refine ⟨fun hb => ?_, fun q hq => fun hb => ?_⟩
            · obtain ⟨b0, l0⟩ := hms (hm1 hb).1
              obtain ⟨b1, l1⟩ := i1 b0
              exact ⟨b1, by have := (hm1 hb).2; omega⟩
            · obtain ⟨b0, l0⟩ := hms (hm1 hb).1
              obtain ⟨b1, l1, l2⟩ := i2 q hq b0
              exact ⟨b1, by have := (hm1 hb).2; omega, l2⟩
    · rw [hout]
      simp only
      exact ⟨fun hb => ⟨(hm hb).1, by have := (hm hb).2; omega⟩, fun p hp => by simp at hp⟩
    · rw [hout]
      simp only
      exact ⟨fun hb => ⟨(hm hb).1, by have := (hm hb).2; omega⟩, fun p hp => by simp at hp⟩

theorem getElem?_of_mem {α : Type} {l : List α} {x : α} (h : x ∈ l) : ∃ i : Nat, l[i]? = some x := by
  obtain ⟨i, hi, he⟩ := List.mem_iff_getElem.1 h
  exact ⟨i, by rw [List.getElem?_eq_getElem hi, he]⟩

/-- pointwise comparison of the paths gives the comparison of the sums -/
theorem Phi_le_of_pointwise {n : Nat} {d d' : DIter} (hlen : d'.iters.length = d.iters.length)
    (hb : BoundedD n d)
    (hpt : ∀ (i : Nat) (it : C39.Iter), d.iters[i]? = some it → ∃ it', d'.iters[i]? = some it' ∧ MRel n it it') :
    BoundedD n d' ∧ Phi n d' ≤ Phi n d := by
  refine ⟨?_, ?_⟩
  · intro it' hmem
    obtain ⟨i, hi⟩ := getElem?_of_mem hmem
    have hlt : i < d.iters.length := by
      rw [← hlen]; exact (List.getElem?_eq_some_iff.1 hi).1
    obtain ⟨it'', h1, h2⟩ := hpt i d.iters[i] (List.getElem?_eq_getElem hlt)
    rw [hi] at h1; cases h1
    exact (h2 (hb _ (List.getElem_mem hlt))).1
  · unfold Phi
    apply sum_pointwise
    · simp [hlen]
    · intro i a b ha hb'
      simp only [List.getElem?_map] at ha hb'
      cases hi : d.iters[i]? with
      | none => rw [hi] at ha; simp at ha
      | some it =>
        rw [hi] at ha; simp at ha
        obtain ⟨it', h1, h2⟩ := hpt i it hi
        rw [h1] at hb'; simp at hb'
        rw [← ha, ← hb']
        exact (h2 (hb it (List.mem_of_getElem? hi))).2

theorem Phi_lt_of_pointwise {n : Nat} {d d' : DIter} (hlen : d'.iters.length = d.iters.length)
    (hb : BoundedD n d)
    (hpt : ∀ (i : Nat) (it : C39.Iter), d.iters[i]? = some it → ∃ it', d'.iters[i]? = some it' ∧ MRel n it it')
    (hst : ∃ (i : Nat) (it it' : C39.Iter), d.iters[i]? = some it ∧ d'.iters[i]? = some it' ∧
      phi n it' + 1 ≤ phi n it) :
    Phi n d' + 1 ≤ Phi n d := by
  unfold Phi
  apply sum_pointwise_strict
  · simp [hlen]
  · intro i a b ha hb'
    simp only [List.getElem?_map] at ha hb'
    cases hi : d.iters[i]? with
    | none => rw [hi] at ha; simp at ha
    | some it =>
      rw [hi] at ha; simp at ha
      obtain ⟨it', h1, h2⟩ := hpt i it hi
      rw [h1] at hb'; simp at hb'
      rw [← ha, ← hb']
      exact (h2 (hb it (List.mem_of_getElem? hi))).2
  · obtain ⟨i, it, it', h1, h2, h3⟩ := hst
    exact ⟨i, phi n it, phi n it', by simp [h1], by simp [h2], h3⟩

/-! ## one call of the disjoint iterator -/

/-- 1 iff the call hands out a peer or accepts a report -/
def effD : Op → Out → Nat
  | .next _, .waiting (some _) => 1
  | .success _ _, .bool true => 1
  | .failure _, .bool true => 1
  | _, _ => 0

def opBoundedD (n : Nat) : Op → Prop
  | .success _ closer => ∀ q ∈ closer, q < n
  | _ => True

theorem finish_mrel (n : Nat) (it : C39.Iter) : MRel n it (C39.finish it) := by
  intro hb
  refine ⟨hb, ?_⟩
  by_cases hf : it.state = .finished <;> simp [phi, C39.mu, C39.finish, C39.fin01, hf]

theorem measure_next_d {cfg : Cfg} {n : Nat} {d : DIter} (h : DInv cfg d) (hb : BoundedD n d) (now : Nat) :
    BoundedD n (next d now).1 ∧ Phi n (next d now).1 + effD (.next now) (next d now).2 ≤ Phi n d ∧
    ∀ p, (next d now).2 = .waiting (some p) → p < n := by
  have hlen : (next d now).1.iters.length = d.iters.length := length_step d (.next now)
  have hpt := outer_rel (cfg := cfg) (MRel n) (MRel.refl n) (MRel.trans n) now
    (fun ct fuel it acc hinv _ => (innerLoop_measure n now ct fuel it acc hinv).1) d.iters.length d .none h
  have hle := Phi_le_of_pointwise (d' := (next d now).1) hlen hb hpt
  have hstrict : ∀ p, (next d now).2 = .waiting (some p) →
      Phi n (next d now).1 + 1 ≤ Phi n d ∧ p < n := by
    intro p hp
    obtain ⟨i, it, it', h1, h2, h3⟩ := outer_issue (cfg := cfg) (MRel n) (MStrict n) (MRel.refl n)
      (MStrict.comp n) now
      (fun ct fuel it acc hinv _ => (innerLoop_measure n now ct fuel it acc hinv).1)
      (fun ct fuel it acc q hinv _ hq => (innerLoop_measure n now ct fuel it acc hinv).2 q hq)
      d.iters.length d .none p h hp
    obtain ⟨_, l1, l2⟩ := h3 (hb it (List.mem_of_getElem? h1))
    exact ⟨Phi_lt_of_pointwise (d' := (next d now).1) hlen hb hpt ⟨i, it, it', h1, h2, l1⟩, l2⟩
  refine ⟨hle.1, ?_, fun p hp => (hstrict p hp).2⟩
  cases hout : (next d now).2 with
  | waiting p =>
    cases p with
    | none => simpa [effD] using hle.2
    | some p => simpa [effD] using (hstrict p hout).1
  | atCapacity => simpa [effD] using hle.2
  | finished => simpa [effD] using hle.2
  | bool b => simpa [effD] using hle.2
  | unit => simpa [effD] using hle.2
  | panic => simpa [effD] using hle.2

/-- `on_success` / `on_failure`: the initiating path gets `r`, every other path gets `f` -/
theorem measure_report {cfg : Cfg} {n : Nat} {d : DIter} (h : DInv cfg d) (hb : BoundedD n d)
    (by_ : Nat) (it : C39.Iter) (hget : d.iters[by_]? = some it) (r : C39.Iter) (f : C39.Iter → C39.Iter)
    (hr : MRel n it r) (hf : ∀ x ∈ d.iters, MRel n x (f x)) (ct : List (Nat × Nat × Resp)) :
    BoundedD n ⟨mapOthers f by_ 0 (d.iters.set by_ r), d.pos, ct⟩ ∧
    Phi n ⟨mapOthers f by_ 0 (d.iters.set by_ r), d.pos, ct⟩ ≤ Phi n d ∧
    (phi n r + 1 ≤ phi n it → Phi n ⟨mapOthers f by_ 0 (d.iters.set by_ r), d.pos, ct⟩ + 1 ≤ Phi n d) := by
  have hlen : (⟨mapOthers f by_ 0 (d.iters.set by_ r), d.pos, ct⟩ : DIter).iters.length = d.iters.length := by
    simp [length_mapOthers]
  have hidx : ∀ (i : Nat) (x : C39.Iter), d.iters[i]? = some x →
      (mapOthers f by_ 0 (d.iters.set by_ r))[i]? = some (if i = by_ then r else f x) := by
    intro i x hx
    rw [getElem?_mapOthers, List.getElem?_set]
    by_cases hi : by_ = i
    · subst hi
      have hlt : by_ < d.iters.length := (List.getElem?_eq_some_iff.1 hx).1
      simp [hlt]
    · have : ¬ i = by_ := fun hh => hi hh.symm
      simp [hi, hx, this]
  have hpt : ∀ (i : Nat) (x : C39.Iter), d.iters[i]? = some x →
      ∃ x', (⟨mapOthers f by_ 0 (d.iters.set by_ r), d.pos, ct⟩ : DIter).iters[i]? = some x' ∧ MRel n x x' := by
    intro i x hx
    refine ⟨_, hidx i x hx, ?_⟩
    by_cases hi : i = by_
    · subst hi
      rw [hget] at hx; cases hx
      simpa using hr
    · simp only [hi, if_false]
      exact hf x (List.mem_of_getElem? hx)
  have hle := Phi_le_of_pointwise hlen hb hpt
  refine ⟨hle.1, hle.2, fun hs => ?_⟩
  exact Phi_lt_of_pointwise hlen hb hpt ⟨by_, it, r, hget, by simpa using hidx by_ it hget, hs⟩

theorem measure_success_d {cfg : Cfg} {n : Nat} {d : DIter} (h : DInv cfg d) (hb : BoundedD n d)
    (p : Nat) (closer : List Nat) (hcl : ∀ q ∈ closer, q < n) :
    BoundedD n (onSuccess d p closer).1 ∧
    Phi n (onSuccess d p closer).1 + effD (.success p closer) (onSuccess d p closer).2 ≤ Phi n d := by
  simp only [onSuccess]
  cases hc : cfind d.contacted p with
  | none => simp [effD]; exact hb
  | some v =>
    obtain ⟨by_, resp⟩ := v
    simp only
    have hby : by_ < d.iters.length := h.by_ok _ (cfind_mem hc)
    have hget : d.iters[by_]? = some d.iters[by_] := List.getElem?_eq_getElem hby
    rw [hget]
    simp only
    have hit := h.paths _ (List.getElem_mem hby)
    have hs := hit.1.onSuccess p closer
    simp only [hs.2, if_false]
    have hms := fun hbi => C39.measure_success hit.1 hbi p closer hcl
    obtain ⟨m1, m2, m3⟩ := measure_report h hb by_ _ hget (C39.onSuccess d.iters[by_] p closer).1
      (fun x => (C39.onSuccess x p []).1)
      (fun hbi => ⟨(hms hbi).1, by have := (hms hbi).2.2; omega⟩)
      (fun x hx hbx => by
        have := C39.measure_success (h.paths x hx).1 hbx p [] (by simp)
        exact ⟨this.1, by have := this.2.2; omega⟩)
      (if decide ((C39.onSuccess d.iters[by_] p closer).2 = .bool true) = true
        then cset d.contacted p (by_, .succeeded) else d.contacted)
    refine ⟨m1, ?_⟩
    by_cases hu : (C39.onSuccess d.iters[by_] p closer).2 = .bool true
    · have hstrict : phi n (C39.onSuccess d.iters[by_] p closer).1 + 1 ≤ phi n d.iters[by_] := by
        have := (hms (hb _ (List.getElem_mem hby))).2.2
        rw [hu] at this
        simpa [C39.effective] using this
      have := m3 hstrict
      simpa [hu, effD] using this
    · simpa [hu, effD] using m2

theorem measure_failure_d {cfg : Cfg} {n : Nat} {d : DIter} (h : DInv cfg d) (hb : BoundedD n d) (p : Nat) :
    BoundedD n (onFailure d p).1 ∧
    Phi n (onFailure d p).1 + effD (.failure p) (onFailure d p).2 ≤ Phi n d := by
  simp only [onFailure]
  cases hc : cfind d.contacted p with
  | none => simp [effD]; exact hb
  | some v =>
    obtain ⟨by_, resp⟩ := v
    simp only
    have hby : by_ < d.iters.length := h.by_ok _ (cfind_mem hc)
    have hget : d.iters[by_]? = some d.iters[by_] := List.getElem?_eq_getElem hby
    rw [hget]
    simp only
    have hit := h.paths _ (List.getElem_mem hby)
    have hs := hit.1.onFailure p
    simp only [hs.2, if_false]
    have hms := fun hbi => C39.measure_failure (n := n) hit.1 hbi p
    obtain ⟨m1, m2, m3⟩ := measure_report h hb by_ _ hget (C39.onFailure d.iters[by_] p).1
      (fun x => (C39.onFailure x p).1)
      (fun hbi => ⟨(hms hbi).1, by have := (hms hbi).2.2; omega⟩)
      (fun x hx hbx => by
        have := C39.measure_failure (h.paths x hx).1 hbx p
        exact ⟨this.1, by have := this.2.2; omega⟩)
      (if decide ((C39.onFailure d.iters[by_] p).2 = .bool true) = true
        then cset d.contacted p (by_, .failed) else d.contacted)
    refine ⟨m1, ?_⟩
    by_cases hu : (C39.onFailure d.iters[by_] p).2 = .bool true
    · have hstrict : phi n (C39.onFailure d.iters[by_] p).1 + 1 ≤ phi n d.iters[by_] := by
        have := (hms (hb _ (List.getElem_mem hby))).2.2
        rw [hu] at this
        simpa [C39.effective] using this
      have := m3 hstrict
      simpa [hu, effD] using this
    · simpa [hu, effD] using m2

theorem measure_set_finish {n : Nat} {d : DIter} (hb : BoundedD n d) (by_ : Nat) (it : C39.Iter)
    (hget : d.iters[by_]? = some it) :
    BoundedD n { d with iters := d.iters.set by_ (C39.finish it) } ∧
    Phi n { d with iters := d.iters.set by_ (C39.finish it) } ≤ Phi n d := by
  apply Phi_le_of_pointwise (by simp) hb
  intro i x hx
  simp only [List.getElem?_set]
  by_cases hi : by_ = i
  · subst hi
    have hlt : by_ < d.iters.length := (List.getElem?_eq_some_iff.1 hx).1
    rw [hget] at hx; cases hx
    exact ⟨_, by simp [hlt], finish_mrel n it⟩
  · exact ⟨x, by simp [hi, hx], MRel.refl n x⟩

theorem measure_step_d {cfg : Cfg} {n : Nat} {d : DIter} (h : DInv cfg d) (hb : BoundedD n d) (op : Op)
    (hop : opBoundedD n op) :
    BoundedD n (step d op).1 ∧ Phi n (step d op).1 + effD op (step d op).2 ≤ Phi n d ∧
    ∀ p, (step d op).2 = .waiting (some p) → p < n := by
  cases op with
  | next now => exact measure_next_d h hb now
  | success p closer =>
    obtain ⟨a, b⟩ := measure_success_d h hb p closer hop
    refine ⟨a, b, fun q hq => ?_⟩
    exfalso
    simp only [step, onSuccess] at hq
    (repeat' split at hq) <;> simp at hq
  | failure p =>
    obtain ⟨a, b⟩ := measure_failure_d h hb p
    refine ⟨a, b, fun q hq => ?_⟩
    exfalso
    simp only [step, onFailure] at hq
    (repeat' split at hq) <;> simp at hq
  | finishPaths ps =>
    have hfold : ∀ (ps : List Nat) (d : DIter), BoundedD n d →
        BoundedD n (ps.foldl (fun (d : DIter) p =>
          match cfind d.contacted p with
          | some (by_, _) =>
            match d.iters[by_]? with
            | some it => { d with iters := d.iters.set by_ (C39.finish it) }
            | none => d
          | none => d) d) ∧
        Phi n (ps.foldl (fun (d : DIter) p =>
          match cfind d.contacted p with
          | some (by_, _) =>
            match d.iters[by_]? with
            | some it => { d with iters := d.iters.set by_ (C39.finish it) }
            | none => d
          | none => d) d) ≤ Phi n d := by
      intro ps
      induction ps with
      | nil => intro d hd; exact ⟨hd, Nat.le_refl _⟩
      | cons q t ih =>
        intro d hd
        simp only [List.foldl_cons]
        have hone : BoundedD n (match cfind d.contacted q with
            | some (by_, _) =>
              match d.iters[by_]? with
              | some it => { d with iters := d.iters.set by_ (C39.finish it) }
              | none => d
            | none => d) ∧
            Phi n (match cfind d.contacted q with
            | some (by_, _) =>
              match d.iters[by_]? with
              | some it => { d with iters := d.iters.set by_ (C39.finish it) }
              | none => d
            | none => d) ≤ Phi n d := by
          split
          · split
            · rename_i it hg
              exact measure_set_finish hd _ it hg
            · exact ⟨hd, Nat.le_refl _⟩
          · exact ⟨hd, Nat.le_refl _⟩
        obtain ⟨i1, i2⟩ := ih _ hone.1
        exact ⟨i1, Nat.le_trans i2 hone.2⟩
    obtain ⟨a, b⟩ := hfold ps d hb
    have e : effD (.finishPaths ps) (step d (.finishPaths ps)).2 = 0 := by simp [effD]
    refine ⟨a, ?_, fun q hq => by simp [step, finishPaths] at hq⟩
    rw [e]
    exact b
  | finish =>
    have : BoundedD n (finish d) ∧ Phi n (finish d) ≤ Phi n d := by
      apply Phi_le_of_pointwise (by simp [finish]) hb
      intro i x hx
      exact ⟨C39.finish x, by simp [finish, hx], finish_mrel n x⟩
    exact ⟨this.1, by simpa [step, effD] using this.2, fun q hq => by simp [step] at hq⟩

/-- effective calls / handed-out peers along a run -/
def effCountD : DIter → List Op → Nat
  | _, [] => 0
  | d, o :: os => effD o (step d o).2 + effCountD (step d o).1 os

theorem measure_run_d {cfg : Cfg} {n : Nat} (ops : List Op) : ∀ (d : DIter), DInv cfg d → BoundedD n d →
    (∀ o ∈ ops, opBoundedD n o) →
    effCountD d ops + Phi n (Machine.exec step d ops) ≤ Phi n d ∧ BoundedD n (Machine.exec step d ops) := by
  induction ops with
  | nil => intro d _ hb _; simp [effCountD, Machine.exec]; exact hb
  | cons o os ih =>
    intro d h hb hops
    obtain ⟨b', m, _⟩ := measure_step_d h hb o (hops o List.mem_cons_self)
    obtain ⟨i1, i2⟩ := ih (step d o).1 (step_ok h o).1 b' (fun o' ho' => hops o' (List.mem_cons_of_mem _ ho'))
    simp only [effCountD, Machine.exec, List.foldl_cons] at i1 i2 ⊢
    exact ⟨by omega, i2⟩

theorem init_measure_d (cfg : Cfg) (k n : Nat) (known : List Nat) (hk : ∀ q ∈ known, q < n) :
    BoundedD n (init cfg k known) ∧ Phi n (init cfg k known) ≤ cfg.parallelism * (3 * n + 1) := by
  obtain ⟨b, _, m⟩ := C39.init_measure cfg k n (known.take k) (fun q hq => hk q (List.mem_of_mem_take hq))
  refine ⟨?_, ?_⟩
  · intro it hit
    simp only [init, List.mem_replicate] at hit
    rw [hit.2]; exact b
  · have hsum : ∀ (k x : Nat), (List.replicate k x).sum = k * x := by
      intro k x
      induction k with
      | zero => simp
      | succ k ih => simp [List.replicate_succ, ih, Nat.succ_mul]; omega
    simp only [Phi, init, List.map_replicate, hsum]
    exact Nat.mul_le_mul_left _ m

end C39.Disjoint
