import Libp2pModel.Proofs.C07Lists
/-!
# C07 — conservation: every issued event number is in exactly one place

The places an event number can be: still with the behaviour / in `pending_handler_event` (`State.U`),
received by or queued for the handler of an established connection (`toks s.conns`: `got ++ queue`),
the same for closed connections (`toks s.gone`), or recorded as dropped.  `Unique s` says every number
`< nextEv` occurs exactly once over all of these and no other number occurs at all.
-/
namespace C07

def Conn.tok (k : Conn) : List Nat := k.seq.map (·.n)

def toks (cs : List Conn) : List Nat := cs.flatMap Conn.tok

def State.cnt (s : State) (n : Nat) : Nat :=
  s.U.count n + (toks s.conns).count n + (toks s.gone).count n + (s.dropped.map (·.e.n)).count n

def Unique (s : State) : Prop := ∀ n, s.cnt n = if n < s.nextEv then 1 else 0

theorem Unique.of_cnt {s s' : State} (h : Unique s) (hn : s'.nextEv = s.nextEv)
    (hc : ∀ n, s'.cnt n = s.cnt n) : Unique s' := by
  intro n; rw [hc, hn]; exact h n

theorem tok_startClose (buf : Nat) (k : Conn) : (k.startClose buf).tok = k.tok := by
  unfold Conn.tok; rw [(startClose_fields buf k).1]

theorem tok_push (buf : Nat) (e : Note) (k : Conn) : (k.push buf e).tok = k.tok ++ [e.n] := by
  unfold Conn.tok; rw [(push_fields buf e k).1]; simp

theorem Unique.updSame {s : State} (h : Unique s) (c : Nat) (f : Conn → Conn)
    (hf : ∀ k, (f k).tok = k.tok) : Unique { s with conns := upd s.conns c f } := by
  refine h.of_cnt rfl ?_
  intro n
  simp only [State.cnt, toks]
  rw [flatMap_upd_same Conn.tok f hf]
  rfl

theorem Unique.disconnect {s : State} (h : Unique s) (p : Nat) : Unique (disconnect s p) := by
  refine h.of_cnt rfl ?_
  intro n
  simp only [State.cnt, toks, C07.disconnect]
  rw [flatMap_map_same Conn.tok]
  · rfl
  · intro k _; split
    · exact tok_startClose _ _
    · rfl

theorem Unique.pushNum {s : State} (h : Unique s) (cmd : BCmd) (hc : BCmd.nums [cmd] = [s.nextEv]) :
    Unique { s with behQ := s.behQ ++ [cmd], nextEv := s.nextEv + 1 } := by
  intro n
  have hU : ({ s with behQ := s.behQ ++ [cmd], nextEv := s.nextEv + 1 } : State).U = s.U ++ [s.nextEv] := by
    simp [State.U, nums_append, hc]
  have := h n
  simp only [State.cnt] at this ⊢
  rw [hU, List.count_append, List.count_singleton]
  by_cases hn : s.nextEv = n
  · subst hn; simp at this ⊢; omega
  · have h1 : (s.nextEv == n) = false := by simpa using hn
    simp only [h1]
    by_cases hlt : n < s.nextEv
    · have : n < s.nextEv + 1 := by omega
      simp_all
    · have : ¬ n < s.nextEv + 1 := by omega
      simp_all

theorem Unique.pushPlain {s : State} (h : Unique s) (cmd : BCmd) (hc : BCmd.nums [cmd] = []) :
    Unique { s with behQ := s.behQ ++ [cmd] } := by
  refine h.of_cnt rfl ?_
  intro n
  have hU : ({ s with behQ := s.behQ ++ [cmd] } : State).U = s.U := by
    simp [State.U, nums_append, hc]
  simp only [State.cnt, hU]

theorem Unique.pushCmds (cmds : List ECmd) : ∀ {s : State}, Unique s → Unique (pushCmds s cmds) := by
  induction cmds with
  | nil => intro s h; exact h
  | cons c r ih =>
    intro s h
    cases c with
    | one c => exact ih (h.pushNum _ rfl)
    | any p ch => exact ih (h.pushNum _ rfl)
    | closeOne c => exact ih (h.pushPlain _ rfl)
    | closeAll p => exact ih (h.pushPlain _ rfl)
    | gen => exact ih (h.pushPlain _ rfl)

/-- the pending event is recorded as dropped -/
theorem Unique.dropHead {s : State} {p : Pending} (h : Unique s) (hp : s.pending = some p) (cur : Target) :
    Unique (({ s with pending := none } : State).dropNote p.e cur) := by
  refine h.of_cnt rfl ?_
  intro n
  have hU : s.U = p.e.n :: BCmd.nums s.behQ := by simp [State.U, hp, pendNums]
  have hU' : (({ s with pending := none } : State).dropNote p.e cur).U = BCmd.nums s.behQ := by
    simp [State.U, State.dropNote, pendNums]
  simp only [State.cnt, hU, hU']
  simp only [State.dropNote, List.map_append, List.map_cons, List.map_nil, List.count_append,
    List.count_cons, List.count_nil]
  omega

/-- the pending event is queued for the found connection -/
theorem Unique.sendHead {s : State} {p : Pending} (h : Unique s) (hp : s.pending = some p) (c : Nat)
    (bad : Bool) (hok : s.status c = some .ok) :
    Unique { s with pending := none, conns := upd s.conns c (Conn.push s.buf p.e), bad := bad } := by
  refine h.of_cnt rfl ?_
  intro n
  obtain ⟨k0, hk0, _⟩ := status_some hok
  have hU : s.U = p.e.n :: BCmd.nums s.behQ := by simp [State.U, hp, pendNums]
  have hU' : ({ s with pending := none, conns := upd s.conns c (Conn.push s.buf p.e), bad := bad } : State).U
      = BCmd.nums s.behQ := by simp [State.U, pendNums]
  have hc := count_upd Conn.tok n (Conn.push s.buf p.e) hk0
  rw [tok_push, List.count_append] at hc
  simp only [State.cnt, hU, hU', toks]
  simp only [List.count_cons, List.count_nil] at hc ⊢
  omega

theorem Unique.restorePending {s : State} {p : Pending} (h : Unique s) (hp : s.pending = some p) (p' : Pending)
    (he : p'.e = p.e) : Unique { s with pending := some p' } := by
  refine h.of_cnt rfl ?_
  intro n
  have hU : ({ s with pending := some p' } : State).U = s.U := by
    simp [State.U, hp, pendNums, he]
  simp only [State.cnt, hU]

theorem Unique.deliverPending {s : State} {p : Pending} (h : Unique s) (hp : s.pending = some p) :
    Unique (deliverPending { s with pending := none } p).1 := by
  unfold C07.deliverPending
  cases hcur : p.cur with
  | one c =>
    simp only
    cases hst : ({ s with pending := none } : State).status c with
    | none => exact h.dropHead hp _
    | some r =>
      cases r with
      | ok =>
        have := h.sendHead hp c s.bad (by simpa [State.status] using hst)
        simpa using this
      | pending => exact h.restorePending hp p rfl
      | err => exact h.dropHead hp _
  | any ids =>
    simp only
    split
    · rename_i r0 rest hready
      have hmem : ∀ c, c ∈ ids.filter (fun id => ({ s with pending := none } : State).status id == some .ok) →
          s.status c = some .ok := by
        intro c hc
        simpa [State.status] using (List.mem_filter.1 hc).2
      have hr0 : r0 ∈ ids.filter (fun id => ({ s with pending := none } : State).status id == some .ok) := by
        rw [hready]; simp
      have hc : ∀ ch : Option Nat,
          (match ch with
            | some c => if (ids.filter (fun id => ({ s with pending := none } : State).status id == some .ok)).contains c then c else r0
            | none => r0) ∈ ids.filter (fun id => ({ s with pending := none } : State).status id == some .ok) := by
        intro ch
        cases ch with
        | none => exact hr0
        | some c =>
          simp only
          split
          · rename_i hcc; simpa using hcc
          · exact hr0
      exact h.sendHead hp _ _ (hmem _ (hc p.ch))
    · split
      · exact h.dropHead hp _
      · exact h.restorePending hp _ rfl

theorem Unique.handleBeh {s : State} {cmd : BCmd} {rest : List BCmd} (h : Unique s) (hp : s.pending = none)
    (hq : s.behQ = cmd :: rest) : Unique (handleBeh { s with behQ := rest } cmd) := by
  have h1 : ∀ (s' : State), s'.U = s.U → s'.conns = s.conns → s'.gone = s.gone → s'.dropped = s.dropped →
      s'.nextEv = s.nextEv → Unique s' := by
    intro s' a b c d e
    refine h.of_cnt e ?_
    intro n; simp only [State.cnt, a, b, c, d]
  cases cmd with
  | one c n => exact h1 _ (by simp [C07.handleBeh, State.U, hp, hq, pendNums, BCmd.nums]) rfl rfl rfl rfl
  | any p n ch => exact h1 _ (by simp [C07.handleBeh, State.U, hp, hq, pendNums, BCmd.nums]) rfl rfl rfl rfl
  | closeOne c =>
    have h2 : Unique { s with behQ := rest } := h1 _ (by simp [State.U, hq, BCmd.nums]) rfl rfl rfl rfl
    exact h2.updSame c _ (tok_startClose _)
  | closeAll p =>
    have h2 : Unique { s with behQ := rest } := h1 _ (by simp [State.U, hq, BCmd.nums]) rfl rfl rfl rfl
    exact h2.disconnect p
  | gen => exact h1 _ (by simp [C07.handleBeh, State.U, hq, BCmd.nums]) rfl rfl rfl rfl

theorem Unique.advanceLocal {s : State} (hi : Inv s) (h : Unique s) : Unique (advanceLocal s) := by
  obtain ⟨_, h2⟩ := runAll_spec s.conns (fun k hk => hi.conns k (List.mem_append_left _ hk))
  have htok : (runAll s.conns).1.flatMap Conn.tok = s.conns.flatMap Conn.tok := by
    rw [runAll_fst]
    refine flatMap_map_same Conn.tok _ ?_
    intro k hk
    have hci := hi.conns k (List.mem_append_left _ hk)
    unfold Conn.tok
    rw [((runTask_spec k).2.2 hci.nac).2.1]
  rcases hr : runAll s.conns with ⟨cs, lg, dr⟩
  rw [hr] at h2 htok
  simp only at h2 htok
  subst h2
  simp only [C07.advanceLocal, hr, dropAll]
  refine h.of_cnt rfl ?_
  intro n
  simp only [State.cnt, toks, htok]
  rfl

theorem Unique.reportClosed {s : State} (h : Unique s) (c : Nat) (bad : Bool) :
    Unique (reportClosed s c bad).1 := by
  refine h.of_cnt rfl ?_
  intro n
  have := count_erase Conn.tok n s.conns c
  simp only [State.cnt, toks, C07.reportClosed, State.U, List.flatMap_append, List.count_append] at this ⊢
  omega

theorem Unique.reportPending {s : State} (h : Unique s) (m : PendMsg) (bad : Bool) :
    Unique (reportPending s m bad).1 := by
  unfold C07.reportPending
  split
  · refine h.of_cnt rfl ?_
    intro n
    simp only [State.cnt, toks, List.flatMap_append, List.count_append]
    simp [Conn.tok, Conn.seq, Cmd.notes, State.U]
  · exact h.of_cnt rfl (fun n => rfl)

theorem Unique.poolPoll {s : State} (hi : Inv s) (h : Unique s) (pick : Option Nat) :
    Unique (poolPoll s pick).1 := by
  unfold C07.poolPoll
  split
  · exact h.reportClosed _ _
  · split
    · exact h.reportPending _ _
    · exact h.advanceLocal hi

theorem Unique.init (n : Nat) : Unique (State.init n) := by
  intro k
  simp [State.cnt, State.init, State.U, pendNums, BCmd.nums, toks]

end C07
