import Libp2pModel.Model.C53
import Libp2pModel.Proofs.SwarmFrame
/-!
# C53: facts about the Swarm model used by the allow/block-list theorems —
which ops can establish a connection (and with which peer), and what a disconnect closes
-/
namespace C53
open Swarm

theorem estPeers_append (a b : List Ev) : estPeers (a ++ b) = estPeers a ++ estPeers b := by
  simp [estPeers, List.filterMap_append]

theorem estPeers_outFail (id : Nat) (p : Option Nat) (e : DialErr) : estPeers (outFailEvents id p e) = [] := rfl
theorem estPeers_inFail (id : Nat) (p : Option Nat) (e : ListenErr) : estPeers (inFailEvents id p e) = [] := rfl

theorem estPeers_planDials (s : State) (peer : Option Nat) (refuse : List Maddr) :
    ∀ (l : List Maddr) (nd : Nat), estPeers (planDials s peer refuse l nd).events = [] := by
  intro l
  induction l with
  | nil => intro nd; rfl
  | cons a rest ih =>
    intro nd
    unfold planDials
    split
    · exact ih nd
    · split
      · simp only [estPeers, List.filterMap_cons]; exact ih (nd + 1)
      · simp only [estPeers, List.filterMap_cons]; exact ih (nd + 1)

theorem estPeers_closeConn (s : State) (c : Nat) (g : Bool) : estPeers (closeConn s c g).2 = [] := by
  unfold closeConn
  cases s.est.find? (·.id == c) with
  | none => rfl
  | some e => cases g <;> rfl

theorem estPeers_closeMany (cs : List Nat) : ∀ s : State, estPeers (closeMany s cs).2 = [] := by
  induction cs with
  | nil => intro s; rfl
  | cons c cs ih => intro s; simp only [closeMany, estPeers_append, estPeers_closeConn, ih, List.append_nil]

theorem estPeers_abortOne (s : State) (c : Nat) : estPeers (abortOne s c).2 = [] := by
  unfold abortOne
  cases s.pendOut.find? (·.id == c) <;> rfl

theorem estPeers_abortMany (cs : List Nat) : ∀ s : State, estPeers (abortMany s cs).2 = [] := by
  induction cs with
  | nil => intro s; rfl
  | cons c cs ih => intro s; simp only [abortMany, estPeers_append, estPeers_abortOne, ih, List.append_nil]

theorem estPeers_disconnect (s : State) (p : Nat) (o a : List Nat) (r : State × List Ev)
    (h : disconnect s p o a = some r) : estPeers r.2 = [] := by
  rw [disconnect_eq s p o a r h]
  simp only [estPeers_append, estPeers_closeMany, estPeers_abortMany, List.append_nil]

theorem estPeers_dial (s : State) (v : Bool) (c : Cond) (p : Option Nat) (a : List Maddr) (e : Bool)
    (b : List Maddr) (d : Bool) (r : List Maddr) : estPeers (dial s v c p a e b d r).2.2 = [] := by
  unfold dial
  cases dialPeer s p a with
  | none => rfl
  | some peer =>
    simp only [dialRejected, dialAccepted]
    split
    · rfl
    · split
      · rfl
      · split
        · rfl
        · have h1 : ∀ (c : Nat) (d : Bool) (l : List Ev), estPeers (Ev.bPendingOut c d :: l) = estPeers l := fun _ _ _ => rfl
          have h2 : ∀ (c : Nat) (q : Option Nat), estPeers (if v = true then [Ev.sDialing c q] else []) = [] := by
            intro c q; cases v <;> rfl
          split <;>
            simp only [List.cons_append, h1, h2, estPeers_append, estPeers_outFail, estPeers_planDials, List.append_nil]

/-- an `Established` report for peer `q` can only come from resolving a dial / an incoming upgrade
with authenticated peer `q` when nobody denied -/
theorem estPeers_step (s : State) (op : Op) (q : Nat) (h : q ∈ estPeers (Swarm.step s op).2.2) :
    ∃ k, op = .resolve k q false ∨ op = .resolveIn k q false := by
  cases op with
  | dial v c p a e b d r => simp only [Swarm.step, estPeers_dial] at h; cases h
  | resolve k p d =>
    simp only [Swarm.step] at h
    unfold resolveDial at h
    cases hf : findPendOut s.pendOut k with
    | none => simp [hf, estPeers] at h
    | some pc =>
      simp only [hf, removePendOut] at h
      cases hc : checkPeerId pc.peer p s.localPeer with
      | wrongPeerId => simp [hc, estPeers, outFailEvents] at h
      | localPeerId => simp [hc, estPeers, outFailEvents] at h
      | ok =>
        cases d with
        | true => simp [hc, estPeers, outFailEvents] at h
        | false =>
          simp [hc, estPeers, establish] at h
          exact ⟨k, Or.inl (by rw [h])⟩
  | fail k =>
    simp only [Swarm.step] at h
    unfold failDial at h
    cases hf : findPendOut s.pendOut k with
    | none => simp [hf, estPeers] at h
    | some pc =>
      simp only [hf] at h
      split at h <;> simp [estPeers, outFailEvents] at h
  | incoming d =>
    simp only [Swarm.step, incoming] at h
    split at h <;> simp [estPeers, inFailEvents] at h
  | resolveIn k p d =>
    simp only [Swarm.step] at h
    unfold resolveIn at h
    cases hf : s.pendIn.find? (·.k == k) with
    | none => simp [hf, estPeers] at h
    | some pc =>
      simp only [hf, removePendIn] at h
      cases hc : checkPeerId none p s.localPeer with
      | wrongPeerId => simp [hc, estPeers] at h
      | localPeerId => simp [hc, estPeers, inFailEvents] at h
      | ok =>
        cases d with
        | true => simp [hc, estPeers, inFailEvents] at h
        | false =>
          simp [hc, estPeers, establish] at h
          exact ⟨k, Or.inr (by rw [h])⟩
  | failIn k =>
    simp only [Swarm.step] at h
    unfold failIn at h
    cases hf : s.pendIn.find? (·.k == k) with
    | none => simp [hf, estPeers] at h
    | some pc => simp [hf, estPeers, inFailEvents] at h
  | close c => simp only [Swarm.step, estPeers_closeConn] at h; cases h
  | disconnect p o a =>
    simp only [Swarm.step] at h
    cases hd : disconnect s p o a with
    | none => simp [hd, estPeers] at h
    | some r => simp only [hd, estPeers_disconnect s p o a r hd] at h; cases h
  | remoteClose c => simp only [Swarm.step, estPeers_closeConn] at h; cases h
  | newAddr a => simp [Swarm.step, newAddr, estPeers] at h
  | expire a => simp [Swarm.step, expireAddr, estPeers] at h
  | behClose p one o a =>
    simp only [Swarm.step] at h
    cases one with
    | some c => simp only [estPeers_closeConn] at h; cases h
    | none =>
      simp only at h
      cases hd : disconnect s p o a with
      | none => simp [hd, estPeers] at h
      | some r => simp only [hd, estPeers_disconnect s p o a r hd] at h; cases h

/-- every connection in the table after a step was there before, or has just been established by
resolving with its peer while nobody denied -/
theorem est_new (s : State) (op : Op) :
    ∀ e ∈ (Swarm.step s op).1.est, e ∈ s.est ∨ ∃ k, op = .resolve k e.peer false ∨ op = .resolveIn k e.peer false := by
  cases op with
  | dial v c p a e b d r =>
    intro x hx; simp only [Swarm.step] at hx; rw [(dial_frame s v c p a e b d r).1] at hx; exact Or.inl hx
  | resolve k p d =>
    simp only [Swarm.step]; unfold resolveDial
    cases findPendOut s.pendOut k with
    | none => intro x hx; exact Or.inl hx
    | some pc =>
      simp only [removePendOut]
      cases hc : checkPeerId pc.peer p s.localPeer with
      | wrongPeerId => intro x hx; exact Or.inl hx
      | localPeerId => intro x hx; exact Or.inl hx
      | ok =>
        cases d with
        | true => intro x hx; exact Or.inl hx
        | false =>
          intro x hx
          simp [establish] at hx
          rcases hx with hx | rfl
          · exact Or.inl hx
          · exact Or.inr ⟨k, Or.inl rfl⟩
  | fail k =>
    simp only [Swarm.step]; unfold failDial
    cases findPendOut s.pendOut k with
    | none => intro x hx; exact Or.inl hx
    | some pc => simp only [removePendOut]; split <;> (intro x hx; exact Or.inl hx)
  | incoming d => simp only [Swarm.step, incoming]; split <;> (intro x hx; exact Or.inl hx)
  | resolveIn k p d =>
    simp only [Swarm.step]; unfold resolveIn
    cases s.pendIn.find? (·.k == k) with
    | none => intro x hx; exact Or.inl hx
    | some pc =>
      simp only [removePendIn]
      cases hc : checkPeerId none p s.localPeer with
      | wrongPeerId => intro x hx; exact Or.inl hx
      | localPeerId => intro x hx; exact Or.inl hx
      | ok =>
        cases d with
        | true => intro x hx; exact Or.inl hx
        | false =>
          intro x hx
          simp [establish] at hx
          rcases hx with hx | rfl
          · exact Or.inl hx
          · exact Or.inr ⟨k, Or.inr rfl⟩
  | failIn k =>
    simp only [Swarm.step]; unfold failIn
    cases s.pendIn.find? (·.k == k) <;> (intro x hx; exact Or.inl hx)
  | close c =>
    intro x hx; simp only [Swarm.step] at hx
    rw [(closeConn_frame s c true).1] at hx; exact Or.inl (List.mem_filter.1 hx).1
  | disconnect p o a =>
    simp only [Swarm.step]
    cases hd : disconnect s p o a with
    | none => intro x hx; exact Or.inl hx
    | some r =>
      rw [disconnect_eq s p o a r hd]
      intro x hx
      simp only at hx
      rw [(abortMany_frame a _).1, (closeMany_frame o s).1] at hx
      exact Or.inl (List.mem_filter.1 hx).1
  | remoteClose c =>
    intro x hx; simp only [Swarm.step] at hx
    rw [(closeConn_frame s c false).1] at hx; exact Or.inl (List.mem_filter.1 hx).1
  | newAddr a => intro x hx; exact Or.inl hx
  | expire a => intro x hx; exact Or.inl hx
  | behClose p one o a =>
    simp only [Swarm.step]
    cases one with
    | some c =>
      intro x hx; simp only at hx
      rw [(closeConn_frame s c true).1] at hx; exact Or.inl (List.mem_filter.1 hx).1
    | none =>
      simp only
      cases hd : disconnect s p o a with
      | none => intro x hx; exact Or.inl hx
      | some r =>
        rw [disconnect_eq s p o a r hd]
        intro x hx
        simp only at hx
        rw [(abortMany_frame a _).1, (closeMany_frame o s).1] at hx
        exact Or.inl (List.mem_filter.1 hx).1

/-! ## what `Pool::disconnect` closes -/

theorem isPerm_mem {a b : List Nat} (h : isPerm a b = true) {x : Nat} (hx : x ∈ a) : x ∈ b := by
  unfold isPerm at h
  simp only [Bool.and_eq_true, List.all_eq_true, beq_iff_eq] at h
  have hc := h.1.2 x hx
  have : 0 < a.count x := List.count_pos_iff.2 hx
  exact List.count_pos_iff.1 (hc ▸ this)

theorem isPerm_refl (a : List Nat) : isPerm a a = true := by
  simp [isPerm]

theorem closedIds_append (a b : List Ev) : closedIds (a ++ b) = closedIds a ++ closedIds b := by
  simp [closedIds, List.filterMap_append]

theorem closeConn_closed (s : State) (c : Nat) (g : Bool) (h : ∃ e ∈ s.est, e.id = c) :
    c ∈ closedIds (closeConn s c g).2 := by
  unfold closeConn
  cases hf : s.est.find? (·.id == c) with
  | none =>
    obtain ⟨e, he, hid⟩ := h
    have := List.find?_eq_none.1 hf e he
    simp [hid] at this
  | some e => cases g <;> simp [closedIds]

theorem closeMany_closed (cs : List Nat) : ∀ (s : State) (c : Nat), c ∈ cs → (∃ e ∈ s.est, e.id = c) →
    c ∈ closedIds (closeMany s cs).2 := by
  induction cs with
  | nil => intro s c hc; cases hc
  | cons c0 rest ih =>
    intro s c hc hex
    simp only [closeMany, closedIds_append, List.mem_append]
    by_cases h0 : c = c0
    · subst h0; exact Or.inl (closeConn_closed s c true hex)
    · right
      have hc' : c ∈ rest := by
        rcases List.mem_cons.1 hc with h | h
        · exact absurd h h0
        · exact h
      apply ih _ c hc'
      obtain ⟨e, he, hid⟩ := hex
      refine ⟨e, ?_, hid⟩
      rw [(closeConn_frame s c0 true).1]
      apply List.mem_filter.2
      refine ⟨he, ?_⟩
      simpa [bne_iff_ne, hid] using h0

/-- `disconnectAny` = close a list of connections containing all of `p`'s, then abort some dials -/
theorem disconnectAny_eq (s : State) (p : Nat) (o a : List Nat) :
    ∃ o' a', (∀ e ∈ s.est, e.peer = p → e.id ∈ o') ∧
      disconnectAny s p o a = ((abortMany (closeMany s o').1 a').1, (closeMany s o').2 ++ (abortMany (closeMany s o').1 a').2) := by
  unfold disconnectAny
  cases hd : disconnect s p o a with
  | some r =>
    refine ⟨o, a, ?_, disconnect_eq s p o a r hd⟩
    intro e he hp
    unfold disconnect at hd
    simp only at hd
    split at hd
    · rename_i hperm
      simp only [Bool.and_eq_true] at hperm
      apply isPerm_mem hperm.1
      apply List.mem_map.2
      exact ⟨e, List.mem_filter.2 ⟨he, by simp [hp]⟩, rfl⟩
    · cases hd
  | none =>
    refine ⟨_, _, ?_, rfl⟩
    intro e he hp
    apply List.mem_map.2
    exact ⟨e, List.mem_filter.2 ⟨he, by simp [hp]⟩, rfl⟩

theorem disconnectAny_est (s : State) (p : Nat) (o a : List Nat) :
    ∀ e ∈ (disconnectAny s p o a).1.est, e ∈ s.est ∧ e.peer ≠ p := by
  obtain ⟨o', a', hall, heq⟩ := disconnectAny_eq s p o a
  rw [heq]
  intro e he
  simp only at he
  rw [(abortMany_frame a' _).1, (closeMany_frame o' s).1] at he
  obtain ⟨h1, h2⟩ := List.mem_filter.1 he
  refine ⟨h1, ?_⟩
  intro hp
  have := hall e h1 hp
  simp [this] at h2

theorem disconnectAny_closed (s : State) (p : Nat) (o a : List Nat) :
    ∀ e ∈ s.est, e.peer = p → e.id ∈ closedIds (disconnectAny s p o a).2 := by
  obtain ⟨o', a', hall, heq⟩ := disconnectAny_eq s p o a
  rw [heq]
  intro e he hp
  simp only [closedIds_append, List.mem_append]
  exact Or.inl (closeMany_closed o' s e.id (hall e he hp) ⟨e, he, rfl⟩)

theorem estPeers_disconnectAny (s : State) (p : Nat) (o a : List Nat) : estPeers (disconnectAny s p o a).2 = [] := by
  obtain ⟨o', a', _, heq⟩ := disconnectAny_eq s p o a
  rw [heq]
  simp only [estPeers_append, estPeers_closeMany, estPeers_abortMany, List.append_nil]

/-! ## the race: a finished dial's report is processed after `Pool::disconnect(dp)` was commanded -/

theorem resolveDial_est_super (s : State) (k p : Nat) (d : Bool) : ∀ e ∈ s.est, e ∈ (resolveDial s k p d).1.est := by
  intro e he
  unfold resolveDial
  cases findPendOut s.pendOut k with
  | none => exact he
  | some pc =>
    simp only [removePendOut]
    cases checkPeerId pc.peer p s.localPeer with
    | wrongPeerId => exact he
    | localPeerId => exact he
    | ok =>
      cases d with
      | true => exact he
      | false => simp [establish]; exact Or.inl he

theorem resolveDial_est_new (s : State) (k p : Nat) (d : Bool) :
    ∀ e ∈ (resolveDial s k p d).1.est, e ∈ s.est ∨ (d = false ∧ e.peer = p) := by
  intro e he
  have he' : e ∈ (Swarm.step s (.resolve k p d)).1.est := he
  rcases est_new s (.resolve k p d) e he' with h | ⟨k', h | h⟩
  · exact Or.inl h
  · simp only [Op.resolve.injEq] at h; exact Or.inr ⟨h.2.2, h.2.1.symm⟩
  · cases h

theorem estPeers_resolveDial (s : State) (k p : Nat) (d : Bool) (q : Nat)
    (h : q ∈ estPeers (resolveDial s k p d).2) : d = false ∧ q = p := by
  have h' : q ∈ estPeers (Swarm.step s (.resolve k p d)).2.2 := h
  obtain ⟨k', hk | hk⟩ := estPeers_step s _ q h'
  · simp only [Op.resolve.injEq] at hk; exact ⟨hk.2.2, hk.2.1.symm⟩
  · cases hk

theorem raceAny_eq (s : State) (k p : Nat) (d : Bool) (dp : Nat) (o a : List Nat) :
    ∃ o' a', (∀ e ∈ s.est, e.peer = dp → e.id ∈ o') ∧
      raceAny s k p d dp o a =
        ((abortMany (closeMany (resolveDial s k p d).1 o').1 a').1,
         (resolveDial s k p d).2 ++ (closeMany (resolveDial s k p d).1 o').2 ++
           (abortMany (closeMany (resolveDial s k p d).1 o').1 a').2) := by
  unfold raceAny
  cases hd : race s k p d dp o a with
  | some r =>
    unfold race at hd
    simp only at hd
    split at hd
    · rename_i hperm
      simp only [Bool.and_eq_true] at hperm
      refine ⟨o, a, ?_, ?_⟩
      · intro e he hp
        apply isPerm_mem hperm.1
        exact List.mem_map.2 ⟨e, List.mem_filter.2 ⟨he, by simp [hp]⟩, rfl⟩
      · simp only [Option.some.injEq] at hd
        exact hd.symm
    · cases hd
  | none =>
    refine ⟨_, _, ?_, rfl⟩
    intro e he hp
    exact List.mem_map.2 ⟨e, List.mem_filter.2 ⟨he, by simp [hp]⟩, rfl⟩

theorem raceAny_est (s : State) (k p : Nat) (d : Bool) (dp : Nat) (o a : List Nat) :
    ∀ e ∈ (raceAny s k p d dp o a).1.est, (e ∈ s.est ∧ e.peer ≠ dp) ∨ (d = false ∧ e.peer = p) := by
  obtain ⟨o', a', hall, heq⟩ := raceAny_eq s k p d dp o a
  rw [heq]
  intro e he
  simp only at he
  rw [(abortMany_frame a' _).1, (closeMany_frame o' _).1] at he
  obtain ⟨h1, h2⟩ := List.mem_filter.1 he
  rcases resolveDial_est_new s k p d e h1 with h | h
  · left
    refine ⟨h, ?_⟩
    intro hp
    have := hall e h hp
    simp [this] at h2
  · exact Or.inr h

theorem raceAny_closed (s : State) (k p : Nat) (d : Bool) (dp : Nat) (o a : List Nat) :
    ∀ e ∈ s.est, e.peer = dp → e.id ∈ closedIds (raceAny s k p d dp o a).2 := by
  obtain ⟨o', a', hall, heq⟩ := raceAny_eq s k p d dp o a
  rw [heq]
  intro e he hp
  simp only [closedIds_append, List.mem_append]
  exact Or.inl (Or.inr (closeMany_closed o' _ e.id (hall e he hp) ⟨e, resolveDial_est_super s k p d e he, rfl⟩))

theorem estPeers_raceAny (s : State) (k p : Nat) (d : Bool) (dp : Nat) (o a : List Nat) (q : Nat)
    (h : q ∈ estPeers (raceAny s k p d dp o a).2) : d = false ∧ q = p := by
  obtain ⟨o', a', _, heq⟩ := raceAny_eq s k p d dp o a
  rw [heq] at h
  simp only [estPeers_append, estPeers_closeMany, estPeers_abortMany, List.append_nil] at h
  exact estPeers_resolveDial s k p d q h

theorem estPeers_filter_sub (l : List Ev) (f : Ev → Bool) (q : Nat) (h : q ∈ estPeers (l.filter f)) : q ∈ estPeers l := by
  unfold estPeers at h ⊢
  obtain ⟨e, he, hq⟩ := List.mem_filterMap.1 h
  exact List.mem_filterMap.2 ⟨e, (List.mem_filter.1 he).1, hq⟩

theorem closedIds_filter (l : List Ev) : closedIds (l.filter (fun e => !isListDecision e)) = closedIds l := by
  induction l with
  | nil => rfl
  | cons e t ih =>
    simp only [List.filter_cons]
    cases e <;> simp [isListDecision, closedIds, List.filterMap_cons] <;> exact ih

theorem mem_insertSorted (x y : Nat) (l : List Nat) : y ∈ insertSorted x l → y = x ∨ y ∈ l := by
  induction l with
  | nil => intro h; simp [insertSorted] at h; exact Or.inl h
  | cons a t ih =>
    intro h
    unfold insertSorted at h
    split at h
    · rcases List.mem_cons.1 h with h | h
      · exact Or.inl h
      · exact Or.inr h
    · split at h
      · exact Or.inr h
      · rcases List.mem_cons.1 h with h | h
        · exact Or.inr (List.mem_cons.2 (Or.inl h))
        · rcases ih h with h | h
          · exact Or.inl h
          · exact Or.inr (List.mem_cons.2 (Or.inr h))

theorem mem_connectedPeers (s : State) (q : Nat) (h : q ∈ s.connectedPeers) : ∃ e ∈ s.est, e.peer = q := by
  unfold State.connectedPeers at h
  have : ∀ (l : List Est) (acc : List Nat), q ∈ l.foldl (fun acc e => insertSorted e.peer acc) acc →
      q ∈ acc ∨ ∃ e ∈ l, e.peer = q := by
    intro l
    induction l with
    | nil => intro acc h; exact Or.inl h
    | cons a t ih =>
      intro acc h
      simp only [List.foldl_cons] at h
      rcases ih _ h with h | ⟨e, he, hp⟩
      · rcases mem_insertSorted _ _ _ h with h | h
        · exact Or.inr ⟨a, List.mem_cons_self, h.symm⟩
        · exact Or.inl h
      · exact Or.inr ⟨e, List.mem_cons_of_mem _ he, hp⟩
  rcases this s.est [] h with h | h
  · cases h
  · exact h

end C53
