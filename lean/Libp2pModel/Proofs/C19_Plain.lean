import Libp2pModel.Model.C19_Plain
/-!
# C19 — proofs about the plaintext handshake model
-/
namespace C19

/-! ## a decoded frame does not change when more bytes arrive -/

def UviRes.extend (x : Bytes) : UviRes → UviRes
  | .ok v r => .ok v (r ++ x)
  | o => o

theorem uviLoop_stable (x : Bytes) : ∀ buf i n, uviLoop buf i n ≠ .insufficient →
    uviLoop (buf ++ x) i n = (uviLoop buf i n).extend x := by
  intro buf
  induction buf with
  | nil => intro i n h; simp [uviLoop] at h
  | cons b rest ih =>
    intro i n h
    simp only [List.cons_append, uviLoop] at h ⊢
    split
    · split <;> simp [UviRes.extend]
    · split
      · simp [UviRes.extend]
      · rename_i h1 h2
        simp only [h1, h2, ↓reduceIte] at h
        exact ih _ _ h

def FrameRes.extend (x : Bytes) : FrameRes → FrameRes
  | .got ex r => .got ex (r ++ x)
  | o => o

theorem frameDecode_stable (buf x : Bytes) (h : frameDecode buf ≠ .need) :
    frameDecode (buf ++ x) = (frameDecode buf).extend x := by
  unfold frameDecode at h ⊢
  unfold uviDecode at h ⊢
  cases hu : uviLoop buf 0 0 with
  | insufficient => simp [hu] at h
  | overflow =>
    rw [uviLoop_stable x buf 0 0 (by simp [hu]), hu]; simp [UviRes.extend, FrameRes.extend]
  | notMinimal =>
    rw [uviLoop_stable x buf 0 0 (by simp [hu]), hu]; simp [UviRes.extend, FrameRes.extend]
  | ok len remaining =>
    rw [uviLoop_stable x buf 0 0 (by simp [hu]), hu]
    simp only [UviRes.extend, hu] at h ⊢
    by_cases h1 : len > MAX_MSG
    · simp [h1, FrameRes.extend]
    · simp only [h1, ↓reduceIte] at h ⊢
      by_cases h2 : remaining.length < len
      · simp [h2] at h
      · have h3 : ¬ (remaining.length + x.length < len) := by omega
        simp only [h2, List.length_append, h3, ↓reduceIte]
        have ht : (remaining ++ x).take len = remaining.take len := by
          rw [List.take_append_of_le_length (by omega)]
        have hd : (remaining ++ x).drop len = remaining.drop len ++ x := by
          rw [List.drop_append_of_le_length (by omega)]
        rw [ht, hd]
        cases pbDecodeMsg (remaining.take len) <;> simp [FrameRes.extend]

/-! ## chunking does not matter -/

def HsRes.extend (y : Bytes) : HsRes → HsRes
  | .ok p l => .ok p (l ++ y)
  | o => o

theorem checkExchange_extend (O : Oracle) (ex : Exchange) (r y : Bytes) :
    checkExchange O ex (r ++ y) = (checkExchange O ex r).extend y := by
  unfold checkExchange
  cases O.key (ex.pubkey.getD []) with
  | none => rfl
  | some kp =>
    cases O.pid (ex.id.getD []) with
    | none => rfl
    | some ip => by_cases h : ip = kp <;> simp [h, HsRes.extend]

theorem hsWhole_of_decided (O : Oracle) (buf y : Bytes) (h : frameDecode buf ≠ .need) :
    hsWhole O (buf ++ y) = (hsWhole O buf).extend y := by
  unfold hsWhole
  rw [frameDecode_stable buf y h]
  cases hf : frameDecode buf with
  | need => exact absurd hf h
  | err => simp [FrameRes.extend, HsRes.extend]
  | unsupported => simp [FrameRes.extend, HsRes.extend]
  | got ex rest => simp [FrameRes.extend, checkExchange_extend]

/-- **Split independence**: whatever the chunking of the socket's byte stream, the handshake's
verdict is the verdict on the whole stream, and `read_buffer` ++ the unread chunks are exactly the
bytes after the handshake message. -/
theorem hsRead_eq_whole (O : Oracle) : ∀ (chunks : List Bytes) (buf : Bytes),
    hsWhole O (buf ++ chunks.flatten) =
      (hsRead O buf chunks).1.extend (hsRead O buf chunks).2.flatten := by
  intro chunks
  induction chunks with
  | nil =>
    intro buf
    simp only [List.flatten_nil, List.append_nil, hsRead, hsWhole]
    cases frameDecode buf <;> simp [HsRes.extend]
    · split <;> simp
    · cases checkExchange O _ _ <;> simp
  | cons c cs ih =>
    intro buf
    by_cases hn : frameDecode buf = .need
    · simp only [hsRead, hn, List.flatten_cons]
      rw [← List.append_assoc]
      exact ih (buf ++ c)
    · rw [hsWhole_of_decided O buf _ hn]
      unfold hsRead hsWhole
      cases hf : frameDecode buf with
      | need => exact absurd hf hn
      | err => simp [HsRes.extend]
      | unsupported => simp [HsRes.extend]
      | got ex rest => simp

theorem HsRes.extend_eq_mismatch (r : HsRes) (y : Bytes) : r.extend y = .mismatch ↔ r = .mismatch := by
  cases r <;> simp [HsRes.extend]

theorem HsRes.extend_ok (r : HsRes) (y : Bytes) (p l : Bytes) (h : r = .ok p l) :
    r.extend y = .ok p (l ++ y) := by
  subst h; rfl

/-- what `hsWhole` accepts -/
theorem hsWhole_ok_iff (O : Oracle) (stream p rest : Bytes) :
    hsWhole O stream = .ok p rest ↔
      ∃ ex, frameDecode stream = .got ex rest ∧ O.key (ex.pubkey.getD []) = some p ∧
        O.pid (ex.id.getD []) = some p := by
  unfold hsWhole
  cases hf : frameDecode stream with
  | need => simp; split <;> simp
  | err => simp
  | unsupported => simp
  | got ex r =>
    simp only [FrameRes.got.injEq]
    unfold checkExchange
    cases hk : O.key (ex.pubkey.getD []) with
    | none => simp; intro _ hx _; rw [hk] at hx; simp at hx
    | some kp =>
      cases hi : O.pid (ex.id.getD []) with
      | none => simp; intro _ _ hx; rw [hi] at hx; simp at hx
      | some ip =>
        by_cases h : ip = kp
        · subst h
          simp only [ne_eq, not_true_eq_false, ↓reduceIte, HsRes.ok.injEq]
          constructor
          · rintro ⟨rfl, rfl⟩; exact ⟨ex, ⟨rfl, rfl⟩, hk, hi⟩
          · rintro ⟨x, ⟨rfl, rfl⟩, h1, h2⟩; rw [hk] at h1; simp at h1; exact ⟨h1, rfl⟩
        · simp only [ne_eq, h, not_false_eq_true, ↓reduceIte, reduceCtorEq, false_iff, not_exists,
            not_and]
          rintro x ⟨rfl, rfl⟩ h1 h2
          rw [hk] at h1; rw [hi] at h2
          simp at h1 h2; exact h (h2.trans h1.symm)

/-! ## `Output::poll_read` -/

theorem pipeRead_spec : ∀ (cs : List Bytes) (n : Nat),
    (pipeRead cs n).2 ++ (pipeRead cs n).1.flatten = cs.flatten ∧
    (pipeRead cs n).2.length ≤ n ∧
    ((pipeRead cs n).2 = [] → n = 0 ∨ cs.flatten = []) := by
  intro cs
  induction cs with
  | nil => intro n; simp [pipeRead]
  | cons c cs ih =>
    intro n
    unfold pipeRead
    by_cases hc : c = []
    · subst hc; simpa using ih n
    · have hce : c.isEmpty = false := by simpa using hc
      simp only [hce, Bool.false_eq_true, ↓reduceIte]
      by_cases hn : n ≥ c.length
      · simp only [hn, ↓reduceIte, List.flatten_cons, true_and]
        have : 0 < c.length := List.length_pos_iff.mpr hc
        intro h; exact absurd h hc
      · simp only [hn, ↓reduceIte, List.flatten_cons, List.length_take]
        refine ⟨by rw [← List.append_assoc, List.take_append_drop], by omega, ?_⟩
        intro h
        have : 0 < c.length := List.length_pos_iff.mpr hc
        have h2 : (c.take n).length = 0 := by rw [h]; rfl
        rw [List.length_take] at h2
        left; omega

/-- every read returns the next bytes of what followed the handshake message; a non-empty request
returns nothing only at the end -/
theorem outRead_spec (st : PlainSt) (n : Nat) :
    (outRead st n).2 ++ (outRead st n).1.pending = st.pending ∧
    (outRead st n).2.length ≤ n ∧
    ((outRead st n).2 = [] → n = 0 ∨ st.pending = []) := by
  unfold outRead PlainSt.pending
  by_cases hl : st.leftover = []
  · have := pipeRead_spec st.chunks n
    simp only [hl, List.isEmpty_nil, Bool.not_true, Bool.false_eq_true, ↓reduceIte, List.nil_append]
    exact this
  · have hle : st.leftover.isEmpty = false := by simpa using hl
    simp only [hle, Bool.not_false, ↓reduceIte, List.length_take]
    refine ⟨by rw [← List.append_assoc, List.take_append_drop], by omega, ?_⟩
    intro h
    have : 0 < st.leftover.length := List.length_pos_iff.mpr hl
    have h2 : (st.leftover.take n).length = 0 := by rw [h]; rfl
    rw [List.length_take] at h2
    left; omega

/-- a sequence of reads with any buffer sizes -/
def readMany : PlainSt → List Nat → PlainSt × Bytes
  | st, [] => (st, [])
  | st, n :: ns =>
    let (st1, o1) := outRead st n
    let (st2, o2) := readMany st1 ns
    (st2, o1 ++ o2)

theorem readMany_spec : ∀ (ns : List Nat) (st : PlainSt),
    (readMany st ns).2 ++ (readMany st ns).1.pending = st.pending := by
  intro ns
  induction ns with
  | nil => intro st; simp [readMany]
  | cons n ns ih =>
    intro st
    simp only [readMany]
    have h1 := (outRead_spec st n).1
    have h2 := ih (outRead st n).1
    rw [List.append_assoc, h2, h1]

/-- reading `k` times with a non-empty buffer delivers at least `min k |pending|` bytes, hence
everything once `k ≥ |pending|` -/
theorem readMany_complete (n : Nat) (hn : 0 < n) : ∀ (k : Nat) (st : PlainSt),
    st.pending.length ≤ k → (readMany st (List.replicate k n)).2 = st.pending := by
  intro k
  induction k with
  | zero =>
    intro st h
    have : st.pending = [] := List.eq_nil_of_length_eq_zero (by omega)
    simp [readMany, this]
  | succ k ih =>
    intro st h
    simp only [List.replicate_succ, readMany]
    have ⟨h1, _, h3⟩ := outRead_spec st n
    by_cases he : (outRead st n).2 = []
    · rcases h3 he with h0 | hp
      · omega
      · have hp' : (outRead st n).1.pending = [] := by
          have := h1; rw [he, hp] at this; simpa using this
        rw [ih _ (by rw [hp']; simp), he, hp', hp]; rfl
    · have hlen : (outRead st n).1.pending.length < st.pending.length := by
        have : 0 < (outRead st n).2.length := List.length_pos_iff.mpr he
        have := congrArg List.length h1
        rw [List.length_append] at this; omega
      rw [ih _ (by omega)]
      exact h1

end C19
